//! Grammar-based generator of ProGuard/R8 mapping files, token mutator, byte soups, and the
//! query universe derived from a mapping.

use crate::rng::Rng;
use proguard::{ProguardMapping, ProguardRecord};
use std::collections::BTreeSet;

pub const OBF_CLASSES: &[&str] = &[
    "a", "a.a", "a$a", "a.a$b", "ab", "b", "a.b", "é", "日本", "a.a.a", "a.a$", "A", "a.b.c", "c",
    // byte order vs UTF-16 code-unit order vs code-point order: astral vs U+E000..U+FFFF
    "p.\u{1D49C}", "p.\u{FF21}", "p.Z", "\u{E000}", "\u{10000}", "\u{FFFD}x", "\u{7F}", "\u{80}",
    // names that differ only in the continuation byte of a two-byte character
    "x.\u{e0}", "x.\u{e8}", "x.\u{e9}", "x.\u{ea}", "x.\u{eb}", "x.\u{e9}a", "x.",
    // spaces inside an obfuscated name (legal: it extends to the colon), precomposed vs decomposed é
    "a b", "a\tb", " a", "a ", "e\u{301}", "\u{e9}", "A.a", "a.A",
    // a literal '/' in a class name (descriptors spell '.' as '/'), and obfuscated names that stay
    // in platform-looking packages
    "a/b", "a/a", "p/q.r", "java.util.a", "javax.b", "android.support.v4.app.e", "kotlin.c", "kotlin.jvm.internal.k", "kotlinx.coroutines.a0", "a)b", "x<y", "a<b>",
    "e\u{200b}", "\u{200b}e",
];
pub const ORIG_CLASSES: &[&str] = &[
    "com.example.Foo",
    "com.example.Foo$Inner",
    "com.example.Foo$Inner$Deep",
    "o.A",
    "o.B",
    "x.Long",
    "Lib",
    "I",
    "Ünï.Cödé",
    "com.example.Bar",
    "NoPackage",
    "a.b.C$",
    "k.$Weird",
    "gen$erated.app.Main$$Lambda0",
    "a$b.c.D$E",
    "$.$",
    // multi-byte characters before / after a `$` in the last segment (character index vs byte offset)
    "com.example.Größe$Inner",
    "org.other.Ünit$1",
    "日本.語$内",
    "p.\u{1D49C}x$y",
    "é$",
    "q.$é$x",
    // `[]` inside / at the end of a class name (array suffixes are appended to, never cut from, a name)
    "com.example.collision.Avoid",
    "void",
    "com.example.Matrix[]",
    "com.example.Row[]View",
    "x[]",
];
pub const OBF_METHODS: &[&str] = &["a", "b", "m", "<init>", "c", "ab", "a$", "k", "onClick", "\u{1D49C}", "\u{FF21}",
    // NUL inside a name: `(name, args)` compared as a tuple vs as one joined string
    "a\u{0}", "k\u{0}b", "a\u{1}",
    // white space is part of a name: nothing trims the obfuscated name or the argument string
    "\t", "\u{3000}", "a ", " a", "\u{a0}"];
pub const ORIG_METHODS: &[&str] = &[
    "foo", "bar", "<init>", "lambda$x$0", "baz", "foo2", "onClick", "x", "<clinit>", "méthode",
    // concatenation coincidences with ARGS ("" ++ "intfoo" = "int" ++ "foo", …)
    "intfoo", "int,longbar", "a.bx",
    // … and in the other order ("fooint" ++ "" = "foo" ++ "int", …)
    "fooint", "xint", "barint,long", "xa.b",
];
pub const ARGS: &[&str] = &["", "int", "java.lang.String", "int,long", "a.b", "android.view.View", "int[]", "z", "b", "b\u{0}c", "c", "\u{0}", " b", "a", " a", "a ", " ", "\t"];
pub const TYPES: &[&str] = &["void", "int", "java.lang.String", "a.b[]", "o.A", "boolean", "é.T"];
pub const FILES: &[&str] = &["Foo.kt", "Bar.java", "R8$$SyntheticClass", "SourceFile", "Ünï.kt", "x", "C:\\src\\Foo.kt", "a\\", "\\", "R8$$SyntheticClass", "{}", "a:b",
    // white space inside / around a quoted file name is part of the name
    " Outer Impl.kt", "R8$$SyntheticClass ", " R8$$SyntheticClass", "\tx ", " ", "Main(1).java",
    // near misses of the synthetic-class marker: only the exact literal is special
    "D8$$SyntheticClass", "R8$$Desugared.java", "R8$$", "Generated$$SyntheticClass", "r8$$syntheticclass", "R8$$SyntheticClass.java", "R8$SyntheticClass", "$$SyntheticClass"];

/// a name whose LEB128 length prefix needs 3 bytes (> 16383 bytes)
pub fn huge_name(rng: &mut Rng) -> String {
    let n = rng.range(16380, 16500);
    let mut s = String::from("h.");
    while s.len() < n {
        s.push((b'a' + (rng.below(26) as u8)) as char);
    }
    s
}

pub fn long_name(rng: &mut Rng) -> String {
    if rng.pct(20) {
        // around the 1-byte / 2-byte length-prefix boundary exactly
        let n = rng.pick(&[126usize, 127, 128, 129, 255, 256, 257, 300, 383, 384, 511, 512, 600, 1000]);
        let mut s = String::from("p.");
        while s.len() < n {
            s.push((b'a' + (rng.below(26) as u8)) as char);
        }
        return s;
    }
    let n = rng.range(128, 140);
    let mut s = String::from("p.");
    while s.len() < n {
        s.push((b'a' + (rng.below(26) as u8)) as char);
    }
    s
}

#[derive(Clone, Copy, PartialEq, Eq, Debug)]
pub enum Term {
    Lf,
    CrLf,
    Cr,
    Mixed,
}

#[derive(Clone, Debug)]
pub struct Cfg {
    pub min_classes: usize,
    pub max_classes: usize,
    pub max_members: usize,
    /// numbers ≥ 2^32-1, 2^64 etc. allowed (outside the representable domain)
    pub hostile_numbers: bool,
    /// empty names allowed (outside the representable domain)
    pub empty_names: bool,
    pub noise_pct: usize,
    pub term: Option<Term>,
    pub many_similar: bool,
    /// percentage of class / foreign-class names that are > 16 KiB
    pub huge_pct: usize,
}

impl Cfg {
    pub fn domain() -> Self {
        Cfg {
            min_classes: 0,
            max_classes: 6,
            max_members: 8,
            hostile_numbers: false,
            empty_names: false,
            noise_pct: 12,
            term: None,
            many_similar: false,
            huge_pct: 0,
        }
    }
    pub fn hostile() -> Self {
        Cfg { hostile_numbers: true, empty_names: true, noise_pct: 25, ..Cfg::domain() }
    }
}

fn small_line(rng: &mut Rng, hostile: bool) -> u64 {
    if rng.pct(4) {
        // byte / word boundaries
        return rng.pick(&[127u64, 128, 255, 256, 257, 32767, 32768, 65535, 65536, 65537, (1 << 24) - 1, 1 << 24, 999, 1000, 9999, 10000]);
    }
    match rng.below(100) {
        0..=69 => rng.below(14) as u64,
        70..=84 => rng.range(14, 70) as u64,
        85..=89 => 0,
        90..=93 => (1u64 << 31) - 1 + rng.below(3) as u64,
        94..=96 => (1u64 << 32) - 2 - rng.below(3) as u64,
        _ => {
            if hostile {
                rng.pick(&[
                    (1u64 << 32) - 1,
                    1u64 << 32,
                    (1u64 << 32) + 5,
                    1u64 << 33,
                    1u64 << 63,
                    u64::MAX,
                    u64::MAX - 1,
                ])
            } else {
                rng.range(70, 5000) as u64
            }
        }
    }
}

pub struct GenMapping {
    pub text: Vec<u8>,
    pub in_domain: bool,
}

/// One line mapping prefix / suffix choice.
/// decimal, occasionally zero-padded (up to 40 digits)
pub fn num_str(rng: &mut Rng, n: u64) -> String {
    if rng.pct(3) {
        let pad = rng.pick(&[1usize, 2, 5, 18, 19, 20, 21, 22, 30, 40]);
        format!("{}{}", "0".repeat(pad), n)
    } else {
        n.to_string()
    }
}

fn member_line(rng: &mut Rng, cfg: &Cfg, range: Option<(u64, u64)>, obf: &str) -> String {
    let mut s = String::from("    ");
    if let Some((a, b)) = range {
        s.push_str(&format!("{}:{}:", num_str(rng, a), num_str(rng, b)));
    }
    let is_field = rng.pct(12) && range.is_none();
    let ty = rng.pick(TYPES);
    s.push_str(ty);
    s.push(' ');
    if is_field {
        s.push_str(rng.pick(&["field", "mField", "x", "INSTANCE"]));
        s.push_str(" -> ");
        s.push_str(obf);
        return s;
    }
    if rng.pct(28) {
        if rng.pct(10) {
            s.push_str(&long_name(rng));
        } else {
            s.push_str(rng.pick(ORIG_CLASSES));
        }
        s.push('.');
    }
    let name = if cfg.empty_names && rng.pct(3) { "" } else { rng.pick(ORIG_METHODS) };
    s.push_str(name);
    s.push('(');
    s.push_str(rng.pick(ARGS));
    s.push(')');
    match rng.below(10) {
        0..=2 => {}
        3..=5 => {
            let os = small_line(rng, cfg.hostile_numbers);
            s.push_str(&format!(":{}", num_str(rng, os)));
        }
        6 => {
            let os = small_line(rng, cfg.hostile_numbers);
            s.push_str(&format!(":{}:{}", os, os));
        }
        _ => {
            let os = small_line(rng, cfg.hostile_numbers);
            let oe = if let Some((a, b)) = range {
                if rng.pct(70) && b >= a { os.saturating_add(b - a) } else { small_line(rng, cfg.hostile_numbers) }
            } else {
                small_line(rng, cfg.hostile_numbers)
            };
            s.push_str(&format!(":{}:{}", os, oe));
        }
    }
    s.push_str(" -> ");
    if cfg.empty_names && rng.pct(3) {
        // empty obfuscated name
    } else {
        s.push_str(obf);
    }
    s
}

const NOISE: &[&str] = &[
    "garbage",
    "  two spaces -> x",
    "a -> b",
    "a->b:",
    "",
    "    1:void x() -> y",
    "    void -> y",
    "     x -> a",
    "# comment without colon",
    "# key: value",
    "\t1:1:void x():1 -> tab",
    "    1:2:void x(:1 -> y",
    "x -> y: trailing",
    "a -> b:c -> d:",
    "#",
    "#\u{a0}key\u{2003}:\u{3000}value\u{85}",
    "#sourceFile",
    "# sourceFile :x",
    "#\tsourceFile:\ty",
    "    +5:7:void x() -> y",
    "    007:009:void x():0010 -> y",
    "    1:1:java.util.List<java.lang.String> x(java.util.Map<a,b>):1 -> y",
    "# {\"id\":\"sourceFile\",\"fileName\":\"unterminated",
    "# {\"id\":\"com.android.tools.r8.mapping\",\"version\":\"2.2\"}",
    // a leading number that is not a `start:end:` prefix
    "    3d bogusX() -> a",
    "    12 bogusY() -> b",
    "    7 int f -> m",
    "    5:void z() -> a",
    // a field line with a `start:end:` prefix is still a field record
    "    1:1:int counter -> a",
    "    3:4:int[] f -> b",
    "    0:0:o.T g -> c",
    "    1:1:int counter:5:6 -> a",
    // an indented line without any blank after the indentation (the type scan ends at the line
    // end), directly followed by member-like lines indented by 0 or 1 blanks
    "    int\nint f -> c",
    "    f->c\n f -> c",
    "    1:2:run(int)\nint g -> d",
    "    int\r\nint f -> c",
    "    int\n\nint f -> c",
];

fn source_file_line(rng: &mut Rng, cfg: &Cfg) -> String {
    let f = if cfg.empty_names && rng.pct(5) { "" } else { rng.pick(FILES) };
    match rng.below(10) {
        0..=4 => format!("# {{\"id\":\"sourceFile\",\"fileName\":\"{}\"}}", f),
        5..=7 => format!("# sourceFile: {}", f),
        8 => match rng.below(3) {
            0 => "# sourceFile".to_string(),
            // near misses of the key: only `sourceFile` is the source-file header
            1 => format!("# {}: {}", rng.pick(&["source_file", "SourceFile", "sourcefile", "source-file", "sourceFiles", "sourceFile2", "file", "source"]), f),
            _ => format!("# {}", rng.pick(&["source_file", "SourceFile", "sourcefile"])),
        },
        _ => format!("#   sourceFile  :  {}  ", f),
    }
}

/// A member line derived from `line` (`    a:b:<rest>[:c:d] -> name`) whose numbers are *related*
/// to it: the next contiguous range (`b+1 : b+1+(b-a)`, originals shifted likewise), the same
/// start with another (possibly smaller) end, or the same end with another start.
fn related_member_line(rng: &mut Rng, line: &str) -> Option<String> {
    let body = line.strip_prefix("    ")?;
    let (left, name) = body.rsplit_once(" -> ")?;
    let mut it = left.splitn(3, ':');
    let a: u64 = it.next()?.parse().ok()?;
    let b: u64 = it.next()?.parse().ok()?;
    let rest = it.next()?;
    if a > (1 << 31) || b > (1 << 31) {
        return None;
    }
    // optional `:c:d` after the closing parenthesis
    let close = rest.rfind(')')?;
    let (sig, tail) = rest.split_at(close + 1);
    let orig: Vec<u64> = tail.split(':').skip(1).filter_map(|x| x.parse().ok()).collect();
    if orig.iter().any(|x| *x > (1 << 31)) {
        return None;
    }
    // half of the time the related entry is another method (same return type and arguments)
    let sig_owned: String;
    let sig: &str = if rng.pct(35) {
        let open = sig.find('(')?;
        let start = sig[..open].rfind(|c| c == ' ' || c == '.').map_or(0, |i| i + 1);
        sig_owned = format!("{}{}{}", &sig[..start], rng.pick(ORIG_METHODS).replace('.', "_"), &sig[open..]);
        &sig_owned
    } else {
        sig
    };
    let span = b.saturating_sub(a);
    // one time in four the related entry sits under ANOTHER obfuscated name: equal original
    // signatures and contiguous ranges do not make two entries one method
    let other_name: String;
    let name: &str = if rng.pct(25) {
        other_name = rng.pick(&OBF_METHODS[..6]).to_string();
        &other_name
    } else {
        name
    };
    match rng.below(6) {
        4 => {
            // the mirror image `b:a:` of `a:b:` (a different range unless a == b)
            Some(format!("    {}:{}:{}{} -> {}", b, a, sig, tail, name))
        }
        5 => {
            // the directly PRECEDING chunk (`a-span-1 : a-1`, originals shifted back likewise), listed
            // after this one: entries stay in file order, whatever their numbers say
            if a <= span + 1 {
                return None;
            }
            let (na, nb) = (a - span - 1, a - 1);
            let t = match orig.as_slice() {
                [c, d] if d >= c && *c > (d - c) + 1 => format!(":{}:{}", c - (d - c) - 1, c - 1),
                [c] if *c > span + 1 => format!(":{}", c - span - 1),
                _ => tail.to_string(),
            };
            Some(format!("    {}:{}:{}{} -> {}", na, nb, sig, t, name))
        }
        0 => {
            // contiguous continuation
            let (na, nb) = (b + 1, b + 1 + span);
            let t = match orig.as_slice() {
                [c, d] if d >= c && *d < (1 << 31) => format!(":{}:{}", d + 1, d + 1 + (d - c)),
                [c] => format!(":{}", c + span + 1),
                _ => tail.to_string(),
            };
            Some(format!("    {}:{}:{}{} -> {}", na, nb, sig, t, name))
        }
        1 => {
            let nb = match rng.below(3) { 0 => a.saturating_sub(rng.range(1, 4) as u64), 1 => b + rng.range(1, 4) as u64, _ => b.saturating_sub(1) };
            Some(format!("    {}:{}:{}{} -> {}", a, nb, sig, tail, name))
        }
        2 => {
            let na = match rng.below(2) { 0 => a + rng.range(1, 3) as u64, _ => a.saturating_sub(1) };
            Some(format!("    {}:{}:{}{} -> {}", na, b, sig, tail, name))
        }
        _ => {
            // the same obfuscated range with the original end below the original start
            match orig.as_slice() {
                [c, _] => Some(format!("    {}:{}:{}:{}:{} -> {}", a, b, sig, c, c.saturating_sub(rng.range(1, 3) as u64), name)),
                _ => None,
            }
        }
    }
}

pub fn gen_mapping(rng: &mut Rng, cfg: &Cfg) -> GenMapping {
    let mut lines: Vec<String> = Vec::new();
    // preamble
    if rng.pct(30) {
        lines.push("# compiler: R8".into());
        lines.push("# compiler_version: 2.0.74".into());
        if rng.pct(50) {
            lines.push("# min_api: 15".into());
        }
    }
    if rng.pct(3) {
        // 45..70 records before the first member line (comments, headers, member-less classes)
        for i in 0..rng.range(45, 70) {
            match rng.below(3) {
                0 => lines.push(format!("# comment {}", i)),
                1 => lines.push(format!("o.Kept{} -> o.Kept{}:", i, i)),
                _ => lines.push("# {\"id\":\"com.android.tools.r8.mapping\",\"version\":\"2.2\"}".to_string()),
            }
        }
    }
    if rng.pct(8) {
        lines.push(source_file_line(rng, cfg)); // before the first class
    }
    if rng.pct(5) {
        // members before the first class (dummy class)
        lines.push("    1:1:void early():1 -> e".into());
    }
    let nclasses = rng.range(cfg.min_classes, cfg.max_classes);
    let mut used: Vec<String> = Vec::new();
    // member lines of earlier blocks, per obfuscated class name (for duplicate blocks that
    // repeat entries of the block they replace)
    let mut earlier: Vec<(String, Vec<String>)> = Vec::new();
    for _ in 0..nclasses {
        if !cfg.many_similar && rng.pct(7) {
            // a `-keep`'d class: class and methods map to themselves, ranges map to themselves, so a
            // frame of it is remapped to an identical frame (which must still be re-printed)
            let k = rng.pick(ORIG_CLASSES).to_string();
            lines.push(format!("{} -> {}:", k, k));
            for _ in 0..rng.range(1, 3) {
                // (a dotted "method" would be parsed as class.method, leaving a dotted obfuscated name)
                let mut m = rng.pick(ORIG_METHODS);
                if m.contains('.') {
                    m = "keep";
                }
                let a = small_line(rng, false);
                let b = a.saturating_add(rng.below(6) as u64);
                match rng.below(4) {
                    0 => lines.push(format!("    void {}({}) -> {}", m, rng.pick(ARGS), m)),
                    1 => lines.push(format!("    {}:{}:void {}({}) -> {}", a, b, m, rng.pick(ARGS), m)),
                    _ => lines.push(format!("    {}:{}:void {}({}):{}:{} -> {}", a, b, m, rng.pick(ARGS), a, b, m)),
                }
            }
            used.push(k);
            continue;
        }
        let mut replay: Vec<String> = Vec::new();
        let obf: String = if !used.is_empty() && rng.pct(12) {
            let name = rng.pick(&used).clone(); // duplicate class name
            if rng.pct(60) {
                if let Some((_, ls)) = earlier.iter().rev().find(|(n, _)| *n == name) {
                    replay = ls.clone();
                }
            }
            name
        } else if cfg.many_similar {
            similar_name(rng)
        } else if rng.pct(6) {
            long_name(rng)
        } else {
            rng.pick(OBF_CLASSES).to_string()
        };
        used.push(obf.clone());
        let orig: String = if cfg.empty_names && rng.pct(3) {
            String::new()
        } else if cfg.huge_pct > 0 && rng.pct(cfg.huge_pct) {
            huge_name(rng)
        } else if rng.pct(5) {
            long_name(rng)
        } else {
            rng.pick(ORIG_CLASSES).to_string()
        };
        let obf_print = if cfg.empty_names && rng.pct(3) { String::new() } else { obf };
        lines.push(format!("{} -> {}:", orig, obf_print));
        let block_start = lines.len();
        if rng.pct(35) {
            lines.push(source_file_line(rng, cfg));
        }
        for l in &replay {
            if rng.pct(70) {
                lines.push(l.clone());
            }
        }
        let nmem = rng.below(cfg.max_members + 1);
        let mut i = 0;
        while i < nmem {
            if rng.pct(cfg.noise_pct) {
                lines.push(rng.pick(NOISE).to_string());
            }
            if rng.pct(6) {
                lines.push(source_file_line(rng, cfg));
            }
            let few = rng.pct(70);
            let obf_m = rng.pick(&OBF_METHODS[..if cfg.max_members > 40 { 3 } else if few { 4 } else { OBF_METHODS.len() }]);
            let range = match rng.below(10) {
                0..=1 => None,
                _ => {
                    let a = small_line(rng, cfg.hostile_numbers);
                    let b = match rng.below(10) {
                        0 => a,
                        1 => a.saturating_sub(rng.below(3) as u64), // inverted / equal
                        2 => 0,
                        // a span that is a multiple of 2^8 / 2^16 / 2^24: end ≡ start in a narrower width
                        3 if a < (1 << 31) => a + rng.pick(&[256u64, 65536, 131072, 1 << 24, 65536 * 3]),
                        _ => a.saturating_add(rng.below(6) as u64),
                    };
                    Some((a, b))
                }
            };
            // inline group: several entries with the same obfuscated range
            let group = if range.is_some() && rng.pct(35) { rng.range(2, 4) } else { 1 };
            for gi in 0..group {
                if gi > 0 && rng.pct(6) {
                    // something between two entries of one obfuscated range: only a *method* entry
                    // with the identical range right after an entry marks it as an inlined callee
                    lines.push(rng.pick(&["# {\"id\":\"com.android.tools.r8.synthesized\"}", "# {\"id\":\"com.android.tools.r8.residualsignature\",\"signature\":\"()V\"}",
                        "# comment", "    int between -> fld", "noise", "#"]).to_string());
                }
                lines.push(member_line(rng, cfg, range, obf_m));
                i += 1;
            }
            if rng.pct(8) && range.is_some() {
                // exact repetition (same triple) — by-params de-duplication
                let last = lines.last().unwrap().clone();
                lines.push(last);
            }
            if rng.pct(9) && range.is_some() {
                // a neighbour whose numbers are related to the previous entry's (contiguous
                // continuation, same start / other end, same end / other start, inverted originals)
                let last = lines.last().unwrap().clone();
                if let Some(l) = related_member_line(rng, &last) {
                    lines.push(l);
                    if rng.pct(30) {
                        let last = lines.last().unwrap().clone();
                        if let Some(l2) = related_member_line(rng, &last) {
                            lines.push(l2);
                        }
                    }
                }
            }
        }
        let members: Vec<String> = lines[block_start..].iter().filter(|l| l.starts_with("    ") && l.contains('(')).cloned().collect();
        earlier.push((used.last().unwrap().clone(), members));
    }
    // member lines of the first class repeated *before* the first class line (what a section that
    // starts mid-class looks like): they belong to no class, and must not influence the class that
    // follows (de-duplication state, counts)
    if rng.pct(5) {
        if let Some((_, ms)) = earlier.first() {
            if !ms.is_empty() {
                if let Some(at) = lines.iter().position(|l| !l.starts_with(' ') && !l.starts_with('#') && l.contains(" -> ") && l.ends_with(':')) {
                    let k = rng.range(1, 2).min(ms.len());
                    for j in 0..k {
                        lines.insert(at + j, ms[j].clone());
                    }
                }
            }
        }
    }
    // terminators
    let term = cfg.term.unwrap_or(rng.pick(&[Term::Lf, Term::Lf, Term::CrLf, Term::Cr, Term::Mixed]));
    let mut text = Vec::new();
    let n = lines.len();
    // a UTF-8 byte-order mark at the start of the file or of a later line is part of that line
    let bom_at = if rng.pct(4) { Some(0) } else if rng.pct(2) && n > 0 { Some(rng.below(n)) } else { None };
    for (i, l) in lines.iter().enumerate() {
        if bom_at == Some(i) {
            text.extend_from_slice(b"\xef\xbb\xbf");
        }
        text.extend_from_slice(l.as_bytes());
        let last = i + 1 == n;
        if last && rng.pct(40) {
            break;
        }
        match term {
            Term::Lf => text.push(b'\n'),
            Term::CrLf => text.extend_from_slice(b"\r\n"),
            Term::Cr => text.push(b'\r'),
            Term::Mixed => text.extend_from_slice(rng.pick(&[&b"\n"[..], b"\r\n", b"\r", b"\n\n", b"\r\n\r\n"])),
        }
    }
    let in_domain = is_representable(&text);
    GenMapping { text, in_domain }
}

fn similar_name(rng: &mut Rng) -> String {
    // adversarially similar: prefixes, '$' / '.' variants over a tiny alphabet
    let n = rng.range(1, 5);
    let mut s = String::new();
    for i in 0..n {
        if i > 0 {
            s.push(rng.pick(&['.', '$', 'a']));
        }
        s.push(rng.pick(&['a', 'a', 'b', 'é', 'A']));
    }
    s
}

/// C02's representable domain, decided on the record stream: every name that is present is
/// non-empty and every line number is < 2^32-1.
pub fn is_representable(text: &[u8]) -> bool {
    std::panic::catch_unwind(|| is_representable_inner(text)).unwrap_or(false)
}

fn is_representable_inner(text: &[u8]) -> bool {
    let lim = (u32::MAX - 1) as usize;
    for r in ProguardMapping::new(text).iter().flatten() {
        match r {
            ProguardRecord::Class { original, obfuscated } => {
                if original.is_empty() || obfuscated.is_empty() {
                    return false;
                }
            }
            ProguardRecord::Method { original, obfuscated, original_class, line_mapping, .. } => {
                if original.is_empty() || obfuscated.is_empty() || original_class == Some("") {
                    return false;
                }
                if let Some(l) = line_mapping {
                    if l.startline > lim
                        || l.endline > lim
                        || l.original_startline.map_or(false, |x| x > lim)
                        || l.original_endline.map_or(false, |x| x > lim)
                    {
                        return false;
                    }
                }
            }
            ProguardRecord::Header { key: "sourceFile", value: Some("") } => return false,
            _ => {}
        }
    }
    true
}

/// token mutation: delete / duplicate / swap / insert a delimiter token
pub fn mutate(rng: &mut Rng, text: &[u8]) -> Vec<u8> {
    const TOKS: &[&[u8]] = &[b"    ", b" -> ", b":", b"(", b")", b".", b"#", b"1", b"0", b"\n", b"\r", b" ", b"\"", b"$"];
    let mut t = text.to_vec();
    let edits = rng.range(1, 3);
    for _ in 0..edits {
        if t.is_empty() {
            t.extend_from_slice(rng.pick(TOKS));
            continue;
        }
        let pos = rng.below(t.len());
        if rng.pct(8) {
            // a lone non-ASCII byte next to a digit: `(b as char).is_numeric()` holds for the Latin-1
            // code points ² ³ ¹ ¼ ½ ¾, which as lone bytes are invalid UTF-8
            if let Some(i) = (pos..t.len()).find(|&i| t[i].is_ascii_digit()) {
                let b = rng.pick(&[0xB2u8, 0xB3, 0xB9, 0xBC, 0xBD, 0xBE, 0xB1, 0xFF, 0x80, 0xC2, 0xAA]);
                t.insert(if rng.pct(50) { i } else { i + 1 }, b);
                continue;
            }
        }
        if rng.pct(25) {
            // a random printable ASCII byte (often right before a line end)
            let c = 33 + rng.below(94) as u8;
            let p = if rng.pct(50) { find_from(&t, b"\n", pos).unwrap_or(pos) } else { snap_char_boundary(&t, pos) };
            t.insert(p, c);
            continue;
        }
        match rng.below(4) {
            0 => {
                // delete a token occurrence at/after pos
                let tok = rng.pick(TOKS);
                if let Some(i) = find_from(&t, tok, pos) {
                    t.drain(i..i + tok.len());
                } else {
                    t.remove(pos);
                }
            }
            1 => {
                let tok = rng.pick(TOKS);
                let p = snap_char_boundary(&t, pos);
                for (k, b) in tok.iter().enumerate() {
                    t.insert(p + k, *b);
                }
            }
            2 => {
                let tok = rng.pick(TOKS);
                if let Some(i) = find_from(&t, tok, pos) {
                    for (k, b) in tok.iter().enumerate() {
                        t.insert(i + k, *b);
                    }
                }
            }
            _ => {
                // replace one token by another
                let a = rng.pick(TOKS);
                let b = rng.pick(TOKS);
                if let Some(i) = find_from(&t, a, pos) {
                    t.splice(i..i + a.len(), b.iter().cloned());
                }
            }
        }
    }
    t
}

fn snap_char_boundary(t: &[u8], mut pos: usize) -> usize {
    while pos < t.len() && (t[pos] & 0xC0) == 0x80 {
        pos += 1;
    }
    pos
}

fn find_from(t: &[u8], tok: &[u8], pos: usize) -> Option<usize> {
    if tok.is_empty() || t.len() < tok.len() {
        return None;
    }
    (pos..=t.len() - tok.len()).find(|&i| &t[i..i + tok.len()] == tok)
}

/// byte soup over the grammar's delimiters plus raw bytes
pub fn soup(rng: &mut Rng, max_len: usize) -> Vec<u8> {
    const TOKS: &[&[u8]] = &[
        b"    ", b" -> ", b":", b"(", b")", b".", b"#", b"1", b"23", b"\n", b"\r", b"\r\n", b" ", b"a", b"b.c",
        b"void", b"\"", b"}", b" {\"id\":\"sourceFile\",\"fileName\":\"", b"sourceFile", b"\xb2", b"\xbc", b"\xc3\xa9",
        b"\xff", b"\xc3", b"\xe2\x80", b"\xe2\x80\xa8", b"\xc2\xa0", b"99999999999999999999999", b"18446744073709551615",
        b"18446744073709551616", b"4294967295", b"0", b"$", b"\t", b"\x00",
        b"\\", b"\\\n", b"\\\r", b"\\\"", b"'", b"`", b"!", b"%", b"&", b"*", b"+", b",", b"-", b"/", b";", b"<", b"=", b">", b"?",
        b"@", b"[", b"]", b"^", b"_", b"{", b"|", b"~", b"000000000000000000001", b"18446744073709551617", b"18446744073709551619",
        b"\"}", b"\"}\n", b"x\"}",
        // byte-order marks and other invisible prefixes
        b"\xef\xbb\xbf", b"\xff\xfe", b"\xfe\xff", b"\xe2\x80\x8b", b"\xe2\x81\xa0", b"\xef\xbb\xbfa -> b:",
    ];
    let n = rng.below(max_len + 1);
    let mut t = Vec::new();
    if rng.pct(8) {
        t.extend_from_slice(b"\xef\xbb\xbf"); // a file that starts with a BOM
    }
    while t.len() < n {
        if rng.pct(85) {
            t.extend_from_slice(rng.pick(TOKS));
        } else {
            t.push(rng.next() as u8);
        }
    }
    t
}

/// The query universe of a mapping, derived by reading its records with the crate.
pub struct Universe {
    pub classes: Vec<String>,
    pub methods: Vec<String>,
    pub args: Vec<String>,
    pub lines: Vec<usize>,
    /// (class, method) pairs that occur together
    pub pairs: Vec<(String, String)>,
    pub originals: Vec<String>,
}

pub fn neighbours(s: &str) -> Vec<String> {
    let mut v = vec![format!("{}\u{0}", s), format!("{}a", s), format!("{}$", s)];
    if let Some((i, _)) = s.char_indices().last() {
        v.push(s[..i].to_string());
    }
    v
}

/// `universe`, but a panic of the crate while reading the records (a defect the checks must
/// report through the protocol run, not a generator crash) yields an empty universe.
pub fn universe(text: &[u8]) -> Universe {
    match std::panic::catch_unwind(|| universe_inner(text)) {
        Ok(u) => u,
        Err(_) => Universe { classes: vec![], methods: vec![], args: vec![], lines: vec![], pairs: vec![], originals: vec![] },
    }
}

fn universe_inner(text: &[u8]) -> Universe {
    let mut classes = BTreeSet::new();
    let mut methods = BTreeSet::new();
    let mut args = BTreeSet::new();
    let mut lines = BTreeSet::new();
    let mut pairs = BTreeSet::new();
    let mut originals = BTreeSet::new();
    let mut cur: Option<String> = None;
    for r in ProguardMapping::new(text).iter().flatten() {
        match r {
            ProguardRecord::Class { obfuscated, original } => {
                classes.insert(obfuscated.to_string());
                originals.insert(original.to_string());
                cur = Some(obfuscated.to_string());
            }
            ProguardRecord::Method { obfuscated, arguments, line_mapping, original_class, .. } => {
                methods.insert(obfuscated.to_string());
                args.insert(arguments.to_string());
                if let Some(c) = &cur {
                    pairs.insert((c.clone(), obfuscated.to_string()));
                }
                if let Some(oc) = original_class {
                    originals.insert(oc.to_string());
                }
                if let Some(l) = line_mapping {
                    for x in [l.startline, l.endline] {
                        lines.insert(x);
                        lines.insert(x.saturating_sub(1));
                        lines.insert(x.saturating_add(1));
                    }
                    if l.endline > l.startline.saturating_add(1) {
                        lines.insert(l.startline + (l.endline - l.startline) / 2);
                    }
                }
            }
            _ => {}
        }
    }
    Universe {
        classes: classes.into_iter().collect(),
        methods: methods.into_iter().collect(),
        args: args.into_iter().collect(),
        lines: lines.into_iter().collect(),
        pairs: pairs.into_iter().collect(),
        originals: originals.into_iter().collect(),
    }
}

pub const EXTREME_LINES: &[usize] = &[
    (1usize << 31) - 1,
    1usize << 31,
    (1usize << 32) - 2,
    (1usize << 32) - 1,
    1usize << 32,
    (1usize << 32) + 1,
    usize::MAX - 1,
    usize::MAX,
];

pub fn corpus_files() -> Vec<(String, Vec<u8>)> {
    let mut v = Vec::new();
    if let Ok(rd) = std::fs::read_dir("/repo/tests/res") {
        let mut names: Vec<_> = rd.flatten().map(|e| e.path()).collect();
        names.sort();
        for p in names {
            if p.extension().map_or(false, |e| e == "txt") {
                if let Ok(b) = std::fs::read(&p) {
                    v.push((p.file_name().unwrap().to_string_lossy().to_string(), b));
                }
            }
        }
    }
    v
}
