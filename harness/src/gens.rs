//! Per-property case generators.  Each emits protocol lines prefixed by a domain tag:
//! `D ` = inside the property's quantifier domain, `O ` = outside (model/code tie only).

use crate::genmap::*;
use crate::proto::{hx, hxs};
use crate::rng::Rng;
use std::collections::BTreeMap;

pub struct Out {
    pub lines: Vec<String>,
    pub stats: BTreeMap<String, u64>,
}
impl Out {
    pub fn new() -> Self {
        Out { lines: Vec::new(), stats: BTreeMap::new() }
    }
    pub fn d(&mut self, op: String) {
        self.lines.push(format!("D {}", op));
    }
    pub fn o(&mut self, op: String) {
        self.lines.push(format!("O {}", op));
    }
    pub fn t(&mut self, dom: bool, op: String) {
        if dom {
            self.d(op)
        } else {
            self.o(op)
        }
    }
    pub fn count(&mut self, k: &str) {
        *self.stats.entry(k.to_string()).or_insert(0) += 1;
    }
    pub fn add(&mut self, k: &str, n: u64) {
        *self.stats.entry(k.to_string()).or_insert(0) += n;
    }
}

/// the `FMT` operation (independent format decoder in the Lean spec) is emitted only when the
/// driver announces it (`PGH_FMT=1`)
pub fn fmt_enabled() -> bool {
    std::env::var("PGH_FMT").map_or(false, |v| v == "1")
}

pub fn thorough(tier: &str) -> bool {
    tier == "thorough"
}

fn opt_hxs(o: Option<&str>) -> String {
    o.map_or("-".to_string(), hxs)
}

fn map_op(out: &mut Out, dom: bool, text: &[u8]) {
    out.t(dom, format!("MAP {}", hx(text)));
    out.count("mappings");
    out.add("mapping_bytes", text.len() as u64);
    if !dom {
        out.count("mappings_out_of_domain");
    }
}

fn class_queries(rng: &mut Rng, u: &Universe) -> Vec<String> {
    let mut v: Vec<String> = u.classes.clone();
    for c in u.classes.iter().take(4) {
        v.extend(neighbours(c));
    }
    v.push("zz.Unknown".into());
    v.push(String::new());
    if !u.originals.is_empty() {
        v.push(rng.pick(&u.originals).clone());
    }
    // strings that are *not* class names of the file but are derived from one
    for c in u.classes.iter().take(3) {
        v.push(format!("L{};", c));
        v.push(format!("L{};", c.replace('.', "/")));
        v.push(c.replace('.', "/"));
        v.push(format!("[L{};", c));
        v.push(format!("{}[]", c));
        v.push(format!(" {}", c));
        v.push(format!("{} ", c));
        v.push(format!("{}:", c));
        v.push(c.to_uppercase());
        v.push(c.to_lowercase());
    }
    v.sort();
    v.dedup();
    v
}

fn line_set(rng: &mut Rng, u: &Universe, base_max: usize, cap: usize) -> Vec<usize> {
    let mut v: Vec<usize> = (0..=base_max).collect();
    v.extend(u.lines.iter().cloned());
    v.extend(EXTREME_LINES.iter().cloned());
    v.sort();
    v.dedup();
    if v.len() > cap {
        // keep every boundary line of the mapping and the extremes, sample the rest
        let mut keep: Vec<usize> = u.lines.clone();
        keep.extend(EXTREME_LINES.iter().cloned());
        keep.push(0);
        keep.push(1);
        while keep.len() < cap {
            keep.push(rng.pick(&v));
        }
        keep.sort();
        keep.dedup();
        keep
    } else {
        v
    }
}

fn frl_queries(out: &mut Out, rng: &mut Rng, dom: bool, u: &Universe, base_max: usize, cap: usize) {
    let lines = line_set(rng, u, base_max, cap);
    let mut pairs: Vec<(String, String)> = u.pairs.clone();
    // unknown method in a known class, known method in an unknown class, neighbours
    for c in u.classes.iter().take(3) {
        pairs.push((c.clone(), "nosuch".into()));
        if let Some(m) = u.methods.first() {
            pairs.push((format!("{}x", c), m.clone()));
        }
    }
    if let (Some(c), Some(m)) = (u.classes.first(), u.methods.last()) {
        pairs.push((c.clone(), m.clone()));
        pairs.push((c.clone(), format!("{}\u{0}", m)));
    }
    pairs.push(("zz.Unknown".into(), "m".into()));
    let mut flip = false;
    for (c, m) in &pairs {
        for &l in &lines {
            flip = !flip;
            // (the frame's own file may itself be the synthetic-class marker or a near miss of it)
            let file = if rng.pct(6) { Some(rng.pick(&["R8$$SyntheticClass", "R8$$SyntheticClass", "D8$$SyntheticClass", "R8$$SyntheticClass.java", "", "SourceFile"])) } else if flip { Some("SF.java") } else { None };
            out.t(dom, format!("FRL {} {} {} {}", hxs(c), hxs(m), l, opt_hxs(file)));
            out.count("q_frame_line");
        }
    }
}

fn frp_queries(out: &mut Out, dom: bool, u: &Universe) {
    let mut args = u.args.clone();
    args.push("zz".into());
    args.push(String::new());
    args.sort();
    args.dedup();
    let mut classes = u.classes.clone();
    classes.push("zz.Unknown".into());
    let mut methods = u.methods.clone();
    methods.push("nosuch".into());
    for c in &classes {
        for m in &methods {
            for a in &args {
                out.t(dom, format!("FRP {} {} {}", hxs(c), hxs(m), hxs(a)));
                out.count("q_frame_params");
            }
        }
    }
}

fn cls_queries(out: &mut Out, rng: &mut Rng, dom: bool, u: &Universe) {
    for c in class_queries(rng, u) {
        out.t(dom, format!("CLS {}", hxs(&c)));
        out.count("q_class");
    }
}

fn mth_queries(out: &mut Out, dom: bool, u: &Universe, limit: usize) {
    let mut n = 0;
    for c in u.classes.iter().chain(std::iter::once(&"zz.Unknown".to_string())) {
        for m in u.methods.iter().chain(std::iter::once(&"nosuch".to_string())) {
            out.t(dom, format!("MTH {} {}", hxs(c), hxs(m)));
            out.count("q_method");
            n += 1;
            if n >= limit {
                return;
            }
        }
    }
}

// ---------------------------------------------------------------- traces

pub struct TraceGen<'a> {
    pub u: &'a Universe,
}

const MESSAGES: &[&str] = &[
    "boom",
    "a: b",
    "Caused by: x",
    "at a.m(F:1)",
    "with  spaces",
    "ünï: cödé",
    "x)(",
    "java.lang.Foo: nested: deep",
    // format characters that are NOT white space: nothing may strip them
    "ends with zwsp\u{200b}", "\u{200b}starts with zwsp", "bom\u{feff}", "\u{2060}wj", "x\u{200d}",
];

impl<'a> TraceGen<'a> {
    /// a class name inside the domain of C08/C17's canonical traces: no whitespace (the
    /// throwable parser rejects classes with spaces and trims), no `(`, not empty
    fn class_canon(&self, rng: &mut Rng) -> String {
        for _ in 0..20 {
            let c = self.class(rng);
            if !c.is_empty() && !c.chars().any(|ch| ch.is_whitespace() || ch == '(') {
                return c;
            }
        }
        "x.Y$Z".to_string()
    }
    fn class(&self, rng: &mut Rng) -> String {
        if !self.u.classes.is_empty() && rng.pct(65) {
            rng.pick(&self.u.classes).clone()
        } else {
            // (a ':' inside a class or method is legal as long as no blank follows it)
            rng.pick(&["java.lang.RuntimeException", "zz.Unknown", "x.Y$Z", "é.É", "java.lang.RuntimeException", "zz.Unknown", "x.Y$Z", "é.É",
                       "app:core.Failure", "a:", "x.a:b", ":a", "p$q.r.Outer$Inner", "a::b"]).to_string()
        }
    }
    fn method_for(&self, rng: &mut Rng, c: &str) -> String {
        let ms: Vec<&String> = self.u.pairs.iter().filter(|(pc, _)| pc == c).map(|(_, m)| m).collect();
        if !ms.is_empty() && rng.pct(80) {
            (rng.pick(&ms)).clone()
        } else {
            rng.pick(&["run", "main", "<init>", "nosuch", "run", "main", "<init>", "nosuch", "a:b", "r:"]).to_string()
        }
    }
    fn line(&self, rng: &mut Rng) -> usize {
        if !self.u.lines.is_empty() && rng.pct(70) {
            rng.pick(&self.u.lines)
        } else {
            rng.pick(&[0usize, 1, 2, 3, 7, 65, 1 << 32, usize::MAX])
        }
    }
    /// a throwable class that contains no space (so that it parses)
    fn throwable_line(&self, rng: &mut Rng) -> String {
        let mut c = self.class(rng);
        if rng.pct(4) {
            c = format!("{}{}", rng.pick(&["\u{2003}", "\u{a0}", "\u{85}", " "]), c);
        }
        if rng.pct(3) {
            return format!("{}: m{}", c, rng.pick(&["\u{85}", "\u{a0}", "\u{3000}", " "]));
        }
        if rng.pct(60) {
            format!("{}: {}", c, rng.pick(MESSAGES))
        } else {
            c
        }
    }
    fn frame_line(&self, rng: &mut Rng) -> String {
        let l = self.frame_line0(rng);
        if rng.pct(4) {
            return format!("{}{}", l, rng.pick(&["\u{1e}", "\u{1c}", "\u{200b}", "\u{a0}", " ", "\t", "\u{1f}\u{1f}"]));
        }
        l
    }
    fn frame_line0(&self, rng: &mut Rng) -> String {
        let c = self.class(rng);
        let m = self.method_for(rng, &c);
        // (`str::trim` strips every White_Space code point, not only ASCII blanks)
        let indent = rng.pick(&["    ", "\t", "  ", "", "        ", "    ", "\t", "\u{a0}", "\u{2003}", "\u{3000} ", "\u{b}", "\u{85}\t", "\u{2028}",
            // characters Java calls white space but Unicode / Rust do not, and format characters
            "\u{1c}", "\u{1e}    ", "\u{1f}", "\u{200b}", "\u{feff}    "]);
        match rng.below(12) {
            0 => format!("{}at {}.{}(Native Method)", indent, c, m),
            1 => format!("{}at {}.{}(Unknown Source)", indent, c, m),
            2 => format!("{}... {} more", indent, rng.below(20)),
            3 => format!("{}at {}.{}(SourceFile)", indent, c, m),
            4 => {
                // unusual spellings of the line number and of the file
                let l = self.line(rng);
                let num = match rng.below(8) {
                    0 => format!("+{}", l),
                    1 => format!("00{}", l),
                    2 => format!("-{}", l),
                    3 => format!(" {}", l),
                    4 => format!("{} ", l),
                    5 => String::new(),
                    6 => format!("{}{}", l, rng.pick(&["\u{b2}", "\u{660}", "L", ".0"])),
                    _ => format!("+0{}", l),
                };
                format!("{}at {}.{}({}:{})", indent, c, m, rng.pick(&["SourceFile", "Main(1).java", "a(b", "x)y", "(", "F.java", "R8$$SyntheticClass", "D8$$SyntheticClass"]), num)
            }
            _ => format!("{}at {}.{}({}:{})", indent, c, m, rng.pick(&["SourceFile", "Foo.java", "<unknown>", "a b", "Main(1).java", "a(b", "", "F", "R8$$SyntheticClass"]), self.line(rng)),
        }
    }
    /// free-form trace text
    pub fn text(&self, rng: &mut Rng) -> String {
        let mut lines: Vec<String> = Vec::new();
        match rng.below(10) {
            0 => lines.push(self.frame_line(rng)), // frame first
            1 => lines.push("some free text line".into()),
            2 => {}
            _ => lines.push(self.throwable_line(rng)),
        }
        let depth = rng.below(4);
        for d in 0..=depth {
            if d > 0 {
                if rng.pct(75) {
                    lines.push(format!("Caused by: {}", self.throwable_line(rng)));
                } else if rng.pct(50) {
                    // near-miss prefixes in front of a (mostly known) class: only the exact
                    // `Caused by: ` introduces a cause
                    let pre = rng.pick(&["Caused by:", "Caused by:  ", "caused by: ", "Caused by : ", " Caused by: ", "\tCaused by: ", "Caused  by: ", "Caused by: Caused by: ", "Suppressed: ", "Caused by:\t"]);
                    lines.push(format!("{}{}", pre, self.throwable_line(rng)));
                } else {
                    lines.push("Caused by: not a throwable because of spaces".into());
                }
            }
            for _ in 0..rng.below(5) {
                lines.push(self.frame_line(rng));
                if rng.pct(8) {
                    // recursion: the same frame line several times in a row
                    let l = lines.last().unwrap().clone();
                    for _ in 0..rng.range(2, 4) {
                        lines.push(l.clone());
                    }
                }
                if rng.pct(6) {
                    lines.push(String::new());
                }
                if rng.pct(5) {
                    lines.push(self.throwable_line(rng)); // throwable-looking line in a later position
                }
                if rng.pct(4) {
                    lines.push("\u{a0}\u{2003}padded\u{3000}".into());
                }
            }
        }
        let nl = rng.pick(&["\n", "\n", "\r\n"]);
        let mut s = lines.join(nl);
        if rng.pct(70) {
            s.push_str(nl);
        }
        if rng.pct(3) {
            s.push('\r');
        }
        s
    }
    /// structured trace as protocol tokens (for TYPS / DSPS); `canonical` keeps it inside the
    /// shape for which Display/parse round-trips (C17) and typed == text (C08).
    pub fn tokens(&self, rng: &mut Rng, canonical: bool) -> String {
        let mut t = String::new();
        let depth = rng.below(5);
        for d in 0..=depth {
            if d > 0 {
                t.push_str(" C ");
            }
            let has_exc = if d == 0 { rng.pct(85) } else { canonical || rng.pct(90) };
            let many = rng.pct(10);
            let nframes = if d == 0 && !has_exc && canonical { rng.range(1, 4) } else { rng.below(if many { 21 } else { 5 }) };
            if has_exc {
                let c = if canonical { self.class_canon(rng) } else { self.class(rng) };
                let m: Option<String> = if rng.pct(60) { Some(rng.pick(MESSAGES).to_string()) } else { None };
                t.push_str(&format!("E {} {}", hxs(&c), opt_hxs(m.as_deref())));
            } else {
                t.push('N');
            }
            let mut last_frame: Option<String> = None;
            for _ in 0..nframes {
                if let Some(lf) = &last_frame {
                    // recursion: the same frame several times in a row
                    if rng.pct(12) {
                        for _ in 0..rng.range(1, 4) {
                            t.push_str(lf);
                        }
                        continue;
                    }
                }
                let c = if canonical { self.class_canon(rng) } else { self.class(rng) };
                let mut m = self.method_for(rng, &c);
                if canonical && m.chars().any(|ch| ch == '.' || ch == '(' || ch.is_whitespace()) {
                    // canonical traces (C08 / C17) carry methods without dots
                    m = "run".to_string();
                }
                let file: Option<&str> = if canonical || rng.pct(80) {
                    Some(rng.pick(&["SourceFile", "Foo.java", "<unknown>", "a b", ""]))
                } else {
                    None
                };
                let fr = format!(" F {} {} {} {}", hxs(&c), hxs(&m), self.line(rng), opt_hxs(file));
                t.push_str(&fr);
                last_frame = Some(fr);
            }
        }
        t
    }
}

/// traces at size thresholds: many frames under one exception, deep cause chains, long messages
/// Traces with very deep cause chains (typed remapping, `Display`, `Clone` and `Drop` of a trace
/// must not recurse once per level): alternating known / unknown classes, with and without frames.
pub fn deep_chain_traces(th: bool) -> Vec<String> {
    let mut v = Vec::new();
    // (deeper chains — 300 000 and 1 000 000 levels — are run on the crate alone by the C08 / C13
    // oracles: the list-based model is quadratic in the depth)
    let _ = th;
    for depth in [5_000usize, 20_000] {
        let mut t = String::with_capacity(depth * 24 + 64);
        t.push_str("a: top\n    at a.m(F:1)\n");
        for i in 0..depth {
            t.push_str(if i % 2 == 0 { "Caused by: small: x\n" } else { "Caused by: zz.U\n" });
            if depth <= 20_000 && i % 3 == 0 {
                t.push_str("    at small.a(F:1)\n");
            }
        }
        v.push(t);
    }
    v
}

pub fn threshold_traces() -> Vec<String> {
    let mut v = Vec::new();
    for n in [127usize, 128, 255, 256, 257, 300] {
        let mut t = String::from("a: boom\n");
        for i in 0..n {
            t.push_str(&format!("    at big.a(F.java:{})\n", i + 1));
        }
        v.push(t);
        let mut c = String::from("a: top\n    at a.m(F:1)\n");
        for i in 0..n {
            c.push_str(&format!("Caused by: small: level {}\n    at small.a(F:1)\n", i));
        }
        v.push(c);
    }
    v.push(format!("a: {}\n    at a.m(F:1)\n", "m".repeat(70000)));
    for n in [63usize, 64, 65, 130] {
        let mut t = String::from("big: boom\n");
        for i in 0..n {
            t.push_str(&format!("    at big.a({}:3)\n", ["SourceFile", "Worker.java", "Other.java"][i % 3]));
            if i % 7 == 0 {
                t.push_str(&format!("    at x.y.Z.run({}:7)\n", ["Z.java", "Other.java"][i % 2]));
            }
        }
        v.push(t);
    }
    v.push("big: m\n    at  big.a(F:3)\n    at \tbig.a(F:3)\n    at\u{3000}big.a(F:3)\n    at big.a (F:3)\n    at big .a(F:3)\nCaused by:  small: x\n".to_string());
    v
}

// ---------------------------------------------------------------- descriptors

pub fn gen_type(rng: &mut Rng, u: &Universe, depth: usize) -> String {
    match rng.below(10) {
        0..=3 => rng.pick(&["Z", "B", "C", "S", "I", "J", "F", "D"]).to_string(),
        4..=7 => {
            let name = if !u.classes.is_empty() && rng.pct(60) {
                rng.pick(&u.classes).replace('.', "/")
            } else {
                // (JVMS 4.2.2 forbids only . ; [ / inside a segment: `<`, `>`, `(`, `)` are legal)
                rng.pick(&["I", "Lib", "x/Long", "java/lang/String", "é/É", "V", "a/b$c", "L", "x<y", "a<b>", "<init>", "a)b", "x/y)z", "a(b", "p>q", "kotlin/jvm/internal/k",
                           "kotlinx/coroutines/a0", "a b", "-", "a-b",
                           // names that end in, start with or are a primitive keyword
                           "x/Devoid", "Avoid", "void", "x/int", "boolean", "voidx", "x/void", "com/example/collision/Avoid"]).to_string()
            };
            format!("L{};", name)
        }
        _ => {
            if depth >= 4 {
                "I".into()
            } else {
                format!("[{}", gen_type(rng, u, depth + 1))
            }
        }
    }
}

pub fn gen_descriptor(rng: &mut Rng, u: &Universe) -> String {
    let n = rng.below(7);
    let mut s = String::from("(");
    for _ in 0..n {
        s.push_str(&gen_type(rng, u, 0));
    }
    s.push(')');
    if rng.pct(30) {
        s.push('V');
    } else {
        s.push_str(&gen_type(rng, u, 0));
    }
    s
}

pub fn corrupt_str(rng: &mut Rng, s: &str) -> String {
    let chars: Vec<char> = s.chars().collect();
    if chars.is_empty() {
        return "(".into();
    }
    let pos = rng.below(chars.len());
    let mut v = chars.clone();
    match rng.below(4) {
        0 => {
            v.remove(pos);
        }
        1 => v.insert(pos, rng.pick(&['(', ')', 'L', ';', '[', 'X', 'é', '日', 'V', '/'])),
        2 => v[pos] = rng.pick(&['(', ')', 'L', ';', '[', 'X', 'é', '日', 'V']),
        _ => {
            v.truncate(pos);
        }
    }
    v.into_iter().collect()
}

pub const HOSTILE_SIGS: &[&str] = &[
    "", "(", ")", "()", "()V", "(L", "(Lfoo)V", "()Lfoo", "(;)V", "([)V", "(V)V", "()Lfoo);", "(日)本", "(I)é", "x()V", "(I", "I)V",
    "(L\u{e9})V", "([Lfoo/Bar\u{20ac})I", "(ILa/a;L\u{1f600})La/a;", "(\u{e9}L)V", "(L\u{e9};)V", "()L\u{e9}", "()L\u{e9};", "()[\u{e9}",
    "(L;)V", "(LL;;)V", "()\u{e9}", "(\u{1f600})\u{1f600}", "(Ia\u{308})V",
];
/// descriptors at size thresholds: array depth and parameter count 127..300
pub fn threshold_sigs() -> Vec<String> {
    let mut v = Vec::new();
    for n in [127usize, 128, 255, 256, 257, 300] {
        v.push(format!("({}I)V", "[".repeat(n)));
        v.push(format!("(){}La/b;", "[".repeat(n)));
        v.push(format!("({})V", "I".repeat(n)));
        v.push(format!("({})J", "La;".repeat(n)));
    }
    v
}

pub const HOSTILE_TEXT2: &[&str] = &[
    "at  a.b(c:1)", "at a.b(c:007)", "at a.b(C:\\x.java:12)", "at a.b(c:1) ", "at a.b(c:1)\r", "\tat a.b(c:1)", "at a.b(c: 1)",
    "at a.b(c:1))", "at a.b((c:1)", "at a..b(c:1)", "at a.b.(c:1)", "Caused by: Caused by: a.b", "Caused by:a.b", "caused by: a.b",
    "Caused by:  a.b: x", "a.b:", "a.b:  x", "a.b : x", ":", ": x", "a.b: ", "Suppressed: a.b: x", "\u{feff}a.b: x",
];

pub const HOSTILE_TEXT: &[&str] = &[
    "at )", "at (", "at \u{e9})", "at a.b(c:1)", "at .(:0)", "at a.b(:)", "at a.b(c:+5)", "\u{a0}at a.b(c:5)\u{3000}",
    "at\u{a0}a.b(c:5)", "at a.b(c:18446744073709551616)", "Caused by: ", "Caused by: \u{e9}: \u{e9}", ": ", "a: ", " : x", "\u{2028}", "at \u{e9}.\u{e9}(\u{e9}:1)",
    "at a(b:1)", "at .a(b:1)", "at a.(b:1)", "at a.b(:1)", "at a.b(c:)", "at a.b(c:1:2)",
];

fn sig_queries(out: &mut Out, rng: &mut Rng, dom: bool, u: &Universe, n: usize) {
    for _ in 0..n {
        let d = gen_descriptor(rng, u);
        out.t(dom, format!("SIG {}", hxs(&d)));
        out.count("q_sig_valid");
        if rng.pct(40) {
            let mut c = corrupt_str(rng, &d);
            // one time in three, two or three independent edits (a stray `;` AND a missing one, …)
            if rng.pct(33) {
                for _ in 0..rng.range(1, 3) {
                    c = corrupt_str(rng, &c);
                }
                out.count("q_sig_corrupt_multi");
            }
            out.t(dom, format!("SIG {}", hxs(&c)));
            out.count("q_sig_corrupt");
        }
    }
    for s in HOSTILE_SIGS {
        out.t(dom, format!("SIG {}", hxs(s)));
        out.count("q_sig_fixed");
    }
    if rng.pct(5) {
        for s in threshold_sigs() {
            out.t(dom, format!("SIG {}", hxs(&s)));
            out.count("q_sig_threshold");
        }
    }
}

// ---------------------------------------------------------------- mappings per property

fn domain_mapping(rng: &mut Rng, cfg: &Cfg) -> Vec<u8> {
    // regenerate until inside the representable domain (the grammar generator with
    // `Cfg::domain` is inside it except for valueless/empty corner cases)
    for _ in 0..50 {
        let g = gen_mapping(rng, cfg);
        if g.in_domain {
            return g.text;
        }
    }
    b"o.A -> a:\n    1:1:void x():1:1 -> m\n".to_vec()
}

fn small_corpus() -> Vec<(String, Vec<u8>)> {
    corpus_files().into_iter().filter(|(_, b)| b.len() < 40_000).collect()
}

/// a few classes with many member lines over few obfuscated names (groups of > 20 entries:
/// sort stability, long inline chains)
fn big_class_cfg() -> Cfg {
    let mut cfg = Cfg::domain();
    cfg.min_classes = 1;
    cfg.max_classes = 3;
    cfg.max_members = 70;
    cfg.noise_pct = 2;
    cfg
}

/// one class with `n` entries of the same obfuscated method (thresholds of windowed scans,
/// unstable sorts, small-vector spills): alternating range shapes, a long inline group
pub fn threshold_mapping(n: usize) -> Vec<u8> {
    let mut t = String::from("o.Big -> big:\n");
    for i in 0..n {
        if i % 3 == 0 {
            t.push_str(&format!("    {}:{}:void f{}():{}:{} -> a\n", i + 1, i + 1, i, 1000 + i, 1000 + i));
        } else if i % 3 == 1 {
            t.push_str(&format!("    {}:{}:void o.X.g{}(int):{} -> a\n", i + 1, i + 3, i, 7));
        } else {
            t.push_str(&format!("    void h{}() -> a\n", i % 5));
        }
    }
    // a long inline group (identical ranges) under another name
    for i in 0..n {
        t.push_str(&format!("    5:9:void inl{}():{} -> b\n", i, i));
    }
    t.push_str("o.Small -> small:\n    1:1:void x():1:1 -> a\n");
    t.into_bytes()
}

pub const THRESHOLDS: &[usize] = &[127, 128, 129, 130, 255, 256, 257, 300];

fn threshold_cases(out: &mut Out, rng: &mut Rng, th: bool, frl: bool, frp: bool) {
    let sizes: Vec<usize> = if th { let mut v = THRESHOLDS.to_vec(); v.extend([512, 600, 1025, 4097]); v } else { vec![rng.pick(&[129usize, 130, 257]), 300, 600] };
    for n in sizes {
        let text = threshold_mapping(n);
        map_op(out, true, &text);
        out.count("threshold_mappings");
        out.d(format!("MTH {} {}", hxs("big"), hxs("a")));
        out.d(format!("MTH {} {}", hxs("big"), hxs("b")));
        if frl {
            for l in [0usize, 1, 2, 3, 5, 7, 9, 10, 64, 100, 127, 128, 129, 130, 131, 200, 255, 256, 257, 258, 271, 272, 299, 300, 301, 1000] {
                out.d(format!("FRL {} {} {} -", hxs("big"), hxs("a"), l));
                out.d(format!("FRL {} {} {} {}", hxs("big"), hxs("b"), l, hxs("F")));
            }
        }
        if frp {
            for a in ["", "int", "zz"] {
                out.d(format!("FRP {} {} {}", hxs("big"), hxs("a"), hxs(a)));
                out.d(format!("FRP {} {} {}", hxs("big"), hxs("b"), hxs(a)));
            }
        }
    }
}

pub fn gen_c01(rng: &mut Rng, tier: &str, out: &mut Out) {
    let th = thorough(tier);
    let n = if th { 6000 } else { 360 };
    for i in 0..n {
        let mut cfg = Cfg::domain();
        if i % 7 == 0 {
            cfg.max_classes = 2;
            cfg.max_members = 14;
        }
        if i % 9 == 4 {
            cfg = big_class_cfg();
        }
        let text = domain_mapping(rng, &cfg);
        map_op(out, true, &text);
        let u = universe(&text);
        frl_queries(out, rng, true, &u, if th { 66 } else { 13 }, if th { 120 } else { 34 });
    }
    threshold_cases(out, rng, th, true, false);
    // a mapping whose answers exercise every boundary of a 3-line range (non-vacuity anchor)
    let anchor = b"o.A -> a:\n    7:9:void x():78:80 -> m\n    10:10:void y():5 -> m\n    void z() -> m\n";
    map_op(out, true, anchor);
    for l in 5..=11 {
        out.d(format!("FRL {} {} {} -", hxs("a"), hxs("m"), l));
    }
    for (name, text) in small_corpus() {
        if !is_representable(&text) {
            continue;
        }
        map_op(out, true, &text);
        out.count(&format!("corpus:{}", name));
        let u = universe(&text);
        let mut uu = Universe { classes: vec![], methods: vec![], args: vec![], lines: u.lines.clone(), pairs: vec![], originals: vec![] };
        // sample pairs
        let k = if th { 60 } else { 8 };
        for _ in 0..k {
            if u.pairs.is_empty() {
                break;
            }
            uu.pairs.push(rng.pick(&u.pairs).clone());
        }
        uu.classes = uu.pairs.iter().map(|p| p.0.clone()).collect();
        uu.methods = uu.pairs.iter().map(|p| p.1.clone()).collect();
        frl_queries(out, rng, true, &uu, 3, if th { 60 } else { 16 });
    }
}

pub fn gen_c02(rng: &mut Rng, tier: &str, out: &mut Out) {
    let th = thorough(tier);
    concat_coincidence_ops(out);
    let n = if th { 4800 } else { 280 };
    for i in 0..n {
        let mut cfg = if i % 10 == 6 { big_class_cfg() } else { Cfg::domain() };
        if i == 11 || (th && i % 40 == 11) {
            cfg.huge_pct = 30;
            cfg.max_classes = 3;
        }
        if i == 13 || (th && i % 70 == 13) {
            cfg.many_similar = true;
            cfg.min_classes = 250;
            cfg.max_classes = 300;
            cfg.max_members = 1;
        }
        let mut text = domain_mapping(rng, &cfg);
        if i % 4 == 3 {
            // token-mutated, filtered back into the representable domain
            let m = mutate(rng, &text);
            if is_representable(&m) {
                text = m;
                out.count("mutated_in_domain");
            }
        }
        map_op(out, true, &text);
        if i % 12 == 5 {
            // a failed write earlier in the process must not leak into the cache used below
            out.d(format!("SINK {} {} -", rng.range(1, 64), rng.range(24, 300)));
        }
        let u = universe(&text);
        cls_queries(out, rng, true, &u);
        mth_queries(out, true, &u, 40);
        frl_queries(out, rng, true, &u, 9, 18);
        frp_queries(out, true, &u);
        for c in class_queries(rng, &u).iter().take(6) {
            out.d(format!("THR {} {}", hxs(c), opt_hxs(if rng.pct(50) { Some("msg: x") } else { None })));
            out.count("q_throwable");
        }
        let tg = TraceGen { u: &u };
        for _ in 0..3 {
            let t = tg.text(rng);
            out.d(format!("TXT {}", hxs(&t)));
            out.d(format!("TYP {}", hxs(&t)));
            out.count("q_trace");
        }
        out.d(format!("TYPS {}", tg.tokens(rng, false)));
        sig_queries(out, rng, true, &u, 4);
    }
    threshold_cases(out, rng, th, true, true);
    {
        // obfuscated class names at the length-prefix boundaries
        let mut t = String::new();
        let lens = [127usize, 128, 255, 256, 262, 300, 383, 384, 511, 512, 600, 16383, 16384, 16500];
        for (i, len) in lens.iter().enumerate() {
            t.push_str(&format!("o.C{} -> {}:\n    1:1:void m():1:1 -> a\n", i, "q".repeat(*len)));
        }
        map_op(out, true, t.as_bytes());
        for len in lens {
            let name = "q".repeat(len);
            out.d(format!("CLS {}", hxs(&name)));
            out.d(format!("FRL {} {} 1 -", hxs(&name), hxs("a")));
            out.d(format!("CLS {}", hxs(&"q".repeat(len + 1))));
        }
    }
    // out-of-domain mappings: the tie still has to hold (empty names, huge numbers)
    for _ in 0..(if th { 300 } else { 25 }) {
        let g = gen_mapping(rng, &Cfg::hostile());
        map_op(out, g.in_domain, &g.text);
        let u = universe(&g.text);
        cls_queries(out, rng, g.in_domain, &u);
        mth_queries(out, g.in_domain, &u, 20);
        frl_queries(out, rng, g.in_domain, &u, 3, 14);
        frp_queries(out, g.in_domain, &u);
    }
    for (name, text) in small_corpus() {
        let dom = is_representable(&text);
        map_op(out, dom, &text);
        out.count(&format!("corpus:{}", name));
        let u = universe(&text);
        let k = if th { 80 } else { 10 };
        for _ in 0..k {
            if u.pairs.is_empty() {
                break;
            }
            let (c, m) = rng.pick(&u.pairs).clone();
            out.t(dom, format!("CLS {}", hxs(&c)));
            out.t(dom, format!("MTH {} {}", hxs(&c), hxs(&m)));
            let l = if u.lines.is_empty() { 1 } else { rng.pick(&u.lines) };
            out.t(dom, format!("FRL {} {} {} -", hxs(&c), hxs(&m), l));
            if !u.args.is_empty() {
                out.t(dom, format!("FRP {} {} {}", hxs(&c), hxs(&m), hxs(&rng.pick(&u.args[..]))));
            }
        }
    }
}

/// Entries of one class whose (obfuscated name, parameters, original name) differ but whose
/// *concatenations* coincide ("int" ++ "foo" = "" ++ "intfoo", …): a key built by unframed
/// concatenation or unframed hashing conflates them.
pub fn concat_coincidence_ops(out: &mut Out) {
    // (obf1, args1, orig1, obf2, args2, orig2)
    const CASES: &[(&str, &str, &str, &str, &str, &str)] = &[
        ("b", "int", "foo", "b", "", "intfoo"),
        ("b", "int,long", "bar", "b", "", "int,longbar"),
        ("b", "int", "longs", "b", "int,long", "s"),
        ("b", "a", "bc", "b", "ab", "c"),
        ("b", "c", "run", "bc", "", "run"),
        ("bc", "d", "run", "b", "cd", "run"),
        ("b", "", "crun", "bc", "", "run"),
        ("b", "z", "z", "bz", "", "z"),
    ];
    for (o1, a1, n1, o2, a2, n2) in CASES {
        for swap in [false, true] {
            for ranged in [false, true] {
                let l1 = if ranged { format!("    1:2:void {}({}):5:6 -> {}\n", n1, a1, o1) } else { format!("    void {}({}) -> {}\n", n1, a1, o1) };
                let l2 = if ranged { format!("    3:4:void {}({}):7:8 -> {}\n", n2, a2, o2) } else { format!("    void {}({}) -> {}\n", n2, a2, o2) };
                let t = if swap { format!("o.A -> a:\n{}{}", l2, l1) } else { format!("o.A -> a:\n{}{}", l1, l2) };
                map_op(out, true, t.as_bytes());
                for (o, a) in [(o1, a1), (o2, a2), (o1, a2), (o2, a1)] {
                    out.d(format!("FRP {} {} {}", hxs("a"), hxs(o), hxs(a)));
                }
                out.d(format!("MTH {} {}", hxs("a"), hxs(o1)));
                out.d(format!("MTH {} {}", hxs("a"), hxs(o2)));
                out.d(format!("FRL {} {} 1 -", hxs("a"), hxs(o1)));
                out.d(format!("FRL {} {} 3 -", hxs("a"), hxs(o2)));
                out.count("concatenation_coincidences");
            }
        }
    }
}

pub fn gen_c03(rng: &mut Rng, tier: &str, out: &mut Out) {
    let th = thorough(tier);
    congruent_range_ops(out);
    concat_coincidence_ops(out);
    let n = if th { 10000 } else { 640 };
    for _ in 0..n {
        let mut cfg = Cfg::domain();
        cfg.min_classes = 2;
        cfg.max_classes = 5;
        cfg.noise_pct = 5;
        if rng.pct(8) {
            cfg.max_members = 60;
            cfg.max_classes = 3;
        }
        let text = domain_mapping(rng, &cfg);
        map_op(out, true, &text);
        let u = universe(&text);
        frp_queries(out, true, &u);
    }
    threshold_cases(out, rng, th, false, true);
    // F1 anchor: first class has more members than by-params entries
    let anchor = b"o.A -> a:\n    1:1:void x():5:5 -> m\n    1:1:void y():6 -> m\n    void z(int) -> n\no.B -> b:\n    void q(int) -> k\n";
    map_op(out, true, anchor);
    out.d(format!("FRP {} {} {}", hxs("b"), hxs("k"), hxs("int")));
    out.d(format!("FRP {} {} {}", hxs("a"), hxs("n"), hxs("int")));
    out.d(format!("FRP {} {} {}", hxs("a"), hxs("m"), hxs("")));
}

/// neighbouring entries whose ranges differ but are congruent modulo 2^32 (and 2^16): they are
/// different ranges, so neither is an inlined callee of the other
pub fn congruent_range_ops(out: &mut Out) {
    for (d, tag) in [(1u64 << 32, "2^32"), (1u64 << 16, "2^16"), (1u64 << 33, "2^33")] {
        let t = format!("o.A -> a:\n    1:5:void first():10 -> m\n    {}:{}:void second():20 -> m\n    7:7:void third() -> m\n", 1 + d, 5 + d);
        map_op(out, true, t.as_bytes());
        out.d("WRITE".into());
        out.d(format!("FRP {} {} {}", hxs("a"), hxs("m"), hxs("")));
        out.d(format!("MTH {} {}", hxs("a"), hxs("m")));
        for l in [0u64, 1, 3, 5, 1 + d, 3 + d] {
            out.d(format!("FRL {} {} {} -", hxs("a"), hxs("m"), l));
        }
        out.count(&format!("congruent_ranges_{}", tag));
    }
}

pub fn gen_c04(rng: &mut Rng, tier: &str, out: &mut Out) {
    let th = thorough(tier);
    let n = if th { 1600 } else { 160 };
    for i in 0..n {
        let mut cfg = Cfg::domain();
        cfg.many_similar = true;
        cfg.min_classes = 3;
        cfg.max_classes = if th && i % 10 == 0 { 400 } else if i % 5 == 0 { 60 } else { 14 };
        cfg.max_members = 4;
        cfg.noise_pct = 3;
        let text = domain_mapping(rng, &cfg);
        map_op(out, true, &text);
        let u = universe(&text);
        let mut names: Vec<String> = u.classes.clone();
        for c in u.classes.iter().take(if th { 60 } else { 12 }) {
            names.extend(neighbours(c));
        }
        names.push("zz".into());
        names.push(String::new());
        names.sort();
        names.dedup();
        if i % 4 == 0 {
            names.extend(class_queries(rng, &u));
            names.sort();
            names.dedup();
        }
        for c in &names {
            out.d(format!("CLS {}", hxs(c)));
            out.count("q_class");
            if i % 16 == 0 {
                out.d(format!("THR {} {}", hxs(c), hxs("msg")));
            }
        }
        for (c, m) in u.pairs.iter().take(if th { 400 } else { 60 }) {
            out.d(format!("MTH {} {}", hxs(c), hxs(m)));
            out.count("q_method");
            // frames of that class/method at a few lines, for the third clause
            for l in [0usize, 1, 3, 9] {
                out.d(format!("FRL {} {} {} -", hxs(c), hxs(m), l));
            }
        }
        mth_queries(out, true, &u, 30);
    }
    // names whose UTF-8 byte order and UTF-16 code-unit order differ (supplementary-plane characters
    // against U+E000..U+FFFF) — classes and, inside one class, methods: every one must be found
    {
        const CH: &[&str] = &["a", "\u{e9}", "\u{65e5}", "\u{d7ff}", "\u{e000}", "\u{feff}", "\u{ff41}", "\u{ffff}", "\u{10000}", "\u{1d49c}", "\u{10ffff}"];
        let mut t = String::new();
        for (i, c) in CH.iter().enumerate() {
            t.push_str(&format!("com.example.Original{} -> p.{}:\n", i, c));
            t.push_str(&format!("    1:1:void m{}():{} -> {}x\n", i, i + 10, c));
        }
        t.push_str("com.example.All -> q:\n");
        for (i, c) in CH.iter().enumerate() {
            t.push_str(&format!("    1:1:void n{}(int):{} -> k{}\n", i, i + 30, c));
        }
        map_op(out, true, t.as_bytes());
        for c in CH {
            out.d(format!("CLS {}", hxs(&format!("p.{}", c))));
            out.d(format!("MTH {} {}", hxs(&format!("p.{}", c)), hxs(&format!("{}x", c))));
            out.d(format!("FRL {} {} 1 -", hxs(&format!("p.{}", c)), hxs(&format!("{}x", c))));
            out.d(format!("MTH {} {}", hxs("q"), hxs(&format!("k{}", c))));
            out.d(format!("FRL {} {} 1 -", hxs("q"), hxs(&format!("k{}", c))));
            out.d(format!("FRP {} {} {}", hxs("q"), hxs(&format!("k{}", c)), hxs("int")));
            out.count("utf16_order_names");
        }
    }
    // an ambiguous group whose FIRST original name is the very first string of the file (string-table
    // offset 0 is a valid offset, not "none")
    for first in ["a", "o.A", "m"] {
        for ranged in [false, true] {
            for second in ["b", "a"] {
                let pre = if ranged { "1:2:" } else { "" };
                let t = format!("{f} -> {f}:\n    {p}void {f}() -> m\n    {p}void {s}() -> m\n    void {f}() -> k\n", f = first, p = pre, s = second);
                map_op(out, true, t.as_bytes());
                for m in ["m", "k", first] {
                    out.d(format!("MTH {} {}", hxs(first), hxs(m)));
                }
                out.d(format!("FRL {} {} 1 -", hxs(first), hxs("m")));
                out.count("offset_zero_ambiguity");
            }
        }
    }
    // long runs of one obfuscated method name: ambiguous only through one odd entry
    threshold_cases(out, rng, th, true, false);
    let sizes: Vec<usize> = if th { vec![2, 127, 128, 129, 130, 131, 255, 256, 257, 258, 300, 513, 600, 1025, 4097] } else { vec![129, 130, 131, 257, 600] };
    for n in sizes {
        for odd in [Some(0usize), Some(1), Some(n / 2), Some(n - 1), None] {
            for ranged in [false, true] {
                let text = ambiguity_mapping(n, odd, ranged);
                map_op(out, true, &text);
                out.count("ambiguity_mappings");
                for m in ["m", "l", "n", "zz"] {
                    out.d(format!("MTH {} {}", hxs("big"), hxs(m)));
                }
                for l in [0usize, 1, 2, n / 2, n - 1, n, n + 1] {
                    out.d(format!("FRL {} {} {} -", hxs("big"), hxs("m"), l));
                }
            }
        }
    }
}

/// `n` entries `-> m` in one class, all with the original name `common` except the one at file
/// position `odd`; neighbours `l` and `n` before/after in sort order
pub fn ambiguity_mapping(n: usize, odd: Option<usize>, ranged: bool) -> Vec<u8> {
    let mut t = String::from("o.Big -> big:\n    void left() -> l\n");
    for i in 0..n {
        let name = if odd == Some(i) { "odd" } else { "common" };
        if ranged {
            t.push_str(&format!("    {}:{}:void {}(int):{}:{} -> m\n", i + 1, i + 1, name, 10 + i, 10 + i));
        } else {
            t.push_str(&format!("    void {}(p{}) -> m\n", name, i));
        }
    }
    t.push_str("    void right() -> n\n");
    t.into_bytes()
}

// ---------------------------------------------------------------- C05 record ASTs

const IDENT_CHARS: &[&str] = &["a", "b", "Z", "$", "<", ">", "-", "[]", "1", "0", "é", "日", "_", "x",
    // letters whose last UTF-8 byte is 0x85 / 0xA0 (NEL / NBSP when a byte is read as Latin-1)
    "à", "Å", "Π", "х", "丠", "/"];

fn ident(rng: &mut Rng, min: usize, allow_dot: bool, allow_lead_digit: bool) -> String {
    let n = rng.range(min, 5);
    let mut s = String::new();
    for i in 0..n {
        let mut c = rng.pick(IDENT_CHARS);
        if i == 0 && !allow_lead_digit {
            while c == "1" || c == "0" {
                c = rng.pick(IDENT_CHARS);
            }
        }
        s.push_str(c);
        if allow_dot && i + 1 < n && rng.pct(25) {
            s.push('.');
        }
    }
    s
}

fn num40(rng: &mut Rng) -> u64 {
    match rng.below(6) {
        0 => 0,
        1 => rng.below(10) as u64,
        2 => rng.below(100000) as u64,
        3 => 1u64 << rng.below(41),
        4 => (1u64 << 40) - rng.below(5) as u64,
        _ => rng.next() % (1u64 << 40),
    }
}

/// a numeral as text: canonical, zero-padded, or all zeros (1..45 digits)
fn numtxt(rng: &mut Rng) -> String {
    match rng.below(30) {
        0 => format!("{}{}", "0".repeat(rng.range(1, 40)), num40(rng)),
        1 => "0".repeat(rng.pick(&[1usize, 2, 19, 20, 21, 22, 39, 40, 45])),
        _ => num40(rng).to_string(),
    }
}

/// a well-formed line of a random kind, as text
pub fn wf_line(rng: &mut Rng) -> String {
    match rng.below(10) {
        0 => {
            // key: value header
            let k = ident(rng, 1, false, true);
            if rng.pct(50) {
                format!("# {}: {}", k, ident(rng, 1, true, true))
            } else {
                format!("#{}", k)
            }
        }
        1 => format!("# {{\"id\":\"sourceFile\",\"fileName\":\"{}\"}}", ident(rng, 0, true, true)),
        2 | 3 => {
            // class: original without space and not starting with '#'; obfuscated without ':'
            let mut o = ident(rng, 1, true, true);
            if o.starts_with('#') {
                o.insert(0, 'a');
            }
            format!("{} -> {}:", o, ident(rng, 0, true, true))
        }
        4 => format!("    {} {} -> {}", ident(rng, 0, true, false), ident(rng, 0, true, true).replace('(', ""), ident(rng, 0, true, true)),
        _ => {
            let mut s = String::from("    ");
            let has_range = rng.pct(60);
            let (ra, rb) = (numtxt(rng), numtxt(rng));
            if has_range {
                s.push_str(&format!("{}:{}:", ra, rb));
            }
            // type: no leading digit unless a range prefix is printed
            s.push_str(&ident(rng, 0, true, has_range));
            s.push(' ');
            if rng.pct(40) {
                s.push_str(&ident(rng, 0, true, true));
                s.push('.');
            }
            s.push_str(&ident(rng, 0, false, true));
            s.push('(');
            s.push_str(&ident(rng, 0, true, true).replace(')', ""));
            s.push(')');
            match rng.below(10) {
                0..=2 => {}
                3..=5 => s.push_str(&format!(":{}", numtxt(rng))),
                // the printed original range repeats the minified numbers (identity), or only its start
                6 => s.push_str(&format!(":{}:{}", ra, rb)),
                7 => s.push_str(&format!(":{}", ra)),
                _ => s.push_str(&format!(":{}:{}", numtxt(rng), numtxt(rng))),
            }
            s.push_str(" -> ");
            s.push_str(&ident(rng, 0, true, true));
            s
        }
    }
}

pub fn malformed_variants(rng: &mut Rng, line: &str) -> Vec<String> {
    let mut v = Vec::new();
    if line.contains(" -> ") {
        v.push(line.replacen(" -> ", "->", 1)); // unspaced arrow
        v.push(line.replacen(" -> ", " ", 1)); // missing arrow
        v.push(line.replacen(" -> ", " - > ", 1));
    }
    if line.ends_with(':') && !line.starts_with(' ') {
        v.push(line[..line.len() - 1].to_string()); // missing class colon
    }
    if line.starts_with("    ") {
        let k = rng.pick(&[0usize, 1, 2, 3, 5, 6, 8]);
        v.push(format!("{}{}", " ".repeat(k), &line[4..])); // other indentation
        v.push(format!("\t{}", &line[4..]));
        // start line without end line
        v.push(format!("    {}:{}", num40(rng), &line[4..].trim_start_matches(|c: char| c.is_ascii_digit() || c == ':')));
        // missing return type
        if let Some(sp) = line[4..].find(' ') {
            v.push(format!("    {}", &line[4 + sp + 1..]));
        }
    }
    v
}

pub fn gen_c05(rng: &mut Rng, tier: &str, out: &mut Out) {
    let th = thorough(tier);
    let n = if th { 240000 } else { 24000 };
    for _ in 0..n {
        let l = wf_line(rng);
        let term = rng.pick(&["", "\n", "\r\n", "\n\n", "\r"]);
        out.d(format!("TRY {}", hxs(&format!("{}{}", l, term))));
        out.count("wf_lines");
        if rng.pct(25) {
            for m in malformed_variants(rng, &l) {
                out.d(format!("TRY {}", hxs(&format!("{}{}", m, term))));
                out.count("malformed_lines");
            }
        }
        if rng.pct(6) {
            // two physical lines in one buffer: an indented line that has no blank after its
            // indentation, then this line with less indentation — a record never spans a terminator
            let head = rng.pick(&["    int", "    f->c", "    1:2:run(int)", "    x", "    1:2:", "    "]);
            let nl = rng.pick(&["\n", "\r\n", "\r", "\n\n"]);
            let body = l.trim_start();
            for ind in ["", " ", "  ", "   "] {
                let t = format!("{}{}{}{}", head, nl, ind, body);
                out.d(format!("TRY {}", hxs(&t)));
                map_op(out, true, t.as_bytes());
                out.d("REC".into());
                out.count("two_line_buffers");
            }
        }
    }
    // files of well-formed lines with every terminator style
    for _ in 0..(if th { 3000 } else { 300 }) {
        let k = rng.range(1, 8);
        let term = rng.pick(&["\n", "\r\n", "\r", "\n\n"]);
        let mut t = String::new();
        for i in 0..k {
            let base = wf_line(rng);
            let l = if rng.pct(15) { malformed_variants(rng, &base).pop().unwrap_or_default() } else { base };
            t.push_str(&l);
            if i + 1 < k || rng.pct(60) {
                t.push_str(term);
            }
        }
        map_op(out, true, t.as_bytes());
        out.d("REC".into());
    }
    // every line of the corpus
    for (name, text) in corpus_files() {
        if text.len() > 40_000 && !th {
            continue;
        }
        let mut cnt = 0;
        for l in text.split(|b| *b == b'\n') {
            if l.is_empty() {
                continue;
            }
            out.d(format!("TRY {}", hx(l)));
            cnt += 1;
        }
        out.add(&format!("corpus_lines:{}", name), cnt);
    }
    // bounded-exhaustive: all lines of ≤ L tokens over a 12-token alphabet
    const ALPHA: &[&str] = &["    ", " -> ", ":", "(", ")", ".", "#", "1", "a", " ", "0", "b"];
    let maxl = if th { 6 } else { 4 };
    let mut idx = vec![0usize; 0];
    let mut total = 0u64;
    loop {
        let s: String = idx.iter().map(|&i| ALPHA[i]).collect();
        out.d(format!("TRY {}", hxs(&s)));
        total += 1;
        // next
        let mut p = idx.len();
        loop {
            if p == 0 {
                idx = vec![0; idx.len() + 1];
                break;
            }
            p -= 1;
            if idx[p] + 1 < ALPHA.len() {
                idx[p] += 1;
                for q in p + 1..idx.len() {
                    idx[q] = 0;
                }
                break;
            }
        }
        if idx.len() > maxl {
            break;
        }
    }
    out.add("bounded_exhaustive_lines", total);
}

/// Member lines with one lone non-ASCII byte before / after / instead of each numeral: bytes that
/// are "numeric" when read as Latin-1 (² ³ ¹ ¼ ½ ¾) and bytes that are not.
pub fn lone_byte_number_cases() -> Vec<Vec<u8>> {
    let line = b"    12:34:void m():56:78 -> x";
    let mut v = Vec::new();
    for &b in &[0xB2u8, 0xB3, 0xB9, 0xBC, 0xBD, 0xBE, 0xB1, 0xFF, 0x80, 0xC2, 0xAA] {
        for (i, c) in line.iter().enumerate() {
            if c.is_ascii_digit() {
                for mode in 0..3 {
                    let mut l = line.to_vec();
                    match mode {
                        0 => l.insert(i, b),
                        1 => l.insert(i + 1, b),
                        _ => l[i] = b,
                    }
                    let mut t = b"o.A -> a:\n".to_vec();
                    t.extend_from_slice(&l);
                    t.extend_from_slice(b"\n    void k() -> y\n");
                    v.push(t);
                }
            }
        }
        // … and at the start of a return type without a line prefix
        let mut t = b"o.A -> a:\n    ".to_vec();
        t.push(b);
        t.extend_from_slice(b"void m() -> x\n    int f -> g\n");
        v.push(t);
    }
    v
}

pub fn gen_c06(rng: &mut Rng, tier: &str, out: &mut Out) {
    let th = thorough(tier);
    let n = if th { 160000 } else { 16000 };
    for i in 0..n {
        let text = match i % 5 {
            0 => soup(rng, 60),
            1 => soup(rng, 400),
            2 => {
                let g = gen_mapping(rng, &Cfg::hostile());
                mutate(rng, &g.text)
            }
            3 => {
                let mut t = Vec::new();
                for _ in 0..rng.below(12) {
                    t.push(rng.next() as u8);
                }
                t
            }
            _ => {
                let g = gen_mapping(rng, &Cfg::hostile());
                let mut t = g.text;
                // unterminated sourceFile header somewhere
                let pos = if t.is_empty() { 0 } else { rng.below(t.len()) };
                let ins: &[u8] = b"\n# {\"id\":\"sourceFile\",\"fileName\":\"x";
                for (k, b) in ins.iter().enumerate() {
                    t.insert(pos + k, *b);
                }
                t
            }
        };
        map_op(out, true, &text);
        out.d("REC".into());
    }
    for t in lone_byte_number_cases() {
        map_op(out, true, &t);
        out.d("REC".into());
    }
    // F2 anchor
    for t in [
        &b"# {\"id\":\"sourceFile\",\"fileName\":\"x\ny\"}"[..],
        b"# {\"id\":\"sourceFile\",\"fileName\":\"x",
        b"y\"}",
        b"x\n\n",
        b"\n",
        b"a -> b:c -> d:",
    ] {
        map_op(out, true, t);
        out.d("REC".into());
    }
    for (name, text) in corpus_files() {
        if text.len() > 700_000 && !th {
            continue;
        }
        map_op(out, true, &text);
        out.d("REC".into());
        out.count(&format!("corpus:{}", name));
    }
}

pub fn gen_c07(rng: &mut Rng, tier: &str, out: &mut Out) {
    let th = thorough(tier);
    trace_threshold_ops(out, false, th);
    reremap_ops(out, rng, if th { 100 } else { 15 });
    let n = if th { 12000 } else { 1000 };
    for i in 0..n {
        let text = if i % 6 == 0 { Vec::new() } else { domain_mapping(rng, &Cfg::domain()) };
        map_op(out, true, &text);
        let u = universe(&text);
        let tg = TraceGen { u: &u };
        for _ in 0..6 {
            out.d(format!("TXT {}", hxs(&tg.text(rng))));
            out.count("q_trace_text");
        }
        // arbitrary unicode text
        let mut s = String::new();
        for _ in 0..rng.below(40) {
            s.push(rng.pick(&['a', ' ', '\n', '\r', ':', '(', ')', '.', 'é', '日', '\u{2028}', '\u{85}', '\t', 't', 'C']));
        }
        out.d(format!("TXT {}", hxs(&s)));
        out.d(format!("TXT {}", hxs("")));
    }
}

fn trace_threshold_ops(out: &mut Out, typ: bool, th: bool) {
    // > 256 and > 4096 entries behind one frame line
    // (the 4097- and 20000-entry groups of the quick tier are checked by C07's oracle against an
    // expectation constructed in the harness: the list-based model needs 40 s for such a file)
    let sizes: Vec<usize> = if th { vec![300, 4097] } else if !typ { vec![300, 1025] } else { vec![300] };
    for n in sizes {
        let text = threshold_mapping(n);
        map_op(out, true, &text);
        let t = "big: boom\n    at big.b(F.java:7)\n    at big.a(F.java:2)\nCaused by: small: x\n    at big.b(G.java:5)\n";
        out.d(format!("TXT {}", hxs(t)));
        if typ {
            out.d(format!("TYP {}", hxs(t)));
        }
    }
    let text = threshold_mapping(130);
    map_op(out, true, &text);
    for t in threshold_traces() {
        out.d(format!("TXT {}", hxs(&t)));
        if typ {
            out.d(format!("TYP {}", hxs(&t)));
        }
    }
    if typ {
        for t in deep_chain_traces(th) {
            out.d(format!("TYP {}", hxs(&t)));
            out.count("deep_cause_chains");
        }
    }
    for s in HOSTILE_TEXT.iter().chain(HOSTILE_TEXT2.iter()) {
        out.d(format!("TXT {}", hxs(s)));
        out.d(format!("TXT {}", hxs(&format!("x.Y: m\n{}\nCaused by: {}\n{}", s, s, s))));
        if typ {
            out.d(format!("TYP {}", hxs(&format!("x.Y: m\n{}\nCaused by: {}\n{}", s, s, s))));
        }
    }
}

/// Mappings on which remapping is NOT idempotent: a kept class (`K -> K`) whose kept method `run`
/// has an inline group at line `a`, and whose outer original line lies inside the obfuscated range
/// of another entry of `run` with a shift.  Remapping a frame of the result a second time changes
/// it, so a typed remapper that looks at an already remapped frame again shows.
pub fn reremap_ops(out: &mut Out, rng: &mut Rng, n: usize) {
    for _ in 0..n {
        let a = rng.range(1, 9);
        let s = rng.range(10, 30);
        let e = s + rng.range(1, 20);
        let o = rng.range(s, e);
        let os = s + rng.range(1, 40);
        let h = rng.range(1, 99);
        let two = rng.pct(40);
        let mut t = String::from("app.K -> app.K:\n");
        if rng.pct(50) {
            t.push_str("# {\"id\":\"sourceFile\",\"fileName\":\"K.java\"}\n");
        }
        t.push_str(&format!("    {a}:{a}:void lib.Util.helper():{h}:{h} -> run\n"));
        if two {
            t.push_str(&format!("    {a}:{a}:void lib.Mid.mid():{}:{} -> run\n", h + 1, h + 1));
        }
        t.push_str(&format!("    {a}:{a}:void run():{o} -> run\n"));
        t.push_str(&format!("    {s}:{e}:void run():{os}:{} -> run\n", os + (e - s)));
        if rng.pct(50) {
            t.push_str("lib.Util -> lib.Util:\n    void helper() -> helper\n");
        }
        map_op(out, true, t.as_bytes());
        let k = hxs("app.K");
        let r = hxs("run");
        out.d(format!("TYPS E {} - F {} {} {} {}", hxs("x.Boom"), k, r, a, hxs("K.java")));
        out.d(format!("TYPS N F {} {} {} {} F {} {} {} {} C E {} {} F {} {} {} {}", k, r, a, hxs("K.java"), k, r, o, hxs("K.java"), hxs("app.K"), hxs("m"), k, r, a, hxs("SourceFile")));
        let txt = format!("x.Boom: m\n    at app.K.run(K.java:{a})\n    at app.K.run(K.java:{o})\nCaused by: app.K\n    at app.K.run(SourceFile:{a})\n");
        out.d(format!("TYP {}", hxs(&txt)));
        out.d(format!("TXT {}", hxs(&txt)));
        out.d(format!("FRL {} {} {} -", k, r, a));
        out.count("non_idempotent_mappings");
    }
}

pub fn gen_c08(rng: &mut Rng, tier: &str, out: &mut Out) {
    let th = thorough(tier);
    reremap_ops(out, rng, if th { 200 } else { 30 });
    let n = if th { 12000 } else { 1000 };
    for _ in 0..n {
        let text = domain_mapping(rng, &Cfg::domain());
        map_op(out, true, &text);
        let u = universe(&text);
        let tg = TraceGen { u: &u };
        for _ in 0..4 {
            let toks = tg.tokens(rng, true);
            out.d(format!("TYPS {}", toks));
            out.count("q_typed_canonical");
        }
        for _ in 0..2 {
            out.d(format!("TYPS {}", tg.tokens(rng, false)));
            out.count("q_typed_any");
        }
        for _ in 0..2 {
            let t = tg.text(rng);
            out.d(format!("TYP {}", hxs(&t)));
            out.d(format!("TXT {}", hxs(&t)));
        }
    }
    trace_threshold_ops(out, true, th);
    // F3 anchor
    map_op(out, true, b"o.A -> a:\n");
    out.d(format!("TYPS E {} {}", hxs("java.lang.RuntimeException"), hxs("boom")));
    out.d(format!("TYP {}", hxs("java.lang.RuntimeException: boom\n")));
}

pub fn gen_c09(rng: &mut Rng, tier: &str, out: &mut Out) {
    let th = thorough(tier);
    congruent_range_ops(out);
    let n = if th { 16000 } else { 1600 };
    for i in 0..n {
        let mut cfg = Cfg::domain();
        if i % 9 == 0 {
            cfg.max_classes = if th { 300 } else { 40 };
            cfg.max_members = 3;
        }
        if i % 9 == 5 {
            cfg = big_class_cfg();
        }
        if i == 7 || (th && i % 50 == 7) {
            cfg.huge_pct = 40;
            cfg.max_classes = 3;
        }
        if i == 17 || (th && i % 90 == 17) {
            cfg.many_similar = true;
            cfg.min_classes = 250;
            cfg.max_classes = 300;
            cfg.max_members = 1;
        }
        let text = domain_mapping(rng, &cfg);
        map_op(out, true, &text);
        out.d("WRITE".into());
        out.d("DBG".into());
        let bytes = crate::proto::cur::write_cache_safe(&text);
        out.d(format!("BUF {}", hx(&bytes)));
        out.d("BTEST".into());
        if fmt_enabled() {
            out.d(format!("FMT {}", hx(&bytes)));
        }
    }
    {
        // strings whose LEB128 length prefix has 1, 2 and 3 bytes, at the exact boundaries
        let mut t = String::new();
        for (i, len) in [127usize, 128, 255, 256, 300, 383, 384, 16383, 16384, 16385, 20000].iter().enumerate() {
            t.push_str(&format!("o.{} -> c{}:\n    1:1:void m{}():1:1 -> a\n", "n".repeat(len - 2), i, "x".repeat(if i % 2 == 0 { 130 } else { 3 })));
        }
        map_op(out, true, t.as_bytes());
        out.d("WRITE".into());
        out.d("DBG".into());
        let bytes = crate::proto::cur::write_cache_safe(t.as_bytes());
        out.d(format!("BUF {}", hx(&bytes)));
        out.d("BTEST".into());
        if fmt_enabled() {
            out.d(format!("FMT {}", hx(&bytes)));
        }
        for i in 0..11 {
            out.d(format!("BCLS {}", hxs(&format!("c{}", i))));
        }
    }
    for n in [130usize, 300] {
        let text = threshold_mapping(n);
        map_op(out, true, &text);
        out.d("WRITE".into());
        out.d("DBG".into());
        let bytes = crate::proto::cur::write_cache_safe(&text);
        out.d(format!("BUF {}", hx(&bytes)));
        out.d("BTEST".into());
        if fmt_enabled() {
            out.d(format!("FMT {}", hx(&bytes)));
        }
    }
    for (name, text) in small_corpus() {
        let dom = is_representable(&text);
        map_op(out, dom, &text);
        out.t(dom, "WRITE".into());
        let bytes = crate::proto::cur::write_cache_safe(&text);
        out.t(dom, format!("BUF {}", hx(&bytes)));
        out.t(dom, "BTEST".into());
        if fmt_enabled() {
            out.t(dom, format!("FMT {}", hx(&bytes)));
        }
        out.count(&format!("corpus:{}", name));
    }
}

fn buf_queries(out: &mut Out, rng: &mut Rng, dom: bool, u: &Universe, nline: usize, pinned: bool) {
    let mut classes = u.classes.clone();
    classes.push("zz".into());
    for c in classes.iter().take(8) {
        out.t(dom, format!("BCLS {}", hxs(c)));
    }
    let mut pairs = u.pairs.clone();
    pairs.push(("zz".into(), "m".into()));
    if let Some(c) = u.classes.first() {
        pairs.push((c.clone(), "nosuch".into()));
    }
    for (c, m) in pairs.iter().take(12) {
        out.t(dom, format!("BMTH {} {}", hxs(c), hxs(m)));
        let mut lines: Vec<usize> = vec![0, 1, usize::MAX, 1 << 32];
        for _ in 0..nline {
            if !u.lines.is_empty() {
                lines.push(rng.pick(&u.lines));
            }
        }
        for l in lines {
            out.t(dom, format!("BFRL {} {} {} -", hxs(c), hxs(m), l));
            if pinned {
                out.t(dom, format!("PFRL {} {} {} -", hxs(c), hxs(m), l));
            }
        }
        for a in u.args.iter().take(3) {
            out.t(dom, format!("BFRP {} {} {}", hxs(c), hxs(m), hxs(a)));
        }
    }
    out.count("buffers_queried");
}

/// two overloads under one obfuscated name, each numbered from 1 upward (non-monotone line table)
pub fn nonmonotone_mapping(n: usize) -> Vec<u8> {
    let mut t = String::from("o.Big -> big:\n");
    for k in 0..2 {
        for i in 0..n / 2 {
            t.push_str(&format!("    {}:{}:void ov{}():{}:{} -> a\n", i + 1, i + 1, k, 1000 * (k + 1) + i, 1000 * (k + 1) + i));
        }
    }
    t.push_str("    void copy(int) -> copy\n    void copyDefault(int) -> copy$default\n    void copy2(int) -> copy$\n");
    t.into_bytes()
}

pub fn boundary_mapping() -> Vec<u8> {
    let mut t = String::new();
    for (i, len) in [127usize, 128, 255, 256, 300, 383, 384, 16383, 16384, 16500].iter().enumerate() {
        t.push_str(&format!("o.{} -> {}{}:\n    1:1:void m():1:1 -> a\n    {}:{}:void n(int):{}:{} -> b\n", "n".repeat(*len), "q".repeat(if i % 3 == 0 { *len } else { 2 }), i,
            (1u64 << 16) + i as u64, (1u64 << 24) + i as u64, (1u64 << 31) - 1, (1u64 << 32) - 2));
    }
    t.into_bytes()
}

pub fn gen_c10(rng: &mut Rng, tier: &str, out: &mut Out) {
    let th = thorough(tier);
    let n = if th { 10000 } else { 800 };
    for i in 0..n {
        let text = if i == 1 { threshold_mapping(130) } else if i == 2 { threshold_mapping(300) } else if i == 3 { boundary_mapping() } else if i == 4 { threshold_mapping(600) } else if i == 5 { nonmonotone_mapping(600) }
            else if i % 5 == 4 { gen_mapping(rng, &Cfg::hostile()).text } else { domain_mapping(rng, &Cfg::domain()) };
        // (reading a *buffer* is in C10's domain whatever mapping it was written from: the reader
        // model covers every buffer, so nothing here is tagged out-of-domain)
        let dom = true;
        let u = universe(&text);
        for writer in 0..2 {
            let bytes = if writer == 0 { crate::proto::pin::write_cache_safe(&text) } else { crate::proto::cur::write_cache_safe(&text) };
            out.t(dom, format!("BUF {}", hx(&bytes)));
            out.count(if writer == 0 { "pinned_written" } else { "current_written" });
            buf_queries(out, rng, dom, &u, 4, true);
            let tg = TraceGen { u: &u };
            out.t(dom, format!("BTXT {}", hxs(&tg.text(rng))));
            out.t(dom, format!("BSIG {}", hxs(&gen_descriptor(rng, &u))));
        }
    }
}

fn set_u32(b: &mut [u8], off: usize, v: u32) {
    if off + 4 <= b.len() {
        b[off..off + 4].copy_from_slice(&v.to_le_bytes());
    }
}
fn get_u32(b: &[u8], off: usize) -> u32 {
    u32::from_le_bytes([b[off], b[off + 1], b[off + 2], b[off + 3]])
}

pub fn gen_c11(rng: &mut Rng, tier: &str, out: &mut Out) {
    let th = thorough(tier);
    // (every prefix is one hex line: the volume is quadratic in the file size, so "all prefixes"
    // is limited to small files — 400 bytes quick, 1000 thorough — and sampled above that)
    let n = if th { 1200 } else { 200 };
    for i in 0..n {
        let mut cfg = Cfg::domain();
        cfg.max_classes = 3;
        cfg.max_members = 4;
        let mut text = if i == 0 { Vec::new() } else { domain_mapping(rng, &cfg) };
        if i % 8 == 3 {
            // the file's last string is long (2- or 3-byte length prefix)
            if !text.is_empty() && !matches!(text.last(), Some(b'\n') | Some(b'\r')) {
                text.push(b'\n');
            }
            let len = rng.pick(&[127usize, 128, 129, 200, 300, 16383, 16384, 16400]);
            match rng.below(3) {
                0 => text.extend_from_slice(format!("o.{} -> zlast:", "L".repeat(len)).as_bytes()),
                1 => text.extend_from_slice(format!("o.Z -> zlast:\n    void m({}) -> a", "p".repeat(len)).as_bytes()),
                _ => text.extend_from_slice(format!("o.Z -> zlast:\n    void o.{}.m() -> a\n", "F".repeat(len)).as_bytes()),
            }
        }
        let u = universe(&text);
        let bytes = crate::proto::cur::write_cache_safe(&text);
        out.d(format!("BUF {}", hx(&bytes)));
        buf_queries(out, rng, true, &u, 1, false);
        // the file at addresses that are not multiples of 8: whole, torn, and with the declared string
        // bytes lowered so that the shifted reading is accepted (every field then holds other bytes)
        if i % 2 == 0 {
            for a in 1..8usize {
                out.d(format!("BUFA {} {}", a, hx(&bytes)));
                out.count("unaligned");
                if let Some((cl, m)) = u.pairs.first() {
                    out.d(format!("BCLS {}", hxs(cl)));
                    out.d(format!("BFRL {} {} 1 -", hxs(cl), hxs(m)));
                }
            }
            for d in 1..=8usize {
                if bytes.len() >= d {
                    out.d(format!("BUFA 4 {}", hx(&bytes[..bytes.len() - d])));
                    out.count("unaligned");
                }
            }
            if bytes.len() >= 24 {
                let sb = get_u32(&bytes, 20);
                for v in [0u32, sb.saturating_sub(4), sb.saturating_sub(8), sb / 2] {
                    let mut b = bytes.clone();
                    set_u32(&mut b, 20, v);
                    out.d(format!("BUFA {} {}", rng.pick(&[4usize, 4, 4, 12, 0]), hx(&b)));
                    out.count("unaligned_lowered");
                    buf_queries(out, rng, true, &u, 1, false);
                }
            }
        }
        // prefixes: all for small files, sampled + section boundaries for large ones
        let len = bytes.len();
        let mut cuts: Vec<usize> = if len <= 400 || (th && len <= 1000) { (0..len).collect() } else if len > 6000 { (0..len).step_by(if th { 61 } else { 211 }).collect() } else { (0..len).step_by(if th { 3 } else { 7 }).collect() };
        for d in 1..=16 {
            if len >= d {
                cuts.push(len - d); // the torn tail
            }
        }
        let nc = get_u32(&bytes, 8) as usize;
        let nm = get_u32(&bytes, 12) as usize;
        let nb = get_u32(&bytes, 16) as usize;
        let a = |x: usize| (x + 7) / 8 * 8;
        let b1 = a(24 + 28 * nc);
        let b2 = a(b1 + 36 * nm);
        let b3 = a(b2 + 36 * nb);
        for b in [24usize, b1, b2, b3] {
            for d in 0..=16 {
                if b + d >= 8 {
                    cuts.push(b + d - 8);
                }
            }
        }
        cuts.retain(|&c| c < len);
        cuts.sort();
        cuts.dedup();
        for c in cuts {
            out.d(format!("BUF {}", hx(&bytes[..c])));
            out.count("prefixes");
            // a parsed prefix must answer like the full file: ask a few queries
            if let Some((cl, m)) = u.pairs.first() {
                out.d(format!("BCLS {}", hxs(cl)));
                out.d(format!("BFRL {} {} 1 -", hxs(cl), hxs(m)));
            }
        }
        // every permutation of the magic bytes
        if bytes.len() >= 4 {
            let m = [bytes[0], bytes[1], bytes[2], bytes[3]];
            for a in 0..4 {
                for b in 0..4 {
                    for c in 0..4 {
                        for d in 0..4 {
                            if a != b && a != c && a != d && b != c && b != d && c != d {
                                let mut bb = bytes.clone();
                                bb[0] = m[a];
                                bb[1] = m[b];
                                bb[2] = m[c];
                                bb[3] = m[d];
                                out.d(format!("BUF {}", hx(&bb)));
                                out.count("magic_permutations");
                            }
                        }
                    }
                }
            }
        }
        // magic x version edits together, on the whole file and on torn ones: the checks come in the
        // order magic (endianness, format), version, sections
        if i % 4 == 0 && bytes.len() >= 24 {
            let magic = get_u32(&bytes, 0);
            for mg in [magic, magic.swap_bytes(), magic ^ 1, 0] {
                for ver in [1u32, 0, 2, 1u32.swap_bytes(), u32::MAX] {
                    for cut in [bytes.len(), bytes.len() - 1, 24, 25, (24 + bytes.len()) / 2] {
                        let mut b = bytes[..cut.min(bytes.len())].to_vec();
                        set_u32(&mut b, 0, mg);
                        set_u32(&mut b, 4, ver);
                        out.d(format!("BUF {}", hx(&b)));
                        out.count("magic_version_truncation");
                    }
                }
            }
        }
        // one count / size field edited AND the file torn around a section boundary (the padding before
        // a section is only checked through that section's own length)
        if i % 4 == 2 && bytes.len() >= 24 {
            for field in 2..6usize {
                let orig = get_u32(&bytes, field * 4);
                for v in [0u32, orig.saturating_sub(1), orig.wrapping_add(1)] {
                    if v == orig {
                        continue;
                    }
                    for b in [b1, b2, b3, len] {
                        for d in 0..=8usize {
                            let cut = (b + 4).saturating_sub(d);
                            if cut < 24 || cut > len {
                                continue;
                            }
                            let mut bb = bytes[..cut].to_vec();
                            set_u32(&mut bb, field * 4, v);
                            out.d(format!("BUF {}", hx(&bb)));
                            out.count("field_edit_and_truncation");
                            if let Some((cl, _)) = u.pairs.first() {
                                out.d(format!("BCLS {}", hxs(cl)));
                            }
                        }
                    }
                }
            }
        }
        // header edits
        for field in 0..6usize {
            let orig = get_u32(&bytes, field * 4);
            let mut vals: Vec<u32> = vec![0, 1, orig.wrapping_sub(1), orig.wrapping_add(1), 1 << 31, u32::MAX - 1, u32::MAX, orig.swap_bytes(), 2, 1000];
            vals.push(rng.next() as u32);
            for v in vals {
                let mut b = bytes.clone();
                set_u32(&mut b, field * 4, v);
                out.d(format!("BUF {}", hx(&b)));
                out.count("header_edits");
                if let Some((cl, m)) = u.pairs.first() {
                    out.d(format!("BCLS {}", hxs(cl)));
                    out.d(format!("BFRL {} {} 1 -", hxs(cl), hxs(m)));
                }
            }
        }
    }
}

pub fn corrupt_buffers(rng: &mut Rng, bytes: &[u8], per: usize) -> Vec<Vec<u8>> {
    let mut v = Vec::new();
    if bytes.len() < 24 {
        return v;
    }
    let nc = get_u32(bytes, 8) as usize;
    let nm = get_u32(bytes, 12) as usize;
    let nb = get_u32(bytes, 16) as usize;
    let a = |x: usize| (x + 7) / 8 * 8;
    let cls0 = 24;
    let mem0 = a(24 + 28 * nc);
    let bp0 = a(mem0 + 36 * nm);
    let str0 = a(bp0 + 36 * nb);
    let words = str0.min(bytes.len()) / 4;
    let vals = |rng: &mut Rng, count: u32| -> u32 {
        rng.pick(&[0u32, 1, 2, 3, 7, count.wrapping_sub(1), count, count.wrapping_add(1), 1 << 31, (1 << 31) - 1, u32::MAX - 1, u32::MAX])
    };
    for _ in 0..per {
        let mut b = bytes.to_vec();
        match rng.below(8) {
            0..=2 => {
                // set one u32 field to a boundary value
                if words > 2 {
                    let w = rng.range(2, words - 1);
                    let count = rng.pick(&[nc as u32, nm as u32, nb as u32, (bytes.len() - str0.min(bytes.len())) as u32]);
                    let val = vals(rng, count);
                    set_u32(&mut b, w * 4, val);
                }
            }
            3 => {
                // swap or duplicate two records of a section
                let (base, size, n) = rng.pick(&[(cls0, 28usize, nc), (mem0, 36, nm), (bp0, 36, nb)]);
                if n >= 2 {
                    let i = rng.below(n);
                    let j = rng.below(n);
                    let (ri, rj) = (base + i * size, base + j * size);
                    let tmp: Vec<u8> = b[ri..ri + size].to_vec();
                    if rng.pct(50) {
                        let other: Vec<u8> = b[rj..rj + size].to_vec();
                        b[ri..ri + size].copy_from_slice(&other);
                    }
                    b[rj..rj + size].copy_from_slice(&tmp);
                }
            }
            4 => {
                // bit flips
                for _ in 0..rng.range(1, 4) {
                    let p = rng.below(b.len());
                    b[p] ^= 1 << rng.below(8);
                }
            }
            5 => {
                // string section damage: length prefixes, utf-8
                if str0 < b.len() {
                    let p = rng.range(str0, b.len() - 1);
                    b[p] = rng.pick(&[0x80u8, 0xff, 0xc3, 0x00, 0x7f, 0x81, 0xe2]);
                    if rng.pct(30) {
                        // 10-byte LEB128 prefix
                        for k in 0..10 {
                            if p + k < b.len() {
                                b[p + k] = if k < 9 { 0xff } else { rng.pick(&[0x00u8, 0x01, 0x02, 0x7f]) };
                            }
                        }
                    }
                }
            }
            6 => {
                // random tail behind a valid header
                let keep = rng.range(24, b.len());
                for x in b[keep..].iter_mut() {
                    *x = rng.next() as u8;
                }
            }
            _ => {
                // two field edits at once (offset + length pairs)
                if words > 3 {
                    for _ in 0..2 {
                        let w = rng.range(2, words - 1);
                        let val = vals(rng, nm as u32);
                        set_u32(&mut b, w * 4, val);
                    }
                }
            }
        }
        v.push(b);
    }
    v
}

/// Classes and methods whose names share long common prefixes (next to much shorter names), in a
/// written cache whose class / member records are then swapped, duplicated or given another
/// record's name offset: comparators that skip a "known common prefix" meet strings shorter than
/// it.  Every name is queried on every such buffer.
fn prefix_disorder_cases(out: &mut Out, rng: &mut Rng, th: bool) {
    let classes = ["b", "com", "com.example.a", "com.example.b", "com.example.c", "com.example.d", "com.example.e", "com.example.f", "com.example.fé", "com.exampl", "z"];
    let methods = ["p", "processItemA", "processItemB", "processItemC", "processItemD", "processItemE", "processIt", "q"];
    let mut t = String::new();
    for (i, c) in classes.iter().enumerate() {
        t.push_str(&format!("orig.K{} -> {}:\n", i, c));
        if i % 3 == 1 {
            for (j, m) in methods.iter().enumerate() {
                t.push_str(&format!("    {}:{}:void m{}(int) -> {}\n", j + 1, j + 2, j, m));
            }
        }
    }
    let bytes = crate::proto::cur::write_cache_safe(t.as_bytes());
    if bytes.len() < 24 {
        return;
    }
    let nc = get_u32(&bytes, 8) as usize;
    let nm = get_u32(&bytes, 12) as usize;
    let coff = 24;
    let moff = (coff + 28 * nc + 7) / 8 * 8;
    let emit = |out: &mut Out, b: &[u8]| {
        out.d(format!("BUF {}", hx(b)));
        out.count("prefix_disorder_buffers");
        for c in classes.iter() {
            out.d(format!("BCLS {}", hxs(c)));
            out.d(format!("BFRL {} {} 2 -", hxs(c), hxs("processItemC")));
        }
        for m in methods.iter() {
            out.d(format!("BMTH {} {}", hxs("com.example.a"), hxs(m)));
            out.d(format!("BMTH {} {}", hxs("com"), hxs(m)));
            out.d(format!("BFRP {} {} {}", hxs("com.example.d"), hxs(m), hxs("int")));
        }
        out.d(format!("BSIG {}", hxs("(Lcom/example/d;Lcom/example/f;)Lb;")));
        out.d(format!("BTXT {}", hxs("x.Y: m\n    at com.example.d.processItemC(F.java:2)\n    at b.p(F.java:1)\n")));
    };
    let pairs: Vec<(usize, usize)> = if th {
        (0..nc).flat_map(|i| (0..nc).map(move |j| (i, j))).filter(|(i, j)| i != j).collect()
    } else {
        (0..nc).flat_map(|i| (i + 1..nc).map(move |j| (i, j))).collect()
    };
    for (i, j) in pairs {
        // swap class records i and j
        let mut b = bytes.clone();
        for k in 0..28 {
            b.swap(coff + 28 * i + k, coff + 28 * j + k);
        }
        emit(out, &b);
        // duplicate record j over record i
        if (i + j) % 3 == 0 || th {
            let mut b = bytes.clone();
            for k in 0..28 {
                b[coff + 28 * i + k] = bytes[coff + 28 * j + k];
            }
            emit(out, &b);
        }
        // only the name offset of record i redirected to record j's name
        if (i + j) % 3 == 1 || th {
            let mut b = bytes.clone();
            let v = get_u32(&bytes, coff + 28 * j);
            set_u32(&mut b, coff + 28 * i, v);
            emit(out, &b);
        }
    }
    for _ in 0..(if th { 200 } else { 30 }) {
        if nm < 2 {
            break;
        }
        let (i, j) = (rng.below(nm), rng.below(nm));
        let mut b = bytes.clone();
        for k in 0..36 {
            b.swap(moff + 36 * i + k, moff + 36 * j + k);
        }
        emit(out, &b);
    }
}

pub fn gen_c12(rng: &mut Rng, tier: &str, out: &mut Out) {
    let th = thorough(tier);
    let n = if th { 4800 } else { 440 };
    for _ in 0..n {
        let mut cfg = Cfg::domain();
        cfg.max_classes = 4;
        cfg.max_members = 6;
        cfg.min_classes = 1;
        let text = domain_mapping(rng, &cfg);
        let u = universe(&text);
        let bytes = crate::proto::cur::write_cache_safe(&text);
        for (bi, b) in corrupt_buffers(rng, &bytes, if th { 24 } else { 10 }).into_iter().enumerate() {
            if bi % 5 == 4 {
                // … at an address that is not a multiple of 8 (sections read 4 bytes later), with the
                // declared string bytes lowered half of the time so that the reading is accepted
                let mut b = b.clone();
                if b.len() >= 24 && rng.pct(50) {
                    let sb = get_u32(&b, 20);
                    set_u32(&mut b, 20, rng.pick(&[0u32, sb.saturating_sub(4), sb / 2]));
                }
                out.d(format!("BUFA {} {}", rng.pick(&[4usize, 4, 4, 2, 7]), hx(&b)));
                out.count("corrupt_buffers_unaligned");
            } else {
                out.d(format!("BUF {}", hx(&b)));
            }
            out.count("corrupt_buffers");
            buf_queries(out, rng, true, &u, 2, false);
            let tg = TraceGen { u: &u };
            out.d(format!("BTXT {}", hxs(&tg.text(rng))));
            out.d(format!("BTYP {}", hxs(&tg.text(rng))));
            out.d(format!("BSIG {}", hxs(&gen_descriptor(rng, &u))));
            let d = gen_descriptor(rng, &u);
            out.d(format!("BSIG {}", hxs(&corrupt_str(rng, &d))));
        }
    }
    // signature / text queries with multi-byte characters at slice boundaries, against a valid cache
    {
        let text = b"o.A -> a:\n    1:3:void x():1:3 -> m\n";
        let bytes = crate::proto::cur::write_cache_safe(text);
        out.d(format!("BUF {}", hx(&bytes)));
        for s in HOSTILE_SIGS {
            out.d(format!("BSIG {}", hxs(s)));
        }
        for s in threshold_sigs() {
            out.d(format!("BSIG {}", hxs(&s)));
        }
        for s in HOSTILE_TEXT.iter().chain(HOSTILE_TEXT2.iter()) {
            out.d(format!("BTXT {}", hxs(s)));
            out.d(format!("BTYP {}", hxs(s)));
        }
    }
    prefix_disorder_cases(out, rng, th);
    lib_ops(out, rng, th, "order");
    // F5 anchor: endline truncated to 0 with a real original range
    let text = b"o.A -> a:\n    5:4294967296:void x():1:3 -> m\n";
    let bytes = crate::proto::cur::write_cache_safe(text);
    out.d(format!("BUF {}", hx(&bytes)));
    for l in [0usize, 2, 5, 7, usize::MAX] {
        out.d(format!("BFRL {} {} {} -", hxs("a"), hxs("m"), l));
    }
}

pub fn gen_c13(rng: &mut Rng, tier: &str, out: &mut Out) {
    let th = thorough(tier);
    let n = if th { 12000 } else { 1040 };
    for i in 0..n {
        let text = match i % 4 {
            0 => gen_mapping(rng, &Cfg::hostile()).text,
            1 => {
                let g = gen_mapping(rng, &Cfg::hostile());
                mutate(rng, &g.text)
            }
            2 => soup(rng, 300),
            _ => {
                let mut cfg = Cfg::hostile();
                cfg.noise_pct = 5;
                gen_mapping(rng, &cfg).text
            }
        };
        map_op(out, true, &text);
        out.d("WRITE".into());
        let u = universe(&text);
        cls_queries(out, rng, true, &u);
        mth_queries(out, true, &u, 12);
        frl_queries(out, rng, true, &u, 1, 12);
        frp_queries(out, true, &u);
        let tg = TraceGen { u: &u };
        out.d(format!("TXT {}", hxs(&tg.text(rng))));
        out.d(format!("TYP {}", hxs(&tg.text(rng))));
        let mut s = String::new();
        for _ in 0..rng.below(30) {
            s.push(rng.pick(&['a', ' ', '\n', ':', '(', ')', '.', 'é', '日', '\u{2028}', 't', 'L', ';', '[', 'I', 'V']));
        }
        out.d(format!("TXT {}", hxs(&s)));
        out.d(format!("SIG {}", hxs(&s)));
        out.d(format!("FRM {}", hxs(&s)));
        sig_queries(out, rng, true, &u, 2);
    }
    for t in lone_byte_number_cases() {
        map_op(out, true, &t);
        out.d("WRITE".into());
        out.d(format!("FRL {} {} 12 -", hxs("a"), hxs("x")));
        out.d(format!("MTH {} {}", hxs("a"), hxs("y")));
    }
    // F4 anchor
    map_op(out, true, b"o.A -> a:\n    1:2:void x():18446744073709551615:0 -> m\n");
    out.d(format!("FRL {} {} 2 -", hxs("a"), hxs("m")));
    map_op(out, true, b"o.A -> a:\n    5:4294967296:void x():1:3 -> m\n");
    out.d(format!("FRL {} {} 0 -", hxs("a"), hxs("m")));
    for s in HOSTILE_TEXT.iter().chain(HOSTILE_TEXT2.iter()) {
        out.d(format!("FRM {}", hxs(s)));
        out.d(format!("THW {}", hxs(s)));
        out.d(format!("TXT {}", hxs(s)));
        out.d(format!("TYP {}", hxs(s)));
    }
    map_op(out, true, b"o.Small -> small:\n    1:1:void x():7:7 -> a\no.A -> a:\n");
    for t in deep_chain_traces(th) {
        out.d(format!("TXT {}", hxs(&t)));
        out.d(format!("TYP {}", hxs(&t)));
        out.d(format!("TRC {}", hxs(&t)));
        out.count("deep_cause_chains");
    }
}

pub fn gen_c14(rng: &mut Rng, tier: &str, out: &mut Out) {
    let th = thorough(tier);
    let n = if th { 12000 } else { 1200 };
    for i in 0..n {
        let mut cfg = if i % 3 == 0 { Cfg::hostile() } else { Cfg::domain() };
        if i % 10 == 0 {
            cfg.max_classes = 40;
        }
        let g = gen_mapping(rng, &cfg);
        map_op(out, true, &g.text);
        out.d("WRITE".into());
        if i % 6 == 1 {
            // a write that fails half-way, then the same and another mapping again
            out.d(format!("SINK {} {} -", rng.range(1, 64), rng.range(24, 200)));
            map_op(out, true, &g.text);
            out.d("WRITE".into());
            let h = gen_mapping(rng, &Cfg::domain());
            map_op(out, true, &h.text);
            out.d("WRITE".into());
        }
    }
    for (name, text) in small_corpus() {
        map_op(out, true, &text);
        out.d("WRITE".into());
        out.count(&format!("corpus:{}", name));
    }
}

pub fn gen_c15(rng: &mut Rng, tier: &str, out: &mut Out) {
    let th = thorough(tier);
    let n = if th { 6000 } else { 600 };
    for _ in 0..n {
        let mut cfg = Cfg::domain();
        cfg.max_classes = 4;
        let g = gen_mapping(rng, &cfg);
        map_op(out, true, &g.text);
        let len = crate::proto::cur::write_cache_safe(&g.text).len();
        for k in 1..=16usize {
            if th || k <= 4 || rng.pct(25) {
                out.d(format!("SINK {} - -", k));
                out.count("sink_chunk");
            }
        }
        for _ in 0..(if th { 12 } else { 5 }) {
            let k = rng.range(1, 40);
            let npos = rng.below(len + 2);
            let j = if rng.pct(40) { format!("{}", rng.range(2, 5)) } else { "-".into() };
            out.d(format!("SINK {} {} {}", k, npos, j));
            out.count("sink_fail_at");
        }
        out.d(format!("SINK {} - {}", rng.range(1, 9), rng.range(2, 4)));
        // short writes *and* interrupts on the same run (every j-th call interrupted)
        for _ in 0..(if th { 8 } else { 3 }) {
            out.d(format!("SINK {} - {}", rng.range(1, 40), rng.range(2, 7)));
            out.count("sink_short_and_interrupted");
        }
        // a sink that is full after n bytes and says so with `Ok(0)` (like `&mut [u8]`), at positions
        // in every section incl. the last bytes
        for _ in 0..(if th { 12 } else { 5 }) {
            let k = rng.pick(&[1usize, 3, 7, 64, 4096, 1 << 20]);
            let npos = match rng.below(4) {
                0 => len.saturating_sub(rng.below(12)),
                1 => rng.below(25),
                _ => rng.below(len + 2),
            };
            let j = if rng.pct(30) { format!("{}", rng.range(2, 5)) } else { "-".into() };
            out.d(format!("SINKZ {} {} {}", k, npos, j));
            out.count("sink_full_ok0");
        }
    }
}

/// One mapper / cache asked for more distinct class paths than any bounded memo would hold
/// (1 100, 2 100 or 4 200 classes), then for the earliest ones again, mapped and unmapped mixed.
fn many_class_sig_ops(out: &mut Out, n: usize) {
    let mut t = String::with_capacity(n * 24);
    for i in 0..n {
        t.push_str(&format!("com.gen.Type{} -> g.t{}:\n", i, i));
    }
    map_op(out, true, t.as_bytes());
    for i in 0..n {
        let sig = if i % 3 == 0 { format!("(Lg/t{};I)Ljava/lang/String{};", i, i) } else { format!("([Lg/t{};)V", i) };
        out.d(format!("SIG {}", hxs(&sig)));
    }
    for i in (0..40).chain(n - 20..n) {
        out.d(format!("SIG {}", hxs(&format!("(Lg/t{};Ljava/lang/String{};)Lg/t{};", i, i - i % 3, n - 1 - i))));
        out.d(format!("CLS {}", hxs(&format!("g.t{}", i))));
    }
    out.count("many_class_signature_runs");
}

fn leb_push(out: &mut Vec<u8>, mut n: usize) {
    loop {
        let b = (n & 0x7f) as u8;
        n >>= 7;
        if n == 0 {
            out.push(b);
            break;
        }
        out.push(b | 0x80);
    }
}

/// `LIB` operations: the std / leb128 functions mirrored by the Lean model, compared directly.
/// `which`: "text" (utf8, trim, lines, num, dec, split), "order" (cmp, bs, leb).
pub fn lib_ops(out: &mut Out, rng: &mut Rng, th: bool, which: &str) {
    let ws: &[&str] = &["\t", "\n", "\u{b}", "\u{c}", "\r", " ", "\u{85}", "\u{a0}", "\u{1680}", "\u{2000}", "\u{2003}", "\u{200a}", "\u{2028}", "\u{2029}",
        "\u{202f}", "\u{205f}", "\u{3000}", "\u{200b}", "\u{feff}", "\u{180e}", "\u{1c}", "\u{1f}", "\u{2060}", "a", "é", "\u{e2}", "日", "\u{1D49C}", "\u{0}"];
    if which == "text" {
        // white space: every pair / triple around a letter
        for a in ws {
            for b in ws {
                out.d(format!("LIB trim {}", hxs(&format!("{}{}", a, b))));
                out.d(format!("LIB trim {}", hxs(&format!("{}x{}", a, b))));
                if th {
                    for c in ws {
                        out.d(format!("LIB trim {}", hxs(&format!("{}{}x{}", a, b, c))));
                    }
                }
            }
        }
        // UTF-8 validity: all strings of <= 3 bytes over the boundary bytes of Table 3-7, longer random ones
        let bytes: &[u8] = &[0x00, 0x41, 0x7f, 0x80, 0x8f, 0x90, 0x9f, 0xa0, 0xbf, 0xc0, 0xc1, 0xc2, 0xdf, 0xe0, 0xe1, 0xec, 0xed, 0xee, 0xef, 0xf0, 0xf1, 0xf3, 0xf4, 0xf5, 0xff];
        for &a in bytes {
            out.d(format!("LIB utf8 {}", hx(&[a])));
            for &b in bytes {
                out.d(format!("LIB utf8 {}", hx(&[a, b])));
                for &c in bytes {
                    out.d(format!("LIB utf8 {}", hx(&[a, b, c])));
                    if th || (a >= 0xf0 && a <= 0xf4) {
                        for &d in &[0x80u8, 0xbf, 0x41, 0xc2] {
                            out.d(format!("LIB utf8 {}", hx(&[a, b, c, d])));
                        }
                    }
                }
            }
        }
        for _ in 0..(if th { 20000 } else { 2000 }) {
            let n = rng.below(12);
            let b: Vec<u8> = (0..n).map(|_| rng.pick(bytes)).collect();
            out.d(format!("LIB utf8 {}", hx(&b)));
        }
        // lines: all strings of <= 5 symbols over {a, \r, \n}
        let alpha: &[&str] = &["a", "\r", "\n", "é"];
        let mut idx: Vec<usize> = vec![];
        loop {
            let s: String = idx.iter().map(|&i| alpha[i]).collect();
            out.d(format!("LIB lines {}", hxs(&s)));
            let mut p = idx.len();
            let mut grown = false;
            loop {
                if p == 0 {
                    idx = vec![0; idx.len() + 1];
                    grown = true;
                    break;
                }
                p -= 1;
                if idx[p] + 1 < alpha.len() {
                    idx[p] += 1;
                    for q in p + 1..idx.len() {
                        idx[q] = 0;
                    }
                    break;
                }
            }
            if grown && idx.len() > (if th { 7 } else { 5 }) {
                break;
            }
        }
        // numbers
        for s in ["", "0", "00", "+0", "+", "-", "-0", "-1", "+1", " 1", "1 ", "1_0", "0x10", "1e3", "١", "²", "18446744073709551615", "18446744073709551616", "018446744073709551615",
                  "+18446744073709551615", "4294967295", "4294967296", "+4294967295", "99999999999999999999999999", "000000000000000000000000000000000000007", "1\u{0}", "１"] {
            out.d(format!("LIB num {}", hxs(s)));
        }
        for _ in 0..(if th { 5000 } else { 500 }) {
            let n = rng.below(24);
            let s: String = (0..n).map(|_| rng.pick(&['0', '1', '9', '+', '-', ' ', '5', '٣'])).collect();
            out.d(format!("LIB num {}", hxs(&s)));
            out.d(format!("LIB dec {}", rng.next() >> rng.below(64)));
        }
        for n in [0u64, 1, 9, 10, 99, 100, u32::MAX as u64, u32::MAX as u64 + 1, u64::MAX, u64::MAX - 1] {
            out.d(format!("LIB dec {}", n));
        }
        // split_once / rsplit_once / split_once(": ")
        for _ in 0..(if th { 20000 } else { 2000 }) {
            let n = rng.below(10);
            let s: String = (0..n).map(|_| rng.pick(&[":", " ", ".", "(", "a", "é", ": ", "$"])).collect::<Vec<_>>().concat();
            out.d(format!("LIB split {} {}", hxs(&s), hxs(rng.pick(&[":", ".", "(", " ", "$"]))));
        }
    } else {
        // byte order = str::cmp, tuples
        let pool: &[&str] = &["", "a", "a.", "a$", "a\u{0}", "b", "é", "\u{e8}", "\u{ffff}", "\u{10000}", "\u{e000}", "日", "aa", "a\u{7f}", "a\u{80}", "\u{7f}", "\u{80}", "A"];
        for x in pool {
            for y in pool {
                out.d(format!("LIB cmp {} {}", hxs(x), hxs(y)));
            }
        }
        // binary_search_by on arbitrary comparators: all patterns of length <= 7 (quick) / 9, random longer ones
        let maxn = if th { 9 } else { 7 };
        for n in 0..=maxn {
            let total = 3usize.pow(n as u32);
            for mut code in 0..total {
                let mut pat = String::from(".");
                for _ in 0..n {
                    pat.push(['L', 'E', 'G'][code % 3]);
                    code /= 3;
                }
                out.d(format!("LIB bs {}", pat));
            }
        }
        for _ in 0..(if th { 40000 } else { 4000 }) {
            let n = rng.range(8, 70);
            let cut = rng.below(n + 1);
            let mut pat = String::from(".");
            for i in 0..n {
                // mostly sorted (L…L E…E G…G) with noise
                let c = if rng.pct(85) { if i < cut { 'L' } else if i < cut + rng.below(3) { 'E' } else { 'G' } } else { rng.pick(&['L', 'E', 'G']) };
                pat.push(c);
            }
            out.d(format!("LIB bs {}", pat));
        }
        // LEB128: every 1- and 2-byte string over boundary bytes, overlong / overflowing / truncated ones
        let lb: &[u8] = &[0x00, 0x01, 0x02, 0x7f, 0x80, 0x81, 0xff, 0x40, 0xc0];
        for &a in lb {
            out.d(format!("LIB leb {}", hx(&[a])));
            for &b in lb {
                out.d(format!("LIB leb {}", hx(&[a, b])));
                out.d(format!("LIB leb {}", hx(&[a, b, 0x01, 0xaa])));
            }
        }
        for k in 1..=12usize {
            for last in [0x00u8, 0x01, 0x02, 0x7f, 0x80] {
                let mut v = vec![0x80u8; k - 1];
                v.push(last);
                out.d(format!("LIB leb {}", hx(&v)));
                let mut v = vec![0xffu8; k - 1];
                v.push(last);
                v.push(0x33);
                out.d(format!("LIB leb {}", hx(&v)));
            }
        }
        for _ in 0..(if th { 20000 } else { 2000 }) {
            let n = rng.below(12);
            let b: Vec<u8> = (0..n).map(|_| if rng.pct(60) { 0x80 | (rng.next() as u8) } else { rng.next() as u8 & 0x7f }).collect();
            out.d(format!("LIB leb {}", hx(&b)));
            out.d(format!("LIB lebw {}", rng.next() >> rng.below(64)));
        }
        for n in [0u64, 1, 127, 128, 16383, 16384, 2097151, 2097152, u32::MAX as u64, u64::MAX] {
            out.d(format!("LIB lebw {}", n));
        }
        // watto::StringTable: insertion sequences with repeats, the empty string, long strings;
        // reads at every offset of the resulting bytes and of damaged copies
        for i in 0..(if th { 3000 } else { 300 }) {
            let n = rng.range(1, 8);
            let mut strs: Vec<String> = Vec::new();
            for _ in 0..n {
                let s = match rng.below(8) {
                    0 => String::new(),
                    1 => "x".repeat(rng.pick(&[126usize, 127, 128, 129, 300, 16383, 16384])),
                    2 if !strs.is_empty() => rng.pick(&strs).clone(),
                    _ => rng.pick(&["a", "b", "ab", "é", "日本", "a.b", "\u{0}", " "]).to_string(),
                };
                strs.push(s);
            }
            out.d(format!("LIB strtab {}", strs.iter().map(|s| hxs(s)).collect::<Vec<_>>().join(" ")));
            if i % 10 == 0 {
                let mut t = Vec::new();
                for s in strs.iter().filter(|s| s.len() < 400) {
                    leb_push(&mut t, s.len());
                    t.extend_from_slice(s.as_bytes());
                }
                for off in 0..t.len() + 2 {
                    out.d(format!("LIB strread {} {}", hx(&t), off));
                }
                if !t.is_empty() {
                    let k = rng.below(t.len());
                    t[k] = rng.pick(&[0xffu8, 0x80, 0x00, 0x7f, 0xc3]);
                    for off in 0..t.len() + 1 {
                        out.d(format!("LIB strread {} {}", hx(&t), off));
                    }
                }
                out.d(format!("LIB strread {} {}", hx(&t), usize::MAX));
            }
        }
    }
    out.count("library_mirror_ops");
}

pub fn gen_c16(rng: &mut Rng, tier: &str, out: &mut Out) {
    let th = thorough(tier);
    let n = if th { 6000 } else { 600 };
    for i in 0..n {
        // every tenth mapping leaves the representable domain (empty names, huge numbers): the three
        // handles must still agree with the model there
        let hostile = i % 10 == 1;
        let text = if i % 5 == 0 { Vec::new() } else if hostile { gen_mapping(rng, &Cfg::hostile()).text } else { domain_mapping(rng, &Cfg::domain()) };
        map_op(out, true, &text);
        let u = universe(&text);
        sig_queries(out, rng, !hostile, &u, if th { 60 } else { 30 });
        let mut s = String::new();
        for _ in 0..rng.below(12) {
            s.push(rng.pick(&['(', ')', 'L', ';', '[', 'I', 'V', 'a', '/', 'é', '日', 'X']));
        }
        out.d(format!("SIG {}", hxs(&s)));
    }
    many_class_sig_ops(out, if th { 4200 } else { 1100 });
    // bounded-exhaustive: all descriptors with ≤ 3 parameters over a 6-type alphabet
    map_op(out, true, b"o.A -> a:\no.Lib -> Lib:\ncom.example.collision.Devoid -> Avoid:\n");
    const T: &[&str] = &["I", "La;", "[J", "LLib;", "[[Lx/y;", "Z", "LAvoid;", "Lx/void;"];
    let mut cnt = 0u64;
    for r in 0..T.len() + 1 {
        let ret = if r == T.len() { "V" } else { T[r] };
        out.d(format!("SIG {}", hxs(&format!("(){}", ret))));
        cnt += 1;
        for a in T {
            out.d(format!("SIG {}", hxs(&format!("({}){}", a, ret))));
            cnt += 1;
            for b in T {
                out.d(format!("SIG {}", hxs(&format!("({}{}){}", a, b, ret))));
                cnt += 1;
                for c in T {
                    out.d(format!("SIG {}", hxs(&format!("({}{}{}){}", a, b, c, ret))));
                    cnt += 1;
                }
            }
        }
    }
    out.add("bounded_exhaustive_descriptors", cnt);
    // bounded-exhaustive malformed parameter lists: every body of up to 5 tokens over L ; [ I a
    // (stray and missing terminators in every combination), and every string of up to 4 tokens
    // over ( ) L ; [ a
    let mut cnt = 0u64;
    const B: &[char] = &['L', ';', '[', 'I', 'a'];
    let mut bodies: Vec<String> = vec![String::new()];
    let mut all: Vec<String> = bodies.clone();
    for _ in 0..5 {
        bodies = bodies.iter().flat_map(|b| B.iter().map(move |c| format!("{}{}", b, c))).collect();
        all.extend(bodies.iter().cloned());
    }
    for b in &all {
        for ret in ["V", "La;"] {
            out.d(format!("SIG {}", hxs(&format!("({}){}", b, ret))));
            cnt += 1;
        }
    }
    const A: &[char] = &['(', ')', 'L', ';', '[', 'a'];
    let mut ws: Vec<String> = vec![String::new()];
    for _ in 0..4 {
        ws = ws.iter().flat_map(|b| A.iter().map(move |c| format!("{}{}", b, c))).collect();
        for w in &ws {
            out.d(format!("SIG {}", hxs(w)));
            cnt += 1;
        }
    }
    out.add("bounded_exhaustive_malformed_descriptors", cnt);
}

pub fn gen_c17(rng: &mut Rng, tier: &str, out: &mut Out) {
    let th = thorough(tier);
    lib_ops(out, rng, th, "text");
    for t in threshold_traces() {
        out.d(format!("TRC {}", hxs(&t)));
    }
    for s in HOSTILE_TEXT.iter().chain(HOSTILE_TEXT2.iter()) {
        out.d(format!("FRM {}", hxs(s)));
        out.d(format!("THW {}", hxs(s)));
        out.d(format!("TRC {}", hxs(&format!("x.Y: m\n{}\nCaused by: {}\n{}", s, s, s))));
    }
    {
        // deep cause chains / many frames as structured traces
        for depth in [5usize, 12, 40] {
            let mut t = String::from("E x612e62 x6d");
            for d in 0..depth {
                t.push_str(&format!(" F x61 x62 {} x46", d));
                t.push_str(&format!(" C E {} -", hxs(&format!("c.L{}", d))));
            }
            out.d(format!("DSPS {}", t));
        }
    }
    let n = if th { 160000 } else { 12000 };
    let u = universe(b"o.A -> a:\n    1:3:void x():1:3 -> m\no.B$C -> a.b$c:\n    void <init>() -> <init>\n");
    let tg = TraceGen { u: &u };
    for _ in 0..n {
        let toks = tg.tokens(rng, true);
        out.d(format!("DSPS {}", toks));
        out.count("traces");
        let t = tg.text(rng);
        out.d(format!("TRC {}", hxs(&t)));
        for l in t.lines().take(3) {
            out.d(format!("FRM {}", hxs(l)));
            out.d(format!("THW {}", hxs(l)));
        }
        if rng.pct(10) {
            // invalid UTF-8 reaches try_parse as bytes
            let mut b = t.clone().into_bytes();
            let pos = if b.is_empty() { 0 } else { rng.below(b.len()) };
            b.insert(pos, rng.pick(&[0xffu8, 0xc3, 0x80, 0xe2, 0xf0, 0xed, 0xb2, 0xb9, 0xbc, 0xbe]));
            out.d(format!("TRC {}", hx(&b)));
            out.d(format!("FRM {}", hx(&b)));
            out.d(format!("THW {}", hx(&b)));
            out.count("invalid_utf8");
        }
        let c = tg.class(rng);
        let m = tg.method_for(rng, &c);
        let line = rng.pick(&[0usize, 1, 77, 1 << 32, usize::MAX, usize::MAX - 1]);
        out.d(format!("DSPF {} {} {} {}", hxs(&c), hxs(&m), line, opt_hxs(if rng.pct(80) { Some("F.java") } else { None })));
        out.d(format!("DSPT {} {}", hxs(&c), opt_hxs(if rng.pct(60) { Some(rng.pick(MESSAGES)) } else { None })));
        if rng.pct(25) {
            // constructors and accessors: new / with_file / with_parameters, full_method
            let f = if rng.pct(50) { Some("F.java") } else { None };
            let p = if rng.pct(40) { Some(rng.pick(&["", "int", "int,long", "java.lang.String"])) } else { None };
            out.d(format!("SF {} {} {} {} {}", hxs(&c), hxs(&m), line, opt_hxs(f), opt_hxs(p)));
            out.d(format!("FULL {} {}", hxs(&c), hxs(&m)));
        }
    }
}

/// `MAP text` followed by `SECT a b` operations: whole file, empty ranges, line-aligned ranges
/// (prefix / suffix / middle, so that parent and section differ in line info, validity,
/// headers and counts), and arbitrary byte ranges.
fn section_ops(out: &mut Out, rng: &mut Rng, text: &[u8], n_random: usize) {
    map_op(out, true, text);
    let len = text.len();
    let mut starts: Vec<usize> = vec![0];
    for (i, &b) in text.iter().enumerate() {
        if b == b'\n' && i + 1 <= len {
            starts.push(i + 1);
        }
    }
    let mut emit = |out: &mut Out, a: usize, b: usize| {
        out.d(format!("SECT {} {}", a, b));
        out.count("sections");
    };
    emit(out, 0, len);
    emit(out, 0, 0);
    emit(out, len, len);
    let k = starts.len();
    for i in 0..k.min(12) {
        emit(out, starts[i], len);
        emit(out, 0, starts[i]);
    }
    // edges on, inside and right after line terminators (between the CR and the LF of a CRLF, …)
    let mut edges: Vec<usize> = Vec::new();
    for (i, &b) in text.iter().enumerate() {
        if b == b'\r' || b == b'\n' {
            edges.push(i);
            edges.push(i + 1);
        }
    }
    edges.dedup();
    let mids: Vec<usize> = (1..len).filter(|&i| text[i - 1] == b'\r' && text[i] == b'\n').collect();
    for (x, &a) in mids.iter().enumerate().take(6) {
        for &b in mids.iter().skip(x).take(6) {
            emit(out, a, b);
        }
    }
    if !edges.is_empty() {
        for _ in 0..n_random {
            let a = rng.pick(&edges);
            let b = rng.pick(&edges);
            emit(out, a.min(b), a.max(b));
            out.count("sections_at_terminators");
        }
    }
    for _ in 0..n_random {
        let i = rng.below(k);
        let j = i + rng.below(k - i);
        emit(out, starts[i], starts[j].max(starts[i]));
        let a = rng.below(len + 1);
        let b = a + rng.below(len + 1 - a);
        emit(out, a, b);
    }
}

pub fn gen_c18(rng: &mut Rng, tier: &str, out: &mut Out) {
    let th = thorough(tier);
    out.d("UUID x".into());
    for (name, text) in corpus_files() {
        if text.len() > 100_000 && !th {
            continue;
        }
        out.d(format!("UUID {}", hx(&text)));
        // CRLF twin
        let mut crlf = Vec::new();
        for &b in &text {
            if b == b'\n' {
                crlf.push(b'\r');
            }
            crlf.push(b);
        }
        out.d(format!("UUID {}", hx(&crlf)));
        out.count(&format!("corpus:{}", name));
    }
    let n = if th { 12000 } else { 1200 };
    for i in 0..n {
        let len = match i % 6 {
            0 => rng.below(8),
            1 => rng.range(50, 70), // around the SHA-1 block / padding boundary
            2 => rng.range(110, 130),
            3 => rng.below(2000),
            4 => 55 + 64 * rng.below(4),
            _ => rng.below(if th { 200_000 } else { 20_000 }),
        };
        let mut b = Vec::with_capacity(len);
        for _ in 0..len {
            b.push(rng.next() as u8);
        }
        out.d(format!("UUID {}", hx(&b)));
        out.count("random_inputs");
    }
    // byte-order marks, NUL bytes, and pairs of equal-length inputs (evaluated in one reused buffer)
    for pre in [&b"\xef\xbb\xbf"[..], b"\xef\xbb\xbf\xef\xbb\xbf", b"\xff\xfe", b"\x00", b"\r\n", b"\n", b" "] {
        out.d(format!("UUID {}", hx(pre)));
        let mut v = pre.to_vec();
        v.extend_from_slice(b"a -> b:\n");
        out.d(format!("UUID {}", hx(&v)));
        let mut w = b"a -> b:\n".to_vec();
        w.extend_from_slice(pre);
        out.d(format!("UUID {}", hx(&w)));
    }
    for base in [&b"a -> b:"[..], b"", b"x", b"a -> b:\n    void m() -> a"] {
        for suf in [&b""[..], b"\n", b"\r\n", b"\r", b" ", b"\n\n", b"\x00", b"\t", b"\r\n\x1a", b"\n\x1a", b"\x1a", b"\n\x00", b"\r\n\x00", b"\n\x00\x00", b"\x04", b"\n\xef\xbb\xbf"] {
            let mut v = base.to_vec();
            v.extend_from_slice(suf);
            out.d(format!("UUID {}", hx(&v)));
        }
    }
    for len in [54usize, 55, 56, 57, 63, 64, 65, 118, 119, 120, 127, 128, 129, 255, 256, 65535, 65536, 65537] {
        for fill in [0u8, 0xff, 0x80, b'a'] {
            out.d(format!("UUID {}", hx(&vec![fill; len])));
        }
    }
    for _ in 0..(if th { 400 } else { 60 }) {
        let len = rng.range(1, 300);
        for _ in 0..3 {
            let b: Vec<u8> = (0..len).map(|_| rng.next() as u8).collect();
            out.d(format!("UUID {}", hx(&b)));
        }
        out.count("equal_length_triples");
    }
    if th {
        let mut b = vec![0u8; 1 << 20];
        for x in b.iter_mut() {
            *x = rng.next() as u8;
        }
        out.d(format!("UUID {}", hx(&b)));
    }
    // inputs that start with the cache format's magic (or a written cache itself) are byte strings like
    // any other
    for b in [&b"PRGC"[..], b"PRGCore.internal.Engine -> a.a:\n", b"PRGC\x01\x00\x00\x00", b"CGRP", b"PRG"] {
        out.d(format!("UUID {}", hx(b)));
    }
    out.d(format!("UUID {}", hx(&crate::proto::cur::write_cache_safe(b"o.A -> a:\n    1:2:void m() -> b\n"))));
    // every byte counts: trailing NUL padding up to a multiple of 8, one trailing NUL, a character
    // torn at the end of the file
    for base in [&b"a.B -> c:\n"[..], b"a.B -> c:\n    int f -> x\n", b"a.B -> c:\r\n", b"a.B -> c:\n    void go() -> y", b"# emoji: ", b""] {
        for k in 0..=8usize {
            let mut b = base.to_vec();
            b.extend(std::iter::repeat(0u8).take(k));
            out.d(format!("UUID {}", hx(&b)));
            while b.len() % 8 != 0 {
                b.push(0);
            }
            out.d(format!("UUID {}", hx(&b)));
            out.count("uuid_trailing_nul");
        }
        for tail in [&b"\xf0"[..], b"\xf0\x9f", b"\xf0\x9f\x98", b"\xf0\x9f\x98\x80", b"\xc3", b"\xe2\x82", b"\xff", b"y\xf0\x9f"] {
            let mut b = base.to_vec();
            b.extend_from_slice(tail);
            out.d(format!("UUID {}", hx(&b)));
            out.count("uuid_torn_utf8");
        }
    }
    // sub-mappings (`section`) and clones after the parent has been queried: the identifier is a
    // function of the section's bytes alone
    for i in 0..(if th { 300 } else { 40 }) {
        let mut cfg = Cfg::domain();
        if i % 3 == 0 {
            cfg.term = Some(if i % 2 == 0 { Term::CrLf } else { Term::Mixed });
        }
        let text = domain_mapping(rng, &cfg);
        section_ops(out, rng, &text, 4);
    }
    for (name, text) in corpus_files() {
        if text.len() > 30_000 {
            continue;
        }
        section_ops(out, rng, &text, 6);
        out.count(&format!("corpus_sections:{}", name));
    }
}

pub fn gen_c19(rng: &mut Rng, tier: &str, out: &mut Out) {
    let th = thorough(tier);
    let n = if th { 20000 } else { 2000 };
    for i in 0..n {
        let mut t: Vec<u8> = Vec::new();
        match i % 6 {
            0 => {
                // k leading noise lines then class + member
                let k = rng.pick(&[0usize, 1, 47, 48, 49, 50, 51, 52]);
                for _ in 0..k {
                    t.extend_from_slice(rng.pick(&[&b"noise\n"[..], b"# hdr: v\n", b"a -> b\n"]));
                }
                t.extend_from_slice(b"o.A -> a:\n");
                if rng.pct(50) {
                    t.extend_from_slice(b"junk\n");
                }
                t.extend_from_slice(rng.pick(&[&b"    int f -> x\n"[..], b"    void m() -> y\n", b"    1:2:void m() -> y"]));
            }
            1 => {
                // first line-mapped method late
                t.extend_from_slice(b"o.A -> a:\n");
                let k = rng.below(if th { 3000 } else { 300 });
                for _ in 0..k {
                    t.extend_from_slice(rng.pick(&[&b"    void m() -> y\n"[..], b"    0:0:void m() -> y\n", b"    3:0:void m() -> y\n", b"bad line\n", b"    int f -> z\n"]));
                }
                match rng.below(4) {
                    0 => t.extend_from_slice(b"    1:1:void m() -> y"),
                    1 => t.extend_from_slice(b"    1:1:void m() -> y\n"),
                    2 => t.extend_from_slice(b"    1:1:int f -> y\n"), // a field with numbers: no line info
                    _ => {}
                }
            }
            2 => {
                // repeated / malformed headers
                for _ in 0..rng.below(8) {
                    let k = rng.pick(&["compiler", "compiler_version", "min_api", "other", " compiler ", "Compiler", "min-api", "minApi", "min_api_level", "min api", "compiler-version", "compilerVersion",
                        "compiler version", "compilers", "pg_map_id", "MIN_API", "min_api\u{a0}"]);
                    let v = rng.pick(&["R8", "1.2.3", "15", "+7", "abc", "", "4294967295", "4294967296", "-1", " 21 ", "١٢",
                        "-0", "-00", "+0", "0", "00", "+", "-", "0x10", "1_000", "1e3", "2147483648", "-2147483648", "9223372036854775808", "18446744073709551616", "+-1", "21\u{a0}"]);
                    match rng.below(3) {
                        0 => t.extend_from_slice(format!("# {}: {}\n", k, v).as_bytes()),
                        1 => t.extend_from_slice(format!("# {}\n", k).as_bytes()),
                        _ => t.extend_from_slice(format!("#{}:{}\n", k, v).as_bytes()),
                    }
                }
                t.extend_from_slice(&gen_mapping(rng, &Cfg::domain()).text);
            }
            3 => t = gen_mapping(rng, &Cfg::hostile()).text,
            4 => t = soup(rng, 200),
            _ => {
                let g = gen_mapping(rng, &Cfg::domain());
                t = mutate(rng, &g.text);
            }
        }
        out.d(format!("META {}", hx(&t)));
        out.count("files");
    }
    // a class whose only member is a field line with a `start:end:` prefix (still a field record),
    // directly and as the 50th item
    for fl in ["    1:1:int counter -> a", "    3:4:int[] f -> b", "    0:0:o.T g -> c"] {
        for lead in [0usize, 47, 48, 49] {
            let mut t = String::new();
            for i in 0..lead {
                t.push_str(&format!("# comment {}\n", i));
            }
            t.push_str("o.A -> a:\n");
            t.push_str(fl);
            t.push('\n');
            out.d(format!("META {}", hx(t.as_bytes())));
            map_op(out, true, t.as_bytes());
            out.d("REC".into());
            out.count("prefixed_field_only");
        }
    }
    // every spelling of a number as the LAST min_api header after a valid one (and alone)
    for v in ["-0", "-00", "+0", "0", "00", "+21", "+", "-", "-1", "0x10", "1_000", "1e3", " 21", "21 ", "4294967295", "4294967296", "2147483648", "-2147483648",
              "9223372036854775808", "18446744073709551616", "+-1", "٢١", "21\u{a0}", "\u{a0}21", ""] {
        out.d(format!("META {}", hx(format!("# min_api: 21\n# min_api: {}\no.A -> a:\n    void m() -> b\n", v).as_bytes())));
        out.d(format!("META {}", hx(format!("# min_api: {}\n", v).as_bytes())));
        out.count("min_api_spellings");
    }
    // long runs of one kind of item (errors, headers, unmapped methods, classes) before the first
    // line-mapped method: the scan gives up nowhere
    for run in if th { vec![1000usize, 4095, 4096, 8192, 8193, 20_000, 65_536, 70_000, 300_000] } else { vec![1000usize, 8192, 8193, 20_000, 70_000] } {
        for (kind, line) in [("errors", "log line that is not a mapping\n"), ("indented errors", "      # {\"id\":\"x\"}\n"), ("headers", "# k: v\n"),
                             ("unmapped methods", "    void m() -> a\n"), ("classes", "o.A -> a:\n"), ("blank", "\n")] {
            if run > 20_000 && kind != "errors" && kind != "unmapped methods" {
                continue;
            }
            for tail in [&b"o.Z -> z:\n    1:2:void m():3:4 -> a\n"[..], b"o.Z -> z:\n    1:2:void m() -> a", b"o.Z -> z:\n    void m() -> a\n"] {
                let mut t: Vec<u8> = Vec::with_capacity(run * line.len() + 64);
                if kind == "unmapped methods" {
                    t.extend_from_slice(b"o.A -> a:\n");
                }
                for _ in 0..run {
                    t.extend_from_slice(line.as_bytes());
                }
                t.extend_from_slice(tail);
                out.d(format!("META {}", hx(&t)));
                out.count("long_runs_before_line_info");
            }
        }
    }
    // the file's only line-mapped method starts in the middle of a physical line
    for two in [&b"o.A -> a:    1:5:void run():10:14 -> b\n"[..], b"o.A -> a:    1:5:void run():10:14 -> b", b"# {\"id\":\"sourceFile\",\"fileName\":\"X\"}    1:5:void run() -> b\n",
                b"o.A -> a:\r    1:5:void run() -> b", b"o.A -> a:    void run() -> b\n", b"o.A -> a: 1:5:void run() -> b\n"] {
        for pre in [&b""[..], b"# c: v\n", b"o.Z -> z:\n    void m() -> k\n"] {
            let mut t = pre.to_vec();
            t.extend_from_slice(two);
            t.extend_from_slice(b"    int f -> g\n");
            out.d(format!("META {}", hx(&t)));
            out.count("mid_line_records");
        }
    }
    // physical lines that yield two items (text after a class colon / after a sourceFile header)
    // around the 50-item horizon of `is_valid`
    for k in 40..56usize {
        for two in [&b"o.A -> a: \n"[..], b"o.A -> a:x\n", b"o.A -> a:    void m() -> y\n", b"# {\"id\":\"sourceFile\",\"fileName\":\"X\"} \n", b"o.A -> a:\r\r\n"] {
            for pos in [0usize, 1, k / 2, k.saturating_sub(1)] {
                let mut t: Vec<u8> = Vec::new();
                for i in 0..k {
                    if i == pos {
                        t.extend_from_slice(two);
                    }
                    t.extend_from_slice(b"# noise\n");
                }
                t.extend_from_slice(b"o.B -> b:\n    void run() -> r\n");
                out.d(format!("META {}", hx(&t)));
                out.count("two_items_per_line");
            }
        }
    }
    // sub-mappings after the parent was queried: parent and section differ in every answer
    for _ in 0..(if th { 600 } else { 60 }) {
        let mut t: Vec<u8> = Vec::new();
        let parts: [&[u8]; 6] = [b"o.A -> a:\n    1:2:void m() -> y\n", b"o.B -> b:\n    void m() -> y\n", b"# compiler: R8\n# compiler_version: 1.2\n# min_api: 21\n",
            b"# compiler: D8\n# min_api: 7\n", b"noise\n", b"o.C -> c:\n    int f -> g\n"];
        for _ in 0..rng.range(2, 8) {
            t.extend_from_slice(parts[rng.below(parts.len())]);
        }
        section_ops(out, rng, &t, 3);
    }
    for _ in 0..(if th { 200 } else { 20 }) {
        let text = domain_mapping(rng, &Cfg::domain());
        section_ops(out, rng, &text, 3);
    }
    for n in [255usize, 256, 257, 65535, 65536, 65537] {
        let mut t = String::with_capacity(n * 24);
        for i in 0..n {
            t.push_str(&format!("o.C{} -> c{}:\n    void m() -> a\n", i, i));
        }
        out.d(format!("META {}", hx(t.as_bytes())));
        out.count("counter_thresholds");
    }
    for (name, text) in corpus_files() {
        if text.len() > 700_000 && !th {
            continue;
        }
        out.d(format!("META {}", hx(&text)));
        out.count(&format!("corpus:{}", name));
    }
}

pub fn gen_c20(rng: &mut Rng, tier: &str, out: &mut Out) {
    // the sequential reference answers of the concurrent oracle are also tied to the model
    let th = thorough(tier);
    let n = if th { 1200 } else { 120 };
    for _ in 0..n {
        let text = domain_mapping(rng, &Cfg::domain());
        map_op(out, true, &text);
        let u = universe(&text);
        cls_queries(out, rng, true, &u);
        mth_queries(out, true, &u, 20);
        frl_queries(out, rng, true, &u, 3, 12);
        frp_queries(out, true, &u);
        let tg = TraceGen { u: &u };
        out.d(format!("TXT {}", hxs(&tg.text(rng))));
        sig_queries(out, rng, true, &u, 4);
    }
    many_class_sig_ops(out, if th { 2100 } else { 1100 });
    // the mapping itself is shared too: its summary / validity answers (sequences of valued and
    // value-less headers, orphan members before the first class)
    for k in ["compiler", "compiler_version", "min_api"] {
        for (a, b) in [("24", ""), ("", "24"), ("24", "25"), ("R8", "")] {
            for bare_second in [false, true] {
                let second = if bare_second { format!("# {}\n", k) } else { format!("# {}: {}\n", k, b) };
                let t = format!("# {}: {}\n{}o.A -> a:\n    1:1:void m() -> b\n# {}\n", k, a, second, k);
                out.d(format!("META {}", hx(t.as_bytes())));
                out.count("header_sequences");
            }
        }
    }
    for t in ["    1:1:void run() -> a\no.Foo -> b:\n", "    1:1:void run() -> a\no.Foo -> b:\n    int f -> c\n", "    int f -> c\n", "o.Foo -> b:\n"] {
        out.d(format!("META {}", hx(t.as_bytes())));
    }
}

pub fn generate(prop: &str, tier: &str, seed: u64) -> Option<Out> {
    let mut rng = Rng::new(seed.wrapping_mul(1000003).wrapping_add(prop.bytes().fold(0u64, |a, b| a * 131 + b as u64)));
    let mut out = Out::new();
    match prop {
        "C01" => gen_c01(&mut rng, tier, &mut out),
        "C02" => gen_c02(&mut rng, tier, &mut out),
        "C03" => gen_c03(&mut rng, tier, &mut out),
        "C04" => gen_c04(&mut rng, tier, &mut out),
        "C05" => gen_c05(&mut rng, tier, &mut out),
        "C06" => gen_c06(&mut rng, tier, &mut out),
        "C07" => gen_c07(&mut rng, tier, &mut out),
        "C08" => gen_c08(&mut rng, tier, &mut out),
        "C09" => gen_c09(&mut rng, tier, &mut out),
        "C10" => gen_c10(&mut rng, tier, &mut out),
        "C11" => gen_c11(&mut rng, tier, &mut out),
        "C12" => gen_c12(&mut rng, tier, &mut out),
        "C13" => gen_c13(&mut rng, tier, &mut out),
        "C14" => gen_c14(&mut rng, tier, &mut out),
        "C15" => gen_c15(&mut rng, tier, &mut out),
        "C16" => gen_c16(&mut rng, tier, &mut out),
        "C17" => gen_c17(&mut rng, tier, &mut out),
        "C18" => gen_c18(&mut rng, tier, &mut out),
        "C19" => gen_c19(&mut rng, tier, &mut out),
        "C20" => gen_c20(&mut rng, tier, &mut out),
        _ => return None,
    }
    Some(out)
}
