//! Line protocol executor: runs operations on the real crate, one answer line per operation.
//! The rendering here must be byte-identical to `lean/Main.lean`.

use std::io::{self, Write};
use std::panic::{catch_unwind, AssertUnwindSafe};

use proguard::{
    ProguardCache, ProguardMapper, ProguardMapping, ProguardRecord, StackFrame, StackTrace,
    Throwable,
};

pub fn hexs(b: &[u8]) -> String {
    const H: &[u8; 16] = b"0123456789abcdef";
    let mut s = String::with_capacity(b.len() * 2);
    for &x in b {
        s.push(H[(x >> 4) as usize] as char);
        s.push(H[(x & 15) as usize] as char);
    }
    s
}
pub fn hx(b: &[u8]) -> String {
    let mut s = String::with_capacity(b.len() * 2 + 1);
    s.push('x');
    s.push_str(&hexs(b));
    s
}
pub fn hxs(s: &str) -> String {
    hx(s.as_bytes())
}
pub fn opt_hx(o: Option<&str>) -> String {
    match o {
        None => "-".to_string(),
        Some(s) => hxs(s),
    }
}
pub fn unhex(s: &str) -> Option<Vec<u8>> {
    let b = s.as_bytes();
    if b.is_empty() || b[0] != b'x' || b.len() % 2 == 0 {
        return None;
    }
    let v = |c: u8| -> Option<u8> {
        match c {
            b'0'..=b'9' => Some(c - b'0'),
            b'a'..=b'f' => Some(c - b'a' + 10),
            _ => None,
        }
    };
    let mut out = Vec::with_capacity(b.len() / 2);
    let mut i = 1;
    while i + 1 < b.len() {
        out.push(v(b[i])? * 16 + v(b[i + 1])?);
        i += 2;
    }
    Some(out)
}
fn unhex_str(s: &str) -> Option<String> {
    String::from_utf8(unhex(s)?).ok()
}
fn unhex_opt_str(s: &str) -> Option<Option<String>> {
    if s == "-" {
        Some(None)
    } else {
        unhex_str(s).map(Some)
    }
}

/// Copy into 8-aligned, leaked storage (`ProguardCache::parse` requires the alignment; the
/// model assumes it).
/// a leaked copy of `bytes` whose first byte lies at an address = `shift` (mod 8)
pub fn placed_static(bytes: &[u8], shift: usize) -> &'static [u8] {
    let shift = shift % 8;
    let words = (bytes.len() + shift + 7) / 8 + 1;
    let leaked: &'static mut [u64] = Box::leak(vec![0u64; words].into_boxed_slice());
    let p = leaked.as_mut_ptr() as *mut u8;
    unsafe {
        std::ptr::copy_nonoverlapping(bytes.as_ptr(), p.add(shift), bytes.len());
        std::slice::from_raw_parts(p.add(shift) as *const u8, bytes.len())
    }
}

pub fn aligned_static(bytes: &[u8]) -> &'static [u8] {
    let words = (bytes.len() + 7) / 8;
    let v: Vec<u64> = vec![0u64; words.max(1)];
    let leaked: &'static mut [u64] = Box::leak(v.into_boxed_slice());
    let p = leaked.as_mut_ptr() as *mut u8;
    unsafe {
        std::ptr::copy_nonoverlapping(bytes.as_ptr(), p, bytes.len());
        std::slice::from_raw_parts(p, bytes.len())
    }
}

macro_rules! impl_ops {
    ($modname:ident, $krate:ident) => {
        pub mod $modname {
            use super::*;
            use $krate::{
                ProguardCache, ProguardMapper, ProguardMapping, StackFrame, StackTrace, Throwable,
            };

            pub fn r_frame(f: &StackFrame) -> String {
                format!(
                    "F({},{},{},{},{})",
                    hxs(f.class()),
                    hxs(f.method()),
                    f.line(),
                    opt_hx(f.file()),
                    opt_hx(f.parameters())
                )
            }
            pub fn r_frames<'a>(it: impl Iterator<Item = StackFrame<'a>>) -> String {
                let v: Vec<String> = it.map(|f| r_frame(&f)).collect();
                format!("[{}]", v.join(";"))
            }
            pub fn r_throwable(t: &Throwable) -> String {
                format!("T({},{})", hxs(t.class()), opt_hx(t.message()))
            }
            pub fn r_trace(t: &StackTrace) -> String {
                let mut segs = Vec::new();
                let mut cur = Some(t);
                while let Some(s) = cur {
                    let e = match s.exception() {
                        None => "-".to_string(),
                        Some(e) => r_throwable(e),
                    };
                    let fs: Vec<String> = s.frames().iter().map(r_frame).collect();
                    segs.push(format!("S({},[{}])", e, fs.join(";")));
                    cur = s.cause();
                }
                format!("TR({})", segs.join("|"))
            }
            pub fn r_trace_p(t: &StackTrace) -> String {
                format!("{}/{}", r_trace(t), hxs(&t.to_string()))
            }
            pub fn mk_frame<'a>(
                c: &'a str,
                m: &'a str,
                line: usize,
                file: Option<&'a str>,
                params: Option<&'a str>,
            ) -> StackFrame<'a> {
                match (params, file) {
                    (Some(p), _) => StackFrame::with_parameters(c, m, p),
                    (None, Some(f)) => StackFrame::with_file(c, m, line, f),
                    (None, None) => StackFrame::new(c, m, line),
                }
            }
            pub fn r_sig(r: Option<$krate::DeobfuscatedSignature>) -> String {
                match r {
                    None => "-".to_string(),
                    Some(s) => {
                        let ps: Vec<String> = s.parameters_types().map(hxs).collect();
                        if s.to_string() != s.format_signature() {
                            return "SG-DISPLAY-MISMATCH".to_string();
                        }
                        // the printed signature is the whole formatted signature under every format
                        // spec: width / precision neither cut parameters or the return type off nor pad
                        let f = s.format_signature();
                        if format!("{:.4}", s) != f || format!("{:>70}", s) != f || format!("{:<3}", s) != f || format!("{:^90.2}", s) != f {
                            return "SG-DISPLAY-MISMATCH(format spec)".to_string();
                        }
                        format!(
                            "SG([{}],{},{})",
                            ps.join(";"),
                            hxs(s.return_type()),
                            hxs(&s.format_signature())
                        )
                    }
                }
            }
            /// build a typed trace from segments (exception, frames), outermost first
            pub fn mk_trace<'a>(
                segs: &'a [(Option<(String, Option<String>)>, Vec<(String, String, usize, Option<String>)>)],
            ) -> StackTrace<'a> {
                let mut acc: Option<StackTrace<'a>> = None;
                for (exc, frames) in segs.iter().rev() {
                    let e = exc.as_ref().map(|(c, m)| match m {
                        Some(m) => Throwable::with_message(c, m),
                        None => Throwable::new(c),
                    });
                    let fs: Vec<StackFrame<'a>> = frames
                        .iter()
                        .map(|(c, m, l, f)| mk_frame(c, m, *l, f.as_deref(), None))
                        .collect();
                    acc = Some(match acc {
                        None => StackTrace::new(e, fs),
                        Some(cause) => StackTrace::with_cause(e, fs, cause),
                    });
                }
                acc.unwrap()
            }

            pub trait Remapper {
                fn cls(&self, c: &str) -> String;
                fn mth(&self, c: &str, m: &str) -> String;
                fn frames(&self, c: &str, m: &str, line: usize, file: Option<&str>, params: Option<&str>) -> String;
                fn thr(&self, c: &str, msg: Option<&str>) -> String;
                fn txt(&self, t: &str) -> String;
                fn typed(&self, t: &StackTrace) -> String;
                fn sig(&self, s: &str) -> String;
            }
            macro_rules! remapper_body {
                () => {
                    fn cls(&self, c: &str) -> String {
                        opt_hx(self.remap_class(c))
                    }
                    fn mth(&self, c: &str, m: &str) -> String {
                        match self.remap_method(c, m) {
                            None => "-".to_string(),
                            Some((a, b)) => format!("({},{})", hxs(a), hxs(b)),
                        }
                    }
                    fn frames(&self, c: &str, m: &str, line: usize, file: Option<&str>, params: Option<&str>) -> String {
                        let f = mk_frame(c, m, line, file, params);
                        let v: Vec<String> = self.remap_frame(&f).map(|x| r_frame(&x)).collect();
                        // every other way of driving the frame iterator agrees with `next()`
                        let n = v.len();
                        let (lo, hi) = self.remap_frame(&f).size_hint();
                        if lo > n || hi.map_or(false, |h| h < n) {
                            return format!("ITER-MISMATCH size_hint ({}, {:?}) for {} frames", lo, hi, n);
                        }
                        if self.remap_frame(&f).count() != n {
                            return "ITER-MISMATCH count".into();
                        }
                        if self.remap_frame(&f).last().map(|x| r_frame(&x)) != v.last().cloned() {
                            return "ITER-MISMATCH last".into();
                        }
                        if n <= 2000 {
                            let folded = self.remap_frame(&f).fold(Vec::new(), |mut a, x| {
                                a.push(r_frame(&x));
                                a
                            });
                            if folded != v {
                                return "ITER-MISMATCH fold".into();
                            }
                            for k in [0usize, 1, 2, n.saturating_sub(1), n, n + 1] {
                                if self.remap_frame(&f).nth(k).map(|x| r_frame(&x)) != v.get(k).cloned() {
                                    return format!("ITER-MISMATCH nth({})", k);
                                }
                                if self.remap_frame(&f).skip(k).count() != n.saturating_sub(k) {
                                    return format!("ITER-MISMATCH skip({}).count", k);
                                }
                            }
                            let a: Vec<String> = self.remap_frame(&f).step_by(2).map(|x| r_frame(&x)).collect();
                            let b: Vec<String> = v.iter().step_by(2).cloned().collect();
                            if a != b {
                                return "ITER-MISMATCH step_by(2)".into();
                            }
                            let mut it = self.remap_frame(&f);
                            let mut c = 0usize;
                            while it.next().is_some() {
                                c += 1;
                            }
                            // (the iterators are not fused: on a corrupted file an entry that cannot be
                            // read ends `collect`, and a later `next` may still yield — not asserted)
                            if c != n {
                                return "ITER-MISMATCH manual loop".into();
                            }
                        }
                        format!("[{}]", v.join(";"))
                    }
                    fn thr(&self, c: &str, msg: Option<&str>) -> String {
                        let t = match msg {
                            Some(m) => Throwable::with_message(c, m),
                            None => Throwable::new(c),
                        };
                        match self.remap_throwable(&t) {
                            None => "-".to_string(),
                            Some(t) => r_throwable(&t),
                        }
                    }
                    fn txt(&self, t: &str) -> String {
                        match self.remap_stacktrace(t) {
                            Ok(s) => hxs(&s),
                            Err(_) => "ERR".to_string(),
                        }
                    }
                    fn typed(&self, t: &StackTrace) -> String {
                        r_trace_p(&self.remap_stacktrace_typed(t))
                    }
                    fn sig(&self, s: &str) -> String {
                        r_sig(self.deobfuscate_signature(s))
                    }
                };
            }
            impl<'s> Remapper for ProguardMapper<'s> {
                remapper_body!();
            }
            impl<'s> Remapper for ProguardCache<'s> {
                remapper_body!();
            }

            pub fn write_cache(mapping: &[u8]) -> Vec<u8> {
                let mut out = Vec::new();
                ProguardCache::write(&ProguardMapping::new(mapping), &mut out).expect("write to Vec");
                out
            }
            /// for generators: a panic of the writer yields an empty file (the protocol run
            /// reports the panic itself)
            pub fn write_cache_safe(mapping: &[u8]) -> Vec<u8> {
                std::panic::catch_unwind(|| write_cache(mapping)).unwrap_or_default()
            }
            pub fn parse_cache(buf: &'static [u8]) -> Result<ProguardCache<'static>, String> {
                match ProguardCache::parse(buf) {
                    Ok(c) => Ok(c),
                    Err(e) => Err(match e.kind() {
                        $krate::CacheErrorKind::WrongEndianness => "ERR WrongEndianness".to_string(),
                        $krate::CacheErrorKind::WrongFormat => "ERR WrongFormat".to_string(),
                        $krate::CacheErrorKind::WrongVersion => "ERR WrongVersion".to_string(),
                        $krate::CacheErrorKind::InvalidHeader => "ERR InvalidHeader".to_string(),
                        $krate::CacheErrorKind::InvalidClasses => "ERR InvalidClasses".to_string(),
                        $krate::CacheErrorKind::InvalidMembers => "ERR InvalidMembers".to_string(),
                        $krate::CacheErrorKind::UnexpectedStringBytes { expected, found } => {
                            format!("ERR UnexpectedStringBytes {} {}", expected, found)
                        }
                        _ => "ERR Other".to_string(),
                    }),
                }
            }
            /// every public constructor is used: `From<&str>` / `From<(&str, bool)>` when the bytes
            /// are UTF-8, `new` / `new_with_param_mapping` otherwise
            pub fn mapper(mapping: &'static [u8], pm: bool) -> ProguardMapper<'static> {
                match (std::str::from_utf8(mapping), pm) {
                    (Ok(s), false) => ProguardMapper::from(s),
                    (Ok(s), true) => ProguardMapper::from((s, true)),
                    (Err(_), false) => ProguardMapper::new(ProguardMapping::new(mapping)),
                    (Err(_), true) => ProguardMapper::new_with_param_mapping(ProguardMapping::new(mapping), true),
                }
            }
        }
    };
}

impl_ops!(cur, proguard);
impl_ops!(pin, proguard_pinned);

use cur::Remapper;

pub fn r_item(it: &Result<ProguardRecord, proguard::ParseError>) -> String {
    match it {
        Ok(ProguardRecord::Header { key, value }) => format!("H({},{})", hxs(key), opt_hx(*value)),
        Ok(ProguardRecord::Class { original, obfuscated }) => {
            format!("C({},{})", hxs(original), hxs(obfuscated))
        }
        Ok(ProguardRecord::Field { ty, original, obfuscated }) => {
            format!("D({},{},{})", hxs(ty), hxs(original), hxs(obfuscated))
        }
        Ok(ProguardRecord::Method {
            ty,
            original,
            obfuscated,
            arguments,
            original_class,
            line_mapping,
        }) => {
            let lm = match line_mapping {
                None => "-".to_string(),
                Some(l) => format!(
                    "{}:{}:{}:{}",
                    l.startline,
                    l.endline,
                    l.original_startline.map_or("-".to_string(), |x| x.to_string()),
                    l.original_endline.map_or("-".to_string(), |x| x.to_string())
                ),
            };
            format!(
                "M({},{},{},{},{},{})",
                hxs(ty),
                hxs(original),
                hxs(obfuscated),
                hxs(arguments),
                opt_hx(*original_class),
                lm
            )
        }
        Err(e) => {
            // kind(), Display and source() of the error must be consistent with each other
            use std::error::Error as _;
            // …and every error that leaves `parse_proguard_record` carries the one generic kind
            // (sub-parser kinds, incl. `Utf8Error`, are replaced there): modelled as "no kind".
            let consistent = match e.kind() {
                proguard::ParseErrorKind::Utf8Error(_) => false,
                proguard::ParseErrorKind::ParseError(d) => d == "line is not a valid proguard record" && e.to_string() == d && e.source().is_none(),
            };
            if !consistent {
                return "E-KIND-INCONSISTENT".to_string();
            }
            format!("E({})", hx(e.line()))
        }
    }
}

/// Position-based sink policy (see `policySink` in Main.lean).
pub struct PolicySink {
    pub k: usize,
    pub n: Option<usize>,
    pub j: Option<usize>,
    /// when the sink is full (`n` bytes are in): `false` = fail, `true` = accept 0 bytes (`Ok(0)`),
    /// as `impl Write for &mut [u8]` does
    pub zero_when_full: bool,
    pub calls: usize,
    pub accepted: Vec<u8>,
    /// a writer that keeps re-sending data would otherwise fill the memory
    pub runaway: bool,
}
pub const SINK_RUNAWAY_LIMIT: usize = 8 << 20;
impl PolicySink {
    pub fn new(k: usize, n: Option<usize>, j: Option<usize>, zero_when_full: bool) -> Self {
        PolicySink { k, n, j, zero_when_full, calls: 0, accepted: Vec::new(), runaway: false }
    }
    /// one policy decision for a call offering `total` bytes: Ok(how many to take)
    fn decide(&mut self, total: usize) -> io::Result<usize> {
        self.calls += 1;
        if self.accepted.len() > SINK_RUNAWAY_LIMIT || self.calls > 3_000_000 {
            self.runaway = true;
            return Err(io::Error::new(io::ErrorKind::Other, "runaway writer"));
        }
        if let Some(j) = self.j {
            if j >= 2 && self.calls % j == 0 {
                return Err(io::Error::new(io::ErrorKind::Interrupted, "interrupted"));
            }
        }
        let mut take = self.k.min(total);
        if let Some(n) = self.n {
            if self.accepted.len() >= n {
                if self.zero_when_full {
                    return Ok(0);
                }
                return Err(io::Error::new(io::ErrorKind::Other, "sink failure"));
            }
            take = take.min(n - self.accepted.len());
        }
        Ok(take)
    }
}
impl Write for PolicySink {
    fn write(&mut self, buf: &[u8]) -> io::Result<usize> {
        let take = self.decide(buf.len())?;
        self.accepted.extend_from_slice(&buf[..take]);
        Ok(take)
    }
    /// genuinely gathering: one call = one policy decision on the total offered length, the
    /// accepted bytes are taken across the slices in order (position-based, like `write`)
    fn write_vectored(&mut self, bufs: &[io::IoSlice<'_>]) -> io::Result<usize> {
        let total: usize = bufs.iter().map(|b| b.len()).sum();
        let take = self.decide(total)?;
        let mut left = take;
        for b in bufs {
            if left == 0 {
                break;
            }
            let n = left.min(b.len());
            self.accepted.extend_from_slice(&b[..n]);
            left -= n;
        }
        Ok(take)
    }
    fn flush(&mut self) -> io::Result<()> {
        Ok(())
    }
}

/// run `f` on a new thread and hand its result back; a panic inside is re-raised here (and so
/// caught by `step_safe`)
pub fn on_fresh_thread<T: Send + 'static>(f: impl FnOnce() -> T + Send + 'static) -> T {
    match std::thread::spawn(f).join() {
        Ok(v) => v,
        Err(e) => std::panic::resume_unwind(e),
    }
}

/// `LIB <fn> <args>`: the std / leb128 functions the Lean model mirrors, applied directly
/// (no crate code involved), so that the mirror itself is validated on every run.
fn lib_op(f: &str, a: &[&str]) -> Option<String> {
    let ord = |o: std::cmp::Ordering| match o {
        std::cmp::Ordering::Less => "L",
        std::cmp::Ordering::Equal => "E",
        std::cmp::Ordering::Greater => "G",
    };
    match (f, a) {
        ("utf8", [x]) => Some((std::str::from_utf8(&unhex(x)?).is_ok() as u8).to_string()),
        ("trim", [x]) => {
            let b = unhex(x)?;
            let s = std::str::from_utf8(&b).ok()?;
            Some(format!("{} {} {}", hxs(s.trim()), hxs(s.trim_start()), hxs(s.trim_end())))
        }
        ("lines", [x]) => {
            let b = unhex(x)?;
            let s = std::str::from_utf8(&b).ok()?;
            let v: Vec<String> = s.lines().map(hxs).collect();
            Some(format!("[{}]", v.join(";")))
        }
        ("num", [x]) => {
            let b = unhex(x)?;
            let s = std::str::from_utf8(&b).ok()?;
            Some(format!(
                "{} {}",
                s.parse::<usize>().map_or("-".to_string(), |n| n.to_string()),
                s.parse::<u32>().map_or("-".to_string(), |n| n.to_string())
            ))
        }
        ("dec", [n]) => Some(hxs(&n.parse::<usize>().ok()?.to_string())),
        ("cmp", [x, y]) => {
            let (bx, by) = (unhex(x)?, unhex(y)?);
            let (sx, sy) = (std::str::from_utf8(&bx).ok()?, std::str::from_utf8(&by).ok()?);
            Some(format!("{} {}", ord(sx.cmp(sy)), ord((sx, "k").cmp(&(sy, "j")))))
        }
        ("split", [x, c]) => {
            let b = unhex(x)?;
            let s = std::str::from_utf8(&b).ok()?;
            let c = *unhex(c)?.first()? as char;
            if !c.is_ascii() {
                return None;
            }
            let r = |o: Option<(&str, &str)>| o.map_or("-".to_string(), |(p, q)| format!("({},{})", hxs(p), hxs(q)));
            Some(format!("{} {} {}", r(s.split_once(c)), r(s.rsplit_once(c)), r(s.split_once(": "))))
        }
        ("bs", [pat]) => {
            // `binary_search_by` on 0..n with an arbitrary (also non-monotone) comparator
            let p: Vec<std::cmp::Ordering> = pat
                .bytes()
                .filter(|c| *c != b'.')
                .map(|c| match c {
                    b'L' => Some(std::cmp::Ordering::Less),
                    b'E' => Some(std::cmp::Ordering::Equal),
                    b'G' => Some(std::cmp::Ordering::Greater),
                    _ => None,
                })
                .collect::<Option<Vec<_>>>()?;
            let idx: Vec<usize> = (0..p.len()).collect();
            Some(match idx.binary_search_by(|&i| p[i]) {
                Ok(i) => format!("ok {}", i),
                Err(i) => format!("err {}", i),
            })
        }
        ("leb", [x]) => {
            let b = unhex(x)?;
            let mut rd: &[u8] = &b;
            Some(match leb128::read::unsigned(&mut rd) {
                Ok(v) => format!("{} {}", v, b.len() - rd.len()),
                Err(_) => "-".to_string(),
            })
        }
        ("strtab", strs) => {
            // `watto::StringTable`: insert the strings in order; offsets and final bytes
            let mut t = watto::StringTable::new();
            let mut offs = Vec::new();
            for x in strs {
                let b = unhex(x)?;
                let s = std::str::from_utf8(&b).ok()?;
                offs.push(t.insert(s).to_string());
            }
            Some(format!("[{}] {}", offs.join(","), hx(t.as_bytes())))
        }
        ("strread", [x, off]) => {
            let b = unhex(x)?;
            let off: usize = off.parse().ok()?;
            Some(match watto::StringTable::read(&b, off) {
                Ok(s) => hxs(s),
                Err(_) => "-".to_string(),
            })
        }
        ("lebw", [n]) => {
            let n: u64 = n.parse().ok()?;
            let mut out = Vec::new();
            leb128::write::unsigned(&mut out, n).ok()?;
            Some(hx(&out))
        }
        _ => None,
    }
}

type SegSpec = (Option<(String, Option<String>)>, Vec<(String, String, usize, Option<String>)>);

pub fn parse_trace_toks(toks: &[&str]) -> Option<Vec<SegSpec>> {
    let mut segs: Vec<SegSpec> = Vec::new();
    let mut cur: Option<SegSpec> = None;
    let mut i = 0;
    while i < toks.len() {
        match toks[i] {
            "N" => {
                if cur.is_some() {
                    return None;
                }
                cur = Some((None, vec![]));
                i += 1;
            }
            "E" => {
                if cur.is_some() || i + 2 >= toks.len() {
                    return None;
                }
                cur = Some((Some((unhex_str(toks[i + 1])?, unhex_opt_str(toks[i + 2])?)), vec![]));
                i += 3;
            }
            "F" => {
                if i + 4 >= toks.len() {
                    return None;
                }
                let s = cur.as_mut()?;
                s.1.push((
                    unhex_str(toks[i + 1])?,
                    unhex_str(toks[i + 2])?,
                    toks[i + 3].parse().ok()?,
                    unhex_opt_str(toks[i + 4])?,
                ));
                i += 5;
            }
            "C" => {
                segs.push(cur.take()?);
                i += 1;
            }
            _ => return None,
        }
    }
    segs.push(cur?);
    Some(segs)
}

pub struct State {
    mapping: &'static [u8],
    m0: Option<ProguardMapper<'static>>,
    m1: Option<ProguardMapper<'static>>,
    written: Option<&'static [u8]>,
    wcache: Option<Result<ProguardCache<'static>, String>>,
    buf: Result<ProguardCache<'static>, String>,
    buf_bytes: &'static [u8],
    pbuf: Result<proguard_pinned::ProguardCache<'static>, String>,
    uuid_buf: Vec<u8>,
    nq: u64,
}

impl State {
    pub fn new() -> Self {
        State {
            mapping: b"",
            m0: None,
            m1: None,
            written: None,
            wcache: None,
            buf: Err("ERR InvalidHeader".into()),
            buf_bytes: b"",
            pbuf: Err("ERR InvalidHeader".into()),
            uuid_buf: Vec::with_capacity(1 << 16),
            nq: 0,
        }
    }
    fn written(&mut self) -> &'static [u8] {
        if self.written.is_none() {
            self.written = Some(aligned_static(&cur::write_cache(self.mapping)));
        }
        self.written.unwrap()
    }
    fn three(&mut self, f: &dyn Fn(&dyn Remapper) -> String) -> String {
        // Every handle is built on its own short-lived thread and queried on this one (the types
        // are Send + Sync): an answer may not depend on which thread built the object, nor on
        // what other objects that thread or this one built or answered before.
        let mapping = self.mapping;
        if self.m0.is_none() {
            self.m0 = Some(on_fresh_thread(move || cur::mapper(mapping, false)));
        }
        if self.m1.is_none() {
            self.m1 = Some(on_fresh_thread(move || cur::mapper(mapping, true)));
        }
        if self.wcache.is_none() {
            let w = self.written();
            self.wcache = Some(on_fresh_thread(move || cur::parse_cache(w)));
        }
        let a = f(self.m0.as_ref().unwrap());
        let b = f(self.m1.as_ref().unwrap());
        let c = match self.wcache.as_ref().unwrap() {
            Ok(c) => f(c),
            Err(_) => "noparse".to_string(),
        };
        // every few queries: a long-lived handle (which has answered other queries before) must
        // answer like a handle built just now for this one query
        self.nq += 1;
        if self.nq % 5 == 0 && mapping.len() <= 4096 {
            let fresh_m = f(&cur::mapper(mapping, true));
            let bytes = cur::write_cache(mapping);
            let mut store: Vec<u64> = vec![0u64; (bytes.len() + 7) / 8 + 1];
            let fresh_c = {
                // 8-aligned local copy (not leaked)
                let dst = unsafe { std::slice::from_raw_parts_mut(store.as_mut_ptr() as *mut u8, bytes.len()) };
                dst.copy_from_slice(&bytes);
                match ProguardCache::parse(dst) {
                    Ok(fc) => f(&fc),
                    Err(_) => "noparse".to_string(),
                }
            };
            if fresh_m != b || fresh_c != c {
                return format!("m0={} m1={} c={} STALE fresh-mapper={} fresh-cache={}", a, b, c, fresh_m, fresh_c);
            }
        }
        format!("m0={} m1={} c={}", a, b, c)
    }
    fn on_buf(&self, f: &dyn Fn(&dyn Remapper) -> String) -> String {
        match &self.buf {
            Ok(c) => f(c),
            Err(_) => "noparse".to_string(),
        }
    }

    pub fn step(&mut self, line: &str) -> String {
        let toks: Vec<&str> = line.split(' ').collect();
        let bad = || "bad-op".to_string();
        macro_rules! s {
            ($e:expr) => {
                match unhex_str($e) {
                    Some(v) => v,
                    None => return bad(),
                }
            };
        }
        macro_rules! os {
            ($e:expr) => {
                match unhex_opt_str($e) {
                    Some(v) => v,
                    None => return bad(),
                }
            };
        }
        macro_rules! n {
            ($e:expr) => {
                match $e.parse::<usize>() {
                    Ok(v) => v,
                    Err(_) => return bad(),
                }
            };
        }
        match toks.as_slice() {
            ["MAP", h] => {
                let Some(b) = unhex(h) else { return bad() };
                self.mapping = Box::leak(b.into_boxed_slice());
                self.m0 = None;
                self.m1 = None;
                self.written = None;
                self.wcache = None;
                "ok".into()
            }
            ["REC"] => {
                let m = ProguardMapping::new(self.mapping);
                // reference: an explicit `next()` loop; every other way of driving the iterator
                // (internal iteration, positional access, clones) must yield the same items
                let mut v: Vec<String> = Vec::new();
                let mut it = m.iter();
                while let Some(x) = it.next() {
                    v.push(r_item(&x));
                }
                if it.next().is_some() {
                    return "ITER-MISMATCH not fused".into();
                }
                let n = v.len();
                let collected: Vec<String> = m.iter().map(|it| r_item(&it)).collect();
                let mut folded: Vec<String> = Vec::new();
                m.iter().for_each(|x| folded.push(r_item(&x)));
                let folded2 = m.iter().fold(Vec::new(), |mut a, x| {
                    a.push(r_item(&x));
                    a
                });
                if collected != v || folded != v || folded2 != v {
                    return "ITER-MISMATCH collect/for_each/fold".into();
                }
                if m.iter().count() != n || m.iter().last().map(|x| r_item(&x)) != v.last().cloned() {
                    return "ITER-MISMATCH count/last".into();
                }
                if m.iter().filter(|x| x.is_err()).count() != v.iter().filter(|s| s.starts_with("E(")).count() {
                    return "ITER-MISMATCH filter.count".into();
                }
                for k in [0usize, 1, 2, 3, 5, n / 2, n.saturating_sub(1), n, n + 1] {
                    if m.iter().nth(k).map(|x| r_item(&x)) != v.get(k).cloned() {
                        return format!("ITER-MISMATCH nth({})", k);
                    }
                    if m.iter().skip(k).next().map(|x| r_item(&x)) != v.get(k).cloned() {
                        return format!("ITER-MISMATCH skip({})", k);
                    }
                    let mut c = m.iter();
                    for _ in 0..k.min(n) {
                        c.next();
                    }
                    let rest: Vec<String> = c.clone().map(|x| r_item(&x)).collect();
                    if rest[..] != v[k.min(n)..] {
                        return format!("ITER-MISMATCH clone after {}", k);
                    }
                }
                for st in [2usize, 3, 7] {
                    let a: Vec<String> = m.iter().step_by(st).map(|x| r_item(&x)).collect();
                    let b: Vec<String> = v.iter().step_by(st).cloned().collect();
                    if a != b {
                        return format!("ITER-MISMATCH step_by({})", st);
                    }
                }
                let (lo, hi) = m.iter().size_hint();
                if lo > n || hi.map_or(false, |h| h < n) {
                    return "ITER-MISMATCH size_hint".into();
                }
                format!("R:{}", v.join(";"))
            }
            ["TRY", h] => {
                let Some(b) = unhex(h) else { return bad() };
                r_item(&ProguardRecord::try_parse(&b))
            }
            ["META", h] => {
                let Some(b) = unhex(h) else { return bad() };
                let m = ProguardMapping::new(&b);
                let s = m.summary();
                format!(
                    "hli={} valid={} comp={} ver={} api={} cc={} mc={}",
                    m.has_line_info() as u8,
                    m.is_valid() as u8,
                    opt_hx(s.compiler()),
                    opt_hx(s.compiler_version()),
                    s.min_api().map_or("-".to_string(), |x| x.to_string()),
                    s.class_count(),
                    s.method_count()
                )
            }
            ["WRITE"] => hx(self.written()),
            ["CLS", c] => {
                let c = s!(c);
                self.three(&|r| r.cls(&c))
            }
            ["MTH", c, m] => {
                let (c, m) = (s!(c), s!(m));
                self.three(&|r| r.mth(&c, &m))
            }
            ["FRL", c, m, l, f] => {
                let (c, m, l, f) = (s!(c), s!(m), n!(l), os!(f));
                self.three(&|r| r.frames(&c, &m, l, f.as_deref(), None))
            }
            ["FRP", c, m, p] => {
                let (c, m, p) = (s!(c), s!(m), s!(p));
                self.three(&|r| r.frames(&c, &m, 0, None, Some(&p)))
            }
            ["THR", c, m] => {
                let (c, m) = (s!(c), os!(m));
                self.three(&|r| r.thr(&c, m.as_deref()))
            }
            ["TXT", t] => {
                let t = s!(t);
                self.three(&|r| r.txt(&t))
            }
            ["TYP", t] => {
                let t = s!(t);
                match StackTrace::try_parse(t.as_bytes()) {
                    None => "-".into(),
                    Some(tr) => self.three(&|r| r.typed(&tr)),
                }
            }
            ["TYPS", rest @ ..] => {
                let Some(segs) = parse_trace_toks(rest) else { return bad() };
                let tr = cur::mk_trace(&segs);
                self.three(&|r| r.typed(&tr))
            }
            ["SIG", sg] => {
                let sg = s!(sg);
                self.three(&|r| r.sig(&sg))
            }
            ["BUF", h] => {
                let Some(b) = unhex(h) else { return bad() };
                let st = aligned_static(&b);
                self.buf_bytes = st;
                self.buf = cur::parse_cache(st);
                self.pbuf = pin::parse_cache(st);
                match &self.buf {
                    Ok(_) => {
                        let w = |i: usize| u32::from_le_bytes([st[i], st[i + 1], st[i + 2], st[i + 3]]);
                        format!("ok {} {} {} {}", w(8), w(12), w(16), w(20))
                    }
                    Err(e) => e.clone(),
                }
            }
            // the buffer placed at an address = a (mod 8)
            ["BUFA", a, h] => {
                let Some(b) = unhex(h) else { return bad() };
                let a = n!(a) % 8;
                let st = placed_static(&b, a);
                self.buf_bytes = st;
                self.buf = cur::parse_cache(st);
                self.pbuf = pin::parse_cache(st);
                match &self.buf {
                    Ok(_) => {
                        let w = |i: usize| u32::from_le_bytes([st[i], st[i + 1], st[i + 2], st[i + 3]]);
                        format!("ok {} {} {} {}", w(8), w(12), w(16), w(20))
                    }
                    Err(e) => e.clone(),
                }
            }
            ["BCLS", c] => {
                let c = s!(c);
                self.on_buf(&|r| r.cls(&c))
            }
            ["BMTH", c, m] => {
                let (c, m) = (s!(c), s!(m));
                self.on_buf(&|r| r.mth(&c, &m))
            }
            ["BFRL", c, m, l, f] => {
                let (c, m, l, f) = (s!(c), s!(m), n!(l), os!(f));
                self.on_buf(&|r| r.frames(&c, &m, l, f.as_deref(), None))
            }
            ["PFRL", c, m, l, f] => {
                let (c, m, l, f) = (s!(c), s!(m), n!(l), os!(f));
                match &self.pbuf {
                    Err(_) => "noparse".into(),
                    Ok(pc) => {
                        use pin::Remapper as _;
                        match catch_unwind(AssertUnwindSafe(|| pc.frames(&c, &m, l, f.as_deref(), None))) {
                            Ok(s) => s,
                            Err(_) => "FAULT".into(),
                        }
                    }
                }
            }
            ["BFRP", c, m, p] => {
                let (c, m, p) = (s!(c), s!(m), s!(p));
                self.on_buf(&|r| r.frames(&c, &m, 0, None, Some(&p)))
            }
            ["BTHR", c, m] => {
                let (c, m) = (s!(c), os!(m));
                self.on_buf(&|r| r.thr(&c, m.as_deref()))
            }
            ["BTXT", t] => {
                let t = s!(t);
                self.on_buf(&|r| r.txt(&t))
            }
            ["BTYP", t] => {
                let t = s!(t);
                match StackTrace::try_parse(t.as_bytes()) {
                    None => "-".into(),
                    Some(tr) => self.on_buf(&|r| r.typed(&tr)),
                }
            }
            ["BSIG", sg] => {
                let sg = s!(sg);
                self.on_buf(&|r| r.sig(&sg))
            }
            ["BTEST"] => match &self.buf {
                Err(_) => "noparse".into(),
                Ok(c) => match catch_unwind(AssertUnwindSafe(|| c.test())) {
                    Ok(()) => "ok".into(),
                    Err(_) => "FAIL".into(),
                },
            },
            ["SINK", k, n, j] | ["SINKZ", k, n, j] => {
                let k = n!(k);
                let n = if *n == "-" { None } else { Some(n!(n)) };
                let j = if *j == "-" { None } else { Some(n!(j)) };
                let mut sink = PolicySink::new(k, n, j, toks[0] == "SINKZ");
                let r = ProguardCache::write(&ProguardMapping::new(self.mapping), &mut sink);
                if sink.runaway {
                    return format!("RUNAWAY the writer offered more than {} bytes / calls without finishing", SINK_RUNAWAY_LIMIT);
                }
                let kind = match r {
                    Ok(()) => "ok",
                    Err(e) if e.kind() == io::ErrorKind::WriteZero => "writezero",
                    Err(_) => "failed",
                };
                format!("{} {}", kind, hx(&sink.accepted))
            }
            ["TRC", t] => {
                // raw bytes: `try_parse` does its own UTF-8 validation
                let Some(t) = unhex(t) else { return bad() };
                match StackTrace::try_parse(&t) {
                    None => "-".into(),
                    Some(tr) => cur::r_trace_p(&tr),
                }
            }
            ["FRM", l] => {
                let Some(l) = unhex(l) else { return bad() };
                match StackFrame::try_parse(&l) {
                    None => "-".into(),
                    Some(f) => format!("{}/{}", cur::r_frame(&f), hxs(&f.to_string())),
                }
            }
            ["THW", l] => {
                let Some(l) = unhex(l) else { return bad() };
                match Throwable::try_parse(&l) {
                    None => "-".into(),
                    Some(t) => format!("{}/{}", cur::r_throwable(&t), hxs(&t.to_string())),
                }
            }
            ["DSPS", rest @ ..] => {
                let Some(segs) = parse_trace_toks(rest) else { return bad() };
                hxs(&cur::mk_trace(&segs).to_string())
            }
            ["DSPF", c, m, l, f] => {
                let (c, m, l, f) = (s!(c), s!(m), n!(l), os!(f));
                hxs(&cur::mk_frame(&c, &m, l, f.as_deref(), None).to_string())
            }
            ["DSPT", c, m] => {
                let (c, m) = (s!(c), os!(m));
                let t = match &m {
                    Some(m) => Throwable::with_message(&c, m),
                    None => Throwable::new(&c),
                };
                hxs(&t.to_string())
            }
            ["FMT", _] => "ok".into(),
            ["LIB", f, rest @ ..] => lib_op(f, rest).unwrap_or_else(bad),
            ["SF", c, m, l, f, p] => {
                // the three public constructors and every accessor of `StackFrame`
                let (c, m, l, f, p) = (s!(c), s!(m), n!(l), os!(f), os!(p));
                let fr = cur::mk_frame(&c, &m, l, f.as_deref(), p.as_deref());
                format!("{}/{}/{}", cur::r_frame(&fr), hxs(&fr.to_string()), hxs(&fr.full_method()))
            }
            ["DBG"] => {
                // `ProguardCache::display()` and the `Debug` views of the cache written from the
                // current mapping
                if self.wcache.is_none() {
                    let w = self.written();
                    self.wcache = Some(cur::parse_cache(w));
                }
                match self.wcache.as_ref().unwrap() {
                    Err(_) => "noparse".into(),
                    Ok(c) => {
                        let shown = c.display().to_string();
                        let dbg = format!("{:?}", c);
                        // the per-record Debug views only have to be total on written caches
                        let n1 = c.debug_classes().map(|x| format!("{:?}/{}", x, x).len()).count();
                        let n2 = c.debug_members().map(|x| format!("{:?}/{}", x, x).len()).count();
                        let n3 = c.debug_members_by_params().map(|x| format!("{:?}/{}", x, x).len()).count();
                        format!("{} {} {} {} {}", hxs(&shown), hxs(&dbg), n1, n2, n3)
                    }
                }
            }
            ["FULL", c, m] => {
                let (c, m) = (s!(c), s!(m));
                hxs(&StackFrame::new(&c, &m, 0).full_method())
            }
            ["SECT", a, b] => {
                // `ProguardMapping::section` after every query has been issued on the parent (and
                // on a clone of it): a sub-mapping answers like a fresh mapping of its bytes
                let (a, b) = (n!(a), n!(b));
                if !(a <= b && b <= self.mapping.len()) {
                    return bad();
                }
                let render = |m: &ProguardMapping| -> String {
                    let s = m.summary();
                    format!(
                        "hli={} valid={} comp={} ver={} api={} cc={} mc={} uuid={} rc={}",
                        m.has_line_info() as u8,
                        m.is_valid() as u8,
                        opt_hx(s.compiler()),
                        opt_hx(s.compiler_version()),
                        s.min_api().map_or("-".to_string(), |x| x.to_string()),
                        s.class_count(),
                        s.method_count(),
                        hexs(m.uuid().as_bytes()),
                        m.iter().count()
                    )
                };
                let parent = ProguardMapping::new(self.mapping);
                if format!("{:?}", parent) != "ProguardMapping" || format!("{:?}", parent.iter()) != "ProguardRecordIter" {
                    return "DEBUG-MISMATCH".into();
                }
                let warm = render(&parent);
                let cl = parent.clone();
                let s1 = render(&parent.section(a..b));
                let s2 = render(&cl.section(a..b));
                let s3 = render(&cl.section(0..self.mapping.len()).section(a..b));
                let fresh = render(&ProguardMapping::new(&self.mapping[a..b]));
                let again = render(&parent);
                if s1 == fresh && s2 == fresh && s3 == fresh && again == warm {
                    fresh
                } else {
                    format!("SECTION-MISMATCH section={} clone-section={} nested={} fresh={} parent-before={} parent-after={}", s1, s2, s3, fresh, warm, again)
                }
            }
            ["UUID", h] => {
                let Some(b) = unhex(h) else { return bad() };
                // one reused buffer: equal-length inputs sit at the same address (an identifier must
                // depend on the bytes, not on where they are)
                self.uuid_buf.clear();
                self.uuid_buf.extend_from_slice(&b);
                hexs(ProguardMapping::new(&self.uuid_buf).uuid().as_bytes())
            }
            _ => bad(),
        }
    }

    /// one operation with panic isolation
    pub fn step_safe(&mut self, line: &str) -> String {
        match catch_unwind(AssertUnwindSafe(|| self.step(line))) {
            Ok(s) => s,
            Err(_) => {
                // lazily built values may be half-initialised only if their constructor panicked,
                // in which case they were never stored; nothing to repair.
                "PANIC".to_string()
            }
        }
    }
}
