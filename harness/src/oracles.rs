//! Direct property oracles on the implementation alone (no model involved).
//! Each returns a report: number of checks, how many were non-trivial, and failures with the
//! protocol operations that replay them.

use crate::genmap::*;
use crate::gens::{thorough, TraceGen};
use crate::proto::{self, hx, hxs};
use crate::rng::Rng;
use proguard::{ProguardCache, ProguardMapper, ProguardMapping, ProguardRecord, StackFrame, StackTrace, Throwable};
use std::collections::BTreeMap;
use std::io::{self, Write};
use std::panic::{catch_unwind, AssertUnwindSafe};

pub struct Failure {
    pub what: String,
    pub ops: Vec<String>,
    pub detail: String,
}

pub struct Report {
    pub checks: u64,
    pub nontrivial: u64,
    pub failures: Vec<Failure>,
    pub stats: BTreeMap<String, u64>,
    pub samples: Vec<String>,
}

impl Report {
    pub fn new() -> Self {
        Report { checks: 0, nontrivial: 0, failures: Vec::new(), stats: BTreeMap::new(), samples: Vec::new() }
    }
    fn fail(&mut self, what: &str, ops: Vec<String>, detail: String) {
        if self.failures.len() < 50 {
            self.failures.push(Failure { what: what.to_string(), ops, detail });
        } else {
            *self.stats.entry("failures_not_listed".into()).or_insert(0) += 1;
        }
    }
    fn count(&mut self, k: &str) {
        *self.stats.entry(k.to_string()).or_insert(0) += 1;
    }
    fn sample(&mut self, s: String) {
        if self.samples.len() < 5 {
            self.samples.push(s);
        }
    }
}

pub fn json_escape(s: &str) -> String {
    let mut o = String::new();
    for c in s.chars() {
        match c {
            '"' => o.push_str("\\\""),
            '\\' => o.push_str("\\\\"),
            '\n' => o.push_str("\\n"),
            '\r' => o.push_str("\\r"),
            '\t' => o.push_str("\\t"),
            c if (c as u32) < 0x20 => o.push_str(&format!("\\u{:04x}", c as u32)),
            c => o.push(c),
        }
    }
    o
}

impl Report {
    pub fn to_json(&self, prop: &str) -> String {
        let fails: Vec<String> = self
            .failures
            .iter()
            .map(|f| {
                let ops: Vec<String> = f.ops.iter().map(|o| format!("\"{}\"", json_escape(o))).collect();
                format!(
                    "{{\"what\":\"{}\",\"ops\":[{}],\"detail\":\"{}\"}}",
                    json_escape(&f.what),
                    ops.join(","),
                    json_escape(&f.detail)
                )
            })
            .collect();
        let stats: Vec<String> = self.stats.iter().map(|(k, v)| format!("\"{}\":{}", json_escape(k), v)).collect();
        let samples: Vec<String> = self.samples.iter().map(|s| format!("\"{}\"", json_escape(s))).collect();
        format!(
            "{{\"property\":\"{}\",\"checks\":{},\"nontrivial\":{},\"failures\":[{}],\"stats\":{{{}}},\"samples\":[{}]}}",
            prop,
            self.checks,
            self.nontrivial,
            fails.join(","),
            stats.join(","),
            samples.join(",")
        )
    }
}

fn domain_mapping(rng: &mut Rng, cfg: &Cfg) -> Vec<u8> {
    for _ in 0..50 {
        let g = gen_mapping(rng, cfg);
        if g.in_domain {
            return g.text;
        }
    }
    b"o.A -> a:\n    1:1:void x():1:1 -> m\n".to_vec()
}

fn frames_of(m: &ProguardMapper, c: &str, meth: &str, line: usize, file: Option<&str>) -> String {
    let f = proto::cur::mk_frame(c, meth, line, file, None);
    proto::cur::r_frames(m.remap_frame(&f))
}

// ------------------------------------------------------------------ C01: metamorphic

/// Answers do not depend on the line-ending style, on blank / unparseable lines, or on the
/// order of distinctly named class blocks.
pub fn oracle_c01(rng: &mut Rng, tier: &str) -> Report {
    let mut rep = Report::new();
    nonmonotone_expectation(&mut rep);
    let n = if thorough(tier) { 12000 } else { 1200 };
    for _ in 0..n {
        let mut cfg = Cfg::domain();
        cfg.term = Some(Term::Lf);
        cfg.noise_pct = 0;
        let base = domain_mapping(rng, &cfg);
        let text = String::from_utf8(base.clone()).unwrap();
        // split into blocks at class lines
        let lines: Vec<&str> = text.split('\n').filter(|l| !l.is_empty()).collect();
        let mut variants: Vec<(String, Vec<u8>)> = Vec::new();
        variants.push(("crlf".into(), lines.join("\r\n").into_bytes()));
        variants.push(("cr".into(), lines.join("\r").into_bytes()));
        variants.push(("lflf+final".into(), (lines.join("\n\n") + "\n").into_bytes()));
        let mut noisy: Vec<String> = Vec::new();
        for l in &lines {
            if rng.pct(30) {
                noisy.push(rng.pick(&["garbage", "", "  x -> y", "a -> b", "    1:void x() -> y"]).to_string());
            }
            noisy.push(l.to_string());
        }
        variants.push(("noise".into(), noisy.join("\n").into_bytes()));
        // block permutation when obfuscated class names are distinct
        let mut blocks: Vec<Vec<&str>> = Vec::new();
        let mut pre: Vec<&str> = Vec::new();
        for l in &lines {
            let is_class = !l.starts_with(' ') && !l.starts_with('#') && l.ends_with(':') && l.contains(" -> ");
            if is_class {
                blocks.push(vec![l]);
            } else if let Some(b) = blocks.last_mut() {
                b.push(l);
            } else {
                pre.push(l);
            }
        }
        let names: Vec<&str> = blocks.iter().map(|b| b[0].rsplit(" -> ").next().unwrap()).collect();
        let mut sorted = names.clone();
        sorted.sort();
        sorted.dedup();
        if sorted.len() == names.len() && blocks.len() >= 2 {
            let mut perm = blocks.clone();
            for i in (1..perm.len()).rev() {
                let j = rng.below(i + 1);
                perm.swap(i, j);
            }
            let mut t: Vec<&str> = pre.clone();
            for b in &perm {
                t.extend(b.iter());
            }
            variants.push(("block-permutation".into(), t.join("\n").into_bytes()));
            rep.count("permuted");
        }
        let u = universe(&base);
        let base_s: &'static [u8] = Box::leak(base.clone().into_boxed_slice());
        let m = proto::cur::mapper(base_s, false);
        let mut queries: Vec<(String, String, usize)> = Vec::new();
        for (c, meth) in u.pairs.iter().take(6) {
            let mut ls: Vec<usize> = vec![0, 1];
            ls.extend(u.lines.iter().take(8));
            for l in ls {
                queries.push((c.clone(), meth.clone(), l));
            }
        }
        queries.push(("zz".into(), "m".into(), 1));
        let want: Vec<String> = queries.iter().map(|(c, me, l)| frames_of(&m, c, me, *l, Some("F"))).collect();
        let nontriv = want.iter().filter(|w| w.as_str() != "[]").count() as u64;
        for (name, v) in variants {
            let vs: &'static [u8] = Box::leak(v.clone().into_boxed_slice());
            let mv = proto::cur::mapper(vs, false);
            let cbytes = proto::aligned_static(&proto::cur::write_cache(vs));
            let cv = ProguardCache::parse(cbytes).ok();
            for (q, w) in queries.iter().zip(want.iter()) {
                rep.checks += 1;
                let got = frames_of(&mv, &q.0, &q.1, q.2, Some("F"));
                let gotc = cv.as_ref().map(|c| {
                    let f = proto::cur::mk_frame(&q.0, &q.1, q.2, Some("F"), None);
                    proto::cur::r_frames(c.remap_frame(&f))
                });
                if &got != w || gotc.as_ref().map_or(false, |g| g != w) {
                    rep.fail(
                        &format!("answer changes under {}", name),
                        vec![
                            format!("MAP {}", hx(&base)),
                            format!("FRL {} {} {} {}", hxs(&q.0), hxs(&q.1), q.2, hxs("F")),
                            format!("MAP {}", hx(&v)),
                            format!("FRL {} {} {} {}", hxs(&q.0), hxs(&q.1), q.2, hxs("F")),
                        ],
                        format!("base={} variant(mapper)={} variant(cache)={:?}", w, got, gotc),
                    );
                }
            }
        }
        rep.nontrivial += nontriv;
        rep.sample(format!("mapping {} bytes, {} queries, {} with frames", base.len(), queries.len(), nontriv));
    }
    rep
}

// ------------------------------------------------------------------ C02: sizes beyond what the model is run on

/// mapper == cache on mappings with 2^16-ish entries per method / per class (counter widths,
/// windowed scans): implementation-only comparison, no model involved
pub fn oracle_c02(_rng: &mut Rng, tier: &str) -> Report {
    let mut rep = Report::new();
    let sizes: Vec<usize> = if thorough(tier) { vec![255, 256, 257, 4095, 4096, 65535, 65536, 65537, 70000, 131073, 1_000_001] } else { vec![257, 65536, 65537, 70000] };
    for n in sizes {
        let mut t = String::with_capacity(n * 40);
        t.push_str("o.Big -> big:\n");
        for i in 0..n {
            t.push_str(&format!("    {}:{}:void render(int):{}:{} -> a\n", i + 1, i + 1, i + 1, i + 1));
        }
        t.push_str("    void other.Helper.flush(long) -> a\n    void tail() -> zz\no.After -> z:\n    void q(int) -> k\n");
        let ms: &'static [u8] = Box::leak(t.into_bytes().into_boxed_slice());
        let mapper = proto::cur::mapper(ms, true);
        let cbytes = proto::aligned_static(&proto::cur::write_cache(ms));
        let Ok(cache) = ProguardCache::parse(cbytes) else {
            rep.fail("own output does not parse", vec![format!("# {} member lines under one method name", n)], String::new());
            continue;
        };
        let mut qs: Vec<Query> = vec![
            Query::Cls("big".into()), Query::Cls("z".into()), Query::Mth("big".into(), "a".into()), Query::Mth("big".into(), "zz".into()),
            Query::Frp("big".into(), "a".into(), "long".into()), Query::Frp("big".into(), "a".into(), "int".into()),
            Query::Frp("big".into(), "zz".into(), "".into()), Query::Frp("z".into(), "k".into(), "int".into()),
            // the class *after* the big one: its member range starts beyond 2^16 entries
            Query::Mth("z".into(), "k".into()), Query::Frl("z".into(), "k".into(), 0, None), Query::Frl("z".into(), "k".into(), 5, Some("Z.java".into())),
        ];
        for l in [0usize, 1, 2, 127, 128, 129, 255, 256, 257, 271, 272, 4096, 65535, 65536, 65537, n - 1, n, n + 1] {
            qs.push(Query::Frl("big".into(), "a".into(), l, None));
        }
        for q in &qs {
            rep.checks += 1;
            let a = q.run(&mapper);
            let b = q.run(&cache);
            if a != "[]" && a != "-" {
                rep.nontrivial += 1;
            }
            if a != b {
                rep.fail(
                    "mapper and cache disagree on a large mapping",
                    vec![format!("# mapping: class big with {} lines `i:i:void render(int):i:i -> a`, then `void other.Helper.flush(long) -> a`, `void tail() -> zz`, class z", n), q.op(false)],
                    format!("mapper={} cache={}", &a[..a.len().min(300)], &b[..b.len().min(300)]),
                );
            }
        }
        rep.sample(format!("{} member lines under one name, {} queries", n, qs.len()));
    }
    // string-table offsets beyond 2^16 (and, thorough, beyond 2^24): every kind of string reference
    // (class names, file names, member names, foreign classes, parameter strings) lies behind a
    // filler class that contributes that many string bytes
    for filler in if thorough(tier) { vec![3_000usize, 450_000] } else { vec![3_000usize] } {
        let mut t = String::with_capacity(filler * 64 + 1024);
        t.push_str("o.Filler -> fill:\n");
        for i in 0..filler {
            t.push_str(&format!("    void fillerMethodNumber{}WithALongishName(int) -> f{}\n", i, i));
        }
        t.push_str("com.late.Klass -> zz.late:\n# {\"id\":\"sourceFile\",\"fileName\":\"LateFile.kt\"}\n");
        t.push_str("    1:5:void lateMethod(late.Param):10:14 -> lm\n    1:5:void other.pkg.Foreign.inlined(late.P2):20 -> lm\n");
        t.push_str("    7:9:int late2(late.Param) -> ln\n    void unranged(late.P3) -> lu\n");
        t.push_str("com.late.Synth -> zz.synth:\n# {\"id\":\"sourceFile\",\"fileName\":\"R8$$SyntheticClass\"}\n    3:4:void far.away.Outer$Inner.call(late.Q):30:31 -> sc\n    void plain(late.Q) -> sp\n");
        let ms: &'static [u8] = Box::leak(t.into_bytes().into_boxed_slice());
        let mapper = proto::cur::mapper(ms, true);
        let cbytes = proto::aligned_static(&proto::cur::write_cache(ms));
        let Ok(cache) = ProguardCache::parse(cbytes) else {
            rep.fail("own output does not parse", vec![format!("# filler class with {} methods, then late classes", filler)], String::new());
            continue;
        };
        let mut qs: Vec<Query> = vec![
            Query::Cls("zz.late".into()), Query::Cls("zz.synth".into()), Query::Cls("fill".into()),
            Query::Mth("zz.late".into(), "lm".into()), Query::Mth("zz.late".into(), "ln".into()), Query::Mth("zz.synth".into(), "sc".into()),
            Query::Mth("fill".into(), format!("f{}", filler - 1)),
            Query::Frp("zz.late".into(), "lm".into(), "late.Param".into()), Query::Frp("zz.late".into(), "lm".into(), "late.P2".into()),
            Query::Frp("zz.late".into(), "lu".into(), "late.P3".into()), Query::Frp("zz.synth".into(), "sp".into(), "late.Q".into()),
            Query::Frp("zz.synth".into(), "sc".into(), "late.Q".into()), Query::Frp("fill".into(), format!("f{}", filler - 1), "int".into()),
        ];
        for l in [0usize, 1, 3, 5, 6, 7, 9] {
            qs.push(Query::Frl("zz.late".into(), "lm".into(), l, None));
            qs.push(Query::Frl("zz.late".into(), "ln".into(), l, Some("Obf.java".into())));
            qs.push(Query::Frl("zz.late".into(), "lu".into(), l, None));
            qs.push(Query::Frl("zz.synth".into(), "sc".into(), l, None));
            qs.push(Query::Frl("zz.synth".into(), "sp".into(), l, Some("Obf.java".into())));
        }
        for q in &qs {
            rep.checks += 1;
            let a = q.run(&mapper);
            let b = q.run(&cache);
            if a != "[]" && a != "-" {
                rep.nontrivial += 1;
            }
            if a != b {
                rep.fail(
                    "mapper and cache disagree on strings stored at large string-table offsets",
                    vec![format!("# mapping: class fill with {} methods `void fillerMethodNumber<i>WithALongishName(int) -> f<i>`, then classes zz.late (sourceFile LateFile.kt, foreign class, parameters) and zz.synth (R8$$SyntheticClass)", filler), q.op(false)],
                    format!("mapper={} cache={}", &a[..a.len().min(400)], &b[..b.len().min(400)]),
                );
            }
        }
        rep.sample(format!("{} filler methods (string table > {} bytes), {} queries", filler, filler * 40, qs.len()));
    }
    // very many distinct (obfuscated, arguments, original) triples that share obfuscated name and
    // arguments: every one is its own by-params entry, in mapper and cache alike
    for n in if thorough(tier) { vec![70_000usize, 300_000, 1_000_001] } else { vec![200_000usize] } {
        let mut t = String::with_capacity(n * 32);
        t.push_str("o.Many -> many:\n");
        for i in 0..n {
            t.push_str(&format!("    void method{}(int) -> a\n", i));
        }
        // a later class: its by-params range starts beyond 2^16 entries
        t.push_str("o.Next -> next:\n    void first(int) -> a\n    void second(int) -> a\n    3:4:void third(long):7:8 -> b\n");
        let ms: &'static [u8] = Box::leak(t.into_bytes().into_boxed_slice());
        let mapper = proto::cur::mapper(ms, true);
        let cbytes = proto::aligned_static(&proto::cur::write_cache(ms));
        rep.checks += 1;
        let Ok(cache) = ProguardCache::parse(cbytes) else {
            rep.fail("own output does not parse", vec![format!("# {} distinct methods `void method<i>(int) -> a`", n)], String::new());
            continue;
        };
        let f = StackFrame::with_parameters("many", "a", "int");
        let a: Vec<String> = mapper.remap_frame(&f).map(|x| x.method().to_string()).collect();
        let b: Vec<String> = cache.remap_frame(&f).map(|x| x.method().to_string()).collect();
        let distinct_a: std::collections::BTreeSet<&String> = a.iter().collect();
        let distinct_b: std::collections::BTreeSet<&String> = b.iter().collect();
        if a.len() != n || b.len() != n || distinct_a.len() != n || distinct_b != distinct_a {
            rep.fail(
                "by-params answer on a class with many distinct methods under one (name, arguments): one frame per distinct original name expected",
                vec![format!("# mapping: class many with {} lines `void method<i>(int) -> a`", n), "FRP x6d616e79 x61 x696e74".to_string()],
                format!("expected {} frames; mapper {} ({} distinct), cache {} ({} distinct)", n, a.len(), distinct_a.len(), b.len(), distinct_b.len()),
            );
        } else {
            rep.nontrivial += 1;
        }
        for q in [Query::Frp("next".into(), "a".into(), "int".into()), Query::Frp("next".into(), "b".into(), "long".into()),
                  Query::Frl("next".into(), "b".into(), 3, None), Query::Mth("next".into(), "b".into()), Query::Cls("next".into())] {
            rep.checks += 1;
            let (x, y) = (q.run(&mapper), q.run(&cache));
            if x != y || x == "[]" || x == "-" {
                rep.fail("mapper and cache disagree on the class after one with very many by-params entries",
                         vec![format!("# mapping: class many with {} lines `void method<i>(int) -> a`, then class next", n), q.op(false)],
                         format!("mapper={} cache={}", &x[..x.len().min(300)], &y[..y.len().min(300)]));
            }
        }
    }
    // more than 2^16 classes: the class count and every per-class offset exceed 16 bits
    {
        let n = 70_000usize;
        let mut t = String::with_capacity(n * 48);
        for i in 0..n {
            t.push_str(&format!("o.C{} -> c{:05}:\n    void m{}(int) -> a\n", i, i, i));
        }
        let ms: &'static [u8] = Box::leak(t.into_bytes().into_boxed_slice());
        let mapper = proto::cur::mapper(ms, true);
        let cbytes = proto::aligned_static(&proto::cur::write_cache(ms));
        rep.checks += 1;
        match ProguardCache::parse(cbytes) {
            Err(_) => rep.fail("own output does not parse", vec![format!("# {} classes", n)], String::new()),
            Ok(cache) => {
                for i in [0usize, 1, 255, 256, 65534, 65535, 65536, 65537, 69_999] {
                    let c = format!("c{:05}", i);
                    for q in [Query::Cls(c.clone()), Query::Mth(c.clone(), "a".into()), Query::Frl(c.clone(), "a".into(), 0, None), Query::Frp(c.clone(), "a".into(), "int".into())] {
                        rep.checks += 1;
                        let (x, y) = (q.run(&mapper), q.run(&cache));
                        if x != y || x == "[]" || x == "-" {
                            rep.fail("mapper and cache disagree on a mapping with more than 2^16 classes",
                                     vec![format!("# mapping: {} classes `o.C<i> -> c<i:05>:` each with `void m<i>(int) -> a`", n), q.op(false)],
                                     format!("mapper={} cache={}", x, y));
                        } else {
                            rep.nontrivial += 1;
                        }
                    }
                }
            }
        }
    }
    rep
}

// ------------------------------------------------------------------ C06: totality + resync

#[derive(PartialEq, Clone, Debug)]
enum NItem {
    Ok(String),
    Err(Vec<u8>),
}

fn norm_records(bytes: &[u8]) -> (Vec<NItem>, usize, bool) {
    let mut v = Vec::new();
    let mut count = 0usize;
    let mut term_in_field = false;
    for it in ProguardMapping::new(bytes).iter() {
        count += 1;
        match &it {
            Ok(r) => {
                let fields: Vec<&str> = match r {
                    ProguardRecord::Header { key, value } => vec![key, value.unwrap_or("")],
                    ProguardRecord::Class { original, obfuscated } => vec![original, obfuscated],
                    ProguardRecord::Field { ty, original, obfuscated } => vec![ty, original, obfuscated],
                    ProguardRecord::Method { ty, original, obfuscated, arguments, original_class, .. } => {
                        vec![ty, original, obfuscated, arguments, original_class.unwrap_or("")]
                    }
                };
                if fields.iter().any(|f| f.contains('\n') || f.contains('\r')) {
                    term_in_field = true;
                }
                v.push(NItem::Ok(proto::r_item(&it)));
            }
            Err(e) => {
                let mut l = e.line().to_vec();
                while matches!(l.last(), Some(b'\n') | Some(b'\r')) {
                    l.pop();
                }
                if !l.is_empty() {
                    v.push(NItem::Err(l));
                }
            }
        }
    }
    (v, count, term_in_field)
}

fn check_resync(rep: &mut Report, a: &[u8], b: &[u8], nl: u8) {
    rep.checks += 1;
    let mut ab = a.to_vec();
    ab.push(nl);
    ab.extend_from_slice(b);
    let r = catch_unwind(AssertUnwindSafe(|| (norm_records(a), norm_records(b), norm_records(&ab))));
    match r {
        Err(_) => rep.fail("panic while iterating records", vec![format!("MAP {}", hx(&ab)), "REC".into()], String::new()),
        Ok(((ra, _, _), (rb, _, _), (rab, cnt, tf))) => {
            if cnt > ab.len() {
                rep.fail("more items than input bytes", vec![format!("MAP {}", hx(&ab)), "REC".into()], format!("{} items, {} bytes", cnt, ab.len()));
            }
            if tf {
                rep.fail("a yielded field contains a line terminator", vec![format!("MAP {}", hx(&ab)), "REC".into()], String::new());
            }
            let mut want = ra.clone();
            want.extend(rb.clone());
            if want != rab {
                rep.fail(
                    "records(A nl B) != records(A) ++ records(B)",
                    vec![
                        format!("MAP {}", hx(a)),
                        "REC".into(),
                        format!("MAP {}", hx(b)),
                        "REC".into(),
                        format!("MAP {}", hx(&ab)),
                        "REC".into(),
                    ],
                    format!("A={:?} B={:?} AB={:?}", ra, rb, rab),
                );
            }
            if !ra.is_empty() && !rb.is_empty() {
                rep.nontrivial += 1;
            }
        }
    }
}

pub fn oracle_c06(rng: &mut Rng, tier: &str) -> Report {
    let mut rep = Report::new();
    let th = thorough(tier);
    // bounded-exhaustive over a 9-symbol alphabet
    const ALPHA: &[u8] = b"a ->:#\"\n\r";
    let maxlen = if th { 7 } else { 5 };
    let mut total = 0u64;
    for len in 0..=maxlen {
        let mut idx = vec![0usize; len];
        loop {
            let s: Vec<u8> = idx.iter().map(|&i| ALPHA[i]).collect();
            // every split point at a terminator byte
            for (p, &c) in s.iter().enumerate() {
                if c == b'\n' || c == b'\r' {
                    check_resync(&mut rep, &s[..p], &s[p + 1..], c);
                }
            }
            total += 1;
            let mut p = len;
            let mut done = true;
            while p > 0 {
                p -= 1;
                if idx[p] + 1 < ALPHA.len() {
                    idx[p] += 1;
                    for q in p + 1..len {
                        idx[q] = 0;
                    }
                    done = false;
                    break;
                }
            }
            if done {
                break;
            }
        }
    }
    rep.stats.insert("bounded_exhaustive_strings".into(), total);
    // token soups and hostile mappings, split at random positions
    let n = if th { 800000 } else { 80000 };
    for i in 0..n {
        let a = if i % 3 == 0 { soup(rng, 80) } else { let g = gen_mapping(rng, &Cfg::hostile()); if i % 3 == 1 { mutate(rng, &g.text) } else { g.text } };
        let b = if i % 2 == 0 { soup(rng, 80) } else { gen_mapping(rng, &Cfg::hostile()).text };
        let a = if a.len() > 300 { a[..300].to_vec() } else { a };
        let b = if b.len() > 300 { b[..300].to_vec() } else { b };
        check_resync(&mut rep, &a, &b, rng.pick(&[b'\n', b'\r']));
        if i < 3 {
            rep.sample(format!("A={} B={}", hx(&a), hx(&b)));
        }
    }
    // every line split of the corpus files
    for (name, text) in corpus_files() {
        if text.len() > 40_000 && !th {
            continue;
        }
        if text.len() > 700_000 {
            continue;
        }
        let mut k = 0;
        for (p, &c) in text.iter().enumerate() {
            if c == b'\n' {
                k += 1;
                if text.len() > 40_000 && k % 97 != 0 {
                    continue;
                }
                check_resync(&mut rep, &text[..p], &text[p + 1..], b'\n');
            }
        }
        rep.stats.insert(format!("corpus_splits:{}", name), k);
    }
    // the JSON sourceFile header: every body of <= 5 (7) tokens over quotes, backslashes, braces and
    // terminators after the fixed prefix, followed by lines that must stay lines
    {
        const TOK: &[&[u8]] = &[b"a", b"\\", b"\"", b"}", b"\"}", b"\n", b"\r\n", b"\\\""];
        let maxl = if th { 6 } else { 5 };
        let prefix: &[u8] = b"# {\"id\":\"sourceFile\",\"fileName\":\"";
        let tail: &[u8] = b"o.B -> b:\n    void m() -> k\"}\n# t: v\n";
        let mut idx: Vec<usize> = vec![];
        let mut count = 0u64;
        loop {
            let mut a = prefix.to_vec();
            for &i in &idx {
                a.extend_from_slice(TOK[i]);
            }
            check_resync(&mut rep, &a, tail, b'\n');
            count += 1;
            let mut p = idx.len();
            let mut grown = false;
            loop {
                if p == 0 {
                    idx = vec![0; idx.len() + 1];
                    grown = true;
                    break;
                }
                p -= 1;
                if idx[p] + 1 < TOK.len() {
                    idx[p] += 1;
                    for q in p + 1..idx.len() {
                        idx[q] = 0;
                    }
                    break;
                }
            }
            if grown && idx.len() > maxl {
                break;
            }
        }
        rep.stats.insert("sourcefile_escape_bodies".into(), count);
    }
    long_input_oracle(&mut rep, th, false);
    rep
}

/// Very long tokens and very long runs of terminator bytes (also run by `pgh deepprobe` in a
/// debug build, where no recursion is optimised into a loop).
pub fn long_input_oracle(rep: &mut Report, th: bool, probe: bool) {
    // very long tokens (just above every power of two from 64 KiB to 32 MiB) in each kind of
    // line, and very long runs of terminator bytes: a long line is still one line, the lines
    // after it are still parsed, and nothing recurses per byte
    let exps: Vec<u32> = if probe { vec![16, 21] } else if th { (16..=26).collect() } else { vec![16, 20, 23, 25] };
    for e in exps {
        let len = (1usize << e) + 1;
        let big = "x".repeat(len);
        for (kind, a) in [
            ("field obfuscated name", format!("o.A -> a:\n    int f -> {}", big)),
            ("class original name", format!("o.{} -> a:", big)),
            ("header value", format!("# key: {}", big)),
            ("method arguments", format!("o.A -> a:\n    1:2:void m({}) -> b", big)),
            ("unterminated sourceFile header", format!("# {{\"id\":\"sourceFile\",\"fileName\":\"{}", big)),
        ] {
            if e > 23 && kind != "field obfuscated name" && kind != "header value" {
                continue;
            }
            let b = b"o.B -> b:\n    void m() -> k\n# tail: v\n";
            let before = rep.failures.len();
            check_resync(rep, a.as_bytes(), b, b'\n');
            check_resync(rep, a.as_bytes(), b, b'\r');
            for f in rep.failures.iter_mut().skip(before) {
                // (the generic replay would embed the whole input)
                f.ops = vec![format!("# A = a mapping whose last line has a {}-byte token ({}), B = {:?}", len, kind, String::from_utf8_lossy(b))];
                f.detail.truncate(300);
            }
            rep.count("long_token_lines");
        }
    }
    for run in if probe { vec![30_000usize, 1 << 20] } else if th { vec![1000usize, 30_000, 100_000, 1 << 20, 1 << 24] } else { vec![1000usize, 30_000, 100_000, 1 << 20] } {
        for t in [&b"\n"[..], b"\r", b"\r\n", b"\n\r"] {
            let mut a = b"o.A -> a:".to_vec();
            for _ in 0..run / t.len() {
                a.extend_from_slice(t);
            }
            a.extend_from_slice(b"    int f -> g");
            let b = b"o.B -> b:\n";
            let before = rep.failures.len();
            // on a thread with the default 2 MiB stack (what a caller's worker thread has)
            let (a2, b2) = (a.clone(), b.to_vec());
            let h = std::thread::Builder::new().stack_size(2 << 20).spawn(move || {
                let mut r = Report::new();
                check_resync(&mut r, &a2, &b2, b'\n');
                let n = ProguardMapping::new(&a2).iter().filter(|x| x.is_ok()).count();
                (r, n)
            }).unwrap();
            match h.join() {
                Ok((r, n)) => {
                    rep.checks += r.checks;
                    rep.nontrivial += r.nontrivial;
                    rep.failures.extend(r.failures);
                    if n != 2 {
                        rep.fail("records separated by a long run of terminators are not both parsed", vec![format!("# `o.A -> a:` + {} terminator bytes + `    int f -> g`", run)], format!("{} records", n));
                    }
                }
                Err(_) => rep.fail("iteration over a long run of terminators panicked", vec![format!("# {} terminator bytes", run)], String::new()),
            }
            for f in rep.failures.iter_mut().skip(before) {
                f.ops = vec![format!("# A = `o.A -> a:` + {} bytes of {:?} + `    int f -> g`, B = `o.B -> b:`", run, String::from_utf8_lossy(t))];
                f.detail.truncate(300);
            }
            rep.count("long_terminator_runs");
        }
    }
}

/// `pgh deepprobe`: the inputs on which recursion depth matters, for a build without optimisation
pub fn deep_probe() -> Report {
    let mut rep = Report::new();
    let part = std::env::var("PGH_DEEP").unwrap_or_default();
    if part.is_empty() || part == "long" {
        let mut r = Report::new();
        if catch_unwind(AssertUnwindSafe(|| long_input_oracle(&mut r, false, true))).is_err() {
            r.fail("a very long token / run of terminators made the parser panic", vec!["# deepprobe: long inputs".into()], String::new());
        }
        rep.checks += r.checks;
        rep.nontrivial += r.nontrivial;
        rep.failures.extend(r.failures);
        rep.stats.extend(r.stats);
    }
    if part.is_empty() || part == "chain" {
        deep_chain_oracle(&mut rep, &[20_000], false);
    }
    if !(part.is_empty() || part == "sig") {
        return rep;
    }
    let sig_part = catch_unwind(AssertUnwindSafe(|| deep_sig_probe()));
    match sig_part {
        Ok(r) => {
            rep.checks += r.checks;
            rep.failures.extend(r.failures);
        }
        Err(_) => rep.fail("a descriptor with very many array dimensions / parameters made signature deobfuscation panic", vec![format!("SIG {}", hxs(&format!("({}I)V", "[".repeat(300))))], "panic (arithmetic overflow?) in an unoptimised build with overflow checks".into()),
    }
    rep
}

fn deep_sig_probe() -> Report {
    let mut rep = Report::new();
    // descriptors: many array dimensions / parameters
    let m = ProguardMapper::new(ProguardMapping::new(b"o.A -> a:\n"));
    for n in [10_000usize, 200_000] {
        rep.checks += 2;
        let sig = format!("({}I)V", "[".repeat(n));
        if m.deobfuscate_signature(&sig).is_none() {
            rep.fail("descriptor with many array dimensions", vec![format!("# {} dimensions", n)], String::new());
        }
        let sig = format!("({})V", "La;".repeat(n));
        if m.deobfuscate_signature(&sig).map(|s| s.parameters_types().count()) != Some(n) {
            rep.fail("descriptor with many parameters", vec![format!("# {} parameters", n)], String::new());
        }
    }
    rep
}

// ------------------------------------------------------------------ C07: identity under an unrelated mapping

fn normalise_terminators(input: &str) -> String {
    let mut s = String::new();
    for l in input.lines() {
        s.push_str(l);
        s.push('\n');
    }
    s
}

pub fn oracle_c07(rng: &mut Rng, tier: &str) -> Report {
    let mut rep = Report::new();
    let n = if thorough(tier) { 80000 } else { 8000 };
    // the mapping knows only classes that cannot occur in the generated traces
    let mapping: &'static [u8] = b"o.A -> qq.q1:\n    1:3:void x():1:3 -> m\no.B -> qq.q2:\n";
    let mapper = proto::cur::mapper(mapping, true);
    let cbytes = proto::aligned_static(&proto::cur::write_cache(mapping));
    let cache = ProguardCache::parse(cbytes).unwrap();
    let u = universe(b"o.A -> a:\n    1:3:void x():1:3 -> m\no.B$C -> a.b$c:\n    void <init>() -> <init>\n");
    let tg = TraceGen { u: &u };
    for i in 0..n {
        let t = tg.text(rng);
        let want = normalise_terminators(&t);
        rep.checks += 1;
        let lines = t.lines().count();
        if lines >= 2 {
            rep.nontrivial += 1;
        }
        for (who, got) in [("mapper", mapper.remap_stacktrace(&t)), ("cache", cache.remap_stacktrace(&t))] {
            match got {
                Ok(g) if g == want => {}
                other => rep.fail(
                    &format!("{}: output differs from the input although no class is known", who),
                    vec![format!("MAP {}", hx(mapping)), format!("TXT {}", hxs(&t))],
                    format!("want={:?} got={:?}", want, other),
                ),
            }
        }
        if i < 2 {
            rep.sample(t);
        }
    }
    // one frame line that expands to n frames (an n-entry inline group), with the expected output
    // constructed here, independently of crate and model: no cap, no truncation, file order
    for n in if thorough(tier) { vec![4097usize, 70_000, 1_000_001] } else { vec![4097usize, 20_000] } {
        let text = crate::gens::threshold_mapping(n);
        let ms: &'static [u8] = Box::leak(text.into_boxed_slice());
        let mapper = proto::cur::mapper(ms, false);
        let cbytes = proto::aligned_static(&proto::cur::write_cache(ms));
        let Ok(cache) = ProguardCache::parse(cbytes) else {
            rep.fail("own output does not parse", vec![format!("# threshold mapping {}", n)], String::new());
            continue;
        };
        let input = "big: boom\n    at big.b(F.java:7)\nCaused by: small: x\n\tat big.b(G.java:5)\n    at big.b(G.java:4)\n";
        let mut want = String::from("o.Big: boom\n");
        for i in 0..n {
            want.push_str(&format!("    at o.Big.inl{}(F.java:{})\n", i, i));
        }
        want.push_str("Caused by: o.Small: x\n");
        for i in 0..n {
            want.push_str(&format!("    at o.Big.inl{}(G.java:{})\n", i, i));
        }
        want.push_str("    at big.b(G.java:4)\n");
        for (who, got) in [("mapper", mapper.remap_stacktrace(input)), ("cache", cache.remap_stacktrace(input))] {
            rep.checks += 1;
            match got {
                Ok(g) if g == want => rep.nontrivial += 1,
                Ok(g) => rep.fail(
                    &format!("{}: a frame line resolving to {} frames is not rendered as exactly those frames", who, n),
                    vec![format!("# mapping: class big with an inline group of {} entries `5:9:void inl<i>():<i> -> b`", n), format!("TXT {}", hxs(input))],
                    format!("expected {} lines, got {}", want.lines().count(), g.lines().count()),
                ),
                Err(_) => rep.fail(&format!("{}: remap_stacktrace failed", who), vec![format!("TXT {}", hxs(input))], String::new()),
            }
        }
    }
    rep
}

// ------------------------------------------------------------------ C08: structure + typed == text

fn depth(t: &StackTrace) -> usize {
    let mut d = 0;
    let mut c = t.cause();
    while let Some(x) = c {
        d += 1;
        c = x.cause();
    }
    d
}

pub fn oracle_c08(rng: &mut Rng, tier: &str) -> Report {
    let mut rep = Report::new();
    let n = if thorough(tier) { 12000 } else { 1200 };
    for i in 0..n {
        let text = domain_mapping(rng, &Cfg::domain());
        let ms: &'static [u8] = Box::leak(text.clone().into_boxed_slice());
        let mapper = proto::cur::mapper(ms, false);
        let cbytes = proto::aligned_static(&proto::cur::write_cache(ms));
        let cache = ProguardCache::parse(cbytes).unwrap();
        let u = universe(&text);
        let tg = TraceGen { u: &u };
        for k in 0..6 {
            let canonical = k < 4;
            let toks = tg.tokens(rng, canonical);
            let tv: Vec<&str> = toks.split(' ').filter(|s| !s.is_empty()).collect();
            let segs = proto::parse_trace_toks(&tv).unwrap();
            let trace = proto::cur::mk_trace(&segs);
            for who in 0..2 {
                rep.checks += 1;
                let (typed, textout) = if who == 0 {
                    (mapper.remap_stacktrace_typed(&trace), mapper.remap_stacktrace(&trace.to_string()))
                } else {
                    (cache.remap_stacktrace_typed(&trace), cache.remap_stacktrace(&trace.to_string()))
                };
                let ops = vec![format!("MAP {}", hx(&text)), format!("TYPS {}", toks), format!("TXT {}", hxs(&trace.to_string()))];
                if depth(&typed) != depth(&trace) {
                    rep.fail("cause-chain depth changed", ops.clone(), String::new());
                }
                // per level: exception kept or remapped, frames replaced or kept
                let (mut a, mut b) = (Some(&trace), Some(&typed));
                let mut changed = false;
                while let (Some(x), Some(y)) = (a, b) {
                    match (x.exception(), y.exception()) {
                        (None, None) => {}
                        (Some(ex), Some(ey)) => {
                            let remapped = if who == 0 { mapper.remap_throwable(ex) } else { cache.remap_throwable(ex) };
                            let want = remapped.unwrap_or_else(|| ex.clone());
                            if *ey != want {
                                rep.fail("throwable neither remapped nor kept", ops.clone(), format!("{:?} -> {:?}", ex, ey));
                            }
                            if ey != ex {
                                changed = true;
                            }
                        }
                        (ex, ey) => rep.fail("throwable dropped or invented", ops.clone(), format!("{:?} -> {:?}", ex, ey)),
                    }
                    let mut want: Vec<StackFrame> = Vec::new();
                    for f in x.frames() {
                        let r: Vec<StackFrame> = if who == 0 { mapper.remap_frame(f).collect() } else { cache.remap_frame(f).collect() };
                        if r.is_empty() {
                            want.push(f.clone());
                        } else {
                            changed = true;
                            want.extend(r);
                        }
                    }
                    if want.as_slice() != y.frames() {
                        rep.fail("frames not replaced-or-kept", ops.clone(), format!("{:?} -> {:?}", x.frames(), y.frames()));
                    }
                    a = x.cause();
                    b = y.cause();
                }
                if changed {
                    rep.nontrivial += 1;
                }
                if canonical {
                    match textout {
                        Ok(s) if s == typed.to_string() => {}
                        other => rep.fail(
                            "print(typed remap) != text remap of the printed trace",
                            ops.clone(),
                            format!("typed={:?} text={:?}", typed.to_string(), other),
                        ),
                    }
                }
            }
            if i == 0 && k == 0 {
                rep.sample(toks);
            }
        }
    }
    deep_chain_oracle(&mut rep, if thorough(tier) { &[300_000, 1_000_000] } else { &[300_000] }, false);
    // one frame that resolves to n frames (an n-entry inline group): the typed result keeps all of
    // them, in file order — no cap (2^16+1, 10^6+1; thorough also 2^20+1)
    for n in if thorough(tier) { vec![65_537usize, 1_000_001, 1_048_577] } else { vec![65_537usize, 1_000_001] } {
        let text = crate::gens::threshold_mapping(n);
        let ms: &'static [u8] = Box::leak(text.into_boxed_slice());
        let mapper = proto::cur::mapper(ms, n % 2 == 0);
        let cbytes = proto::aligned_static(&proto::cur::write_cache(ms));
        let Ok(cache) = ProguardCache::parse(cbytes) else {
            rep.fail("own output does not parse", vec![format!("# threshold mapping {}", n)], String::new());
            continue;
        };
        let Some(trace) = StackTrace::try_parse(b"big: boom\n    at big.b(F.java:7)\n    at small.a(S.java:1)\n") else { continue };
        for (who, got) in [("mapper", mapper.remap_stacktrace_typed(&trace)), ("cache", cache.remap_stacktrace_typed(&trace))] {
            rep.checks += 1;
            let fs = got.frames();
            let ok = fs.len() == n + 1
                && fs.iter().take(n).enumerate().all(|(i, f)| f.class() == "o.Big" && f.line() == i && f.method().strip_prefix("inl").map_or(false, |d| d == i.to_string()))
                && fs[n].class() == "o.Small" && fs[n].method() == "x";
            if ok {
                rep.nontrivial += 1;
            } else {
                rep.fail(
                    &format!("{}: a frame resolving to {} frames is not replaced by exactly those frames in the typed result", who, n),
                    vec![format!("# mapping: class big with an inline group of {} entries `5:9:void inl<i>():<i> -> b`; typed trace `big: boom / at big.b(F.java:7) / at small.a(S.java:1)`", n)],
                    format!("expected {} frames, got {}", n + 1, fs.len()),
                );
            }
        }
    }
    rep
}

/// Cause chains of several hundred thousand levels, on a thread with the default 2 MiB stack of
/// a spawned thread: parse, typed remap (mapper and cache), print, clone, compare with the text
/// API, drop.  A stack overflow aborts the process; the driver reports that as a violation.
pub fn deep_chain_oracle(rep: &mut Report, depths: &[usize], drop_probe: bool) {
    for &depth in depths {
        let h = std::thread::Builder::new().stack_size(2 << 20).spawn(move || {
            let mut fails: Vec<String> = Vec::new();
            let mapping: &'static [u8] = b"o.Small -> small:\n    1:1:void x():7:7 -> a\no.A -> a:\n";
            let mapper = proto::cur::mapper(mapping, false);
            let cbytes = proto::aligned_static(&proto::cur::write_cache(mapping));
            let cache = ProguardCache::parse(cbytes).unwrap();
            let mut t = String::with_capacity(depth * 24 + 64);
            t.push_str("a: top\n    at a.m(F:1)\n");
            for i in 0..depth {
                t.push_str(if i % 2 == 0 { "Caused by: small: x\n    at small.a(F:1)\n" } else { "Caused by: zz.U\n" });
            }
            let Some(parsed) = StackTrace::try_parse(t.as_bytes()) else {
                return vec!["a deep trace does not parse".to_string()];
            };
            let mut d = 0usize;
            let mut cur = Some(&parsed);
            while let Some(c) = cur {
                d += 1;
                cur = c.cause();
            }
            if d != depth + 1 {
                fails.push(format!("parsed depth {} instead of {}", d, depth + 1));
            }
            let printed = parsed.to_string();
            if printed != t {
                fails.push("print(parse(t)) != t for a canonical deep trace".to_string());
            }
            // (printed forms are compared: the derived `PartialEq` recurses per level in an
            // unoptimised build — part of known finding F9)
            let copy = parsed.clone();
            if copy.to_string() != printed {
                fails.push("clone differs".to_string());
            }
            let tm = mapper.remap_stacktrace_typed(&parsed);
            let tc = cache.remap_stacktrace_typed(&parsed);
            let text = mapper.remap_stacktrace(&t);
            let textc = cache.remap_stacktrace(&t);
            if tm.to_string() != tc.to_string() {
                fails.push("typed remap: mapper and cache differ".to_string());
            }
            match (text, textc) {
                (Ok(a), Ok(b)) => {
                    if a != b {
                        fails.push("text remap: mapper and cache differ".to_string());
                    }
                    if tm.to_string() != a {
                        fails.push("print(typed remap) != text remap".to_string());
                    }
                    if !a.contains("Caused by: o.Small: x\n    at o.Small.x(F:7)\n") {
                        fails.push("the deep levels were not remapped".to_string());
                    }
                }
                _ => fails.push("text remap failed".to_string()),
            }
            // (dropping such a chain is the subject of the separate `dropprobe`: known finding F9)
            std::mem::forget(tm);
            std::mem::forget(tc);
            std::mem::forget(copy);
            std::mem::forget(parsed);
            fails
        });
        rep.checks += 1;
        match h.map(|h| h.join()) {
            Ok(Ok(fails)) => {
                if fails.is_empty() {
                    rep.nontrivial += 1;
                }
                for f in fails {
                    rep.fail(&format!("cause chain of {} levels: {}", depth, f), vec![format!("# trace `a: top / at a.m(F:1)` followed by {} levels alternating `Caused by: small: x / at small.a(F:1)` and `Caused by: zz.U`", depth)], String::new());
                }
            }
            _ => rep.fail(&format!("cause chain of {} levels: panic", depth), vec![format!("# {} levels", depth)], String::new()),
        }
        rep.count("deep_cause_chains");
    }
    if !drop_probe {
        return;
    }
    // a deep chain under a top level that is neither a throwable nor has frames: the parser rejects
    // the text, inside the library call (child process: an overflow there kills only the child)
    let depth = 300_000usize;
    rep.checks += 1;
    if let Ok(exe) = std::env::current_exe() {
        match std::process::Command::new(exe).args(["rejectprobe", &depth.to_string()]).stdout(std::process::Stdio::null()).stderr(std::process::Stdio::null()).status() {
            Ok(st) if st.success() => rep.nontrivial += 1,
            Ok(st) => rep.fail(
                "StackTrace::try_parse aborts the process on a text it rejects: a first line that is no throwable, no frames, then very many `Caused by:` lines (stack overflow while the library discards the cause chain it built)",
                vec![format!("REJECTPROBE {}", depth)],
                format!("child exit status: {:?}", st),
            ),
            Err(_) => {}
        }
    }
    // dropping a deep chain, in a child process (an overflow there kills only the child)
    let depth = 300_000usize;
    rep.checks += 1;
    if let Ok(exe) = std::env::current_exe() {
        match std::process::Command::new(exe).args(["dropprobe", &depth.to_string()]).stdout(std::process::Stdio::null()).stderr(std::process::Stdio::null()).status() {
            Ok(st) if st.success() => rep.nontrivial += 1,
            Ok(st) => rep.fail(
                "dropping a parsed StackTrace with very many nested causes aborts the process (stack overflow in the recursive drop of the cause chain)",
                vec![format!("DROPPROBE {}", depth)],
                format!("child exit status: {:?}", st),
            ),
            Err(_) => {}
        }
    }
}

/// `pgh rejectprobe <depth>`: a text whose first line is no throwable and that has no frames,
/// followed by `depth` `Caused by:` lines: `try_parse` answers `None` — and must get there without
/// overflowing the stack while discarding the chain it built (2 MiB thread)
pub fn reject_probe(depth: usize) {
    let h = std::thread::Builder::new().stack_size(2 << 20).spawn(move || {
        let mut t = String::with_capacity(depth * 16 + 32);
        t.push_str("this line is not a throwable\n");
        for _ in 0..depth {
            t.push_str("Caused by: b: x\n");
        }
        StackTrace::try_parse(t.as_bytes()).is_none()
    }).unwrap();
    let ok = h.join().unwrap_or(false);
    std::process::exit(if ok { 0 } else { 3 });
}

/// `pgh dropprobe <depth>`: parse a trace with `depth` nested causes on a 2 MiB thread and drop it
pub fn drop_probe(depth: usize) {
    let h = std::thread::Builder::new().stack_size(2 << 20).spawn(move || {
        let mut t = String::with_capacity(depth * 16 + 32);
        t.push_str("a: top\n");
        for _ in 0..depth {
            t.push_str("Caused by: b: x\n");
        }
        let parsed = StackTrace::try_parse(t.as_bytes());
        let ok = parsed.is_some();
        drop(parsed);
        ok
    }).unwrap();
    let ok = h.join().unwrap_or(false);
    std::process::exit(if ok { 0 } else { 3 });
}

// ------------------------------------------------------------------ C10: cross-release reading

fn cache_answers_cur(c: &ProguardCache, qs: &[Query]) -> Vec<String> {
    qs.iter()
        .map(|q| match catch_unwind(AssertUnwindSafe(|| q.run(c as &dyn proto::cur::Remapper))) {
            Ok(s) => s,
            Err(_) => "PANIC".into(),
        })
        .collect()
}

fn cache_answers_pin(c: &proguard_pinned::ProguardCache, qs: &[Query]) -> Vec<String> {
    qs.iter()
        .map(|q| match catch_unwind(AssertUnwindSafe(|| q.run_pin(c as &dyn proto::pin::Remapper))) {
            Ok(s) => s,
            Err(_) => "PANIC".into(),
        })
        .collect()
}

#[derive(Clone, Debug)]
pub enum Query {
    Cls(String),
    Mth(String, String),
    Frl(String, String, usize, Option<String>),
    Frp(String, String, String),
    Thr(String, Option<String>),
    Txt(String),
    Sig(String),
}

impl Query {
    pub fn op(&self, b: bool) -> String {
        let p = if b { "B" } else { "" };
        match self {
            Query::Cls(c) => format!("{}CLS {}", p, hxs(c)),
            Query::Mth(c, m) => format!("{}MTH {} {}", p, hxs(c), hxs(m)),
            Query::Frl(c, m, l, f) => format!("{}FRL {} {} {} {}", p, hxs(c), hxs(m), l, f.as_deref().map_or("-".into(), hxs)),
            Query::Frp(c, m, a) => format!("{}FRP {} {} {}", p, hxs(c), hxs(m), hxs(a)),
            Query::Thr(c, m) => format!("{}THR {} {}", p, hxs(c), m.as_deref().map_or("-".into(), hxs)),
            Query::Txt(t) => format!("{}TXT {}", p, hxs(t)),
            Query::Sig(s) => format!("{}SIG {}", p, hxs(s)),
        }
    }
    pub fn run(&self, r: &dyn proto::cur::Remapper) -> String {
        match self {
            Query::Cls(c) => r.cls(c),
            Query::Mth(c, m) => r.mth(c, m),
            Query::Frl(c, m, l, f) => r.frames(c, m, *l, f.as_deref(), None),
            Query::Frp(c, m, a) => r.frames(c, m, 0, None, Some(a)),
            Query::Thr(c, m) => r.thr(c, m.as_deref()),
            Query::Txt(t) => r.txt(t),
            Query::Sig(s) => r.sig(s),
        }
    }
    pub fn run_pin(&self, r: &dyn proto::pin::Remapper) -> String {
        match self {
            Query::Cls(c) => r.cls(c),
            Query::Mth(c, m) => r.mth(c, m),
            Query::Frl(c, m, l, f) => r.frames(c, m, *l, f.as_deref(), None),
            Query::Frp(c, m, a) => r.frames(c, m, 0, None, Some(a)),
            Query::Thr(c, m) => r.thr(c, m.as_deref()),
            Query::Txt(t) => r.txt(t),
            Query::Sig(s) => r.sig(s),
        }
    }
}

pub fn query_universe(rng: &mut Rng, u: &Universe, nlines: usize) -> Vec<Query> {
    let mut qs = Vec::new();
    let mut classes = u.classes.clone();
    classes.push("zz.Unknown".into());
    for c in &classes {
        qs.push(Query::Cls(c.clone()));
        qs.push(Query::Thr(c.clone(), if rng.pct(50) { Some("m: x".into()) } else { None }));
    }
    let mut pairs = u.pairs.clone();
    pairs.push(("zz".into(), "m".into()));
    if let Some(c) = u.classes.first() {
        pairs.push((c.clone(), "nosuch".into()));
    }
    for (c, m) in &pairs {
        qs.push(Query::Mth(c.clone(), m.clone()));
        let mut lines: Vec<usize> = vec![0, 1, 2, (1 << 32) - 2, 1 << 32, usize::MAX];
        for l in u.lines.iter() {
            if lines.len() < 6 + nlines {
                lines.push(*l);
            }
        }
        for l in lines {
            qs.push(Query::Frl(c.clone(), m.clone(), l, if rng.pct(50) { Some("SF".into()) } else { None }));
        }
        for a in u.args.iter().chain(std::iter::once(&"zz".to_string())) {
            qs.push(Query::Frp(c.clone(), m.clone(), a.clone()));
        }
    }
    let tg = TraceGen { u };
    qs.push(Query::Txt(tg.text(rng)));
    qs.push(Query::Sig(crate::gens::gen_descriptor(rng, u)));
    qs
}

pub fn oracle_c10(rng: &mut Rng, tier: &str) -> Report {
    let mut rep = Report::new();
    let th = thorough(tier);
    let n = if th { 16000 } else { 1400 };
    let mut mappings: Vec<Vec<u8>> = Vec::new();
    for i in 0..n {
        mappings.push(if i % 6 == 5 { gen_mapping(rng, &Cfg::hostile()).text } else { domain_mapping(rng, &Cfg::domain()) });
    }
    for (_, t) in corpus_files() {
        if t.len() < 40_000 || (th && t.len() < 700_000) {
            mappings.push(t);
        }
    }
    mappings.push(crate::gens::threshold_mapping(130));
    mappings.push(crate::gens::threshold_mapping(300));
    mappings.push(crate::gens::threshold_mapping(600));
    mappings.push(crate::gens::threshold_mapping(4097));
    mappings.push(crate::gens::nonmonotone_mapping(600));
    mappings.push(crate::gens::nonmonotone_mapping(1030));
    mappings.push(crate::gens::boundary_mapping());
    for (mi, text) in mappings.iter().enumerate() {
        let u = universe(text);
        let mut qs = query_universe(rng, &u, 6);
        if qs.len() > 600 {
            qs.truncate(600);
        }
        for writer in ["pinned", "current"] {
            let bytes = if writer == "pinned" { proto::pin::write_cache(text) } else { proto::cur::write_cache(text) };
            let st = proto::aligned_static(&bytes);
            let rc = proto::cur::parse_cache(st);
            let rp = proto::pin::parse_cache(st);
            rep.checks += 1;
            let ops0 = vec![format!("# writer={}", writer), format!("MAP {}", hx(text)), format!("BUF {}", hx(&bytes))];
            match (&rc, &rp) {
                (Ok(c), Ok(p)) => {
                    let ac = cache_answers_cur(c, &qs);
                    let ap = cache_answers_pin(p, &qs);
                    let mut nontriv = false;
                    for ((q, a), b) in qs.iter().zip(ac.iter()).zip(ap.iter()) {
                        if a != "[]" && a != "-" {
                            nontriv = true;
                        }
                        // inputs on which the pinned reader faults (unchecked arithmetic, F5) are
                        // outside the comparison
                        if b == "PANIC" {
                            rep.count("pinned_reader_fault_excluded");
                            continue;
                        }
                        if a != b {
                            let mut ops = ops0.clone();
                            ops.push(q.op(true));
                            rep.fail(
                                &format!("file written by {} release: current and pinned readers answer differently", writer),
                                ops,
                                format!("current={} pinned={}", a, b),
                            );
                        }
                    }
                    if nontriv {
                        rep.nontrivial += 1;
                    }
                    // the integrity self-test is part of "what the file means": a file the pinned
                    // release accepts with `test()` must be accepted by the current `test()` too
                    rep.checks += 1;
                    let tp = catch_unwind(AssertUnwindSafe(|| p.test())).is_ok();
                    let tc = catch_unwind(AssertUnwindSafe(|| c.test())).is_ok();
                    if tp && !tc {
                        rep.fail(
                            &format!("file written by {} release passes the pinned release's test() but not the current one", writer),
                            { let mut o = ops0.clone(); o.push("BTEST".into()); o },
                            String::new(),
                        );
                    }
                }
                (Err(e), _) if e == "ERR WrongVersion" => rep.count("current_reader_rejects_version"),
                (_, Err(e)) if e == "ERR WrongVersion" => rep.count("pinned_reader_rejects_version"),
                (a, b) => rep.fail(
                    &format!("file written by {} release is neither read by both nor rejected as wrong version", writer),
                    ops0.clone(),
                    format!("current={:?} pinned={:?}", a.as_ref().map(|_| "ok"), b.as_ref().map(|_| "ok")),
                ),
            }
        }
        if mi < 2 {
            rep.sample(format!("mapping of {} bytes, {} queries x 2 writers x 2 readers", text.len(), qs.len()));
        }
    }
    rep
}

// ------------------------------------------------------------------ C11: prefixes

pub fn oracle_c11(rng: &mut Rng, tier: &str) -> Report {
    let mut rep = Report::new();
    let th = thorough(tier);
    let n = if th { 12000 } else { 1200 };
    for i in 0..n {
        let mut cfg = Cfg::domain();
        if i % 3 == 0 {
            cfg.max_classes = 2;
            cfg.max_members = 2;
        }
        let mut text = if i == 0 { Vec::new() } else if i % 7 == 0 { gen_mapping(rng, &Cfg::hostile()).text } else { domain_mapping(rng, &cfg) };
        if i % 5 == 2 {
            if !text.is_empty() && !matches!(text.last(), Some(b'\n') | Some(b'\r')) {
                text.push(b'\n');
            }
            let len = rng.pick(&[127usize, 128, 129, 200, 300, 16383, 16384, 16400]);
            match rng.below(3) {
                0 => text.extend_from_slice(format!("o.{} -> zlast:", "L".repeat(len)).as_bytes()),
                1 => text.extend_from_slice(format!("o.Z -> zlast:\n    void m({}) -> a", "p".repeat(len)).as_bytes()),
                _ => text.extend_from_slice(format!("o.Z -> zlast:\n    void o.{}.m() -> a\n", "F".repeat(len)).as_bytes()),
            }
        }
        let u = universe(&text);
        let bytes = proto::cur::write_cache(&text);
        let full = proto::aligned_static(&bytes);
        let Ok(fc) = proto::cur::parse_cache(full) else {
            rep.fail("the writer's own output does not parse", vec![format!("MAP {}", hx(&text)), "WRITE".into()], String::new());
            continue;
        };
        let qs = query_universe(rng, &u, 2);
        let want = cache_answers_cur(&fc, &qs);
        let step = if bytes.len() > 20000 { 211 } else if bytes.len() > 2000 && !th { 13 } else { 1 };
        let mut k = 0;
        while k < bytes.len() {
            rep.checks += 1;
            let p: &'static [u8] = &full[..k]; // a prefix of the aligned copy is aligned
            match catch_unwind(AssertUnwindSafe(|| proto::cur::parse_cache(p))) {
                Err(_) => rep.fail("parse panicked on a prefix", vec![format!("BUF {}", hx(&bytes[..k]))], String::new()),
                Ok(Err(_)) => {
                    rep.nontrivial += 1;
                }
                Ok(Ok(pc)) => {
                    rep.count("prefix_accepted");
                    let got = cache_answers_cur(&pc, &qs);
                    for ((q, a), b) in qs.iter().zip(want.iter()).zip(got.iter()) {
                        if a != b {
                            rep.fail(
                                "an accepted strict prefix answers differently from the full file",
                                vec![format!("BUF {}", hx(&bytes)), q.op(true), format!("BUF {}", hx(&bytes[..k])), q.op(true)],
                                format!("full={} prefix({} of {})={}", a, k, bytes.len(), b),
                            );
                            break;
                        }
                    }
                }
            }
            k += step;
        }
        // the last bytes always (torn tail)
        for k in bytes.len().saturating_sub(12)..bytes.len() {
            rep.checks += 1;
            let p: &'static [u8] = &full[..k]; // a prefix of the aligned copy is aligned
            if let Ok(Ok(pc)) = catch_unwind(AssertUnwindSafe(|| proto::cur::parse_cache(p))) {
                let got = cache_answers_cur(&pc, &qs);
                for ((q, a), b) in qs.iter().zip(want.iter()).zip(got.iter()) {
                    if a != b {
                        rep.fail(
                            "an accepted strict prefix answers differently from the full file",
                            vec![format!("BUF {}", hx(&bytes)), q.op(true), format!("BUF {}", hx(&bytes[..k])), q.op(true)],
                            format!("full={} prefix({} of {})={}", a, k, bytes.len(), b),
                        );
                        break;
                    }
                }
            } else {
                rep.nontrivial += 1;
            }
        }
        // the same file placed at an address that is NOT a multiple of 8 (what a reader sees when the
        // file sits inside another buffer): the parser may refuse it, but whatever it accepts — the
        // full file or a torn tail — must answer exactly like the file read from an aligned address
        if i % 4 == 1 || i < 40 {
            let words = (bytes.len() + 7) / 8 + 2;
            let store: &'static mut [u64] = Box::leak(vec![0u64; words].into_boxed_slice());
            let base = store.as_mut_ptr() as *mut u8;
            for shift in 1..8usize {
                unsafe {
                    std::ptr::write_bytes(base, 0, words * 8);
                    std::ptr::copy_nonoverlapping(bytes.as_ptr(), base.add(shift), bytes.len());
                }
                for k in (bytes.len().saturating_sub(9)..=bytes.len()).rev() {
                    rep.checks += 1;
                    let p: &'static [u8] = unsafe { std::slice::from_raw_parts(base.add(shift) as *const u8, k) };
                    match catch_unwind(AssertUnwindSafe(|| proto::cur::parse_cache(p))) {
                        Err(_) => rep.fail("parse panicked on a file at an unaligned address", vec![format!("BUF {}", hx(&bytes[..k])), format!("# placed at an address = {} (mod 8)", shift)], String::new()),
                        Ok(Err(_)) => rep.count("unaligned_rejected"),
                        Ok(Ok(pc)) => {
                            rep.count("unaligned_accepted");
                            let got = cache_answers_cur(&pc, &qs);
                            for ((q, a), b) in qs.iter().zip(want.iter()).zip(got.iter()) {
                                if a != b {
                                    rep.fail(
                                        "a file (or torn tail) accepted at an unaligned address answers differently from the file at an aligned address",
                                        vec![format!("BUF {}", hx(&bytes)), q.op(true), format!("# the first {} of its {} bytes placed at an address = {} (mod 8)", k, bytes.len(), shift), q.op(true)],
                                        format!("aligned full={} unaligned={}", a, b),
                                    );
                                    break;
                                }
                            }
                        }
                    }
                }
            }
        }
        if i < 2 {
            rep.sample(format!("{} byte cache, {} prefixes", bytes.len(), bytes.len() / step));
        }
    }
    // a file that ends in one huge string whose length prefix crosses the 3 -> 4 byte LEB128
    // boundary (2^21): the declared string-section size must still be exact, so every torn tail is
    // rejected
    for len in [2_097_151usize, 2_097_152, 2_097_200] {
        for kind in 0..2 {
            let text = if kind == 0 { format!("o.Z -> zlast:\n    void m({}) -> a\n", "p".repeat(len)) } else { format!("o.A -> a:\n    void m() -> b\no.{} -> zlast:\n", "L".repeat(len)) };
            let bytes = proto::cur::write_cache_safe(text.as_bytes());
            let full = proto::aligned_static(&bytes);
            rep.checks += 1;
            let Ok(fc) = proto::cur::parse_cache(full) else {
                rep.fail("the writer's own output does not parse", vec![format!("# mapping ending in a {}-byte string", len)], String::new());
                continue;
            };
            let q = if kind == 0 { Query::Frp("zlast".into(), "a".into(), "p".repeat(len)) } else { Query::Cls("zlast".into()) };
            let want = q.run(&fc);
            if want == "[]" || want == "-" {
                rep.fail("the full file does not answer the query for its last string", vec![format!("# mapping ending in a {}-byte string", len)], want.clone());
            }
            if implied_len(&bytes) != Some(bytes.len()) {
                rep.fail("file length differs from the length its header implies", vec![format!("# mapping ending in a {}-byte string", len)],
                         format!("implied {:?} actual {}", implied_len(&bytes), bytes.len()));
            }
            for k in bytes.len().saturating_sub(6)..bytes.len() {
                rep.checks += 1;
                let p: &'static [u8] = &full[..k]; // a prefix of the aligned copy is aligned
                match catch_unwind(AssertUnwindSafe(|| proto::cur::parse_cache(p))) {
                    Err(_) => rep.fail("parse panicked on a prefix", vec![format!("# mapping ending in a {}-byte string, prefix {}", len, k)], String::new()),
                    Ok(Err(_)) => rep.nontrivial += 1,
                    Ok(Ok(pc)) => {
                        let got = q.run(&pc);
                        if got != want {
                            rep.fail(
                                "an accepted strict prefix answers differently from the full file",
                                vec![format!("# mapping ending in a {}-byte string ({}); prefix of {} of {} bytes accepted", len, if kind == 0 { "parameter list of the last method" } else { "original name of the last class" }, k, bytes.len())],
                                format!("full answer has {} bytes, prefix answer {}", want.len(), &got[..got.len().min(100)]),
                            );
                        }
                    }
                }
            }
        }
    }
    rep
}

// ------------------------------------------------------------------ C12: buffers at unaligned addresses

/// Valid and corrupted cache files placed at every address residue 1..7 (mod 8): the reader sees
/// every section shifted, i.e. arbitrary field values; whatever `parse` accepts must answer every
/// query without panicking.
pub fn oracle_c12(rng: &mut Rng, tier: &str) -> Report {
    let mut rep = Report::new();
    let n = if thorough(tier) { 3000 } else { 250 };
    for i in 0..n {
        let text = if i % 6 == 0 { gen_mapping(rng, &Cfg::hostile()).text } else { domain_mapping(rng, &Cfg::domain()) };
        let u = universe(&text);
        let bytes = proto::cur::write_cache_safe(&text);
        let qs = query_universe(rng, &u, 2);
        let mut bufs = vec![bytes.clone()];
        bufs.extend(crate::gens::corrupt_buffers(rng, &bytes, 3));
        // declared string bytes lowered, so that the shifted reading still fits and is accepted
        if bytes.len() >= 24 {
            let sb = u32::from_le_bytes([bytes[20], bytes[21], bytes[22], bytes[23]]);
            for v in [0u32, sb.saturating_sub(4), sb.saturating_sub(8), sb / 2] {
                let mut b = bytes.clone();
                b[20..24].copy_from_slice(&v.to_le_bytes());
                bufs.push(b);
            }
        }
        for b in &bufs {
            let words = (b.len() + 7) / 8 + 2;
            let store: &'static mut [u64] = Box::leak(vec![0u64; words].into_boxed_slice());
            let base = store.as_mut_ptr() as *mut u8;
            for shift in 1..8usize {
                unsafe {
                    std::ptr::write_bytes(base, if shift % 2 == 0 { 0 } else { 0xff }, words * 8);
                    std::ptr::copy_nonoverlapping(b.as_ptr(), base.add(shift), b.len());
                }
                // (the bytes after the file are part of the allocation, never of the slice)
                let p: &'static [u8] = unsafe { std::slice::from_raw_parts(base.add(shift) as *const u8, b.len()) };
                rep.checks += 1;
                match catch_unwind(AssertUnwindSafe(|| proto::cur::parse_cache(p))) {
                    Err(_) => rep.fail("parse panicked on a buffer at an unaligned address", vec![format!("BUF {}", hx(b)), format!("# placed at an address = {} (mod 8)", shift)], String::new()),
                    Ok(Err(_)) => rep.count("unaligned_rejected"),
                    Ok(Ok(pc)) => {
                        rep.count("unaligned_accepted");
                        rep.nontrivial += 1;
                        let got = cache_answers_cur(&pc, &qs);
                        if let Some(k) = got.iter().position(|a| a == "PANIC") {
                            rep.fail("a query panicked on a buffer accepted at an unaligned address",
                                     vec![format!("BUF {}", hx(b)), format!("# placed at an address = {} (mod 8)", shift), qs[k].op(true)], String::new());
                        }
                        // (`test()` asserts by design, and the `display()` debug view unwraps every string of a file
                        // that fails that self-test: neither is one of the property's queries)
                        if catch_unwind(AssertUnwindSafe(|| { let _ = format!("{:?}", pc); })).is_err() {
                            rep.fail("debug printing panicked on a buffer accepted at an unaligned address",
                                     vec![format!("BUF {}", hx(b)), format!("# placed at an address = {} (mod 8)", shift)], String::new());
                        }
                    }
                }
            }
        }
    }
    rep
}

// ------------------------------------------------------------------ C18: inputs at size thresholds

/// SHA-1 (FIPS 180-4), written here so that the expectation does not come from the crate's own
/// dependency; streaming, so that multi-GiB inputs need no second copy.
pub struct Sha1 {
    h: [u32; 5],
    buf: [u8; 64],
    fill: usize,
    len: u64,
}

impl Sha1 {
    pub fn new() -> Self {
        Sha1 { h: [0x67452301, 0xEFCDAB89, 0x98BADCFE, 0x10325476, 0xC3D2E1F0], buf: [0; 64], fill: 0, len: 0 }
    }
    fn block(h: &mut [u32; 5], b: &[u8]) {
        let mut w = [0u32; 80];
        for i in 0..16 {
            w[i] = u32::from_be_bytes([b[4 * i], b[4 * i + 1], b[4 * i + 2], b[4 * i + 3]]);
        }
        for i in 16..80 {
            w[i] = (w[i - 3] ^ w[i - 8] ^ w[i - 14] ^ w[i - 16]).rotate_left(1);
        }
        let (mut a, mut bb, mut c, mut d, mut e) = (h[0], h[1], h[2], h[3], h[4]);
        for i in 0..80 {
            let (f, k) = match i / 20 {
                0 => ((bb & c) | (!bb & d), 0x5A827999u32),
                1 => (bb ^ c ^ d, 0x6ED9EBA1),
                2 => ((bb & c) | (bb & d) | (c & d), 0x8F1BBCDC),
                _ => (bb ^ c ^ d, 0xCA62C1D6),
            };
            let t = a.rotate_left(5).wrapping_add(f).wrapping_add(e).wrapping_add(k).wrapping_add(w[i]);
            e = d;
            d = c;
            c = bb.rotate_left(30);
            bb = a;
            a = t;
        }
        h[0] = h[0].wrapping_add(a);
        h[1] = h[1].wrapping_add(bb);
        h[2] = h[2].wrapping_add(c);
        h[3] = h[3].wrapping_add(d);
        h[4] = h[4].wrapping_add(e);
    }
    pub fn update(&mut self, mut data: &[u8]) {
        self.len += data.len() as u64;
        if self.fill > 0 {
            let take = (64 - self.fill).min(data.len());
            self.buf[self.fill..self.fill + take].copy_from_slice(&data[..take]);
            self.fill += take;
            data = &data[take..];
            if self.fill == 64 {
                let b = self.buf;
                Self::block(&mut self.h, &b);
                self.fill = 0;
            }
        }
        while data.len() >= 64 {
            Self::block(&mut self.h, &data[..64]);
            data = &data[64..];
        }
        if !data.is_empty() {
            self.buf[..data.len()].copy_from_slice(data);
            self.fill = data.len();
        }
    }
    pub fn finish(mut self) -> [u8; 20] {
        let bits = self.len.wrapping_mul(8);
        let mut pad = vec![0x80u8];
        while (self.fill + pad.len()) % 64 != 56 {
            pad.push(0);
        }
        pad.extend_from_slice(&bits.to_be_bytes());
        let l = self.len;
        self.update(&pad);
        self.len = l;
        let mut out = [0u8; 20];
        for i in 0..5 {
            out[4 * i..4 * i + 4].copy_from_slice(&self.h[i].to_be_bytes());
        }
        out
    }
}

pub fn uuid_v5(ns: &[u8; 16], data: &[u8]) -> [u8; 16] {
    let mut h = Sha1::new();
    h.update(ns);
    h.update(data);
    let d = h.finish();
    let mut u = [0u8; 16];
    u.copy_from_slice(&d[..16]);
    u[6] = (u[6] & 0x0f) | 0x50;
    u[8] = (u[8] & 0x3f) | 0x80;
    u
}

/// The identifier of very large inputs: a three-line mapping followed by line feeds up to sizes
/// around 2^16, 2^24 (quick) and 2^31, 2^32 (thorough; 4 GiB of memory): every byte given to `new`
/// counts, whatever the size.
pub fn oracle_c18(tier: &str) -> Report {
    let mut rep = Report::new();
    const NS_DNS: [u8; 16] = [0x6b, 0xa7, 0xb8, 0x10, 0x9d, 0xad, 0x11, 0xd1, 0x80, 0xb4, 0x00, 0xc0, 0x4f, 0xd4, 0x30, 0xc8];
    let ns = uuid_v5(&NS_DNS, b"guardsquare.com");
    // self-test of the SHA-1 above (FIPS 180 vectors)
    let mut h = Sha1::new();
    h.update(b"abc");
    if proto::hexs(&h.finish()) != "a9993e364706816aba3e25717850c26c9cd0d89d" {
        rep.fail("harness SHA-1 self-test failed", vec![], String::new());
        return rep;
    }
    let mut sizes: Vec<usize> = vec![0, 1, 55, 56, 63, 64, 65, 119, 120, (1 << 16) - 1, 1 << 16, (1 << 16) + 1, (1 << 24) - 1, 1 << 24, (1 << 24) + 1];
    if thorough(tier) {
        sizes.extend_from_slice(&[(1usize << 31) - 1, 1 << 31, (1 << 31) + 1, (1usize << 32) - 1, 1 << 32, (1usize << 32) + 1, (1usize << 32) + 100]);
    }
    let head = b"o.A -> a:\n    1:2:void m():3:4 -> b\no.B -> c:\n";
    let maxn = *sizes.iter().max().unwrap();
    let mut buf: Vec<u8> = vec![b'\n'; maxn];
    let k = head.len().min(maxn);
    buf[..k].copy_from_slice(&head[..k]);
    for &n in &sizes {
        rep.checks += 1;
        let data = &buf[..n];
        let got = match catch_unwind(AssertUnwindSafe(|| *ProguardMapping::new(data).uuid().as_bytes())) {
            Ok(g) => g,
            Err(_) => {
                rep.fail("uuid() panicked", vec![format!("# a {}-byte input: three mapping lines followed by line feeds", n)], String::new());
                continue;
            }
        };
        let want = uuid_v5(&ns, data);
        if got != want {
            rep.fail(
                "the identifier is not the version-5 UUID of the bytes given to new()",
                vec![format!("# a {}-byte input: three mapping lines followed by line feeds", n)],
                format!("got {} expected {}", proto::hexs(&got), proto::hexs(&want)),
            );
        } else {
            rep.nontrivial += 1;
        }
        // a section of that size inside a larger parent
        if n + 2 <= maxn && n < (1 << 25) {
            rep.checks += 1;
            let sec = ProguardMapping::new(&buf[..n + 2]).section(1..n + 1);
            let want = uuid_v5(&ns, &buf[1..n + 1]);
            if *sec.uuid().as_bytes() != want {
                rep.fail("the identifier of a section is not the version-5 UUID of the section's bytes",
                         vec![format!("# section 1..{} of a {}-byte input", n + 1, n + 2)], String::new());
            }
        }
    }
    // a section that starts beyond 2^32 (thorough: the 4 GiB buffer is there anyway)
    if maxn > (1usize << 32) + 64 {
        for (a, b) in [((1usize << 32) + 1, (1usize << 32) + 33), ((1usize << 32) - 3, (1usize << 32) + 9), (1usize << 32, (1usize << 32) + 1)] {
            rep.checks += 1;
            let mut head2 = buf[..48.min(maxn)].to_vec();
            head2.reverse();
            buf[a..a + head2.len().min(b - a)].copy_from_slice(&head2[..head2.len().min(b - a)]);
            let sec = ProguardMapping::new(&buf[..maxn]).section(a..b);
            let want = uuid_v5(&ns, &buf[a..b]);
            if *sec.uuid().as_bytes() != want {
                rep.fail("the identifier of a section that starts beyond 2^32 is not the version-5 UUID of the section's bytes",
                         vec![format!("# section {}..{} of a {}-byte input", a, b, maxn)], String::new());
            } else {
                rep.nontrivial += 1;
            }
        }
    }
    rep.sample(format!("sizes {:?}", sizes));
    rep
}

// ------------------------------------------------------------------ C14: determinism

pub fn fnv(bytes: &[u8]) -> u64 {
    let mut h: u64 = 0xcbf29ce484222325;
    for b in bytes {
        h ^= *b as u64;
        h = h.wrapping_mul(0x100000001b3);
    }
    h
}

fn c14_mappings(seed: u64, tier: &str) -> Vec<Vec<u8>> {
    let mut rng = Rng::new(seed ^ 0xC14);
    let n = if thorough(tier) { 6000 } else { 800 };
    let mut v = Vec::new();
    for i in 0..n {
        let mut cfg = if i % 3 == 0 { Cfg::hostile() } else { Cfg::domain() };
        if i % 5 == 0 {
            cfg.max_classes = 40;
            cfg.max_members = 10;
        }
        v.push(gen_mapping(&mut rng, &cfg).text);
    }
    for (_, t) in corpus_files() {
        if t.len() < 40_000 || thorough(tier) {
            v.push(t);
        }
    }
    v.push(crate::gens::threshold_mapping(130));
    v.push(crate::gens::threshold_mapping(300));
    v.push(crate::gens::boundary_mapping());
    // section sizes at "buffer of 2^m bytes" boundaries: floor/ceil(2^m / 36), (2^m / 28), odd multiples
    let mut counts: Vec<usize> = Vec::new();
    for m in 8..=19u32 {
        for rec in [36usize, 28] {
            let f = (1usize << m) / rec;
            for c in [f, f + 1, 3 * f, 3 * f + 1] {
                if c <= 22000 {
                    counts.push(c);
                }
            }
        }
        for c in [(1usize << m) - 1, 1usize << m, (1usize << m) + 1] {
            if c <= 22000 {
                counts.push(c);
            }
        }
    }
    counts.sort();
    counts.dedup();
    for &c in &counts {
        if !thorough(tier) && c > 300 && (c * 2654435761usize) % 3 != (seed as usize) % 3 && c != 7281 && c != 21843 {
            continue;
        }
        let mut t = String::with_capacity(c * 36 + 32);
        t.push_str("o.N -> n:\n");
        for i in 0..c {
            t.push_str(&format!("    void m{}(int) -> a{}\n", i, i % 3));
        }
        v.push(t.into_bytes());
    }
    // class counts at "buffer of 2^m bytes" boundaries (28-byte class records) and their multiples
    for m in 11..=17u32 {
        let f = (1usize << m) / 28;
        for c in [f, f + 1, 2 * f, 3 * f] {
            if c == 0 || c > 15_000 || (!thorough(tier) && m < 16 && c != f) {
                continue;
            }
            let mut t = String::with_capacity(c * 20);
            for i in 0..c {
                t.push_str(&format!("o.C{} -> c{}:\n", i, i));
            }
            t.push_str("    void m() -> a\n");
            v.push(t.into_bytes());
        }
    }
    // one class with very many distinct methods (collision-prone fingerprints, counter widths)
    {
        let n = if thorough(tier) { 400_000 } else { 150_000 };
        let mut t = String::with_capacity(n * 30);
        t.push_str("o.H -> h:\n");
        for i in 0..n {
            // (i % 1024: records 65536 apart share name *and* parameters — positions kept in 16 bits tie)
            t.push_str(&format!("    void m{}(p{}) -> a\n", i, i % 1024));
        }
        v.push(t.into_bytes());
    }
    // many classes / many distinct strings (hash-map growth thresholds)
    let mut t = String::new();
    for i in 0..1500 {
        t.push_str(&format!("o.K{} -> k{}:\n    void m{}(int) -> a\n    void m{}(long) -> a\n", i, i % 700, i, i));
    }
    v.push(t.into_bytes());
    v
}

/// hashes of the cache written for each C14 mapping — run in a fresh process by `oracle_c14`
pub fn c14_hashes(seed: u64, tier: &str) -> Vec<(u64, usize)> {
    c14_mappings(seed, tier).iter().map(|m| { let b = proto::cur::write_cache(m); (fnv(&b), b.len()) }).collect()
}

fn implied_len(b: &[u8]) -> Option<usize> {
    if b.len() < 24 {
        return None;
    }
    let w = |i: usize| u32::from_le_bytes([b[i], b[i + 1], b[i + 2], b[i + 3]]) as usize;
    let a = |x: usize| (x + 7) / 8 * 8;
    Some(a(a(a(24 + 28 * w(8)) + 36 * w(12)) + 36 * w(16)) + w(20))
}

pub fn oracle_c14(seed: u64, tier: &str) -> Report {
    let mut rep = Report::new();
    let maps = c14_mappings(seed, tier);
    let base = c14_hashes(seed, tier);
    // same process, repeated
    let again = c14_hashes(seed, tier);
    // threads
    let nthreads = 8;
    let mut handles = Vec::new();
    for _ in 0..nthreads {
        let tier = tier.to_string();
        handles.push(std::thread::spawn(move || c14_hashes(seed, &tier)));
    }
    let mut others: Vec<(String, Vec<(u64, usize)>)> = vec![("second write in the same process".into(), again)];
    for (i, h) in handles.into_iter().enumerate() {
        others.push((format!("thread {}", i), h.join().unwrap()));
    }
    // processes
    let exe = std::env::current_exe().unwrap();
    let nproc = if thorough(tier) { 16 } else { 8 };
    let mut children = Vec::new();
    for _ in 0..nproc {
        children.push(
            std::process::Command::new(&exe)
                .args(["c14hashes", tier, &seed.to_string()])
                .stdout(std::process::Stdio::piped())
                .spawn()
                .expect("spawn self"),
        );
    }
    for (i, c) in children.into_iter().enumerate() {
        let o = c.wait_with_output().unwrap();
        let v: Vec<(u64, usize)> = String::from_utf8_lossy(&o.stdout)
            .lines()
            .filter_map(|l| {
                let mut it = l.split(' ');
                Some((it.next()?.parse().ok()?, it.next()?.parse().ok()?))
            })
            .collect();
        others.push((format!("process {}", i), v));
    }
    rep.stats.insert("processes".into(), nproc as u64);
    rep.stats.insert("threads".into(), nthreads as u64);
    for (who, v) in &others {
        if v.len() != base.len() {
            rep.fail("run produced a different number of outputs", vec![], format!("{}: {} vs {}", who, v.len(), base.len()));
            continue;
        }
        for (i, (a, b)) in base.iter().zip(v.iter()).enumerate() {
            rep.checks += 1;
            if a != b {
                rep.fail(
                    &format!("cache bytes differ between the first write and {}", who),
                    vec![format!("MAP {}", hx(&maps[i])), "WRITE".into()],
                    format!("{:?} vs {:?}", a, b),
                );
            }
        }
    }
    for (i, m) in maps.iter().enumerate() {
        let b = proto::cur::write_cache(m);
        rep.checks += 1;
        if implied_len(&b) != Some(b.len()) {
            rep.fail("length differs from the length implied by the header", vec![format!("MAP {}", hx(m)), "WRITE".into()], format!("{:?} vs {}", implied_len(&b), b.len()));
        }
        if b.len() > 24 {
            rep.nontrivial += 1;
        }
        if i < 2 {
            rep.sample(format!("{} byte mapping -> {} byte cache, fnv {:016x}", m.len(), b.len(), fnv(&b)));
        }
    }
    // the same bytes whatever the sink: a large mapping (more classes / members than any internal
    // batch) through sinks that accept 1 000 / 65 536 bytes per call, and small mappings through
    // sinks that fail exactly once at call i and then work again
    {
        let mut t = String::new();
        for i in 0..10_000 {
            t.push_str(&format!("o.C{} -> c{}:\n", i, i));
            if i % 7 == 0 {
                t.push_str("    1:2:void m(int):3:4 -> a\n    void n() -> b\n");
            }
        }
        let text = t.into_bytes();
        let canon = proto::cur::write_cache_safe(&text);
        for chunk in [1000usize, 65_536, 4096 * 28 - 1, 7] {
            if chunk == 7 && !thorough(tier) {
                continue;
            }
            rep.checks += 1;
            let mut sk = ScriptSink { chunk, at: None, calls: 0, accepted: vec![], failed: false };
            let r = catch_unwind(AssertUnwindSafe(|| ProguardCache::write(&ProguardMapping::new(&text), &mut sk)));
            match r {
                Ok(Ok(())) if sk.accepted == canon => rep.nontrivial += 1,
                Ok(Ok(())) => rep.fail(
                    "a sink accepting fewer bytes per call received other bytes than a Vec (10 000 classes)",
                    vec!["# mapping: 10 000 classes `o.C<i> -> c<i>:`, every 7th with two members".to_string(), format!("# sink: at most {} bytes per call", chunk)],
                    format!("got {} bytes, Vec output has {} (header-implied {:?})", sk.accepted.len(), canon.len(), implied_len(&sk.accepted)),
                ),
                other => rep.fail("write failed / panicked on a healthy chunking sink", vec![format!("# sink: at most {} bytes per call", chunk)], format!("{:?}", other.map(|x| x.is_ok()).is_ok())),
            }
        }
        let mut rng2 = Rng::new(seed ^ 0x51C4);
        for _ in 0..(if thorough(tier) { 200 } else { 30 }) {
            let mut cfg = Cfg::domain();
            cfg.max_classes = 3;
            cfg.max_members = 4;
            let text = gen_mapping(&mut rng2, &cfg).text;
            let canon = proto::cur::write_cache_safe(&text);
            let mut probe = ScriptSink { chunk: usize::MAX, at: None, calls: 0, accepted: vec![], failed: false };
            let _ = ProguardCache::write(&ProguardMapping::new(&text), &mut probe);
            for idx in 0..probe.calls + 1 {
                rep.checks += 1;
                let mut sk = ScriptSink { chunk: usize::MAX, at: Some((idx, Act::Fail)), calls: 0, accepted: vec![], failed: false };
                let r = ProguardCache::write(&ProguardMapping::new(&text), &mut sk);
                if r.is_ok() && (sk.failed || sk.accepted != canon) {
                    rep.fail(
                        "a write that reports success delivered other bytes than the canonical ones (sink failed once, then recovered)",
                        vec![format!("MAP {}", hx(&text)), format!("# sink script: fail once at call {}", idx)],
                        format!("{} bytes delivered, canonical {}, header-implied {:?}", sk.accepted.len(), canon.len(), implied_len(&sk.accepted)),
                    );
                } else {
                    rep.nontrivial += 1;
                }
            }
        }
    }
    // order dependence on one thread: for mappings whose caches have the SAME length (but other
    // section sizes), B written right after A must equal B written by a fresh thread
    {
        let mut rng = Rng::new(seed ^ 0xC14_5E9);
        let mut by_len: BTreeMap<usize, Vec<Vec<u8>>> = BTreeMap::new();
        let names = ["a", "b", "x.y", "com.example.Foo", "obfuscated.name", "o.A", "q", "é"];
        for _ in 0..(if thorough(tier) { 6000 } else { 1500 }) {
            let mut t = String::new();
            for _ in 0..rng.range(1, 3) {
                t.push_str(&format!("{} -> {}:\n", rng.pick(&names), rng.pick(&names)));
                for _ in 0..rng.below(3) {
                    t.push_str(&format!("    {}void {}({}) -> {}\n", rng.pick(&["", "1:2:", "3:3:"]), rng.pick(&["m", "run", "get"]), rng.pick(&["", "int"]), rng.pick(&["a", "b"])));
                }
            }
            let text = t.into_bytes();
            let len = proto::cur::write_cache_safe(&text).len();
            let e = by_len.entry(len).or_default();
            if e.len() < 6 && !e.contains(&text) {
                e.push(text);
            }
        }
        let mut pairs = 0u64;
        for (_, group) in by_len.iter() {
            for a in group {
                for b in group {
                    if a == b {
                        continue;
                    }
                    let (a2, b2) = (a.clone(), b.clone());
                    let fresh = {
                        let b3 = b.clone();
                        std::thread::spawn(move || proto::cur::write_cache_safe(&b3)).join().unwrap_or_default()
                    };
                    let after = std::thread::spawn(move || {
                        let _ = proto::cur::write_cache_safe(&a2);
                        proto::cur::write_cache_safe(&b2)
                    }).join().unwrap_or_default();
                    rep.checks += 1;
                    pairs += 1;
                    if fresh != after {
                        rep.fail(
                            "the cache written for B depends on what the same thread wrote before (A, whose cache has the same length)",
                            vec![format!("MAP {}", hx(a)), "WRITE".into(), format!("MAP {}", hx(b)), "WRITE".into()],
                            format!("first differing byte at {:?}", fresh.iter().zip(after.iter()).position(|(x, y)| x != y)),
                        );
                    } else {
                        rep.nontrivial += 1;
                    }
                }
            }
        }
        rep.stats.insert("equal_length_pairs".into(), pairs);
    }
    rep
}

// ------------------------------------------------------------------ C15: call-indexed sink scripts

#[derive(Clone, Copy, Debug, PartialEq)]
pub enum Act {
    /// accept at most k bytes
    Take(usize),
    Interrupted,
    Fail,
}

pub struct ScriptSink {
    /// default behaviour: accept at most `chunk`
    pub chunk: usize,
    /// special action at one call index
    pub at: Option<(usize, Act)>,
    pub calls: usize,
    pub accepted: Vec<u8>,
    pub failed: bool,
}

impl Write for ScriptSink {
    fn write(&mut self, buf: &[u8]) -> io::Result<usize> {
        let idx = self.calls;
        self.calls += 1;
        let act = match self.at {
            Some((i, a)) if i == idx => a,
            _ => Act::Take(self.chunk),
        };
        if self.accepted.len() > proto::SINK_RUNAWAY_LIMIT {
            self.failed = true;
            return Err(io::Error::new(io::ErrorKind::Other, "runaway writer"));
        }
        match act {
            Act::Take(k) => {
                let n = k.min(buf.len());
                if n == 0 && !buf.is_empty() {
                    self.failed = true; // `Ok(0)` for a non-empty buffer: the sink refuses (write_all => WriteZero)
                }
                self.accepted.extend_from_slice(&buf[..n]);
                Ok(n)
            }
            Act::Interrupted => Err(io::Error::new(io::ErrorKind::Interrupted, "interrupted")),
            Act::Fail => {
                self.failed = true;
                // a different non-retryable kind per call index
                let kinds = [io::ErrorKind::Other, io::ErrorKind::WouldBlock, io::ErrorKind::TimedOut, io::ErrorKind::UnexpectedEof,
                             io::ErrorKind::BrokenPipe, io::ErrorKind::WriteZero, io::ErrorKind::OutOfMemory, io::ErrorKind::InvalidData];
                Err(io::Error::new(kinds[idx % kinds.len()], "sink failure"))
            }
        }
    }
    /// a sink that genuinely gathers: the action's byte budget is spent across the slices in order
    fn write_vectored(&mut self, bufs: &[io::IoSlice<'_>]) -> io::Result<usize> {
        let idx = self.calls;
        self.calls += 1;
        let act = match self.at {
            Some((i, a)) if i == idx => a,
            _ => Act::Take(self.chunk),
        };
        match act {
            Act::Take(k) => {
                let mut left = k;
                let mut total = 0;
                for b in bufs {
                    let n = left.min(b.len());
                    self.accepted.extend_from_slice(&b[..n]);
                    total += n;
                    left -= n;
                    if left == 0 {
                        break;
                    }
                }
                if total == 0 && bufs.iter().any(|b| !b.is_empty()) {
                    self.failed = true;
                }
                Ok(total)
            }
            Act::Interrupted => Err(io::Error::new(io::ErrorKind::Interrupted, "interrupted")),
            Act::Fail => {
                self.failed = true;
                Err(io::Error::new(io::ErrorKind::Other, "sink failure"))
            }
        }
    }
    fn flush(&mut self) -> io::Result<()> {
        Ok(())
    }
}

/// Two different mappings of equal length placed one after the other in the *same* buffer; the
/// first write goes to a failing sink, the second to a healthy one: what was written for B must
/// be B's canonical bytes (nothing may be keyed on the address or length of the source).
fn reused_buffer_sequences(rep: &mut Report, rng: &mut Rng, n: usize) {
    for _ in 0..n {
        let mut cfg = Cfg::domain();
        cfg.max_classes = 3;
        cfg.max_members = 5;
        let a = gen_mapping(rng, &cfg).text;
        if a.is_empty() {
            continue;
        }
        // B: same length, one name byte changed (stays in the grammar: letters only)
        let mut b = a.clone();
        let letters: Vec<usize> = (0..b.len()).filter(|&i| b[i].is_ascii_lowercase()).collect();
        if letters.is_empty() {
            continue;
        }
        let i = letters[rng.below(letters.len())];
        b[i] = if b[i] == b'z' { b'y' } else { b[i] + 1 };
        let canon_a = proto::cur::write_cache_safe(&a);
        let canon_b = proto::cur::write_cache_safe(&b);
        let ops = vec![format!("MAP {}", hx(&a)), format!("MAP {}", hx(&b)), "# sequence: write A into a failing sink, overwrite the same buffer with B, write B".to_string()];
        let mut shared = a.clone();
        for fail_at in [0usize, 1, 2, 5] {
            rep.checks += 1;
            shared.copy_from_slice(&a);
            let r = catch_unwind(AssertUnwindSafe(|| {
                let mut s1 = ScriptSink { chunk: usize::MAX, at: Some((fail_at, Act::Fail)), calls: 0, accepted: vec![], failed: false };
                let r1 = ProguardCache::write(&ProguardMapping::new(&shared), &mut s1);
                (r1.is_ok(), s1.failed, s1.accepted)
            }));
            let Ok((ok1, failed1, acc1)) = r else {
                rep.fail("write panicked", ops.clone(), format!("fail_at={}", fail_at));
                continue;
            };
            if ok1 && failed1 {
                rep.fail("sink failure swallowed: write reported success", ops.clone(), format!("fail_at={}", fail_at));
            }
            if !canon_a.starts_with(&acc1) {
                rep.fail("bytes delivered before the failure are not a prefix of the canonical bytes", ops.clone(), format!("fail_at={}", fail_at));
            }
            shared.copy_from_slice(&b);
            let mut out = Vec::new();
            let r2 = catch_unwind(AssertUnwindSafe(|| ProguardCache::write(&ProguardMapping::new(&shared), &mut out).is_ok()));
            match r2 {
                Ok(true) => {
                    if out != canon_b {
                        rep.fail(
                            "after a failed write of A, writing B from the same buffer reported success but did not deliver B's canonical bytes",
                            ops.clone(),
                            format!("fail_at={} delivered {} bytes (A's cache: {}), canonical {}", fail_at, out.len(), out == canon_a, canon_b.len()),
                        );
                    } else {
                        rep.nontrivial += 1;
                    }
                }
                Ok(false) => rep.fail("write to a Vec failed", ops.clone(), String::new()),
                Err(_) => rep.fail("write panicked", ops.clone(), String::new()),
            }
            // and A again, healthy
            shared.copy_from_slice(&a);
            let mut out = Vec::new();
            let _ = ProguardCache::write(&ProguardMapping::new(&shared), &mut out);
            if out != canon_a {
                rep.fail("writing A again from the same buffer does not deliver A's canonical bytes", ops.clone(), String::new());
            }
        }
        rep.count("reused_buffer_pairs");
    }
}

pub fn oracle_c15(rng: &mut Rng, tier: &str) -> Report {
    let mut rep = Report::new();
    let th = thorough(tier);
    let n = if th { 1600 } else { 160 };
    for i in 0..n {
        let mut cfg = Cfg::domain();
        cfg.max_classes = 3;
        cfg.max_members = 5;
        let text = if i == 1 { crate::gens::threshold_mapping(300) } else if i == 2 { crate::gens::boundary_mapping() }
            else if i % 5 == 4 { gen_mapping(rng, &Cfg::hostile()).text } else { gen_mapping(rng, &cfg).text };
        let canon = proto::cur::write_cache(&text);
        let mapping = ProguardMapping::new(&text);
        let mut scripts: Vec<(usize, Option<(usize, Act)>)> = Vec::new();
        for k in 1..=16 {
            scripts.push((k, None));
        }
        // number of calls with an unlimited sink
        let mut probe = ScriptSink { chunk: usize::MAX, at: None, calls: 0, accepted: vec![], failed: false };
        let _ = ProguardCache::write(&mapping, &mut probe);
        let ncalls = probe.calls;
        for idx in 0..ncalls + 1 {
            for act in [Act::Take(1), Act::Take(3), Act::Take(0), Act::Fail, Act::Interrupted] {
                scripts.push((usize::MAX, Some((idx, act))));
            }
        }
        for chunk in [1usize, 2, 3, 5, 4096, 8191, 8192, 8193] {
            let mut p = ScriptSink { chunk, at: None, calls: 0, accepted: vec![], failed: false };
            let _ = ProguardCache::write(&mapping, &mut p);
            let nc = p.calls;
            let stride = if th { 1 } else { (nc / 40).max(1) };
            let mut idx = 0;
            while idx <= nc {
                scripts.push((chunk, Some((idx, Act::Fail))));
                scripts.push((chunk, Some((idx, Act::Interrupted))));
                idx += stride;
            }
        }
        for (chunk, at) in scripts {
            rep.checks += 1;
            let mut s = ScriptSink { chunk, at, calls: 0, accepted: vec![], failed: false };
            let r = catch_unwind(AssertUnwindSafe(|| ProguardCache::write(&mapping, &mut s)));
            let desc = format!("chunk={} at={:?}", if chunk == usize::MAX { "unlimited".to_string() } else { chunk.to_string() }, at);
            let ops = vec![format!("MAP {}", hx(&text)), format!("# sink script: {}", desc)];
            match r {
                Err(_) => rep.fail("write panicked", ops, desc),
                Ok(Ok(())) => {
                    if s.failed {
                        rep.fail("sink failure swallowed: write reported success", ops, desc);
                    } else if s.accepted != canon {
                        rep.fail(
                            "write reported success but the sink did not receive the canonical bytes",
                            ops,
                            format!("{}: got {} bytes, canonical {}", desc, s.accepted.len(), canon.len()),
                        );
                    } else if at.is_some() || chunk < 16 {
                        rep.nontrivial += 1;
                    }
                }
                Ok(Err(_)) => {
                    if !s.failed {
                        rep.fail("write failed although the sink never failed", ops, desc);
                    } else if !canon.starts_with(&s.accepted) {
                        rep.fail("bytes delivered before the failure are not a prefix of the canonical bytes", ops, desc);
                    } else {
                        rep.nontrivial += 1;
                    }
                }
            }
        }
        if i < 2 {
            rep.sample(format!("mapping {} bytes, cache {} bytes, {} write calls unlimited", text.len(), canon.len(), ncalls));
        }
    }
    reused_buffer_sequences(&mut rep, rng, if th { 400 } else { 60 });
    rep
}

// ------------------------------------------------------------------ C17: round trip

pub fn oracle_c17(rng: &mut Rng, tier: &str) -> Report {
    let mut rep = Report::new();
    let n = if thorough(tier) { 400000 } else { 40000 };
    let u = universe(b"o.A -> a:\n    1:3:void x():1:3 -> m\no.B$C -> a.b$c:\n    void <init>() -> <init>\n");
    let tg = TraceGen { u: &u };
    for i in 0..n {
        let toks = tg.tokens(rng, true);
        let tv: Vec<&str> = toks.split(' ').filter(|s| !s.is_empty()).collect();
        let segs = proto::parse_trace_toks(&tv).unwrap();
        let trace = proto::cur::mk_trace(&segs);
        let printed = trace.to_string();
        rep.checks += 1;
        // Display renders `file: None` as "<unknown>", which parses back as Some("<unknown>"):
        // the generator's canonical traces always carry a file, as the property's domain does.
        match StackTrace::try_parse(printed.as_bytes()) {
            Some(back) => {
                if back != trace {
                    rep.fail("parse(print(t)) != t", vec![format!("DSPS {}", toks), format!("TRC {}", hxs(&printed))], format!("{:?} vs {:?}", trace, back));
                } else if back.to_string() != printed {
                    rep.fail("print(parse(print(t))) != print(t)", vec![format!("DSPS {}", toks)], String::new());
                } else if trace.cause().is_some() || trace.frames().len() > 1 {
                    rep.nontrivial += 1;
                }
            }
            None => rep.fail("printed trace does not parse", vec![format!("DSPS {}", toks), format!("TRC {}", hxs(&printed))], printed.clone()),
        }
        // single frames and throwables
        for (_, frames) in &segs {
            for (c, m, l, f) in frames.iter().take(2) {
                let fr = proto::cur::mk_frame(c, m, *l, f.as_deref(), None);
                let p = fr.to_string();
                rep.checks += 1;
                if StackFrame::try_parse(p.as_bytes()).as_ref() != Some(&fr) {
                    rep.fail("frame round trip", vec![format!("FRM {}", hxs(&p))], format!("{:?}", fr));
                }
            }
        }
        for (exc, _) in &segs {
            if let Some((c, m)) = exc {
                let t = match m {
                    Some(m) => Throwable::with_message(c, m),
                    None => Throwable::new(c),
                };
                let p = t.to_string();
                rep.checks += 1;
                if Throwable::try_parse(p.as_bytes()).as_ref() != Some(&t) {
                    rep.fail("throwable round trip", vec![format!("THW {}", hxs(&p))], format!("{:?}", t));
                }
            }
        }
        // a print into a sink that runs out of room at byte k (every k for short traces), then an
        // ordinary print: the second one is unaffected
        if i % 16 == 0 {
            use std::fmt::Write as _;
            let positions: Vec<usize> = if printed.len() <= 200 { (0..printed.len()).collect() } else { (0..40).map(|_| rng.below(printed.len())).collect() };
            for k in positions {
                rep.checks += 1;
                let mut lim = LimitedFmt { room: k, got: String::new() };
                let r = write!(lim, "{}", trace);
                if r.is_ok() {
                    rep.fail("printing into a full fmt sink reported success", vec![format!("DSPS {}", toks)], format!("room={}", k));
                }
                if !printed.starts_with(&lim.got) {
                    rep.fail("bytes printed before the sink failed are not a prefix of the printed trace", vec![format!("DSPS {}", toks)], format!("room={}", k));
                }
                let again = trace.to_string();
                if again != printed {
                    rep.fail("a print after a failed print differs from the first print", vec![format!("DSPS {}", toks), format!("# sequence: print into a sink with room for {} bytes, then print normally", k)], format!("first={:?} second={:?}", printed, again));
                    break;
                }
                if let Some(f) = trace.frames().first() {
                    let mut lim = LimitedFmt { room: k.min(10), got: String::new() };
                    let _ = write!(lim, "{}", f);
                    let p1 = f.to_string();
                    if StackFrame::try_parse(p1.as_bytes()).as_ref() != Some(f) {
                        rep.fail("frame round trip after a failed print", vec![format!("FRM {}", hxs(&p1))], format!("{:?}", f));
                        break;
                    }
                }
            }
            rep.count("failing_fmt_sink_traces");
        }
        if i < 2 {
            rep.sample(printed);
        }
    }
    rep
}

/// `fmt::Write` sink with room for `room` bytes
struct LimitedFmt {
    room: usize,
    got: String,
}
impl std::fmt::Write for LimitedFmt {
    fn write_str(&mut self, s: &str) -> std::fmt::Result {
        if s.len() <= self.room {
            self.room -= s.len();
            self.got.push_str(s);
            Ok(())
        } else {
            // accept what fits (at a character boundary), then fail
            let mut k = self.room;
            while k > 0 && !s.is_char_boundary(k) {
                k -= 1;
            }
            self.got.push_str(&s[..k]);
            self.room = 0;
            Err(std::fmt::Error)
        }
    }
}

// ------------------------------------------------------------------ C20: Send + Sync, concurrent == sequential

fn assert_send_sync<T: Send + Sync>() {}

#[allow(dead_code)]
fn static_assertions() {
    assert_send_sync::<ProguardMapper<'static>>();
    assert_send_sync::<ProguardCache<'static>>();
    assert_send_sync::<ProguardMapping<'static>>();
    assert_send_sync::<proguard::RemappedFrameIter<'static>>();
    assert_send_sync::<proguard::ProguardRecordIter<'static>>();
    assert_send_sync::<proguard::ProguardRecord<'static>>();
    assert_send_sync::<StackTrace<'static>>();
    assert_send_sync::<StackFrame<'static>>();
    assert_send_sync::<Throwable<'static>>();
    assert_send_sync::<proguard::DeobfuscatedSignature>();
    assert_send_sync::<proguard::CacheError>();
    assert_send_sync::<proguard::CacheErrorKind>();
    assert_send_sync::<proguard::MappingSummary<'static>>();
    assert_send_sync::<proguard::ParseError<'static>>();
    assert_send_sync::<proguard::LineMapping>();
    assert_send_sync::<Result<ProguardCache<'static>, proguard::CacheError>>();
    assert_send_sync::<Option<proguard::DeobfuscatedSignature>>();
    assert_send_sync::<Result<proguard::ProguardRecord<'static>, proguard::ParseError<'static>>>();
    assert_send_sync::<Result<StackTrace<'static>, std::fmt::Error>>();
    fn is_error<T: std::error::Error + Send + Sync + 'static>() {}
    is_error::<proguard::CacheError>();
    is_error::<proguard::ParseError<'static>>();
}

fn val_send_sync<T: Send + Sync>(v: T) -> T {
    v
}

/// the same for every value whose type cannot be named (`impl Trait` returns, items of the debug
/// iterators, display adaptors) and for the results of every public query: never called, only
/// type-checked
#[allow(dead_code, unused_must_use)]
fn static_assertions_by_value(mapper: &ProguardMapper<'static>, cache: &ProguardCache<'static>, mapping: &ProguardMapping<'static>,
                              frame: &StackFrame<'static>, thr: &Throwable<'static>, trace: &StackTrace<'static>,
                              sig: &proguard::DeobfuscatedSignature) {
    let mut it = val_send_sync(sig.parameters_types());
    val_send_sync(it.next());
    val_send_sync(sig.return_type());
    val_send_sync(sig.format_signature());
    let mut it = val_send_sync(cache.debug_classes());
    val_send_sync(it.next());
    let mut it = val_send_sync(cache.debug_members());
    val_send_sync(it.next());
    let mut it = val_send_sync(cache.debug_members_by_params());
    val_send_sync(it.next());
    val_send_sync(cache.display());
    val_send_sync(cache.test());
    let mut it = val_send_sync(cache.remap_frame(frame));
    val_send_sync(it.next());
    let mut it = val_send_sync(mapper.remap_frame(frame));
    val_send_sync(it.next());
    val_send_sync(cache.remap_class("a"));
    val_send_sync(mapper.remap_class("a"));
    val_send_sync(cache.remap_method("a", "b"));
    val_send_sync(mapper.remap_method("a", "b"));
    val_send_sync(cache.remap_throwable(thr));
    val_send_sync(mapper.remap_throwable(thr));
    val_send_sync(cache.remap_stacktrace_typed(trace));
    val_send_sync(mapper.remap_stacktrace_typed(trace));
    val_send_sync(cache.remap_stacktrace("x"));
    val_send_sync(mapper.remap_stacktrace("x"));
    val_send_sync(mapper.deobfuscate_signature("()V"));
    val_send_sync(cache.deobfuscate_signature("()V"));
    let mut it = val_send_sync(mapping.iter());
    val_send_sync(it.next());
    val_send_sync(mapping.summary());
    val_send_sync(mapping.section(0..0));
    val_send_sync(ProguardCache::parse(&[]));
    val_send_sync(StackTrace::try_parse(b""));
    val_send_sync(StackFrame::try_parse(b""));
    val_send_sync(Throwable::try_parse(b""));
    val_send_sync(trace.exception());
    val_send_sync(trace.frames());
    val_send_sync(trace.cause());
    val_send_sync(format!("{}", trace));
}

/// One method name with 10 000 entries whose ranges are NOT ascending (two interleaved runs):
/// answers constructed here, asked from 8 threads sharing one mapper and one cache.
pub fn nonmonotone_expectation(rep: &mut Report) {
    {
        let n = 10_000usize;
        let text = crate::gens::nonmonotone_mapping(n);
        let ms: &'static [u8] = Box::leak(text.into_boxed_slice());
        let mapper = proto::cur::mapper(ms, false);
        let cbytes = proto::aligned_static(&proto::cur::write_cache(ms));
        if let Ok(cache) = ProguardCache::parse(cbytes) {
            let (mapper, cache) = (&mapper, &cache);
            let bad: Vec<String> = std::thread::scope(|sc| {
                let hs: Vec<_> = (0..8usize).map(|t| sc.spawn(move || {
                    let mut bad = Vec::new();
                    let mut l = 1 + t;
                    while l <= n / 2 {
                        let want = vec![("ov0".to_string(), 1000 + l - 1), ("ov1".to_string(), 2000 + l - 1)];
                        let f = StackFrame::new("big", "a", l);
                        let gm: Vec<(String, usize)> = mapper.remap_frame(&f).map(|x| (x.method().to_string(), x.line())).collect();
                        let gc: Vec<(String, usize)> = cache.remap_frame(&f).map(|x| (x.method().to_string(), x.line())).collect();
                        if gm != want || gc != want {
                            bad.push(format!("line {}: mapper {:?} cache {:?} expected {:?}", l, gm, gc, want));
                            if bad.len() > 3 {
                                break;
                            }
                        }
                        l += 8 * 37;
                    }
                    bad
                })).collect();
                hs.into_iter().flat_map(|h| h.join().unwrap_or_default()).collect()
            });
            rep.checks += 1;
            if bad.is_empty() {
                rep.nontrivial += 1;
            } else {
                rep.fail("a method with 10 000 non-ascending line entries is not answered with exactly the entries containing the line",
                         vec![format!("# mapping: class big, {} entries `i:i:void ov0():1000+i-1` then {} entries `i:i:void ov1():2000+i-1`, all -> a", n / 2, n / 2)], bad.join("; "));
            }
        }
    }
}

pub fn oracle_c20(rng: &mut Rng, tier: &str) -> Report {
    let mut rep = Report::new();
    rep.stats.insert("send_sync_types_asserted_at_compile_time".into(), 15);
    nonmonotone_expectation(&mut rep);
    let n = if thorough(tier) { 1600 } else { 160 };
    for i in 0..n {
        let text = if i == 1 { crate::gens::threshold_mapping(130) } else if i == 2 { crate::gens::boundary_mapping() } else { domain_mapping(rng, &Cfg::domain()) };
        let ms: &'static [u8] = Box::leak(text.clone().into_boxed_slice());
        let mapper = proto::cur::mapper(ms, true);
        let cbytes = proto::aligned_static(&proto::cur::write_cache(ms));
        let cache = ProguardCache::parse(cbytes).unwrap();
        let u = universe(&text);
        let mut qs = query_universe(rng, &u, 4);
        if i < 3 {
            // queries whose cost in stack depends on the input: answered alone on the main thread
            // (8 MiB) and then from worker threads (2 MiB default)
            qs.push(Query::Sig(format!("({}I)V", "[".repeat(20_000))));
            qs.push(Query::Sig(format!("({})La;", "La/b;[J".repeat(30_000))));
            let mut deep = String::from("a: top\n");
            for _ in 0..20_000 {
                deep.push_str("Caused by: a: x\n    at a.m(F:1)\n");
            }
            qs.push(Query::Txt(deep));
        }
        let seq_m: Vec<String> = qs.iter().map(|q| q.run(&mapper)).collect();
        let seq_c: Vec<String> = qs.iter().map(|q| q.run(&cache)).collect();
        let nthreads = rng.range(2, 16);
        // random assignment of queries to threads, random order inside each thread
        let mut assign: Vec<Vec<usize>> = vec![Vec::new(); nthreads];
        for qi in 0..qs.len() {
            assign[rng.below(nthreads)].push(qi);
            if rng.pct(30) {
                assign[rng.below(nthreads)].push(qi); // some queries are issued by several threads
            }
        }
        for a in assign.iter_mut() {
            for k in (1..a.len()).rev() {
                let j = rng.below(k + 1);
                a.swap(k, j);
            }
        }
        let barrier = std::sync::Barrier::new(nthreads);
        let yields: Vec<u64> = (0..nthreads).map(|_| rng.next()).collect();
        let results: Vec<Vec<(usize, String, String)>> = std::thread::scope(|s| {
            let mut hs = Vec::new();
            for t in 0..nthreads {
                let (mapper, cache, qs, barrier, mine) = (&mapper, &cache, &qs, &barrier, &assign[t]);
                let mut y = yields[t];
                hs.push(s.spawn(move || {
                    barrier.wait();
                    let mut out = Vec::new();
                    for &qi in mine {
                        y = y.wrapping_mul(6364136223846793005).wrapping_add(1442695040888963407);
                        if (y >> 60) < 4 {
                            std::thread::yield_now();
                        }
                        out.push((qi, qs[qi].run(mapper), qs[qi].run(cache)));
                    }
                    out
                }));
            }
            hs.into_iter().map(|h| h.join().unwrap()).collect()
        });
        for (t, rs) in results.iter().enumerate() {
            for (qi, am, ac) in rs {
                rep.checks += 1;
                if am != "[]" && am != "-" {
                    rep.nontrivial += 1;
                }
                if *am != seq_m[*qi] || *ac != seq_c[*qi] {
                    rep.fail(
                        "answer under concurrency differs from the sequential answer",
                        vec![format!("MAP {}", hx(&text)), qs[*qi].op(false)],
                        format!("thread {} of {}: mapper {} vs {}, cache {} vs {}", t, nthreads, am, seq_m[*qi], ac, seq_c[*qi]),
                    );
                }
            }
        }
        if i < 2 {
            rep.sample(format!("{} queries over {} threads", qs.len(), nthreads));
        }
    }
    rep
}

pub fn run_oracle(prop: &str, tier: &str, seed: u64) -> Option<Report> {
    let mut rng = Rng::new(seed.wrapping_mul(7919).wrapping_add(prop.bytes().fold(7u64, |a, b| a * 131 + b as u64)));
    Some(match prop {
        "C01" => oracle_c01(&mut rng, tier),
        "C02" => oracle_c02(&mut rng, tier),
        "C03" => oracle_c02(&mut rng, tier),
        "C06" => oracle_c06(&mut rng, tier),
        "C07" => oracle_c07(&mut rng, tier),
        "C04" => oracle_c02(&mut rng, tier), // the size cases (65 537 entries under one name, late classes, > 2^16 classes)
        "C08" => oracle_c08(&mut rng, tier),
        "C13" => {
            let mut rep = Report::new();
            deep_chain_oracle(&mut rep, if thorough(tier) { &[300_000, 1_000_000] } else { &[300_000] }, true);
            rep
        }
        "C10" => oracle_c10(&mut rng, tier),
        "C11" => oracle_c11(&mut rng, tier),
        "C12" => oracle_c12(&mut rng, tier),
        "C14" => oracle_c14(seed, tier),
        "C18" => oracle_c18(tier),
        "C15" => oracle_c15(&mut rng, tier),
        "C17" => oracle_c17(&mut rng, tier),
        "C20" => oracle_c20(&mut rng, tier),
        _ => return None,
    })
}
