//! pgh — correspondence harness for getsentry/rust-proguard (see /verif/DESIGN.md).
//!
//!   pgh gen <PROP> <tier> <seed> <out>      write tagged protocol cases
//!   pgh run <cases> <out>                   execute protocol cases on the real crate
//!   pgh oracle <PROP> <tier> <seed>         direct property oracle on the implementation (JSON)
//!   pgh c14hashes <tier> <seed>             (internal) per-mapping cache hashes in a fresh process

mod genmap;
mod gens;
mod oracles;
mod proto;
mod rng;

use std::io::{BufRead, BufWriter, Write};

fn main() {
    // panics inside the crate are caught per operation; keep stderr quiet
    if std::env::var("PGH_VERBOSE_PANIC").is_err() {
        std::panic::set_hook(Box::new(|_| {}));
    }
    let args: Vec<String> = std::env::args().collect();
    let usage = || {
        eprintln!("usage: pgh gen|run|oracle|c14hashes ...");
        std::process::exit(2);
    };
    if args.len() < 2 {
        usage();
    }
    match args[1].as_str() {
        "gen" if args.len() == 6 => {
            let seed: u64 = args[4].parse().unwrap_or(0);
            let Some(out) = gens::generate(&args[2], &args[3], seed) else {
                eprintln!("unknown property {}", args[2]);
                std::process::exit(2);
            };
            let f = std::fs::File::create(&args[5]).expect("create output");
            let mut w = BufWriter::new(f);
            for l in &out.lines {
                w.write_all(l.as_bytes()).unwrap();
                w.write_all(b"\n").unwrap();
            }
            w.flush().unwrap();
            let stats: Vec<String> = out.stats.iter().map(|(k, v)| format!("\"{}\":{}", oracles::json_escape(k), v)).collect();
            println!("{{\"lines\":{},\"stats\":{{{}}}}}", out.lines.len(), stats.join(","));
        }
        "run" if args.len() == 4 => {
            let f = std::fs::File::open(&args[2]).expect("open cases");
            let o = std::fs::File::create(&args[3]).expect("create output");
            let mut w = BufWriter::new(o);
            let mut st = proto::State::new();
            // after a crash the driver re-runs with PGH_FLUSH=1 to see how far execution got
            let flush_each = std::env::var("PGH_FLUSH").is_ok();
            for line in std::io::BufReader::new(f).lines() {
                let line = line.unwrap();
                let ans = st.step_safe(&line);
                w.write_all(ans.as_bytes()).unwrap();
                w.write_all(b"\n").unwrap();
                if flush_each {
                    w.flush().unwrap();
                }
            }
            w.flush().unwrap();
        }
        "oracle" if args.len() == 5 => {
            let seed: u64 = args[4].parse().unwrap_or(0);
            match oracles::run_oracle(&args[2], &args[3], seed) {
                Some(rep) => println!("{}", rep.to_json(&args[2])),
                None => println!("{{\"property\":\"{}\",\"checks\":0,\"nontrivial\":0,\"failures\":[],\"stats\":{{}},\"samples\":[],\"none\":true}}", args[2]),
            }
        }
        // pgh unaligned <hexfile> <shift>: parse the buffer at an address = shift (mod 8) and print it
        "unaligned" if args.len() == 4 => {
            let hex = std::fs::read_to_string(&args[2]).expect("read hex");
            let b = proto::unhex(hex.trim()).expect("hex");
            let shift: usize = args[3].parse().expect("shift");
            let store: &'static mut [u64] = Box::leak(vec![0u64; (b.len() + 7) / 8 + 2].into_boxed_slice());
            let base = store.as_mut_ptr() as *mut u8;
            let p: &'static [u8] = unsafe {
                std::ptr::copy_nonoverlapping(b.as_ptr(), base.add(shift), b.len());
                std::slice::from_raw_parts(base.add(shift) as *const u8, b.len())
            };
            match proguard::ProguardCache::parse(p) {
                Ok(c) => {
                    println!("accepted");
                    println!("{:?}", c);
                    println!("{}", c.display());
                }
                Err(e) => println!("rejected: {}", e),
            }
        }
        "deepprobe" => {
            println!("{}", oracles::deep_probe().to_json("deepprobe"));
        }
        "rejectprobe" if args.len() == 3 => {
            oracles::reject_probe(args[2].parse().unwrap_or(0));
        }
        "dropprobe" if args.len() == 3 => {
            oracles::drop_probe(args[2].parse().unwrap_or(0));
        }
        "c14hashes" if args.len() == 4 => {
            let seed: u64 = args[3].parse().unwrap_or(0);
            for (h, l) in oracles::c14_hashes(seed, &args[2]) {
                println!("{} {}", h, l);
            }
        }
        _ => usage(),
    }
}
