/-
  pgmodel — line-protocol driver for the executable model (see DESIGN.md §2).
  One operation per input line, one answer line per operation.  Imports only the
  import-free model, so it links as a native executable.
-/
import PG.Model.Basic
import PG.Model.Parser
import PG.Model.Mapper
import PG.Model.Trace
import PG.Model.Java
import PG.Model.CacheWrite
import PG.Model.CacheRead
import PG.Model.Pinned
import PG.Model.Meta
import PG.Model.Sha1
import PG.Model.Debug
import PG.Spec.Format
open PG

/-! ### rendering -/

def hexOfBytes (b : Bytes) : String :=
  String.ofList (b.foldr (fun x acc => hexDigit (x.toNat / 16) :: hexDigit (x.toNat % 16) :: acc) [])

def hx (b : Bytes) : String := "x" ++ hexOfBytes b

def optS {α : Type} (f : α → String) : Option α → String
  | none => "-"
  | some a => f a

def joinWith (sep : String) : List String → String
  | [] => ""
  | [x] => x
  | x :: xs => x ++ sep ++ joinWith sep xs

def rFrame (f : Frame) : String :=
  "F(" ++ hx f.cls ++ "," ++ hx f.method ++ "," ++ toString f.line ++ "," ++ optS hx f.file ++ ","
    ++ optS hx f.params ++ ")"

def rFrames (fs : List Frame) : String := "[" ++ joinWith ";" (fs.map rFrame) ++ "]"

def rThrowable (t : Throwable) : String := "T(" ++ hx t.cls ++ "," ++ optS hx t.message ++ ")"

def rSeg (s : Seg) : String := "S(" ++ optS rThrowable s.exception ++ "," ++ rFrames s.frames ++ ")"

def rTrace (t : Trace) : String := "TR(" ++ joinWith "|" ((t.top :: t.causes).map rSeg) ++ ")"

def rTraceP (t : Trace) : String := rTrace t ++ "/" ++ hx (printTrace t)

def rLm : Option LineMapping → String
  | none => "-"
  | some l => toString l.startline ++ ":" ++ toString l.endline ++ ":" ++
      optS toString l.originalStartline ++ ":" ++ optS toString l.originalEndline

def rItem : Item → String
  | .ok (.header k v) => "H(" ++ hx k ++ "," ++ optS hx v ++ ")"
  | .ok (.cls o b) => "C(" ++ hx o ++ "," ++ hx b ++ ")"
  | .ok (.field ty o b) => "D(" ++ hx ty ++ "," ++ hx o ++ "," ++ hx b ++ ")"
  | .ok (.method ty o b a c lm) =>
    "M(" ++ hx ty ++ "," ++ hx o ++ "," ++ hx b ++ "," ++ hx a ++ "," ++ optS hx c ++ "," ++ rLm lm ++ ")"
  | .err l => "E(" ++ hx l ++ ")"

def rPair (p : Bytes × Bytes) : String := "(" ++ hx p.1 ++ "," ++ hx p.2 ++ ")"

def rSig (r : Option (List Bytes × Bytes)) : String :=
  match r with
  | none => "-"
  | some (ps, ret) =>
    "SG([" ++ joinWith ";" (ps.map hx) ++ "]," ++ hx ret ++ "," ++ hx (formatSignature ps ret) ++ ")"

def rErr : CacheErr → String
  | .wrongEndianness => "ERR WrongEndianness"
  | .wrongFormat => "ERR WrongFormat"
  | .wrongVersion => "ERR WrongVersion"
  | .invalidHeader => "ERR InvalidHeader"
  | .invalidClasses => "ERR InvalidClasses"
  | .invalidMembers => "ERR InvalidMembers"
  | .unexpectedStringBytes e f => "ERR UnexpectedStringBytes " ++ toString e ++ " " ++ toString f

/-! ### decoding the request -/

def hexValB (c : UInt8) : Option Nat :=
  if 48 ≤ c && c ≤ 57 then some (c.toNat - 48)
  else if 97 ≤ c && c ≤ 102 then some (c.toNat - 87)
  else none

/-- decode `x<hex>` -/
def unhex (s : String) : Option Bytes :=
  let b := s.toUTF8
  if b.size == 0 || b[0]! != 120 || b.size % 2 == 0 then none
  else Id.run do
    let mut out : Array UInt8 := Array.mkEmpty (b.size / 2)
    let mut i := 1
    let mut ok := true
    while i + 1 < b.size + 0 && ok do
      match hexValB b[i]!, hexValB b[i+1]! with
      | some h, some l => out := out.push (UInt8.ofNat (h * 16 + l)); i := i + 2
      | _, _ => ok := false
    if ok then some out.toList else none

def unhexOpt (s : String) : Option (Option Bytes) :=
  if s == "-" then some none else (unhex s).map some

/-- trace tokens: (`E c m` | `N`) (`F c m l f`)* (`C` (`E c m` | `N`) (`F …`)*)* -/
partial def parseSegs (toks : List String) (acc : List Seg) (cur : Option Seg) : Option (List Seg) :=
  match toks with
  | [] => match cur with
    | some s => some (acc ++ [s])
    | none => none
  | "N" :: rest =>
    match cur with
    | none => parseSegs rest acc (some ⟨none, []⟩)
    | some _ => none
  | "E" :: c :: m :: rest =>
    match cur, unhex c, unhexOpt m with
    | none, some c, some m => parseSegs rest acc (some ⟨some ⟨c, m⟩, []⟩)
    | _, _, _ => none
  | "F" :: c :: m :: l :: f :: rest =>
    match cur, unhex c, unhex m, l.toNat?, unhexOpt f with
    | some s, some c, some m, some l, some f =>
      parseSegs rest acc (some { s with frames := s.frames ++ [⟨c, m, l, f, none⟩] })
    | _, _, _, _, _ => none
  | "C" :: rest =>
    match cur with
    | some s => parseSegs rest (acc ++ [s]) none
    | none => none
  | _ => none

def parseTraceToks (toks : List String) : Option Trace :=
  match parseSegs toks [] none with
  | some (top :: causes) => some ⟨top, causes⟩
  | _ => none

/-! ### state -/

structure St where
  src : Bytes
  recs : Thunk (List Item)
  m0 : Thunk Mapper
  m1 : Thunk Mapper
  written : Thunk Bytes
  wcache : Thunk (Except CacheErr Cache)
  buf : Except CacheErr Cache

def St.ofMapping (bs : Bytes) (old : St) : St :=
  let recs : Thunk (List Item) := Thunk.mk fun _ => records bs
  let ok : Thunk (List Record) := Thunk.mk fun _ => okRecs recs.get
  let written : Thunk Bytes := Thunk.mk fun _ => Cache.write ok.get
  { src := bs,
    recs := recs,
    m0 := Thunk.mk fun _ => Mapper.build ok.get false,
    m1 := Thunk.mk fun _ => Mapper.build ok.get true,
    written := written,
    wcache := Thunk.mk fun _ => Cache.parse written.get,
    buf := old.buf }

def St.init : St := St.ofMapping [] ⟨[], Thunk.pure [], Thunk.pure ⟨[]⟩, Thunk.pure ⟨[]⟩, Thunk.pure [],
  Thunk.pure (.error .invalidHeader), .error .invalidHeader⟩

/-- answer of mapper(pm=0), mapper(pm=1), cache-of-written-bytes -/
def three (st : St) (fm : Mapper → String) (fc : Cache → String) : String :=
  "m0=" ++ fm st.m0.get ++ " m1=" ++ fm st.m1.get ++ " c=" ++
    (match st.wcache.get with
     | .ok c => fc c
     | .error _ => "noparse")

def onBuf (st : St) (fc : Cache → String) : String :=
  match st.buf with
  | .ok c => fc c
  | .error _ => "noparse"

def typedAns (rc : Bytes → Option Bytes) (rf : Frame → List Frame) (t : Trace) : String :=
  rTraceP (remapTyped rc rf t)

/-- position-based sink policy: accept at most `k` bytes per call and never beyond position
    `n`; once `n` bytes are in, fail (or, `zeroWhenFull`, accept 0 bytes like `&mut [u8]`); every `j`-th call (1-based, `j ≥ 2`) is `Interrupted`.
    State: (calls so far, bytes accepted so far). -/
def policySink (k : Nat) (n : Option Nat) (j : Option Nat) (zeroWhenFull : Bool := false)
    (s : Nat × Nat) (_len : Nat) : Resp × (Nat × Nat) :=
  let calls := s.1 + 1
  let intr := match j with
    | some j => j ≥ 2 && calls % j == 0
    | none => false
  if intr then (.interrupted, (calls, s.2))
  else match n with
    | some n =>
      if s.2 ≥ n then ((if zeroWhenFull then .accept 0 else .fail), (calls, s.2))
      else
        let take := min (min k _len) (n - s.2)
        (.accept take, (calls, s.2 + take))
    | none => let take := min k _len; (.accept take, (calls, s.2 + take))

def rWriteResult : WriteResult → String
  | .ok => "ok"
  | .writeZero => "writezero"
  | .failed => "failed"
  | .outOfFuel => "outoffuel"

def natOpt (s : String) : Option (Option Nat) :=
  if s == "-" then some none else s.toNat?.map some

/-! ### the mirrored library functions, applied directly (`LIB` ops) -/

def rOrd : Ordering → String
  | .lt => "L"
  | .eq => "E"
  | .gt => "G"

def rPairOpt : Option (Bytes × Bytes) → String
  | none => "-"
  | some (a, b) => "(" ++ hx a ++ "," ++ hx b ++ ")"

def libOp (f : String) (a : List String) : Option String :=
  match f, a with
  | "utf8", [x] => (unhex x).map fun b => if validUtf8 b then "1" else "0"
  | "trim", [x] =>
    match unhex x with
    | some b => if validUtf8 b then some (hx (trim b) ++ " " ++ hx (trimStart b) ++ " " ++ hx (trimEnd b)) else none
    | none => none
  | "lines", [x] =>
    match unhex x with
    | some b => if validUtf8 b then some ("[" ++ joinWith ";" ((strLines b).map hx) ++ "]") else none
    | none => none
  | "num", [x] =>
    match unhex x with
    | some b =>
      if validUtf8 b then
        some (optS toString (parseUnsignedStr usizeBound b) ++ " " ++ optS toString (parseUnsignedStr u32Bound b))
      else none
    | none => none
  | "dec", [n] => n.toNat?.bind fun n => if n < usizeBound then some (hx (natToDec n)) else none
  | "cmp", [x, y] =>
    match unhex x, unhex y with
    | some bx, some by' =>
      if validUtf8 bx && validUtf8 by' then
        some (rOrd (cmpBytes bx by') ++ " " ++ rOrd (cmpPair (bx, [107]) (by', [106])))
      else none
    | _, _ => none
  | "split", [x, c] =>
    match unhex x, unhex c with
    | some b, some [c] =>
      if validUtf8 b && c < 128 then
        some (rPairOpt (splitOnce c b) ++ " " ++ rPairOpt (rsplitOnce c b) ++ " " ++ rPairOpt (splitColonSpace b))
      else none
    | _, _ => none
  | "bs", [pat] =>
    let cs := pat.toList.filter (· != '.')
    if cs.all (fun c => c == 'L' || c == 'E' || c == 'G') then
      let p : List Ordering := cs.map fun c => if c == 'L' then .lt else if c == 'E' then .eq else .gt
      some (match binarySearch p.length (fun i => (p[i]?).getD .gt) with
        | .ok i => "ok " ++ toString i
        | .error i => "err " ++ toString i)
    else none
  | "leb", [x] =>
    (unhex x).map fun b =>
      match lebRead 0 0 b with
      | some (v, rest) => toString v ++ " " ++ toString (b.length - rest.length)
      | none => "-"
  | "lebw", [n] => n.toNat?.bind fun n => if n < usizeBound then some (hx (lebWrite n)) else none
  | "strtab", strs =>
    match strs.mapM unhex with
    | some bs =>
      if bs.all validUtf8 then
        let (t, offs) := bs.foldl (fun (acc : StrTab × List Nat) s =>
          let (t', o) := acc.1.insert s
          (t', acc.2 ++ [o])) (StrTab.empty, [])
        some ("[" ++ joinWith "," (offs.map toString) ++ "] " ++ hx t.bytes)
      else none
    | none => none
  | "strread", [x, off] =>
    match unhex x, off.toNat? with
    | some b, some off => some (optS hx (readString b off))
    | _, _ => none
  | _, _ => none

/-! ### one operation -/

def rMeta (bs : Bytes) : String :=
  let s := summary bs
  "hli=" ++ (if hasLineInfo bs then "1" else "0") ++ " valid=" ++ (if isValid bs then "1" else "0")
    ++ " comp=" ++ optS hx s.compiler ++ " ver=" ++ optS hx s.compilerVersion ++ " api="
    ++ optS toString s.minApi ++ " cc=" ++ toString s.classCount ++ " mc=" ++ toString s.methodCount

def step (st : St) (line : String) : St × String :=
  let toks := line.splitOn " "
  let bad := (st, "bad-op")
  match toks with
  | ["MAP", h] =>
    match unhex h with
    | some bs => (St.ofMapping bs st, "ok")
    | none => bad
  | ["REC"] => (st, "R:" ++ joinWith ";" (st.recs.get.map rItem))
  | ["TRY", h] =>
    match unhex h with
    | some bs => (st, rItem (tryParse bs))
    | none => bad
  | ["META", h] =>
    match unhex h with
    | some bs => (st, rMeta bs)
    | none => bad
  | ["SECT", a, b] =>
    match a.toNat?, b.toNat? with
    | some a, some b =>
      if a ≤ b && b ≤ st.src.length then
        let bs := sectionOf st.src a b
        (st, rMeta bs ++ " uuid=" ++ hexOfBytes (mappingUuid bs) ++ " rc=" ++ toString (records bs).length)
      else bad
    | _, _ => bad
  | ["SF", c, m, l, f, p] =>
    match unhex c, unhex m, l.toNat?, unhexOpt f, unhexOpt p with
    | some c, some m, some l, some f, some p =>
      let fr : Frame := match p with
        | some p => ⟨c, m, 0, none, some p⟩          -- `StackFrame::with_parameters`
        | none => ⟨c, m, l, f, none⟩                 -- `with_file` / `new`
      (st, rFrame fr ++ "/" ++ hx (printFrame fr) ++ "/" ++ hx (fullMethod fr.cls fr.method))
    | _, _, _, _, _ => bad
  | ["DBG"] =>
    match st.wcache.get with
    | .error _ => (st, "noparse")
    | .ok k =>
      match k.display with
      | none => (st, "PANIC-IN-MODEL")
      | some shown =>
        let dbg := "ProguardCache { version: " ++ toString cacheVersion ++ ", classes: " ++ toString k.numClasses
          ++ ", members: " ++ toString k.numMembers ++ ", members_by_params: " ++ toString k.numBp
          ++ ", string_bytes: " ++ toString k.stringBytesDeclared ++ " }"
        (st, hx shown ++ " " ++ hx dbg.toUTF8.toList ++ " " ++ toString k.classes.length ++ " "
          ++ toString k.members.length ++ " " ++ toString k.byParams.length)
  | ["FULL", c, m] =>
    match unhex c, unhex m with
    | some c, some m => (st, hx (fullMethod c m))
    | _, _ => bad
  | ["WRITE"] => (st, hx st.written.get)
  | ["CLS", c] =>
    match unhex c with
    | some c => (st, three st (fun m => optS hx (m.remapClass c)) (fun k => optS hx (k.remapClass c)))
    | none => bad
  | ["MTH", c, m] =>
    match unhex c, unhex m with
    | some c, some m =>
      (st, three st (fun mp => optS rPair (mp.remapMethod c m)) (fun k => optS rPair (k.remapMethod c m)))
    | _, _ => bad
  | ["FRL", c, m, l, f] =>
    match unhex c, unhex m, l.toNat?, unhexOpt f with
    | some c, some m, some l, some f =>
      let fr : Frame := ⟨c, m, l, f, none⟩
      (st, three st (fun mp => rFrames (mp.remapFrame fr)) (fun k => rFrames (k.remapFrame fr)))
    | _, _, _, _ => bad
  | ["FRP", c, m, p] =>
    match unhex c, unhex m, unhex p with
    | some c, some m, some p =>
      let fr : Frame := ⟨c, m, 0, none, some p⟩
      (st, three st (fun mp => rFrames (mp.remapFrame fr)) (fun k => rFrames (k.remapFrame fr)))
    | _, _, _ => bad
  | ["THR", c, m] =>
    match unhex c, unhexOpt m with
    | some c, some m =>
      let t : Throwable := ⟨c, m⟩
      (st, three st (fun mp => optS rThrowable (remapThrowableWith mp.remapClass t))
                    (fun k => optS rThrowable (remapThrowableWith k.remapClass t)))
    | _, _ => bad
  | ["TXT", t] =>
    match unhex t with
    | some t => (st, three st (fun mp => hx (remapText mp.remapClass mp.remapFrame t))
                              (fun k => hx (remapText k.remapClass k.remapFrame t)))
    | none => bad
  | ["TYP", t] =>
    match unhex t with
    | some t =>
      match parseTrace t with
      | none => (st, "-")
      | some tr => (st, three st (fun mp => typedAns mp.remapClass mp.remapFrame tr)
                                 (fun k => typedAns k.remapClass k.remapFrame tr))
    | none => bad
  | "TYPS" :: toks =>
    match parseTraceToks toks with
    | some tr => (st, three st (fun mp => typedAns mp.remapClass mp.remapFrame tr)
                               (fun k => typedAns k.remapClass k.remapFrame tr))
    | none => bad
  | ["SIG", s] =>
    match unhex s with
    | some s => (st, three st (fun mp => rSig (deobfuscateSignature mp.remapClass s))
                              (fun k => rSig (deobfuscateSignature k.remapClass s)))
    | none => bad
  | ["BUF", h] =>
    match unhex h with
    | some bs =>
      let r := Cache.parse bs
      ({ st with buf := r },
        match r with
        | .ok c => "ok " ++ toString c.numClasses ++ " " ++ toString c.numMembers ++ " " ++
            toString c.numBp ++ " " ++ toString c.stringBytesDeclared
        | .error e => rErr e)
    | none => bad
  | ["BUFA", a, h] =>
    match a.toNat?, unhex h with
    | some a, some bs =>
      let r := Cache.parseAt a bs
      ({ st with buf := r },
        match r with
        | .ok c => "ok " ++ toString c.numClasses ++ " " ++ toString c.numMembers ++ " " ++
            toString c.numBp ++ " " ++ toString c.stringBytesDeclared
        | .error e => rErr e)
    | _, _ => bad
  | ["BCLS", c] =>
    match unhex c with
    | some c => (st, onBuf st (fun k => optS hx (k.remapClass c)))
    | none => bad
  | ["BMTH", c, m] =>
    match unhex c, unhex m with
    | some c, some m => (st, onBuf st (fun k => optS rPair (k.remapMethod c m)))
    | _, _ => bad
  | ["BFRL", c, m, l, f] =>
    match unhex c, unhex m, l.toNat?, unhexOpt f with
    | some c, some m, some l, some f => (st, onBuf st (fun k => rFrames (k.remapFrame ⟨c, m, l, f, none⟩)))
    | _, _, _, _ => bad
  | ["PFRL", c, m, l, f] =>
    match unhex c, unhex m, l.toNat?, unhexOpt f with
    | some c, some m, some l, some f =>
      (st, onBuf st (fun k => match Pinned.remapFrame k ⟨c, m, l, f, none⟩ with
                              | some fs => rFrames fs
                              | none => "FAULT"))
    | _, _, _, _ => bad
  | ["BFRP", c, m, p] =>
    match unhex c, unhex m, unhex p with
    | some c, some m, some p => (st, onBuf st (fun k => rFrames (k.remapFrame ⟨c, m, 0, none, some p⟩)))
    | _, _, _ => bad
  | ["BTHR", c, m] =>
    match unhex c, unhexOpt m with
    | some c, some m => (st, onBuf st (fun k => optS rThrowable (remapThrowableWith k.remapClass ⟨c, m⟩)))
    | _, _ => bad
  | ["BTXT", t] =>
    match unhex t with
    | some t => (st, onBuf st (fun k => hx (remapText k.remapClass k.remapFrame t)))
    | none => bad
  | ["BTYP", t] =>
    match unhex t with
    | some t =>
      match parseTrace t with
      | none => (st, "-")
      | some tr => (st, onBuf st (fun k => typedAns k.remapClass k.remapFrame tr))
    | none => bad
  | ["BSIG", s] =>
    match unhex s with
    | some s => (st, onBuf st (fun k => rSig (deobfuscateSignature k.remapClass s)))
    | none => bad
  | ["BTEST"] => (st, onBuf st (fun k => if k.selfTest then "ok" else "FAIL"))
  | ["SINK", k, n, j] =>
    match k.toNat?, natOpt n, natOpt j with
    | some k, some n, some j =>
      let recs := okRecs st.recs.get
      let total := (Cache.write recs).length
      let r := Cache.writeTo (policySink k n j false) (2 * total + 64) (0, 0) recs
      (st, rWriteResult r.result ++ " " ++ hx r.accepted)
    | _, _, _ => bad
  | ["SINKZ", k, n, j] =>
    match k.toNat?, natOpt n, natOpt j with
    | some k, some n, some j =>
      let recs := okRecs st.recs.get
      let total := (Cache.write recs).length
      let r := Cache.writeTo (policySink k n j true) (2 * total + 64) (0, 0) recs
      (st, rWriteResult r.result ++ " " ++ hx r.accepted)
    | _, _, _ => bad
  | ["TRC", t] =>
    match unhex t with
    | some t => (st, if validUtf8 t then optS rTraceP (parseTrace t) else "-")
    | none => bad
  | ["FRM", l] =>
    match unhex l with
    | some l => (st, if validUtf8 l then optS (fun f => rFrame f ++ "/" ++ hx (printFrame f)) (parseFrame l) else "-")
    | none => bad
  | ["THW", l] =>
    match unhex l with
    | some l => (st, if validUtf8 l then optS (fun t => rThrowable t ++ "/" ++ hx (printThrowable t)) (parseThrowable l) else "-")
    | none => bad
  | "DSPS" :: toks =>
    match parseTraceToks toks with
    | some tr => (st, hx (printTrace tr))
    | none => bad
  | ["DSPF", c, m, l, f] =>
    match unhex c, unhex m, l.toNat?, unhexOpt f with
    | some c, some m, some l, some f => (st, hx (printFrame ⟨c, m, l, f, none⟩))
    | _, _, _, _ => bad
  | ["DSPT", c, m] =>
    match unhex c, unhexOpt m with
    | some c, some m => (st, hx (printThrowable ⟨c, m⟩))
    | _, _ => bad
  | "LIB" :: f :: rest => (st, (libOp f rest).getD "bad-op")
  | ["FMT", h] =>
    match unhex h with
    | some bs => (st, Format.check bs)
    | none => bad
  | ["UUID", h] =>
    match unhex h with
    | some bs => (st, hexOfBytes (mappingUuid bs))
    | none => bad
  | _ => bad

partial def loop (hin : IO.FS.Stream) (hout : IO.FS.Stream) (st : St) : IO Unit := do
  let line ← hin.getLine
  if line.isEmpty then return ()
  let line := if line.back == '\n' then (line.dropEnd 1).toString else line
  let (st', out) := step st line
  hout.putStrLn out
  loop hin hout st'

def main : IO Unit := do
  let hin ← IO.getStdin
  let hout ← IO.getStdout
  loop hin hout St.init
  hout.flush
