/-
  C04 — class lookup is exact and method lookup never guesses when ambiguous (mapper side;
  the cache side follows through C02).
-/
import PG.Spec.Retrace
import PG.Lemmas.ListBasics
import PG.Lemmas.MapperInv
namespace PG

/-- the original name from the last class line with exactly that obfuscated name, and nothing
    for any other string -/
theorem C04_class (recs : List Record) (pm : Bool) (c : Bytes) :
    (Mapper.build recs pm).remapClass c = SpecR.classOf recs c :=
  remapClass_spec recs pm c

theorem C04_method (recs : List Record) (pm : Bool) (c m : Bytes) :
    (Mapper.build recs pm).remapMethod c m = SpecR.methodOf recs c m :=
  remapMethod_spec recs pm c m

/-- whenever method lookup answers, every frame produced by line-based remapping of that class
    and method carries that same method name (and the answered class is the class's original
    name) -/
theorem C04_method_frames (recs : List Record) (pm : Bool) (c m co mo : Bytes) (line : Nat)
    (file : Option Bytes) (h : (Mapper.build recs pm).remapMethod c m = some (co, mo)) :
    ∀ fr ∈ (Mapper.build recs pm).remapFrame ⟨c, m, line, file, none⟩, fr.method = mo := by
  rw [remapMethod_spec] at h
  rw [remapFrame_line recs pm _ rfl]
  unfold SpecR.methodOf at h
  unfold SpecR.framesByLine
  simp only
  cases hl : SpecR.lastBlock recs c with
  | none => simp [hl] at h
  | some b =>
    simp only [hl] at h
    simp only
    cases hf : b.entries.filter (fun e => e.obf == m) with
    | nil => simp [hf] at h
    | cons e rest =>
      simp only [hf] at h
      by_cases ha : (rest.all fun x => x.name == e.name) = true
      · simp only [ha, if_true, Option.some.injEq, Prod.mk.injEq] at h
        obtain ⟨_, hmo⟩ := h
        intro fr hfr
        rw [List.mem_map] at hfr
        obtain ⟨x, hx, rfl⟩ := hfr
        have hx' := (List.mem_filter.mp hx).1
        simp only
        rw [List.mem_cons] at hx'
        cases hx' with
        | inl hx' => rw [hx']; exact hmo
        | inr hx' =>
          rw [List.all_eq_true] at ha
          have := ha x hx'
          rw [beq_iff_eq] at this
          rw [this]; exact hmo
      · simp [ha] at h

end PG
