/-
  C03 — parameter-based retrace, for both the mapper built with the parameter index
  (PG/Props/C03m.lean, all record lists) and the cache reader (through C02).
-/
import PG.Props.C01
namespace PG

theorem C03_cache (recs : List Record) (hr : ReprR recs) (hs : (Tables.build recs).Small)
    (c : Cache) (hc : Cache.parse (Cache.write recs) = .ok c) (q : Frame) (p : Bytes)
    (hq : q.params = some p) : c.remapFrame q = SpecR.framesByParams recs q p := by
  rw [C02_frame_params recs hr hs c hc q p hq, C03_mapper recs q p hq]

/-- at the level of mapping bytes printed from the grammar: parameter-based retrace of the
    mapper (built with the parameter index) is the specification applied to the printed lines,
    whatever the line terminators -/
theorem C03_file (ls : List (Line × Bytes)) (q : Frame) (p : Bytes) (hq : q.params = some p)
    (h : ∀ x ∈ ls, x.1.WF ∧ x.2 ≠ [] ∧ ∀ b ∈ x.2, isNewline b = true) :
    (Mapper.ofBytes ((ls.map (fun x => x.1.print ++ x.2)).flatten) true).remapFrame q =
      SpecR.framesByParams (ls.map (fun x => x.1.toRecord)) q p := by
  unfold Mapper.ofBytes
  rw [okRecs_printed ls h]
  exact C03_mapper _ q p hq

end PG
