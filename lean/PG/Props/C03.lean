/-
  C03 — parameter-based retrace, for both the mapper built with the parameter index
  (PG/Props/C03m.lean, all record lists) and the cache reader (through C02).
-/
import PG.Props.C02
namespace PG

theorem C03_cache (recs : List Record) (hr : ReprR recs) (hs : (Tables.build recs).Small)
    (c : Cache) (hc : Cache.parse (Cache.write recs) = .ok c) (q : Frame) (p : Bytes)
    (hq : q.params = some p) : c.remapFrame q = SpecR.framesByParams recs q p := by
  rw [C02_frame_params recs hr hs c hc q p hq, C03_mapper recs q p hq]

end PG
