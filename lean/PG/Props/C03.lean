/-
  C03 — parameter-based retrace returns the distinct real methods matching name and args
  (in-memory mapper built with the parameter index; cache ≡ mapper is C02).
-/
import PG.Spec.Retrace
import PG.Lemmas.ListBasics
namespace PG

theorem C03_mapper (recs : List Record) (q : Frame) (p : Bytes) (hq : q.params = some p) :
    (Mapper.build recs true).remapFrame q = SpecR.framesByParams recs q p := by
  sorry

/-- without the parameter index, parameter-based queries are not answered -/
theorem C03_pm_false (recs : List Record) (q : Frame) (p : Bytes) (hq : q.params = some p) :
    (Mapper.build recs false).remapFrame q = [] := by
  sorry

/-- line 0 and no file, always -/
theorem C03_line_file (recs : List Record) (q : Frame) (p : Bytes) :
    ∀ f ∈ SpecR.framesByParams recs q p, f.line = 0 ∧ f.file = none := by
  sorry

/-- inlined callees never appear: every answer comes from an entry that is not followed by an
    entry with the identical obfuscated range -/
theorem C03_no_inlined (recs : List Record) (q : Frame) (p : Bytes) (b : SpecR.Block)
    (hb : SpecR.lastBlock recs q.cls = some b) :
    ∀ f ∈ SpecR.framesByParams recs q p, ∃ e ∈ b.entries, e.inlined = false ∧ e.obf = q.method ∧
      e.args = p ∧ f.method = e.name ∧ f.cls = e.fc.getD b.orig := by
  sorry

/-- duplicates never appear: the original method names of an answer are pairwise distinct -/
theorem C03_nodup (recs : List Record) (q : Frame) (p : Bytes) :
    ((SpecR.framesByParams recs q p).map (·.method)).Nodup := by
  sorry

/-- state never leaks from one class block into the next: the answer for class `c` is a
    function of `c`'s last block alone -/
theorem C03_class_local (recs₁ recs₂ : List Record) (q : Frame) (p : Bytes)
    (h : SpecR.lastBlock recs₁ q.cls = SpecR.lastBlock recs₂ q.cls) :
    SpecR.framesByParams recs₁ q p = SpecR.framesByParams recs₂ q p := by
  sorry

end PG
