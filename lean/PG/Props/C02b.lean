/-
  C02 at the level of mapping *bytes*: the hypotheses of the record-level theorems that are
  not genuine domain restrictions are discharged for the records of any byte string —
  every string the parser yields is valid UTF-8 (it validated it), and the tables of a mapping
  of bounded size fit the format's `u32` counters.
-/
import PG.Props.C02
import PG.Props.C06
import PG.Lemmas.Utf8L
import PG.Lemmas.SizeL
import PG.Lemmas.Utf8Spec
namespace PG

theorem mem_okRecs {items : List Item} {r : Record} : r ∈ okRecs items ↔ Item.ok r ∈ items := by
  unfold okRecs
  rw [List.mem_filterMap]
  constructor
  · rintro ⟨a, ha, h⟩
    cases a with
    | ok r' => simp only [Item.ok?, Option.some.injEq] at h; subst h; exact ha
    | err l => simp [Item.ok?] at h
  · intro h; exact ⟨_, h, rfl⟩

/-- every string in every record the parser yields is valid UTF-8 -/
theorem records_valid_utf8 (bs : Bytes) :
    ∀ r, Item.ok r ∈ records bs → ∀ s ∈ r.strings, validUtf8 s = true := by
  intro r hr s hs
  have hok := records_ok_valid bs r hr
  cases r with
  | header k v =>
    obtain ⟨hk, hv⟩ := hok
    simp only [Record.strings, List.mem_cons, Option.mem_toList] at hs
    rcases hs with rfl | hs
    · exact hk
    · exact hv s hs
  | cls o b =>
    obtain ⟨h1, h2⟩ := hok
    simp only [Record.strings, List.mem_cons, List.not_mem_nil, or_false] at hs
    rcases hs with rfl | rfl
    · exact h1
    · exact h2
  | field ty o b =>
    obtain ⟨h1, h2, h3⟩ := hok
    simp only [Record.strings, List.mem_cons, List.not_mem_nil, or_false] at hs
    rcases hs with rfl | rfl | rfl
    · exact h1
    · exact h2
    · exact h3
  | method ty o b a c lm =>
    obtain ⟨h1, h2, h3, h4, h5⟩ := hok
    simp only [Record.strings, List.mem_append, List.mem_cons, List.not_mem_nil, or_false,
      Option.mem_toList] at hs
    rcases hs with (rfl | rfl | rfl | rfl) | hs
    · exact h1
    · exact h2
    · exact h3
    · exact h4
    · exact h5 s hs

/-- the genuine part of C02's representable domain: names non-empty, line numbers < 2^32-1 -/
def DomainRec : Record → Prop
  | .header k v => k = litSourceFile → ∀ x, v = some x → x ≠ []
  | .cls o b => o ≠ [] ∧ b ≠ []
  | .field .. => True
  | .method _ o b _ fc lm =>
    o ≠ [] ∧ b ≠ [] ∧ (∀ x, fc = some x → x ≠ []) ∧
    (∀ l, lm = some l → l.startline < u32Max ∧ l.endline < u32Max ∧
      (∀ x, l.originalStartline = some x → x < u32Max) ∧
      (∀ x, l.originalEndline = some x → x < u32Max))

/-- for records that come out of the parser, the domain conditions alone give `ReprR` -/
theorem reprR_of_records (bs : Bytes) (h : ∀ r ∈ okRecs (records bs), DomainRec r) :
    ReprR (okRecs (records bs)) := by
  intro r hr
  have hd := h r hr
  have hv := records_valid_utf8 bs r (mem_okRecs.1 hr)
  cases r with
  | header k v =>
    intro hk x hx
    refine ⟨hd hk x hx, hv x ?_⟩
    subst hx
    simp [Record.strings]
  | cls o b =>
    exact ⟨hd.1, hd.2, hv o (by simp [Record.strings]), hv b (by simp [Record.strings])⟩
  | field ty o b => trivial
  | method ty o b a fc lm =>
    obtain ⟨d1, d2, d3, d4⟩ := hd
    refine ⟨d1, d2, hv o (by simp [Record.strings]), hv b (by simp [Record.strings]),
      hv a (by simp [Record.strings]), ?_, d4⟩
    intro x hx
    refine ⟨d3 x hx, hv x ?_⟩
    subst hx
    simp [Record.strings]

/-- a mapping file below 16 MiB always fits the format's counters (the bound is not tight) -/
theorem small_of_length (bs : Bytes) (h : bs.length < 16777216) :
    (Tables.build (okRecs (records bs))).Small := by
  obtain ⟨h1, h2, h3, h4⟩ := WI.build_sizes (okRecs (records bs))
  have hc := okRecs_count bs
  have hs := records_size bs
  constructor <;> simp only [u32Bound, u32Max] <;> omega

/-- C02 for mapping bytes: every query kind, cache (written and parsed back) = mapper -/
theorem C02_bytes (bs : Bytes) (hlen : bs.length < 16777216)
    (hd : ∀ r ∈ okRecs (records bs), DomainRec r) :
    ∃ c, Cache.parse (Cache.writeBytes bs) = .ok c ∧
      (∀ name, c.remapClass name = (Mapper.ofBytes bs true).remapClass name) ∧
      (∀ cls m, c.remapMethod cls m = (Mapper.ofBytes bs true).remapMethod cls m) ∧
      (∀ q, c.remapFrame q = (Mapper.ofBytes bs true).remapFrame q) ∧
      (∀ q, q.params = none → (Mapper.ofBytes bs true).remapFrame q = (Mapper.ofBytes bs false).remapFrame q) := by
  have hr := reprR_of_records bs hd
  have hs := small_of_length bs hlen
  have hp : Cache.parse (Cache.writeBytes bs) =
      .ok (Cache.ofTables (Tables.build (okRecs (records bs)))) := C02_parses _ hs
  refine ⟨_, hp, ?_, ?_, ?_, ?_⟩
  · intro name; exact C02_class _ hr hs true _ hp name
  · intro cls m; exact C02_method _ hr hs true _ hp cls m
  · intro q; exact C02_frame _ hr hs _ hp q
  · intro q hq; exact C02_pm_indep _ q hq

end PG
