/-
  C02 at the level of mapping *bytes*: the hypotheses of the record-level theorems that are
  not genuine domain restrictions are discharged for the records of any byte string —
  every string the parser yields is valid UTF-8 (it validated it), and the tables of a mapping
  of bounded size fit the format's `u32` counters.
-/
import PG.Props.C02
import PG.Props.C06
namespace PG

/-- every string in every record the parser yields is valid UTF-8 -/
theorem records_valid_utf8 (bs : Bytes) :
    ∀ r, Item.ok r ∈ records bs → ∀ s ∈ r.strings, validUtf8 s = true := by
  sorry

/-- the genuine part of C02's representable domain: names non-empty, line numbers < 2^32-1 -/
def DomainRec : Record → Prop
  | .header k v => k = litSourceFile → ∀ x, v = some x → x ≠ []
  | .cls o b => o ≠ [] ∧ b ≠ []
  | .field .. => True
  | .method _ o b _ fc lm =>
    o ≠ [] ∧ b ≠ [] ∧ (∀ x, fc = some x → x ≠ []) ∧
    (∀ l, lm = some l → l.startline < u32Max ∧ l.endline < u32Max ∧
      (∀ x, l.originalStartline = some x → x < u32Max) ∧
      (∀ x, l.originalEndline = some x → x < u32Max))

/-- for records that come out of the parser, the domain conditions alone give `ReprR` -/
theorem reprR_of_records (bs : Bytes) (h : ∀ r ∈ okRecs (records bs), DomainRec r) :
    ReprR (okRecs (records bs)) := by
  sorry

/-- a mapping file below 16 MiB always fits the format's counters (the bound is not tight) -/
theorem small_of_length (bs : Bytes) (h : bs.length < 16777216) :
    (Tables.build (okRecs (records bs))).Small := by
  sorry

/-- C02 for mapping bytes: every query kind, cache (written and parsed back) = mapper -/
theorem C02_bytes (bs : Bytes) (hlen : bs.length < 16777216)
    (hd : ∀ r ∈ okRecs (records bs), DomainRec r) :
    ∃ c, Cache.parse (Cache.writeBytes bs) = .ok c ∧
      (∀ name, c.remapClass name = (Mapper.ofBytes bs true).remapClass name) ∧
      (∀ cls m, c.remapMethod cls m = (Mapper.ofBytes bs true).remapMethod cls m) ∧
      (∀ q, c.remapFrame q = (Mapper.ofBytes bs true).remapFrame q) ∧
      (∀ q, q.params = none → (Mapper.ofBytes bs true).remapFrame q = (Mapper.ofBytes bs false).remapFrame q) := by
  sorry

end PG
