/-
  C15 — cache writing is independent of sink chunking and propagates sink errors.
  A sink is an arbitrary deterministic state machine `σ → (len : Nat) → Resp × σ`
  (`accept k` takes `min k len` bytes; `accept 0` on a non-empty buffer is `WriteZero`;
  `interrupted` is retried by `write_all`; `fail` is a non-retryable error).
-/
import PG.Model.CacheWrite
import PG.Lemmas.ListBasics
import PG.Lemmas.Sink
namespace PG

variable {σ : Type}

/-- a sink instrumented with "has it ever reported a non-retryable failure?" -/
def logFail (sink : σ → Nat → Resp × σ) : (σ × Bool) → Nat → Resp × (σ × Bool) :=
  fun st len =>
    let r := sink st.1 len
    (r.1, (r.2, st.2 || r.1 == .fail))

/-- generic form over any chunk sequence: success delivers exactly the chunks, in order -/
theorem writeChunksTo_ok (sink : σ → Nat → Resp × σ) (fuel : Nat) (s : σ) (acc : Bytes)
    (chunks : List Bytes) (h : (writeChunksTo sink fuel s acc chunks).result = .ok) :
    (writeChunksTo sink fuel s acc chunks).accepted = acc ++ chunks.flatten := by
  obtain ⟨p, h1, _, h3⟩ := writeChunksTo_spec sink fuel s acc chunks
  rw [h1, h3 h]

/-- generic form: whatever the outcome, what was delivered is `acc` plus a prefix of the chunks -/
theorem writeChunksTo_prefix (sink : σ → Nat → Resp × σ) (fuel : Nat) (s : σ) (acc : Bytes)
    (chunks : List Bytes) :
    ∃ p, (writeChunksTo sink fuel s acc chunks).accepted = acc ++ p ∧ p <+: chunks.flatten := by
  obtain ⟨p, h1, h2, _⟩ := writeChunksTo_spec sink fuel s acc chunks
  exact ⟨p, h1, h2⟩

/-- if writing reports success, the bytes accepted by the sink, concatenated, are exactly the
    canonical serialisation — for every sink, however few bytes it accepts per call -/
theorem C15_success (sink : σ → Nat → Resp × σ) (fuel : Nat) (s : σ) (recs : List Record)
    (h : (Cache.writeTo sink fuel s recs).result = .ok) :
    (Cache.writeTo sink fuel s recs).accepted = Cache.write recs := by
  have := writeChunksTo_ok sink fuel s [] (Cache.writeChunks recs) h
  simpa [Cache.writeTo, Cache.write] using this

/-- whatever happens, the sink has received only a prefix of the canonical bytes -/
theorem C15_prefix (sink : σ → Nat → Resp × σ) (fuel : Nat) (s : σ) (recs : List Record) :
    (Cache.writeTo sink fuel s recs).accepted <+: Cache.write recs := by
  obtain ⟨p, h1, h2⟩ := writeChunksTo_prefix sink fuel s [] (Cache.writeChunks recs)
  unfold Cache.writeTo Cache.write
  rw [h1, List.nil_append]
  exact h2

/-- if the sink ever reports a non-retryable failure, writing reports a failure (never
    success with a truncated file) -/
theorem C15_propagates (sink : σ → Nat → Resp × σ) (fuel : Nat) (s : σ) (recs : List Record)
    (h : (Cache.writeTo (logFail sink) fuel (s, false) recs).state.2 = true) :
    (Cache.writeTo (logFail sink) fuel (s, false) recs).result = .failed := by
  have hl : logFail sink = logFail' sink := rfl
  unfold Cache.writeTo at h ⊢
  rw [hl] at h ⊢
  obtain ⟨g1, _, _, g4⟩ := writeChunksTo_logFail sink fuel s false [] (Cache.writeChunks recs)
  rcases g4 h with g | g
  · exact absurd g (by decide)
  · rw [g1, g]

/-- instrumenting the sink does not change the run -/
theorem C15_logFail_same (sink : σ → Nat → Resp × σ) (fuel : Nat) (s : σ) (b : Bool) (recs : List Record) :
    (Cache.writeTo (logFail sink) fuel (s, b) recs).result = (Cache.writeTo sink fuel s recs).result ∧
    (Cache.writeTo (logFail sink) fuel (s, b) recs).accepted = (Cache.writeTo sink fuel s recs).accepted := by
  have hl : logFail sink = logFail' sink := rfl
  unfold Cache.writeTo
  rw [hl]
  obtain ⟨g1, g2, _, _⟩ := writeChunksTo_logFail sink fuel s b [] (Cache.writeChunks recs)
  exact ⟨g1, g2⟩

/-- a sink that always accepts at least one byte (any chunk size k ≥ 1, varying freely from
    call to call) makes writing succeed — hence, by `C15_success`, deliver the canonical bytes -/
theorem C15_chunking (sink : σ → Nat → Resp × σ) (fuel : Nat) (s : σ) (recs : List Record)
    (hs : ∀ st len, ∃ k st', k ≥ 1 ∧ sink st len = (.accept k, st'))
    (hf : fuel ≥ (Cache.write recs).length) :
    (Cache.writeTo sink fuel s recs).result = .ok := by
  unfold Cache.writeTo
  apply writeChunksTo_progress sink hs
  intro c hc
  have := length_le_flatten_of_mem hc
  unfold Cache.write at hf
  omega

/-- non-vacuity: a 1-byte-per-call sink on a concrete mapping -/
example :
    (Cache.writeTo (fun (s : Unit) _ => (Resp.accept 1, s)) 200 () [Record.cls [111] [97]]).accepted
      = Cache.write [Record.cls [111] [97]] := by
  apply C15_success
  apply C15_chunking
  · intro st len; exact ⟨1, (), Nat.le_refl 1, rfl⟩
  · decide

end PG
