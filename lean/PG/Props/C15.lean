/-
  C15 — cache writing is independent of sink chunking and propagates sink errors.
  A sink is an arbitrary deterministic state machine `σ → (len : Nat) → Resp × σ`
  (`accept k` takes `min k len` bytes; `accept 0` on a non-empty buffer is `WriteZero`;
  `interrupted` is retried by `write_all`; `fail` is a non-retryable error).
-/
import PG.Model.CacheWrite
import PG.Lemmas.ListBasics
namespace PG

variable {σ : Type}

/-- a sink instrumented with "has it ever reported a non-retryable failure?" -/
def logFail (sink : σ → Nat → Resp × σ) : (σ × Bool) → Nat → Resp × (σ × Bool) :=
  fun st len =>
    let r := sink st.1 len
    (r.1, (r.2, st.2 || r.1 == .fail))

/-- generic form over any chunk sequence: success delivers exactly the chunks, in order -/
theorem writeChunksTo_ok (sink : σ → Nat → Resp × σ) (fuel : Nat) (s : σ) (acc : Bytes)
    (chunks : List Bytes) (h : (writeChunksTo sink fuel s acc chunks).result = .ok) :
    (writeChunksTo sink fuel s acc chunks).accepted = acc ++ chunks.flatten := by
  sorry

/-- generic form: whatever the outcome, what was delivered is `acc` plus a prefix of the chunks -/
theorem writeChunksTo_prefix (sink : σ → Nat → Resp × σ) (fuel : Nat) (s : σ) (acc : Bytes)
    (chunks : List Bytes) :
    ∃ p, (writeChunksTo sink fuel s acc chunks).accepted = acc ++ p ∧ p <+: chunks.flatten := by
  sorry

/-- if writing reports success, the bytes accepted by the sink, concatenated, are exactly the
    canonical serialisation — for every sink, however few bytes it accepts per call -/
theorem C15_success (sink : σ → Nat → Resp × σ) (fuel : Nat) (s : σ) (recs : List Record)
    (h : (Cache.writeTo sink fuel s recs).result = .ok) :
    (Cache.writeTo sink fuel s recs).accepted = Cache.write recs := by
  sorry

/-- whatever happens, the sink has received only a prefix of the canonical bytes -/
theorem C15_prefix (sink : σ → Nat → Resp × σ) (fuel : Nat) (s : σ) (recs : List Record) :
    (Cache.writeTo sink fuel s recs).accepted <+: Cache.write recs := by
  sorry

/-- if the sink ever reports a non-retryable failure, writing reports a failure (never
    success with a truncated file) -/
theorem C15_propagates (sink : σ → Nat → Resp × σ) (fuel : Nat) (s : σ) (recs : List Record)
    (h : (Cache.writeTo (logFail sink) fuel (s, false) recs).state.2 = true) :
    (Cache.writeTo (logFail sink) fuel (s, false) recs).result = .failed := by
  sorry

/-- instrumenting the sink does not change the run -/
theorem C15_logFail_same (sink : σ → Nat → Resp × σ) (fuel : Nat) (s : σ) (b : Bool) (recs : List Record) :
    (Cache.writeTo (logFail sink) fuel (s, b) recs).result = (Cache.writeTo sink fuel s recs).result ∧
    (Cache.writeTo (logFail sink) fuel (s, b) recs).accepted = (Cache.writeTo sink fuel s recs).accepted := by
  sorry

/-- a sink that always accepts at least one byte (any chunk size k ≥ 1, varying freely from
    call to call) makes writing succeed — hence, by `C15_success`, deliver the canonical bytes -/
theorem C15_chunking (sink : σ → Nat → Resp × σ) (fuel : Nat) (s : σ) (recs : List Record)
    (hs : ∀ st len, ∃ k st', k ≥ 1 ∧ sink st len = (.accept k, st'))
    (hf : fuel ≥ (Cache.write recs).length) :
    (Cache.writeTo sink fuel s recs).result = .ok := by
  sorry

/-- non-vacuity: a 1-byte-per-call sink on a concrete mapping -/
example :
    (Cache.writeTo (fun (s : Unit) _ => (Resp.accept 1, s)) 200 () [Record.cls [111] [97]]).accepted
      = Cache.write [Record.cls [111] [97]] := by
  apply C15_success
  apply C15_chunking
  · intro st len; exact ⟨1, (), Nat.le_refl 1, rfl⟩
  · decide

end PG
