/-
  C10 — version-1 cache files mean the same to every release that accepts them.
  `Pinned.*` is the frozen model of the 5.5.0 reader, `Cache.*` the model of the current one;
  both read the same layout.  `layout_frozen` ties that layout to the *source as it is now*
  (PG/Generated/Layout.lean is regenerated from /repo/src/cache/raw.rs on every run).
-/
import PG.Model.Pinned
import PG.Generated.Layout
import PG.Lemmas.PinnedL
namespace PG

/-- the version-1 layout: magic, field lists (name, type) in order, `Class` defaults -/
def layoutV1Header : List (List Nat × List Nat) :=
  [([109, 97, 103, 105, 99], [117, 51, 50]), ([118, 101, 114, 115, 105, 111, 110], [117, 51, 50]),
   ([110, 117, 109, 95, 99, 108, 97, 115, 115, 101, 115], [117, 51, 50]),
   ([110, 117, 109, 95, 109, 101, 109, 98, 101, 114, 115], [117, 51, 50]),
   ([110, 117, 109, 95, 109, 101, 109, 98, 101, 114, 115, 95, 98, 121, 95, 112, 97, 114, 97, 109, 115], [117, 51, 50]),
   ([115, 116, 114, 105, 110, 103, 95, 98, 121, 116, 101, 115], [117, 51, 50])]

def layoutV1Class : List (List Nat × List Nat) :=
  [([111, 98, 102, 117, 115, 99, 97, 116, 101, 100, 95, 110, 97, 109, 101, 95, 111, 102, 102, 115, 101, 116], [117, 51, 50]),
   ([111, 114, 105, 103, 105, 110, 97, 108, 95, 110, 97, 109, 101, 95, 111, 102, 102, 115, 101, 116], [117, 51, 50]),
   ([102, 105, 108, 101, 95, 110, 97, 109, 101, 95, 111, 102, 102, 115, 101, 116], [117, 51, 50]),
   ([109, 101, 109, 98, 101, 114, 115, 95, 111, 102, 102, 115, 101, 116], [117, 51, 50]),
   ([109, 101, 109, 98, 101, 114, 115, 95, 108, 101, 110], [117, 51, 50]),
   ([109, 101, 109, 98, 101, 114, 115, 95, 98, 121, 95, 112, 97, 114, 97, 109, 115, 95, 111, 102, 102, 115, 101, 116], [117, 51, 50]),
   ([109, 101, 109, 98, 101, 114, 115, 95, 98, 121, 95, 112, 97, 114, 97, 109, 115, 95, 108, 101, 110], [117, 51, 50])]

def layoutV1Member : List (List Nat × List Nat) :=
  [([111, 98, 102, 117, 115, 99, 97, 116, 101, 100, 95, 110, 97, 109, 101, 95, 111, 102, 102, 115, 101, 116], [117, 51, 50]),
   ([115, 116, 97, 114, 116, 108, 105, 110, 101], [117, 51, 50]), ([101, 110, 100, 108, 105, 110, 101], [117, 51, 50]),
   ([111, 114, 105, 103, 105, 110, 97, 108, 95, 99, 108, 97, 115, 115, 95, 111, 102, 102, 115, 101, 116], [117, 51, 50]),
   ([111, 114, 105, 103, 105, 110, 97, 108, 95, 102, 105, 108, 101, 95, 111, 102, 102, 115, 101, 116], [117, 51, 50]),
   ([111, 114, 105, 103, 105, 110, 97, 108, 95, 110, 97, 109, 101, 95, 111, 102, 102, 115, 101, 116], [117, 51, 50]),
   ([111, 114, 105, 103, 105, 110, 97, 108, 95, 115, 116, 97, 114, 116, 108, 105, 110, 101], [117, 51, 50]),
   ([111, 114, 105, 103, 105, 110, 97, 108, 95, 101, 110, 100, 108, 105, 110, 101], [117, 51, 50]),
   ([112, 97, 114, 97, 109, 115, 95, 111, 102, 102, 115, 101, 116], [117, 51, 50])]

def layoutV1ClassDefaults : List Nat := [4294967295, 4294967295, 4294967295, 4294967295, 0, 4294967295, 0]

/-- As long as the source declares format version 1, its magic, its three `#[repr(C)]` field
    lists (names, types, order) and the `Class` sentinels are exactly those of the pinned
    release: a changed layout or sentinel without a version bump breaks this theorem. -/
theorem layout_frozen : Generated.version = 1 →
   (Generated.extractorOk = true ∧ Generated.magicBytes = [80, 82, 71, 67] ∧
    Generated.headerFields = layoutV1Header ∧ Generated.classFields = layoutV1Class ∧
    Generated.memberFields = layoutV1Member ∧
    Generated.classDefaults.map (·.2) = layoutV1ClassDefaults ∧
    Generated.classDefaults.map (·.1) = layoutV1Class.map (·.1) ∧
    Generated.memberDefaultDerived = true) := by
  decide

/-- the model's encoders use exactly that order: 7 class fields, 9 member fields, 6 header words -/
theorem layout_model_arity (c : RawClass) (m : RawMember) :
    c.fields.length = layoutV1Class.length ∧ m.fields.length = layoutV1Member.length ∧
    RawClass.default.fields = layoutV1ClassDefaults := by
  refine ⟨rfl, rfl, rfl⟩

/-- Reader compatibility on every buffer and every line-based frame query: whenever the
    pinned reader answers (does not hit its unchecked arithmetic), the current reader gives
    the identical answer. -/
theorem C10_reader_compat (c : Cache) (q : Frame) (a : List Frame)
    (h : Pinned.remapFrame c q = some a) : c.remapFrame q = a :=
  pinned_remapFrame_some c q a h

/-- the pinned reader's arithmetic cannot fault when every entry without a usable range has
    no real original range — the shape of every file either release writes from a mapping
    whose line numbers are below 2^32 -/
-- STATEMENT CHANGED: added `m.endline < u32Bound` to `hc`.  As originally stated (no bound on
-- `m.endline`) the theorem is false for an arbitrary `Cache` value: with
--   c := ⟨1, 1, 0, 4, [⟨0, 2, u32Max, 0, 1, 0, 0⟩],
--         [⟨0, 0, 18446744073709551615, u32Max, u32Max, 2, 1, 5, u32Max⟩], [], [1, 97, 1, 98]⟩
--   q := ⟨[97], [97], 18446744073709551615, none, none⟩
-- all original hypotheses hold (`q.line = 2^64-1 < usizeBound`, `origStartline = 1`,
-- `startline = 0`, `endline = 2^64-1 ≠ 0`), the line is inside `0 ..= endline`, and
-- `origStartline + q.line = 2^64` leaves `usize`: `#eval Pinned.remapFrame c q` gives `none`
-- (while `c.remapFrame q` answers).  Every decoded buffer satisfies the added bound (all raw
-- fields are `u32`, cf. `C12_fields_u32`).
theorem C10_no_fault (c : Cache) (q : Frame) (hq : q.line < usizeBound)
    (hc : ∀ m ∈ c.members, m.origStartline < u32Bound ∧ m.startline < u32Bound ∧
      m.endline < u32Bound ∧
      (m.endline = 0 → m.origEndline = u32Max ∨ m.origEndline = m.origStartline)) :
    ∃ a, Pinned.remapFrame c q = some a :=
  pinned_remapFrame_ok c q (fun m hm => ⟨(hc m hm).1, (hc m hm).2.2.1, (hc m hm).2.2.2⟩)

/-- both readers reject every version but 1 (the only version either release writes) with the
    wrong-version error, whatever else the buffer holds -/
theorem C10_version_gate (buf : Bytes) (magic version nc nm nb sb : Nat) (rest : Bytes)
    (h : rdFields 6 buf = some ([magic, version, nc, nm, nb, sb], rest))
    (hm : magic = magicPRGC) (hv : version ≠ 1) : Cache.parse buf = .error .wrongVersion := by
  subst hm
  unfold Cache.parse
  rw [h]
  have h1 : (magicPRGC == magicFlipped) = false := by decide
  have h2 : (magicPRGC != magicPRGC) = false := by decide
  have h3 : (version != cacheVersion) = true := by
    simp only [cacheVersion, bne_iff_ne, ne_eq]; exact hv
  simp only [h1, h2, h3, Bool.false_eq_true, if_false, if_true]

end PG
