/-
  C06 — parsing is total and a bad line never affects the lines after it.

  `records` is defined with `bs.length` fuel (PG/Model/Parser.lean).  Lean accepting the
  definition is termination; `C06_progress` + `C06_unfold` show the fuel always suffices (every
  iteration consumes at least one byte), so `records` is exactly the Rust iterator.
-/
import PG.Model.Parser
import PG.Lemmas.ListBasics
import PG.Lemmas.ParserProgress
import PG.Lemmas.ParserLocal
namespace PG

/-- every string a record carries -/
def Record.strings : Record → List Bytes
  | .header k v => k :: v.toList
  | .cls o b => [o, b]
  | .field ty o b => [ty, o, b]
  | .method ty o b a c _ => [ty, o, b, a] ++ c.toList

/-- one iteration consumes at least one byte -/
theorem C06_progress (bs : Bytes) (h : bs ≠ []) : (parseRecord bs).2.length < bs.length :=
  parseRecord_progress bs h

/-- the remainder is always a suffix of the input (no byte is invented or reordered) -/
theorem C06_rest_suffix (bs : Bytes) : (parseRecord bs).2 <:+ bs :=
  parseRecord_rest_suffix bs

/-- the fuel suffices: `records` satisfies the iterator's defining equation -/
theorem C06_unfold (bs : Bytes) (h : bs ≠ []) :
    records bs = (parseRecord bs).1 :: records (parseRecord bs).2 :=
  records_unfold bs h

theorem C06_nil : records [] = [] := records_nil

/-- at most one item per input byte -/
theorem C06_count (bs : Bytes) : (records bs).length ≤ bs.length :=
  records_count bs

/-- no name, type, argument string or header value that is yielded contains a line terminator -/
theorem C06_fields_no_terminator (bs : Bytes) :
    ∀ r, Item.ok r ∈ records bs → ∀ s ∈ r.strings, ∀ b ∈ s, isNewline b = false := by
  intro r hr s hs
  have hok := records_ok_recOK bs r hr
  cases r with
  | header k v =>
    obtain ⟨hk, hv⟩ := hok
    simp only [Record.strings, List.mem_cons, Option.mem_toList] at hs
    rcases hs with rfl | hs
    · exact hk
    · exact hv s hs
  | cls o b =>
    obtain ⟨h1, h2⟩ := hok
    simp only [Record.strings, List.mem_cons, List.not_mem_nil, or_false] at hs
    rcases hs with rfl | rfl
    · exact h1
    · exact h2
  | field ty o b =>
    obtain ⟨h1, h2, h3⟩ := hok
    simp only [Record.strings, List.mem_cons, List.not_mem_nil, or_false] at hs
    rcases hs with rfl | rfl | rfl
    · exact h1
    · exact h2
    · exact h3
  | method ty o b a c lm =>
    obtain ⟨h1, h2, h3, h4, h5⟩ := hok
    simp only [Record.strings, List.mem_append, List.mem_cons, List.not_mem_nil, or_false,
      Option.mem_toList] at hs
    rcases hs with (rfl | rfl | rfl | rfl) | hs
    · exact h1
    · exact h2
    · exact h3
    · exact h4
    · exact h5 s hs

/-- normal form of a record stream for comparing across a split: error lines lose their
    trailing terminator bytes (unavoidable: `records "x" = [err "x"]` but
    `records "x\n…" = [err "x\n", …]`), and errors of empty lines — which only arise from
    trailing terminators at the very end of the input — are dropped -/
def stripNl (l : Bytes) : Bytes := (l.reverse.dropWhile isNewline).reverse

def normItems (items : List Item) : List Item :=
  items.filterMap (fun it => match it with
    | .ok r => some (.ok r)
    | .err l => if (stripNl l).isEmpty then none else some (.err (stripNl l)))

/-! ### helper lemmas for `C06_resync` -/

theorem normItems_ok (r : Record) (xs : List Item) :
    normItems (.ok r :: xs) = .ok r :: normItems xs := by
  simp [normItems]

theorem normItems_err (e : Bytes) (xs : List Item) :
    normItems (.err e :: xs) =
      if (stripNl e).isEmpty then normItems xs else .err (stripNl e) :: normItems xs := by
  unfold normItems
  rw [List.filterMap_cons]
  by_cases h : (stripNl e).isEmpty = true
  · simp only [h, if_true]
  · simp only [h, Bool.false_eq_true, if_false]

theorem normItems_nil : normItems [] = [] := rfl

theorem stripNl_snoc_nl (l : Bytes) {n : UInt8} (hn : isNewline n = true) :
    stripNl (l ++ [n]) = stripNl l := by
  simp [stripNl, hn]

theorem stripNl_noNl {l : Bytes} (hl : NoNl l) : stripNl l = l := by
  unfold stripNl
  have : l.reverse.dropWhile isNewline = l.reverse := by
    cases h : l.reverse with
    | nil => rfl
    | cons c m =>
      have : isNewline c = false := hl c (by rw [← List.mem_reverse, h]; simp)
      simp [this]
  rw [this, List.reverse_reverse]

theorem norm_records_cons_nl {n : UInt8} (hn : isNewline n = true) (x : Bytes) :
    normItems (records (n :: x)) = normItems (records x) := by
  by_cases hx : x = []
  · subst hx
    rw [records_single_nl hn, records_nil]
    rfl
  · rw [records_cons_nl hn hx]

theorem norm_records_consume (x : Bytes) :
    normItems (records (consumeNewlines x)) = normItems (records x) := by
  induction x with
  | nil => rfl
  | cons c x ih =>
    cases hc : isNewline c with
    | true =>
      rw [norm_records_cons_nl hc]
      have : consumeNewlines (c :: x) = consumeNewlines x := by
        simp [consumeNewlines, hc]
      rw [this, ih]
    | false => rw [consumeNewlines_of_head hc]

theorem resync_aux (nl : UInt8) (hnl : isNewline nl = true) (n : Nat) :
    ∀ a : Bytes, a.length = n → ∀ b : Bytes,
      normItems (records (a ++ nl :: b)) = normItems (records a) ++ normItems (records b) := by
  induction n using Nat.strongRecOn with
  | _ n ih =>
    intro a han b
    cases a with
    | nil =>
      rw [List.nil_append, norm_records_cons_nl hnl, records_nil, normItems_nil, List.nil_append]
    | cons c a' =>
      cases hc : isNewline c with
      | true =>
        rw [List.cons_append, norm_records_cons_nl hc, norm_records_cons_nl hc]
        exact ih a'.length (by simp at han; omega) a' rfl b
      | false =>
        obtain ⟨l, t, hdec, hlne, hl, ht⟩ := line_decomp c a' hc
        rw [hdec] at han ⊢
        have hlpos : 0 < l.length := List.length_pos_iff.mpr hlne
        simp only [List.length_append] at han
        cases hp : parseRecord l with
        | mk it rem =>
        cases it with
        | ok r =>
          rcases ht with rfl | ⟨n', t', rfl, hn'⟩
          · obtain ⟨h1, h2, h3, _⟩ := records_local_ok hl hlne nl b hnl hp
            rw [List.append_nil, h1, h2, normItems_ok, normItems_ok, norm_records_consume,
              ih rem.length (by simp at han; omega) rem rfl b]
            rfl
          · obtain ⟨h1, _, h3, _⟩ := records_local_ok hl hlne n' (t' ++ nl :: b) hn' hp
            obtain ⟨h1', _, _, _⟩ := records_local_ok hl hlne n' t' hn' hp
            rw [List.append_assoc, List.cons_append, h1, h1', normItems_ok, normItems_ok,
              norm_records_consume, norm_records_consume]
            have := ih (rem ++ n' :: t').length
              (by simp only [List.length_append, List.length_cons] at han ⊢; omega)
              (rem ++ n' :: t') rfl b
            rw [List.append_assoc, List.cons_append] at this
            rw [this]; rfl
        | err e =>
          rcases ht with rfl | ⟨n', t', rfl, hn'⟩
          · obtain ⟨h1, h2⟩ := records_local_err hl hlne nl b hnl hp
            have hs : (stripNl l).isEmpty = false := by
              rw [stripNl_noNl hl]; simpa using hlne
            rw [List.append_nil, h1, h2, normItems_err, normItems_err, stripNl_snoc_nl l hnl, hs]
            simp [normItems_nil]
          · obtain ⟨h1, _⟩ := records_local_err hl hlne n' (t' ++ nl :: b) hn' hp
            obtain ⟨h1', _⟩ := records_local_err hl hlne n' t' hn' hp
            rw [List.append_assoc, List.cons_append, h1, h1', normItems_err, normItems_err,
              ih t'.length (by simp only [List.length_cons] at han; omega) t' rfl b]
            split <;> simp

/-- Parsing resynchronises at every line break: the records of `A ++ newline ++ B` are the
    records of `A` followed by the records of `B`.  A truncated, binary or otherwise malformed
    line can only turn itself into an error. -/
theorem C06_resync (a b : Bytes) (nl : UInt8) (hnl : isNewline nl = true) :
    normItems (records (a ++ nl :: b)) = normItems (records a) ++ normItems (records b) :=
  resync_aux nl hnl a.length a rfl b

/-- error items with an empty line occur only as the last item (input ending in terminators) -/
theorem C06_empty_err_last (bs : Bytes) (pre post : List Item)
    (h : records bs = pre ++ Item.err [] :: post) : post = [] := by
  generalize hn : bs.length = n at h
  induction n using Nat.strongRecOn generalizing bs pre with
  | _ n ih =>
    by_cases hb : bs = []
    · subst hb; rw [records_nil] at h; simp at h
    · rw [records_unfold bs hb] at h
      have hp := parseRecord_progress bs hb
      cases pre with
      | nil =>
        simp only [List.nil_append, List.cons.injEq] at h
        obtain ⟨h1, h2⟩ := h
        have : (parseRecord bs).2 = [] :=
          parseRecord_err_nil (bs := bs) (rest := (parseRecord bs).2) (by rw [← h1])
        rw [this, records_nil] at h2
        exact h2.symm
      | cons p pre' =>
        simp only [List.cons_append, List.cons.injEq] at h
        exact ih _ (by omega) (parseRecord bs).2 pre' h.2 rfl

/-- non-vacuity / the shape of the claim on a concrete input: a binary line between two good
    lines turns only itself into an error -/
example : records ([97, 32, 45, 62, 32, 98, 58, 10] ++ [255, 0, 7] ++ 10 :: [99, 32, 45, 62, 32, 100, 58]) =
    [.ok (.cls [97] [98]), .err [255, 0, 7, 10], .ok (.cls [99] [100])] := by
  decide

end PG
