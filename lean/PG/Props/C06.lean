/-
  C06 — parsing is total and a bad line never affects the lines after it.

  `records` is defined with `bs.length` fuel (PG/Model/Parser.lean).  Lean accepting the
  definition is termination; `C06_progress` + `C06_unfold` show the fuel always suffices (every
  iteration consumes at least one byte), so `records` is exactly the Rust iterator.
-/
import PG.Model.Parser
import PG.Lemmas.ListBasics
namespace PG

/-- every string a record carries -/
def Record.strings : Record → List Bytes
  | .header k v => k :: v.toList
  | .cls o b => [o, b]
  | .field ty o b => [ty, o, b]
  | .method ty o b a c _ => [ty, o, b, a] ++ c.toList

/-- one iteration consumes at least one byte -/
theorem C06_progress (bs : Bytes) (h : bs ≠ []) : (parseRecord bs).2.length < bs.length := by
  sorry

/-- the remainder is always a suffix of the input (no byte is invented or reordered) -/
theorem C06_rest_suffix (bs : Bytes) : (parseRecord bs).2 <:+ bs := by
  sorry

/-- the fuel suffices: `records` satisfies the iterator's defining equation -/
theorem C06_unfold (bs : Bytes) (h : bs ≠ []) :
    records bs = (parseRecord bs).1 :: records (parseRecord bs).2 := by
  sorry

theorem C06_nil : records [] = [] := by
  sorry

/-- at most one item per input byte -/
theorem C06_count (bs : Bytes) : (records bs).length ≤ bs.length := by
  sorry

/-- no name, type, argument string or header value that is yielded contains a line terminator -/
theorem C06_fields_no_terminator (bs : Bytes) :
    ∀ r, Item.ok r ∈ records bs → ∀ s ∈ r.strings, ∀ b ∈ s, isNewline b = false := by
  sorry

/-- normal form of a record stream for comparing across a split: error lines lose their
    trailing terminator bytes (unavoidable: `records "x" = [err "x"]` but
    `records "x\n…" = [err "x\n", …]`), and errors of empty lines — which only arise from
    trailing terminators at the very end of the input — are dropped -/
def stripNl (l : Bytes) : Bytes := (l.reverse.dropWhile isNewline).reverse

def normItems (items : List Item) : List Item :=
  items.filterMap (fun it => match it with
    | .ok r => some (.ok r)
    | .err l => if (stripNl l).isEmpty then none else some (.err (stripNl l)))

/-- Parsing resynchronises at every line break: the records of `A ++ newline ++ B` are the
    records of `A` followed by the records of `B`.  A truncated, binary or otherwise malformed
    line can only turn itself into an error. -/
theorem C06_resync (a b : Bytes) (nl : UInt8) (hnl : isNewline nl = true) :
    normItems (records (a ++ nl :: b)) = normItems (records a) ++ normItems (records b) := by
  sorry

/-- error items with an empty line occur only as the last item (input ending in terminators) -/
theorem C06_empty_err_last (bs : Bytes) (pre post : List Item)
    (h : records bs = pre ++ Item.err [] :: post) : post = [] := by
  sorry

/-- non-vacuity / the shape of the claim on a concrete input: a binary line between two good
    lines turns only itself into an error -/
example : records ([97, 32, 45, 62, 32, 98, 58, 10] ++ [255, 0, 7] ++ 10 :: [99, 32, 45, 62, 32, 100, 58]) =
    [.ok (.cls [97] [98]), .err [255, 0, 7, 10], .ok (.cls [99] [100])] := by
  sorry

end PG
