/-
  C01 — line-based retrace returns exactly the call stack recorded in the mapping, for both the
  in-memory mapper (PG/Props/C01m.lean, all record lists) and the cache reader (through C02).
-/
import PG.Props.C02
namespace PG

/-- The cache reader, on the cache written from the records and parsed back, returns for every
    line-based frame query exactly the frames the record-level retrace specification demands
    (representable domain). -/
theorem C01_cache (recs : List Record) (hr : ReprR recs) (hs : (Tables.build recs).Small)
    (c : Cache) (hc : Cache.parse (Cache.write recs) = .ok c) (q : Frame) (hq : q.params = none) :
    c.remapFrame q = SpecR.framesByLine recs q := by
  rw [C02_frame_line recs hr hs true c hc q hq, C01_mapper recs true q hq]

end PG
