/-
  C01 — line-based retrace returns exactly the call stack recorded in the mapping, for both the
  in-memory mapper (PG/Props/C01m.lean, all record lists) and the cache reader (through C02),
  and — at the level of mapping *bytes* — independently of line-ending style and of
  unparseable lines.
-/
import PG.Props.C02b
import PG.Props.C05
namespace PG

/-- The cache reader, on the cache written from the records and parsed back, returns for every
    line-based frame query exactly the frames the record-level retrace specification demands
    (representable domain). -/
theorem C01_cache (recs : List Record) (hr : ReprR recs) (hs : (Tables.build recs).Small)
    (c : Cache) (hc : Cache.parse (Cache.write recs) = .ok c) (q : Frame) (hq : q.params = none) :
    c.remapFrame q = SpecR.framesByLine recs q := by
  rw [C02_frame_line recs hr hs true c hc q hq, C01_mapper recs true q hq]

theorem okRecs_cons_ok (r : Record) (xs : List Item) : okRecs (Item.ok r :: xs) = r :: okRecs xs := by
  simp [okRecs, List.filterMap_cons, Item.ok?]

theorem okRecs_cons_err (l : Bytes) (xs : List Item) : okRecs (Item.err l :: xs) = okRecs xs := by
  simp [okRecs, List.filterMap_cons, Item.ok?]

theorem normItems_cons_ok (r : Record) (xs : List Item) :
    normItems (Item.ok r :: xs) = Item.ok r :: normItems xs := by
  simp [normItems, List.filterMap_cons]

theorem normItems_cons_err (l : Bytes) (xs : List Item) :
    normItems (Item.err l :: xs) =
      if (stripNl l).isEmpty then normItems xs else Item.err (stripNl l) :: normItems xs := by
  cases hs : stripNl l with
  | nil => simp [normItems, List.filterMap_cons, hs]
  | cons x xs' => simp [normItems, List.filterMap_cons, hs]

theorem okRecs_normItems (l : List Item) : okRecs (normItems l) = okRecs l := by
  induction l with
  | nil => rfl
  | cons it rest ih =>
    cases it with
    | ok r => rw [normItems_cons_ok, okRecs_cons_ok, okRecs_cons_ok, ih]
    | err l =>
      rw [normItems_cons_err, okRecs_cons_err]
      split
      · exact ih
      · rw [okRecs_cons_err, ih]

theorem okRecs_append (x y : List Item) : okRecs (x ++ y) = okRecs x ++ okRecs y := by
  simp [okRecs]

/-- the ok-records of a file resynchronise at every line break -/
theorem okRecs_resync (a b : Bytes) (nl : UInt8) (hnl : isNewline nl = true) :
    okRecs (records (a ++ nl :: b)) = okRecs (records a) ++ okRecs (records b) := by
  have h := congrArg okRecs (C06_resync a b nl hnl)
  rw [okRecs_normItems, okRecs_append, okRecs_normItems, okRecs_normItems] at h
  exact h

/-- blank or unparseable lines do not matter: a line (or block of lines) that yields no record
    can be inserted between any two lines without changing the record stream -/
theorem okRecs_noise (a noise b : Bytes) (nl₁ nl₂ : UInt8) (h₁ : isNewline nl₁ = true)
    (h₂ : isNewline nl₂ = true) (hn : okRecs (records noise) = []) :
    okRecs (records (a ++ nl₁ :: (noise ++ nl₂ :: b))) = okRecs (records (a ++ nl₁ :: b)) := by
  rw [okRecs_resync a _ nl₁ h₁, okRecs_resync noise b nl₂ h₂, hn, okRecs_resync a b nl₁ h₁]
  simp

theorem okRecs_map_ok (ls : List (Line × Bytes)) :
    okRecs (ls.map (fun p => Item.ok p.1.toRecord)) = ls.map (fun p => p.1.toRecord) := by
  induction ls with
  | nil => rfl
  | cons x xs ih => rw [List.map_cons, okRecs_cons_ok, ih]; rfl

/-- the records of a printed file -/
theorem okRecs_printed (ls : List (Line × Bytes))
    (h : ∀ p ∈ ls, p.1.WF ∧ p.2 ≠ [] ∧ ∀ b ∈ p.2, isNewline b = true) :
    okRecs (records ((ls.map (fun p => p.1.print ++ p.2)).flatten)) = ls.map (fun p => p.1.toRecord) := by
  rw [C05_file ls h, okRecs_map_ok]

/-- For a mapping *file* printed from the grammar (well-formed lines, each followed by any
    non-empty mix of CR / LF), the mapper built from the bytes answers every line-based frame
    query with exactly what the retrace rule says about the printed lines — in particular the
    answer does not depend on the terminators chosen. -/
theorem C01_file (ls : List (Line × Bytes)) (pm : Bool) (q : Frame) (hq : q.params = none)
    (h : ∀ p ∈ ls, p.1.WF ∧ p.2 ≠ [] ∧ ∀ b ∈ p.2, isNewline b = true) :
    (Mapper.ofBytes ((ls.map (fun p => p.1.print ++ p.2)).flatten) pm).remapFrame q =
      SpecR.framesByLine (ls.map (fun p => p.1.toRecord)) q := by
  unfold Mapper.ofBytes
  rw [okRecs_printed ls h]
  exact C01_mapper _ pm q hq

/-- line-ending independence, stated directly -/
theorem C01_terminator_indep (ls₁ ls₂ : List (Line × Bytes)) (pm : Bool) (q : Frame) (hq : q.params = none)
    (h₁ : ∀ p ∈ ls₁, p.1.WF ∧ p.2 ≠ [] ∧ ∀ b ∈ p.2, isNewline b = true)
    (h₂ : ∀ p ∈ ls₂, p.1.WF ∧ p.2 ≠ [] ∧ ∀ b ∈ p.2, isNewline b = true)
    (hsame : ls₁.map (·.1) = ls₂.map (·.1)) :
    (Mapper.ofBytes ((ls₁.map (fun p => p.1.print ++ p.2)).flatten) pm).remapFrame q =
      (Mapper.ofBytes ((ls₂.map (fun p => p.1.print ++ p.2)).flatten) pm).remapFrame q := by
  rw [C01_file ls₁ pm q hq h₁, C01_file ls₂ pm q hq h₂]
  have e : ls₁.map (fun p => p.1.toRecord) = ls₂.map (fun p => p.1.toRecord) := by
    have := congrArg (List.map Line.toRecord) hsame
    rw [List.map_map, List.map_map] at this
    exact this
  rw [e]

end PG
