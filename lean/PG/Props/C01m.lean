/-
  C01 — line-based retrace returns exactly the call stack recorded in the mapping
  (in-memory mapper, on the record stream; bytes → records is C05, cache ≡ mapper is C02).
-/
import PG.Spec.Retrace
import PG.Lemmas.ListBasics
import PG.Lemmas.MapperInv
namespace PG

/-- For every record list (no well-formedness needed), with or without the parameter index,
    every class, method, line and file: the mapper's answer is exactly the entries of the last
    block with that class name whose obfuscated method matches and whose range contains the
    line, in file order, each with the original class / method / line / file the rule gives. -/
theorem C01_mapper (recs : List Record) (pm : Bool) (q : Frame) (hq : q.params = none) :
    (Mapper.build recs pm).remapFrame q = SpecR.framesByLine recs q :=
  remapFrame_line recs pm q hq

/-- an unknown class yields no frames -/
theorem C01_unknown_class (recs : List Record) (pm : Bool) (q : Frame)
    (h : ∀ r ∈ recs, ∀ o, r ≠ .cls o q.cls) : (Mapper.build recs pm).remapFrame q = [] := by
  rw [remapFrame_eq, lastBlock_none_of_no_cls recs q.cls h]

/-- an unknown method yields no frames -/
theorem C01_unknown_method (recs : List Record) (pm : Bool) (q : Frame)
    (h : ∀ r ∈ recs, ∀ ty o a fc lm, r ≠ .method ty o q.method a fc lm) :
    (Mapper.build recs pm).remapFrame q = [] := by
  rw [remapFrame_eq]
  cases hl : SpecR.lastBlock recs q.cls with
  | none => rfl
  | some b =>
    have hb := lastBlock_body_noncls recs q.cls b hl
    have hne := entries_filter_nil recs q.cls q.method b hl h
    simp only
    cases hp : q.params with
    | none =>
      simp only
      rw [blockCM_all pm b hb]
      have : b.entries.filter (fun e => e.obf == q.method) = [] := by
        rw [List.filter_eq_nil_iff]
        intro e he
        simpa using hne e he
      rw [this]; rfl
    | some p =>
      simp only
      cases pm with
      | false => rw [blockCM_bp_false b hb]; rfl
      | true =>
        rw [blockCM_bp_true b hb]
        have : (SpecR.dedupBy (fun e : SpecR.Entry => (e.obf, e.args, e.name))
            (b.entries.filter (fun e => !e.inlined)) []).filter
              (fun e => e.obf == q.method && e.args == p) = [] := by
          rw [List.filter_eq_nil_iff]
          intro e he
          have he' := (List.mem_filter.mp (mem_dedupBy _ _ _ e he).1).1
          have := hne e he'
          simp [this]
        rw [this]; rfl

/-- line-based answers do not depend on whether the parameter index was requested -/
theorem C01_pm_indep (recs : List Record) (q : Frame) (hq : q.params = none) :
    (Mapper.build recs true).remapFrame q = (Mapper.build recs false).remapFrame q := by
  rw [remapFrame_line recs true q hq, remapFrame_line recs false q hq]

/-- in the property's domain (line numbers below 2^32-1 in the file, range containing the
    query line) the saturating offset is the plain ProGuard offset `os + (line - s)` -/
theorem C01_offset_exact (l : LineMapping) (os oe line : Nat)
    (h1 : l.originalStartline = some os) (h2 : l.originalEndline = some oe) (h3 : oe ≠ os)
    (hs : l.startline ≤ line) (he : line ≤ l.endline) (hb : l.endline < 4294967295) (hos : os < 4294967295) :
    SpecR.origLineOf (some l) line = os + (line - l.startline) := by
  simp only [SpecR.origLineOf, h1, h2, h3, if_false, SpecR.satAdd']
  have : os + line < 18446744073709551616 := by omega
  simp only [this, if_true]
  omega

/-- the order of distinctly named class blocks does not matter: the answer is a function of
    the last block with the queried name alone -/
theorem C01_block_local (recs₁ recs₂ : List Record) (q : Frame)
    (h : SpecR.lastBlock recs₁ q.cls = SpecR.lastBlock recs₂ q.cls) :
    SpecR.framesByLine recs₁ q = SpecR.framesByLine recs₂ q := by
  unfold SpecR.framesByLine
  rw [h]

/-- non-vacuity: the crate's own inline example, three frames for line 1 -/
example :
    (Mapper.build
      [.cls [79] [103],
       .method [118] [115] [111] [] (some [82]) (some ⟨1, 1, some 90, some 90⟩),
       .method [118] [102] [111] [] (some [82]) (some ⟨1, 1, some 83, none⟩),
       .method [118] [111] [111] [86] none (some ⟨1, 1, some 65, none⟩)] false).remapFrame
        ⟨[103], [111], 1, some [83], none⟩ =
    [⟨[82], [115], 90, none, none⟩, ⟨[82], [102], 83, none, none⟩, ⟨[79], [111], 65, some [83], none⟩] := by
  decide

end PG
