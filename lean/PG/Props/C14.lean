/-
  C14 — cache serialisation is a deterministic function of the mapping bytes.
  In the model `Cache.writeBytes` is a function, so two writes of the same bytes are equal by
  `rfl`; that the *crate* produces this one value in every process, thread and repetition is
  what the differential runs establish.  The provable content is the length law.
-/
import PG.Lemmas.WriterInv
namespace PG

/-- the length of every written file equals the length implied by the four section counts -/
theorem C14_length (recs : List Record) :
    (Cache.write recs).length =
      impliedLength (Tables.build recs).classes.length (Tables.build recs).members.length
        (Tables.build recs).byParams.length (Tables.build recs).strings.length :=
  bytes_length (Tables.build recs)

/-- …and those counts are the ones its own header declares -/
theorem C14_header (recs : List Record) (hs : (Tables.build recs).Small) :
    ∃ c, Cache.parse (Cache.write recs) = .ok c ∧
      (Cache.write recs).length = impliedLength c.numClasses c.numMembers c.numBp c.stringBytesDeclared := by
  refine ⟨Cache.ofTables (Tables.build recs), parse_bytes _ (build_fits recs hs), ?_⟩
  exact bytes_length (Tables.build recs)

/-- the output is a function of the mapping bytes alone -/
theorem C14_function (a b : Bytes) (h : a = b) : Cache.writeBytes a = Cache.writeBytes b := by
  rw [h]

end PG
