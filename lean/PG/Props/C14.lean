/-
  C14 — cache serialisation is a deterministic function of the mapping bytes.
  In the model `Cache.writeBytes` is a function, so two writes of the same bytes are equal by
  `rfl`; that the *crate* produces this one value in every process, thread and repetition is
  what the differential runs establish.  The provable content is the length law.
-/
import PG.Lemmas.WriterInv
import PG.Lemmas.HashOrder
namespace PG

/-- the length of every written file equals the length implied by the four section counts -/
theorem C14_length (recs : List Record) :
    (Cache.write recs).length =
      impliedLength (Tables.build recs).classes.length (Tables.build recs).members.length
        (Tables.build recs).byParams.length (Tables.build recs).strings.length :=
  bytes_length (Tables.build recs)

/-- …and those counts are the ones its own header declares -/
theorem C14_header (recs : List Record) (hs : (Tables.build recs).Small) :
    ∃ c, Cache.parse (Cache.write recs) = .ok c ∧
      (Cache.write recs).length = impliedLength c.numClasses c.numMembers c.numBp c.stringBytesDeclared := by
  refine ⟨Cache.ofTables (Tables.build recs), parse_bytes _ (build_fits recs hs), ?_⟩
  exact bytes_length (Tables.build recs)

/-- the output is a function of the mapping bytes alone -/
theorem C14_function (a b : Bytes) (h : a = b) : Cache.writeBytes a = Cache.writeBytes b := by
  rw [h]

/-! The only sources of run-to-run variation in the writer are its hash-ordered containers.
    `hash_ops_order_free` (re-checked against the current source on every run) shows the code only
    applies order-free operations to them; the lemmas below show that under such operations any
    two internal orders are indistinguishable — which is why the list-based model, with one fixed
    order, is a faithful model. -/

/-- tie to the source: no hash container is ever iterated -/
theorem C14_hash_ops_order_free :
    Generated.hashExtractorOk = true ∧ ∀ op ∈ Generated.hashOps, op.2.2 ∈ orderFreeOps :=
  hash_ops_order_free

/-- `HashSet::contains` / `insert`'s answer / `HashMap::get` agree for any two internal orders -/
theorem C14_membership_order_indep {α : Type} [BEq α] [LawfulBEq α] {l₁ l₂ : List α}
    (h : l₁.Perm l₂) (p₁ p₂ : Nat) (x : α) :
    l₁.contains x = l₂.contains x ∧
    (insertNewAt p₁ x l₁).1 = (insertNewAt p₂ x l₂).1 ∧
    (insertNewAt p₁ x l₁).2.Perm (insertNewAt p₂ x l₂).2 :=
  ⟨contains_perm h x, insertNew_perm h p₁ p₂ x⟩

theorem C14_lookup_order_indep {α β : Type} [BEq α] [LawfulBEq α] {l₁ l₂ : List (α × β)}
    (h : l₁.Perm l₂) (nd : (l₁.map Prod.fst).Nodup) (k : α) : l₁.lookup k = l₂.lookup k :=
  lookup_perm h nd k

end PG
