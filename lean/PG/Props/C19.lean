/-
  C19 — file-level metadata answers equal a fold over the complete record stream.
-/
import PG.Model.Meta
import PG.Lemmas.ListBasics
import PG.Lemmas.MetaL
namespace PG

/-- value of the last header with key `k` in the stream (`none` = no such header;
    `some none` = the last one has no value) -/
def lastHeader (k : Bytes) (items : List Item) : Option (Option Bytes) :=
  (items.filterMap (fun it => match it with
    | .ok (.header key v) => if key == k then some v else none
    | _ => none)).getLast?

theorem lastHeader_eq_lastHdr (k : Bytes) (items : List Item) :
    lastHeader k items = lastHdr k items := by
  unfold lastHeader lastHdr
  congr 2

/-- 'has line info' is true exactly when some method record anywhere in the stream carries a
    line mapping -/
theorem C19_line_info (bs : Bytes) :
    hasLineInfo bs = true ↔
      ∃ ty o b a c lm, Item.ok (.method ty o b a c (some lm)) ∈ records bs := by
  unfold hasLineInfo
  exact any_lineMethod_iff _

/-- class and method counts are the numbers of class and method records -/
theorem C19_counts (bs : Bytes) :
    (summary bs).classCount = (records bs).countP Item.isClass ∧
    (summary bs).methodCount = (records bs).countP Item.isMethod := by
  unfold summary
  rw [foldl_classCount, foldl_methodCount]
  simp

/-- compiler, compiler_version and min_api are the values of the *last* corresponding
    headers; a later header without value, or with a value that is not a `u32`, resets it -/
theorem C19_last_header (bs : Bytes) :
    (summary bs).compiler = (lastHeader litCompiler (records bs)).join ∧
    (summary bs).compilerVersion = (lastHeader litCompilerVersion (records bs)).join ∧
    (summary bs).minApi = ((lastHeader litMinApi (records bs)).join).bind (parseUnsignedStr u32Bound) := by
  unfold summary
  simp only [lastHeader_eq_lastHdr]
  rw [foldl_compiler, foldl_compilerVersion, foldl_minApi]
  refine ⟨?_, ?_, ?_⟩
  · cases lastHdr litCompiler (records bs) <;> rfl
  · cases lastHdr litCompilerVersion (records bs) <;> rfl
  · cases lastHdr litMinApi (records bs) <;> rfl

/-- 'is valid' is true exactly when, among the first 50 items of the stream, a class record
    is followed (not necessarily directly) by a field or method record -/
theorem C19_valid (bs : Bytes) :
    isValid bs = true ↔
      ∃ i j ci mj, i < j ∧ j < 50 ∧ (records bs)[i]? = some ci ∧ ci.isClass = true ∧
        (records bs)[j]? = some mj ∧ mj.isMember = true := by
  unfold isValid
  exact isValidGo_take_iff _ 50

end PG
