/-
  C11 — torn, foreign or wrong-version cache files are rejected, never half-read.
-/
import PG.Lemmas.WriterInv
import PG.Lemmas.Unaligned
namespace PG

/-- Every strict prefix of every written file (what a crash during writing can leave behind)
    is rejected by the parser — for every record list whose tables fit the `u32` counters,
    inside or outside the representable domain.  (Stronger than the property, which would
    also allow a prefix that answers like the full file.) -/
theorem C11_prefix (recs : List Record) (hs : (Tables.build recs).Small) (k : Nat)
    (hk : k < (Cache.write recs).length) :
    ∃ e, Cache.parse ((Cache.write recs).take k) = .error e :=
  parse_prefix_rejected (Tables.build recs) (build_fits recs hs) k hk

/-- The same for a file that does not start at a multiple of 8 (it sits inside another buffer):
    `Cache.parseAt a` is the reader at an address ≡ `a` (mod 8), `Cache.parse = Cache.parseAt 0`.
    Neither the whole written file nor any prefix of it is accepted there, so nothing is ever read
    with its sections shifted. -/
theorem C11_unaligned (recs : List Record) (hs : (Tables.build recs).Small) (a : Nat) (ha : a % 8 ≠ 0)
    (k : Nat) : ∃ e, Cache.parseAt a ((Cache.write recs).take k) = .error e :=
  parseAt_written_rejected (Tables.build recs) (build_fits recs hs) a ha k

theorem C11_parseAt_zero (buf : Bytes) : Cache.parseAt 0 buf = Cache.parse buf := parseAt_zero buf

/-- The decision sequence of the parser, in check order, for every buffer: shorter than the
    header ⇒ `InvalidHeader`; byte-swapped magic ⇒ `WrongEndianness`; other magic ⇒
    `WrongFormat`; other version ⇒ `WrongVersion`; too short for the declared classes ⇒
    `InvalidClasses`; for the declared members or by-params entries (or their padding) ⇒
    `InvalidMembers`; fewer string bytes than declared ⇒ `UnexpectedStringBytes` with the
    exact numbers; otherwise accepted. -/
theorem C11_kinds (buf : Bytes) :
    (buf.length < 24 → Cache.parse buf = .error .invalidHeader) ∧
    (∀ magic version nc nm nb sb rest, rdFields 6 buf = some ([magic, version, nc, nm, nb, sb], rest) →
      (magic = magicFlipped → Cache.parse buf = .error .wrongEndianness) ∧
      (magic ≠ magicFlipped → magic ≠ magicPRGC → Cache.parse buf = .error .wrongFormat) ∧
      (magic = magicPRGC → version ≠ cacheVersion → Cache.parse buf = .error .wrongVersion) ∧
      (magic = magicPRGC → version = cacheVersion →
        (buf.length < endClasses nc → Cache.parse buf = .error .invalidClasses) ∧
        (endClasses nc ≤ buf.length → buf.length < endMembers nc nm → Cache.parse buf = .error .invalidMembers) ∧
        (endMembers nc nm ≤ buf.length → buf.length < endBp nc nm nb → Cache.parse buf = .error .invalidMembers) ∧
        (endBp nc nm nb ≤ buf.length → buf.length < startStrings nc nm nb →
            Cache.parse buf = .error (.unexpectedStringBytes sb 0)) ∧
        (startStrings nc nm nb ≤ buf.length → buf.length < impliedLength nc nm nb sb →
            Cache.parse buf = .error (.unexpectedStringBytes sb (buf.length - startStrings nc nm nb))) ∧
        (impliedLength nc nm nb sb ≤ buf.length → ∃ c, Cache.parse buf = .ok c))) :=
  parse_characterised buf

/-- the magic constants are what the format says: "PRGC" little-endian and its byte swap -/
theorem C11_magic : le32 magicPRGC = [80, 82, 71, 67] ∧ le32 magicFlipped = [67, 71, 82, 80] := by
  decide

/-- non-vacuity: a concrete written file, one of its prefixes and the error it gets -/
example : (match Cache.parse ((Cache.write [Record.cls [111] [97]]).take 30) with
    | .error .invalidClasses => true
    | _ => false) = true := by
  decide

/-- non-vacuity: the same file, whole, at an address ≡ 4 (mod 8) -/
example : (match Cache.parseAt 4 (Cache.write [Record.cls [111] [97]]) with
    | .error (.unexpectedStringBytes _ _) => true
    | _ => false) = true := by
  decide

end PG
