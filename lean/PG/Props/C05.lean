/-
  C05 — well-formed mapping lines parse to exactly their parts; malformed ones error.
-/
import PG.Spec.Grammar
import PG.Lemmas.ListBasics
import PG.Lemmas.ParserRT
import PG.Lemmas.ParserRT2
namespace PG
open Line

/-- Every header, class, field or method line printed from the grammar, followed by any line
    terminator (LF, CR, CRLF, several of them) and any further input, or by the end of the
    input, parses to exactly the record it denotes; the parser resumes at the next
    non-terminator byte. -/
theorem C05_line (a : Line) (h : a.WF) (tail : Bytes) (ht : TailOK tail) :
    parseRecord (a.print ++ tail) = (.ok a.toRecord, consumeNewlines tail) := by
  cases a with
  | cls orig obf => exact C05_line_cls orig obf h tail ht
  | field ty name obf => exact C05_line_field ty name obf h tail ht
  | method range ty fc name args orig obf => exact C05_line_method range ty fc name args orig obf h tail ht
  | headerKV key value => exact C05_line_headerKV key value h tail ht
  | headerKey key => exact C05_line_headerKey key h tail ht
  | sourceFile value => exact C05_line_sourceFile value h tail ht

/-- `ProguardRecord::try_parse` on a single printed line, with or without trailing terminators -/
theorem C05_try (a : Line) (h : a.WF) (nls : Bytes) (hn : ∀ b ∈ nls, isNewline b = true) :
    tryParse (a.print ++ nls) = .ok a.toRecord := by
  unfold tryParse
  rw [C05_line a h nls (tailOK_of_newlines nls hn), consumeNewlines_all nls hn]
  rfl

/-- the iterator over a sequence of printed lines followed by a remainder `S` at which the
    iterator may resume -/
theorem records_lines (ls : List (Line × Bytes))
    (h : ∀ p ∈ ls, p.1.WF ∧ p.2 ≠ [] ∧ ∀ b ∈ p.2, isNewline b = true)
    (S : Bytes) (R : List Item) (hS : consumeNewlines S = S)
    (hR : ∀ k, S.length ≤ k → recordsFuel k S = R) (n : Nat)
    (hn : ((ls.map (fun p => p.1.print ++ p.2)).flatten ++ S).length ≤ n) :
    recordsFuel n ((ls.map (fun p => p.1.print ++ p.2)).flatten ++ S) =
      ls.map (fun p => .ok p.1.toRecord) ++ R := by
  induction ls generalizing n with
  | nil => simpa using hR n (by simpa using hn)
  | cons p ls ih =>
    obtain ⟨hwf, hne, hnl⟩ := h p (by simp)
    have hrest : ∀ q ∈ ls, q.1.WF ∧ q.2 ≠ [] ∧ ∀ b ∈ q.2, isNewline b = true :=
      fun q hq => h q (by simp [hq])
    obtain ⟨b, r, e, hb⟩ := print_head p.1 hwf
    simp only [List.map_cons, List.flatten_cons, List.append_assoc] at hn ⊢
    cases n with
    | zero => simp [e] at hn
    | succ m =>
      have hm : ((ls.map (fun p => p.1.print ++ p.2)).flatten ++ S).length ≤ m := by
        simp only [e, List.length_append, List.length_cons] at hn ⊢
        omega
      have hcn : consumeNewlines ((ls.map (fun p => p.1.print ++ p.2)).flatten ++ S) =
          (ls.map (fun p => p.1.print ++ p.2)).flatten ++ S := by
        cases ls with
        | nil => simpa using hS
        | cons q ls' =>
          simp only [List.map_cons, List.flatten_cons, List.append_assoc]
          exact consumeNewlines_print q.1 (hrest q (by simp)).1 _
      have hpr := C05_line p.1 hwf (p.2 ++ ((ls.map (fun p => p.1.print ++ p.2)).flatten ++ S))
        (tailOK_append _ _ hne hnl)
      rw [consumeNewlines_append _ _ hnl, hcn] at hpr
      have hne' : (p.1.print ++ (p.2 ++ ((ls.map (fun p => p.1.print ++ p.2)).flatten ++ S))).isEmpty = false := by
        simp [e]
      simp only [recordsFuel, hne', hpr, Bool.false_eq_true, if_false]
      rw [ih hrest m hm]
      simp

/-- as part of a file: a sequence of printed lines, each followed by at least one terminator
    byte (any mix of CR / LF), parses to exactly the sequence of their records -/
theorem C05_file (ls : List (Line × Bytes))
    (h : ∀ p ∈ ls, p.1.WF ∧ p.2 ≠ [] ∧ ∀ b ∈ p.2, isNewline b = true) :
    records ((ls.map (fun p => p.1.print ++ p.2)).flatten) = ls.map (fun p => .ok p.1.toRecord) := by
  have := records_lines ls h [] [] rfl (fun k _ => recordsFuel_nil k)
    ((ls.map (fun p => p.1.print ++ p.2)).flatten).length (by simp)
  simpa [records] using this

/-- …and the last line may lack its terminator -/
theorem C05_file_no_final_newline (ls : List (Line × Bytes)) (last : Line)
    (h : ∀ p ∈ ls, p.1.WF ∧ p.2 ≠ [] ∧ ∀ b ∈ p.2, isNewline b = true) (hl : last.WF) :
    records ((ls.map (fun p => p.1.print ++ p.2)).flatten ++ last.print) =
      ls.map (fun p => .ok p.1.toRecord) ++ [.ok last.toRecord] := by
  unfold records
  apply records_lines ls h last.print [.ok last.toRecord]
  · simpa using consumeNewlines_print last hl []
  · intro k hk
    obtain ⟨b, r, e, hb⟩ := print_head last hl
    have hpr := C05_line last hl [] (Or.inl rfl)
    simp only [List.append_nil] at hpr
    cases k with
    | zero => simp [e] at hk
    | succ m =>
      have : last.print.isEmpty = false := by simp [e]
      simp only [recordsFuel, this, hpr, Bool.false_eq_true, if_false]
      simp [consumeNewlines, recordsFuel_nil]
  · exact Nat.le_refl _

/-- the error item produced for a malformed line: the offending line including its first
    terminator byte; parsing resumes right behind it -/
def errResult (bad tail : Bytes) : Item × Bytes := (.err (bad ++ tail.take 1), tail.drop 1)

/-- unspaced arrow: `orig->obf:` -/
theorem C05_err_unspaced_arrow (orig obf tail : Bytes) (ht : TailOK tail)
    (ho : noNl orig ∧ 32 ∉ orig ∧ orig.head? ≠ some 35) (hb : noNl obf ∧ 32 ∉ obf) :
    parseRecord (orig ++ [45, 62] ++ obf ++ [58] ++ tail) = errResult (orig ++ [45, 62] ++ obf ++ [58]) tail := by
  obtain ⟨hn1, h32, h35⟩ := ho
  obtain ⟨hn2, h32b⟩ := hb
  have hbad : ∀ b ∈ orig ++ [45, 62] ++ obf ++ [58], isNewline b = false ∧ (b == 32) = false := by
    intro b hb
    simp only [List.mem_append, List.mem_cons, List.not_mem_nil, or_false] at hb
    rcases hb with ((hb | rfl | rfl) | hb) | rfl
    · exact ⟨hn1 b hb, beq_false_of_nmem _ _ h32 b hb⟩
    · decide
    · decide
    · exact ⟨hn2 b hb, beq_false_of_nmem _ _ h32b b hb⟩
    · decide
  apply parseRecord_class_err _ tail (fun b hb => (hbad b hb).1) ht
  · have := class_dispatch orig (45 :: 62 :: (obf ++ 58 :: tail)) hn1 h32 h35
      (fun _ => by simp [consumeNewlines, startsWith, stripPrefix, litIndent, isNewline])
    simpa using this
  · unfold parseClass
    cases hp : parseUntilNoNewline (· == 32) (orig ++ [45, 62] ++ obf ++ [58] ++ tail) with
    | none => rfl
    | some x =>
      have := pUNN_tail _ _ tail (fun b hb => (hbad b hb).1) (fun b hb => (hbad b hb).2) ht.headSat x hp
      subst this
      simp [stripPrefix, litArrow]

/-- missing arrow: `orig obf:` -/
theorem C05_err_missing_arrow (orig obf tail : Bytes) (ht : TailOK tail)
    (ho : noNl orig ∧ 32 ∉ orig ∧ orig.head? ≠ some 35 ∧ orig ≠ []) (hb : noNl obf ∧ 32 ∉ obf) :
    parseRecord (orig ++ [32] ++ obf ++ [58] ++ tail) = errResult (orig ++ [32] ++ obf ++ [58]) tail := by
  obtain ⟨hn1, h32, h35, hne⟩ := ho
  obtain ⟨hn2, h32b⟩ := hb
  have hbad : ∀ b ∈ orig ++ [32] ++ obf ++ [58], isNewline b = false := by
    intro b hb
    simp only [List.mem_append, List.mem_cons, List.not_mem_nil, or_false] at hb
    rcases hb with ((hb | rfl) | hb) | rfl
    · exact hn1 b hb
    · decide
    · exact hn2 b hb
    · decide
  have hform : orig ++ [32] ++ obf ++ [58] ++ tail = orig ++ 32 :: (obf ++ 58 :: tail) := by simp
  apply parseRecord_class_err _ tail hbad ht
  · rw [hform]
    exact class_dispatch orig _ hn1 h32 h35 (fun e => absurd e hne)
  · rw [hform]
    unfold parseClass
    cases hp : parseUntilNoNewline (· == 32) (orig ++ 32 :: (obf ++ 58 :: tail)) with
    | none => rfl
    | some x =>
      have hs : stripPrefix litArrow (32 :: (obf ++ 58 :: tail)) = none := by
        rcases obf with _ | ⟨o0, _ | ⟨o1, _ | ⟨o2, obf⟩⟩⟩ <;>
          simp [litArrow, stripPrefix] at h32b ⊢
        intro _ _ h2; exact absurd h2 h32b.2.2.1
      by_cases hu : validUtf8 orig = true
      · rw [pUNN_ok _ orig 32 _ hu hn1 (beq_false_of_nmem _ _ h32) (by decide) (by decide)] at hp
        cases hp
        simp only [hs]
      · exfalso
        unfold parseUntilNoNewline parseUntil at hp
        rw [spanUntil_append _ orig (32 :: (obf ++ 58 :: tail))
          (by intro b hb; simp [hn1 b hb, beq_false_of_nmem _ _ h32 b hb])
          (HeadSat.cons _ _ _ (by decide))] at hp
        simp [hu] at hp

/-- missing class colon: `orig -> obf` -/
theorem C05_err_missing_colon (orig obf tail : Bytes) (ht : TailOK tail)
    (ho : noNl orig ∧ 32 ∉ orig ∧ orig.head? ≠ some 35) (hb : noNl obf ∧ 58 ∉ obf) :
    parseRecord (orig ++ litArrow ++ obf ++ tail) = errResult (orig ++ litArrow ++ obf) tail := by
  obtain ⟨hn1, h32, h35⟩ := ho
  obtain ⟨hn2, h58⟩ := hb
  have hbad : ∀ b ∈ orig ++ litArrow ++ obf, isNewline b = false := by
    intro b hb
    simp only [litArrow, List.mem_append, List.mem_cons, List.not_mem_nil, or_false] at hb
    rcases hb with (hb | rfl | rfl | rfl | rfl) | hb
    · exact hn1 b hb
    · decide
    · decide
    · decide
    · decide
    · exact hn2 b hb
  have hform : orig ++ litArrow ++ obf ++ tail = orig ++ 32 :: 45 :: 62 :: 32 :: (obf ++ tail) := by
    simp [litArrow]
  apply parseRecord_class_err _ tail hbad ht
  · rw [hform]
    exact class_dispatch orig _ hn1 h32 h35 (fun _ => dispatch_arrow _)
  · rw [hform]
    unfold parseClass
    cases hp : parseUntilNoNewline (· == 32) (orig ++ 32 :: 45 :: 62 :: 32 :: (obf ++ tail)) with
    | none => rfl
    | some x =>
      have := pUNN_delim _ orig 32 _ hn1 (beq_false_of_nmem _ _ h32) (by decide) (by decide) x hp
      subst this
      simp only [litArrow, stripPrefix, beq_self_eq_true, if_true]
      cases hp2 : parseUntilNoNewline (· == 58) (obf ++ tail) with
      | none => rfl
      | some y =>
        have := pUNN_tail _ obf tail hn2 (beq_false_of_nmem _ _ h58) ht.headSat y hp2
        subst this
        simp [stripPrefix]

/-- start line without end line: `    5:void x() -> y` -/
theorem C05_err_start_without_end (s : Nat) (rest tail : Bytes) (ht : TailOK tail)
    (hs : s < usizeBound) (hr : noNl rest ∧ Line.noLeadNum rest) :
    parseRecord (litIndent ++ natToDec s ++ [58] ++ rest ++ tail) =
      errResult (litIndent ++ natToDec s ++ [58] ++ rest) tail := by
  obtain ⟨hn, hnum⟩ := hr
  have hbad : ∀ b ∈ litIndent ++ natToDec s ++ [58] ++ rest, isNewline b = false := by
    intro b hb
    simp only [litIndent, List.mem_append, List.mem_cons, List.not_mem_nil, or_false] at hb
    rcases hb with (((rfl | rfl | rfl | rfl) | hb) | rfl) | hb
    · decide
    · decide
    · decide
    · decide
    · exact natToDec_noNl s b hb
    · decide
    · exact hn b hb
  have hform : litIndent ++ natToDec s ++ [58] ++ rest ++ tail =
      32 :: 32 :: 32 :: 32 :: (natToDec s ++ 58 :: (rest ++ tail)) := by
    simp [litIndent]
  obtain ⟨d0, d1, d2, d3⟩ := member_dispatch (natToDec s ++ 58 :: (rest ++ tail))
  apply parseRecord_member_err _ tail hbad ht
  · rw [hform]; exact ⟨d0, d1, d2⟩
  · rw [hform]
    have e1 : parseUsize (natToDec s ++ 58 :: (rest ++ tail)) = some (s, 58 :: (rest ++ tail)) :=
      parseUsize_natToDec s _ hs (by intro b hb; simp at hb; subst hb; decide)
    have e2 : parseUsize (rest ++ tail) = none := by
      apply parseUsize_none
      intro b hb
      cases rest with
      | nil =>
        simp only [List.nil_append] at hb
        rcases isNewline_cases b (ht.headSat b hb) with rfl | rfl <;> decide
      | cons x r => simp at hb; subst hb; exact hnum x rfl
    simp [parseMember, d3, parseLinePrefix, e1, e2, stripPrefix]

/-- missing return type: `    name(args) -> obf` -/
theorem C05_err_missing_type (name args obf tail : Bytes) (ht : TailOK tail)
    (hn : noNl name ∧ 32 ∉ name ∧ Line.noLeadNum name) (ha : noNl args ∧ 32 ∉ args)
    (hb : noNl obf ∧ stripPrefix [45, 62, 32] obf = none) :
    parseRecord (litIndent ++ name ++ [40] ++ args ++ [41] ++ litArrow ++ obf ++ tail) =
      errResult (litIndent ++ name ++ [40] ++ args ++ [41] ++ litArrow ++ obf) tail := by
  obtain ⟨hn1, h32n, hnum⟩ := hn
  obtain ⟨hn2, h32a⟩ := ha
  obtain ⟨hn3, hsp⟩ := hb
  have hcomp : ∀ b ∈ name ++ 40 :: (args ++ [41]), isNewline b = false ∧ (b == 32) = false := by
    intro b hb
    simp only [List.mem_append, List.mem_cons, List.not_mem_nil, or_false] at hb
    rcases hb with hb | rfl | hb | rfl
    · exact ⟨hn1 b hb, beq_false_of_nmem _ _ h32n b hb⟩
    · decide
    · exact ⟨hn2 b hb, beq_false_of_nmem _ _ h32a b hb⟩
    · decide
  have hbad : ∀ b ∈ litIndent ++ name ++ [40] ++ args ++ [41] ++ litArrow ++ obf, isNewline b = false :=
    all_append (all_append (all_append (all_append (all_append (all_append (by decide) hn1) (by decide)) hn2)
      (by decide)) (by decide)) hn3
  have hform : litIndent ++ name ++ [40] ++ args ++ [41] ++ litArrow ++ obf ++ tail =
      32 :: 32 :: 32 :: 32 :: ((name ++ 40 :: (args ++ [41])) ++ 32 :: ([45, 62] ++ 32 :: (obf ++ tail))) := by
    simp [litIndent, litArrow]
  generalize hc : name ++ 40 :: (args ++ [41]) = comp at hcomp hform
  obtain ⟨d0, d1, d2, d3⟩ := member_dispatch (comp ++ 32 :: ([45, 62] ++ 32 :: (obf ++ tail)))
  apply parseRecord_member_err _ tail hbad ht
  · rw [hform]; exact ⟨d0, d1, d2⟩
  · rw [hform]
    have e0 : parseLinePrefix (comp ++ 32 :: ([45, 62] ++ 32 :: (obf ++ tail))) =
        some (none, comp ++ 32 :: ([45, 62] ++ 32 :: (obf ++ tail))) := by
      apply parseLinePrefix_none
      subst hc
      rw [List.append_assoc]
      exact noLeadNum_append name 40 _ hnum (by decide)
    have e2 : parseUntilNoNewline (fun c => c == 32 || c == 40) (45 :: 62 :: 32 :: (obf ++ tail)) =
        some ([45, 62], 32 :: (obf ++ tail)) :=
      pUNN_ok _ [45, 62] 32 _ (by decide) (by decide) (by decide) (by decide) (by decide)
    have e3 : stripPrefix [45, 62, 32] (obf ++ tail) = none := stripPrefix_arrowTail obf tail hsp ht.headSat
    simp only [parseMember, d3, e0]
    cases hp : parseUntilNoNewline (· == 32) (comp ++ 32 :: ([45, 62] ++ 32 :: (obf ++ tail))) with
    | none => rfl
    | some x =>
      have := pUNN_delim _ comp 32 _ (fun b hb => (hcomp b hb).1) (fun b hb => (hcomp b hb).2)
        (by decide) (by decide) x hp
      subst this
      simp [stripPrefix, e2, litArrow, e3]

/-- indentation other than four spaces (0–3 spaces) in front of a method line with a non-empty
    return type -/
theorem C05_err_indent (k : Nat) (hk : k < 4) (ty name args obf tail : Bytes) (ht : TailOK tail)
    (hty : noNl ty ∧ 32 ∉ ty ∧ ty ≠ [] ∧ ty.head? ≠ some 35 ∧ ty.head? ≠ some 45)
    (hn : noNl name ∧ 32 ∉ name ∧ name.head? ≠ some 45) (ha : noNl args) (hb : noNl obf) :
    parseRecord (List.replicate k 32 ++ ty ++ [32] ++ name ++ [40] ++ args ++ [41] ++ litArrow ++ obf ++ tail) =
      errResult (List.replicate k 32 ++ ty ++ [32] ++ name ++ [40] ++ args ++ [41] ++ litArrow ++ obf) tail := by
  obtain ⟨hn1, h32, hne, h35, h45⟩ := hty
  obtain ⟨hn2, h32n, h45n⟩ := hn
  have hrep : ∀ b ∈ List.replicate k (32 : UInt8), isNewline b = false := by
    intro b hb; rw [List.eq_of_mem_replicate hb]; decide
  have hbad : ∀ b ∈ List.replicate k 32 ++ ty ++ [32] ++ name ++ [40] ++ args ++ [41] ++ litArrow ++ obf,
      isNewline b = false :=
    all_append (all_append (all_append (all_append (all_append (all_append (all_append (all_append
      hrep hn1) (by decide)) hn2) (by decide)) ha) (by decide)) (by decide)) hb
  generalize hR : name ++ 40 :: (args ++ 41 :: 32 :: 45 :: 62 :: 32 :: (obf ++ tail)) = R
  have hform : List.replicate k 32 ++ ty ++ [32] ++ name ++ [40] ++ args ++ [41] ++ litArrow ++ obf ++ tail =
      List.replicate k 32 ++ (ty ++ 32 :: R) := by
    subst hR; simp [litArrow]
  have hRs : stripPrefix [45, 62, 32] R = none := by
    subst hR
    cases name with
    | nil => simp [stripPrefix]
    | cons n0 name =>
      have : n0 ≠ 45 := by rintro rfl; simp at h45n
      simp [stripPrefix, Ne.symm this]
  apply parseRecord_class_err _ tail hbad ht
  · rw [hform]
    rcases k with _ | _ | _ | _ | k
    · simpa using class_dispatch ty (32 :: R) hn1 h32 h35 (fun e => absurd e hne)
    all_goals
      first
      | omega
      | (obtain ⟨t0, ty', rfl⟩ := List.exists_cons_of_ne_nil hne
         have t1 : t0 ≠ 32 := by rintro rfl; simp at h32
         simp [List.replicate, consumeNewlines, startsWith, stripPrefix, litIndent, isNewline, Ne.symm t1])
  · rw [hform]
    unfold parseClass
    rcases k with _ | k
    · simp only [List.replicate, List.nil_append]
      cases hp : parseUntilNoNewline (· == 32) (ty ++ 32 :: R) with
      | none => rfl
      | some x =>
        have := pUNN_delim _ ty 32 R hn1 (beq_false_of_nmem _ _ h32) (by decide) (by decide) x hp
        subst this
        simp [litArrow, stripPrefix, hRs]
    · have e1 : parseUntilNoNewline (· == 32) (List.replicate (k + 1) 32 ++ (ty ++ 32 :: R)) =
          some ([], 32 :: (List.replicate k 32 ++ (ty ++ 32 :: R))) :=
        pUNN_ok _ [] 32 _ (by decide) (by simp) (by simp) (by decide) (by decide)
      rw [e1]
      have e2 : stripPrefix litArrow (32 :: (List.replicate k 32 ++ (ty ++ 32 :: R))) = none := by
        rcases k with _ | k
        · obtain ⟨t0, ty', rfl⟩ := List.exists_cons_of_ne_nil hne
          have t1 : t0 ≠ 45 := by rintro rfl; simp at h45
          simp [litArrow, stripPrefix, Ne.symm t1]
        · simp [litArrow, stripPrefix, List.replicate]
      simp only [e2]

/-! ### non-vacuity: the hypotheses are satisfiable by concrete lines of every kind -/

example : (Line.method (some (1016, 1016)) [118, 111, 105, 100] (some [99, 111, 109, 46, 66]) [100, 111] [] (some (16, some 16)) [98]).WF := by
  refine ⟨str_of_decide _ (by decide), str_of_decide _ (by decide), str_of_decide _ (by decide),
    str_of_decide _ (by decide), ?_, by decide, ?_, by decide, by decide, by decide, by decide, ?_, ?_⟩
  · intro c hc; cases hc
    exact ⟨str_of_decide _ (by decide), by decide, by decide⟩
  · intro h; cases h
  · intro s e h; cases h
    constructor <;> (unfold usizeBound; omega)
  · intro os oe h; cases h
    refine ⟨by unfold usizeBound; omega, ?_⟩
    intro x hx; cases hx
    unfold usizeBound; omega

example : (Line.cls [97, 46, 66] [97]).WF ∧ (Line.headerKV [107] [118]).WF ∧ (Line.sourceFile [70, 46, 107, 116]).WF := by
  refine ⟨⟨str_of_decide _ (by decide), str_of_decide _ (by decide), by decide, by decide, by decide⟩,
    ⟨str_of_decide _ (by decide), str_of_decide _ (by decide), by decide, by decide, by decide⟩,
    ⟨str_of_decide _ (by decide), by decide⟩⟩

end PG
