/-
  C05 — well-formed mapping lines parse to exactly their parts; malformed ones error.
-/
import PG.Spec.Grammar
import PG.Lemmas.ListBasics
namespace PG
open Line

/-- Every header, class, field or method line printed from the grammar, followed by any line
    terminator (LF, CR, CRLF, several of them) and any further input, or by the end of the
    input, parses to exactly the record it denotes; the parser resumes at the next
    non-terminator byte. -/
theorem C05_line (a : Line) (h : a.WF) (tail : Bytes) (ht : TailOK tail) :
    parseRecord (a.print ++ tail) = (.ok a.toRecord, consumeNewlines tail) := by
  sorry

/-- `ProguardRecord::try_parse` on a single printed line, with or without trailing terminators -/
theorem C05_try (a : Line) (h : a.WF) (nls : Bytes) (hn : ∀ b ∈ nls, isNewline b = true) :
    tryParse (a.print ++ nls) = .ok a.toRecord := by
  sorry

/-- as part of a file: a sequence of printed lines, each followed by at least one terminator
    byte (any mix of CR / LF), parses to exactly the sequence of their records -/
theorem C05_file (ls : List (Line × Bytes))
    (h : ∀ p ∈ ls, p.1.WF ∧ p.2 ≠ [] ∧ ∀ b ∈ p.2, isNewline b = true) :
    records ((ls.map (fun p => p.1.print ++ p.2)).flatten) = ls.map (fun p => .ok p.1.toRecord) := by
  sorry

/-- …and the last line may lack its terminator -/
theorem C05_file_no_final_newline (ls : List (Line × Bytes)) (last : Line)
    (h : ∀ p ∈ ls, p.1.WF ∧ p.2 ≠ [] ∧ ∀ b ∈ p.2, isNewline b = true) (hl : last.WF) :
    records ((ls.map (fun p => p.1.print ++ p.2)).flatten ++ last.print) =
      ls.map (fun p => .ok p.1.toRecord) ++ [.ok last.toRecord] := by
  sorry

/-- the error item produced for a malformed line: the offending line including its first
    terminator byte; parsing resumes right behind it -/
def errResult (bad tail : Bytes) : Item × Bytes := (.err (bad ++ tail.take 1), tail.drop 1)

/-- unspaced arrow: `orig->obf:` -/
theorem C05_err_unspaced_arrow (orig obf tail : Bytes) (ht : TailOK tail)
    (ho : noNl orig ∧ 32 ∉ orig ∧ orig.head? ≠ some 35) (hb : noNl obf ∧ 32 ∉ obf) :
    parseRecord (orig ++ [45, 62] ++ obf ++ [58] ++ tail) = errResult (orig ++ [45, 62] ++ obf ++ [58]) tail := by
  sorry

/-- missing arrow: `orig obf:` -/
theorem C05_err_missing_arrow (orig obf tail : Bytes) (ht : TailOK tail)
    (ho : noNl orig ∧ 32 ∉ orig ∧ orig.head? ≠ some 35 ∧ orig ≠ []) (hb : noNl obf ∧ 32 ∉ obf) :
    parseRecord (orig ++ [32] ++ obf ++ [58] ++ tail) = errResult (orig ++ [32] ++ obf ++ [58]) tail := by
  sorry

/-- missing class colon: `orig -> obf` -/
theorem C05_err_missing_colon (orig obf tail : Bytes) (ht : TailOK tail)
    (ho : noNl orig ∧ 32 ∉ orig ∧ orig.head? ≠ some 35) (hb : noNl obf ∧ 58 ∉ obf) :
    parseRecord (orig ++ litArrow ++ obf ++ tail) = errResult (orig ++ litArrow ++ obf) tail := by
  sorry

/-- start line without end line: `    5:void x() -> y` -/
theorem C05_err_start_without_end (s : Nat) (rest tail : Bytes) (ht : TailOK tail)
    (hs : s < usizeBound) (hr : noNl rest ∧ Line.noLeadNum rest) :
    parseRecord (litIndent ++ natToDec s ++ [58] ++ rest ++ tail) =
      errResult (litIndent ++ natToDec s ++ [58] ++ rest) tail := by
  sorry

/-- missing return type: `    name(args) -> obf` -/
theorem C05_err_missing_type (name args obf tail : Bytes) (ht : TailOK tail)
    (hn : noNl name ∧ 32 ∉ name ∧ Line.noLeadNum name) (ha : noNl args ∧ 32 ∉ args)
    (hb : noNl obf ∧ stripPrefix [45, 62, 32] obf = none) :
    parseRecord (litIndent ++ name ++ [40] ++ args ++ [41] ++ litArrow ++ obf ++ tail) =
      errResult (litIndent ++ name ++ [40] ++ args ++ [41] ++ litArrow ++ obf) tail := by
  sorry

/-- indentation other than four spaces (0–3 spaces) in front of a method line with a non-empty
    return type -/
theorem C05_err_indent (k : Nat) (hk : k < 4) (ty name args obf tail : Bytes) (ht : TailOK tail)
    (hty : noNl ty ∧ 32 ∉ ty ∧ ty ≠ [] ∧ ty.head? ≠ some 35 ∧ ty.head? ≠ some 45)
    (hn : noNl name ∧ 32 ∉ name ∧ name.head? ≠ some 45) (ha : noNl args) (hb : noNl obf) :
    parseRecord (List.replicate k 32 ++ ty ++ [32] ++ name ++ [40] ++ args ++ [41] ++ litArrow ++ obf ++ tail) =
      errResult (List.replicate k 32 ++ ty ++ [32] ++ name ++ [40] ++ args ++ [41] ++ litArrow ++ obf) tail := by
  sorry

/-! ### non-vacuity: the hypotheses are satisfiable by concrete lines of every kind -/

example : (Line.method (some (1016, 1016)) [118, 111, 105, 100] (some [99, 111, 109, 46, 66]) [100, 111] [] (some (16, some 16)) [98]).WF := by
  sorry

example : (Line.cls [97, 46, 66] [97]).WF ∧ (Line.headerKV [107] [118]).WF ∧ (Line.sourceFile [70, 46, 107, 116]).WF := by
  sorry

end PG
