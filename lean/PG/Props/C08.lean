/-
  C08 — typed stack-trace remapping keeps every element and agrees with the text API.
  Statements are about `remapTyped rc rf` / `remapText rc rf`, the model functions behind the
  mapper's and the cache's APIs.
-/
import PG.Props.C17
namespace PG

/-- same cause-chain depth -/
theorem C08_depth (rc : Bytes → Option Bytes) (rf : Frame → List Frame) (t : Trace) :
    (remapTyped rc rf t).causes.length = t.causes.length := by
  sorry

/-- every throwable, at every level, is either remapped or kept unchanged; none is dropped -/
theorem C08_exception (rc : Bytes → Option Bytes) (rf : Frame → List Frame) (t : Trace) :
    (remapTyped rc rf t).top.exception =
        t.top.exception.map (fun e => (remapThrowableWith rc e).getD e) ∧
    (remapTyped rc rf t).causes.map (·.exception) =
        t.causes.map (fun c => c.exception.map (fun e => (remapThrowableWith rc e).getD e)) := by
  sorry

/-- every frame is replaced by its remapped frames, or kept when it does not resolve -/
theorem C08_frames (rc : Bytes → Option Bytes) (rf : Frame → List Frame) (t : Trace) :
    (remapTyped rc rf t).top.frames =
        t.top.frames.flatMap (fun f => if (rf f).isEmpty then [f] else rf f) ∧
    (remapTyped rc rf t).causes.map (·.frames) =
        t.causes.map (fun c => c.frames.flatMap (fun f => if (rf f).isEmpty then [f] else rf f)) := by
  sorry

/-- for traces in canonical printed form, printing the typed result gives exactly the text
    API's output for the printed input -/
theorem C08_agrees (rc : Bytes → Option Bytes) (rf : Frame → List Frame) (t : Trace) (h : TraceWF t) :
    printTrace (remapTyped rc rf t) = remapText rc rf (printTrace t) := by
  sorry

end PG
