/-
  C08 — typed stack-trace remapping keeps every element and agrees with the text API.
  Statements are about `remapTyped rc rf` / `remapText rc rf`, the model functions behind the
  mapper's and the cache's APIs.
-/
import PG.Props.C17
namespace PG

/-! ### helper lemmas: the text renderer on the lines of a printed trace -/

theorem frameLines_append (a b : List Frame) : frameLines (a ++ b) = frameLines a ++ frameLines b := by
  simp [frameLines]

theorem remapFrames_cons (rf : Frame → List Frame) (f : Frame) (fs : List Frame) :
    remapFrames rf (f :: fs) = (if (rf f).isEmpty then [f] else rf f) ++ remapFrames rf fs := by
  simp [remapFrames, List.flatMap_cons]

theorem formatFrames_frameLine (f : Frame) (fs : List Frame) :
    formatFrames (litIndent ++ printFrame f) fs =
      joinLines (frameLines (if fs.isEmpty then [f] else fs)) := by
  unfold formatFrames
  split
  · simp [joinLines, frameLines]
  · exact frames_join fs

theorem renderRest_frameLine (rc : Bytes → Option Bytes) (rf : Frame → List Frame) (f : Frame)
    (h : FrameWF f) :
    renderRest rc rf (litIndent ++ printFrame f) =
      joinLines (frameLines (if (rf f).isEmpty then [f] else rf f)) := by
  unfold renderRest
  simp only [frameLine_parseFrame f h]
  exact formatFrames_frameLine f (rf f)

theorem renderFirst_frameLine (rc : Bytes → Option Bytes) (rf : Frame → List Frame) (f : Frame)
    (h : FrameWF f) :
    renderFirst rc rf (litIndent ++ printFrame f) =
      joinLines (frameLines (if (rf f).isEmpty then [f] else rf f)) := by
  unfold renderFirst
  simp only [frameLine_parseThrowable f h, frameLine_parseFrame f h]
  exact formatFrames_frameLine f (rf f)

theorem renderRest_frames (rc : Bytes → Option Bytes) (rf : Frame → List Frame) (fs : List Frame)
    (h : ∀ f ∈ fs, FrameWF f) :
    ((frameLines fs).map (renderRest rc rf)).flatten = joinLines (frameLines (remapFrames rf fs)) := by
  induction fs with
  | nil => rfl
  | cons f fs ih =>
    rw [remapFrames_cons, frameLines_append, joinLines_append,
      ← ih (fun g hg => h g (by simp [hg])), ← renderRest_frameLine rc rf f (h f (by simp))]
    simp [frameLines]

theorem renderRest_causeLine (rc : Bytes → Option Bytes) (rf : Frame → List Frame) (e : Throwable)
    (h : ThrowableWF e) :
    renderRest rc rf (litCausedBy ++ printThrowable e) =
      litCausedBy ++ printThrowable ((remapThrowableWith rc e).getD e) ++ [10] := by
  unfold renderRest
  simp only [causeLine_parseFrame, causeLine_strip, Option.bind_some, throwable_parse e h]
  cases remapThrowableWith rc e <;> simp

theorem renderFirst_throwable (rc : Bytes → Option Bytes) (rf : Frame → List Frame) (e : Throwable)
    (h : ThrowableWF e) :
    renderFirst rc rf (printThrowable e) =
      printThrowable ((remapThrowableWith rc e).getD e) ++ [10] := by
  unfold renderFirst
  simp only [throwable_parse e h]
  cases remapThrowableWith rc e <;> simp

theorem renderRest_cause (rc : Bytes → Option Bytes) (rf : Frame → List Frame) (c : Seg)
    (hc : SegWF c) (hs : c.exception.isSome = true) :
    ((causeLines c).map (renderRest rc rf)).flatten = joinLines (causeLines (remapSeg rc rf c)) := by
  cases c with
  | mk exc fs =>
    cases exc with
    | none => simp at hs
    | some e =>
      simp only [causeLines, remapSeg, Option.map_some, List.map_cons, List.flatten_cons,
        joinLines_cons, renderRest_causeLine rc rf e (hc.1 e rfl), renderRest_frames rc rf fs hc.2]
      simp

theorem renderRest_causes (rc : Bytes → Option Bytes) (rf : Frame → List Frame) (cs : List Seg)
    (h : ∀ c ∈ cs, SegWF c ∧ c.exception.isSome = true) :
    ((cs.flatMap causeLines).map (renderRest rc rf)).flatten =
      joinLines ((cs.map (remapSeg rc rf)).flatMap causeLines) := by
  induction cs with
  | nil => rfl
  | cons c cs ih =>
    have hc := h c (by simp)
    simp only [List.flatMap_cons, List.map_cons, List.map_append, List.flatten_append,
      joinLines_append, renderRest_cause rc rf c hc.1 hc.2, ih (fun x hx => h x (by simp [hx]))]

theorem remapTyped_causes_some (rc : Bytes → Option Bytes) (rf : Frame → List Frame) (t : Trace)
    (h : ∀ c ∈ t.causes, c.exception.isSome = true) :
    ∀ c ∈ (remapTyped rc rf t).causes, c.exception.isSome = true := by
  intro c hc
  simp only [remapTyped, List.mem_map] at hc
  obtain ⟨c0, hc0, rfl⟩ := hc
  simpa [remapSeg] using h c0 hc0

/-- same cause-chain depth -/
theorem C08_depth (rc : Bytes → Option Bytes) (rf : Frame → List Frame) (t : Trace) :
    (remapTyped rc rf t).causes.length = t.causes.length := by
  simp [remapTyped]

/-- every throwable, at every level, is either remapped or kept unchanged; none is dropped -/
theorem C08_exception (rc : Bytes → Option Bytes) (rf : Frame → List Frame) (t : Trace) :
    (remapTyped rc rf t).top.exception =
        t.top.exception.map (fun e => (remapThrowableWith rc e).getD e) ∧
    (remapTyped rc rf t).causes.map (·.exception) =
        t.causes.map (fun c => c.exception.map (fun e => (remapThrowableWith rc e).getD e)) := by
  refine ⟨rfl, ?_⟩
  simp [remapTyped, remapSeg, List.map_map, Function.comp_def]

/-- every frame is replaced by its remapped frames, or kept when it does not resolve -/
theorem C08_frames (rc : Bytes → Option Bytes) (rf : Frame → List Frame) (t : Trace) :
    (remapTyped rc rf t).top.frames =
        t.top.frames.flatMap (fun f => if (rf f).isEmpty then [f] else rf f) ∧
    (remapTyped rc rf t).causes.map (·.frames) =
        t.causes.map (fun c => c.frames.flatMap (fun f => if (rf f).isEmpty then [f] else rf f)) := by
  refine ⟨rfl, ?_⟩
  simp [remapTyped, remapSeg, remapFrames, List.map_map, Function.comp_def]

/-- for traces in canonical printed form, printing the typed result gives exactly the text
    API's output for the printed input -/
theorem C08_agrees (rc : Bytes → Option Bytes) (rf : Frame → List Frame) (t : Trace) (h : TraceWF t) :
    printTrace (remapTyped rc rf t) = remapText rc rf (printTrace t) := by
  rw [printTrace_eq_join _ (remapTyped_causes_some rc rf t (fun c hc => (h.causes_wf c hc).2))]
  unfold remapText
  simp only [strLines_printTrace t h]
  have hcs := renderRest_causes rc rf t.causes h.causes_wf
  have hwf := h.top_wf
  have hne := h.top_nonempty
  cases t with
  | mk top causes =>
    cases top with
    | mk exc fs =>
      simp only at hwf hne hcs
      cases exc with
      | some e =>
        simp only [traceLines, segLines, excLines, remapTyped, remapSeg, Option.map_some,
          List.cons_append, List.nil_append]
        rw [List.map_append, List.flatten_append, renderRest_frames rc rf fs hwf.2, hcs,
          renderFirst_throwable rc rf e (hwf.1 e rfl), joinLines_cons, joinLines_append]
        simp
      | none =>
        cases fs with
        | nil => simp at hne
        | cons f fs =>
          have hf := hwf.2 f (by simp)
          have hfs : ∀ g ∈ fs, FrameWF g := fun g hg => hwf.2 g (by simp [hg])
          simp only [traceLines, segLines, excLines, remapTyped, remapSeg, Option.map_none,
            List.nil_append, frameLines, List.map_cons, List.cons_append, remapFrames_cons]
          rw [← frameLines, ← frameLines, List.map_append, List.flatten_append,
            renderRest_frames rc rf fs hfs, hcs, renderFirst_frameLine rc rf f hf,
            frameLines_append, joinLines_append, joinLines_append, List.append_assoc]

end PG
