/-
  C17 — printing a stack trace and parsing it back is lossless.
-/
import PG.Model.Trace
import PG.Lemmas.ListBasics
import PG.Lemmas.TraceRT
import PG.Lemmas.Utf8Spec
namespace PG

/-- frames of the property's domain: class and method without `(`, method without dots, a
    file (present) without colon, no line feed anywhere, line below 2^64 -/
structure FrameWF (f : Frame) : Prop where
  cls_no_paren : 40 ∉ f.cls
  method_no_paren : 40 ∉ f.method
  method_no_dot : 46 ∉ f.method
  file_some : ∃ file, f.file = some file ∧ 58 ∉ file ∧ 10 ∉ file
  no_lf : 10 ∉ f.cls ∧ 10 ∉ f.method
  line_lt : f.line < usizeBound
  no_params : f.params = none

/-- throwables of the property's domain: class without spaces, message absent or non-empty,
    the printed form has no surrounding (Unicode) whitespace, no line feed -/
structure ThrowableWF (t : Throwable) : Prop where
  cls_no_space : 32 ∉ t.cls
  msg_nonempty : t.message ≠ some []
  trimmed : trim (printThrowable t) = printThrowable t
  no_lf : 10 ∉ printThrowable t

def SegWF (s : Seg) : Prop :=
  (∀ e, s.exception = some e → ThrowableWF e) ∧ (∀ f ∈ s.frames, FrameWF f)

/-- the top level has an exception or a frame; every cause has an exception -/
structure TraceWF (t : Trace) : Prop where
  top_wf : SegWF t.top
  top_nonempty : t.top.exception.isSome = true ∨ t.top.frames ≠ []
  causes_wf : ∀ c ∈ t.causes, SegWF c ∧ c.exception.isSome = true

/-! ### helper lemmas -/

theorem parseFrame_of_trim (f : Frame) (h : FrameWF f) (line : Bytes)
    (ht : trim line = printFrame f) : parseFrame line = some f := by
  obtain ⟨file, hfile, h58, _⟩ := h.file_some
  rw [printFrame_eq f file hfile] at ht
  rw [parseFrame_core line f.cls f.method file f.line h.cls_no_paren h.method_no_paren
    h.method_no_dot h58 h.line_lt ht]
  have hp := h.no_params
  cases f
  simp_all

theorem trim_printFrame (f : Frame) (h : FrameWF f) : trim (printFrame f) = printFrame f := by
  obtain ⟨file, hfile, _, _⟩ := h.file_some
  rw [printFrame_eq f file hfile]
  exact trim_a_paren _

theorem trim_indent_printFrame (f : Frame) (h : FrameWF f) :
    trim (litIndent ++ printFrame f) = printFrame f := by
  obtain ⟨file, hfile, _, _⟩ := h.file_some
  rw [printFrame_eq f file hfile]
  exact trim_indent_a_paren _

theorem trim_tab_printFrame (f : Frame) (h : FrameWF f) :
    trim (9 :: printFrame f) = printFrame f := by
  obtain ⟨file, hfile, _, _⟩ := h.file_some
  rw [printFrame_eq f file hfile]
  exact trim_tab_a_paren _

/-- a line that can be split off by `strLines`: no line feed, no trailing carriage return -/
def GoodLine (l : Bytes) : Prop := 10 ∉ l ∧ l.getLast? ≠ some 13

theorem frameLine_parseFrame (f : Frame) (h : FrameWF f) :
    parseFrame (litIndent ++ printFrame f) = some f :=
  parseFrame_of_trim f h _ (trim_indent_printFrame f h)

theorem frameLine_parseThrowable (f : Frame) (h : FrameWF f) :
    parseThrowable (litIndent ++ printFrame f) = none := by
  obtain ⟨file, hfile, _, _⟩ := h.file_some
  refine parseThrowable_at _ (frameInner f.cls f.method file f.line ++ [41]) ?_
  rw [trim_indent_printFrame f h, printFrame_eq f file hfile]
  rfl

theorem frameLine_good (f : Frame) (h : FrameWF f) : GoodLine (litIndent ++ printFrame f) := by
  obtain ⟨file, hfile, _, hf10⟩ := h.file_some
  have hd := natToDec_no_lf f.line
  have hc := h.no_lf.1
  have hm := h.no_lf.2
  constructor
  · rw [printFrame_eq f file hfile]
    simp [frameInner, litIndent, hd, hc, hm, hf10]
  · rw [printFrame_eq f file hfile]
    have : litIndent ++ 97 :: ((116 :: 32 :: frameInner f.cls f.method file f.line) ++ [41]) =
        (litIndent ++ 97 :: 116 :: 32 :: frameInner f.cls f.method file f.line) ++ [41] := by simp
    rw [this, List.getLast?_append]
    simp

theorem throwable_parse (t : Throwable) (h : ThrowableWF t) :
    parseThrowable (printThrowable t) = some t := by
  unfold parseThrowable
  simp only [h.trimmed]
  have hs := h.cls_no_space
  cases t with
  | mk cls message =>
    cases message with
    | none =>
      simp only [printThrowable] at *
      simp [splitColonSpace_none cls hs, hs]
    | some m =>
      simp only [printThrowable, litColonSpace] at *
      have : cls ++ [58, 32] ++ m = cls ++ 58 :: 32 :: m := by simp
      simp only [this, splitColonSpace_first cls m hs]
      simp [hs]

theorem throwable_good (t : Throwable) (h : ThrowableWF t) : GoodLine (printThrowable t) :=
  ⟨h.no_lf, trimmed_getLast _ h.trimmed⟩

theorem causeLine_good (t : Throwable) (h : ThrowableWF t) :
    GoodLine (litCausedBy ++ printThrowable t) := by
  obtain ⟨h1, h2⟩ := throwable_good t h
  constructor
  · simp [litCausedBy, h1]
  · rw [List.getLast?_append]
    cases hp : (printThrowable t).getLast? with
    | none => simp [litCausedBy]
    | some b => rw [hp] at h2; simpa using h2

theorem causeLine_parseFrame (p : Bytes) : parseFrame (litCausedBy ++ p) = none := by
  unfold parseFrame
  show (match stripPrefix litAt (trim (67 :: _)) with | none => none | some body => _) = none
  rw [stripPrefix_litAt_trim_C]

theorem causeLine_strip (p : Bytes) : stripPrefix litCausedBy (litCausedBy ++ p) = some p :=
  stripPrefix_append _ _

/-! ### `parseTraceLines` over the printed lines -/

theorem ptl_frames (done : List Seg) (cur : Seg) (fs : List Frame) (rest : List Bytes)
    (h : ∀ f ∈ fs, FrameWF f) :
    parseTraceLines done cur (frameLines fs ++ rest) =
      parseTraceLines done { cur with frames := cur.frames ++ fs } rest := by
  induction fs generalizing cur with
  | nil => simp [frameLines]
  | cons f fs ih =>
    have hf := h f (by simp)
    have := ih { cur with frames := cur.frames ++ [f] } (fun g hg => h g (by simp [hg]))
    simp only [frameLines, List.map_cons, List.cons_append] at this ⊢
    rw [parseTraceLines, frameLine_parseFrame f hf]
    simp only [this, List.append_assoc, List.singleton_append]

theorem ptl_cause (done : List Seg) (cur c : Seg) (rest : List Bytes)
    (hc : SegWF c) (hs : c.exception.isSome = true) :
    parseTraceLines done cur (causeLines c ++ rest) = parseTraceLines (done ++ [cur]) c rest := by
  cases c with
  | mk exc fs =>
    cases exc with
    | none => simp at hs
    | some e =>
      have he := hc.1 e rfl
      simp only [causeLines, List.cons_append]
      rw [parseTraceLines, causeLine_parseFrame, causeLine_strip]
      simp only [throwable_parse e he]
      rw [ptl_frames _ _ fs rest hc.2]
      simp

theorem ptl_causes (done : List Seg) (cur : Seg) (cs : List Seg)
    (h : ∀ c ∈ cs, SegWF c ∧ c.exception.isSome = true) :
    parseTraceLines done cur (cs.flatMap causeLines) = done ++ cur :: cs := by
  induction cs generalizing done cur with
  | nil => simp [parseTraceLines]
  | cons c cs ih =>
    have hc := h c (by simp)
    rw [List.flatMap_cons, ptl_cause done cur c _ hc.1 hc.2,
      ih _ _ (fun x hx => h x (by simp [hx]))]
    simp

theorem traceLines_good (t : Trace) (h : TraceWF t) : ∀ l ∈ traceLines t, GoodLine l := by
  intro l hl
  simp only [traceLines, segLines, List.mem_append, List.mem_flatMap] at hl
  rcases hl with (hl | hl) | ⟨c, hc, hl⟩
  · cases he : t.top.exception with
    | none => simp [he, excLines] at hl
    | some e =>
      simp only [he, excLines, List.mem_singleton] at hl
      subst hl
      exact throwable_good e (h.top_wf.1 e he)
  · simp only [frameLines, List.mem_map] at hl
    obtain ⟨f, hf, rfl⟩ := hl
    exact frameLine_good f (h.top_wf.2 f hf)
  · obtain ⟨hwf, hs⟩ := h.causes_wf c hc
    simp only [causeLines, List.mem_cons] at hl
    rcases hl with rfl | hl
    · cases he : c.exception with
      | none => simp [he] at hs
      | some e => exact causeLine_good e (hwf.1 e he)
    · simp only [frameLines, List.mem_map] at hl
      obtain ⟨f, hf, rfl⟩ := hl
      exact frameLine_good f (hwf.2 f hf)

theorem strLines_printTrace (t : Trace) (h : TraceWF t) :
    strLines (printTrace t) = traceLines t := by
  rw [printTrace_eq_join t (fun c hc => (h.causes_wf c hc).2)]
  exact strLines_join _ (traceLines_good t h)

/-! ### the theorems -/

theorem C17_frame (f : Frame) (h : FrameWF f) : parseFrame (printFrame f) = some f :=
  parseFrame_of_trim f h _ (trim_printFrame f h)

/-- indentation (four spaces or a tab) in front of a printed frame is tolerated -/
theorem C17_frame_indented (f : Frame) (h : FrameWF f) :
    parseFrame (litIndent ++ printFrame f) = some f ∧ parseFrame (9 :: printFrame f) = some f :=
  ⟨frameLine_parseFrame f h, parseFrame_of_trim f h _ (trim_tab_printFrame f h)⟩

theorem C17_throwable (t : Throwable) (h : ThrowableWF t) :
    parseThrowable (printThrowable t) = some t :=
  throwable_parse t h

theorem C17_trace (t : Trace) (h : TraceWF t) : parseTrace (printTrace t) = some t := by
  unfold parseTrace
  simp only [strLines_printTrace t h]
  cases t with
  | mk top causes =>
    cases top with
    | mk exc fs =>
      have hwf := h.top_wf
      have hne := h.top_nonempty
      have hcw := h.causes_wf
      simp only at hwf hne hcw
      cases exc with
      | some e =>
        have he := hwf.1 e rfl
        simp only [traceLines, segLines, excLines, List.singleton_append, List.cons_append,
          List.nil_append, throwable_parse e he]
        rw [ptl_frames _ _ fs _ hwf.2, ptl_causes _ _ causes hcw]
        simp
      | none =>
        cases fs with
        | nil => simp at hne
        | cons f fs =>
          have hf := hwf.2 f (by simp)
          simp only [traceLines, segLines, excLines, List.nil_append, frameLines, List.map_cons,
            List.cons_append, frameLine_parseThrowable f hf]
          have := ptl_frames [] ⟨none, []⟩ (f :: fs) (causes.flatMap causeLines) hwf.2
          simp only [frameLines, List.map_cons, List.cons_append] at this
          rw [this, ptl_causes _ _ causes hcw]
          simp

theorem C17_reprint (t : Trace) (h : TraceWF t) :
    (parseTrace (printTrace t)).map printTrace = some (printTrace t) := by
  rw [C17_trace t h]; rfl

/-- non-vacuity: a two-level trace inside the domain -/
example : TraceWF ⟨⟨some ⟨[97, 46, 98], some [120, 58, 32, 121]⟩, [⟨[97], [109], 7, some [70], none⟩]⟩,
                   [⟨some ⟨[99], none⟩, []⟩]⟩ := by
  refine ⟨⟨?_, ?_⟩, Or.inl rfl, ?_⟩
  · intro e he
    cases he
    exact ⟨by decide, by decide, by decide, by decide⟩
  · intro f hf
    simp only [List.mem_singleton] at hf
    subst hf
    exact ⟨by decide, by decide, by decide, ⟨[70], rfl, by decide, by decide⟩,
      ⟨by decide, by decide⟩, by decide, rfl⟩
  · intro c hc
    simp only [List.mem_singleton] at hc
    subst hc
    refine ⟨⟨?_, ?_⟩, rfl⟩
    · intro e he
      cases he
      exact ⟨by decide, by decide, by decide, by decide⟩
    · intro f hf
      cases hf

end PG
