/-
  C17 — printing a stack trace and parsing it back is lossless.
-/
import PG.Model.Trace
import PG.Lemmas.ListBasics
namespace PG

/-- frames of the property's domain: class and method without `(`, method without dots, a
    file (present) without colon, no line feed anywhere, line below 2^64 -/
structure FrameWF (f : Frame) : Prop where
  cls_no_paren : 40 ∉ f.cls
  method_no_paren : 40 ∉ f.method
  method_no_dot : 46 ∉ f.method
  file_some : ∃ file, f.file = some file ∧ 58 ∉ file ∧ 10 ∉ file
  no_lf : 10 ∉ f.cls ∧ 10 ∉ f.method
  line_lt : f.line < usizeBound
  no_params : f.params = none

/-- throwables of the property's domain: class without spaces, message absent or non-empty,
    the printed form has no surrounding (Unicode) whitespace, no line feed -/
structure ThrowableWF (t : Throwable) : Prop where
  cls_no_space : 32 ∉ t.cls
  msg_nonempty : t.message ≠ some []
  trimmed : trim (printThrowable t) = printThrowable t
  no_lf : 10 ∉ printThrowable t

def SegWF (s : Seg) : Prop :=
  (∀ e, s.exception = some e → ThrowableWF e) ∧ (∀ f ∈ s.frames, FrameWF f)

/-- the top level has an exception or a frame; every cause has an exception -/
structure TraceWF (t : Trace) : Prop where
  top_wf : SegWF t.top
  top_nonempty : t.top.exception.isSome = true ∨ t.top.frames ≠ []
  causes_wf : ∀ c ∈ t.causes, SegWF c ∧ c.exception.isSome = true

theorem C17_frame (f : Frame) (h : FrameWF f) : parseFrame (printFrame f) = some f := by
  sorry

/-- indentation (four spaces or a tab) in front of a printed frame is tolerated -/
theorem C17_frame_indented (f : Frame) (h : FrameWF f) :
    parseFrame (litIndent ++ printFrame f) = some f ∧ parseFrame (9 :: printFrame f) = some f := by
  sorry

theorem C17_throwable (t : Throwable) (h : ThrowableWF t) :
    parseThrowable (printThrowable t) = some t := by
  sorry

theorem C17_trace (t : Trace) (h : TraceWF t) : parseTrace (printTrace t) = some t := by
  sorry

theorem C17_reprint (t : Trace) (h : TraceWF t) :
    (parseTrace (printTrace t)).map printTrace = some (printTrace t) := by
  sorry

/-- non-vacuity: a two-level trace inside the domain -/
example : TraceWF ⟨⟨some ⟨[97, 46, 98], some [120, 58, 32, 121]⟩, [⟨[97], [109], 7, some [70], none⟩]⟩,
                   [⟨some ⟨[99], none⟩, []⟩]⟩ := by
  sorry

end PG
