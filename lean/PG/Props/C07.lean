/-
  C07 — text trace remapping rewrites known lines and passes everything else through.
  All statements are about `remapText rc rf`, the one model function behind both
  `ProguardMapper::remap_stacktrace` and `ProguardCache::remap_stacktrace`.
-/
import PG.Model.Trace
import PG.Lemmas.ListBasics
import PG.Lemmas.TraceText
namespace PG

/-- what one input line becomes: `first` selects the first-line rule -/
def renderLine (rc : Bytes → Option Bytes) (rf : Frame → List Frame) (first : Bool) (l : Bytes) : Bytes :=
  if first then renderFirst rc rf l else renderRest rc rf l

theorem zipIdx_rest (rc : Bytes → Option Bytes) (rf : Frame → List Frame) (ls : List Bytes) (k : Nat) :
    (ls.zipIdx (k + 1)).map (fun li => renderLine rc rf (li.2 == 0) li.1) =
      ls.map (renderRest rc rf) := by
  induction ls generalizing k with
  | nil => rfl
  | cons l ls ih =>
    simp only [List.zipIdx_cons, List.map_cons, ih]
    simp [renderLine]

/-- the output is the line-by-line concatenation, in input order, of the renderings of the
    input lines (first-line rule for line 0, later-line rule for the others): no line is
    dropped, duplicated or reordered -/
theorem C07_linewise (rc : Bytes → Option Bytes) (rf : Frame → List Frame) (input : Bytes) :
    remapText rc rf input =
      ((strLines input).zipIdx.map (fun li => renderLine rc rf (li.2 == 0) li.1)).flatten := by
  unfold remapText
  cases strLines input with
  | nil => rfl
  | cons l ls =>
    simp only [List.zipIdx_cons, List.map_cons, List.flatten_cons, Nat.zero_add, zipIdx_rest]
    simp [renderLine]

/-- the segments a line is rendered into: the remapped throwable, one four-space-indented line
    per resolved frame, or the input line itself -/
def renderSegs (rc : Bytes → Option Bytes) (rf : Frame → List Frame) (first : Bool) (l : Bytes) :
    List Bytes :=
  let frameSegs : Frame → List Bytes := fun f =>
    if (rf f).isEmpty then [l] else (rf f).map (fun g => litIndent ++ printFrame g)
  let throwSeg : Bytes → Throwable → List Bytes := fun pre t =>
    match rc t.cls with
    | some c => [pre ++ printThrowable ⟨c, t.message⟩]
    | none => [l]
  if first then
    match parseThrowable l with
    | some t => throwSeg [] t
    | none => match parseFrame l with
      | some f => frameSegs f
      | none => [l]
  else
    match parseFrame l with
    | some f => frameSegs f
    | none => match (stripPrefix litCausedBy l).bind parseThrowable with
      | some t => throwSeg litCausedBy t
      | none => [l]

/-- each input line accounts for `max 1 (number of frames it resolves to)` output lines, each
    ending in exactly the one `\n` that is appended; the case analysis is the property's:
    throwable (first line / behind `Caused by: `) with a known class, frame line resolving to
    ≥ 1 frame, or the input line unchanged -/
theorem C07_render_cases (rc : Bytes → Option Bytes) (rf : Frame → List Frame) (first : Bool) (l : Bytes) :
    renderLine rc rf first l = ((renderSegs rc rf first l).map (· ++ [10])).flatten ∧
    (renderSegs rc rf first l).length ≥ 1 := by
  have hfmt : ∀ f : Frame, formatFrames l (rf f) =
      ((if (rf f).isEmpty then [l] else (rf f).map (fun g => litIndent ++ printFrame g)).map
        (· ++ [10])).flatten := by
    intro f
    unfold formatFrames
    split
    · simp
    · simp only [List.map_map]
      rfl
  have hlen : ∀ f : Frame,
      (if (rf f).isEmpty then [l] else (rf f).map (fun g => litIndent ++ printFrame g)).length ≥ 1 := by
    intro f
    cases h : rf f with
    | nil => simp
    | cons a r => simp
  cases first with
  | true =>
    simp only [renderLine, renderSegs, if_true, renderFirst, remapThrowableWith]
    cases parseThrowable l with
    | none =>
      cases parseFrame l with
      | none => simp
      | some f => exact ⟨hfmt f, hlen f⟩
    | some t =>
      cases h : rc t.cls with
      | none => simp [h]
      | some c => simp [h]
  | false =>
    simp only [renderLine, renderSegs, Bool.false_eq_true, if_false, renderRest, remapThrowableWith]
    cases parseFrame l with
    | some f => exact ⟨hfmt f, hlen f⟩
    | none =>
      cases (stripPrefix litCausedBy l).bind parseThrowable with
      | none => simp
      | some t =>
        cases h : rc t.cls with
        | none => simp [h]
        | some c => simp [h]

/-- number of output segments of a frame line -/
theorem C07_frame_count (rc : Bytes → Option Bytes) (rf : Frame → List Frame) (l : Bytes) (f : Frame)
    (hf : parseFrame l = some f) :
    (renderSegs rc rf false l).length = max 1 (rf f).length := by
  simp only [renderSegs, Bool.false_eq_true, if_false, hf]
  cases h : rf f with
  | nil => simp
  | cons a r => simp

/-- with a mapping that knows none of the trace's classes (class lookup fails for every class
    and therefore frame lookup returns nothing) the output equals the input up to
    line-terminator normalisation -/
theorem C07_identity (rc : Bytes → Option Bytes) (rf : Frame → List Frame) (input : Bytes)
    (hrc : ∀ c, rc c = none) (hrf : ∀ f, rf f = []) :
    remapText rc rf input = ((strLines input).map (· ++ [10])).flatten := by
  unfold remapText
  cases strLines input with
  | nil => rfl
  | cons l ls =>
    simp only [renderFirst_unknown rc rf hrc hrf, List.map_cons, List.flatten_cons]
    have : renderRest rc rf = fun x => x ++ [10] :=
      funext (renderRest_unknown rc rf hrc hrf)
    rw [this]

/-- the mapper satisfies `hrf` whenever it satisfies `hrc`: frames of an unknown class do
    not resolve -/
theorem C07_mapper_unknown (m : Mapper) (f : Frame) (h : m.remapClass f.cls = none) :
    m.remapFrame f = [] := by
  unfold Mapper.remapClass at h
  unfold Mapper.remapFrame
  cases hl : m.classes.lookup f.cls with
  | none => rfl
  | some cm => rw [hl] at h; cases h

/-- lines produced by `str::lines` contain no `\n` (so each output segment holds exactly one
    line terminator when the mapping's names contain none — C06) -/
theorem C07_lines_no_newline (input : Bytes) : ∀ l ∈ strLines input, 10 ∉ l :=
  strLines_no_newline input

end PG
