/-
  C04 — class lookup is exact and method lookup never guesses when ambiguous, for both the
  mapper (PG/Props/C04m.lean, all record lists) and the cache reader (through C02).
-/
import PG.Props.C01
namespace PG

theorem C04_cache_class (recs : List Record) (hr : ReprR recs) (hs : (Tables.build recs).Small)
    (c : Cache) (hc : Cache.parse (Cache.write recs) = .ok c) (name : Bytes) :
    c.remapClass name = SpecR.classOf recs name := by
  rw [C02_class recs hr hs true c hc name, C04_class]

theorem C04_cache_method (recs : List Record) (hr : ReprR recs) (hs : (Tables.build recs).Small)
    (c : Cache) (hc : Cache.parse (Cache.write recs) = .ok c) (cls m : Bytes) :
    c.remapMethod cls m = SpecR.methodOf recs cls m := by
  rw [C02_method recs hr hs true c hc cls m, C04_method]

/-- at the level of mapping bytes printed from the grammar -/
theorem C04_file (ls : List (Line × Bytes)) (pm : Bool) (c m : Bytes)
    (h : ∀ x ∈ ls, x.1.WF ∧ x.2 ≠ [] ∧ ∀ b ∈ x.2, isNewline b = true) :
    (Mapper.ofBytes ((ls.map (fun x => x.1.print ++ x.2)).flatten) pm).remapClass c =
        SpecR.classOf (ls.map (fun x => x.1.toRecord)) c ∧
    (Mapper.ofBytes ((ls.map (fun x => x.1.print ++ x.2)).flatten) pm).remapMethod c m =
        SpecR.methodOf (ls.map (fun x => x.1.toRecord)) c m := by
  unfold Mapper.ofBytes
  rw [okRecs_printed ls h]
  exact ⟨C04_class _ pm c, C04_method _ pm c m⟩

end PG
