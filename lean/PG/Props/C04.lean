/-
  C04 — class lookup is exact and method lookup never guesses when ambiguous, for both the
  mapper (PG/Props/C04m.lean, all record lists) and the cache reader (through C02).
-/
import PG.Props.C02
namespace PG

theorem C04_cache_class (recs : List Record) (hr : ReprR recs) (hs : (Tables.build recs).Small)
    (c : Cache) (hc : Cache.parse (Cache.write recs) = .ok c) (name : Bytes) :
    c.remapClass name = SpecR.classOf recs name := by
  rw [C02_class recs hr hs true c hc name, C04_class]

theorem C04_cache_method (recs : List Record) (hr : ReprR recs) (hs : (Tables.build recs).Small)
    (c : Cache) (hc : Cache.parse (Cache.write recs) = .ok c) (cls m : Bytes) :
    c.remapMethod cls m = SpecR.methodOf recs cls m := by
  rw [C02_method recs hr hs true c hc cls m, C04_method]

end PG
