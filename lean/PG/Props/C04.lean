/-
  C04 — class lookup is exact and method lookup never guesses when ambiguous (mapper side;
  the cache side follows through C02).
-/
import PG.Spec.Retrace
import PG.Lemmas.ListBasics
namespace PG

/-- the original name from the last class line with exactly that obfuscated name, and nothing
    for any other string -/
theorem C04_class (recs : List Record) (pm : Bool) (c : Bytes) :
    (Mapper.build recs pm).remapClass c = SpecR.classOf recs c := by
  sorry

theorem C04_method (recs : List Record) (pm : Bool) (c m : Bytes) :
    (Mapper.build recs pm).remapMethod c m = SpecR.methodOf recs c m := by
  sorry

/-- whenever method lookup answers, every frame produced by line-based remapping of that class
    and method carries that same method name (and the answered class is the class's original
    name) -/
theorem C04_method_frames (recs : List Record) (pm : Bool) (c m co mo : Bytes) (line : Nat)
    (file : Option Bytes) (h : (Mapper.build recs pm).remapMethod c m = some (co, mo)) :
    ∀ fr ∈ (Mapper.build recs pm).remapFrame ⟨c, m, line, file, none⟩, fr.method = mo := by
  sorry

end PG
