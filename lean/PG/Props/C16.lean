/-
  C16 — valid JVM descriptors deobfuscate to the right Java types, invalid ones to none.
-/
import PG.Spec.Descriptor
import PG.Lemmas.ListBasics
import PG.Generated.JavaBase
namespace PG
open JType

/-! ### helper lemmas -/

theorem javaBase_facts (c : UInt8) (h : (javaBaseType c).isSome = true) :
    c ≠ 76 ∧ c ≠ 91 ∧ c ≠ 41 ∧ c ≠ 59 ∧ c ≠ 40 := by
  unfold javaBaseType at h
  refine ⟨?_, ?_, ?_, ?_, ?_⟩ <;> intro hc <;> subst hc <;> simp at h

theorem scan_obj (name : Bytes) (h : 59 ∉ name) (cur rest : Bytes) :
    scanParams true cur (name ++ 59 :: rest) =
      (scanParams false [] rest).map (fun l => (cur ++ (name ++ [59])) :: l) := by
  induction name generalizing cur with
  | nil => simp [scanParams]
  | cons b bs ih =>
    have hb : b ≠ 59 := by intro e; subst e; simp at h
    have hbs : 59 ∉ bs := by intro e; exact h (List.mem_cons_of_mem _ e)
    simp only [List.cons_append, scanParams, if_true]
    have : (b == 59) = false := by simpa using hb
    simp only [this]
    rw [ih hbs]
    simp

theorem scan_type (t : JType) (ht : t.Valid) (cur rest : Bytes) :
    scanParams false cur (t.enc ++ rest) =
      (scanParams false [] rest).map (fun l => (cur ++ t.enc) :: l) := by
  induction t generalizing cur with
  | prim c =>
    obtain ⟨h1, h2, _, _, _⟩ := javaBase_facts c ht
    have e1 : (c == 76) = false := by simpa using h1
    have e2 : (c == 91) = false := by simpa using h2
    have ht' : (javaBaseType c).isSome = true := ht
    simp [enc, scanParams, e1, e2, ht']
  | obj n =>
    obtain ⟨h59, _⟩ := ht
    simp only [enc, List.cons_append, scanParams]
    simp only [Bool.false_eq_true, if_false, beq_self_eq_true, if_true]
    rw [List.append_assoc, List.singleton_append, scan_obj n h59]
    simp
  | arr t ih =>
    simp only [enc, List.cons_append, scanParams]
    simp only [Bool.false_eq_true, if_false]
    have : ((91 : UInt8) == 76) = false := by decide
    simp only [this, Bool.false_eq_true, if_false, beq_self_eq_true, if_true]
    rw [ih ht]
    simp

theorem scan_types (ps : List JType) (hps : ∀ p ∈ ps, p.Valid) :
    scanParams false [] (ps.map enc).flatten = some (ps.map enc) := by
  induction ps with
  | nil => simp [scanParams]
  | cons p ps ih =>
    simp only [List.map_cons, List.flatten_cons]
    rw [scan_type p (hps p (by simp)), ih (fun q hq => hps q (by simp [hq]))]
    simp

theorem enc_no_rparen (t : JType) (ht : t.Valid) : 41 ∉ t.enc := by
  induction t with
  | prim c =>
    obtain ⟨_, _, h, _, _⟩ := javaBase_facts c ht
    simp [enc]; exact fun e => h e.symm
  | obj n => simp [enc]; exact ht.2
  | arr t ih => simp [enc]; exact ih ht

theorem enc_ne_nil (t : JType) : t.enc ≠ [] := by cases t <;> simp [enc]

theorem parse_descriptor (ps : List JType) (r : JType) (hps : ∀ p ∈ ps, p.Valid) (hr : r.Valid) :
    parseSignature (descriptor ps r) = some (ps.map enc, r.enc) := by
  unfold parseSignature descriptor
  simp only
  rw [rsplitOnce_last 41 _ _ (enc_no_rparen r hr)]
  have : r.enc.isEmpty = false := by
    cases h : r.enc with
    | nil => exact absurd h (enc_ne_nil r)
    | cons _ _ => rfl
  simp only [this, Bool.false_eq_true, if_false]
  rw [scan_types ps hps]
  rfl

theorem brackets_succ (k : Nat) : brackets k ++ litBrackets = brackets (k + 1) := by
  unfold brackets
  rw [List.replicate_succ']
  simp

theorem typeToJava_enc (rc : Bytes → Option Bytes) (t : JType) (ht : t.Valid) (k : Nat) :
    typeToJava rc (brackets k) t.enc = some (base rc t ++ brackets (k + t.depth)) := by
  induction t generalizing k with
  | prim c =>
    obtain ⟨h1, h2, _, _, _⟩ := javaBase_facts c ht
    have e1 : (c == 76) = false := by simpa using h1
    have e2 : (c == 91) = false := by simpa using h2
    have ht' : (javaBaseType c).isSome = true := ht
    obtain ⟨ty, hty⟩ := Option.isSome_iff_exists.mp ht'
    simp [enc, typeToJava, e1, e2, hty, base, depth]
  | obj n =>
    simp [enc, typeToJava, base, depth, dots]
  | arr t ih =>
    have e1 : ((91 : UInt8) == 76) = false := by decide
    simp only [enc, typeToJava, e1, Bool.false_eq_true, if_false, beq_self_eq_true, if_true, base, depth]
    rw [brackets_succ, ih ht]
    have : k + 1 + t.depth = k + (t.depth + 1) := by omega
    rw [this]

theorem typeToJava_render (rc : Bytes → Option Bytes) (t : JType) (ht : t.Valid) :
    typeToJava rc [] t.enc = some (render rc t) := by
  have := typeToJava_enc rc t ht 0
  simpa [brackets, render] using this

/-! ### property theorems -/

/-- Every valid descriptor yields one Java type per parameter, in order, and the return type:
    primitive codes become keywords, each array dimension appends `[]`, object types become
    their dotted name, replaced by the original class name when the mapping knows it. -/
theorem C16_valid (rc : Bytes → Option Bytes) (ps : List JType) (r : JType)
    (hps : ∀ p ∈ ps, p.Valid) (hr : r.Valid) :
    deobfuscateSignature rc (descriptor ps r) = some (ps.map (render rc), render rc r) := by
  unfold deobfuscateSignature
  rw [parse_descriptor ps r hps hr]
  simp only
  rw [typeToJava_render rc r hr]
  have hf : (ps.map enc).filter (fun t => !t.isEmpty) = ps.map enc := by
    apply List.filter_eq_self.mpr
    intro a ha
    obtain ⟨p, _, rfl⟩ := List.mem_map.mp ha
    cases h : p.enc with
    | nil => exact absurd h (enc_ne_nil p)
    | cons _ _ => rfl
  rw [hf]
  have hm : (ps.map enc).filterMap (typeToJava rc []) = ps.map (render rc) := by
    clear hf
    induction ps with
    | nil => rfl
    | cons p ps ih =>
      simp only [List.map_cons, List.filterMap_cons, typeToJava_render rc p (hps p (by simp))]
      rw [ih (fun q hq => hps q (by simp [hq]))]
  rw [hm]

/-- the formatted signature lists the parameters and appends the return type unless it is
    `void` (or empty) -/
theorem C16_format (ps : List Bytes) (ret : Bytes) :
    formatSignature ps ret =
      [40] ++ intercalate [44, 32] ps ++ [41] ++
        (if ret = [] ∨ ret = litVoid then [] else [58, 32] ++ ret) := by
  unfold formatSignature
  by_cases h1 : ret = []
  · subst h1; simp
  · by_cases h2 : ret = litVoid
    · subst h2; simp [litVoid]
    · have : ret.isEmpty = false := by cases ret <;> simp_all
      simp [h1, h2, this]

/-- no leading `(` ⇒ no result -/
theorem C16_none_no_open (rc : Bytes → Option Bytes) (s : Bytes) (h : s.head? ≠ some 40) :
    deobfuscateSignature rc s = none := by
  unfold deobfuscateSignature parseSignature
  cases s with
  | nil => rfl
  | cons b bs =>
    have : b ≠ 40 := by simpa using h
    split <;> simp_all

/-- no `)` anywhere ⇒ no result -/
theorem C16_none_no_close (rc : Bytes → Option Bytes) (s : Bytes) (h : 41 ∉ s) :
    deobfuscateSignature rc s = none := by
  unfold deobfuscateSignature parseSignature
  cases s with
  | nil => rfl
  | cons b bs =>
    by_cases hb : b = 40
    · subst hb
      have h' : 41 ∉ bs := fun e => h (List.mem_cons_of_mem _ e)
      have : rsplitOnce 41 bs = none := rsplitOnce_none 41 bs h'
      simp [this]
    · split <;> simp_all

/-- nothing after the last `)` (no return type) ⇒ no result -/
theorem C16_none_no_return (rc : Bytes → Option Bytes) (params : Bytes) :
    deobfuscateSignature rc (40 :: (params ++ [41])) = none := by
  unfold deobfuscateSignature parseSignature
  simp only
  rw [rsplitOnce_last 41 params [] (by simp)]
  simp

/-- an object type that is never terminated by `;` ⇒ no result -/
theorem C16_none_unterminated (rc : Bytes → Option Bytes) (pre : List JType) (name ret : Bytes)
    (hpre : ∀ p ∈ pre, p.Valid) (hn : 59 ∉ name) (hret : 41 ∉ ret) :
    deobfuscateSignature rc (40 :: ((pre.map enc).flatten ++ 76 :: name ++ 41 :: ret)) = none := by
  have hscanName : ∀ cur, scanParams true cur name = none := by
    intro cur
    induction name generalizing cur with
    | nil => simp [scanParams]
    | cons b bs ih =>
      have hb : (b == 59) = false := by
        have : b ≠ 59 := by intro e; subst e; simp at hn
        simpa using this
      simp only [scanParams, if_true, hb, Bool.false_eq_true, if_false]
      exact ih (fun e => hn (List.mem_cons_of_mem _ e)) _
  have hscan : ∀ cur, scanParams false cur ((pre.map enc).flatten ++ 76 :: name) = none := by
    induction pre with
    | nil =>
      intro cur
      simp only [List.map_nil, List.flatten_nil, List.nil_append, scanParams]
      simp [hscanName]
    | cons p ps ih =>
      intro cur
      simp only [List.map_cons, List.flatten_cons, List.append_assoc]
      rw [scan_type p (hpre p (by simp)), ih (fun q hq => hpre q (by simp [hq]))]
      rfl
  unfold deobfuscateSignature parseSignature
  simp only
  have e : (pre.map enc).flatten ++ 76 :: name ++ 41 :: ret = ((pre.map enc).flatten ++ 76 :: name) ++ 41 :: ret := by simp
  rw [e, rsplitOnce_last 41 _ ret hret]
  cases hr : ret with
  | nil => simp
  | cons x xs => simp [hscan]

/-- mapper and cache agree on every string once they agree on class lookup: the two Rust
    copies are one model function of `rc` (tied to both copies by the correspondence check) -/
theorem C16_agree (rc₁ rc₂ : Bytes → Option Bytes) (h : ∀ c, rc₁ c = rc₂ c) (s : Bytes) :
    deobfuscateSignature rc₁ s = deobfuscateSignature rc₂ s := by
  have : rc₁ = rc₂ := funext h
  rw [this]

/-! ### non-vacuity: a concrete descriptor meets the hypotheses and the conclusion computes -/

example : (JType.arr (JType.obj [97, 47, 98])).Valid ∧ (JType.prim 73).Valid := by
  simp [JType.Valid, javaBaseType]

example :
    deobfuscateSignature (fun c => if c = [97, 46, 98] then some [79] else none)
      (descriptor [JType.prim 73, JType.arr (JType.obj [97, 47, 98])] (JType.prim 86))
    = some ([[105, 110, 116], [79, 91, 93]], [118, 111, 105, 100]) := by decide

/-- Tie to the source as it is now (`PG/Generated/JavaBase.lean` is re-extracted from
    `java_base_types` on every run): the function is exactly a table of primitive codes, and the
    model's `javaBaseType` is that table — for every byte. (The Rust function takes a `char`;
    non-ASCII characters are never in the table, and the model is applied to UTF-8 bytes, whose
    non-ASCII bytes are ≥ 0x80.) -/
theorem C16_base_table_fin :
    Generated.baseTypesShapeOk = true ∧
    (∀ p ∈ Generated.baseTypes, p.1 < 128) ∧
    ∀ n, n < 256 → javaBaseType (UInt8.ofNat n) =
      (Generated.baseTypes.lookup n).map (fun k => k.map UInt8.ofNat) := by
  decide +kernel

theorem C16_base_table (b : UInt8) :
    javaBaseType b = (Generated.baseTypes.lookup b.toNat).map (fun k => k.map UInt8.ofNat) := by
  have h := C16_base_table_fin.2.2 b.toNat b.toNat_lt
  rwa [UInt8.ofNat_toNat] at h

end PG
