/-
  C18 — the mapping UUID.  The defining equation *is* the property; what is proved here are the
  structural facts a version-5 UUID must satisfy for every input.  That the crate computes
  this function is established differentially (Lean model + independent hashlib computation).
-/
import PG.Model.Sha1
import PG.Lemmas.Sha1L
import PG.Generated.Uuid
namespace PG

/-- the identifier is the version-5 UUID of exactly the given bytes in the namespace that is
    itself the version-5 UUID of "guardsquare.com" in the DNS namespace; it is a function of
    the bytes alone -/
theorem C18_definition (bs : Bytes) :
    mappingUuid bs = uuidV5 (uuidV5 nsDNS litGuardsquare) bs := by
  unfold mappingUuid nsGuardsquare
  rfl

/-- SHA-1 padding always produces whole 64-byte blocks -/
theorem C18_pad (msg : Bytes) : (sha1Pad msg).length % 64 = 0 := by
  rw [sha1Pad_length]
  omega

/-- a SHA-1 digest has 20 bytes -/
theorem C18_sha1_length (msg : Bytes) : (sha1 msg).length = 20 :=
  sha1_length msg

/-- every identifier has 16 bytes, version nibble 5 and variant bits 10 -/
theorem C18_version_variant (ns name : Bytes) :
    ∃ b0 b1 b2 b3 b4 b5 b6 b7 b8 b9 b10 b11 b12 b13 b14 b15 : UInt8,
      uuidV5 ns name = [b0, b1, b2, b3, b4, b5, b6, b7, b8, b9, b10, b11, b12, b13, b14, b15] ∧
      b6 >>> 4 = 5 ∧ b8 >>> 6 = 2 := by
  have hlen : ((sha1 (ns ++ name)).take 16).length = 16 := by
    rw [List.length_take, sha1_length]
    rfl
  obtain ⟨b0, b1, b2, b3, b4, b5, b6, b7, b8, b9, b10, b11, b12, b13, b14, b15, h⟩ :=
    list_length16 _ hlen
  refine ⟨b0, b1, b2, b3, b4, b5, (b6 &&& 0x0F) ||| 0x50, b7, (b8 &&& 0x3F) ||| 0x80, b9, b10,
    b11, b12, b13, b14, b15, ?_, u8_ver b6, u8_var b8⟩
  unfold uuidV5
  rw [h]

/-- the namespace is the version-5 UUID of "guardsquare.com" in the DNS namespace, evaluated by
    the kernel (80 SHA-1 rounds; no `native_decide`): 4f44f30f-24be-53d0-bab6-f47c7120ad6c -/
theorem C18_namespace :
    uuidV5 nsDNS litGuardsquare =
      [0x4f, 0x44, 0xf3, 0x0f, 0x24, 0xbe, 0x53, 0xd0, 0xba, 0xb6, 0xf4, 0x7c, 0x71, 0x20, 0xad, 0x6c] := by
  decide +kernel

/-- the identifier of the empty mapping, evaluated by the kernel:
    0e71d76c-5067-5a02-a5d9-7e81070eb125 -/
theorem C18_empty :
    mappingUuid [] =
      [0x0e, 0x71, 0xd7, 0x6c, 0x50, 0x67, 0x5a, 0x02, 0xa5, 0xd9, 0x7e, 0x81, 0x07, 0x0e, 0xb1, 0x25] := by
  decide +kernel

/-- Tie to the source as it is now (`PG/Generated/Uuid.lean` is re-translated from
    `ProguardMapping::uuid` on every run): the function body is exactly
    `Uuid::new_v5(&NAMESPACE, self.source)` with `NAMESPACE = Uuid::new_v5(&Uuid::NAMESPACE_DNS,
    b"guardsquare.com")` — no memo, no normalisation of the bytes, nothing but the bytes given to
    `new` — and those constants are the ones of the model. -/
theorem C18_source :
    Generated.uuidShapeOk = true ∧ Generated.uuidNsKind = [68, 78, 83] ∧
    Generated.uuidNsName.map UInt8.ofNat = litGuardsquare := by
  decide

/-- The Lean SHA-1 used as the reference reproduces the FIPS 180 test vectors (evaluated by the
    kernel, no `native_decide`): "abc" (one block) and the 56-byte message (two blocks). -/
theorem C18_sha1_vectors :
    sha1 [0x61, 0x62, 0x63] = [0xa9, 0x99, 0x3e, 0x36, 0x47, 0x06, 0x81, 0x6a, 0xba, 0x3e, 0x25, 0x71, 0x78, 0x50, 0xc2, 0x6c, 0x9c, 0xd0, 0xd8, 0x9d] ∧
    sha1 [0x61, 0x62, 0x63, 0x64, 0x62, 0x63, 0x64, 0x65, 0x63, 0x64, 0x65, 0x66, 0x64, 0x65, 0x66, 0x67, 0x65, 0x66, 0x67, 0x68, 0x66, 0x67, 0x68, 0x69, 0x67, 0x68, 0x69, 0x6a, 0x68, 0x69, 0x6a, 0x6b, 0x69, 0x6a, 0x6b, 0x6c, 0x6a, 0x6b, 0x6c, 0x6d, 0x6b, 0x6c, 0x6d, 0x6e, 0x6c, 0x6d, 0x6e, 0x6f, 0x6d, 0x6e, 0x6f, 0x70, 0x6e, 0x6f, 0x70, 0x71] = [0x84, 0x98, 0x3e, 0x44, 0x1c, 0x3b, 0xd2, 0x6e, 0xba, 0xae, 0x4a, 0xa1, 0xf9, 0x51, 0x29, 0xe5, 0xe5, 0x46, 0x70, 0xf1] := by
  decide +kernel

end PG
