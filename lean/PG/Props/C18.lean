/-
  C18 — the mapping UUID.  The defining equation *is* the property; what is proved here are the
  structural facts a version-5 UUID must satisfy for every input.  That the crate computes
  this function is established differentially (Lean model + independent hashlib computation).
-/
import PG.Model.Sha1
import PG.Lemmas.Sha1L
namespace PG

/-- the identifier is the version-5 UUID of exactly the given bytes in the namespace that is
    itself the version-5 UUID of "guardsquare.com" in the DNS namespace; it is a function of
    the bytes alone -/
theorem C18_definition (bs : Bytes) :
    mappingUuid bs = uuidV5 (uuidV5 nsDNS litGuardsquare) bs := by
  unfold mappingUuid nsGuardsquare
  rfl

/-- SHA-1 padding always produces whole 64-byte blocks -/
theorem C18_pad (msg : Bytes) : (sha1Pad msg).length % 64 = 0 := by
  rw [sha1Pad_length]
  omega

/-- a SHA-1 digest has 20 bytes -/
theorem C18_sha1_length (msg : Bytes) : (sha1 msg).length = 20 :=
  sha1_length msg

/-- every identifier has 16 bytes, version nibble 5 and variant bits 10 -/
theorem C18_version_variant (ns name : Bytes) :
    ∃ b0 b1 b2 b3 b4 b5 b6 b7 b8 b9 b10 b11 b12 b13 b14 b15 : UInt8,
      uuidV5 ns name = [b0, b1, b2, b3, b4, b5, b6, b7, b8, b9, b10, b11, b12, b13, b14, b15] ∧
      b6 >>> 4 = 5 ∧ b8 >>> 6 = 2 := by
  have hlen : ((sha1 (ns ++ name)).take 16).length = 16 := by
    rw [List.length_take, sha1_length]
    rfl
  obtain ⟨b0, b1, b2, b3, b4, b5, b6, b7, b8, b9, b10, b11, b12, b13, b14, b15, h⟩ :=
    list_length16 _ hlen
  refine ⟨b0, b1, b2, b3, b4, b5, (b6 &&& 0x0F) ||| 0x50, b7, (b8 &&& 0x3F) ||| 0x80, b9, b10,
    b11, b12, b13, b14, b15, ?_, u8_ver b6, u8_var b8⟩
  unfold uuidV5
  rw [h]

end PG
