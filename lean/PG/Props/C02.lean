/-
  C02 — a cache written from a mapping answers every query exactly like the mapper.

  Chain: `Cache.parse (Cache.write recs) = ok (ofTables (Tables.build recs))` (PG/Lemmas/Serial +
  WriterInv.build_fits); the written tables represent the record stream (`WriterSpec`,
  PG/Lemmas/WriterInv); a cache that represents `recs` answers like the record-level
  specification (PG/Lemmas/CacheQueries); the mapper answers like the same specification
  (C01 / C03 / C04).  `ReprR` is the representable domain (non-empty names, line numbers below
  2^32-1, valid UTF-8); `Small` is the size bound forced by the format's `u32` counters.
-/
import PG.Lemmas.WriterInv
import PG.Lemmas.CacheQueries
import PG.Props.C01m
import PG.Props.C03m
import PG.Props.C04m
import PG.Model.Trace
import PG.Model.Java
namespace PG

/-- the cache obtained by parsing the written bytes -/
theorem C02_parses (recs : List Record) (hs : (Tables.build recs).Small) :
    Cache.parse (Cache.write recs) = .ok (Cache.ofTables (Tables.build recs)) :=
  parse_bytes (Tables.build recs) (build_fits recs hs)

theorem C02_class (recs : List Record) (hr : ReprR recs) (hs : (Tables.build recs).Small) (pm : Bool) (c : Cache) (hc : Cache.parse (Cache.write recs) = .ok c) (name : Bytes) :
    c.remapClass name = (Mapper.build recs pm).remapClass name := by
  have : c = Cache.ofTables (Tables.build recs) := by
    have := C02_parses recs hs; rw [this] at hc; exact (Except.ok.inj hc).symm
  subst this
  rw [cache_class recs _ hr (build_writerSpec recs hr hs), C04_class]

theorem C02_method (recs : List Record) (hr : ReprR recs) (hs : (Tables.build recs).Small) (pm : Bool) (c : Cache) (hc : Cache.parse (Cache.write recs) = .ok c) (cls m : Bytes) :
    c.remapMethod cls m = (Mapper.build recs pm).remapMethod cls m := by
  have : c = Cache.ofTables (Tables.build recs) := by
    have := C02_parses recs hs; rw [this] at hc; exact (Except.ok.inj hc).symm
  subst this
  rw [cache_method recs _ hr (build_writerSpec recs hr hs), C04_method]

/-- frame remapping by line (mapper with or without parameter index) -/
theorem C02_frame_line (recs : List Record) (hr : ReprR recs) (hs : (Tables.build recs).Small) (pm : Bool) (c : Cache) (hc : Cache.parse (Cache.write recs) = .ok c) (q : Frame)
    (hq : q.params = none) : c.remapFrame q = (Mapper.build recs pm).remapFrame q := by
  have : c = Cache.ofTables (Tables.build recs) := by
    have := C02_parses recs hs; rw [this] at hc; exact (Except.ok.inj hc).symm
  subst this
  rw [cache_frames_line recs _ hr (build_writerSpec recs hr hs) q hq, C01_mapper recs pm q hq]

/-- frame remapping by parameter list (mapper built with the parameter index) -/
theorem C02_frame_params (recs : List Record) (hr : ReprR recs) (hs : (Tables.build recs).Small) (c : Cache) (hc : Cache.parse (Cache.write recs) = .ok c) (q : Frame) (p : Bytes)
    (hq : q.params = some p) : c.remapFrame q = (Mapper.build recs true).remapFrame q := by
  have : c = Cache.ofTables (Tables.build recs) := by
    have := C02_parses recs hs; rw [this] at hc; exact (Except.ok.inj hc).symm
  subst this
  rw [cache_frames_params recs _ hr (build_writerSpec recs hr hs) q p hq, C03_mapper recs q p hq]

/-- every frame query -/
theorem C02_frame (recs : List Record) (hr : ReprR recs) (hs : (Tables.build recs).Small) (c : Cache) (hc : Cache.parse (Cache.write recs) = .ok c) (q : Frame) :
    c.remapFrame q = (Mapper.build recs true).remapFrame q := by
  cases hq : q.params with
  | none => exact C02_frame_line recs hr hs true c hc q hq
  | some p => exact C02_frame_params recs hr hs c hc q p hq

theorem C02_throwable (recs : List Record) (hr : ReprR recs) (hs : (Tables.build recs).Small) (c : Cache) (hc : Cache.parse (Cache.write recs) = .ok c) (t : Throwable) :
    remapThrowableWith c.remapClass t = remapThrowableWith (Mapper.build recs true).remapClass t := by
  unfold remapThrowableWith
  rw [C02_class recs hr hs true c hc]

/-- whole-stack-trace remapping, text API -/
theorem C02_text (recs : List Record) (hr : ReprR recs) (hs : (Tables.build recs).Small) (c : Cache) (hc : Cache.parse (Cache.write recs) = .ok c) (input : Bytes) :
    remapText c.remapClass c.remapFrame input =
      remapText (Mapper.build recs true).remapClass (Mapper.build recs true).remapFrame input := by
  have h1 : c.remapClass = (Mapper.build recs true).remapClass := funext (C02_class recs hr hs true c hc)
  have h2 : c.remapFrame = (Mapper.build recs true).remapFrame := funext (C02_frame recs hr hs c hc)
  rw [h1, h2]

/-- whole-stack-trace remapping, typed API -/
theorem C02_typed (recs : List Record) (hr : ReprR recs) (hs : (Tables.build recs).Small) (c : Cache) (hc : Cache.parse (Cache.write recs) = .ok c) (t : Trace) :
    remapTyped c.remapClass c.remapFrame t =
      remapTyped (Mapper.build recs true).remapClass (Mapper.build recs true).remapFrame t := by
  have h1 : c.remapClass = (Mapper.build recs true).remapClass := funext (C02_class recs hr hs true c hc)
  have h2 : c.remapFrame = (Mapper.build recs true).remapFrame := funext (C02_frame recs hr hs c hc)
  rw [h1, h2]

/-- signature deobfuscation -/
theorem C02_signature (recs : List Record) (hr : ReprR recs) (hs : (Tables.build recs).Small) (c : Cache) (hc : Cache.parse (Cache.write recs) = .ok c) (sig : Bytes) :
    deobfuscateSignature c.remapClass sig = deobfuscateSignature (Mapper.build recs true).remapClass sig := by
  have h1 : c.remapClass = (Mapper.build recs true).remapClass := funext (C02_class recs hr hs true c hc)
  rw [h1]

/-- line-based answers of the mapper are the same whether or not its parameter index was requested -/
theorem C02_pm_indep (recs : List Record) (q : Frame) (hq : q.params = none) :
    (Mapper.build recs true).remapFrame q = (Mapper.build recs false).remapFrame q :=
  C01_pm_indep recs q hq

end PG
