/-
  C12 — no buffer accepted as a cache can make a query panic, overflow or read outside.

  The reader model is total on arbitrary buffers (Lean accepts the definitions, so every query
  terminates).  The theorems below are the obligations that correspond to the panicking
  operations of the Rust source — slice indexing, `get(a..b)`, `+` on `usize`, shifts — stated
  for all buffers and all queries, plus the "every returned string is a slice of the buffer
  or of the query" clause.
-/
import PG.Model.CacheRead
import PG.Lemmas.ListBasics
namespace PG

/-- `binary_search_by` never returns an out-of-range index, for any comparator whatsoever
    (the `get_unchecked` safety argument of the std implementation) -/
theorem C12_bsearch_in_range (n : Nat) (f : Nat → Ordering) (i : Nat)
    (h : binarySearch n f = .ok i) : i < n ∧ f i = .eq := by
  sorry

/-- every index probed by the loop is in range: `bsLoop` stays below `n` -/
theorem C12_bsLoop_lt (f : Nat → Ordering) (n fuel size base : Nat)
    (h1 : 1 ≤ size) (h2 : base + size ≤ n) : bsLoop f fuel size base < n := by
  sorry

theorem C12_search_in_range {α : Type} (l : List α) (cmp : α → Ordering) (i : Nat)
    (h : searchList l cmp = some i) : ∃ x, l[i]? = some x ∧ cmp x = .eq := by
  sorry

/-- `find_range_by_binary_search`: `members[..mid]`, `members[mid..]` and `get(start..end)`
    are in range — the result is a contiguous slice of the input, all of whose elements compare
    equal -/
theorem C12_findRange_slice {α : Type} (l : List α) (cmp : α → Ordering) (r : List α)
    (h : findRange l cmp = some r) : r <:+: l ∧ r ≠ [] ∧ ∀ x ∈ r, cmp x = .eq := by
  sorry

/-- `get_class_members*`: `None` or an in-range slice -/
theorem C12_class_slices (c : Cache) (k : RawClass) :
    (∀ ms, c.classMembers k = some ms → ms <:+: c.members) ∧
    (∀ ms, c.classByParams k = some ms → ms <:+: c.byParams) := by
  sorry

/-- LEB128: at most 10 bytes are consumed, the shift never reaches 64 (the value is below
    2^64) -/
theorem C12_leb_bounded (bs r : Bytes) (v : Nat) (h : lebRead 0 0 bs = some (v, r)) :
    v < usizeBound ∧ r.length < bs.length ∧ bs.length ≤ r.length + 10 ∧ r <:+ bs := by
  sorry

/-- a string read from the table is a contiguous slice of the string section -/
theorem C12_readString_slice (sb : Bytes) (off : Nat) (s : Bytes) (h : readString sb off = some s) :
    s <:+: sb := by
  sorry

/-- the string section of a parsed cache is a suffix of the buffer -/
theorem C12_strings_suffix (buf : Bytes) (c : Cache) (h : Cache.parse buf = .ok c) :
    c.strings <:+ buf := by
  sorry

/-- every `u32` field decoded from a buffer is below 2^32 -/
def Cache.FieldsU32 (c : Cache) : Prop :=
  (∀ k ∈ c.classes, ∀ v ∈ k.fields, v < u32Bound) ∧
  (∀ m ∈ c.members, ∀ v ∈ m.fields, v < u32Bound) ∧
  (∀ m ∈ c.byParams, ∀ v ∈ m.fields, v < u32Bound)

theorem C12_fields_u32 (buf : Bytes) (c : Cache) (h : Cache.parse buf = .ok c) : c.FieldsU32 := by
  sorry

/-- no arithmetic overflow in line computation: every returned line number fits `usize`,
    for any query line up to the maximum -/
theorem C12_line_bounded (c : Cache) (hc : c.FieldsU32) (q : Frame) (hq : q.line < usizeBound) :
    ∀ f ∈ c.remapFrame q, f.line < usizeBound := by
  sorry

/-- `s` is a slice of the buffer or of one of the query's strings -/
def SliceOf (buf : Bytes) (q : Frame) (s : Bytes) : Prop :=
  s <:+: buf ∨ s <:+: q.cls ∨ s <:+: q.method ∨ (∃ f, q.file = some f ∧ s <:+: f) ∨
    (∃ p, q.params = some p ∧ s <:+: p)

/-- every string returned by a class lookup is a slice of the buffer -/
theorem C12_class_slice (buf : Bytes) (c : Cache) (h : Cache.parse buf = .ok c) (name s : Bytes)
    (hs : c.remapClass name = some s) : s <:+: buf := by
  sorry

theorem C12_method_slice (buf : Bytes) (c : Cache) (h : Cache.parse buf = .ok c) (cls meth a b : Bytes)
    (hs : c.remapMethod cls meth = some (a, b)) : a <:+: buf ∧ b <:+: buf := by
  sorry

/-- every string in every frame returned by frame remapping (by line or by parameters) is a
    slice of the buffer or of the query -/
theorem C12_frame_slices (buf : Bytes) (c : Cache) (h : Cache.parse buf = .ok c) (q : Frame) :
    ∀ f ∈ c.remapFrame q,
      SliceOf buf q f.cls ∧ SliceOf buf q f.method ∧
      (∀ x, f.file = some x → SliceOf buf q x) ∧ (∀ x, f.params = some x → SliceOf buf q x) := by
  sorry

end PG
