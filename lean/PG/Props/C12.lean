/-
  C12 — no buffer accepted as a cache can make a query panic, overflow or read outside.

  The reader model is total on arbitrary buffers (Lean accepts the definitions, so every query
  terminates).  The theorems below are the obligations that correspond to the panicking
  operations of the Rust source — slice indexing, `get(a..b)`, `+` on `usize`, shifts — stated
  for all buffers and all queries, plus the "every returned string is a slice of the buffer
  or of the query" clause.
-/
import PG.Model.CacheRead
import PG.Lemmas.ListBasics
import PG.Lemmas.Reader
namespace PG

/-- `binary_search_by` never returns an out-of-range index, for any comparator whatsoever
    (the `get_unchecked` safety argument of the std implementation) -/
theorem C12_bsearch_in_range (n : Nat) (f : Nat → Ordering) (i : Nat)
    (h : binarySearch n f = .ok i) : i < n ∧ f i = .eq := by
  exact binarySearch_ok n f i h

/-- every index probed by the loop is in range: `bsLoop` stays below `n` -/
theorem C12_bsLoop_lt (f : Nat → Ordering) (n fuel size base : Nat)
    (h1 : 1 ≤ size) (h2 : base + size ≤ n) : bsLoop f fuel size base < n := by
  exact bsLoop_lt f n fuel size base h1 h2

theorem C12_search_in_range {α : Type} (l : List α) (cmp : α → Ordering) (i : Nat)
    (h : searchList l cmp = some i) : ∃ x, l[i]? = some x ∧ cmp x = .eq := by
  exact searchList_some l cmp i h

/-- `find_range_by_binary_search`: `members[..mid]`, `members[mid..]` and `get(start..end)`
    are in range — the result is a contiguous slice of the input, all of whose elements compare
    equal -/
theorem C12_findRange_slice {α : Type} (l : List α) (cmp : α → Ordering) (r : List α)
    (h : findRange l cmp = some r) : r <:+: l ∧ r ≠ [] ∧ ∀ x ∈ r, cmp x = .eq := by
  exact findRange_slice l cmp r h

/-- `get_class_members*`: `None` or an in-range slice -/
theorem C12_class_slices (c : Cache) (k : RawClass) :
    (∀ ms, c.classMembers k = some ms → ms <:+: c.members) ∧
    (∀ ms, c.classByParams k = some ms → ms <:+: c.byParams) := by
  exact ⟨fun ms h => sliceOf_infix _ _ _ _ h, fun ms h => sliceOf_infix _ _ _ _ h⟩

/-- LEB128: at most 10 bytes are consumed, the shift never reaches 64 (the value is below
    2^64) -/
theorem C12_leb_bounded (bs r : Bytes) (v : Nat) (h : lebRead 0 0 bs = some (v, r)) :
    v < usizeBound ∧ r.length < bs.length ∧ bs.length ≤ r.length + 10 ∧ r <:+ bs := by
  have := lebRead_spec 0 (by omega) 0 bs r v h
  simpa using this

/-- a string read from the table is a contiguous slice of the string section -/
theorem C12_readString_slice (sb : Bytes) (off : Nat) (s : Bytes) (h : readString sb off = some s) :
    s <:+: sb := by
  exact readString_slice sb off s h

/-- the string section of a parsed cache is a suffix of the buffer -/
theorem C12_strings_suffix (buf : Bytes) (c : Cache) (h : Cache.parse buf = .ok c) :
    c.strings <:+ buf := by
  exact (parse_spec buf c h).1

/-- every `u32` field decoded from a buffer is below 2^32 -/
def Cache.FieldsU32 (c : Cache) : Prop :=
  (∀ k ∈ c.classes, ∀ v ∈ k.fields, v < u32Bound) ∧
  (∀ m ∈ c.members, ∀ v ∈ m.fields, v < u32Bound) ∧
  (∀ m ∈ c.byParams, ∀ v ∈ m.fields, v < u32Bound)

theorem C12_fields_u32 (buf : Bytes) (c : Cache) (h : Cache.parse buf = .ok c) : c.FieldsU32 := by
  exact (parse_spec buf c h).2

/-- no arithmetic overflow in line computation: every returned line number fits `usize`,
    for any query line up to the maximum -/
theorem C12_line_bounded (c : Cache) (hc : c.FieldsU32) (q : Frame) (hq : q.line < usizeBound) :
    ∀ f ∈ c.remapFrame q, f.line < usizeBound := by
  intro f hf
  obtain ⟨orig, _, hcase⟩ := remapFrame_spec c q f hf
  rcases hcase with ⟨m, hm, hl⟩ | ⟨ms, hms⟩
  · apply (lineFrame_spec _ _ _ _ hl).2.2.2.2
    have : m.origStartline < u32Bound := hc.2.1 m hm _ (by simp [RawMember.fields])
    simp only [u32Bound, usizeBound] at *; omega
  · rw [(paramFrames_spec _ _ _ f hms).2.2.2.2]; decide

/-- `s` is a slice of the buffer or of one of the query's strings -/
def SliceOf (buf : Bytes) (q : Frame) (s : Bytes) : Prop :=
  s <:+: buf ∨ s <:+: q.cls ∨ s <:+: q.method ∨ (∃ f, q.file = some f ∧ s <:+: f) ∨
    (∃ p, q.params = some p ∧ s <:+: p)

/-- every string returned by a class lookup is a slice of the buffer -/
theorem class_slice_of_suffix (buf : Bytes) (c : Cache) (hsuf : c.strings <:+ buf) (name s : Bytes)
    (hs : c.remapClass name = some s) : s <:+: buf := by
  unfold Cache.remapClass at hs
  split at hs
  · cases hs
  · exact (str_slice _ _ _ hs).trans hsuf.isInfix

/-- every string returned by a class lookup is a slice of the buffer -/
theorem C12_class_slice (buf : Bytes) (c : Cache) (h : Cache.parse buf = .ok c) (name s : Bytes)
    (hs : c.remapClass name = some s) : s <:+: buf :=
  class_slice_of_suffix buf c (parse_spec buf c h).1 name s hs

theorem method_slice_of_suffix (buf : Bytes) (c : Cache) (hsuf : c.strings <:+ buf) (cls meth a b : Bytes)
    (hs : c.remapMethod cls meth = some (a, b)) : a <:+: buf ∧ b <:+: buf := by
  unfold Cache.remapMethod at hs
  split at hs
  · cases hs
  split at hs
  · cases hs
  split at hs
  · cases hs
  · cases hs
  split at hs
  · split at hs
    · next oc om hoc hom =>
      simp only [Option.some.injEq, Prod.mk.injEq] at hs
      obtain ⟨rfl, rfl⟩ := hs
      exact ⟨(str_slice _ _ _ hoc).trans hsuf.isInfix, (str_slice _ _ _ hom).trans hsuf.isInfix⟩
    · cases hs
  · cases hs

theorem C12_method_slice (buf : Bytes) (c : Cache) (h : Cache.parse buf = .ok c) (cls meth a b : Bytes)
    (hs : c.remapMethod cls meth = some (a, b)) : a <:+: buf ∧ b <:+: buf :=
  method_slice_of_suffix buf c (parse_spec buf c h).1 cls meth a b hs

theorem frame_slices_of_suffix (buf : Bytes) (c : Cache) (hsuf' : c.strings <:+ buf) (q : Frame) :
    ∀ f ∈ c.remapFrame q,
      SliceOf buf q f.cls ∧ SliceOf buf q f.method ∧
      (∀ x, f.file = some x → SliceOf buf q x) ∧ (∀ x, f.params = some x → SliceOf buf q x) := by
  have hsuf := hsuf'.isInfix
  intro f hf
  obtain ⟨orig, horig, hcase⟩ := remapFrame_spec c q f hf
  have hcls : ∀ s : Bytes, (s <:+: c.strings ∨ s = orig) → s <:+: buf := by
    intro s hs
    rcases hs with hs | rfl
    · exact hs.trans hsuf
    · exact horig.trans hsuf
  rcases hcase with ⟨m, hm, hl⟩ | ⟨ms, hms⟩
  · obtain ⟨h1, h2, h3, h4, _⟩ := lineFrame_spec _ _ _ _ hl
    have hc := hcls _ h1
    refine ⟨Or.inl hc, Or.inl (h2.trans hsuf), ?_, ?_⟩
    · intro x hx
      rcases h3 x hx with h' | h' | h'
      · exact Or.inl (h'.trans hsuf)
      · exact Or.inl (h'.trans hc)
      · exact Or.inr (Or.inr (Or.inr (Or.inl ⟨x, h', List.infix_refl _⟩)))
    · intro x hx
      rw [h4] at hx
      exact Or.inr (Or.inr (Or.inr (Or.inr ⟨x, hx, List.infix_refl _⟩)))
  · obtain ⟨h1, h2, h3, h4, _⟩ := paramFrames_spec _ _ _ f hms
    refine ⟨Or.inl (hcls _ h1), Or.inl (h2.trans hsuf), ?_, ?_⟩
    · intro x hx; rw [h3] at hx; cases hx
    · intro x hx
      rw [h4] at hx
      exact Or.inr (Or.inr (Or.inr (Or.inr ⟨x, hx, List.infix_refl _⟩)))

/-- every string in every frame returned by frame remapping (by line or by parameters) is a
    slice of the buffer or of the query -/
theorem C12_frame_slices (buf : Bytes) (c : Cache) (h : Cache.parse buf = .ok c) (q : Frame) :
    ∀ f ∈ c.remapFrame q,
      SliceOf buf q f.cls ∧ SliceOf buf q f.method ∧
      (∀ x, f.file = some x → SliceOf buf q x) ∧ (∀ x, f.params = some x → SliceOf buf q x) :=
  frame_slices_of_suffix buf c (parse_spec buf c h).1 q

/-- The same guarantees for a buffer at **any** address residue (`Cache.parseAt a`, what the
    reader sees when the file does not start at a multiple of 8 and every section is looked for
    elsewhere): whatever is accepted has `u32` fields, line arithmetic cannot overflow
    (`C12_line_bounded` needs only `FieldsU32`), and every returned string is a slice of the
    buffer or of the query. -/
theorem C12_unaligned (a : Nat) (buf : Bytes) (c : Cache) (h : Cache.parseAt a buf = .ok c) :
    c.strings <:+ buf ∧ c.FieldsU32 ∧
    (∀ name s, c.remapClass name = some s → s <:+: buf) ∧
    (∀ cls meth x y, c.remapMethod cls meth = some (x, y) → x <:+: buf ∧ y <:+: buf) ∧
    (∀ q : Frame, ∀ f ∈ c.remapFrame q,
      SliceOf buf q f.cls ∧ SliceOf buf q f.method ∧
      (∀ x, f.file = some x → SliceOf buf q x) ∧ (∀ x, f.params = some x → SliceOf buf q x)) := by
  have hp := parseAt_spec a buf c h
  exact ⟨hp.1, hp.2, fun name s hs => class_slice_of_suffix buf c hp.1 name s hs,
    fun cls meth x y hs => method_slice_of_suffix buf c hp.1 cls meth x y hs,
    fun q => frame_slices_of_suffix buf c hp.1 q⟩

end PG
