/-
  C03 — parameter-based retrace returns the distinct real methods matching name and args
  (in-memory mapper built with the parameter index; cache ≡ mapper is C02).
-/
import PG.Spec.Retrace
import PG.Lemmas.ListBasics
import PG.Lemmas.MapperInv
namespace PG

theorem C03_mapper (recs : List Record) (q : Frame) (p : Bytes) (hq : q.params = some p) :
    (Mapper.build recs true).remapFrame q = SpecR.framesByParams recs q p :=
  remapFrame_params recs q p hq

/-- without the parameter index, parameter-based queries are not answered -/
theorem C03_pm_false (recs : List Record) (q : Frame) (p : Bytes) (hq : q.params = some p) :
    (Mapper.build recs false).remapFrame q = [] :=
  remapFrame_params_false recs q p hq

/-- line 0 and no file, always -/
theorem C03_line_file (recs : List Record) (q : Frame) (p : Bytes) :
    ∀ f ∈ SpecR.framesByParams recs q p, f.line = 0 ∧ f.file = none := by
  unfold SpecR.framesByParams
  cases SpecR.lastBlock recs q.cls with
  | none => simp
  | some b =>
    intro f hf
    simp only [List.mem_map] at hf
    obtain ⟨e, _, rfl⟩ := hf
    exact ⟨rfl, rfl⟩

/-- inlined callees never appear: every answer comes from an entry that is not followed by an
    entry with the identical obfuscated range -/
theorem C03_no_inlined (recs : List Record) (q : Frame) (p : Bytes) (b : SpecR.Block)
    (hb : SpecR.lastBlock recs q.cls = some b) :
    ∀ f ∈ SpecR.framesByParams recs q p, ∃ e ∈ b.entries, e.inlined = false ∧ e.obf = q.method ∧
      e.args = p ∧ f.method = e.name ∧ f.cls = e.fc.getD b.orig := by
  unfold SpecR.framesByParams
  rw [hb]
  intro f hf
  simp only [List.mem_map] at hf
  obtain ⟨e, he, rfl⟩ := hf
  obtain ⟨he1, he2⟩ := List.mem_filter.mp he
  obtain ⟨he3, he4⟩ := List.mem_filter.mp (mem_dedupBy _ _ _ e he1).1
  simp only [Bool.and_eq_true, beq_iff_eq] at he2
  refine ⟨e, he3, ?_, he2.1, he2.2, rfl, rfl⟩
  simpa using he4

/-- duplicates never appear: the original method names of an answer are pairwise distinct -/
theorem C03_nodup (recs : List Record) (q : Frame) (p : Bytes) :
    ((SpecR.framesByParams recs q p).map (·.method)).Nodup := by
  unfold SpecR.framesByParams
  cases SpecR.lastBlock recs q.cls with
  | none => simp
  | some b =>
    simp only [List.map_map]
    unfold List.Nodup
    rw [List.pairwise_map]
    have hp := dedupBy_pairwise (fun e : SpecR.Entry => (e.obf, e.args, e.name))
      (b.entries.filter (fun e => !e.inlined)) []
    have hp2 := hp.filter (fun e => e.obf == q.method && e.args == p)
    refine List.Pairwise.imp_of_mem ?_ hp2
    intro x y hx hy hxy
    have hx' := (List.mem_filter.mp hx).2
    have hy' := (List.mem_filter.mp hy).2
    simp only [Bool.and_eq_true, beq_iff_eq] at hx' hy'
    simp only [Function.comp]
    intro hn
    apply hxy
    rw [hx'.1, hx'.2, hy'.1, hy'.2, hn]

/-- state never leaks from one class block into the next: the answer for class `c` is a
    function of `c`'s last block alone -/
theorem C03_class_local (recs₁ recs₂ : List Record) (q : Frame) (p : Bytes)
    (h : SpecR.lastBlock recs₁ q.cls = SpecR.lastBlock recs₂ q.cls) :
    SpecR.framesByParams recs₁ q p = SpecR.framesByParams recs₂ q p := by
  unfold SpecR.framesByParams
  rw [h]

end PG
