/-
  C20 — mapper and cache are shareable across threads and answer as if queried alone.
  The substance of this property is a fact about Rust (`Send + Sync`, no interior
  mutability) and about real interleavings; it is checked by compile-time assertions and a
  concurrent differential run in the harness.  What Lean can say is recorded here for
  completeness and is deliberately labelled trivial: in the model a query is a pure function of
  the (immutable) mapper / cache value and the query, so the answers to a batch do not depend
  on the order in which the batch is processed.
-/
import PG.Model.CacheRead
import PG.Lemmas.HashOrder
namespace PG

/-- answering a batch in any order gives the same answer for each query (trivial: purity) -/
theorem C20_order_indep {Q A : Type} (answer : Q → A) (qs₁ qs₂ : List Q) (h : qs₁.Perm qs₂) :
    (qs₁.map (fun q => (q, answer q))).Perm (qs₂.map (fun q => (q, answer q))) :=
  h.map _

/-- instantiated for frame queries against a mapper and a cache -/
theorem C20_frames_order_indep (m : Mapper) (c : Cache) (qs₁ qs₂ : List Frame) (h : qs₁.Perm qs₂) :
    (qs₁.map (fun q => (q, m.remapFrame q, c.remapFrame q))).Perm
      (qs₂.map (fun q => (q, m.remapFrame q, c.remapFrame q))) :=
  h.map _

/-- tie to the source (re-checked on every run): the mapper's hash maps are only ever looked
    up / inserted into, never iterated, so no answer can depend on a per-process hash seed -/
theorem C20_hash_ops_order_free :
    Generated.hashExtractorOk = true ∧ ∀ op ∈ Generated.hashOps, op.2.2 ∈ orderFreeOps :=
  hash_ops_order_free

end PG
