/-
  C13 — no mapping bytes and no query can make the library panic, overflow or error.
  The model is total (every function terminates on every input); the theorems below are the
  obligations behind the *fallible* steps of the pipeline: the writer's own output always
  parses, whatever the mapping bytes were; nothing stored in a `u32` is out of range; every
  line number computed by the mapper fits `usize`.
-/
import PG.Lemmas.WriterInv
import PG.Lemmas.ParserProgress
import PG.Model.Trace
namespace PG

/-- For every record list — truncated line numbers, empty names, anything — whose tables fit
    the format's `u32` counters, the bytes the writer produces are accepted by the parser. -/
theorem C13_write_parse_ok (recs : List Record) (hs : (Tables.build recs).Small) :
    ∃ c, Cache.parse (Cache.write recs) = .ok c :=
  ⟨_, parse_bytes (Tables.build recs) (build_fits recs hs)⟩

/-- in particular for the records of every byte string -/
theorem C13_bytes_pipeline (bs : Bytes) (hs : (Tables.build (okRecs (records bs))).Small) :
    ∃ c, Cache.parse (Cache.writeBytes bs) = .ok c :=
  C13_write_parse_ok _ hs

/-- every `u32` field and counter of the written tables is in range and the header's sums are
    the section lengths (no `+= 1` or `sum::<u32>()` overflow) -/
theorem C13_counters (recs : List Record) (hs : (Tables.build recs).Small) : (Tables.build recs).Fits :=
  build_fits recs hs

/-- the mapper's line arithmetic never leaves `usize`, for any query line: saturating -/
theorem C13_line_bounded (os : Nat) (oe : Option Nat) (start line : Nat) (hos : os < usizeBound) :
    origLine os oe start line < usizeBound := by
  unfold origLine satAdd usizeBound usizeMax at *
  split
  · exact hos
  · split <;> omega

/-- `parse_frame`'s slice `line[3..len-1]`: a trimmed line that starts with `at ` and ends with
    `)` has at least 4 bytes, so `3 ≤ len - 1` -/
theorem stripPrefix_eq_append (p bs r : Bytes) (h : stripPrefix p bs = some r) : bs = p ++ r := by
  induction p generalizing bs with
  | nil => simp [stripPrefix] at h; simp [h]
  | cons a as ih =>
    cases bs with
    | nil => simp [stripPrefix] at h
    | cons b bs =>
      simp only [stripPrefix] at h
      split at h
      · rename_i hab
        have : a = b := by simpa using hab
        subst this
        rw [ih bs h]; rfl
      · cases h

theorem C13_frame_slice (line body : Bytes) (h1 : stripPrefix litAt line = some body)
    (h2 : body.getLast? = some 41) : 4 ≤ line.length := by
  have := stripPrefix_eq_append litAt line body h1
  subst this
  cases body with
  | nil => simp at h2
  | cons b bs => simp [litAt]

end PG
