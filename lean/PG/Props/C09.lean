/-
  C09 — written cache files conform to the documented layout and ordering invariants.
  `Format.decode` / `Format.WF` (PG/Spec/Format.lean) are a decoder and a well-formedness
  predicate written from the documented format only; they share no code with the reader model.
-/
import PG.Spec.Format
import PG.Lemmas.WriterInv
import PG.Lemmas.FormatL
import PG.Lemmas.FormatL2
import PG.Lemmas.DebugL
namespace PG

/-- For every mapping in the representable domain (tables within the `u32` counters) the
    bytes produced by the cache writer decode, with the independent decoder, into a file that
    satisfies every documented invariant: magic, version and counts; class entries strictly
    sorted by obfuscated name whose member and by-params ranges tile their sections exactly, in
    class order; members sorted by name within a class, by-params entries by (name, params);
    8-byte aligned sections with zero padding; a string section of exactly the declared length
    in which every referenced offset is a length-prefixed valid UTF-8 string or, where the
    format allows absence, the sentinel. -/
theorem C09_wf (recs : List Record) (hr : ReprR recs) (hs : (Tables.build recs).Small) :
    ∃ d, Format.decode (Cache.write recs) = some d ∧ Format.WF d = true :=
  ⟨FL.decOf (Tables.build recs), FL.decode_bytes (Tables.build recs) (build_fits recs hs),
    FL.wf_build recs hr hs⟩

/-- the answer of the `FMT` protocol operation on written files -/
theorem C09_check (recs : List Record) (hr : ReprR recs) (hs : (Tables.build recs).Small) :
    Format.check (Cache.write recs) = "ok" := by
  obtain ⟨d, h1, h2⟩ := C09_wf recs hr hs
  exact FL.check_ok _ d h1 h2

/-- The library's own integrity self-test (`ProguardCache::test`) accepts every such file. -/
theorem C09_selftest (recs : List Record) (hr : ReprR recs) (hs : (Tables.build recs).Small)
    (c : Cache) (hc : Cache.parse (Cache.write recs) = .ok c) : c.selfTest = true := by
  have h := parse_bytes (Tables.build recs) (build_fits recs hs)
  have e : Cache.write recs = (Tables.build recs).bytes := rfl
  rw [e, h] at hc
  cases hc
  exact FL.selfTest_build recs hr hs

/-- …and the `Display` view of the cache (`ProguardCache::display`, src/cache/debug.rs), which
    `unwrap()`s its name reads, never panics on such a file. -/
theorem C09_display_total (recs : List Record) (hr : ReprR recs) (hs : (Tables.build recs).Small)
    (c : Cache) (hc : Cache.parse (Cache.write recs) = .ok c) : c.display.isSome = true :=
  Cache.display_total_of_selfTest c (C09_selftest recs hr hs c hc)

end PG
