/-
  PG.Lemmas.BSearch — completeness of the mirrored `binary_search_by` / `find_range_by_binary_search`
  on lists that are monotone for the comparator (soundness, which needs no assumption, is in
  PG/Lemmas/Reader.lean / PG/Props/C12.lean).
-/
import PG.Lemmas.Reader
namespace PG

/-- the comparator is consistent with the order of the list: once `gt`, always `gt` to the
    right; once `lt`, always `lt` to the left (what Rust's documentation requires of the slice) -/
def MonoCmp {α : Type} (l : List α) (cmp : α → Ordering) : Prop :=
  ∀ (i j : Nat) (x y : α), i ≤ j → l[i]? = some x → l[j]? = some y →
    (cmp x = .gt → cmp y = .gt) ∧ (cmp y = .lt → cmp x = .lt)

/-! ### index-function level -/

/-- monotonicity of an index comparator on `[0, n)` -/
def MonoIdx (n : Nat) (f : Nat → Ordering) : Prop :=
  ∀ i j, i ≤ j → j < n → (f i = .gt → f j = .gt) ∧ (f j = .lt → f i = .lt)

theorem bsLoop_inv (f : Nat → Ordering) (n : Nat) (hm : MonoIdx n f) :
    ∀ fuel size base, size ≤ fuel → 1 ≤ size → base + size ≤ n →
      (∀ i, base + size ≤ i → i < n → f i = .gt) →
      (base = 0 ∨ f base ≠ .gt) →
      (∀ i, bsLoop f fuel size base < i → i < n → f i = .gt) ∧
        (bsLoop f fuel size base = 0 ∨ f (bsLoop f fuel size base) ≠ .gt) := by
  intro fuel
  induction fuel with
  | zero => intro size base h0 h1; omega
  | succ fuel ih =>
    intro size base hf h1 hle hgt hb
    simp only [bsLoop]
    split
    · next hs =>
      by_cases hmid : f (base + size / 2) = .gt
      · simp only [hmid, beq_self_eq_true, if_true]
        apply ih (size - size / 2) base (by omega) (by omega) (by omega) _ hb
        intro i hi hin
        exact (hm (base + size / 2) i (by omega) hin).1 hmid
      · have : (f (base + size / 2) == Ordering.gt) = false := by
          cases h : f (base + size / 2) <;> simp_all
        simp only [this]
        apply ih (size - size / 2) (base + size / 2) (by omega) (by omega) (by omega) _
          (Or.inr hmid)
        intro i hi hin
        exact hgt i (by omega) hin
    · exact ⟨fun i hi hin => hgt i (by omega) hin, hb⟩

theorem binarySearch_complete (n : Nat) (f : Nat → Ordering) (hm : MonoIdx n f)
    (e : Nat) (he : e < n) (hfe : f e = .eq) : ∃ i, binarySearch n f = .ok i := by
  unfold binarySearch
  have hn : n ≠ 0 := by omega
  simp only [hn, if_false]
  have hinv := bsLoop_inv f n hm n n 0 (Nat.le_refl _) (by omega) (by omega)
    (by intro i h1 h2; omega) (Or.inl rfl)
  have hlt := bsLoop_lt f n n n 0 (by omega) (by omega)
  generalize bsLoop f n n 0 = b at *
  obtain ⟨hgt, hb⟩ := hinv
  have heb : e ≤ b := by
    apply Classical.byContradiction; intro hc
    have := hgt e (by omega) he
    rw [hfe] at this; cases this
  cases hfb : f b with
  | eq => exact ⟨b, rfl⟩
  | lt =>
    have := (hm e b heb hlt).2 hfb
    rw [hfe] at this; cases this
  | gt =>
    rcases hb with hb | hb
    · subst hb
      have : e = 0 := by omega
      subst this; rw [hfe] at hfb; cases hfb
    · exact absurd hfb hb

/-! ### list level -/

theorem monoIdx_of_monoCmp {α : Type} (l : List α) (cmp : α → Ordering) (hm : MonoCmp l cmp)
    (f : Nat → Ordering) (hf : ∀ i (h : i < l.length), f i = cmp l[i]) :
    MonoIdx l.length f := by
  intro i j hij hj
  have hi : i < l.length := by omega
  rw [hf i hi, hf j hj]
  exact hm i j l[i] l[j] hij (List.getElem?_eq_getElem hi) (List.getElem?_eq_getElem hj)

theorem binarySearch_ne_error (n : Nat) (f : Nat → Ordering) (hm : MonoIdx n f)
    (e : Nat) (he : e < n) (hfe : f e = .eq) (a : Nat) : binarySearch n f ≠ .error a := by
  obtain ⟨i, hi⟩ := binarySearch_complete n f hm e he hfe
  rw [hi]; intro h; cases h

/-- on a monotone list the search finds an equal element whenever there is one -/
theorem searchList_complete {α : Type} (l : List α) (cmp : α → Ordering) (hm : MonoCmp l cmp)
    (hex : ∃ x ∈ l, cmp x = .eq) : ∃ i x, searchList l cmp = some i ∧ l[i]? = some x ∧ cmp x = .eq := by
  obtain ⟨x, hx, hc⟩ := hex
  obtain ⟨e, he, hxe⟩ := List.getElem_of_mem hx
  cases hs : searchList l cmp with
  | some i =>
    obtain ⟨y, hy, hcy⟩ := searchList_some l cmp i hs
    exact ⟨i, y, rfl, hy, hcy⟩
  | none =>
    exfalso
    unfold searchList at hs
    split at hs
    · cases hs
    · next a heq =>
      exact absurd heq (binarySearch_ne_error _ _
        (monoIdx_of_monoCmp l cmp hm _ (by intro i h; simp only [List.getElem?_eq_getElem h]))
        e he (by simp only [List.getElem?_eq_getElem he, hxe, hc]) a)

/-- without an equal element the search fails (no assumption on the list) -/
theorem searchList_none {α : Type} (l : List α) (cmp : α → Ordering)
    (h : ∀ x ∈ l, cmp x ≠ .eq) : searchList l cmp = none := by
  cases hs : searchList l cmp with
  | none => rfl
  | some i =>
    obtain ⟨x, hx, hc⟩ := searchList_some l cmp i hs
    exact absurd hc (h x (List.mem_of_getElem? hx))

/-! ### the equal run -/

theorem takeWhile_eq_filter_of_pairwise {α : Type} (p : α → Bool) (l : List α)
    (h : l.Pairwise (fun a b => p b = true → p a = true)) : l.takeWhile p = l.filter p := by
  induction l with
  | nil => rfl
  | cons a t ih =>
    rw [List.pairwise_cons] at h
    by_cases ha : p a = true
    · rw [List.takeWhile_cons_of_pos ha, List.filter_cons_of_pos ha, ih h.2]
    · rw [List.takeWhile_cons_of_neg ha, List.filter_cons_of_neg ha]
      symm
      rw [List.filter_eq_nil_iff]
      intro b hb hpb
      exact ha (h.1 b hb hpb)

theorem reverse_takeWhile_eq_filter_of_pairwise {α : Type} (p : α → Bool) (l : List α)
    (h : l.Pairwise (fun a b => p a = true → p b = true)) :
    (l.reverse.takeWhile p).reverse = l.filter p := by
  rw [takeWhile_eq_filter_of_pairwise p l.reverse (List.pairwise_reverse.mpr h),
    List.filter_reverse, List.reverse_reverse]

theorem pairwise_of_monoCmp {α : Type} (l : List α) (cmp : α → Ordering) (hm : MonoCmp l cmp) :
    l.Pairwise (fun x y => (cmp x = .gt → cmp y = .gt) ∧ (cmp y = .lt → cmp x = .lt)) := by
  rw [List.pairwise_iff_getElem]
  intro i j hi hj hij
  exact hm i j l[i] l[j] (Nat.le_of_lt hij) (List.getElem?_eq_getElem hi)
    (List.getElem?_eq_getElem hj)

/-- on a monotone list the equal elements are contiguous and `findRange` returns all of them,
    in list order -/
theorem findRange_eq_filter {α : Type} (l : List α) (cmp : α → Ordering) (hm : MonoCmp l cmp) :
    findRange l cmp =
      (if l.filter (fun x => cmp x == .eq) = [] then none else some (l.filter (fun x => cmp x == .eq))) := by
  by_cases hnil : l.filter (fun x => cmp x == .eq) = []
  · rw [if_pos hnil]
    have hall : ∀ x ∈ l, cmp x ≠ .eq := by
      intro x hx hc
      rw [List.filter_eq_nil_iff] at hnil
      exact hnil x hx (by simp [hc])
    unfold findRange
    rw [searchList_none l cmp hall]
  · rw [if_neg hnil]
    have hex : ∃ x ∈ l, cmp x = .eq := by
      obtain ⟨x, hx⟩ := List.exists_mem_of_ne_nil _ hnil
      rw [List.mem_filter] at hx
      exact ⟨x, hx.1, by simpa using hx.2⟩
    obtain ⟨mid, x, hs, hx, hc⟩ := searchList_complete l cmp hm hex
    cases hr : findRange l cmp with
    | none =>
      unfold findRange at hr
      rw [hs] at hr
      cases hr
    | some r =>
      obtain ⟨mid', x', hx', hc', hr'⟩ := findRange_eq l cmp r hr
      have hmid : mid' < l.length := by
        rcases Nat.lt_or_ge mid' l.length with h' | h'
        · exact h'
        · rw [List.getElem?_eq_none h'] at hx'; cases hx'
      have hdrop : l.drop mid' = x' :: l.drop (mid' + 1) := by
        rw [List.getElem?_eq_getElem hmid] at hx'
        cases hx'
        exact List.drop_eq_getElem_cons hmid
      have hpw := pairwise_of_monoCmp l cmp hm
      rw [← List.take_append_drop mid' l, List.pairwise_append] at hpw
      obtain ⟨hpA, hpB, hAB⟩ := hpw
      -- nothing before `mid'` is `gt`, nothing from `mid'` on is `lt`
      have hA : ∀ a ∈ l.take mid', cmp a ≠ .gt := by
        intro a ha hg
        have := (hAB a ha x' (by rw [hdrop]; exact List.mem_cons_self)).1 hg
        rw [hc'] at this; cases this
      have hB : ∀ b ∈ l.drop mid', cmp b ≠ .lt := by
        intro b hb hl
        rw [hdrop] at hb hpB
        rcases List.mem_cons.mp hb with rfl | hb
        · rw [hc'] at hl; cases hl
        · have := ((List.pairwise_cons.mp hpB).1 b hb).2 hl
          rw [hc'] at this; cases this
      have h1 : ((l.take mid').reverse.takeWhile (fun x => cmp x == .eq)).reverse =
          (l.take mid').filter (fun x => cmp x == .eq) := by
        apply reverse_takeWhile_eq_filter_of_pairwise
        refine List.Pairwise.imp_of_mem ?_ hpA
        intro a b ha hb hR hae
        simp only [beq_iff_eq] at hae ⊢
        cases hcb : cmp b with
        | eq => rfl
        | gt => exact absurd hcb (hA b hb)
        | lt => have := hR.2 hcb; rw [hae] at this; cases this
      have h2 : (l.drop mid').takeWhile (fun x => cmp x == .eq) =
          (l.drop mid').filter (fun x => cmp x == .eq) := by
        apply takeWhile_eq_filter_of_pairwise
        refine List.Pairwise.imp_of_mem ?_ hpB
        intro a b ha hb hR hbe
        simp only [beq_iff_eq] at hbe ⊢
        cases hca : cmp a with
        | eq => rfl
        | lt => exact absurd hca (hB a ha)
        | gt => have := hR.1 hca; rw [hbe] at this; cases this
      rw [hr', h1, h2, ← List.filter_append, List.take_append_drop]

/-- a list sorted by a key, searched for a key: monotone -/
theorem monoCmp_of_sorted {α κ : Type} (l : List α) (key : α → κ) (ord : κ → κ → Ordering) (k : κ)
    (hswap : ∀ a b, ord a b = .lt ↔ ord b a = .gt)
    (htrans : ∀ a b c, ord a b = .lt → ord b c = .lt → ord a c = .lt)
    (heq : ∀ a b, ord a b = .eq ↔ a = b)
    (hs : l.Pairwise (fun a b => ord (key a) (key b) ≠ .gt)) :
    MonoCmp l (fun x => ord (key x) k) := by
  intro i j x y hij hx hy
  rcases Nat.lt_or_ge i j with hlt | hge
  · have hj : j < l.length := by
      rcases Nat.lt_or_ge j l.length with h' | h'
      · exact h'
      · rw [List.getElem?_eq_none h'] at hy; cases hy
    have hi : i < l.length := by omega
    rw [List.getElem?_eq_getElem hi] at hx
    rw [List.getElem?_eq_getElem hj] at hy
    cases hx; cases hy
    have hxy := List.pairwise_iff_getElem.mp hs i j hi hj hlt
    simp only
    cases ho : ord (key l[i]) (key l[j]) with
    | gt => exact absurd ho hxy
    | eq =>
      rw [(heq _ _).mp ho]
      exact ⟨id, id⟩
    | lt =>
      constructor
      · intro hg
        have h1 := (hswap _ _).mpr hg
        exact (hswap _ _).mp (htrans _ _ _ h1 ho)
      · intro hl
        exact htrans _ _ _ ho hl
  · have : i = j := by omega
    subst this
    rw [hx] at hy; cases hy
    exact ⟨id, id⟩

end PG
