/-
  PG.Lemmas.ParserLocal — line locality of the record parser: what `parseRecord` does on a
  line does not depend on what follows the line's terminator.
-/
import PG.Model.Parser
import PG.Lemmas.ListBasics
import PG.Lemmas.ParserProgress
namespace PG

/-- a tail that starts with a line-terminator byte -/
def StartsNl (T : Bytes) : Prop := ∃ nl t, T = nl :: t ∧ isNewline nl = true

/-- append `T` to the remainder of a parse result -/
def extR {α : Type} (T : Bytes) (o : Option (α × Bytes)) : Option (α × Bytes) :=
  o.map (fun p => (p.1, p.2 ++ T))

@[simp] theorem extR_none {α : Type} (T : Bytes) : extR (α := α) T none = none := rfl
@[simp] theorem extR_some {α : Type} (T : Bytes) (a : α) (r : Bytes) :
    extR T (some (a, r)) = some (a, r ++ T) := rfl

theorem takeWhile_append_stop {q : UInt8 → Bool} (x : Bytes) (nl : UInt8) (t : Bytes)
    (hq : q nl = false) : (x ++ nl :: t).takeWhile q = x.takeWhile q := by
  induction x with
  | nil => simp [hq]
  | cons a x ih =>
    simp only [List.cons_append, List.takeWhile_cons]
    split
    · rw [ih]
    · rfl

theorem dropWhile_append_stop {q : UInt8 → Bool} (x : Bytes) (nl : UInt8) (t : Bytes)
    (hq : q nl = false) : (x ++ nl :: t).dropWhile q = x.dropWhile q ++ nl :: t := by
  induction x with
  | nil => simp [hq]
  | cons a x ih =>
    simp only [List.cons_append, List.dropWhile_cons]
    split
    · rw [ih]
    · rfl

theorem stripPrefix_local (lit : Bytes) (hl : NoNl lit) (x T : Bytes) (hT : StartsNl T) :
    stripPrefix lit (x ++ T) = (stripPrefix lit x).map (· ++ T) := by
  obtain ⟨nl, t, rfl, hn⟩ := hT
  induction lit generalizing x with
  | nil => simp [stripPrefix]
  | cons p ps ih =>
    have hps : NoNl ps := hl.of_subset (fun b hb => List.mem_cons_of_mem _ hb)
    cases x with
    | nil =>
      have hp : isNewline p = false := hl p (by simp)
      have : (p == nl) = false := by
        cases h : p == nl with
        | false => rfl
        | true =>
          have : p = nl := by simpa using h
          subst this; rw [hn] at hp; cases hp
      simp [stripPrefix, this]
    | cons a x =>
      simp only [List.cons_append, stripPrefix]
      split
      · exact ih hps x
      · rfl

theorem startsWith_local (lit : Bytes) (hl : NoNl lit) (x T : Bytes) (hT : StartsNl T) :
    startsWith (x ++ T) lit = startsWith x lit := by
  unfold startsWith
  rw [stripPrefix_local lit hl x T hT]
  cases stripPrefix lit x <;> rfl

theorem parseUntil_local (p : UInt8 → Bool) (hp : ∀ b, isNewline b = true → p b = true)
    (x T : Bytes) (hT : StartsNl T) :
    parseUntil p (x ++ T) = extR T (parseUntil p x) := by
  obtain ⟨nl, t, rfl, hn⟩ := hT
  have hq : (fun b => !p b) nl = false := by simp [hp nl hn]
  unfold parseUntil spanUntil
  simp only [takeWhile_append_stop (q := fun b => !p b) x nl t hq,
    dropWhile_append_stop (q := fun b => !p b) x nl t hq]
  split <;> rfl

theorem parseUntilNoNewline_local (q : UInt8 → Bool) (x T : Bytes) (hT : StartsNl T) :
    parseUntilNoNewline q (x ++ T) =
      (parseUntilNoNewline q x).bind
        (fun sr => if sr.2.isEmpty then none else some (sr.1, sr.2 ++ T)) := by
  unfold parseUntilNoNewline
  rw [parseUntil_local _ (by intro b hb; simp [hb]) x T hT]
  obtain ⟨nl, t, rfl, hn⟩ := hT
  cases h : parseUntil (fun b => isNewline b || q b) x with
  | none => rfl
  | some sr =>
    obtain ⟨s, r⟩ := sr
    cases r with
    | nil => simp [hn]
    | cons c r =>
      simp only [extR_some, List.cons_append]
      cases hc : isNewline c <;> simp

theorem parseUsize_local (x T : Bytes) (hT : StartsNl T) :
    parseUsize (x ++ T) = extR T (parseUsize x) := by
  obtain ⟨nl, t, rfl, hn⟩ := hT
  have hq : isNumericByte nl = false := by
    unfold isNewline at hn
    simp only [Bool.or_eq_true, beq_iff_eq] at hn
    rcases hn with rfl | rfl <;> decide
  unfold parseUsize
  simp only [takeWhile_append_stop x nl t hq, dropWhile_append_stop x nl t hq]
  split
  · rfl
  · split
    · split <;> rfl
    · rfl

theorem noNl_colon : NoNl [58] := by
  intro b hb; simp at hb; subst hb; decide

theorem parseLinePrefix_local (x T : Bytes) (hT : StartsNl T) :
    parseLinePrefix (x ++ T) = extR T (parseLinePrefix x) := by
  unfold parseLinePrefix
  rw [parseUsize_local x T hT]
  cases parseUsize x with
  | none => rfl
  | some p =>
    obtain ⟨s, b1⟩ := p
    simp only [extR_some]
    rw [stripPrefix_local _ noNl_colon b1 T hT]
    cases stripPrefix [58] b1 with
    | none => rfl
    | some b2 =>
      simp only [Option.map_some]
      rw [parseUsize_local b2 T hT]
      cases parseUsize b2 with
      | none => rfl
      | some p =>
        obtain ⟨e, b3⟩ := p
        simp only [extR_some]
        rw [stripPrefix_local _ noNl_colon b3 T hT]
        cases stripPrefix [58] b3 with
        | none => rfl
        | some b4 => rfl

theorem parseColonNum_local (x T : Bytes) (hT : StartsNl T) :
    parseColonNum (x ++ T) = extR T (parseColonNum x) := by
  unfold parseColonNum
  rw [stripPrefix_local _ noNl_colon x T hT]
  cases stripPrefix [58] x with
  | none => rfl
  | some b1 =>
    simp only [Option.map_some]
    rw [parseUsize_local b1 T hT]
    cases parseUsize b1 with
    | none => rfl
    | some p => rfl

/-! ### record parsers -/

/-- how the remainder of a successful record parse changes when `T` is appended -/
def finR (T : Bytes) (o : Option (Record × Bytes)) : Option (Record × Bytes) :=
  o.map (fun p => (p.1, consumeNewlines (p.2 ++ T)))

@[simp] theorem finR_none (T : Bytes) : finR T none = none := rfl
@[simp] theorem finR_some (T : Bytes) (a : Record) (r : Bytes) :
    finR T (some (a, r)) = some (a, consumeNewlines (r ++ T)) := rfl

theorem consumeNewlines_consume_append (b T : Bytes) (hT : StartsNl T) :
    consumeNewlines (consumeNewlines b ++ T) = consumeNewlines (b ++ T) := by
  obtain ⟨nl, t, rfl, hn⟩ := hT
  unfold consumeNewlines
  induction b with
  | nil => simp
  | cons a b ih =>
    simp only [List.cons_append, List.dropWhile_cons]
    split
    · exact ih
    · rename_i ha
      simp only [List.cons_append, List.dropWhile_cons, ha]
      rfl

theorem noNl_litArrow : NoNl litArrow := by
  intro b hb
  simp only [litArrow, List.mem_cons, List.not_mem_nil, or_false] at hb
  rcases hb with h | h | h | h <;> subst h <;> decide

theorem noNl_litIndent : NoNl litIndent := by
  intro b hb
  simp only [litIndent, List.mem_cons, List.not_mem_nil, or_false] at hb
  rcases hb with h | h | h | h <;> subst h <;> decide

theorem noNl_single (c : UInt8) (hc : isNewline c = false) : NoNl [c] := by
  intro b hb; simp at hb; subst hb; exact hc

theorem noNl_litQuoteBrace : NoNl litQuoteBrace := by
  intro b hb
  simp only [litQuoteBrace, List.mem_cons, List.not_mem_nil, or_false] at hb
  rcases hb with h | h <;> subst h <;> decide

theorem noNl_litSourceFilePrefix : NoNl litSourceFilePrefix := by
  intro b hb
  have : litSourceFilePrefix.all (fun b => !isNewline b) = true := by decide
  rw [List.all_eq_true] at this
  simpa using this b hb

theorem parseClass_local (x T : Bytes) (hT : StartsNl T) :
    parseClass (x ++ T) = finR T (parseClass x) := by
  unfold parseClass
  rw [parseUntilNoNewline_local _ x T hT]
  cases parseUntilNoNewline (· == 32) x with
  | none => rfl
  | some sr =>
    obtain ⟨o, b1⟩ := sr
    by_cases hb1 : b1 = []
    · subst hb1; simp [stripPrefix, litArrow]
    have e1 : b1.isEmpty = false := by simpa using hb1
    simp only [Option.bind_some, e1, Bool.false_eq_true, if_false]
    rw [stripPrefix_local _ noNl_litArrow b1 T hT]
    cases stripPrefix litArrow b1 with
    | none => rfl
    | some b2 =>
      simp only [Option.map_some]
      rw [parseUntilNoNewline_local _ b2 T hT]
      cases parseUntilNoNewline (· == 58) b2 with
      | none => rfl
      | some sr =>
        obtain ⟨ob, b3⟩ := sr
        by_cases hb3 : b3 = []
        · subst hb3; simp [stripPrefix]
        have e3 : b3.isEmpty = false := by simpa using hb3
        simp only [Option.bind_some, e3, Bool.false_eq_true, if_false]
        rw [stripPrefix_local _ noNl_colon b3 T hT]
        cases stripPrefix [58] b3 with
        | none => rfl
        | some b4 =>
          simp only [Option.map_some, finR_some, consumeNewlines_consume_append _ _ hT]

theorem parseHeader_local (x T : Bytes) (hT : StartsNl T) :
    parseHeader (x ++ T) = finR T (parseHeader x) := by
  unfold parseHeader
  rw [stripPrefix_local _ (noNl_single 35 (by decide)) x T hT]
  cases stripPrefix [35] x with
  | none => rfl
  | some b1 =>
    simp only [Option.map_some]
    rw [stripPrefix_local _ noNl_litSourceFilePrefix b1 T hT]
    cases stripPrefix litSourceFilePrefix b1 with
    | some b2 =>
      simp only [Option.map_some]
      rw [parseUntilNoNewline_local _ b2 T hT]
      cases parseUntilNoNewline (· == 34) b2 with
      | none => rfl
      | some sr =>
        obtain ⟨v, b3⟩ := sr
        by_cases hb3 : b3 = []
        · subst hb3; simp [stripPrefix, litQuoteBrace]
        have e3 : b3.isEmpty = false := by simpa using hb3
        simp only [Option.bind_some, e3, Bool.false_eq_true, if_false]
        rw [stripPrefix_local _ noNl_litQuoteBrace b3 T hT]
        cases stripPrefix litQuoteBrace b3 with
        | none => rfl
        | some b4 =>
          simp only [Option.map_some, finR_some, consumeNewlines_consume_append _ _ hT]
    | none =>
      simp only [Option.map_none]
      rw [parseUntil_local _ isNewline_imp_colon b1 T hT]
      cases parseUntil (fun c => c == 58 || isNewline c) b1 with
      | none => rfl
      | some sr =>
        obtain ⟨k, b2⟩ := sr
        simp only [extR_some]
        rw [stripPrefix_local _ noNl_colon b2 T hT]
        cases stripPrefix [58] b2 with
        | some b3 =>
          simp only [Option.map_some]
          rw [parseUntil_local _ isNewline_imp_self b3 T hT]
          cases parseUntil isNewline b3 with
          | none => rfl
          | some sr =>
            obtain ⟨v, b4⟩ := sr
            simp only [extR_some, finR_some, consumeNewlines_consume_append _ _ hT]
        | none =>
          simp only [Option.map_none, finR_some, consumeNewlines_consume_append _ _ hT]

theorem parseMember_local (x T : Bytes) (hT : StartsNl T) :
    parseMember (x ++ T) = finR T (parseMember x) := by
  unfold parseMember
  rw [stripPrefix_local _ noNl_litIndent x T hT]
  cases stripPrefix litIndent x with
  | none => rfl
  | some b1 =>
  simp only [Option.map_some]
  rw [parseLinePrefix_local b1 T hT]
  cases parseLinePrefix b1 with
  | none => rfl
  | some sr =>
  obtain ⟨se, b2⟩ := sr
  simp only [extR_some]
  rw [parseUntilNoNewline_local _ b2 T hT]
  cases parseUntilNoNewline (· == 32) b2 with
  | none => rfl
  | some sr =>
  obtain ⟨ty, b3⟩ := sr
  by_cases hb3 : b3 = []
  · subst hb3; simp [stripPrefix]
  have e3 : b3.isEmpty = false := by simpa using hb3
  simp only [Option.bind_some, e3, Bool.false_eq_true, if_false]
  rw [stripPrefix_local _ (noNl_single 32 (by decide)) b3 T hT]
  cases stripPrefix [32] b3 with
  | none => rfl
  | some b4 =>
  simp only [Option.map_some]
  rw [parseUntilNoNewline_local _ b4 T hT]
  cases parseUntilNoNewline (fun c => c == 32 || c == 40) b4 with
  | none => rfl
  | some sr =>
  obtain ⟨orig, b5⟩ := sr
  by_cases hb5 : b5 = []
  · subst hb5; simp [stripPrefix, litArrow]
  have e5 : b5.isEmpty = false := by simpa using hb5
  simp only [Option.bind_some, e5, Bool.false_eq_true, if_false]
  rw [stripPrefix_local _ (noNl_single 40 (by decide)) b5 T hT]
  cases stripPrefix [40] b5 with
  | none =>
    simp only [Option.map_none]
    rw [stripPrefix_local _ noNl_litArrow b5 T hT]
    cases stripPrefix litArrow b5 with
    | none => rfl
    | some b6 =>
      simp only [Option.map_some]
      rw [parseUntil_local _ isNewline_imp_self b6 T hT]
      cases parseUntil isNewline b6 with
      | none => rfl
      | some sr =>
        obtain ⟨ob, b7⟩ := sr
        simp only [extR_some, finR_some, consumeNewlines_consume_append _ _ hT]
  | some b6 =>
    simp only [Option.map_some]
    rw [parseUntilNoNewline_local _ b6 T hT]
    cases parseUntilNoNewline (· == 41) b6 with
    | none => rfl
    | some sr =>
    obtain ⟨args, b7⟩ := sr
    by_cases hb7 : b7 = []
    · subst hb7; simp [stripPrefix]
    have e7 : b7.isEmpty = false := by simpa using hb7
    simp only [Option.bind_some, e7, Bool.false_eq_true, if_false]
    rw [stripPrefix_local _ (noNl_single 41 (by decide)) b7 T hT]
    cases stripPrefix [41] b7 with
    | none => rfl
    | some b8 =>
    simp only [Option.map_some]
    rw [parseColonNum_local b8 T hT]
    cases parseColonNum b8 with
    | none => rfl
    | some sr =>
    obtain ⟨os, b9⟩ := sr
    simp only [extR_some]
    cases os with
    | none =>
      simp only []
      rw [stripPrefix_local _ noNl_litArrow b9 T hT]
      cases stripPrefix litArrow b9 with
      | none => rfl
      | some b11 =>
      simp only [Option.map_some]
      rw [parseUntil_local _ isNewline_imp_self b11 T hT]
      cases parseUntil isNewline b11 with
      | none => rfl
      | some sr =>
      obtain ⟨ob, b12⟩ := sr
      simp only [extR_some, finR_some, consumeNewlines_consume_append _ _ hT]
    | some osv =>
      simp only []
      rw [parseColonNum_local b9 T hT]
      cases parseColonNum b9 with
      | none => rfl
      | some sr =>
      obtain ⟨oe, b10⟩ := sr
      simp only [extR_some]
      rw [stripPrefix_local _ noNl_litArrow b10 T hT]
      cases stripPrefix litArrow b10 with
      | none => rfl
      | some b11 =>
      simp only [Option.map_some]
      rw [parseUntil_local _ isNewline_imp_self b11 T hT]
      cases parseUntil isNewline b11 with
      | none => rfl
      | some sr =>
      obtain ⟨ob, b12⟩ := sr
      simp only [extR_some, finR_some, consumeNewlines_consume_append _ _ hT]

/-! ### `parseRecord` -/

/-- the dispatch in `parse_proguard_record` -/
def chooseP (bs : Bytes) : Option (Record × Bytes) :=
  if startsWith bs [35] then parseHeader bs
  else if startsWith bs litIndent then parseMember bs
  else parseClass bs

theorem parseRecord_eq (bs : Bytes) :
    parseRecord bs =
      match chooseP (consumeNewlines bs) with
      | some (r, rest) => (.ok r, rest)
      | none => (.err (splitLine (consumeNewlines bs)).1, (splitLine (consumeNewlines bs)).2) := rfl

theorem chooseP_local (x T : Bytes) (hT : StartsNl T) : chooseP (x ++ T) = finR T (chooseP x) := by
  unfold chooseP
  rw [startsWith_local _ (noNl_single 35 (by decide)) x T hT,
    startsWith_local _ noNl_litIndent x T hT]
  split
  · exact parseHeader_local x T hT
  · split
    · exact parseMember_local x T hT
    · exact parseClass_local x T hT

theorem consumeNewlines_of_head {c : UInt8} {x : Bytes} (hc : isNewline c = false) :
    consumeNewlines (c :: x) = c :: x := by
  simp [consumeNewlines, hc]

theorem consumeNewlines_noNl {l : Bytes} (hl : NoNl l) : consumeNewlines l = l := by
  cases l with
  | nil => rfl
  | cons c x => exact consumeNewlines_of_head (hl c (by simp))

theorem consumeNewlines_noNl_append {l : Bytes} (hl : NoNl l) (hne : l ≠ []) (T : Bytes) :
    consumeNewlines (l ++ T) = l ++ T := by
  cases l with
  | nil => exact absurd rfl hne
  | cons c x => exact consumeNewlines_of_head (hl c (by simp))

theorem splitLine_noNl {l : Bytes} (hl : NoNl l) : splitLine l = (l, []) := by
  unfold splitLine
  have : ∀ a ∈ l, (fun b => !isNewline b) a = true := by intro a ha; simp [hl a ha]
  rw [dropWhile_all _ l this]

theorem splitLine_noNl_append {l : Bytes} (hl : NoNl l) (nl : UInt8) (t : Bytes)
    (hn : isNewline nl = true) : splitLine (l ++ nl :: t) = (l ++ [nl], t) := by
  unfold splitLine
  have : ∀ a ∈ l, (fun b => !isNewline b) a = true := by intro a ha; simp [hl a ha]
  rw [dropWhile_stop _ l nl t this (by simp [hn]), takeWhile_stop _ l nl t this (by simp [hn])]

/-- line locality, successful line -/
theorem parseRecord_local_ok {l : Bytes} (hl : NoNl l) (hne : l ≠ []) (nl : UInt8) (t : Bytes)
    (hn : isNewline nl = true) {r : Record} {rem : Bytes} (h : parseRecord l = (.ok r, rem)) :
    parseRecord (l ++ nl :: t) = (.ok r, consumeNewlines (rem ++ nl :: t)) := by
  rw [parseRecord_eq] at h ⊢
  rw [consumeNewlines_noNl hl] at h
  rw [consumeNewlines_noNl_append hl hne, chooseP_local l _ ⟨nl, t, rfl, hn⟩]
  cases hc : chooseP l with
  | none => rw [hc] at h; simp at h
  | some p =>
    obtain ⟨r', rem'⟩ := p
    rw [hc] at h
    simp only [Prod.mk.injEq, Item.ok.injEq] at h
    obtain ⟨rfl, rfl⟩ := h
    rfl

/-- line locality, malformed line: the error is the line itself -/
theorem parseRecord_local_err {l : Bytes} (hl : NoNl l) (hne : l ≠ []) (nl : UInt8) (t : Bytes)
    (hn : isNewline nl = true) {e : Bytes} {rem : Bytes} (h : parseRecord l = (.err e, rem)) :
    e = l ∧ rem = [] ∧ parseRecord (l ++ nl :: t) = (.err (l ++ [nl]), t) := by
  rw [parseRecord_eq] at h ⊢
  rw [consumeNewlines_noNl hl] at h
  rw [consumeNewlines_noNl_append hl hne, chooseP_local l _ ⟨nl, t, rfl, hn⟩]
  cases hc : chooseP l with
  | some p => rw [hc] at h; simp at h
  | none =>
    rw [hc] at h
    simp only [splitLine_noNl hl, Prod.mk.injEq, Item.err.injEq] at h
    obtain ⟨rfl, rfl⟩ := h
    simp [finR_none, splitLine_noNl_append hl nl t hn]

/-! ### `records` -/

theorem parseRecord_cons_nl {n : UInt8} (hn : isNewline n = true) (x : Bytes) :
    parseRecord (n :: x) = parseRecord x := by
  rw [parseRecord_eq, parseRecord_eq]
  have : consumeNewlines (n :: x) = consumeNewlines x := by
    simp [consumeNewlines, hn]
  rw [this]

theorem parseRecord_nil : parseRecord [] = (.err [], []) := by decide

theorem records_cons_nl {n : UInt8} (hn : isNewline n = true) {x : Bytes} (hx : x ≠ []) :
    records (n :: x) = records x := by
  rw [records_unfold (n :: x) (by simp), records_unfold x hx, parseRecord_cons_nl hn]

theorem records_single_nl {n : UInt8} (hn : isNewline n = true) : records [n] = [.err []] := by
  rw [records_unfold [n] (by simp), parseRecord_cons_nl hn, parseRecord_nil]
  rfl

theorem line_decomp (c : UInt8) (a' : Bytes) (hc : isNewline c = false) :
    ∃ l t, c :: a' = l ++ t ∧ l ≠ [] ∧ NoNl l ∧ (t = [] ∨ StartsNl t) := by
  refine ⟨(c :: a').takeWhile (fun b => !isNewline b), (c :: a').dropWhile (fun b => !isNewline b),
    (List.takeWhile_append_dropWhile).symm, ?_, ?_, ?_⟩
  · simp [hc]
  · intro b hb
    have := mem_takeWhile_imp hb
    simpa using this
  · cases h : (c :: a').dropWhile (fun b => !isNewline b) with
    | nil => exact Or.inl rfl
    | cons n t =>
      right
      refine ⟨n, t, rfl, ?_⟩
      have := List.head_dropWhile_not (fun b => !isNewline b) (l := c :: a') (by rw [h]; simp)
      simp only [h, List.head_cons] at this
      simpa using this

theorem records_local_ok {l : Bytes} (hl : NoNl l) (hne : l ≠ []) (nl : UInt8) (t : Bytes)
    (hn : isNewline nl = true) {r : Record} {rem : Bytes} (h : parseRecord l = (.ok r, rem)) :
    records (l ++ nl :: t) = .ok r :: records (consumeNewlines (rem ++ nl :: t)) ∧
      records l = .ok r :: records rem ∧ rem.length < l.length ∧ NoNl rem := by
  refine ⟨?_, ?_, ?_, ?_⟩
  · rw [records_unfold _ (by simp), parseRecord_local_ok hl hne nl t hn h]
  · rw [records_unfold _ hne, h]
  · have := parseRecord_progress l hne
    rw [h] at this; exact this
  · have := parseRecord_rest_suffix l
    rw [h] at this; exact hl.of_suffix this

theorem records_local_err {l : Bytes} (hl : NoNl l) (hne : l ≠ []) (nl : UInt8) (t : Bytes)
    (hn : isNewline nl = true) {e : Bytes} {rem : Bytes} (h : parseRecord l = (.err e, rem)) :
    records (l ++ nl :: t) = .err (l ++ [nl]) :: records t ∧ records l = [.err l] := by
  obtain ⟨rfl, rfl, h2⟩ := parseRecord_local_err hl hne nl t hn h
  constructor
  · rw [records_unfold _ (by simp), h2]
  · rw [records_unfold _ hne, h]; rfl

theorem splitLine_fst_nil {bs : Bytes} (h : (splitLine bs).1 = []) : bs = [] := by
  unfold splitLine at h
  split at h
  · exact h
  · simp at h

theorem parseRecord_err_nil {bs rest : Bytes} (h : parseRecord bs = (.err [], rest)) :
    rest = [] := by
  rcases parseRecord_cases bs with ⟨r, rest', _, e⟩ | e
  · rw [e] at h; simp at h
  · rw [e] at h
    simp only [Prod.mk.injEq, Item.err.injEq] at h
    obtain ⟨h1, h2⟩ := h
    have := splitLine_fst_nil h1
    rw [this] at h2
    rw [← h2]; rfl

end PG
