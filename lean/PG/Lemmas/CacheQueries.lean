/-
  PG.Lemmas.CacheQueries — the cache *reader* answers every query of a cache that represents
  `recs` (`WriterSpec recs c`) exactly as the record-level specification says (the sorted-array +
  binary-search + sentinel encoding is equivalent to "last block with that name").
-/
import PG.Spec.CacheView
import PG.Lemmas.BSearch
import PG.Lemmas.Sorted
import PG.Lemmas.CacheQueries0
namespace PG

theorem class_lookup (recs : List Record) (c : Cache) (hw : WriterSpec recs c)
    (v : List CView) (hv : c.view = some v) (name : Bytes) :
    (SpecR.lastBlock recs name = none → c.getClass name = none) ∧
    (∀ b, SpecR.lastBlock recs name = some b → ∃ k cv, c.getClass name = some k ∧
      c.viewClass k = some cv ∧ cv ∈ v ∧ cv.orig = b.orig ∧
      cv.members.Pairwise (fun x y => cmpBytes x.obf y.obf ≠ .gt) ∧
      (∀ m, (cv.members.filter (fun x => x.obf == m)).map MView.core =
              (b.entries.filter (fun e => e.obf == m)).map (fun e => MView.ofEntry e 0)) ∧
      cv.byParams.Pairwise (fun x y => cmpPair (x.obf, x.args) (y.obf, y.args) ≠ .gt) ∧
      (∀ m p, (cv.byParams.filter (fun x => x.obf == m && x.args == p)).map MView.core =
              (b.realEntries.filter (fun e => e.obf == m && e.args == p)).map
                (fun e => MView.ofEntry e 0))) := by
  obtain ⟨h1, h2⟩ := hw.class_iff v hv name
  constructor
  · intro hn
    exact getClass_none c v hv name (h1 hn)
  · intro b hb
    obtain ⟨cv, hcv, hname, horig, p1, p2, p3, p4⟩ := h2 b hb
    obtain ⟨k, hk, hkv⟩ := getClass_some c v hv (hw.classes_sorted v hv) name cv hcv hname
    exact ⟨k, cv, hk, hkv, hcv, horig, p1, p2, p3, p4⟩

theorem cache_class (recs : List Record) (c : Cache) (hr : ReprR recs) (hw : WriterSpec recs c)
    (name : Bytes) : c.remapClass name = SpecR.classOf recs name := by
  have _ := hr
  obtain ⟨v, hv⟩ := hw.view_some
  obtain ⟨h1, h2⟩ := class_lookup recs c hw v hv name
  unfold Cache.remapClass SpecR.classOf
  cases hlb : SpecR.lastBlock recs name with
  | none => rw [h1 hlb]; rfl
  | some b =>
    obtain ⟨k, cv, hk, hkv, _, horig, _⟩ := h2 b hlb
    rw [hk]
    simp only [Option.map_some]
    rw [(viewClass_some c k cv hkv).2.1, horig]

theorem cache_method (recs : List Record) (c : Cache) (hr : ReprR recs) (hw : WriterSpec recs c)
    (cls m : Bytes) : c.remapMethod cls m = SpecR.methodOf recs cls m := by
  have _ := hr
  obtain ⟨v, hv⟩ := hw.view_some
  obtain ⟨h1, h2⟩ := class_lookup recs c hw v hv cls
  unfold Cache.remapMethod SpecR.methodOf
  cases hlb : SpecR.lastBlock recs cls with
  | none => rw [h1 hlb]
  | some b =>
    obtain ⟨k, cv, hk, hkv, hcv, horig, p1, p2, _, _⟩ := h2 b hlb
    obtain ⟨_, ho, ms, bs, hms, _, hmv, _⟩ := viewClass_some c k cv hkv
    obtain ⟨r, hfr, hrW⟩ := members_range c ms cv.members hmv p1 m
    have hF := F2_of_views c.viewMember MView.core (fun e => MView.ofEntry e 0) r _ _ hrW (p2 m)
    simp only [hk, hms, hfr]
    generalize b.entries.filter (fun e => e.obf == m) = E at hF
    cases hF with
    | nil => simp
    | @cons first e rest es hfe hrest =>
      simp only [List.cons_ne_nil, if_false]
      obtain ⟨w0, hw0, hv0, hc0, _⟩ := hfe
      have hw0' : w0 ∈ cv.members := (List.mem_filter.mp hw0).1
      obtain ⟨_, n0, _, _, _, _, _, _, _, _, _, o0⟩ := viewMember_some c hw.strings_small first w0 hv0
      obtain ⟨_, nm0, _⟩ := core_eq w0 e hc0
      have hall : rest.all (fun x => x.origNameOff == first.origNameOff) =
          es.all (fun x => x.name == e.name) := by
        apply hrest.all_eq
        intro a b' ⟨w, hwm, hva, hca, _⟩
        have hwm' : w ∈ cv.members := (List.mem_filter.mp hwm).1
        obtain ⟨_, _, _, _, _, _, _, _, _, _, _, o1⟩ := viewMember_some c hw.strings_small a w hva
        obtain ⟨_, nm1, _⟩ := core_eq w b' hca
        have := hw.name_inj v hv cv hcv w hwm' w0 hw0'
        rw [Bool.eq_iff_iff]
        simp only [beq_iff_eq, o1, o0, this, nm1, nm0]
      rw [hall, ho, n0, nm0, horig]


theorem paramFrames_entries (c : Cache) (hs : c.strings.length < u32Max) (q : Frame) (orig : Bytes)
    (r : List RawMember) (E : List SpecR.Entry)
    (hF : F2 (fun m e => ∃ w, c.viewMember m = some w ∧ w.core = MView.ofEntry e 0) r E) :
    c.paramFrames { q with cls := orig } r =
      E.map (fun e => { cls := e.fc.getD orig, method := e.name, line := 0, file := none,
                        params := q.params }) := by
  induction hF with
  | nil => rfl
  | @cons m e r E hme _ ih =>
    obtain ⟨w, hv, hc⟩ := hme
    obtain ⟨_, v2, v3, _⟩ := viewMember_some c hs m w hv
    obtain ⟨_, c2, _, c4, _⟩ := core_eq w e hc
    simp only [Cache.paramFrames, v2, v3, c2, c4, List.map_cons, ih]

theorem cache_frames_line (recs : List Record) (c : Cache) (hr : ReprR recs) (hw : WriterSpec recs c)
    (q : Frame) (hq : q.params = none) : c.remapFrame q = SpecR.framesByLine recs q := by
  obtain ⟨v, hv⟩ := hw.view_some
  obtain ⟨h1, h2⟩ := class_lookup recs c hw v hv q.cls
  unfold Cache.remapFrame SpecR.framesByLine
  cases hlb : SpecR.lastBlock recs q.cls with
  | none => rw [h1 hlb]
  | some b =>
    obtain ⟨k, cv, hk, hkv, hcv, horig, p1, p2, _, _⟩ := h2 b hlb
    obtain ⟨_, ho, ms, bs, hms, _, hmv, _⟩ := viewClass_some c k cv hkv
    obtain ⟨r, hfr, hrW⟩ := members_range c ms cv.members hmv p1 q.method
    have hF := F2_of_views c.viewMember MView.core (fun e => MView.ofEntry e 0) r _ _ hrW
      (p2 q.method)
    simp only [hk, ho, hq, hms, hfr, horig]
    have hfm : r.filterMap (c.lineFrame { q with cls := b.orig }) =
        ((b.entries.filter (fun e => e.obf == q.method)).filter
          (fun e => SpecR.applies e.lm q.line)).map
          (fun e => { cls := e.fc.getD b.orig, method := e.name,
                      line := SpecR.origLineOf e.lm q.line,
                      file := SpecR.fileOf e b.orig q.file, params := q.params }) := by
      apply hF.filterMap_eq
      intro m e ⟨w, _, hvm, hc, he⟩
      exact lineFrame_entry c hw.strings_small m w e hvm hc
        (entries_goodLm recs hr q.cls b hlb e (List.mem_filter.mp he).1) q b.orig
    simp only [hq] at hfm
    by_cases hnil : r = []
    · subst hnil
      rw [if_pos rfl]
      simp only
      rw [← hfm]; rfl
    · rw [if_neg hnil]
      simp only
      exact hfm

theorem cache_frames_params (recs : List Record) (c : Cache) (hr : ReprR recs) (hw : WriterSpec recs c)
    (q : Frame) (p : Bytes) (hq : q.params = some p) : c.remapFrame q = SpecR.framesByParams recs q p := by
  have _ := hr
  obtain ⟨v, hv⟩ := hw.view_some
  obtain ⟨h1, h2⟩ := class_lookup recs c hw v hv q.cls
  unfold Cache.remapFrame SpecR.framesByParams
  cases hlb : SpecR.lastBlock recs q.cls with
  | none => rw [h1 hlb]
  | some b =>
    obtain ⟨k, cv, hk, hkv, hcv, horig, _, _, p3, p4⟩ := h2 b hlb
    obtain ⟨_, ho, ms, bs, _, hbs, _, hbv⟩ := viewClass_some c k cv hkv
    obtain ⟨r, hfr, hrW⟩ := byParams_range c hw.strings_small bs cv.byParams hbv p3 q.method p
    have hF := F2_of_views c.viewMember MView.core (fun e => MView.ofEntry e 0) r _ _ hrW
      (p4 q.method p)
    have hpf := paramFrames_entries c hw.strings_small q b.orig r _
      (hF.imp (fun m e ⟨w, _, h1, h2, _⟩ => ⟨w, h1, h2⟩))
    simp only [hk, ho, hq, hbs, hfr, horig]
    by_cases hnil : r = []
    · subst hnil
      rw [if_pos rfl]
      simp only
      rw [← hq]
      exact hpf
    · rw [if_neg hnil]
      simp only
      rw [← hq]
      exact hpf

end PG
