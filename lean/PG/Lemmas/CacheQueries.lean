/-
  PG.Lemmas.CacheQueries — the cache *reader* answers every query of a cache that represents
  `recs` (`WriterSpec recs c`) exactly as the record-level specification says (the sorted-array +
  binary-search + sentinel encoding is equivalent to "last block with that name").
-/
import PG.Spec.CacheView
import PG.Lemmas.BSearch
import PG.Lemmas.Sorted
namespace PG

theorem cache_class (recs : List Record) (c : Cache) (hr : ReprR recs) (hw : WriterSpec recs c)
    (name : Bytes) : c.remapClass name = SpecR.classOf recs name := by
  sorry

theorem cache_method (recs : List Record) (c : Cache) (hr : ReprR recs) (hw : WriterSpec recs c)
    (cls m : Bytes) : c.remapMethod cls m = SpecR.methodOf recs cls m := by
  sorry

theorem cache_frames_line (recs : List Record) (c : Cache) (hr : ReprR recs) (hw : WriterSpec recs c)
    (q : Frame) (hq : q.params = none) : c.remapFrame q = SpecR.framesByLine recs q := by
  sorry

theorem cache_frames_params (recs : List Record) (c : Cache) (hr : ReprR recs) (hw : WriterSpec recs c)
    (q : Frame) (p : Bytes) (hq : q.params = some p) : c.remapFrame q = SpecR.framesByParams recs q p := by
  sorry

end PG
