/-
  PG.Lemmas.Utf8SpecAux — helper lemmas for PG.Lemmas.Utf8Spec: the shape of `encode`, decoding of
  one character, cancellation, and the behaviour of `stripWs` / `stripWsRev` on encodings.
-/
import PG.Spec.Utf8
import PG.Lemmas.Utf8L
namespace PG
open Utf8Spec

theorem ofNat_toNat_lt (n : Nat) (h : n < 256) : (UInt8.ofNat n).toNat = n :=
  UInt8.toNat_ofNat_of_lt' h

/-- shape of the encoding -/
theorem encode_shape (c : Nat) (h : isScalar c = true) :
    (c < 0x80 ∧ ∃ b0 : UInt8, encode c = [b0] ∧ b0.toNat = c) ∨
    (0x80 ≤ c ∧ c < 0x800 ∧ ∃ b0 b1 : UInt8, encode c = [b0, b1] ∧ b0.toNat = 0xC0 + c / 64 ∧
        b1.toNat = 0x80 + c % 64) ∨
    (0x800 ≤ c ∧ c < 0x10000 ∧ ¬ (0xD800 ≤ c ∧ c < 0xE000) ∧ ∃ b0 b1 b2 : UInt8, encode c = [b0, b1, b2] ∧
        b0.toNat = 0xE0 + c / 4096 ∧ b1.toNat = 0x80 + c / 64 % 64 ∧ b2.toNat = 0x80 + c % 64) ∨
    (0x10000 ≤ c ∧ c < 0x110000 ∧ ∃ b0 b1 b2 b3 : UInt8, encode c = [b0, b1, b2, b3] ∧
        b0.toNat = 0xF0 + c / 262144 ∧ b1.toNat = 0x80 + c / 4096 % 64 ∧
        b2.toNat = 0x80 + c / 64 % 64 ∧ b3.toNat = 0x80 + c % 64) := by
  unfold isScalar at h
  simp only [Bool.or_eq_true, Bool.and_eq_true, decide_eq_true_eq] at h
  unfold encode
  by_cases h1 : c < 0x80
  · left
    refine ⟨h1, _, by rw [if_pos h1], ?_⟩
    exact ofNat_toNat_lt _ (by omega)
  · right
    by_cases h2 : c < 0x800
    · left
      refine ⟨by omega, h2, _, _, by rw [if_neg h1, if_pos h2], ?_, ?_⟩ <;>
        exact ofNat_toNat_lt _ (by omega)
    · right
      by_cases h3 : c < 0x10000
      · left
        refine ⟨by omega, h3, by omega, _, _, _, by rw [if_neg h1, if_neg h2, if_pos h3], ?_, ?_, ?_⟩ <;>
          exact ofNat_toNat_lt _ (by omega)
      · right
        refine ⟨by omega, by omega, _, _, _, _, by rw [if_neg h1, if_neg h2, if_neg h3], ?_, ?_, ?_, ?_⟩ <;>
          exact ofNat_toNat_lt _ (by omega)
theorem u8_eq_iff (a b : UInt8) : a = b ↔ a.toNat = b.toNat := UInt8.toNat_inj.symm

/-- turn byte comparisons into `Nat` arithmetic and call `omega` -/
macro "u8arith" : tactic => `(tactic| (
  simp only [isCont, Bool.and_eq_true, Bool.or_eq_true, decide_eq_true_eq, beq_iff_eq,
    UInt8.lt_iff_toNat_lt, UInt8.le_iff_toNat_le, u8_eq_iff, UInt8.reduceToNat] at *
  omega))

theorem validUtf8_encode_aux (c : Nat) (h : isScalar c = true) (rest : Bytes) :
    validUtf8 (encode c ++ rest) = validUtf8 rest := by
  rcases encode_shape c h with ⟨h1, b0, e, t0⟩ | ⟨h1, h2, b0, b1, e, t0, t1⟩ |
    ⟨h1, h2, h3, b0, b1, b2, e, t0, t1, t2⟩ | ⟨h1, h2, b0, b1, b2, b3, e, t0, t1, t2, t3⟩
  · rw [e]
    exact validUtf8_cons_ascii' _ _ (by u8arith)
  · have c0 : ¬ b0 < 0x80 := by u8arith
    have c1 : (0xC2 ≤ b0 && b0 ≤ 0xDF) = true := by u8arith
    have c2 : isCont b1 = true := by u8arith
    rw [e, List.cons_append, List.cons_append, List.nil_append, validUtf8.eq_def]
    simp only [c0, c1, c2, if_true, if_false, Bool.true_and]
  · have c0 : ¬ b0 < 0x80 := by u8arith
    have c1 : ¬ (0xC2 ≤ b0 && b0 ≤ 0xDF) = true := by u8arith
    have c2 : (0xE0 ≤ b0 && b0 ≤ 0xEF) = true := by u8arith
    have c3 : (if b0 == 0xE0 then 0xA0 ≤ b1 && b1 ≤ 0xBF
          else if b0 == 0xED then 0x80 ≤ b1 && b1 ≤ 0x9F
          else isCont b1) = true := by
      split
      · u8arith
      · split
        · u8arith
        · u8arith
    have c4 : isCont b2 = true := by u8arith
    rw [e, List.cons_append, List.cons_append, List.cons_append, List.nil_append, validUtf8.eq_def]
    simp only [c0, c1, c2, c3, c4, if_true, if_false, Bool.true_and, Bool.false_eq_true]
  · have c0 : ¬ b0 < 0x80 := by u8arith
    have c1 : ¬ (0xC2 ≤ b0 && b0 ≤ 0xDF) = true := by u8arith
    have c2 : ¬ (0xE0 ≤ b0 && b0 ≤ 0xEF) = true := by u8arith
    have c2' : (0xF0 ≤ b0 && b0 ≤ 0xF4) = true := by u8arith
    have c3 : (if b0 == 0xF0 then 0x90 ≤ b1 && b1 ≤ 0xBF
          else if b0 == 0xF4 then 0x80 ≤ b1 && b1 ≤ 0x8F
          else isCont b1) = true := by
      split
      · u8arith
      · split
        · u8arith
        · u8arith
    have c4 : isCont b2 = true := by u8arith
    have c5 : isCont b3 = true := by u8arith
    rw [e, List.cons_append, List.cons_append, List.cons_append, List.cons_append, List.nil_append,
      validUtf8.eq_def]
    simp only [c0, c1, c2, c2', c3, c4, c5, if_true, if_false, Bool.true_and, Bool.false_eq_true]

theorem dec1 (b0 : UInt8) (h0 : b0 < 0x80) :
    isScalar b0.toNat = true ∧ encode b0.toNat = [b0] := by
  have hb : b0.toNat < 128 := by u8arith
  refine ⟨?_, ?_⟩
  · unfold isScalar
    simp only [Bool.or_eq_true, Bool.and_eq_true, decide_eq_true_eq]; omega
  · unfold encode
    rw [if_pos hb]
    simp only [UInt8.ofNat_toNat]

theorem dec2 (b0 b1 : UInt8) (h0 : (0xC2 ≤ b0 && b0 ≤ 0xDF) = true) (h1 : isCont b1 = true) :
    ∃ c, isScalar c = true ∧ encode c = [b0, b1] := by
  have hb0 : 0xC2 ≤ b0.toNat ∧ b0.toNat ≤ 0xDF := by u8arith
  have hb1 : 0x80 ≤ b1.toNat ∧ b1.toNat ≤ 0xBF := by u8arith
  refine ⟨(b0.toNat % 32) * 64 + b1.toNat % 64, ?_, ?_⟩
  · unfold isScalar
    simp only [Bool.or_eq_true, Bool.and_eq_true, decide_eq_true_eq]; omega
  · unfold encode
    rw [if_neg (by omega), if_pos (by omega)]
    simp only [List.cons.injEq, u8_eq_iff, UInt8.toNat_ofNat', and_true]
    omega

theorem dec3 (b0 b1 b2 : UInt8) (h0 : (0xE0 ≤ b0 && b0 ≤ 0xEF) = true)
    (h1 : (if b0 == 0xE0 then 0xA0 ≤ b1 && b1 ≤ 0xBF
          else if b0 == 0xED then 0x80 ≤ b1 && b1 ≤ 0x9F
          else isCont b1) = true) (h2 : isCont b2 = true) :
    ∃ c, isScalar c = true ∧ encode c = [b0, b1, b2] := by
  have hb0 : 0xE0 ≤ b0.toNat ∧ b0.toNat ≤ 0xEF := by u8arith
  have hb1 : 0x80 ≤ b1.toNat ∧ b1.toNat ≤ 0xBF := by have := cont_of_second3 h1; u8arith
  have hb1' : (b0.toNat = 0xE0 → 0xA0 ≤ b1.toNat) ∧ (b0.toNat = 0xED → b1.toNat ≤ 0x9F) := by
    split at h1
    · u8arith
    · split at h1
      · u8arith
      · u8arith
  have hb2 : 0x80 ≤ b2.toNat ∧ b2.toNat ≤ 0xBF := by u8arith
  refine ⟨(b0.toNat % 16) * 4096 + (b1.toNat % 64) * 64 + b2.toNat % 64, ?_, ?_⟩
  · unfold isScalar
    simp only [Bool.or_eq_true, Bool.and_eq_true, decide_eq_true_eq]; omega
  · unfold encode
    rw [if_neg (by omega), if_neg (by omega), if_pos (by omega)]
    simp only [List.cons.injEq, u8_eq_iff, UInt8.toNat_ofNat', and_true]
    omega

theorem dec4 (b0 b1 b2 b3 : UInt8) (h0 : (0xF0 ≤ b0 && b0 ≤ 0xF4) = true)
    (h1 : (if b0 == 0xF0 then 0x90 ≤ b1 && b1 ≤ 0xBF
          else if b0 == 0xF4 then 0x80 ≤ b1 && b1 ≤ 0x8F
          else isCont b1) = true) (h2 : isCont b2 = true) (h3 : isCont b3 = true) :
    ∃ c, isScalar c = true ∧ encode c = [b0, b1, b2, b3] := by
  have hb0 : 0xF0 ≤ b0.toNat ∧ b0.toNat ≤ 0xF4 := by u8arith
  have hb1 : 0x80 ≤ b1.toNat ∧ b1.toNat ≤ 0xBF := by have := cont_of_second4 h1; u8arith
  have hb1' : (b0.toNat = 0xF0 → 0x90 ≤ b1.toNat) ∧ (b0.toNat = 0xF4 → b1.toNat ≤ 0x8F) := by
    split at h1
    · u8arith
    · split at h1
      · u8arith
      · u8arith
  have hb2 : 0x80 ≤ b2.toNat ∧ b2.toNat ≤ 0xBF := by u8arith
  have hb3 : 0x80 ≤ b3.toNat ∧ b3.toNat ≤ 0xBF := by u8arith
  refine ⟨(b0.toNat % 8) * 262144 + (b1.toNat % 64) * 4096 + (b2.toNat % 64) * 64 + b3.toNat % 64,
    ?_, ?_⟩
  · unfold isScalar
    simp only [Bool.or_eq_true, Bool.and_eq_true, decide_eq_true_eq]; omega
  · unfold encode
    rw [if_neg (by omega), if_neg (by omega), if_neg (by omega)]
    simp only [List.cons.injEq, u8_eq_iff, UInt8.toNat_ofNat', and_true]
    omega

theorem encodeAll_nil : encodeAll [] = [] := rfl
theorem encodeAll_cons (c : Nat) (cs : List Nat) : encodeAll (c :: cs) = encode c ++ encodeAll cs := by
  simp [encodeAll]
theorem encodeAll_append (as bs : List Nat) : encodeAll (as ++ bs) = encodeAll as ++ encodeAll bs := by
  simp [encodeAll]

theorem validUtf8_encodeAll (cs : List Nat) (h : ∀ c ∈ cs, isScalar c = true) :
    validUtf8 (encodeAll cs) = true := by
  induction cs with
  | nil => rfl
  | cons c cs ih =>
    rw [encodeAll_cons, validUtf8_encode_aux c (h c (by simp))]
    exact ih (fun d hd => h d (by simp [hd]))

theorem validUtf8_complete (bs : Bytes) (h : validUtf8 bs = true) :
    ∃ cs : List Nat, (∀ c ∈ cs, isScalar c = true) ∧ encodeAll cs = bs := by
  induction bs using validUtf8.induct with
  | case1 => exact ⟨[], by simp, rfl⟩
  | case2 b0 rest h0 ih =>
    rw [validUtf8.eq_def] at h
    simp only [h0, if_true] at h
    obtain ⟨cs, hcs, e⟩ := ih h
    obtain ⟨s, en⟩ := dec1 b0 h0
    refine ⟨b0.toNat :: cs, ?_, ?_⟩
    · intro c hc
      rcases List.mem_cons.mp hc with rfl | hc
      · exact s
      · exact hcs c hc
    · rw [encodeAll_cons, en, e]; rfl
  | case3 b0 h0 h1 b1 r ih =>
    rw [validUtf8.eq_def] at h
    simp only [h0, h1, if_true, if_false, Bool.and_eq_true] at h
    obtain ⟨cs, hcs, e⟩ := ih h.2
    obtain ⟨c0, s, en⟩ := dec2 b0 b1 h1 h.1
    refine ⟨c0 :: cs, ?_, ?_⟩
    · intro c hc
      rcases List.mem_cons.mp hc with rfl | hc
      · exact s
      · exact hcs c hc
    · rw [encodeAll_cons, en, e]; rfl
  | case4 b0 rest h0 h1 hne =>
    exfalso
    rw [validUtf8.eq_def] at h
    simp only [h0, h1, if_true, if_false] at h
    cases rest with
    | nil => simp at h
    | cons b1 r => exact hne b1 r rfl
  | case5 b0 h0 h1 h2 b1 b2 r ih =>
    rw [validUtf8.eq_def] at h
    simp only [h0, h1, h2, if_true, if_false, Bool.false_eq_true, Bool.and_eq_true] at h
    obtain ⟨cs, hcs, e⟩ := ih h.2
    obtain ⟨c0, s, en⟩ := dec3 b0 b1 b2 h2 h.1.1 h.1.2
    refine ⟨c0 :: cs, ?_, ?_⟩
    · intro c hc
      rcases List.mem_cons.mp hc with rfl | hc
      · exact s
      · exact hcs c hc
    · rw [encodeAll_cons, en, e]; rfl
  | case6 b0 rest h0 h1 h2 hne =>
    exfalso
    rw [validUtf8.eq_def] at h
    simp only [h0, h1, h2, if_true, if_false, Bool.false_eq_true] at h
  | case7 b0 h0 h1 h2 h3 b1 b2 b3 r ih =>
    rw [validUtf8.eq_def] at h
    simp only [h0, h1, h2, h3, if_true, if_false, Bool.false_eq_true, Bool.and_eq_true] at h
    obtain ⟨cs, hcs, e⟩ := ih h.2
    obtain ⟨c0, s, en⟩ := dec4 b0 b1 b2 b3 h3 h.1.1.1 h.1.1.2 h.1.2
    refine ⟨c0 :: cs, ?_, ?_⟩
    · intro c hc
      rcases List.mem_cons.mp hc with rfl | hc
      · exact s
      · exact hcs c hc
    · rw [encodeAll_cons, en, e]; rfl
  | case8 b0 rest h0 h1 h2 h3 hne =>
    exfalso
    rw [validUtf8.eq_def] at h
    simp only [h0, h1, h2, h3, if_true, if_false, Bool.false_eq_true] at h
  | case9 b0 rest h0 h1 h2 h3 =>
    rw [validUtf8.eq_def] at h
    simp [h0, h1, h2, h3] at h

theorem encode_cancel (c d : Nat) (hc : isScalar c = true) (hd : isScalar d = true) (r r' : Bytes)
    (h : encode c ++ r = encode d ++ r') : c = d ∧ r = r' := by
  rcases encode_shape c hc with ⟨h1, b0, e, t0⟩ | ⟨h1, h2, b0, b1, e, t0, t1⟩ |
    ⟨h1, h2, h3, b0, b1, b2, e, t0, t1, t2⟩ | ⟨h1, h2, b0, b1, b2, b3, e, t0, t1, t2, t3⟩ <;>
  rcases encode_shape d hd with ⟨k1, a0, e', s0⟩ | ⟨k1, k2, a0, a1, e', s0, s1⟩ |
    ⟨k1, k2, k3, a0, a1, a2, e', s0, s1, s2⟩ | ⟨k1, k2, a0, a1, a2, a3, e', s0, s1, s2, s3⟩ <;>
  rw [e, e'] at h <;>
  simp only [List.cons_append, List.nil_append, List.cons.injEq] at h <;>
  refine ⟨?_, ?_⟩ <;> first | (u8arith) | (simp only [h])
end PG
