/-
  PG.Lemmas.Utf8SpecAux — helper lemmas for PG.Lemmas.Utf8Spec: the shape of `encode`, decoding of
  one character, cancellation, and the behaviour of `stripWs` / `stripWsRev` on encodings.
-/
import PG.Spec.Utf8
import PG.Lemmas.Utf8L
namespace PG
open Utf8Spec

theorem ofNat_toNat_lt (n : Nat) (h : n < 256) : (UInt8.ofNat n).toNat = n :=
  UInt8.toNat_ofNat_of_lt' h

/-- shape of the encoding -/
theorem encode_shape (c : Nat) (h : isScalar c = true) :
    (c < 0x80 ∧ ∃ b0 : UInt8, encode c = [b0] ∧ b0.toNat = c) ∨
    (0x80 ≤ c ∧ c < 0x800 ∧ ∃ b0 b1 : UInt8, encode c = [b0, b1] ∧ b0.toNat = 0xC0 + c / 64 ∧
        b1.toNat = 0x80 + c % 64) ∨
    (0x800 ≤ c ∧ c < 0x10000 ∧ ¬ (0xD800 ≤ c ∧ c < 0xE000) ∧ ∃ b0 b1 b2 : UInt8, encode c = [b0, b1, b2] ∧
        b0.toNat = 0xE0 + c / 4096 ∧ b1.toNat = 0x80 + c / 64 % 64 ∧ b2.toNat = 0x80 + c % 64) ∨
    (0x10000 ≤ c ∧ c < 0x110000 ∧ ∃ b0 b1 b2 b3 : UInt8, encode c = [b0, b1, b2, b3] ∧
        b0.toNat = 0xF0 + c / 262144 ∧ b1.toNat = 0x80 + c / 4096 % 64 ∧
        b2.toNat = 0x80 + c / 64 % 64 ∧ b3.toNat = 0x80 + c % 64) := by
  unfold isScalar at h
  simp only [Bool.or_eq_true, Bool.and_eq_true, decide_eq_true_eq] at h
  unfold encode
  by_cases h1 : c < 0x80
  · left
    refine ⟨h1, _, by rw [if_pos h1], ?_⟩
    exact ofNat_toNat_lt _ (by omega)
  · right
    by_cases h2 : c < 0x800
    · left
      refine ⟨by omega, h2, _, _, by rw [if_neg h1, if_pos h2], ?_, ?_⟩ <;>
        exact ofNat_toNat_lt _ (by omega)
    · right
      by_cases h3 : c < 0x10000
      · left
        refine ⟨by omega, h3, by omega, _, _, _, by rw [if_neg h1, if_neg h2, if_pos h3], ?_, ?_, ?_⟩ <;>
          exact ofNat_toNat_lt _ (by omega)
      · right
        refine ⟨by omega, by omega, _, _, _, _, by rw [if_neg h1, if_neg h2, if_neg h3], ?_, ?_, ?_, ?_⟩ <;>
          exact ofNat_toNat_lt _ (by omega)
theorem u8_eq_iff (a b : UInt8) : a = b ↔ a.toNat = b.toNat := UInt8.toNat_inj.symm

/-- turn byte comparisons into `Nat` arithmetic and call `omega` -/
macro "u8arith" : tactic => `(tactic| (
  simp only [isCont, Bool.and_eq_true, Bool.or_eq_true, decide_eq_true_eq, beq_iff_eq,
    UInt8.lt_iff_toNat_lt, UInt8.le_iff_toNat_le, u8_eq_iff, UInt8.reduceToNat] at *
  omega))

theorem validUtf8_encode_aux (c : Nat) (h : isScalar c = true) (rest : Bytes) :
    validUtf8 (encode c ++ rest) = validUtf8 rest := by
  rcases encode_shape c h with ⟨h1, b0, e, t0⟩ | ⟨h1, h2, b0, b1, e, t0, t1⟩ |
    ⟨h1, h2, h3, b0, b1, b2, e, t0, t1, t2⟩ | ⟨h1, h2, b0, b1, b2, b3, e, t0, t1, t2, t3⟩
  · rw [e]
    exact validUtf8_cons_ascii' _ _ (by u8arith)
  · have c0 : ¬ b0 < 0x80 := by u8arith
    have c1 : (0xC2 ≤ b0 && b0 ≤ 0xDF) = true := by u8arith
    have c2 : isCont b1 = true := by u8arith
    rw [e, List.cons_append, List.cons_append, List.nil_append, validUtf8.eq_def]
    simp only [c0, c1, c2, if_true, if_false, Bool.true_and]
  · have c0 : ¬ b0 < 0x80 := by u8arith
    have c1 : ¬ (0xC2 ≤ b0 && b0 ≤ 0xDF) = true := by u8arith
    have c2 : (0xE0 ≤ b0 && b0 ≤ 0xEF) = true := by u8arith
    have c3 : (if b0 == 0xE0 then 0xA0 ≤ b1 && b1 ≤ 0xBF
          else if b0 == 0xED then 0x80 ≤ b1 && b1 ≤ 0x9F
          else isCont b1) = true := by
      split
      · u8arith
      · split
        · u8arith
        · u8arith
    have c4 : isCont b2 = true := by u8arith
    rw [e, List.cons_append, List.cons_append, List.cons_append, List.nil_append, validUtf8.eq_def]
    simp only [c0, c1, c2, c3, c4, if_true, if_false, Bool.true_and, Bool.false_eq_true]
  · have c0 : ¬ b0 < 0x80 := by u8arith
    have c1 : ¬ (0xC2 ≤ b0 && b0 ≤ 0xDF) = true := by u8arith
    have c2 : ¬ (0xE0 ≤ b0 && b0 ≤ 0xEF) = true := by u8arith
    have c2' : (0xF0 ≤ b0 && b0 ≤ 0xF4) = true := by u8arith
    have c3 : (if b0 == 0xF0 then 0x90 ≤ b1 && b1 ≤ 0xBF
          else if b0 == 0xF4 then 0x80 ≤ b1 && b1 ≤ 0x8F
          else isCont b1) = true := by
      split
      · u8arith
      · split
        · u8arith
        · u8arith
    have c4 : isCont b2 = true := by u8arith
    have c5 : isCont b3 = true := by u8arith
    rw [e, List.cons_append, List.cons_append, List.cons_append, List.cons_append, List.nil_append,
      validUtf8.eq_def]
    simp only [c0, c1, c2, c2', c3, c4, c5, if_true, if_false, Bool.true_and, Bool.false_eq_true]

theorem dec1 (b0 : UInt8) (h0 : b0 < 0x80) :
    isScalar b0.toNat = true ∧ encode b0.toNat = [b0] := by
  have hb : b0.toNat < 128 := by u8arith
  refine ⟨?_, ?_⟩
  · unfold isScalar
    simp only [Bool.or_eq_true, Bool.and_eq_true, decide_eq_true_eq]; omega
  · unfold encode
    rw [if_pos hb]
    simp only [UInt8.ofNat_toNat]

theorem dec2 (b0 b1 : UInt8) (h0 : (0xC2 ≤ b0 && b0 ≤ 0xDF) = true) (h1 : isCont b1 = true) :
    ∃ c, isScalar c = true ∧ encode c = [b0, b1] := by
  have hb0 : 0xC2 ≤ b0.toNat ∧ b0.toNat ≤ 0xDF := by u8arith
  have hb1 : 0x80 ≤ b1.toNat ∧ b1.toNat ≤ 0xBF := by u8arith
  refine ⟨(b0.toNat % 32) * 64 + b1.toNat % 64, ?_, ?_⟩
  · unfold isScalar
    simp only [Bool.or_eq_true, Bool.and_eq_true, decide_eq_true_eq]; omega
  · unfold encode
    rw [if_neg (by omega), if_pos (by omega)]
    simp only [List.cons.injEq, u8_eq_iff, UInt8.toNat_ofNat', and_true]
    omega

theorem dec3 (b0 b1 b2 : UInt8) (h0 : (0xE0 ≤ b0 && b0 ≤ 0xEF) = true)
    (h1 : (if b0 == 0xE0 then 0xA0 ≤ b1 && b1 ≤ 0xBF
          else if b0 == 0xED then 0x80 ≤ b1 && b1 ≤ 0x9F
          else isCont b1) = true) (h2 : isCont b2 = true) :
    ∃ c, isScalar c = true ∧ encode c = [b0, b1, b2] := by
  have hb0 : 0xE0 ≤ b0.toNat ∧ b0.toNat ≤ 0xEF := by u8arith
  have hb1 : 0x80 ≤ b1.toNat ∧ b1.toNat ≤ 0xBF := by have := cont_of_second3 h1; u8arith
  have hb1' : (b0.toNat = 0xE0 → 0xA0 ≤ b1.toNat) ∧ (b0.toNat = 0xED → b1.toNat ≤ 0x9F) := by
    split at h1
    · u8arith
    · split at h1
      · u8arith
      · u8arith
  have hb2 : 0x80 ≤ b2.toNat ∧ b2.toNat ≤ 0xBF := by u8arith
  refine ⟨(b0.toNat % 16) * 4096 + (b1.toNat % 64) * 64 + b2.toNat % 64, ?_, ?_⟩
  · unfold isScalar
    simp only [Bool.or_eq_true, Bool.and_eq_true, decide_eq_true_eq]; omega
  · unfold encode
    rw [if_neg (by omega), if_neg (by omega), if_pos (by omega)]
    simp only [List.cons.injEq, u8_eq_iff, UInt8.toNat_ofNat', and_true]
    omega

theorem dec4 (b0 b1 b2 b3 : UInt8) (h0 : (0xF0 ≤ b0 && b0 ≤ 0xF4) = true)
    (h1 : (if b0 == 0xF0 then 0x90 ≤ b1 && b1 ≤ 0xBF
          else if b0 == 0xF4 then 0x80 ≤ b1 && b1 ≤ 0x8F
          else isCont b1) = true) (h2 : isCont b2 = true) (h3 : isCont b3 = true) :
    ∃ c, isScalar c = true ∧ encode c = [b0, b1, b2, b3] := by
  have hb0 : 0xF0 ≤ b0.toNat ∧ b0.toNat ≤ 0xF4 := by u8arith
  have hb1 : 0x80 ≤ b1.toNat ∧ b1.toNat ≤ 0xBF := by have := cont_of_second4 h1; u8arith
  have hb1' : (b0.toNat = 0xF0 → 0x90 ≤ b1.toNat) ∧ (b0.toNat = 0xF4 → b1.toNat ≤ 0x8F) := by
    split at h1
    · u8arith
    · split at h1
      · u8arith
      · u8arith
  have hb2 : 0x80 ≤ b2.toNat ∧ b2.toNat ≤ 0xBF := by u8arith
  have hb3 : 0x80 ≤ b3.toNat ∧ b3.toNat ≤ 0xBF := by u8arith
  refine ⟨(b0.toNat % 8) * 262144 + (b1.toNat % 64) * 4096 + (b2.toNat % 64) * 64 + b3.toNat % 64,
    ?_, ?_⟩
  · unfold isScalar
    simp only [Bool.or_eq_true, Bool.and_eq_true, decide_eq_true_eq]; omega
  · unfold encode
    rw [if_neg (by omega), if_neg (by omega), if_neg (by omega)]
    simp only [List.cons.injEq, u8_eq_iff, UInt8.toNat_ofNat', and_true]
    omega

theorem encodeAll_nil : encodeAll [] = [] := rfl
theorem encodeAll_cons (c : Nat) (cs : List Nat) : encodeAll (c :: cs) = encode c ++ encodeAll cs := by
  simp [encodeAll]
theorem encodeAll_append (as bs : List Nat) : encodeAll (as ++ bs) = encodeAll as ++ encodeAll bs := by
  simp [encodeAll]

theorem validUtf8_encodeAll (cs : List Nat) (h : ∀ c ∈ cs, isScalar c = true) :
    validUtf8 (encodeAll cs) = true := by
  induction cs with
  | nil => rfl
  | cons c cs ih =>
    rw [encodeAll_cons, validUtf8_encode_aux c (h c (by simp))]
    exact ih (fun d hd => h d (by simp [hd]))

theorem validUtf8_complete (bs : Bytes) (h : validUtf8 bs = true) :
    ∃ cs : List Nat, (∀ c ∈ cs, isScalar c = true) ∧ encodeAll cs = bs := by
  induction bs using validUtf8.induct with
  | case1 => exact ⟨[], by simp, rfl⟩
  | case2 b0 rest h0 ih =>
    rw [validUtf8.eq_def] at h
    simp only [h0, if_true] at h
    obtain ⟨cs, hcs, e⟩ := ih h
    obtain ⟨s, en⟩ := dec1 b0 h0
    refine ⟨b0.toNat :: cs, ?_, ?_⟩
    · intro c hc
      rcases List.mem_cons.mp hc with rfl | hc
      · exact s
      · exact hcs c hc
    · rw [encodeAll_cons, en, e]; rfl
  | case3 b0 h0 h1 b1 r ih =>
    rw [validUtf8.eq_def] at h
    simp only [h0, h1, if_true, if_false, Bool.and_eq_true] at h
    obtain ⟨cs, hcs, e⟩ := ih h.2
    obtain ⟨c0, s, en⟩ := dec2 b0 b1 h1 h.1
    refine ⟨c0 :: cs, ?_, ?_⟩
    · intro c hc
      rcases List.mem_cons.mp hc with rfl | hc
      · exact s
      · exact hcs c hc
    · rw [encodeAll_cons, en, e]; rfl
  | case4 b0 rest h0 h1 hne =>
    exfalso
    rw [validUtf8.eq_def] at h
    simp only [h0, h1, if_true, if_false] at h
    cases rest with
    | nil => simp at h
    | cons b1 r => exact hne b1 r rfl
  | case5 b0 h0 h1 h2 b1 b2 r ih =>
    rw [validUtf8.eq_def] at h
    simp only [h0, h1, h2, if_true, if_false, Bool.false_eq_true, Bool.and_eq_true] at h
    obtain ⟨cs, hcs, e⟩ := ih h.2
    obtain ⟨c0, s, en⟩ := dec3 b0 b1 b2 h2 h.1.1 h.1.2
    refine ⟨c0 :: cs, ?_, ?_⟩
    · intro c hc
      rcases List.mem_cons.mp hc with rfl | hc
      · exact s
      · exact hcs c hc
    · rw [encodeAll_cons, en, e]; rfl
  | case6 b0 rest h0 h1 h2 hne =>
    exfalso
    rw [validUtf8.eq_def] at h
    simp only [h0, h1, h2, if_true, if_false, Bool.false_eq_true] at h
  | case7 b0 h0 h1 h2 h3 b1 b2 b3 r ih =>
    rw [validUtf8.eq_def] at h
    simp only [h0, h1, h2, h3, if_true, if_false, Bool.false_eq_true, Bool.and_eq_true] at h
    obtain ⟨cs, hcs, e⟩ := ih h.2
    obtain ⟨c0, s, en⟩ := dec4 b0 b1 b2 b3 h3 h.1.1.1 h.1.1.2 h.1.2
    refine ⟨c0 :: cs, ?_, ?_⟩
    · intro c hc
      rcases List.mem_cons.mp hc with rfl | hc
      · exact s
      · exact hcs c hc
    · rw [encodeAll_cons, en, e]; rfl
  | case8 b0 rest h0 h1 h2 h3 hne =>
    exfalso
    rw [validUtf8.eq_def] at h
    simp only [h0, h1, h2, h3, if_true, if_false, Bool.false_eq_true] at h
  | case9 b0 rest h0 h1 h2 h3 =>
    rw [validUtf8.eq_def] at h
    simp [h0, h1, h2, h3] at h

theorem encode_cancel (c d : Nat) (hc : isScalar c = true) (hd : isScalar d = true) (r r' : Bytes)
    (h : encode c ++ r = encode d ++ r') : c = d ∧ r = r' := by
  rcases encode_shape c hc with ⟨h1, b0, e, t0⟩ | ⟨h1, h2, b0, b1, e, t0, t1⟩ |
    ⟨h1, h2, h3, b0, b1, b2, e, t0, t1, t2⟩ | ⟨h1, h2, b0, b1, b2, b3, e, t0, t1, t2, t3⟩ <;>
  rcases encode_shape d hd with ⟨k1, a0, e', s0⟩ | ⟨k1, k2, a0, a1, e', s0, s1⟩ |
    ⟨k1, k2, k3, a0, a1, a2, e', s0, s1, s2⟩ | ⟨k1, k2, a0, a1, a2, a3, e', s0, s1, s2, s3⟩ <;>
  rw [e, e'] at h <;>
  simp only [List.cons_append, List.nil_append, List.cons.injEq] at h <;>
  refine ⟨?_, ?_⟩ <;> first | (u8arith) | (simp only [h])

theorem isWhiteSpace_iff (c : Nat) : isWhiteSpace c = true ↔
    ((9 ≤ c ∧ c ≤ 13) ∨ c = 0x20 ∨ c = 0x85 ∨ c = 0xA0 ∨ c = 0x1680 ∨
     (0x2000 ≤ c ∧ c ≤ 0x200A) ∨ c = 0x2028 ∨ c = 0x2029 ∨ c = 0x202F ∨ c = 0x205F ∨ c = 0x3000) := by
  unfold isWhiteSpace
  simp only [Bool.or_eq_true, Bool.and_eq_true, decide_eq_true_eq, beq_iff_eq, or_assoc]

theorem isScalar_iff (c : Nat) : isScalar c = true ↔ (c < 0xD800 ∨ (0xE000 ≤ c ∧ c < 0x110000)) := by
  unfold isScalar
  simp only [Bool.or_eq_true, Bool.and_eq_true, decide_eq_true_eq]

theorem stripWs_sound {bs r : Bytes} (h : stripWs bs = some r) :
    ∃ c, isScalar c = true ∧ isWhiteSpace c = true ∧ bs = encode c ++ r := by
  unfold stripWs at h
  split at h
  · cases h; exact ⟨0x85, by decide, by decide, by rw [show encode 0x85 = [0xC2, 0x85] by decide]; rfl⟩
  · cases h; exact ⟨0xA0, by decide, by decide, by rw [show encode 0xA0 = [0xC2, 0xA0] by decide]; rfl⟩
  · cases h; exact ⟨0x1680, by decide, by decide, by rw [show encode 0x1680 = [0xE1, 0x9A, 0x80] by decide]; rfl⟩
  · rename_i b r'
    split at h
    · rename_i hb
      cases h
      obtain ⟨c, hs, e⟩ := dec3 0xE2 0x80 b (by decide) (by decide) (by u8arith)
      refine ⟨c, hs, ?_, by rw [e]; rfl⟩
      rcases encode_shape c hs with ⟨h1, b0, e', t0⟩ | ⟨h1, h2, b0, b1, e', t0, t1⟩ |
        ⟨h1, h2, h3, b0, b1, b2, e', t0, t1, t2⟩ | ⟨h1, h2, b0, b1, b2, b3, e', t0, t1, t2, t3⟩ <;>
      rw [e] at e' <;> simp only [List.cons.injEq, and_true, reduceCtorEq, and_false] at e'
      obtain ⟨rfl, rfl, rfl⟩ := e'
      rw [isWhiteSpace_iff]
      u8arith
    · cases h
  · cases h; exact ⟨0x205F, by decide, by decide, by rw [show encode 0x205F = [0xE2, 0x81, 0x9F] by decide]; rfl⟩
  · cases h; exact ⟨0x3000, by decide, by decide, by rw [show encode 0x3000 = [0xE3, 0x80, 0x80] by decide]; rfl⟩
  · split at h
    · rename_i hb
      cases h
      have hlt := asciiWs_lt hb
      obtain ⟨hs, e⟩ := dec1 _ hlt
      refine ⟨_, hs, ?_, by rw [e]; rfl⟩
      rw [isWhiteSpace_iff]
      u8arith
    · cases h
  · cases h

theorem stripWs_ascii (b : UInt8) (hb : b < 0x80) (r : Bytes) :
    stripWs (b :: r) = if (9 ≤ b && b ≤ 13) || b == 32 then some r else none := by
  unfold stripWs
  split
  · rename_i heq; cases heq; exact absurd hb (by decide)
  · rename_i heq; cases heq; exact absurd hb (by decide)
  · rename_i heq; cases heq; exact absurd hb (by decide)
  · rename_i heq; cases heq; exact absurd hb (by decide)
  · rename_i heq; cases heq; exact absurd hb (by decide)
  · rename_i heq; cases heq; exact absurd hb (by decide)
  · rename_i heq
    cases heq
    rfl
  · rename_i heq; cases heq

theorem stripWs_ws (c : Nat) (h : isWhiteSpace c = true) (rest : Bytes) :
    stripWs (encode c ++ rest) = some rest := by
  rw [isWhiteSpace_iff] at h
  have hs : isScalar c = true := by rw [isScalar_iff]; omega
  by_cases hc : c < 0x80
  · obtain ⟨_, b0, e, t0⟩ : (c < 0x80 ∧ ∃ b0 : UInt8, encode c = [b0] ∧ b0.toNat = c) := by
      rcases encode_shape c hs with h | h | h | h
      · exact h
      all_goals omega
    rw [e, List.cons_append, List.nil_append, stripWs_ascii b0 (by u8arith)]
    rw [if_pos (by u8arith)]
  · by_cases h2 : 0x2000 ≤ c ∧ c ≤ 0x200A
    · obtain ⟨b2, e, t2⟩ : ∃ b2 : UInt8, encode c = [0xE2, 0x80, b2] ∧ b2.toNat = 0x80 + c % 64 := by
        rcases encode_shape c hs with ⟨h1, b0, e', t0⟩ | ⟨h1, h2, b0, b1, e', t0, t1⟩ |
          ⟨h1, h2, h3, b0, b1, b2, e', t0, t1, t2⟩ | ⟨h1, h2, b0, b1, b2, b3, e', t0, t1, t2, t3⟩
        · omega
        · omega
        · have : b0 = 0xE2 := by u8arith
          have : b1 = 0x80 := by u8arith
          subst_vars
          exact ⟨b2, e', t2⟩
        · omega
      rw [e]
      simp only [List.cons_append, List.nil_append, stripWs]
      rw [if_pos (by u8arith)]
    · have : c = 0x85 ∨ c = 0xA0 ∨ c = 0x1680 ∨ c = 0x2028 ∨ c = 0x2029 ∨ c = 0x202F ∨ c = 0x205F ∨ c = 0x3000 := by omega
      rcases this with rfl | rfl | rfl | rfl | rfl | rfl | rfl | rfl
      · rw [show encode 0x85 = [0xC2, 0x85] by decide]; rfl
      · rw [show encode 0xA0 = [0xC2, 0xA0] by decide]; rfl
      · rw [show encode 0x1680 = [0xE1, 0x9A, 0x80] by decide]; rfl
      · rw [show encode 0x2028 = [0xE2, 0x80, 0xA8] by decide]; rfl
      · rw [show encode 0x2029 = [0xE2, 0x80, 0xA9] by decide]; rfl
      · rw [show encode 0x202F = [0xE2, 0x80, 0xAF] by decide]; rfl
      · rw [show encode 0x205F = [0xE2, 0x81, 0x9F] by decide]; rfl
      · rw [show encode 0x3000 = [0xE3, 0x80, 0x80] by decide]; rfl

theorem stripWs_encode_aux (c : Nat) (h : isScalar c = true) (rest : Bytes) :
    stripWs (encode c ++ rest) = if isWhiteSpace c then some rest else none := by
  by_cases hw : isWhiteSpace c = true
  · rw [if_pos hw, stripWs_ws c hw]
  · rw [if_neg hw]
    cases hx : stripWs (encode c ++ rest) with
    | none => rfl
    | some r =>
      obtain ⟨c', hs', hw', e⟩ := stripWs_sound hx
      obtain ⟨rfl, _⟩ := encode_cancel c c' h hs' _ _ e
      exact absurd hw' hw

theorem encode_cancel_rev (c d : Nat) (hc : isScalar c = true) (hd : isScalar d = true) (r r' : Bytes)
    (h : (encode c).reverse ++ r = (encode d).reverse ++ r') : c = d ∧ r = r' := by
  rcases encode_shape c hc with ⟨h1, b0, e, t0⟩ | ⟨h1, h2, b0, b1, e, t0, t1⟩ |
    ⟨h1, h2, h3, b0, b1, b2, e, t0, t1, t2⟩ | ⟨h1, h2, b0, b1, b2, b3, e, t0, t1, t2, t3⟩ <;>
  rcases encode_shape d hd with ⟨k1, a0, e', s0⟩ | ⟨k1, k2, a0, a1, e', s0, s1⟩ |
    ⟨k1, k2, k3, a0, a1, a2, e', s0, s1, s2⟩ | ⟨k1, k2, a0, a1, a2, a3, e', s0, s1, s2, s3⟩ <;>
  rw [e, e'] at h <;>
  simp only [List.reverse_cons, List.reverse_nil, List.cons_append, List.nil_append, List.cons.injEq] at h <;>
  refine ⟨?_, ?_⟩ <;> first | (u8arith) | (simp only [h])

theorem stripWsRev_sound {x r : Bytes} (h : stripWsRev x = some r) :
    ∃ c, isScalar c = true ∧ isWhiteSpace c = true ∧ x = (encode c).reverse ++ r := by
  unfold stripWsRev at h
  split at h
  · cases h; exact ⟨0x85, by decide, by decide, by rw [show encode 0x85 = [0xC2, 0x85] by decide]; rfl⟩
  · cases h; exact ⟨0xA0, by decide, by decide, by rw [show encode 0xA0 = [0xC2, 0xA0] by decide]; rfl⟩
  · cases h; exact ⟨0x1680, by decide, by decide, by rw [show encode 0x1680 = [0xE1, 0x9A, 0x80] by decide]; rfl⟩
  · cases h; exact ⟨0x205F, by decide, by decide, by rw [show encode 0x205F = [0xE2, 0x81, 0x9F] by decide]; rfl⟩
  · cases h; exact ⟨0x3000, by decide, by decide, by rw [show encode 0x3000 = [0xE3, 0x80, 0x80] by decide]; rfl⟩
  · rename_i b r'
    split at h
    · rename_i hb
      cases h
      obtain ⟨c, hs, e⟩ := dec3 0xE2 0x80 b (by decide) (by decide) (by u8arith)
      refine ⟨c, hs, ?_, by rw [e]; rfl⟩
      rcases encode_shape c hs with ⟨h1, b0, e', t0⟩ | ⟨h1, h2, b0, b1, e', t0, t1⟩ |
        ⟨h1, h2, h3, b0, b1, b2, e', t0, t1, t2⟩ | ⟨h1, h2, b0, b1, b2, b3, e', t0, t1, t2, t3⟩ <;>
      rw [e] at e' <;> simp only [List.cons.injEq, and_true, reduceCtorEq, and_false] at e'
      obtain ⟨rfl, rfl, rfl⟩ := e'
      rw [isWhiteSpace_iff]
      u8arith
    · split at h
      · rename_i hb
        cases h
        have hlt := asciiWs_lt hb
        obtain ⟨hs, e⟩ := dec1 _ hlt
        refine ⟨_, hs, ?_, by rw [e]; rfl⟩
        rw [isWhiteSpace_iff]
        u8arith
      · cases h
  · split at h
    · rename_i hb
      cases h
      have hlt := asciiWs_lt hb
      obtain ⟨hs, e⟩ := dec1 _ hlt
      refine ⟨_, hs, ?_, by rw [e]; rfl⟩
      rw [isWhiteSpace_iff]
      u8arith
    · cases h
  · cases h

theorem stripWsRev_ascii (b : UInt8) (hb : b < 0x80) (r : Bytes) :
    stripWsRev (b :: r) = if (9 ≤ b && b ≤ 13) || b == 32 then some r else none := by
  unfold stripWsRev
  split
  · rename_i heq; cases heq; exact absurd hb (by decide)
  · rename_i heq; cases heq; exact absurd hb (by decide)
  · rename_i heq; cases heq; exact absurd hb (by decide)
  · rename_i heq; cases heq; exact absurd hb (by decide)
  · rename_i heq; cases heq; exact absurd hb (by decide)
  · rename_i heq
    cases heq
    rw [if_neg (by u8arith)]
  · rename_i heq
    cases heq
    rfl
  · rename_i heq; cases heq

theorem stripWsRev_ws (c : Nat) (h : isWhiteSpace c = true) (rest : Bytes) :
    stripWsRev ((encode c).reverse ++ rest) = some rest := by
  rw [isWhiteSpace_iff] at h
  have hs : isScalar c = true := by rw [isScalar_iff]; omega
  by_cases hc : c < 0x80
  · obtain ⟨_, b0, e, t0⟩ : (c < 0x80 ∧ ∃ b0 : UInt8, encode c = [b0] ∧ b0.toNat = c) := by
      rcases encode_shape c hs with h | h | h | h
      · exact h
      all_goals omega
    rw [e, List.reverse_singleton, List.cons_append, List.nil_append, stripWsRev_ascii b0 (by u8arith)]
    rw [if_pos (by u8arith)]
  · by_cases h2 : 0x2000 ≤ c ∧ c ≤ 0x200A
    · obtain ⟨b2, e, t2⟩ : ∃ b2 : UInt8, encode c = [0xE2, 0x80, b2] ∧ b2.toNat = 0x80 + c % 64 := by
        rcases encode_shape c hs with ⟨h1, b0, e', t0⟩ | ⟨h1, h2, b0, b1, e', t0, t1⟩ |
          ⟨h1, h2, h3, b0, b1, b2, e', t0, t1, t2⟩ | ⟨h1, h2, b0, b1, b2, b3, e', t0, t1, t2, t3⟩
        · omega
        · omega
        · have : b0 = 0xE2 := by u8arith
          have : b1 = 0x80 := by u8arith
          subst_vars
          exact ⟨b2, e', t2⟩
        · omega
      rw [e]
      simp only [List.reverse_cons, List.reverse_nil, List.cons_append, List.nil_append]
      unfold stripWsRev
      split
      · rename_i heq; cases heq
      · rename_i heq; cases heq
      · rename_i heq; cases heq
      · rename_i heq; cases heq
      · rename_i heq; cases heq
      · rename_i heq
        cases heq
        rw [if_pos (by u8arith)]
      · rename_i hn heq
        cases heq
        exact (hn _ rfl).elim
      · rename_i heq; cases heq
    · have : c = 0x85 ∨ c = 0xA0 ∨ c = 0x1680 ∨ c = 0x2028 ∨ c = 0x2029 ∨ c = 0x202F ∨ c = 0x205F ∨ c = 0x3000 := by omega
      rcases this with rfl | rfl | rfl | rfl | rfl | rfl | rfl | rfl
      · rw [show encode 0x85 = [0xC2, 0x85] by decide]; rfl
      · rw [show encode 0xA0 = [0xC2, 0xA0] by decide]; rfl
      · rw [show encode 0x1680 = [0xE1, 0x9A, 0x80] by decide]; rfl
      · rw [show encode 0x2028 = [0xE2, 0x80, 0xA8] by decide]; rfl
      · rw [show encode 0x2029 = [0xE2, 0x80, 0xA9] by decide]; rfl
      · rw [show encode 0x202F = [0xE2, 0x80, 0xAF] by decide]; rfl
      · rw [show encode 0x205F = [0xE2, 0x81, 0x9F] by decide]; rfl
      · rw [show encode 0x3000 = [0xE3, 0x80, 0x80] by decide]; rfl

theorem stripWsRev_encode_aux (c : Nat) (h : isScalar c = true) (rest : Bytes) :
    stripWsRev ((encode c).reverse ++ rest) = if isWhiteSpace c then some rest else none := by
  by_cases hw : isWhiteSpace c = true
  · rw [if_pos hw, stripWsRev_ws c hw]
  · rw [if_neg hw]
    cases hx : stripWsRev ((encode c).reverse ++ rest) with
    | none => rfl
    | some r =>
      obtain ⟨c', hs', hw', e⟩ := stripWsRev_sound hx
      obtain ⟨rfl, _⟩ := encode_cancel_rev c c' h hs' _ _ e
      exact absurd hw' hw

theorem encode_length_pos (c : Nat) : 1 ≤ (encode c).length := by
  unfold encode
  split
  · simp
  · split
    · simp
    · split <;> simp

theorem encodeAll_length_ge (cs : List Nat) : cs.length ≤ (encodeAll cs).length := by
  induction cs with
  | nil => simp
  | cons c cs ih =>
    rw [encodeAll_cons, List.length_append, List.length_cons]
    have := encode_length_pos c
    omega

theorem trimStartFuel_encodeAll (n : Nat) (cs : List Nat) (hcs : ∀ c ∈ cs, isScalar c = true)
    (hn : cs.length ≤ n) :
    trimStartFuel n (encodeAll cs) = encodeAll (cs.dropWhile isWhiteSpace) := by
  induction n generalizing cs with
  | zero =>
    cases cs with
    | nil => rfl
    | cons c cs => simp at hn
  | succ n ih =>
    cases cs with
    | nil => rfl
    | cons c cs =>
      rw [trimStartFuel, encodeAll_cons, stripWs_encode_aux c (hcs c (by simp))]
      by_cases hw : isWhiteSpace c = true
      · simp only [hw, if_true, List.dropWhile_cons]
        exact ih cs (fun d hd => hcs d (by simp [hd])) (by simpa using hn)
      · simp only [hw, if_false, List.dropWhile_cons, Bool.false_eq_true]
        rw [encodeAll_cons]

/-- the reversed bytes of the encoding of the reversed list -/
def revEnc (es : List Nat) : Bytes := (encodeAll es.reverse).reverse

theorem revEnc_cons (e : Nat) (es : List Nat) : revEnc (e :: es) = (encode e).reverse ++ revEnc es := by
  unfold revEnc
  rw [List.reverse_cons, encodeAll_append, List.reverse_append, encodeAll_cons, encodeAll_nil,
    List.append_nil]

theorem trimEndRevFuel_revEnc (n : Nat) (es : List Nat) (hes : ∀ c ∈ es, isScalar c = true)
    (hn : es.length ≤ n) :
    trimEndRevFuel n (revEnc es) = revEnc (es.dropWhile isWhiteSpace) := by
  induction n generalizing es with
  | zero =>
    cases es with
    | nil => rfl
    | cons c cs => simp at hn
  | succ n ih =>
    cases es with
    | nil => rfl
    | cons c cs =>
      rw [trimEndRevFuel, revEnc_cons, stripWsRev_encode_aux c (hes c (by simp))]
      by_cases hw : isWhiteSpace c = true
      · simp only [hw, if_true, List.dropWhile_cons]
        exact ih cs (fun d hd => hes d (by simp [hd])) (by simpa using hn)
      · simp only [hw, if_false, List.dropWhile_cons, Bool.false_eq_true]
        rw [revEnc_cons]

theorem trim_encodeAll_aux (cs : List Nat) (h : ∀ c ∈ cs, isScalar c = true) :
    trim (encodeAll cs) = encodeAll (trimChars cs) := by
  have hds : ∀ c ∈ cs.dropWhile isWhiteSpace, isScalar c = true :=
    fun c hc => h c ((List.dropWhile_sublist _).subset hc)
  unfold trim trimStart trimEnd trimChars
  rw [trimStartFuel_encodeAll _ cs h (encodeAll_length_ge cs)]
  have e : (encodeAll (cs.dropWhile isWhiteSpace)).reverse = revEnc (cs.dropWhile isWhiteSpace).reverse := by
    unfold revEnc; rw [List.reverse_reverse]
  rw [e, trimEndRevFuel_revEnc _ _ (fun c hc => hds c (List.mem_reverse.mp hc))
    (by rw [List.length_reverse]; exact encodeAll_length_ge _)]
  unfold revEnc
  rw [List.reverse_reverse]

theorem encodeAll_injective_aux (cs ds : List Nat) (hc : ∀ c ∈ cs, isScalar c = true)
    (hd : ∀ d ∈ ds, isScalar d = true) (h : encodeAll cs = encodeAll ds) : cs = ds := by
  induction cs generalizing ds with
  | nil =>
    cases ds with
    | nil => rfl
    | cons d ds =>
      exfalso
      have := congrArg List.length h
      rw [encodeAll_nil, encodeAll_cons, List.length_append, List.length_nil] at this
      have := encode_length_pos d
      omega
  | cons c cs ih =>
    cases ds with
    | nil =>
      exfalso
      have := congrArg List.length h
      rw [encodeAll_nil, encodeAll_cons, List.length_append, List.length_nil] at this
      have := encode_length_pos c
      omega
    | cons d ds =>
      rw [encodeAll_cons, encodeAll_cons] at h
      obtain ⟨rfl, h'⟩ := encode_cancel c d (hc c (by simp)) (hd d (by simp)) _ _ h
      rw [ih ds (fun x hx => hc x (by simp [hx])) (fun x hx => hd x (by simp [hx])) h']

end PG
