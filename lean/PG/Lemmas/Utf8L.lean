/-
  PG.Lemmas.Utf8L — UTF-8 validity is preserved by everything the record parser does to a
  validated slice: cutting at a character boundary, `trim`, `rsplit_once('.')`.
-/
import PG.Model.Parser
import PG.Lemmas.ListBasics

import PG.Lemmas.ParserProgress
namespace PG

/-! ### byte facts -/

/-- (same as `validUtf8_cons_ascii` of PG.Lemmas.ParserRT, which cannot be imported together
    with PG.Lemmas.ParserLocal) -/
theorem validUtf8_cons_ascii' (c : UInt8) (a : Bytes) (hc : c < 0x80) :
    validUtf8 (c :: a) = validUtf8 a := by
  rw [validUtf8.eq_def]; simp only [hc, if_true]

theorem isCont_ge {b : UInt8} (h : isCont b = true) : ¬ b < 0x80 := by
  unfold isCont at h
  simp only [Bool.and_eq_true, decide_eq_true_eq] at h
  have := h.1
  rw [UInt8.le_iff_toNat_le] at this
  rw [UInt8.lt_iff_toNat_lt]
  simp at this ⊢
  omega

theorem not_isCont_of_ascii {b : UInt8} (h : b < 0x80) : isCont b = false := by
  cases hc : isCont b with
  | false => rfl
  | true => exact absurd h (isCont_ge hc)

/-- the second byte of a three-byte sequence is in any case a continuation byte -/
theorem cont_of_second3 {b0 b1 : UInt8}
    (h : (if b0 == 0xE0 then 0xA0 ≤ b1 && b1 ≤ 0xBF
          else if b0 == 0xED then 0x80 ≤ b1 && b1 ≤ 0x9F
          else isCont b1) = true) : isCont b1 = true := by
  unfold isCont at *
  split at h
  · simp only [Bool.and_eq_true, decide_eq_true_eq, UInt8.le_iff_toNat_le] at h ⊢
    simp at h ⊢; omega
  · split at h
    · simp only [Bool.and_eq_true, decide_eq_true_eq, UInt8.le_iff_toNat_le] at h ⊢
      simp at h ⊢; omega
    · exact h

theorem cont_of_second4 {b0 b1 : UInt8}
    (h : (if b0 == 0xF0 then 0x90 ≤ b1 && b1 ≤ 0xBF
          else if b0 == 0xF4 then 0x80 ≤ b1 && b1 ≤ 0x8F
          else isCont b1) = true) : isCont b1 = true := by
  unfold isCont at *
  split at h
  · simp only [Bool.and_eq_true, decide_eq_true_eq, UInt8.le_iff_toNat_le] at h ⊢
    simp at h ⊢; omega
  · split at h
    · simp only [Bool.and_eq_true, decide_eq_true_eq, UInt8.le_iff_toNat_le] at h ⊢
      simp at h ⊢; omega
    · exact h

/-! ### cutting a valid string at a character boundary -/

/-- `w` does not start in the middle of a character -/
def StartsChar (w : Bytes) : Prop := ∀ b, w.head? = some b → isCont b = false

theorem StartsChar.nil : StartsChar [] := by intro b hb; cases hb

theorem StartsChar.cons {b : UInt8} (w : Bytes) (h : isCont b = false) : StartsChar (b :: w) := by
  intro c hc
  simp only [List.head?_cons, Option.some.injEq] at hc
  subst hc; exact h

/-- if the concatenation is valid and the second part starts at a character boundary, both parts
    are valid -/
theorem validUtf8_split (p w : Bytes) (h : validUtf8 (p ++ w) = true) (hw : StartsChar w) :
    validUtf8 p = true ∧ validUtf8 w = true := by
  induction p using validUtf8.induct with
  | case1 => exact ⟨rfl, by simpa using h⟩
  | case2 b0 rest h0 ih =>
    rw [List.cons_append, validUtf8.eq_def] at h
    simp only [h0, if_true] at h
    rw [validUtf8.eq_def]
    simp only [h0, if_true]
    exact ih h
  | case3 b0 h0 h1 b1 r ih =>
    rw [List.cons_append, List.cons_append, validUtf8.eq_def] at h
    simp only [h0, h1, if_true, if_false, Bool.and_eq_true] at h
    rw [validUtf8.eq_def]
    simp only [h0, h1, if_true, if_false, Bool.and_eq_true]
    exact ⟨⟨h.1, (ih h.2).1⟩, (ih h.2).2⟩
  | case4 b0 rest h0 h1 hne =>
    exfalso
    cases rest with
    | cons b1 r => exact hne b1 r rfl
    | nil =>
      rw [List.cons_append, List.nil_append, validUtf8.eq_def] at h
      simp only [h0, h1, if_true, if_false] at h
      cases w with
      | nil => simp at h
      | cons c w =>
        simp only [Bool.and_eq_true] at h
        rw [hw c rfl] at h
        exact absurd h.1 (by simp)
  | case5 b0 h0 h1 h2 b1 b2 r ih =>
    rw [List.cons_append, List.cons_append, List.cons_append, validUtf8.eq_def] at h
    simp only [h0, h1, h2, if_true, if_false, Bool.false_eq_true, Bool.and_eq_true] at h
    rw [validUtf8.eq_def]
    simp only [h0, h1, h2, if_true, if_false, Bool.false_eq_true, Bool.and_eq_true]
    exact ⟨⟨h.1, (ih h.2).1⟩, (ih h.2).2⟩
  | case6 b0 rest h0 h1 h2 hne =>
    exfalso
    rw [List.cons_append, validUtf8.eq_def] at h
    simp only [h0, h1, h2, if_true, if_false, Bool.false_eq_true] at h
    cases rest with
    | nil =>
      cases w with
      | nil => simp at h
      | cons c w =>
        cases w with
        | nil => simp at h
        | cons c2 w =>
          simp only [List.nil_append, Bool.and_eq_true] at h
          have := cont_of_second3 h.1.1
          rw [hw c rfl] at this
          exact absurd this (by simp)
    | cons b1 rest =>
      cases rest with
      | cons b2 r => exact hne b1 b2 r rfl
      | nil =>
        cases w with
        | nil => simp at h
        | cons c w =>
          simp only [List.cons_append, List.nil_append, Bool.and_eq_true] at h
          rw [hw c rfl] at h
          exact absurd h.1.2 (by simp)
  | case7 b0 h0 h1 h2 h3 b1 b2 b3 r ih =>
    rw [List.cons_append, List.cons_append, List.cons_append, List.cons_append, validUtf8.eq_def] at h
    simp only [h0, h1, h2, h3, if_true, if_false, Bool.false_eq_true, Bool.and_eq_true] at h
    rw [validUtf8.eq_def]
    simp only [h0, h1, h2, h3, if_true, if_false, Bool.false_eq_true, Bool.and_eq_true]
    exact ⟨⟨h.1, (ih h.2).1⟩, (ih h.2).2⟩
  | case8 b0 rest h0 h1 h2 h3 hne =>
    exfalso
    rw [List.cons_append, validUtf8.eq_def] at h
    simp only [h0, h1, h2, h3, if_true, if_false, Bool.false_eq_true] at h
    cases rest with
    | nil =>
      cases w with
      | nil => simp at h
      | cons c w =>
        cases w with
        | nil => simp at h
        | cons c2 w =>
          cases w with
          | nil => simp at h
          | cons c3 w =>
            simp only [List.nil_append, Bool.and_eq_true] at h
            have := cont_of_second4 h.1.1.1
            rw [hw c rfl] at this
            exact absurd this (by simp)
    | cons b1 rest =>
      cases rest with
      | nil =>
        cases w with
        | nil => simp at h
        | cons c w =>
          cases w with
          | nil => simp at h
          | cons c2 w =>
            simp only [List.cons_append, List.nil_append, Bool.and_eq_true] at h
            rw [hw c rfl] at h
            exact absurd h.1.1.2 (by simp)
      | cons b2 rest =>
        cases rest with
        | cons b3 r => exact hne b1 b2 b3 r rfl
        | nil =>
          cases w with
          | nil => simp at h
          | cons c w =>
            simp only [List.cons_append, List.nil_append, Bool.and_eq_true] at h
            rw [hw c rfl] at h
            exact absurd h.1.2 (by simp)
  | case9 b0 rest h0 h1 h2 h3 =>
    rw [List.cons_append, validUtf8.eq_def] at h
    simp [h0, h1, h2, h3] at h

/-- splitting at an ASCII byte -/
theorem validUtf8_split_ascii (a b : Bytes) (c : UInt8) (hc : c < 0x80)
    (h : validUtf8 (a ++ c :: b) = true) : validUtf8 a = true ∧ validUtf8 b = true := by
  obtain ⟨h1, h2⟩ := validUtf8_split a (c :: b) h (StartsChar.cons b (not_isCont_of_ascii hc))
  rw [validUtf8_cons_ascii' c b hc] at h2
  exact ⟨h1, h2⟩

/-! ### `trim` -/

theorem asciiWs_lt {b : UInt8} (h : ((9 ≤ b && b ≤ 13) || b == 32) = true) : b < 0x80 := by
  simp only [Bool.or_eq_true, Bool.and_eq_true, decide_eq_true_eq, beq_iff_eq] at h
  rcases h with h | h
  · have := h.2
    rw [UInt8.le_iff_toNat_le] at this
    rw [UInt8.lt_iff_toNat_lt]
    simp at this ⊢; omega
  · subst h; decide

theorem stripWs_valid {bs r : Bytes} (h : stripWs bs = some r) (hv : validUtf8 bs = true) :
    validUtf8 r = true := by
  unfold stripWs at h
  split at h
  · cases h; simpa [validUtf8, isCont] using hv
  · cases h; simpa [validUtf8, isCont] using hv
  · cases h; simpa [validUtf8, isCont] using hv
  · split at h
    · cases h
      rw [validUtf8.eq_def] at hv
      simp [isCont] at hv
      exact hv.2
    · cases h
  · cases h; simpa [validUtf8, isCont] using hv
  · cases h; simpa [validUtf8, isCont] using hv
  · split at h
    · rename_i hb
      cases h
      rw [validUtf8_cons_ascii' _ _ (asciiWs_lt hb)] at hv
      exact hv
    · cases h
  · cases h

theorem trimStartFuel_valid (n : Nat) (bs : Bytes) (hv : validUtf8 bs = true) :
    validUtf8 (trimStartFuel n bs) = true := by
  induction n generalizing bs with
  | zero => exact hv
  | succ n ih =>
    simp only [trimStartFuel]
    split
    · rename_i r h
      exact ih r (stripWs_valid h hv)
    · exact hv

/-- cutting a trailing piece that starts at a character boundary off a reversed string -/
theorem valid_rev_cut (r w : Bytes) (hw : StartsChar w)
    (hv : validUtf8 (r.reverse ++ w) = true) : validUtf8 r.reverse = true :=
  (validUtf8_split _ _ hv hw).1

theorem stripWsRev_valid {x r : Bytes} (h : stripWsRev x = some r)
    (hv : validUtf8 x.reverse = true) : validUtf8 r.reverse = true := by
  unfold stripWsRev at h
  split at h
  · cases h
    exact valid_rev_cut r [0xC2, 0x85] (StartsChar.cons _ (by decide)) (by simpa using hv)
  · cases h
    exact valid_rev_cut r [0xC2, 0xA0] (StartsChar.cons _ (by decide)) (by simpa using hv)
  · cases h
    exact valid_rev_cut r [0xE1, 0x9A, 0x80] (StartsChar.cons _ (by decide)) (by simpa using hv)
  · cases h
    exact valid_rev_cut r [0xE2, 0x81, 0x9F] (StartsChar.cons _ (by decide)) (by simpa using hv)
  · cases h
    exact valid_rev_cut r [0xE3, 0x80, 0x80] (StartsChar.cons _ (by decide)) (by simpa using hv)
  · rename_i b r'
    split at h
    · cases h
      exact valid_rev_cut r [0xE2, 0x80, b] (StartsChar.cons _ (by decide)) (by simpa using hv)
    · split at h
      · rename_i hb
        cases h
        exact valid_rev_cut (0x80 :: 0xE2 :: r') [b]
          (StartsChar.cons _ (not_isCont_of_ascii (asciiWs_lt hb))) (by simpa using hv)
      · cases h
  · split at h
    · rename_i hb
      cases h
      exact valid_rev_cut _ [_]
        (StartsChar.cons _ (not_isCont_of_ascii (asciiWs_lt hb))) (by simpa using hv)
    · cases h
  · cases h

theorem trimEndRevFuel_valid (n : Nat) (x : Bytes) (hv : validUtf8 x.reverse = true) :
    validUtf8 (trimEndRevFuel n x).reverse = true := by
  induction n generalizing x with
  | zero => exact hv
  | succ n ih =>
    simp only [trimEndRevFuel]
    split
    · rename_i r h
      exact ih r (stripWsRev_valid h hv)
    · exact hv

/-- `str::trim` of a valid string is valid -/
theorem trim_valid (s : Bytes) (hv : validUtf8 s = true) : validUtf8 (trim s) = true := by
  unfold trim trimEnd trimStart
  apply trimEndRevFuel_valid
  rw [List.reverse_reverse]
  exact trimStartFuel_valid _ _ hv

/-! ### `split_once` / `rsplit_once` -/

theorem splitOnce_eq {c : UInt8} {s a b : Bytes} (h : splitOnce c s = some (a, b)) :
    s = a ++ c :: b := by
  unfold splitOnce at h
  split at h
  · cases h
  · rename_i d r heq
    simp only [Option.some.injEq, Prod.mk.injEq] at h
    obtain ⟨rfl, rfl⟩ := h
    have hd : d = c := by
      have := List.head?_dropWhile_not (fun x => x != c) s
      rw [heq] at this
      simpa using this
    subst hd
    have := List.takeWhile_append_dropWhile (p := fun x => x != d) (l := s)
    rw [heq] at this
    exact this.symm

theorem rsplitOnce_eq {c : UInt8} {s a b : Bytes} (h : rsplitOnce c s = some (a, b)) :
    s = a ++ c :: b := by
  unfold rsplitOnce at h
  split at h
  · cases h
  · rename_i a' b' h'
    simp only [Option.some.injEq, Prod.mk.injEq] at h
    obtain ⟨rfl, rfl⟩ := h
    have := congrArg List.reverse (splitOnce_eq h')
    simpa using this

theorem splitForeign_valid {s : Bytes} (hv : validUtf8 s = true) :
    validUtf8 (splitForeign s).1 = true ∧ ∀ c, (splitForeign s).2 = some c → validUtf8 c = true := by
  unfold splitForeign
  split
  · rename_i c m heq
    have e := rsplitOnce_eq heq
    rw [e] at hv
    obtain ⟨h1, h2⟩ := validUtf8_split_ascii c m 46 (by decide) hv
    refine ⟨h2, ?_⟩
    intro c' hc'
    simp only [Option.some.injEq] at hc'
    subst hc'; exact h1
  · exact ⟨hv, by intro c hc; cases hc⟩

theorem splitForeign_length (s : Bytes) :
    (splitForeign s).1.length + ((splitForeign s).2.map List.length).getD 0 ≤ s.length := by
  unfold splitForeign
  split
  · rename_i c m heq
    have e := congrArg List.length (rsplitOnce_eq heq)
    simp only [List.length_append, List.length_cons] at e
    simp only [Option.map_some, Option.getD_some]
    omega
  · simp

theorem litSourceFile_valid : validUtf8 litSourceFile = true := by decide

theorem trim_length_le (s : Bytes) : (trim s).length ≤ s.length := by
  unfold trim trimEnd trimStart
  rw [List.length_reverse]
  have h1 := (trimEndRevFuel_suffix (trimStartFuel s.length s).length (trimStartFuel s.length s).reverse).length_le
  have h2 := (trimStartFuel_suffix s.length s).length_le
  rw [List.length_reverse] at h1
  omega

end PG
