/-
  PG.Lemmas.Utf8L — UTF-8 validity is preserved by everything the record parser does to a
  validated slice: cutting at a character boundary, `trim`, `rsplit_once('.')`.
-/
import PG.Model.Parser
import PG.Lemmas.ListBasics
import PG.Lemmas.ParserRT
namespace PG

/-! ### byte facts -/

theorem isCont_ge {b : UInt8} (h : isCont b = true) : ¬ b < 0x80 := by
  unfold isCont at h
  simp only [Bool.and_eq_true, decide_eq_true_eq] at h
  have := h.1
  rw [UInt8.le_iff_toNat_le] at this
  rw [UInt8.lt_iff_toNat_lt]
  simp at this ⊢
  omega

theorem not_isCont_of_ascii {b : UInt8} (h : b < 0x80) : isCont b = false := by
  cases hc : isCont b with
  | false => rfl
  | true => exact absurd h (isCont_ge hc)

/-- the second byte of a three-byte sequence is in any case a continuation byte -/
theorem cont_of_second3 {b0 b1 : UInt8}
    (h : (if b0 == 0xE0 then 0xA0 ≤ b1 && b1 ≤ 0xBF
          else if b0 == 0xED then 0x80 ≤ b1 && b1 ≤ 0x9F
          else isCont b1) = true) : isCont b1 = true := by
  unfold isCont at *
  split at h
  · simp only [Bool.and_eq_true, decide_eq_true_eq, UInt8.le_iff_toNat_le] at h ⊢
    simp at h ⊢; omega
  · split at h
    · simp only [Bool.and_eq_true, decide_eq_true_eq, UInt8.le_iff_toNat_le] at h ⊢
      simp at h ⊢; omega
    · exact h

theorem cont_of_second4 {b0 b1 : UInt8}
    (h : (if b0 == 0xF0 then 0x90 ≤ b1 && b1 ≤ 0xBF
          else if b0 == 0xF4 then 0x80 ≤ b1 && b1 ≤ 0x8F
          else isCont b1) = true) : isCont b1 = true := by
  unfold isCont at *
  split at h
  · simp only [Bool.and_eq_true, decide_eq_true_eq, UInt8.le_iff_toNat_le] at h ⊢
    simp at h ⊢; omega
  · split at h
    · simp only [Bool.and_eq_true, decide_eq_true_eq, UInt8.le_iff_toNat_le] at h ⊢
      simp at h ⊢; omega
    · exact h

/-! ### cutting a valid string at a character boundary -/

/-- `w` does not start in the middle of a character -/
def StartsChar (w : Bytes) : Prop := ∀ b, w.head? = some b → isCont b = false

theorem StartsChar.nil : StartsChar [] := by intro b hb; cases hb

theorem StartsChar.cons {b : UInt8} (w : Bytes) (h : isCont b = false) : StartsChar (b :: w) := by
  intro c hc
  simp only [List.head?_cons, Option.some.injEq] at hc
  subst hc; exact h

/-- if the concatenation is valid and the second part starts at a character boundary, both parts
    are valid -/
theorem validUtf8_split (p w : Bytes) (h : validUtf8 (p ++ w) = true) (hw : StartsChar w) :
    validUtf8 p = true ∧ validUtf8 w = true := by
  induction p using validUtf8.induct with
  | case1 => exact ⟨rfl, by simpa using h⟩
  | case2 b0 rest h0 ih =>
    rw [List.cons_append, validUtf8.eq_def] at h
    simp only [h0, if_true] at h
    rw [validUtf8.eq_def]
    simp only [h0, if_true]
    exact ih h
  | case3 b0 h0 h1 b1 r ih =>
    rw [List.cons_append, List.cons_append, validUtf8.eq_def] at h
    simp only [h0, h1, if_true, if_false, Bool.and_eq_true] at h
    rw [validUtf8.eq_def]
    simp only [h0, h1, if_true, if_false, Bool.and_eq_true]
    exact ⟨⟨h.1, (ih h.2).1⟩, (ih h.2).2⟩
  | case4 b0 rest h0 h1 hne =>
    exfalso
    cases rest with
    | cons b1 r => exact hne b1 r rfl
    | nil =>
      rw [List.cons_append, List.nil_append, validUtf8.eq_def] at h
      simp only [h0, h1, if_true, if_false] at h
      cases w with
      | nil => simp at h
      | cons c w =>
        simp only [Bool.and_eq_true] at h
        rw [hw c rfl] at h
        exact absurd h.1 (by simp)
  | case5 b0 h0 h1 h2 b1 b2 r ih =>
    rw [List.cons_append, List.cons_append, List.cons_append, validUtf8.eq_def] at h
    simp only [h0, h1, h2, if_true, if_false, Bool.false_eq_true, Bool.and_eq_true] at h
    rw [validUtf8.eq_def]
    simp only [h0, h1, h2, if_true, if_false, Bool.false_eq_true, Bool.and_eq_true]
    exact ⟨⟨h.1, (ih h.2).1⟩, (ih h.2).2⟩
  | case6 b0 rest h0 h1 h2 hne =>
    exfalso
    rw [List.cons_append, validUtf8.eq_def] at h
    simp only [h0, h1, h2, if_true, if_false, Bool.false_eq_true] at h
    cases rest with
    | nil =>
      cases w with
      | nil => simp at h
      | cons c w =>
        cases w with
        | nil => simp at h
        | cons c2 w =>
          simp only [List.nil_append, Bool.and_eq_true] at h
          have := cont_of_second3 h.1.1
          rw [hw c rfl] at this
          exact absurd this (by simp)
    | cons b1 rest =>
      cases rest with
      | cons b2 r => exact hne b1 b2 r rfl
      | nil =>
        cases w with
        | nil => simp at h
        | cons c w =>
          simp only [List.cons_append, List.nil_append, Bool.and_eq_true] at h
          rw [hw c rfl] at h
          exact absurd h.1.2 (by simp)
  | case7 b0 h0 h1 h2 h3 b1 b2 b3 r ih =>
    rw [List.cons_append, List.cons_append, List.cons_append, List.cons_append, validUtf8.eq_def] at h
    simp only [h0, h1, h2, h3, if_true, if_false, Bool.false_eq_true, Bool.and_eq_true] at h
    rw [validUtf8.eq_def]
    simp only [h0, h1, h2, h3, if_true, if_false, Bool.false_eq_true, Bool.and_eq_true]
    exact ⟨⟨h.1, (ih h.2).1⟩, (ih h.2).2⟩
  | case8 b0 rest h0 h1 h2 h3 hne =>
    exfalso
    rw [List.cons_append, validUtf8.eq_def] at h
    simp only [h0, h1, h2, h3, if_true, if_false, Bool.false_eq_true] at h
    cases rest with
    | nil =>
      cases w with
      | nil => simp at h
      | cons c w =>
        cases w with
        | nil => simp at h
        | cons c2 w =>
          cases w with
          | nil => simp at h
          | cons c3 w =>
            simp only [List.nil_append, Bool.and_eq_true] at h
            have := cont_of_second4 h.1.1.1
            rw [hw c rfl] at this
            exact absurd this (by simp)
    | cons b1 rest =>
      cases rest with
      | nil =>
        cases w with
        | nil => simp at h
        | cons c w =>
          cases w with
          | nil => simp at h
          | cons c2 w =>
            simp only [List.cons_append, List.nil_append, Bool.and_eq_true] at h
            rw [hw c rfl] at h
            exact absurd h.1.1.2 (by simp)
      | cons b2 rest =>
        cases rest with
        | cons b3 r => exact hne b1 b2 b3 r rfl
        | nil =>
          cases w with
          | nil => simp at h
          | cons c w =>
            simp only [List.cons_append, List.nil_append, Bool.and_eq_true] at h
            rw [hw c rfl] at h
            exact absurd h.1.2 (by simp)
  | case9 b0 rest h0 h1 h2 h3 =>
    rw [List.cons_append, validUtf8.eq_def] at h
    simp [h0, h1, h2, h3] at h

/-- splitting at an ASCII byte -/
theorem validUtf8_split_ascii (a b : Bytes) (c : UInt8) (hc : c < 0x80)
    (h : validUtf8 (a ++ c :: b) = true) : validUtf8 a = true ∧ validUtf8 b = true := by
  obtain ⟨h1, h2⟩ := validUtf8_split a (c :: b) h (StartsChar.cons b (not_isCont_of_ascii hc))
  rw [validUtf8_cons_ascii c b hc] at h2
  exact ⟨h1, h2⟩

/-! ### `trim` -/

theorem asciiWs_lt {b : UInt8} (h : ((9 ≤ b && b ≤ 13) || b == 32) = true) : b < 0x80 := by
  simp only [Bool.or_eq_true, Bool.and_eq_true, decide_eq_true_eq, beq_iff_eq] at h
  rcases h with h | h
  · have := h.2
    rw [UInt8.le_iff_toNat_le] at this
    rw [UInt8.lt_iff_toNat_lt]
    simp at this ⊢; omega
  · subst h; decide

theorem stripWs_valid {bs r : Bytes} (h : stripWs bs = some r) (hv : validUtf8 bs = true) :
    validUtf8 r = true := by
  unfold stripWs at h
  split at h
  · cases h; simpa [validUtf8, isCont] using hv
  · cases h; simpa [validUtf8, isCont] using hv
  · cases h; simpa [validUtf8, isCont] using hv
  · split at h
    · cases h
      rw [validUtf8.eq_def] at hv
      simp [isCont] at hv
      exact hv.2
    · cases h
  · cases h; simpa [validUtf8, isCont] using hv
  · cases h; simpa [validUtf8, isCont] using hv
  · split at h
    · rename_i hb
      cases h
      rw [validUtf8_cons_ascii _ _ (asciiWs_lt hb)] at hv
      exact hv
    · cases h
  · cases h

end PG
