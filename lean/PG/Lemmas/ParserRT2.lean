/-
  PG.Lemmas.ParserRT2 — per-line-kind round-trip lemmas for Props/C05.
-/
import PG.Spec.Grammar
import PG.Lemmas.ParserRT
namespace PG
open Line

theorem TailOK.headSat {tail : Bytes} (ht : TailOK tail) : HeadSat isNewline tail := by
  rcases ht with rfl | ⟨nl, r, rfl, h⟩
  · exact HeadSat.nil _
  · exact HeadSat.cons _ _ _ h

/-! ### dispatch of `parseRecord` -/

theorem parseRecord_eq_rt (bs : Bytes) (h0 : consumeNewlines bs = bs) :
    parseRecord bs =
      match (if startsWith bs [35] then parseHeader bs
        else if startsWith bs litIndent then parseMember bs else parseClass bs) with
      | some (r, rest) => (.ok r, rest)
      | none => (.err (splitLine bs).1, (splitLine bs).2) := by
  unfold parseRecord
  simp only [h0]
  generalize (if startsWith bs [35] = true then parseHeader bs
      else if startsWith bs litIndent = true then parseMember bs else parseClass bs) = x
  rcases x with _ | ⟨r, rest⟩ <;> rfl

theorem parseRecord_class (bs : Bytes) (h0 : consumeNewlines bs = bs)
    (h1 : startsWith bs [35] = false) (h2 : startsWith bs litIndent = false) :
    parseRecord bs = match parseClass bs with
      | some (r, rest) => (.ok r, rest)
      | none => (.err (splitLine bs).1, (splitLine bs).2) := by
  rw [parseRecord_eq_rt bs h0]; simp [h1, h2]

theorem parseRecord_member (bs : Bytes) (h0 : consumeNewlines bs = bs)
    (h1 : startsWith bs [35] = false) (h2 : startsWith bs litIndent = true) :
    parseRecord bs = match parseMember bs with
      | some (r, rest) => (.ok r, rest)
      | none => (.err (splitLine bs).1, (splitLine bs).2) := by
  rw [parseRecord_eq_rt bs h0]; simp [h1, h2]

theorem parseRecord_header (bs : Bytes) (h0 : consumeNewlines bs = bs)
    (h1 : startsWith bs [35] = true) :
    parseRecord bs = match parseHeader bs with
      | some (r, rest) => (.ok r, rest)
      | none => (.err (splitLine bs).1, (splitLine bs).2) := by
  rw [parseRecord_eq_rt bs h0]; simp [h1]

/-- the first-byte facts that send a line to `parseClass` -/
theorem class_dispatch (a r : Bytes) (hn : ∀ b ∈ a, isNewline b = false)
    (h32 : 32 ∉ a) (h35 : a.head? ≠ some 35)
    (hr : a = [] → consumeNewlines r = r ∧ startsWith r [35] = false ∧ startsWith r litIndent = false) :
    consumeNewlines (a ++ r) = a ++ r ∧ startsWith (a ++ r) [35] = false ∧
      startsWith (a ++ r) litIndent = false := by
  cases a with
  | nil => simpa using hr rfl
  | cons b a =>
    have b1 : b ≠ 32 := by rintro rfl; simp at h32
    have b2 : b ≠ 35 := by rintro rfl; simp at h35
    have b3 : isNewline b = false := hn b (by simp)
    simp [consumeNewlines, b3, startsWith, stripPrefix, litIndent, Ne.symm b1, Ne.symm b2]

theorem dispatch_arrow (r : Bytes) :
    consumeNewlines (32 :: 45 :: r) = 32 :: 45 :: r ∧ startsWith (32 :: 45 :: r) [35] = false ∧
      startsWith (32 :: 45 :: r) litIndent = false := by
  simp [consumeNewlines, startsWith, stripPrefix, litIndent, isNewline]

theorem C05_line_cls (orig obf : Bytes) (h : (Line.cls orig obf).WF) (tail : Bytes) (_ht : TailOK tail) :
    parseRecord ((Line.cls orig obf).print ++ tail) = (.ok (Line.cls orig obf).toRecord, consumeNewlines tail) := by
  obtain ⟨⟨hu1, hn1⟩, ⟨hu2, hn2⟩, h32, h35, h58⟩ := h
  have e1 : parseUntilNoNewline (· == 32) (orig ++ 32 :: 45 :: 62 :: 32 :: (obf ++ 58 :: tail))
      = some (orig, 32 :: 45 :: 62 :: 32 :: (obf ++ 58 :: tail)) :=
    pUNN_ok _ _ _ _ hu1 hn1 (by intro b hb; simp; rintro rfl; exact h32 hb) (by decide) (by decide)
  have e2 : parseUntilNoNewline (· == 58) (obf ++ 58 :: tail) = some (obf, 58 :: tail) :=
    pUNN_ok _ _ _ _ hu2 hn2 (by intro b hb; simp; rintro rfl; exact h58 hb) (by decide) (by decide)
  simp only [Line.print, Line.toRecord, litArrow, List.append_assoc, List.cons_append, List.nil_append]
  obtain ⟨d0, d1, d2⟩ := class_dispatch orig _ hn1 h32 h35 (fun _ => dispatch_arrow _)
  rw [parseRecord_class _ d0 d1 d2]
  simp [parseClass, e1, e2, stripPrefix, litArrow]

theorem beq_false_of_nmem (c : UInt8) (a : Bytes) (h : c ∉ a) : ∀ b ∈ a, (b == c) = false := by
  intro b hb; simp; rintro rfl; exact h hb

theorem member_dispatch (r : Bytes) :
    consumeNewlines (32 :: 32 :: 32 :: 32 :: r) = 32 :: 32 :: 32 :: 32 :: r ∧
    startsWith (32 :: 32 :: 32 :: 32 :: r) [35] = false ∧
    startsWith (32 :: 32 :: 32 :: 32 :: r) litIndent = true ∧
    stripPrefix litIndent (32 :: 32 :: 32 :: 32 :: r) = some r := by
  simp [consumeNewlines, startsWith, stripPrefix, litIndent, isNewline]

/-- `noLeadNum` propagates to `a ++ d :: r` when `d` is not numeric -/
theorem noLeadNum_append (a : Bytes) (d : UInt8) (r : Bytes) (ha : noLeadNum a)
    (hd : isNumericByte d = false) : ∀ b, (a ++ d :: r).head? = some b → isNumericByte b = false := by
  intro b hb
  cases a with
  | nil => simp at hb; subst hb; exact hd
  | cons x a => simp at hb; subst hb; exact ha x rfl

theorem parseLinePrefix_none (r : Bytes) (hr : ∀ b, r.head? = some b → isNumericByte b = false) :
    parseLinePrefix r = some (none, r) := by
  simp [parseLinePrefix, parseUsize_none r hr]

theorem C05_line_field (ty name obf : Bytes) (h : (Line.field ty name obf).WF) (tail : Bytes) (ht : TailOK tail) :
    parseRecord ((Line.field ty name obf).print ++ tail) = (.ok (Line.field ty name obf).toRecord, consumeNewlines tail) := by
  obtain ⟨⟨hu1, hn1⟩, ⟨hu2, hn2⟩, ⟨hu3, hn3⟩, h32, hnum, h32n, h40n⟩ := h
  simp only [Line.print, Line.toRecord, litArrow, litIndent, List.append_assoc, List.cons_append, List.nil_append]
  obtain ⟨d0, d1, d2, d3⟩ := member_dispatch (ty ++ 32 :: (name ++ 32 :: 45 :: 62 :: 32 :: (obf ++ tail)))
  rw [parseRecord_member _ d0 d1 d2]
  have e0 := parseLinePrefix_none _ (noLeadNum_append ty 32 (name ++ 32 :: 45 :: 62 :: 32 :: (obf ++ tail)) hnum (by decide))
  have e1 : parseUntilNoNewline (· == 32) (ty ++ 32 :: (name ++ 32 :: 45 :: 62 :: 32 :: (obf ++ tail)))
      = some (ty, 32 :: (name ++ 32 :: 45 :: 62 :: 32 :: (obf ++ tail))) :=
    pUNN_ok _ _ _ _ hu1 hn1 (beq_false_of_nmem _ _ h32) (by decide) (by decide)
  have e2 : parseUntilNoNewline (fun c => c == 32 || c == 40) (name ++ 32 :: 45 :: 62 :: 32 :: (obf ++ tail))
      = some (name, 32 :: 45 :: 62 :: 32 :: (obf ++ tail)) :=
    pUNN_ok _ _ _ _ hu2 hn2 (by intro b hb; simp [beq_false_of_nmem _ _ h32n b hb, beq_false_of_nmem _ _ h40n b hb])
      (by decide) (by decide)
  have e3 : parseUntil isNewline (obf ++ tail) = some (obf, tail) :=
    parseUntil_ok _ _ _ hu3 hn3 ht.headSat
  simp [parseMember, d3, e0, e1, e2, e3, stripPrefix, litArrow]

theorem parseLinePrefix_range (range : Option (Nat × Nat)) (r : Bytes)
    (hb : ∀ s e, range = some (s, e) → s < usizeBound ∧ e < usizeBound)
    (hr : range = none → ∀ b, r.head? = some b → isNumericByte b = false) :
    parseLinePrefix (printRange range ++ r) = some (range, r) := by
  rcases range with _ | ⟨s, e⟩
  · simpa [printRange] using parseLinePrefix_none r (hr rfl)
  · obtain ⟨hs, he⟩ := hb s e rfl
    have e1 : parseUsize (natToDec s ++ 58 :: (natToDec e ++ 58 :: r)) = some (s, 58 :: (natToDec e ++ 58 :: r)) :=
      parseUsize_natToDec s _ hs (by intro b hb; simp at hb; subst hb; decide)
    have e2 : parseUsize (natToDec e ++ 58 :: r) = some (e, 58 :: r) :=
      parseUsize_natToDec e _ he (by intro b hb; simp at hb; subst hb; decide)
    simp [printRange, parseLinePrefix, e1, e2, stripPrefix]

/-- the (optionally class-qualified) method name -/
theorem fcName_facts (fc : Option Bytes) (name : Bytes)
    (hfc : ∀ c, fc = some c → Str c ∧ 32 ∉ c ∧ 40 ∉ c) (hname : Str name)
    (h32 : 32 ∉ name) (h40 : 40 ∉ name) (h46 : 46 ∉ name) :
    validUtf8 (printFc fc ++ name) = true ∧ (∀ b ∈ printFc fc ++ name, isNewline b = false) ∧
    (∀ b ∈ printFc fc ++ name, (b == 32 || b == 40) = false) ∧
    splitForeign (printFc fc ++ name) = (name, fc) := by
  rcases fc with _ | c
  · refine ⟨by simpa [printFc] using hname.1, by simp only [printFc, List.nil_append]; exact hname.2, ?_, ?_⟩
    · intro b hb
      simp only [printFc, List.nil_append] at hb
      simp [beq_false_of_nmem _ _ h32 b hb, beq_false_of_nmem _ _ h40 b hb]
    · simp [printFc, splitForeign, rsplitOnce_none 46 name h46]
  · obtain ⟨⟨cu, cn⟩, c32, c40⟩ := hfc c rfl
    refine ⟨?_, ?_, ?_, ?_⟩
    · simp only [printFc, List.append_assoc]
      exact validUtf8_append _ _ cu (by
        simp only [List.cons_append, List.nil_append]
        rw [validUtf8_cons_ascii 46 name (by decide)]; exact hname.1)
    · intro b hb
      simp only [printFc, List.append_assoc, List.mem_append, List.mem_cons, List.not_mem_nil, or_false] at hb
      rcases hb with hb | rfl | hb
      · exact cn b hb
      · decide
      · exact hname.2 b hb
    · intro b hb
      simp only [printFc, List.append_assoc, List.mem_append, List.mem_cons, List.not_mem_nil, or_false] at hb
      rcases hb with hb | rfl | hb
      · simp [beq_false_of_nmem _ _ c32 b hb, beq_false_of_nmem _ _ c40 b hb]
      · decide
      · simp [beq_false_of_nmem _ _ h32 b hb, beq_false_of_nmem _ _ h40 b hb]
    · simp only [printFc, List.append_assoc, List.cons_append, List.nil_append, splitForeign,
        rsplitOnce_last 46 c name h46]

theorem mkLineMapping_eq (range : Option (Nat × Nat)) (orig : Option (Nat × Option Nat)) :
    mkLineMapping range (orig.map (·.1)) (orig.bind (·.2)) = lineMapping range orig := by
  rcases range with _ | ⟨s, e⟩ <;> simp [mkLineMapping, lineMapping]

theorem C05_line_method (range : Option (Nat × Nat)) (ty : Bytes) (fc : Option Bytes) (name args : Bytes)
    (orig : Option (Nat × Option Nat)) (obf : Bytes)
    (h : (Line.method range ty fc name args orig obf).WF) (tail : Bytes) (ht : TailOK tail) :
    parseRecord ((Line.method range ty fc name args orig obf).print ++ tail) =
      (.ok (Line.method range ty fc name args orig obf).toRecord, consumeNewlines tail) := by
  obtain ⟨⟨hu1, hn1⟩, hname, ⟨hu3, hn3⟩, ⟨hu4, hn4⟩, hfc, h32, hnum, h32n, h40n, h46n, h41, hrange, horig⟩ := h
  obtain ⟨fu, fn, fd, fs⟩ := fcName_facts fc name hfc hname h32n h40n h46n
  have hp : (Line.method range ty fc name args orig obf).print ++ tail =
      32 :: 32 :: 32 :: 32 :: (printRange range ++ (ty ++ 32 :: ((printFc fc ++ name) ++ 40 :: (args ++ 41 ::
        (printOrig orig ++ 32 :: 45 :: 62 :: 32 :: (obf ++ tail)))))) := by
    simp [Line.print, litArrow, litIndent]
  rw [hp]
  generalize printFc fc ++ name = q at *
  clear hp
  generalize hT : printOrig orig ++ 32 :: 45 :: 62 :: 32 :: (obf ++ tail) = T
  obtain ⟨d0, d1, d2, d3⟩ := member_dispatch (printRange range ++ (ty ++ 32 :: (q ++ 40 :: (args ++ 41 :: T))))
  rw [parseRecord_member _ d0 d1 d2]
  have e0 := parseLinePrefix_range range (ty ++ 32 :: (q ++ 40 :: (args ++ 41 :: T))) hrange
        (fun hr => noLeadNum_append ty 32 _ (hnum hr) (by decide))
  have e1 : parseUntilNoNewline (· == 32) (ty ++ 32 :: (q ++ 40 :: (args ++ 41 :: T)))
      = some (ty, 32 :: (q ++ 40 :: (args ++ 41 :: T))) :=
    pUNN_ok _ _ _ _ hu1 hn1 (beq_false_of_nmem _ _ h32) (by decide) (by decide)
  have e2 : parseUntilNoNewline (fun c => c == 32 || c == 40) (q ++ 40 :: (args ++ 41 :: T))
      = some (q, 40 :: (args ++ 41 :: T)) :=
    pUNN_ok _ _ _ _ fu fn fd (by decide) (by decide)
  have e3 : parseUntilNoNewline (· == 41) (args ++ 41 :: T) = some (args, 41 :: T) :=
    pUNN_ok _ _ _ _ hu3 hn3 (beq_false_of_nmem _ _ h41) (by decide) (by decide)
  have e4 : parseUntil isNewline (obf ++ tail) = some (obf, tail) :=
    parseUntil_ok _ _ _ hu4 hn4 ht.headSat
  simp only [parseMember, d3, e0, e1, e2, e3, stripPrefix, beq_self_eq_true, if_true]
  subst hT
  rcases orig with _ | ⟨os, _ | oe⟩
  · simp [e4, stripPrefix, litArrow, printOrig, parseColonNum, fs, Line.toRecord,
      ← mkLineMapping_eq range none]
  · obtain ⟨hos, -⟩ := horig os none rfl
    have e5 : parseUsize (natToDec os ++ 32 :: 45 :: 62 :: 32 :: (obf ++ tail)) =
        some (os, 32 :: 45 :: 62 :: 32 :: (obf ++ tail)) :=
      parseUsize_natToDec os _ hos (by intro b hb; simp at hb; subst hb; decide)
    simp [e4, e5, stripPrefix, litArrow, printOrig, parseColonNum, fs, Line.toRecord,
      ← mkLineMapping_eq range (some (os, none))]
  · obtain ⟨hos, hoe⟩ := horig os (some oe) rfl
    have hoe := hoe oe rfl
    have e5 : parseUsize (natToDec os ++ 58 :: (natToDec oe ++ 32 :: 45 :: 62 :: 32 :: (obf ++ tail))) =
        some (os, 58 :: (natToDec oe ++ 32 :: 45 :: 62 :: 32 :: (obf ++ tail))) :=
      parseUsize_natToDec os _ hos (by intro b hb; simp at hb; subst hb; decide)
    have e6 : parseUsize (natToDec oe ++ 32 :: 45 :: 62 :: 32 :: (obf ++ tail)) =
        some (oe, 32 :: 45 :: 62 :: 32 :: (obf ++ tail)) :=
      parseUsize_natToDec oe _ hoe (by intro b hb; simp at hb; subst hb; decide)
    simp [e4, e5, e6, stripPrefix, litArrow, printOrig, parseColonNum, fs, Line.toRecord,
      ← mkLineMapping_eq range (some (os, some oe))]

theorem header_dispatch (r : Bytes) :
    consumeNewlines (35 :: r) = 35 :: r ∧ startsWith (35 :: r) [35] = true ∧
    stripPrefix [35] (35 :: r) = some r := by
  simp [consumeNewlines, startsWith, stripPrefix, isNewline]

theorem sf_prefix_kv (key rest : Bytes) (h : 58 ∉ key) :
    stripPrefix litSourceFilePrefix (32 :: (key ++ 58 :: 32 :: rest)) = none := by
  rcases key with _ | ⟨k0, _ | ⟨k1, _ | ⟨k2, _ | ⟨k3, _ | ⟨k4, _ | ⟨k5, key⟩⟩⟩⟩⟩⟩ <;>
    simp [litSourceFilePrefix, stripPrefix] at h ⊢
  intro _ _ _ _ _ h5; exact absurd h5 h.2.2.2.2.2.1

theorem isNewline_cases (b : UInt8) (h : isNewline b = true) : b = 13 ∨ b = 10 := by
  simpa [isNewline] using h

theorem sf_prefix_key (key tail : Bytes) (h : 58 ∉ key) (ht : HeadSat isNewline tail) :
    stripPrefix litSourceFilePrefix (32 :: (key ++ tail)) = none := by
  rcases tail with _ | ⟨nl, t⟩
  · rcases key with _ | ⟨k0, _ | ⟨k1, _ | ⟨k2, _ | ⟨k3, _ | ⟨k4, _ | ⟨k5, key⟩⟩⟩⟩⟩⟩ <;>
      simp [litSourceFilePrefix, stripPrefix] at h ⊢
    intro _ _ _ _ _ h5; exact absurd h5 h.2.2.2.2.2.1
  · rcases isNewline_cases nl (ht nl rfl) with rfl | rfl <;>
    rcases key with _ | ⟨k0, _ | ⟨k1, _ | ⟨k2, _ | ⟨k3, _ | ⟨k4, _ | ⟨k5, key⟩⟩⟩⟩⟩⟩ <;>
      simp [litSourceFilePrefix, stripPrefix] at h ⊢ <;>
    (intro _ _ _ _ _ h5; exact absurd h5 h.2.2.2.2.2.1)

theorem C05_line_headerKV (key value : Bytes) (h : (Line.headerKV key value).WF) (tail : Bytes) (ht : TailOK tail) :
    parseRecord ((Line.headerKV key value).print ++ tail) =
      (.ok (Line.headerKV key value).toRecord, consumeNewlines tail) := by
  obtain ⟨⟨hu1, hn1⟩, ⟨hu2, hn2⟩, h58, ht1, ht2⟩ := h
  have hp : (Line.headerKV key value).print ++ tail =
      35 :: ((32 :: key) ++ 58 :: ((32 :: value) ++ tail)) := by simp [Line.print]
  rw [hp]
  obtain ⟨d0, d1, d2⟩ := header_dispatch ((32 :: key) ++ 58 :: ((32 :: value) ++ tail))
  rw [parseRecord_header _ d0 d1]
  have e0 : stripPrefix litSourceFilePrefix ((32 :: key) ++ 58 :: ((32 :: value) ++ tail)) = none :=
    sf_prefix_kv key (value ++ tail) h58
  have e1 : parseUntil (fun c => c == 58 || isNewline c) ((32 :: key) ++ 58 :: ((32 :: value) ++ tail)) =
      some (32 :: key, 58 :: ((32 :: value) ++ tail)) :=
    parseUntil_ok _ _ _ (by rw [validUtf8_cons_ascii 32 key (by decide)]; exact hu1)
      (by
        intro b hb
        simp only [List.mem_cons] at hb
        rcases hb with rfl | hb
        · decide
        · simp [beq_false_of_nmem _ _ h58 b hb, hn1 b hb])
      (HeadSat.cons _ _ _ (by decide))
  have e2 : parseUntil isNewline ((32 :: value) ++ tail) = some (32 :: value, tail) :=
    parseUntil_ok _ _ _ (by rw [validUtf8_cons_ascii 32 value (by decide)]; exact hu2)
      (by
        intro b hb
        simp only [List.mem_cons] at hb
        rcases hb with rfl | hb
        · decide
        · exact hn2 b hb)
      ht.headSat
  simp only [parseHeader, e0, e1, e2, stripPrefix, beq_self_eq_true, if_true, ht1, ht2, Line.toRecord]

theorem C05_line_headerKey (key : Bytes) (h : (Line.headerKey key).WF) (tail : Bytes) (ht : TailOK tail) :
    parseRecord ((Line.headerKey key).print ++ tail) =
      (.ok (Line.headerKey key).toRecord, consumeNewlines tail) := by
  obtain ⟨⟨hu1, hn1⟩, h58, ht1⟩ := h
  have hp : (Line.headerKey key).print ++ tail = 35 :: ((32 :: key) ++ tail) := by simp [Line.print]
  rw [hp]
  obtain ⟨d0, d1, d2⟩ := header_dispatch ((32 :: key) ++ tail)
  rw [parseRecord_header _ d0 d1]
  have e0 : stripPrefix litSourceFilePrefix ((32 :: key) ++ tail) = none :=
    sf_prefix_key key tail h58 ht.headSat
  have e1 : parseUntil (fun c => c == 58 || isNewline c) ((32 :: key) ++ tail) = some (32 :: key, tail) :=
    parseUntil_ok _ _ _ (by rw [validUtf8_cons_ascii 32 key (by decide)]; exact hu1)
      (by
        intro b hb
        simp only [List.mem_cons] at hb
        rcases hb with rfl | hb
        · decide
        · simp [beq_false_of_nmem _ _ h58 b hb, hn1 b hb])
      (by intro b hb; simp [ht.headSat b hb])
  have e2 : stripPrefix [58] tail = none := by
    apply stripPrefix_single_none
    intro hh
    have := ht.headSat 58 hh
    revert this; decide
  simp only [parseHeader, d2, e0, e1, e2, ht1, Line.toRecord]

theorem C05_line_sourceFile (value : Bytes) (h : (Line.sourceFile value).WF) (tail : Bytes) (_ht : TailOK tail) :
    parseRecord ((Line.sourceFile value).print ++ tail) =
      (.ok (Line.sourceFile value).toRecord, consumeNewlines tail) := by
  obtain ⟨⟨hu1, hn1⟩, h34⟩ := h
  have hp : (Line.sourceFile value).print ++ tail =
      35 :: (litSourceFilePrefix ++ (value ++ 34 :: 125 :: tail)) := by simp [Line.print, litQuoteBrace]
  rw [hp]
  obtain ⟨d0, d1, d2⟩ := header_dispatch (litSourceFilePrefix ++ (value ++ 34 :: 125 :: tail))
  rw [parseRecord_header _ d0 d1]
  have e1 : parseUntilNoNewline (· == 34) (value ++ 34 :: 125 :: tail) = some (value, 34 :: 125 :: tail) :=
    pUNN_ok _ _ _ _ hu1 hn1 (beq_false_of_nmem _ _ h34) (by decide) (by decide)
  simp only [parseHeader, stripPrefix_append_rt, e1, litQuoteBrace, stripPrefix, beq_self_eq_true, if_true,
    Line.toRecord]

/-! ### iterator / error-family helpers -/

theorem tailOK_of_newlines (nls : Bytes) (hn : ∀ b ∈ nls, isNewline b = true) : TailOK nls := by
  cases nls with
  | nil => exact Or.inl rfl
  | cons b r => exact Or.inr ⟨b, r, rfl, hn b (by simp)⟩

theorem tailOK_append (nls r : Bytes) (h0 : nls ≠ []) (hn : ∀ b ∈ nls, isNewline b = true) :
    TailOK (nls ++ r) := by
  cases nls with
  | nil => exact absurd rfl h0
  | cons b t => exact Or.inr ⟨b, t ++ r, rfl, hn b (by simp)⟩

/-- a printed line is non-empty and does not start with a line terminator -/
theorem print_head (a : Line) (h : a.WF) : ∃ b r, a.print = b :: r ∧ isNewline b = false := by
  cases a with
  | cls orig obf =>
    obtain ⟨⟨_, hn1⟩, _⟩ := h
    cases orig with
    | nil => exact ⟨32, _, by simp [Line.print, litArrow]; rfl, by decide⟩
    | cons b o => exact ⟨b, _, by simp [Line.print]; rfl, hn1 b (by simp)⟩
  | field ty name obf => exact ⟨32, _, by simp [Line.print, litIndent]; rfl, by decide⟩
  | method range ty fc name args orig obf => exact ⟨32, _, by simp [Line.print, litIndent]; rfl, by decide⟩
  | headerKV key value => exact ⟨35, _, by simp [Line.print]; rfl, by decide⟩
  | headerKey key => exact ⟨35, _, by simp [Line.print]; rfl, by decide⟩
  | sourceFile value => exact ⟨35, _, by simp [Line.print]; rfl, by decide⟩

theorem consumeNewlines_print (a : Line) (h : a.WF) (t : Bytes) :
    consumeNewlines (a.print ++ t) = a.print ++ t := by
  obtain ⟨b, r, e, hb⟩ := print_head a h
  rw [e, List.cons_append, consumeNewlines_cons _ _ hb]

theorem recordsFuel_nil (n : Nat) : recordsFuel n [] = [] := by
  cases n <;> simp [recordsFuel]

theorem parseRecord_class_err (bad tail : Bytes) (hb : ∀ b ∈ bad, isNewline b = false) (ht : TailOK tail)
    (hd : consumeNewlines (bad ++ tail) = bad ++ tail ∧ startsWith (bad ++ tail) [35] = false ∧
      startsWith (bad ++ tail) litIndent = false)
    (hpc : parseClass (bad ++ tail) = none) :
    parseRecord (bad ++ tail) = (.err (bad ++ tail.take 1), tail.drop 1) := by
  rw [parseRecord_class _ hd.1 hd.2.1 hd.2.2, hpc, splitLine_bad bad tail hb ht.headSat]

theorem parseRecord_member_err (bad tail : Bytes) (hb : ∀ b ∈ bad, isNewline b = false) (ht : TailOK tail)
    (hd : consumeNewlines (bad ++ tail) = bad ++ tail ∧ startsWith (bad ++ tail) [35] = false ∧
      startsWith (bad ++ tail) litIndent = true)
    (hpc : parseMember (bad ++ tail) = none) :
    parseRecord (bad ++ tail) = (.err (bad ++ tail.take 1), tail.drop 1) := by
  rw [parseRecord_member _ hd.1 hd.2.1 hd.2.2, hpc, splitLine_bad bad tail hb ht.headSat]

/-- without the UTF-8 hypothesis: error, or the component and its delimiter -/
theorem pUNN_delim (p : UInt8 → Bool) (a : Bytes) (d : UInt8) (r : Bytes)
    (hn : ∀ b ∈ a, isNewline b = false) (ha : ∀ b ∈ a, p b = false)
    (hd : p d = true) (hdn : isNewline d = false) (x : Bytes × Bytes)
    (h : parseUntilNoNewline p (a ++ d :: r) = some x) : x = (a, d :: r) := by
  by_cases hu : validUtf8 a = true
  · rw [pUNN_ok p a d r hu hn ha hd hdn] at h
    cases h; rfl
  · exfalso
    unfold parseUntilNoNewline parseUntil at h
    rw [spanUntil_append _ a (d :: r) (by intro b hb; simp [hn b hb, ha b hb])
      (HeadSat.cons _ _ _ (by simp [hd]))] at h
    simp [hu] at h

theorem all_append {P : UInt8 → Prop} {a c : Bytes} (ha : ∀ b ∈ a, P b) (hc : ∀ b ∈ c, P b) :
    ∀ b ∈ a ++ c, P b := by
  intro b hb
  rcases List.mem_append.1 hb with h | h
  · exact ha b h
  · exact hc b h

theorem stripPrefix_arrowTail (obf tail : Bytes) (h : stripPrefix [45, 62, 32] obf = none)
    (ht : HeadSat isNewline tail) : stripPrefix [45, 62, 32] (obf ++ tail) = none := by
  rcases tail with _ | ⟨nl, t⟩
  · simpa using h
  · rcases isNewline_cases nl (ht nl rfl) with rfl | rfl <;>
    rcases obf with _ | ⟨o0, _ | ⟨o1, _ | ⟨o2, obf⟩⟩⟩ <;>
      simp_all [stripPrefix]

theorem str_of_decide (s : Bytes) (h : validUtf8 s = true ∧ ∀ b ∈ s, isNewline b = false) : Str s := h

end PG
