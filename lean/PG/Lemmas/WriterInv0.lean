import PG.Spec.CacheView
import PG.Lemmas.Serial
import PG.Lemmas.Sorted
import PG.Lemmas.StrTab
namespace PG
namespace WI

/-! ### string table: order, weak invariant -/

structure Le (T T' : StrTab) : Prop where
  len : T.bytes.length ≤ T'.bytes.length
  idx : ∀ p ∈ T.index, p ∈ T'.index

theorem Le.refl (T : StrTab) : Le T T := ⟨Nat.le_refl _, fun _ h => h⟩
theorem Le.trans {A B C : StrTab} (h1 : Le A B) (h2 : Le B C) : Le A C :=
  ⟨Nat.le_trans h1.len h2.len, fun p hp => h2.idx p (h1.idx p hp)⟩

theorem insert_le (T : StrTab) (s : Bytes) : Le T (T.insert s).1 := by
  unfold StrTab.insert
  split
  · exact Le.refl T
  · split
    · exact Le.refl T
    · exact ⟨by simp, fun p hp => List.mem_cons_of_mem _ hp⟩

structure TabOK (T : StrTab) : Prop where
  inv : T.Inv
  len : ∀ s off, (s, off) ∈ T.index → s.length ≤ T.bytes.length
  /-- where an indexed string sits in the bytes -/
  shape : ∀ s off, (s, off) ∈ T.index → ∃ pre post,
    T.bytes = pre ++ (lebWrite s.length ++ s) ++ post ∧ pre.length = off ∧
    validUtf8 s = true ∧ s.length < usizeBound

theorem tabOK_empty : TabOK StrTab.empty :=
  ⟨StrTab.empty_inv, by simp [StrTab.empty], by simp [StrTab.empty]⟩

theorem insert_len_le (T : StrTab) (h : TabOK T) (s : Bytes) :
    s.length ≤ (T.insert s).1.bytes.length ∨ s = [] := by
  unfold StrTab.insert
  by_cases hse : s = []
  · exact Or.inr hse
  · left
    have hne : s.isEmpty = false := by simpa using hse
    simp only [hne, Bool.false_eq_true, if_false]
    cases hlk : T.index.lookup s with
    | some off => exact h.len s off ((h.inv.lookup_iff s off).1 hlk)
    | none => simp only [List.length_append]; omega

theorem insert_ok (T : StrTab) (h : TabOK T) (s : Bytes) (hs : validUtf8 s = true)
    (hb : (T.insert s).1.bytes.length < usizeBound) :
    TabOK (T.insert s).1 ∧ (s ≠ [] → (s, (T.insert s).2) ∈ (T.insert s).1.index) := by
  have hl : s.length < usizeBound := by
    rcases insert_len_le T h s with h1 | h1
    · omega
    · subst h1; simp [usizeBound]
  obtain ⟨h1, _, _, _, h5⟩ := StrTab.insert_spec T h.inv s hs hl
  refine ⟨⟨h1, ?_, ?_⟩, h5⟩
  · intro s' off' hm
    revert hm
    unfold StrTab.insert
    by_cases hse : s = []
    · subst hse; simp only [List.isEmpty_nil, if_true]; intro hm; exact h.len s' off' hm
    · have hne : s.isEmpty = false := by simpa using hse
      simp only [hne, Bool.false_eq_true, if_false]
      cases hlk : T.index.lookup s with
      | some off => intro hm; exact h.len s' off' hm
      | none =>
        simp only [List.mem_cons, Prod.mk.injEq, List.length_append]
        intro hm
        rcases hm with ⟨rfl, _⟩ | hm
        · omega
        · have := h.len s' off' hm; omega
  · intro s' off' hm
    revert hm
    unfold StrTab.insert
    by_cases hse : s = []
    · subst hse; simp only [List.isEmpty_nil, if_true]; intro hm; exact h.shape s' off' hm
    · have hne : s.isEmpty = false := by simpa using hse
      simp only [hne, Bool.false_eq_true, if_false]
      cases hlk : T.index.lookup s with
      | some off => intro hm; exact h.shape s' off' hm
      | none =>
        simp only [List.mem_cons, Prod.mk.injEq]
        intro hm
        rcases hm with ⟨rfl, rfl⟩ | hm
        · exact ⟨T.bytes, [], by simp, rfl, hs, hl⟩
        · obtain ⟨pre, post, e1, e2, e3, e4⟩ := h.shape s' off' hm
          exact ⟨pre, post ++ (lebWrite s.length ++ s), by rw [e1]; simp, e2, e3, e4⟩

/-- the `u32` offset the table hands out for `s` -/
def off (T : StrTab) (s : Bytes) : Nat := (T.insert32 s).2

theorem off_nil (T : StrTab) : off T [] = u32Max := by
  simp [off, StrTab.insert32, StrTab.insert]; decide

theorem off_of_mem (T : StrTab) (hi : T.Inv) (s : Bytes) (o : Nat) (h : (s, o) ∈ T.index) :
    off T s = asU32 o := by
  have hne : s ≠ [] := (hi.reads s o h).1
  have hlk := (hi.lookup_iff s o).2 h
  have hne' : s.isEmpty = false := by simpa using hne
  simp [off, StrTab.insert32, StrTab.insert, hne', hlk]

/-- the offset handed out at insertion time is the one any later table reports -/
theorem off_stable (T T' : StrTab) (h : TabOK T) (s : Bytes) (hs : validUtf8 s = true)
    (hb : (T.insert s).1.bytes.length < usizeBound) (hi' : T'.Inv)
    (hsub : ∀ p ∈ (T.insert s).1.index, p ∈ T'.index) : off T s = off T' s := by
  by_cases hse : s = []
  · subst hse; rw [off_nil, off_nil]
  · have hm := (insert_ok T h s hs hb).2 hse
    rw [off_of_mem T' hi' s _ (hsub _ hm)]
    rfl


/-! ### the step, equationally -/

def fcTab (T : StrTab) : Option Bytes → StrTab
  | some c => (T.insert c).1
  | none => T

def optOffAt (T : StrTab) : Option Bytes → Nat
  | some c => off T c
  | none => u32Max

def stepTab (T : StrTab) : Record → StrTab
  | .header k v => if k == litSourceFile then fcTab T v else T
  | .cls o b => ((T.insert b).1.insert o).1
  | .field .. => T
  | .method _ o b a fc _ => ((fcTab ((T.insert b).1.insert o).1 fc).insert a).1

def stepMember (T : StrTab) (fileOff : Nat) (o b a : Bytes) (fc : Option Bytes)
    (lm : Option LineMapping) : RawMember :=
  { obfOff := off T b, startline := (rawLines lm).1, endline := (rawLines lm).2.1,
    origClassOff := optOffAt ((T.insert b).1.insert o).1 fc,
    origFileOff := fileOff, origNameOff := off (T.insert b).1 o,
    origStartline := (rawLines lm).2.2.1, origEndline := (rawLines lm).2.2.2,
    paramsOff := off (fcTab ((T.insert b).1.insert o).1 fc) a }

def addMember (c : ClassInProgress) (b : Bytes) (m : RawMember) : ClassInProgress :=
  { c with members := sortedUpsert cmpBytes b (fun o => o.getD [] ++ [m]) c.members,
           cls := { c.cls with membersLen := c.cls.membersLen + 1 } }

def addBp (c : ClassInProgress) (o b a : Bytes) (m : RawMember) : ClassInProgress :=
  { c with unique := (b, a, o) :: c.unique,
           byParams := sortedUpsert cmpPair (b, a) (fun o => o.getD [] ++ [m]) c.byParams,
           cls := { c.cls with bpLen := c.cls.bpLen + 1 } }

theorem writeStep_method (st : WState) (ty o b a : Bytes) (fc : Option Bytes)
    (lm : Option LineMapping) (next : Option Record) :
    writeStep st (.method ty o b a fc lm) next =
      { tab := stepTab st.tab (.method ty o b a fc lm), classes := st.classes,
        cur :=
          if sameRangeAsNext lm next = true ∨ st.cur.unique.contains (b, a, o) = true then
            addMember st.cur b (stepMember st.tab st.cur.cls.fileOff o b a fc lm)
          else addBp (addMember st.cur b (stepMember st.tab st.cur.cls.fileOff o b a fc lm)) o b a
                 (stepMember st.tab st.cur.cls.fileOff o b a fc lm) } := by
  cases fc <;>
  · simp only [writeStep, StrTab.insert32, stepTab, fcTab, stepMember, optOffAt, off, addMember, addBp]
    by_cases h1 : sameRangeAsNext lm next = true
    · simp only [h1, if_true, true_or]
    · by_cases h2 : st.cur.unique.contains (b, a, o) = true
      · simp only [h1, h2, if_true, if_false, or_true, Bool.false_eq_true]
      · simp only [h1, h2, if_false, or_self, Bool.false_eq_true]

theorem writeStep_tab (st : WState) (r : Record) (next : Option Record) :
    (writeStep st r next).tab = stepTab st.tab r := by
  cases r with
  | header k v =>
    simp only [writeStep, stepTab]
    split
    · cases v <;> rfl
    · rfl
  | cls o b => rfl
  | field _ _ _ => rfl
  | method ty o b a fc lm => rw [writeStep_method]

theorem writeStep_header (st : WState) (k : Bytes) (v : Option Bytes) (next : Option Record) :
    writeStep st (.header k v) next =
      if k == litSourceFile then
        { st with tab := fcTab st.tab v,
                  cur := { st.cur with cls := { st.cur.cls with fileOff := optOffAt st.tab v } } }
      else st := by
  simp only [writeStep]
  split
  · cases v <;> rfl
  · rfl

theorem writeStep_cls (st : WState) (o b : Bytes) (next : Option Record) :
    writeStep st (.cls o b) next =
      { tab := ((st.tab.insert b).1.insert o).1, classes := flushCip st.classes st.cur,
        cur := { ClassInProgress.empty with
                  name := b,
                  cls := { RawClass.default with origOff := off (st.tab.insert b).1 o,
                                                 obfOff := off st.tab b } } } := rfl


/-! ### the step keeps the table well-formed; offsets are stable -/

def InTab (T : StrTab) (s : Bytes) : Prop := ∃ o, (s, o) ∈ T.index

def OptInTab (T : StrTab) : Option Bytes → Prop
  | none => True
  | some s => InTab T s

theorem InTab.mono {T T' : StrTab} {s : Bytes} (h : InTab T s) (hle : Le T T') : InTab T' s := by
  obtain ⟨o, ho⟩ := h; exact ⟨o, hle.idx _ ho⟩

theorem OptInTab.mono {T T' : StrTab} {s : Option Bytes} (h : OptInTab T s) (hle : Le T T') :
    OptInTab T' s := by
  cases s with
  | none => trivial
  | some x => exact InTab.mono h hle

theorem insert_pack (T T' : StrTab) (h : TabOK T) (s : Bytes) (hs : validUtf8 s = true)
    (hle : Le (T.insert s).1 T') (hb : T'.bytes.length < usizeBound) (hi' : T'.Inv) :
    TabOK (T.insert s).1 ∧ off T s = off T' s ∧ (s ≠ [] → InTab T' s) := by
  have hb1 : (T.insert s).1.bytes.length < usizeBound := Nat.lt_of_le_of_lt hle.len hb
  obtain ⟨h1, h2⟩ := insert_ok T h s hs hb1
  exact ⟨h1, off_stable T T' h s hs hb1 hi' hle.idx, fun hne => ⟨_, hle.idx _ (h2 hne)⟩⟩

theorem fcTab_le (T : StrTab) (fc : Option Bytes) : Le T (fcTab T fc) := by
  cases fc with
  | none => exact Le.refl T
  | some c => exact insert_le T c

theorem fcTab_pack (T T' : StrTab) (h : TabOK T) (fc : Option Bytes)
    (hs : ∀ x, fc = some x → x ≠ [] ∧ validUtf8 x = true)
    (hle : Le (fcTab T fc) T') (hb : T'.bytes.length < usizeBound) (hi' : T'.Inv) :
    TabOK (fcTab T fc) ∧ optOffAt T fc = optOffAt T' fc ∧ OptInTab T' fc := by
  cases fc with
  | none => exact ⟨h, rfl, trivial⟩
  | some c =>
    obtain ⟨h1, h2⟩ := hs c rfl
    obtain ⟨g1, g2, g3⟩ := insert_pack T T' h c h2 hle hb hi'
    exact ⟨g1, g2, g3 h1⟩

theorem stepTab_le (T : StrTab) (r : Record) : Le T (stepTab T r) := by
  cases r with
  | header k v =>
    simp only [stepTab]
    split
    · exact fcTab_le T v
    · exact Le.refl T
  | cls o b => exact (insert_le T b).trans (insert_le _ o)
  | field _ _ _ => exact Le.refl T
  | method ty o b a fc lm =>
    exact ((insert_le T b).trans (insert_le _ o)).trans ((fcTab_le _ fc).trans (insert_le _ a))

theorem writeGo_le (st : WState) (recs : List Record) : Le st.tab (writeGo st recs).tab := by
  induction recs generalizing st with
  | nil => exact Le.refl _
  | cons r rest ih =>
    simp only [writeGo]
    refine Le.trans ?_ (ih _)
    rw [writeStep_tab]
    exact stepTab_le _ _

/-- the raw member the final table determines -/
def rawMem (T : StrTab) (fileOff : Nat) (o b a : Bytes) (fc : Option Bytes)
    (lm : Option LineMapping) : RawMember :=
  { obfOff := off T b, startline := (rawLines lm).1, endline := (rawLines lm).2.1,
    origClassOff := optOffAt T fc, origFileOff := fileOff, origNameOff := off T o,
    origStartline := (rawLines lm).2.2.1, origEndline := (rawLines lm).2.2.2,
    paramsOff := off T a }

theorem step_method_pack (T T' : StrTab) (h : TabOK T) (ty o b a : Bytes) (fc : Option Bytes)
    (lm : Option LineMapping) (hr : ReprRec (.method ty o b a fc lm))
    (hle : Le (stepTab T (.method ty o b a fc lm)) T') (hb : T'.bytes.length < usizeBound)
    (hi' : T'.Inv) (fileOff : Nat) :
    TabOK (stepTab T (.method ty o b a fc lm)) ∧
    stepMember T fileOff o b a fc lm = rawMem T' fileOff o b a fc lm ∧
    InTab T' b ∧ InTab T' o ∧ OptInTab T' fc ∧ (a ≠ [] → InTab T' a) := by
  obtain ⟨ho, hbn, vo, vb, va, hfc, _⟩ := hr
  simp only [stepTab] at hle ⊢
  have l4 := insert_le (fcTab ((T.insert b).1.insert o).1 fc) a
  have l3 := fcTab_le ((T.insert b).1.insert o).1 fc
  have l2 := insert_le (T.insert b).1 o
  obtain ⟨k1, e1, i1⟩ := insert_pack T T' h b vb (l2.trans (l3.trans (l4.trans hle))) hb hi'
  obtain ⟨k2, e2, i2⟩ := insert_pack _ T' k1 o vo (l3.trans (l4.trans hle)) hb hi'
  obtain ⟨k3, e3, i3⟩ := fcTab_pack _ T' k2 fc hfc (l4.trans hle) hb hi'
  obtain ⟨k4, e4, i4⟩ := insert_pack _ T' k3 a va hle hb hi'
  refine ⟨k4, ?_, i1 hbn, i2 ho, i3, i4⟩
  simp only [stepMember, rawMem, e1, e2, e3, e4]

theorem step_cls_pack (T T' : StrTab) (h : TabOK T) (o b : Bytes) (hr : ReprRec (.cls o b))
    (hle : Le (stepTab T (.cls o b)) T') (hb : T'.bytes.length < usizeBound) (hi' : T'.Inv) :
    TabOK (stepTab T (.cls o b)) ∧ off T b = off T' b ∧ off (T.insert b).1 o = off T' o ∧
    InTab T' b ∧ InTab T' o := by
  obtain ⟨ho, hbn, vo, vb⟩ := hr
  simp only [stepTab] at hle ⊢
  have l2 := insert_le (T.insert b).1 o
  obtain ⟨k1, e1, i1⟩ := insert_pack T T' h b vb (l2.trans hle) hb hi'
  obtain ⟨k2, e2, i2⟩ := insert_pack _ T' k1 o vo hle hb hi'
  exact ⟨k2, e1, e2, i1 hbn, i2 ho⟩

theorem step_header_pack (T T' : StrTab) (h : TabOK T) (k : Bytes) (v : Option Bytes)
    (hr : ReprRec (.header k v)) (hk : (k == litSourceFile) = true)
    (hle : Le (stepTab T (.header k v)) T') (hb : T'.bytes.length < usizeBound) (hi' : T'.Inv) :
    TabOK (stepTab T (.header k v)) ∧ optOffAt T v = optOffAt T' v ∧ OptInTab T' v := by
  simp only [stepTab, hk, if_true] at hle ⊢
  exact fcTab_pack T T' h v (hr (by simpa using hk)) hle hb hi'

theorem fcTab_ok (T : StrTab) (h : TabOK T) (fc : Option Bytes)
    (hs : ∀ x, fc = some x → x ≠ [] ∧ validUtf8 x = true)
    (hb : (fcTab T fc).bytes.length < usizeBound) : TabOK (fcTab T fc) := by
  cases fc with
  | none => exact h
  | some c => exact (insert_ok T h c (hs c rfl).2 hb).1

theorem stepTab_ok (T : StrTab) (h : TabOK T) (r : Record) (hr : ReprRec r)
    (hb : (stepTab T r).bytes.length < usizeBound) : TabOK (stepTab T r) := by
  cases r with
  | header k v =>
    by_cases hk : (k == litSourceFile) = true
    · simp only [stepTab, hk, if_true] at hb ⊢
      exact fcTab_ok T h v (hr (by simpa using hk)) hb
    · simp only [stepTab, hk]; exact h
  | cls o b =>
    obtain ⟨ho, hbn, vo, vb⟩ := hr
    simp only [stepTab] at hb ⊢
    have l2 := insert_le (T.insert b).1 o
    have k1 := (insert_ok T h b vb (Nat.lt_of_le_of_lt l2.len hb)).1
    exact (insert_ok _ k1 o vo hb).1
  | field _ _ _ => exact h
  | method ty o b a fc lm =>
    obtain ⟨ho, hbn, vo, vb, va, hfc, _⟩ := hr
    simp only [stepTab] at hb ⊢
    have l4 := insert_le (fcTab ((T.insert b).1.insert o).1 fc) a
    have l3 := fcTab_le ((T.insert b).1.insert o).1 fc
    have l2 := insert_le (T.insert b).1 o
    have k1 := (insert_ok T h b vb (Nat.lt_of_le_of_lt (l2.trans (l3.trans l4)).len hb)).1
    have k2 := (insert_ok _ k1 o vo (Nat.lt_of_le_of_lt (l3.trans l4).len hb)).1
    have k3 := fcTab_ok _ k2 fc hfc (Nat.lt_of_le_of_lt l4.len hb)
    exact (insert_ok _ k3 a va hb).1

theorem writeGo_ok (st : WState) (recs : List Record) (h : TabOK st.tab) (hr : ReprR recs)
    (hb : (writeGo st recs).tab.bytes.length < usizeBound) : TabOK (writeGo st recs).tab := by
  induction recs generalizing st with
  | nil => exact h
  | cons r rest ih =>
    simp only [writeGo] at hb ⊢
    refine ih _ ?_ (fun x hx => hr x (List.mem_cons_of_mem _ hx)) hb
    rw [writeStep_tab]
    apply stepTab_ok _ h _ (hr r (List.mem_cons_self ..))
    have := (writeGo_le (writeStep st r rest.head?) rest).len
    rw [writeStep_tab] at this
    omega


/-! ### part A: counters and field bounds -/

def cipMembers (c : ClassInProgress) : List RawMember := (c.members.map (·.2)).flatten
def cipBps (c : ClassInProgress) : List RawMember := (c.byParams.map (·.2)).flatten

theorem upsert_mem {κ β : Type} (cmp : κ → κ → Ordering) (k : κ) (f : Option β → β)
    (l : List (κ × β)) (p : κ × β) (h : p ∈ sortedUpsert cmp k f l) :
    p ∈ l ∨ p = (k, f none) ∨ ∃ v, (p.1, v) ∈ l ∧ p.2 = f (some v) := by
  induction l with
  | nil => simp [sortedUpsert] at h; exact Or.inr (Or.inl h)
  | cons q l ih =>
    obtain ⟨a, b⟩ := q
    simp only [sortedUpsert] at h
    split at h
    · rcases List.mem_cons.1 h with h | h
      · exact Or.inr (Or.inl h)
      · exact Or.inl h
    · rcases List.mem_cons.1 h with h | h
      · subst h; exact Or.inr (Or.inr ⟨b, by simp, rfl⟩)
      · exact Or.inl (List.mem_cons_of_mem _ h)
    · rcases List.mem_cons.1 h with h | h
      · subst h; exact Or.inl (by simp)
      · rcases ih h with h | h | ⟨v, h1, h2⟩
        · exact Or.inl (List.mem_cons_of_mem _ h)
        · exact Or.inr (Or.inl h)
        · exact Or.inr (Or.inr ⟨v, List.mem_cons_of_mem _ h1, h2⟩)

theorem upsert_flat_len {κ α : Type} (cmp : κ → κ → Ordering) (k : κ) (m : α)
    (l : List (κ × List α)) :
    ((sortedUpsert cmp k (fun o => o.getD [] ++ [m]) l).map (·.2)).flatten.length =
      ((l.map (·.2)).flatten).length + 1 := by
  induction l with
  | nil => simp [sortedUpsert]
  | cons q l ih =>
    obtain ⟨a, b⟩ := q
    simp only [sortedUpsert]
    split
    · simp
    · simp; omega
    · simp only [List.map_cons, List.flatten_cons, List.length_append, ih]; omega

theorem upsert_flat_mem {κ α : Type} (cmp : κ → κ → Ordering) (k : κ) (m : α)
    (l : List (κ × List α)) (x : α)
    (h : x ∈ ((sortedUpsert cmp k (fun o => o.getD [] ++ [m]) l).map (·.2)).flatten) :
    x = m ∨ x ∈ (l.map (·.2)).flatten := by
  induction l with
  | nil => simp [sortedUpsert] at h; exact Or.inl h
  | cons q l ih =>
    obtain ⟨a, b⟩ := q
    simp only [sortedUpsert] at h
    split at h
    · simp only [List.map_cons, List.flatten_cons, List.mem_append, Option.getD_none, List.nil_append,
        List.mem_singleton] at h ⊢
      rcases h with h | h | h
      · exact Or.inl h
      · exact Or.inr (Or.inl h)
      · exact Or.inr (Or.inr h)
    · simp only [List.map_cons, List.flatten_cons, List.mem_append, Option.getD_some,
        List.mem_singleton] at h ⊢
      rcases h with (h | h) | h
      · exact Or.inr (Or.inl h)
      · exact Or.inl h
      · exact Or.inr (Or.inr h)
    · simp only [List.map_cons, List.flatten_cons, List.mem_append] at h ⊢
      rcases h with h | h
      · exact Or.inr (Or.inl h)
      · rcases ih h with h | h
        · exact Or.inl h
        · exact Or.inr (Or.inr h)

def FieldsOK (m : RawMember) : Prop := ∀ v ∈ m.fields, v < u32Bound

structure CipOK (c : ClassInProgress) : Prop where
  ml : c.cls.membersLen = (cipMembers c).length
  bl : c.cls.bpLen = (cipBps c).length
  o1 : c.cls.obfOff < u32Bound
  o2 : c.cls.origOff < u32Bound
  o3 : c.cls.fileOff < u32Bound
  mf : ∀ m ∈ cipMembers c, FieldsOK m
  bf : ∀ m ∈ cipBps c, FieldsOK m

theorem asU32_lt (n : Nat) : asU32 n < u32Bound := Nat.mod_lt _ (by decide)
theorem off_lt (T : StrTab) (s : Bytes) : off T s < u32Bound := asU32_lt _
theorem optOffAt_lt (T : StrTab) (s : Option Bytes) : optOffAt T s < u32Bound := by
  cases s with
  | none => show u32Max < u32Bound; decide
  | some x => exact off_lt T x

theorem rawLines_lt (lm : Option LineMapping) :
    (rawLines lm).1 < u32Bound ∧ (rawLines lm).2.1 < u32Bound ∧ (rawLines lm).2.2.1 < u32Bound ∧
    (rawLines lm).2.2.2 < u32Bound := by
  have hm : u32Max < u32Bound := by decide
  have h0 : 0 < u32Bound := by decide
  unfold rawLines
  cases lm with
  | none => exact ⟨h0, h0, h0, hm⟩
  | some l =>
    simp only
    cases l.originalStartline with
    | none => exact ⟨asU32_lt _, asU32_lt _, asU32_lt _, asU32_lt _⟩
    | some os =>
      refine ⟨asU32_lt _, asU32_lt _, asU32_lt _, ?_⟩
      cases l.originalEndline with
      | none => exact hm
      | some oe => exact asU32_lt _

theorem stepMember_ok (T : StrTab) (fileOff : Nat) (hf : fileOff < u32Bound) (o b a : Bytes)
    (fc : Option Bytes) (lm : Option LineMapping) : FieldsOK (stepMember T fileOff o b a fc lm) := by
  obtain ⟨r1, r2, r3, r4⟩ := rawLines_lt lm
  intro v hv
  simp only [stepMember, RawMember.fields, List.mem_cons, List.not_mem_nil, or_false] at hv
  rcases hv with rfl | rfl | rfl | rfl | rfl | rfl | rfl | rfl | rfl
  · exact off_lt _ _
  · exact r1
  · exact r2
  · exact optOffAt_lt _ _
  · exact hf
  · exact off_lt _ _
  · exact r3
  · exact r4
  · exact off_lt _ _

theorem cipOK_empty : CipOK ClassInProgress.empty := by
  constructor <;> simp [ClassInProgress.empty, cipMembers, cipBps, RawClass.default] <;> decide

theorem addMember_ok (c : ClassInProgress) (h : CipOK c) (b : Bytes) (m : RawMember)
    (hm : FieldsOK m) : CipOK (addMember c b m) := by
  refine ⟨?_, h.bl, h.o1, h.o2, h.o3, ?_, h.bf⟩
  · simp only [addMember, cipMembers, upsert_flat_len]
    have := h.ml; simp only [cipMembers] at this; omega
  · intro x hx
    rcases upsert_flat_mem _ _ _ _ _ hx with rfl | hx
    · exact hm
    · exact h.mf x hx

theorem addBp_ok (c : ClassInProgress) (h : CipOK c) (o b a : Bytes) (m : RawMember)
    (hm : FieldsOK m) : CipOK (addBp c o b a m) := by
  refine ⟨h.ml, ?_, h.o1, h.o2, h.o3, h.mf, ?_⟩
  · simp only [addBp, cipBps, upsert_flat_len]
    have := h.bl; simp only [cipBps] at this; omega
  · intro x hx
    rcases upsert_flat_mem _ _ _ _ _ hx with rfl | hx
    · exact hm
    · exact h.bf x hx

structure WOK (st : WState) : Prop where
  cur : CipOK st.cur
  cls : ∀ p ∈ st.classes, CipOK p.2

theorem flushCip_ok (classes : List (Bytes × ClassInProgress)) (c : ClassInProgress)
    (h1 : ∀ p ∈ classes, CipOK p.2) (h2 : CipOK c) : ∀ p ∈ flushCip classes c, CipOK p.2 := by
  unfold flushCip
  split
  · exact h1
  · intro p hp
    rcases upsert_mem _ _ _ _ _ hp with h | h | ⟨v, _, h⟩
    · exact h1 p h
    · rw [h]; exact h2
    · rw [h]; exact h2

theorem writeStep_wok (st : WState) (h : WOK st) (r : Record) (next : Option Record) :
    WOK (writeStep st r next) := by
  cases r with
  | header k v =>
    rw [writeStep_header]
    split
    · exact ⟨⟨h.cur.ml, h.cur.bl, h.cur.o1, h.cur.o2, optOffAt_lt _ _, h.cur.mf, h.cur.bf⟩, h.cls⟩
    · exact h
  | cls o b =>
    rw [writeStep_cls]
    refine ⟨?_, flushCip_ok _ _ h.cls h.cur⟩
    refine ⟨rfl, rfl, off_lt _ _, off_lt _ _, (by show u32Max < u32Bound; decide), ?_, ?_⟩ <;>
      simp [cipMembers, cipBps, ClassInProgress.empty]
  | field _ _ _ => exact h
  | method ty o b a fc lm =>
    rw [writeStep_method]
    have hm := stepMember_ok st.tab st.cur.cls.fileOff h.cur.o3 o b a fc lm
    refine ⟨?_, h.cls⟩
    simp only
    split
    · exact addMember_ok _ h.cur _ _ hm
    · exact addBp_ok _ (addMember_ok _ h.cur _ _ hm) _ _ _ _ hm

theorem writeGo_wok (st : WState) (h : WOK st) (recs : List Record) : WOK (writeGo st recs) := by
  induction recs generalizing st with
  | nil => exact h
  | cons r rest ih => exact ih _ (writeStep_wok st h r _)

theorem init_wok : WOK WState.init := ⟨cipOK_empty, by simp [WState.init]⟩


/-! ### `assemble`, closed form -/

def asmCls : List ClassInProgress → Nat → Nat → List RawClass
  | [], _, _ => []
  | c :: rest, mo, bo =>
    { c.cls with membersOff := asU32 mo, bpOff := asU32 bo } ::
      asmCls rest (mo + (cipMembers c).length) (bo + (cipBps c).length)

theorem assemble_eq (l : List ClassInProgress) (cs : List RawClass) (ms bps : List RawMember) :
    assemble l cs ms bps =
      (cs ++ asmCls l ms.length bps.length, ms ++ (l.map cipMembers).flatten,
       bps ++ (l.map cipBps).flatten) := by
  induction l generalizing cs ms bps with
  | nil => simp [assemble, asmCls]
  | cons c rest ih =>
    simp only [assemble, ih, asmCls, List.length_append, List.map_cons, List.flatten_cons,
      List.append_assoc, List.singleton_append, cipMembers, cipBps]

def finClasses (recs : List Record) : List (Bytes × ClassInProgress) :=
  flushCip (writeGo WState.init recs).classes (writeGo WState.init recs).cur

theorem build_eq (recs : List Record) :
    Tables.build recs =
      ⟨asmCls ((finClasses recs).map (·.2)) 0 0, (((finClasses recs).map (·.2)).map cipMembers).flatten,
       (((finClasses recs).map (·.2)).map cipBps).flatten, (writeGo WState.init recs).tab.bytes⟩ := by
  simp only [Tables.build, assemble_eq, finClasses, List.nil_append, List.length_nil]

theorem finClasses_ok (recs : List Record) : ∀ p ∈ finClasses recs, CipOK p.2 := by
  have h := writeGo_wok _ init_wok recs
  exact flushCip_ok _ _ h.cls h.cur

theorem length_le_flatten {α β : Type} (f : α → List β) (l : List α) (c : α) (h : c ∈ l) :
    (f c).length ≤ ((l.map f).flatten).length := by
  induction l with
  | nil => cases h
  | cons a l ih =>
    simp only [List.map_cons, List.flatten_cons, List.length_append]
    rcases List.mem_cons.1 h with rfl | h
    · omega
    · have := ih h; omega

theorem asmCls_fields (l : List ClassInProgress) (mo bo : Nat) (hl : ∀ c ∈ l, CipOK c)
    (hm : ((l.map cipMembers).flatten).length < u32Bound)
    (hb : ((l.map cipBps).flatten).length < u32Bound) :
    ∀ k ∈ asmCls l mo bo, ∀ v ∈ k.fields, v < u32Bound := by
  induction l generalizing mo bo with
  | nil => simp [asmCls]
  | cons c rest ih =>
    intro k hk
    simp only [asmCls, List.mem_cons] at hk
    simp only [List.map_cons, List.flatten_cons, List.length_append] at hm hb
    rcases hk with rfl | hk
    · have hc := hl c (List.mem_cons_self ..)
      intro v hv
      simp only [RawClass.fields, List.mem_cons, List.not_mem_nil, or_false] at hv
      rcases hv with rfl | rfl | rfl | rfl | rfl | rfl | rfl
      · exact hc.o1
      · exact hc.o2
      · exact hc.o3
      · exact asU32_lt _
      · have := hc.ml; omega
      · exact asU32_lt _
      · have := hc.bl; omega
    · exact ih _ _ (fun x hx => hl x (List.mem_cons_of_mem _ hx)) (by omega) (by omega) k hk

theorem asmCls_msum (l : List ClassInProgress) (mo bo : Nat) (hl : ∀ c ∈ l, CipOK c) :
    ((asmCls l mo bo).map (·.membersLen)).sum = ((l.map cipMembers).flatten).length ∧
    ((asmCls l mo bo).map (·.bpLen)).sum = ((l.map cipBps).flatten).length := by
  induction l generalizing mo bo with
  | nil => simp [asmCls]
  | cons c rest ih =>
    have hc := hl c (List.mem_cons_self ..)
    obtain ⟨i1, i2⟩ := ih (mo + (cipMembers c).length) (bo + (cipBps c).length)
      (fun x hx => hl x (List.mem_cons_of_mem _ hx))
    simp only [asmCls, List.map_cons, List.sum_cons, List.flatten_cons, List.length_append, i1, i2,
      hc.ml, hc.bl, and_self]

theorem asmCls_length (l : List ClassInProgress) (mo bo : Nat) : (asmCls l mo bo).length = l.length := by
  induction l generalizing mo bo with
  | nil => rfl
  | cons c rest ih => simp [asmCls, ih]

end WI
end PG
