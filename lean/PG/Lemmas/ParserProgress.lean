/-
  PG.Lemmas.ParserProgress — every sub-parser returns a suffix of its input, every record
  parser consumes at least one byte, and hence the fuel of `records` suffices.
-/
import PG.Model.Parser
import PG.Lemmas.ListBasics
namespace PG

/-! ### sub-parsers: exact decomposition of the input -/

theorem stripPrefix_eq {p bs r : Bytes} (h : stripPrefix p bs = some r) : bs = p ++ r := by
  induction p generalizing bs with
  | nil => simp [stripPrefix] at h; simp [h]
  | cons a p ih =>
    cases bs with
    | nil => simp [stripPrefix] at h
    | cons b bs =>
      simp only [stripPrefix] at h
      split at h
      · rename_i hab
        have : a = b := by simpa using hab
        subst this
        rw [ih h]; rfl
      · cases h

theorem stripPrefix_append (p r : Bytes) : stripPrefix p (p ++ r) = some r := by
  induction p with
  | nil => simp [stripPrefix]
  | cons a p ih => simp [stripPrefix, ih]

theorem parseUntil_eq {p : UInt8 → Bool} {bs s r : Bytes} (h : parseUntil p bs = some (s, r)) :
    s = bs.takeWhile (fun b => !p b) ∧ r = bs.dropWhile (fun b => !p b) ∧ bs = s ++ r ∧
      validUtf8 s = true := by
  unfold parseUntil spanUntil at h
  simp only at h
  split at h
  · rename_i hv
    simp only [Option.some.injEq, Prod.mk.injEq] at h
    obtain ⟨rfl, rfl⟩ := h
    exact ⟨rfl, rfl, (List.takeWhile_append_dropWhile).symm, hv⟩
  · cases h

theorem parseUntilNoNewline_eq {p : UInt8 → Bool} {bs s r : Bytes}
    (h : parseUntilNoNewline p bs = some (s, r)) :
    parseUntil (fun b => isNewline b || p b) bs = some (s, r) := by
  unfold parseUntilNoNewline at h
  split at h
  · cases h
  · rename_i s' r' heq
    split at h
    · split at h
      · cases h
      · simp only [Option.some.injEq, Prod.mk.injEq] at h
        obtain ⟨rfl, rfl⟩ := h; exact heq
    · simp only [Option.some.injEq, Prod.mk.injEq] at h
      obtain ⟨rfl, rfl⟩ := h; exact heq

theorem parseUsize_eq {bs r : Bytes} {n : Nat} (h : parseUsize bs = some (n, r)) :
    r = bs.dropWhile isNumericByte ∧ bs.takeWhile isNumericByte ≠ [] ∧
      bs = bs.takeWhile isNumericByte ++ r := by
  unfold parseUsize at h
  simp only at h
  split at h
  · cases h
  · rename_i hne
    split at h
    · split at h
      · simp only [Option.some.injEq, Prod.mk.injEq] at h
        obtain ⟨_, rfl⟩ := h
        refine ⟨rfl, ?_, (List.takeWhile_append_dropWhile).symm⟩
        intro e; rw [e] at hne; simp at hne
      · cases h
    · cases h

/-! ### suffix / length forms -/

theorem stripPrefix_suffix {p bs r : Bytes} (h : stripPrefix p bs = some r) :
    r <:+ bs ∧ r.length + p.length = bs.length := by
  have := stripPrefix_eq h
  subst this
  exact ⟨List.suffix_append _ _, by simp [Nat.add_comm]⟩

theorem parseUntil_suffix {p : UInt8 → Bool} {bs s r : Bytes} (h : parseUntil p bs = some (s, r)) :
    r <:+ bs := by
  obtain ⟨_, _, e, _⟩ := parseUntil_eq h
  rw [e]; exact List.suffix_append _ _

theorem parseUntilNoNewline_suffix {p : UInt8 → Bool} {bs s r : Bytes}
    (h : parseUntilNoNewline p bs = some (s, r)) : r <:+ bs :=
  parseUntil_suffix (parseUntilNoNewline_eq h)

theorem parseUsize_suffix {bs r : Bytes} {n : Nat} (h : parseUsize bs = some (n, r)) :
    r <:+ bs ∧ r.length < bs.length := by
  obtain ⟨_, hne, e⟩ := parseUsize_eq h
  refine ⟨by rw [e]; exact List.suffix_append _ _, ?_⟩
  have : 0 < (bs.takeWhile isNumericByte).length := List.length_pos_iff.mpr hne
  have e2 := congrArg List.length e
  simp only [List.length_append] at e2
  omega

theorem consumeNewlines_suffix (bs : Bytes) : consumeNewlines bs <:+ bs :=
  List.dropWhile_suffix _

theorem splitLine_suffix (bs : Bytes) : (splitLine bs).2 <:+ bs := by
  unfold splitLine
  split
  · exact List.nil_suffix
  · rename_i nl r heq
    have h1 : bs.dropWhile (fun b => !isNewline b) <:+ bs := List.dropWhile_suffix _
    rw [heq] at h1
    exact (List.suffix_cons nl r).trans h1

theorem splitLine_progress (bs : Bytes) (h : bs ≠ []) : (splitLine bs).2.length < bs.length := by
  unfold splitLine
  split
  · simp; exact List.length_pos_iff.mpr h
  · rename_i nl r heq
    have h1 : bs.dropWhile (fun b => !isNewline b) <:+ bs := List.dropWhile_suffix _
    rw [heq] at h1
    have := h1.length_le
    simp at this
    simp; omega

theorem parseLinePrefix_suffix {bs r : Bytes} {o : Option (Nat × Nat)}
    (h : parseLinePrefix bs = some (o, r)) : r <:+ bs := by
  unfold parseLinePrefix at h
  split at h
  · simp only [Option.some.injEq, Prod.mk.injEq] at h
    rw [← h.2]; exact List.suffix_refl _
  · rename_i s b1 h1
    split at h
    · cases h
    · rename_i b2 h2
      split at h
      · cases h
      · rename_i e b3 h3
        split at h
        · cases h
        · rename_i b4 h4
          simp only [Option.some.injEq, Prod.mk.injEq] at h
          rw [← h.2]
          exact (stripPrefix_suffix h4).1.trans <| (parseUsize_suffix h3).1.trans <|
            (stripPrefix_suffix h2).1.trans (parseUsize_suffix h1).1

theorem parseColonNum_suffix {bs r : Bytes} {o : Option Nat}
    (h : parseColonNum bs = some (o, r)) : r <:+ bs := by
  unfold parseColonNum at h
  split at h
  · simp only [Option.some.injEq, Prod.mk.injEq] at h
    rw [← h.2]; exact List.suffix_refl _
  · rename_i b1 h1
    split at h
    · cases h
    · rename_i n b2 h2
      simp only [Option.some.injEq, Prod.mk.injEq] at h
      rw [← h.2]
      exact (parseUsize_suffix h2).1.trans (stripPrefix_suffix h1).1

end PG
