/-
  PG.Lemmas.ParserProgress — every sub-parser returns a suffix of its input, every record
  parser consumes at least one byte, and hence the fuel of `records` suffices.
-/
import PG.Model.Parser
import PG.Lemmas.ListBasics
namespace PG

/-! ### sub-parsers: exact decomposition of the input -/

theorem stripPrefix_eq {p bs r : Bytes} (h : stripPrefix p bs = some r) : bs = p ++ r := by
  induction p generalizing bs with
  | nil => simp [stripPrefix] at h; simp [h]
  | cons a p ih =>
    cases bs with
    | nil => simp [stripPrefix] at h
    | cons b bs =>
      simp only [stripPrefix] at h
      split at h
      · rename_i hab
        have : a = b := by simpa using hab
        subst this
        rw [ih h]; rfl
      · cases h

theorem stripPrefix_append (p r : Bytes) : stripPrefix p (p ++ r) = some r := by
  induction p with
  | nil => simp [stripPrefix]
  | cons a p ih => simp [stripPrefix, ih]

theorem parseUntil_eq {p : UInt8 → Bool} {bs s r : Bytes} (h : parseUntil p bs = some (s, r)) :
    s = bs.takeWhile (fun b => !p b) ∧ r = bs.dropWhile (fun b => !p b) ∧ bs = s ++ r ∧
      validUtf8 s = true := by
  unfold parseUntil spanUntil at h
  simp only at h
  split at h
  · rename_i hv
    simp only [Option.some.injEq, Prod.mk.injEq] at h
    obtain ⟨rfl, rfl⟩ := h
    exact ⟨rfl, rfl, (List.takeWhile_append_dropWhile).symm, hv⟩
  · cases h

theorem parseUntilNoNewline_eq {p : UInt8 → Bool} {bs s r : Bytes}
    (h : parseUntilNoNewline p bs = some (s, r)) :
    parseUntil (fun b => isNewline b || p b) bs = some (s, r) := by
  unfold parseUntilNoNewline at h
  split at h
  · cases h
  · rename_i s' r' heq
    split at h
    · split at h
      · cases h
      · simp only [Option.some.injEq, Prod.mk.injEq] at h
        obtain ⟨rfl, rfl⟩ := h; exact heq
    · simp only [Option.some.injEq, Prod.mk.injEq] at h
      obtain ⟨rfl, rfl⟩ := h; exact heq

theorem parseUsize_eq {bs r : Bytes} {n : Nat} (h : parseUsize bs = some (n, r)) :
    r = bs.dropWhile isNumericByte ∧ bs.takeWhile isNumericByte ≠ [] ∧
      bs = bs.takeWhile isNumericByte ++ r := by
  unfold parseUsize at h
  simp only at h
  split at h
  · cases h
  · rename_i hne
    split at h
    · split at h
      · simp only [Option.some.injEq, Prod.mk.injEq] at h
        obtain ⟨_, rfl⟩ := h
        refine ⟨rfl, ?_, (List.takeWhile_append_dropWhile).symm⟩
        intro e; rw [e] at hne; simp at hne
      · cases h
    · cases h

/-! ### suffix / length forms -/

theorem stripPrefix_suffix {p bs r : Bytes} (h : stripPrefix p bs = some r) :
    r <:+ bs ∧ r.length + p.length = bs.length := by
  have := stripPrefix_eq h
  subst this
  exact ⟨List.suffix_append _ _, by simp [Nat.add_comm]⟩

theorem parseUntil_suffix {p : UInt8 → Bool} {bs s r : Bytes} (h : parseUntil p bs = some (s, r)) :
    r <:+ bs := by
  obtain ⟨_, _, e, _⟩ := parseUntil_eq h
  rw [e]; exact List.suffix_append _ _

theorem parseUntilNoNewline_suffix {p : UInt8 → Bool} {bs s r : Bytes}
    (h : parseUntilNoNewline p bs = some (s, r)) : r <:+ bs :=
  parseUntil_suffix (parseUntilNoNewline_eq h)

theorem parseUsize_suffix {bs r : Bytes} {n : Nat} (h : parseUsize bs = some (n, r)) :
    r <:+ bs ∧ r.length < bs.length := by
  obtain ⟨_, hne, e⟩ := parseUsize_eq h
  refine ⟨by rw [e]; exact List.suffix_append _ _, ?_⟩
  have : 0 < (bs.takeWhile isNumericByte).length := List.length_pos_iff.mpr hne
  have e2 := congrArg List.length e
  simp only [List.length_append] at e2
  omega

theorem consumeNewlines_suffix (bs : Bytes) : consumeNewlines bs <:+ bs :=
  List.dropWhile_suffix _

theorem splitLine_suffix (bs : Bytes) : (splitLine bs).2 <:+ bs := by
  unfold splitLine
  split
  · exact List.nil_suffix
  · rename_i nl r heq
    have h1 : bs.dropWhile (fun b => !isNewline b) <:+ bs := List.dropWhile_suffix _
    rw [heq] at h1
    exact (List.suffix_cons nl r).trans h1

theorem splitLine_progress (bs : Bytes) (h : bs ≠ []) : (splitLine bs).2.length < bs.length := by
  unfold splitLine
  split
  · simp; exact List.length_pos_iff.mpr h
  · rename_i nl r heq
    have h1 : bs.dropWhile (fun b => !isNewline b) <:+ bs := List.dropWhile_suffix _
    rw [heq] at h1
    have := h1.length_le
    simp at this
    simp; omega

theorem parseLinePrefix_suffix {bs r : Bytes} {o : Option (Nat × Nat)}
    (h : parseLinePrefix bs = some (o, r)) : r <:+ bs := by
  unfold parseLinePrefix at h
  split at h
  · simp only [Option.some.injEq, Prod.mk.injEq] at h
    rw [← h.2]; exact List.suffix_refl _
  · rename_i s b1 h1
    split at h
    · cases h
    · rename_i b2 h2
      split at h
      · cases h
      · rename_i e b3 h3
        split at h
        · cases h
        · rename_i b4 h4
          simp only [Option.some.injEq, Prod.mk.injEq] at h
          rw [← h.2]
          exact (stripPrefix_suffix h4).1.trans <| (parseUsize_suffix h3).1.trans <|
            (stripPrefix_suffix h2).1.trans (parseUsize_suffix h1).1

theorem parseColonNum_suffix {bs r : Bytes} {o : Option Nat}
    (h : parseColonNum bs = some (o, r)) : r <:+ bs := by
  unfold parseColonNum at h
  split at h
  · simp only [Option.some.injEq, Prod.mk.injEq] at h
    rw [← h.2]; exact List.suffix_refl _
  · rename_i b1 h1
    split at h
    · cases h
    · rename_i n b2 h2
      simp only [Option.some.injEq, Prod.mk.injEq] at h
      rw [← h.2]
      exact (parseUsize_suffix h2).1.trans (stripPrefix_suffix h1).1

/-! ### newline-free strings -/

theorem mem_takeWhile_imp {α : Type} {p : α → Bool} {l : List α} {a : α}
    (h : a ∈ l.takeWhile p) : p a = true := by
  have := List.all_takeWhile (p := p) (l := l)
  rw [List.all_eq_true] at this
  exact this a h

/-- no line-terminator byte -/
def NoNl (s : Bytes) : Prop := ∀ b ∈ s, isNewline b = false

theorem NoNl.nil : NoNl [] := by intro b hb; cases hb

theorem NoNl.of_subset {s t : Bytes} (h : NoNl t) (hs : ∀ b ∈ s, b ∈ t) : NoNl s :=
  fun b hb => h b (hs b hb)

theorem NoNl.of_suffix {s t : Bytes} (h : NoNl t) (hs : s <:+ t) : NoNl s :=
  h.of_subset (fun _ hb => hs.subset hb)

theorem NoNl.append_left {s t : Bytes} (h : NoNl (s ++ t)) : NoNl s :=
  h.of_subset (fun _ hb => List.mem_append_left _ hb)

theorem NoNl.append_right {s t : Bytes} (h : NoNl (s ++ t)) : NoNl t :=
  h.of_subset (fun _ hb => List.mem_append_right _ hb)

theorem NoNl.append {s t : Bytes} (hs : NoNl s) (ht : NoNl t) : NoNl (s ++ t) := by
  intro b hb
  rcases List.mem_append.mp hb with h | h
  · exact hs b h
  · exact ht b h

theorem parseUntil_noNl {p : UInt8 → Bool} (hp : ∀ b, isNewline b = true → p b = true)
    {bs s r : Bytes} (h : parseUntil p bs = some (s, r)) : NoNl s := by
  obtain ⟨e, _, _, _⟩ := parseUntil_eq h
  intro b hb
  rw [e] at hb
  have := mem_takeWhile_imp hb
  cases hn : isNewline b with
  | false => rfl
  | true => rw [hp b hn] at this; simp at this

theorem parseUntilNoNewline_noNl {p : UInt8 → Bool} {bs s r : Bytes}
    (h : parseUntilNoNewline p bs = some (s, r)) : NoNl s :=
  parseUntil_noNl (by intro b hb; simp [hb]) (parseUntilNoNewline_eq h)

/-! ### `trim` only removes bytes -/

local macro "sfx_close " h:ident : tactic =>
  `(tactic| (simp only [Option.some.injEq] at $h:ident; subst $h:ident;
             first | exact List.suffix_refl _ | exact ⟨[_], rfl⟩ | exact ⟨[_, _], rfl⟩
                   | exact ⟨[_, _, _], rfl⟩))

theorem stripWs_suffix {bs r : Bytes} (h : stripWs bs = some r) : r <:+ bs := by
  unfold stripWs at h
  split at h
  all_goals first
    | (cases h; done)
    | (sfx_close h)
    | (split at h
       · sfx_close h
       · cases h)

theorem stripWsRev_suffix {bs r : Bytes} (h : stripWsRev bs = some r) : r <:+ bs := by
  unfold stripWsRev at h
  split at h
  all_goals first
    | (cases h; done)
    | (sfx_close h)
    | (split at h
       · sfx_close h
       · cases h)
    | (split at h
       · sfx_close h
       · split at h
         · sfx_close h
         · cases h)

theorem trimStartFuel_suffix (n : Nat) (bs : Bytes) : trimStartFuel n bs <:+ bs := by
  induction n generalizing bs with
  | zero => exact List.suffix_refl _
  | succ n ih =>
    simp only [trimStartFuel]
    split
    · rename_i r h
      exact (ih r).trans (stripWs_suffix h)
    · exact List.suffix_refl _

theorem trimEndRevFuel_suffix (n : Nat) (bs : Bytes) : trimEndRevFuel n bs <:+ bs := by
  induction n generalizing bs with
  | zero => exact List.suffix_refl _
  | succ n ih =>
    simp only [trimEndRevFuel]
    split
    · rename_i r h
      exact (ih r).trans (stripWsRev_suffix h)
    · exact List.suffix_refl _

theorem mem_trim {s : Bytes} {b : UInt8} (h : b ∈ trim s) : b ∈ s := by
  unfold trim trimEnd trimStart at h
  rw [List.mem_reverse] at h
  have h1 := (trimEndRevFuel_suffix _ _).subset h
  rw [List.mem_reverse] at h1
  exact (trimStartFuel_suffix _ _).subset h1

theorem NoNl.trim {s : Bytes} (h : NoNl s) : NoNl (trim s) :=
  h.of_subset (fun _ hb => mem_trim hb)

theorem splitOnce_mem {c : UInt8} {s a b : Bytes} (h : splitOnce c s = some (a, b)) :
    (∀ x ∈ a, x ∈ s) ∧ (∀ x ∈ b, x ∈ s) := by
  unfold splitOnce at h
  split at h
  · cases h
  · rename_i d r heq
    simp only [Option.some.injEq, Prod.mk.injEq] at h
    obtain ⟨rfl, rfl⟩ := h
    constructor
    · intro x hx; exact (List.takeWhile_prefix _).subset hx
    · intro x hx
      have : s.dropWhile (· != c) <:+ s := List.dropWhile_suffix _
      rw [heq] at this
      exact this.subset (List.mem_cons_of_mem _ hx)

theorem splitForeign_noNl {s : Bytes} (h : NoNl s) :
    NoNl (splitForeign s).1 ∧ ∀ c, (splitForeign s).2 = some c → NoNl c := by
  unfold splitForeign
  split
  · rename_i c m heq
    unfold rsplitOnce at heq
    split at heq
    · cases heq
    · rename_i a b h2
      simp only [Option.some.injEq, Prod.mk.injEq] at heq
      obtain ⟨rfl, rfl⟩ := heq
      obtain ⟨ha, hb⟩ := splitOnce_mem h2
      constructor
      · exact h.of_subset (fun x hx => by simpa using ha x (by simpa using hx))
      · intro c hc
        simp only [Option.some.injEq] at hc
        subst hc
        exact h.of_subset (fun x hx => by simpa using hb x (by simpa using hx))
  · exact ⟨h, by intro c hc; cases hc⟩

/-! ### record parsers: suffix, strict progress, newline-free fields -/

def RecOK : Record → Prop
  | .header k v => NoNl k ∧ ∀ x, v = some x → NoNl x
  | .cls o b => NoNl o ∧ NoNl b
  | .field ty o b => NoNl ty ∧ NoNl o ∧ NoNl b
  | .method ty o b a c _ => NoNl ty ∧ NoNl o ∧ NoNl b ∧ NoNl a ∧ ∀ x, c = some x → NoNl x

theorem isNewline_imp_self : ∀ b, isNewline b = true → isNewline b = true := fun _ h => h

theorem isNewline_imp_colon :
    ∀ b, isNewline b = true → (fun c => c == 58 || isNewline c) b = true := by
  intro b h; simp [h]

theorem litSourceFile_noNl : NoNl litSourceFile := by
  intro b hb
  simp only [litSourceFile, List.mem_cons, List.not_mem_nil, or_false] at hb
  rcases hb with h | h | h | h | h | h | h | h | h | h <;> subst h <;> decide

theorem parseClass_inv {bs rest : Bytes} {rec : Record} (h : parseClass bs = some (rec, rest)) :
    rest <:+ bs ∧ rest.length < bs.length ∧ RecOK rec := by
  unfold parseClass at h
  split at h
  · cases h
  · rename_i o b1 h1
    split at h
    · cases h
    · rename_i b2 h2
      split at h
      · cases h
      · rename_i ob b3 h3
        split at h
        · cases h
        · rename_i b4 h4
          simp only [Option.some.injEq, Prod.mk.injEq] at h
          obtain ⟨rfl, rfl⟩ := h
          have s1 := parseUntilNoNewline_suffix h1
          have s2 := stripPrefix_suffix h2
          have s3 := parseUntilNoNewline_suffix h3
          have s4 := stripPrefix_suffix h4
          have s5 := consumeNewlines_suffix b4
          refine ⟨s5.trans <| s4.1.trans <| s3.trans <| s2.1.trans s1, ?_,
            parseUntilNoNewline_noNl h1, parseUntilNoNewline_noNl h3⟩
          have := s1.length_le; have := s3.length_le; have := s5.length_le
          have := s2.2; have := s4.2
          simp only [litArrow, List.length_cons, List.length_nil] at *
          omega

theorem parseHeader_inv {bs rest : Bytes} {rec : Record} (h : parseHeader bs = some (rec, rest)) :
    rest <:+ bs ∧ rest.length < bs.length ∧ RecOK rec := by
  unfold parseHeader at h
  split at h
  · cases h
  · rename_i b1 h1
    have s1 := stripPrefix_suffix h1
    simp only [List.length_cons, List.length_nil] at s1
    split at h
    · rename_i b2 h2
      have s2 := stripPrefix_suffix h2
      split at h
      · cases h
      · rename_i v b3 h3
        have s3 := parseUntilNoNewline_suffix h3
        split at h
        · cases h
        · rename_i b4 h4
          have s4 := stripPrefix_suffix h4
          simp only [Option.some.injEq, Prod.mk.injEq] at h
          obtain ⟨rfl, rfl⟩ := h
          have s5 := consumeNewlines_suffix b4
          refine ⟨s5.trans <| s4.1.trans <| s3.trans <| s2.1.trans s1.1, ?_,
            litSourceFile_noNl, ?_⟩
          · have := s2.1.length_le; have := s3.length_le; have := s5.length_le
            have := s4.1.length_le
            omega
          · intro x hx
            simp only [Option.some.injEq] at hx
            subst hx
            exact parseUntilNoNewline_noNl h3
    · split at h
      · cases h
      · rename_i k b2 h2
        have s2 := parseUntil_suffix h2
        have hk : NoNl k := parseUntil_noNl isNewline_imp_colon h2
        split at h
        · rename_i b3 h3
          have s3 := stripPrefix_suffix h3
          split at h
          · cases h
          · rename_i v b4 h4
            have s4 := parseUntil_suffix h4
            have hv : NoNl v := parseUntil_noNl isNewline_imp_self h4
            simp only [Option.some.injEq, Prod.mk.injEq] at h
            obtain ⟨rfl, rfl⟩ := h
            have s5 := consumeNewlines_suffix b4
            refine ⟨s5.trans <| s4.trans <| s3.1.trans <| s2.trans s1.1, ?_, hk.trim, ?_⟩
            · have := s2.length_le; have := s3.1.length_le; have := s5.length_le
              have := s4.length_le
              omega
            · intro x hx
              simp only [Option.some.injEq] at hx
              subst hx
              exact hv.trim
        · simp only [Option.some.injEq, Prod.mk.injEq] at h
          obtain ⟨rfl, rfl⟩ := h
          have s5 := consumeNewlines_suffix b2
          refine ⟨s5.trans <| s2.trans s1.1, ?_, hk.trim, ?_⟩
          · have := s2.length_le; have := s5.length_le
            omega
          · intro x hx; cases hx

theorem parseMember_inv {bs rest : Bytes} {rec : Record} (h : parseMember bs = some (rec, rest)) :
    rest <:+ bs ∧ rest.length < bs.length ∧ RecOK rec := by
  unfold parseMember at h
  split at h
  · cases h
  rename_i b1 h1
  have s1 := stripPrefix_suffix h1
  simp only [litIndent, List.length_cons, List.length_nil] at s1
  split at h
  · cases h
  rename_i se b2 h2
  have s2 := parseLinePrefix_suffix h2
  split at h
  · cases h
  rename_i ty b3 h3
  have s3 := parseUntilNoNewline_suffix h3
  have hty := parseUntilNoNewline_noNl h3
  split at h
  · cases h
  rename_i b4 h4
  have s4 := stripPrefix_suffix h4
  split at h
  · cases h
  rename_i orig b5 h5
  have s5 := parseUntilNoNewline_suffix h5
  have horig := parseUntilNoNewline_noNl h5
  have s15 : b5 <:+ bs := s5.trans <| s4.1.trans <| s3.trans <| s2.trans s1.1
  have l15 : b5.length < bs.length := by
    have := s5.length_le; have := s4.1.length_le; have := s3.length_le; have := s2.length_le
    omega
  split at h
  · -- field
    split at h
    · cases h
    rename_i b6 h6
    have s6 := stripPrefix_suffix h6
    split at h
    · cases h
    rename_i ob b7 h7
    have s7 := parseUntil_suffix h7
    simp only [Option.some.injEq, Prod.mk.injEq] at h
    obtain ⟨rfl, rfl⟩ := h
    have s8 := consumeNewlines_suffix b7
    refine ⟨s8.trans <| s7.trans <| s6.1.trans s15, ?_, hty, horig,
      parseUntil_noNl isNewline_imp_self h7⟩
    have := s8.length_le; have := s7.length_le; have := s6.1.length_le
    omega
  · -- method
    rename_i b6 h6
    have s6 := stripPrefix_suffix h6
    split at h
    · cases h
    rename_i args b7 h7
    have s7 := parseUntilNoNewline_suffix h7
    split at h
    · cases h
    rename_i b8 h8
    have s8 := stripPrefix_suffix h8
    split at h
    · cases h
    rename_i os b9 h9
    have s9 := parseColonNum_suffix h9
    split at h
    · cases h
    rename_i oe b10 h10
    have s10 : b10 <:+ b9 := by
      split at h10
      · exact parseColonNum_suffix h10
      · simp only [Option.some.injEq, Prod.mk.injEq] at h10
        rw [← h10.2]; exact List.suffix_refl _
    split at h
    · cases h
    rename_i b11 h11
    have s11 := stripPrefix_suffix h11
    split at h
    · cases h
    rename_i ob b12 h12
    have s12 := parseUntil_suffix h12
    simp only [Option.some.injEq, Prod.mk.injEq] at h
    obtain ⟨rfl, rfl⟩ := h
    have s13 := consumeNewlines_suffix b12
    obtain ⟨hn, hc⟩ := splitForeign_noNl horig
    refine ⟨s13.trans <| s12.trans <| s11.1.trans <| s10.trans <| s9.trans <| s8.1.trans <|
      s7.trans <| s6.1.trans s15, ?_, hty, hn, parseUntil_noNl isNewline_imp_self h12,
      parseUntilNoNewline_noNl h7, hc⟩
    have := s13.length_le; have := s12.length_le; have := s11.1.length_le
    have := s10.length_le; have := s9.length_le; have := s8.1.length_le
    have := s7.length_le; have := s6.1.length_le
    omega

/-! ### `parseRecord` -/

theorem parseRecord_cases (bs : Bytes) :
    (∃ r rest, (parseHeader (consumeNewlines bs) = some (r, rest) ∨
                parseMember (consumeNewlines bs) = some (r, rest) ∨
                parseClass (consumeNewlines bs) = some (r, rest)) ∧
        parseRecord bs = (.ok r, rest)) ∨
    parseRecord bs = (.err (splitLine (consumeNewlines bs)).1, (splitLine (consumeNewlines bs)).2) := by
  unfold parseRecord
  simp only
  split
  · rename_i r rest heq
    left
    refine ⟨r, rest, ?_, rfl⟩
    split at heq
    · exact Or.inl heq
    · split at heq
      · exact Or.inr (Or.inl heq)
      · exact Or.inr (Or.inr heq)
  · right; rfl

theorem parseRecord_rest_suffix (bs : Bytes) : (parseRecord bs).2 <:+ bs := by
  rcases parseRecord_cases bs with ⟨r, rest, h, e⟩ | e
  · rw [e]
    have : rest <:+ consumeNewlines bs := by
      rcases h with h | h | h
      · exact (parseHeader_inv h).1
      · exact (parseMember_inv h).1
      · exact (parseClass_inv h).1
    exact this.trans (consumeNewlines_suffix bs)
  · rw [e]
    exact (splitLine_suffix _).trans (consumeNewlines_suffix bs)

theorem parseRecord_progress (bs : Bytes) (hne : bs ≠ []) :
    (parseRecord bs).2.length < bs.length := by
  have hc := (consumeNewlines_suffix bs).length_le
  rcases parseRecord_cases bs with ⟨r, rest, h, e⟩ | e
  · rw [e]
    have : rest.length < (consumeNewlines bs).length := by
      rcases h with h | h | h
      · exact (parseHeader_inv h).2.1
      · exact (parseMember_inv h).2.1
      · exact (parseClass_inv h).2.1
    simp only; omega
  · rw [e]
    simp only
    by_cases hc0 : consumeNewlines bs = []
    · rw [hc0]; simp [splitLine]; exact List.length_pos_iff.mpr hne
    · have := splitLine_progress _ hc0
      omega

theorem parseRecord_ok_recOK {bs rest : Bytes} {r : Record} (h : parseRecord bs = (.ok r, rest)) :
    RecOK r := by
  rcases parseRecord_cases bs with ⟨r', rest', h', e⟩ | e
  · rw [e] at h
    simp only [Prod.mk.injEq, Item.ok.injEq] at h
    obtain ⟨rfl, rfl⟩ := h
    rcases h' with h | h | h
    · exact (parseHeader_inv h).2.2
    · exact (parseMember_inv h).2.2
    · exact (parseClass_inv h).2.2
  · rw [e] at h; simp at h

/-! ### the fuel suffices -/

theorem recordsFuel_enough (n : Nat) (bs : Bytes) (h : bs.length ≤ n) :
    recordsFuel n bs = recordsFuel bs.length bs := by
  induction n using Nat.strongRecOn generalizing bs with
  | _ n ih =>
    cases bs with
    | nil => cases n <;> simp [recordsFuel]
    | cons b bs =>
      cases n with
      | zero => simp at h
      | succ n =>
        have hp := parseRecord_progress (b :: bs) (by simp)
        simp only [List.length_cons] at hp h ⊢
        simp only [recordsFuel, List.isEmpty_cons, Bool.false_eq_true, if_false]
        rw [ih n (by omega) _ (by omega), ih bs.length (by omega) _ (by omega)]

theorem records_unfold (bs : Bytes) (h : bs ≠ []) :
    records bs = (parseRecord bs).1 :: records (parseRecord bs).2 := by
  cases bs with
  | nil => exact absurd rfl h
  | cons b bs =>
    have hp := parseRecord_progress (b :: bs) (by simp)
    simp only [List.length_cons] at hp
    unfold records
    simp only [List.length_cons, recordsFuel, List.isEmpty_cons, Bool.false_eq_true, if_false]
    rw [recordsFuel_enough bs.length _ (by omega)]

theorem records_nil : records [] = [] := rfl

theorem records_count (bs : Bytes) : (records bs).length ≤ bs.length := by
  generalize hn : bs.length = n
  induction n using Nat.strongRecOn generalizing bs with
  | _ n ih =>
    by_cases hb : bs = []
    · subst hb; simp [records_nil]
    · rw [records_unfold bs hb]
      have hp := parseRecord_progress bs hb
      have := ih _ (by omega) (parseRecord bs).2 rfl
      simp only [List.length_cons]
      omega

theorem records_ok_recOK (bs : Bytes) : ∀ r, Item.ok r ∈ records bs → RecOK r := by
  generalize hn : bs.length = n
  induction n using Nat.strongRecOn generalizing bs with
  | _ n ih =>
    intro r hr
    by_cases hb : bs = []
    · subst hb; simp [records_nil] at hr
    · rw [records_unfold bs hb] at hr
      have hp := parseRecord_progress bs hb
      rcases List.mem_cons.mp hr with h | h
      · exact parseRecord_ok_recOK (bs := bs) (rest := (parseRecord bs).2) (by rw [h])
      · exact ih _ (by omega) (parseRecord bs).2 rfl r h

end PG
