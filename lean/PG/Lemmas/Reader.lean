/-
  PG.Lemmas.Reader — helper lemmas about the cache reader model (used by PG.Props.C12).
-/
import PG.Model.CacheRead
import PG.Lemmas.ListBasics
namespace PG

/-! ### slices -/

theorem slice_infix {α : Type} (l : List α) (a b : Nat) : (l.drop a).take b <:+: l :=
  List.IsInfix.trans (List.take_prefix _ _).isInfix (List.drop_suffix _ _).isInfix

/-! ### binary search -/

theorem bsLoop_lt (f : Nat → Ordering) (n fuel size base : Nat)
    (h1 : 1 ≤ size) (h2 : base + size ≤ n) : bsLoop f fuel size base < n := by
  induction fuel generalizing size base with
  | zero => simp only [bsLoop]; omega
  | succ fuel ih =>
    simp only [bsLoop]
    split
    · next hs =>
      apply ih
      · omega
      · split <;> omega
    · omega

theorem binarySearch_ok (n : Nat) (f : Nat → Ordering) (i : Nat)
    (h : binarySearch n f = .ok i) : i < n ∧ f i = .eq := by
  unfold binarySearch at h
  split at h
  · cases h
  · next hn =>
    have hlt := bsLoop_lt f n n n 0 (by omega) (by omega)
    simp only at h
    split at h
    · next heq =>
      cases h
      exact ⟨hlt, heq⟩
    · cases h
    · cases h

theorem searchList_some {α : Type} (l : List α) (cmp : α → Ordering) (i : Nat)
    (h : searchList l cmp = some i) : ∃ x, l[i]? = some x ∧ cmp x = .eq := by
  unfold searchList at h
  split at h
  · next j hj =>
    cases h
    have := (binarySearch_ok _ _ _ hj).2
    split at this
    · next x hx => exact ⟨x, hx, this⟩
    · cases this
  · cases h

theorem findRange_eq {α : Type} (l : List α) (cmp : α → Ordering) (r : List α)
    (h : findRange l cmp = some r) :
    ∃ mid x, l[mid]? = some x ∧ cmp x = .eq ∧
      r = ((l.take mid).reverse.takeWhile (fun x => cmp x == .eq)).reverse ++
          (l.drop mid).takeWhile (fun x => cmp x == .eq) := by
  unfold findRange at h
  split at h
  · cases h
  · next mid hm =>
    obtain ⟨x, hx, hc⟩ := searchList_some l cmp mid hm
    refine ⟨mid, x, hx, hc, ?_⟩
    simp only [Option.some.injEq] at h
    rw [← h]
    have hmid : mid < l.length := by
      rcases Nat.lt_or_ge mid l.length with h' | h'
      · exact h'
      · rw [List.getElem?_eq_none h'] at hx; cases hx
    generalize hp : (fun x => cmp x == Ordering.eq) = p
    generalize hT1 : (l.take mid).reverse.takeWhile p = T1
    generalize hT2 : (l.drop mid).takeWhile p = T2
    have hA : (l.take mid).length = mid := by simp; omega
    have hk1 : T1.length ≤ mid := by
      have := (List.takeWhile_prefix p (l := (l.take mid).reverse)).length_le
      rw [hT1] at this; simpa [hA] using this
    -- T1 is the first k1 of the reversed prefix
    have hT1' : (l.take mid).reverse.take T1.length = T1 := by
      have hpre := List.takeWhile_prefix p (l := (l.take mid).reverse)
      rw [hT1] at hpre
      obtain ⟨t, ht⟩ := hpre
      rw [← ht]; simp
    have hT2' : (l.drop mid).take T2.length = T2 := by
      have hpre := List.takeWhile_prefix p (l := l.drop mid)
      rw [hT2] at hpre
      obtain ⟨t, ht⟩ := hpre
      rw [← ht]; simp
    have hdrop : l.drop (mid - T1.length) = T1.reverse ++ l.drop mid := by
      conv => lhs; rw [← List.take_append_drop mid l]
      rw [List.drop_append_of_le_length (by omega)]
      congr 1
      have := congrArg List.reverse hT1'
      rw [List.take_reverse, List.reverse_reverse, hA] at this
      exact this
    rw [hdrop]
    have : mid + T2.length - (mid - T1.length) = T1.reverse.length + T2.length := by
      simp; omega
    rw [this, List.take_length_add_append, hT2']

theorem findRange_slice {α : Type} (l : List α) (cmp : α → Ordering) (r : List α)
    (h : findRange l cmp = some r) : r <:+: l ∧ r ≠ [] ∧ ∀ x ∈ r, cmp x = .eq := by
  refine ⟨?_, ?_, ?_⟩
  · unfold findRange at h
    split at h
    · cases h
    · simp only [Option.some.injEq] at h
      rw [← h]; exact slice_infix _ _ _
  · obtain ⟨mid, x, hx, hc, rfl⟩ := findRange_eq l cmp r h
    have hmid : mid < l.length := by
      rcases Nat.lt_or_ge mid l.length with h' | h'
      · exact h'
      · rw [List.getElem?_eq_none h'] at hx; cases hx
    have : l.drop mid = x :: l.drop (mid + 1) := by
      rw [List.getElem?_eq_getElem hmid] at hx
      cases hx
      exact List.drop_eq_getElem_cons hmid
    rw [this, List.takeWhile_cons]
    simp [hc]
  · obtain ⟨mid, x, hx, hc, rfl⟩ := findRange_eq l cmp r h
    intro y hy
    rw [List.mem_append, List.mem_reverse] at hy
    rcases hy with hy | hy
    · have := List.all_eq_true.mp (List.all_takeWhile (p := fun x => cmp x == .eq)
        (l := (l.take mid).reverse)) y hy
      simpa using this
    · have := List.all_eq_true.mp (List.all_takeWhile (p := fun x => cmp x == .eq)
        (l := l.drop mid)) y hy
      simpa using this

/-! ### LEB128 and the string table -/

theorem lebRead_spec (k : Nat) (hk : k ≤ 9) (result : Nat) (bs r : Bytes) (v : Nat)
    (h : lebRead (7 * k) result bs = some (v, r)) :
    v < usizeBound ∧ r.length < bs.length ∧ bs.length + k ≤ r.length + 10 ∧ r <:+ bs := by
  induction bs generalizing k result with
  | nil => simp [lebRead] at h
  | cons b t ih =>
    unfold lebRead at h
    split at h
    · cases h
    · next hc =>
      simp only at h
      split at h
      · simp only [Option.some.injEq, Prod.mk.injEq] at h
        obtain ⟨rfl, rfl⟩ := h
        refine ⟨Nat.mod_lt _ (by decide), by simp, by simp; omega, List.suffix_cons _ _⟩
      · next hb =>
        have hk' : k + 1 ≤ 9 := by
          rcases Nat.lt_or_ge k 9 with h' | h'
          · omega
          · exfalso
            have : k = 9 := by omega
            subst this
            simp at hc
            apply hb
            by_cases h0 : b = 0
            · subst h0; decide
            · have := hc h0; subst this; decide
        have := ih (k + 1) hk' _ (by rw [Nat.mul_add]; exact h)
        obtain ⟨h1, h2, h3, h4⟩ := this
        refine ⟨h1, by simp; omega, by simp; omega, h4.trans (List.suffix_cons _ _)⟩

theorem readString_slice (sb : Bytes) (off : Nat) (s : Bytes) (h : readString sb off = some s) :
    s <:+: sb := by
  unfold readString at h
  split at h
  · cases h
  · split at h
    · cases h
    · next len r hl =>
      have hsuf := (lebRead_spec 0 (by omega) 0 _ r len hl).2.2.2
      split at h
      · cases h
      · split at h
        · simp only [Option.some.injEq] at h
          rw [← h]
          exact (List.take_prefix _ _).isInfix.trans
            ((hsuf.trans (List.drop_suffix _ _)).isInfix)
        · cases h

/-! ### decoding -/

theorem rd32_spec (bs r : Bytes) (v : Nat) (h : rd32 bs = some (v, r)) :
    v < u32Bound ∧ r <:+ bs := by
  unfold rd32 at h
  split at h
  · next a b c d r' =>
    simp only [Option.some.injEq, Prod.mk.injEq] at h
    obtain ⟨rfl, rfl⟩ := h
    refine ⟨?_, ⟨[a, b, c, d], by simp⟩⟩
    have := UInt8.toNat_lt a; have := UInt8.toNat_lt b
    have := UInt8.toNat_lt c; have := UInt8.toNat_lt d
    simp only [u32Bound]; omega
  · cases h

theorem rdFields_spec (n : Nat) (bs r : Bytes) (vs : List Nat)
    (h : rdFields n bs = some (vs, r)) : (∀ v ∈ vs, v < u32Bound) ∧ r <:+ bs := by
  induction n generalizing bs vs with
  | zero =>
    simp only [rdFields, Option.some.injEq, Prod.mk.injEq] at h
    obtain ⟨rfl, rfl⟩ := h
    exact ⟨by simp, List.suffix_refl _⟩
  | succ n ih =>
    simp only [rdFields] at h
    split at h
    · cases h
    · next v r1 h1 =>
      split at h
      · cases h
      · next vs' r2 h2 =>
        simp only [Option.some.injEq, Prod.mk.injEq] at h
        obtain ⟨rfl, rfl⟩ := h
        obtain ⟨a1, a2⟩ := rd32_spec _ _ _ h1
        obtain ⟨b1, b2⟩ := ih _ _ h2
        refine ⟨?_, b2.trans a2⟩
        intro x hx
        rcases List.mem_cons.mp hx with rfl | hx
        · exact a1
        · exact b1 x hx

theorem RawClass.ofFields_fields (fs : List Nat) (k : RawClass)
    (h : RawClass.ofFields fs = some k) : k.fields = fs := by
  unfold RawClass.ofFields at h
  split at h
  · cases h; rfl
  · cases h

theorem RawMember.ofFields_fields (fs : List Nat) (k : RawMember)
    (h : RawMember.ofFields fs = some k) : k.fields = fs := by
  unfold RawMember.ofFields at h
  split at h
  · cases h; rfl
  · cases h

theorem rdClasses_spec (n : Nat) (bs r : Bytes) (cs : List RawClass)
    (h : rdClasses n bs = some (cs, r)) :
    (∀ k ∈ cs, ∀ v ∈ k.fields, v < u32Bound) ∧ r <:+ bs := by
  induction n generalizing bs cs with
  | zero =>
    simp only [rdClasses, Option.some.injEq, Prod.mk.injEq] at h
    obtain ⟨rfl, rfl⟩ := h
    exact ⟨by simp, List.suffix_refl _⟩
  | succ n ih =>
    simp only [rdClasses] at h
    split at h
    · cases h
    · next fs r1 h1 =>
      split at h
      · next c cs' r2 hc h2 =>
        simp only [Option.some.injEq, Prod.mk.injEq] at h
        obtain ⟨rfl, rfl⟩ := h
        obtain ⟨a1, a2⟩ := rdFields_spec _ _ _ _ h1
        obtain ⟨b1, b2⟩ := ih _ _ h2
        refine ⟨?_, b2.trans a2⟩
        intro x hx
        rcases List.mem_cons.mp hx with rfl | hx
        · rw [RawClass.ofFields_fields _ _ hc]; exact a1
        · exact b1 x hx
      · cases h

theorem rdMembers_spec (n : Nat) (bs r : Bytes) (cs : List RawMember)
    (h : rdMembers n bs = some (cs, r)) :
    (∀ k ∈ cs, ∀ v ∈ k.fields, v < u32Bound) ∧ r <:+ bs := by
  induction n generalizing bs cs with
  | zero =>
    simp only [rdMembers, Option.some.injEq, Prod.mk.injEq] at h
    obtain ⟨rfl, rfl⟩ := h
    exact ⟨by simp, List.suffix_refl _⟩
  | succ n ih =>
    simp only [rdMembers] at h
    split at h
    · cases h
    · next fs r1 h1 =>
      split at h
      · next c cs' r2 hc h2 =>
        simp only [Option.some.injEq, Prod.mk.injEq] at h
        obtain ⟨rfl, rfl⟩ := h
        obtain ⟨a1, a2⟩ := rdFields_spec _ _ _ _ h1
        obtain ⟨b1, b2⟩ := ih _ _ h2
        refine ⟨?_, b2.trans a2⟩
        intro x hx
        rcases List.mem_cons.mp hx with rfl | hx
        · rw [RawMember.ofFields_fields _ _ hc]; exact a1
        · exact b1 x hx
      · cases h

theorem alignSkip_suffix (off : Nat) (rest r : Bytes) (h : alignSkip off rest = some r) :
    r <:+ rest := by
  unfold alignSkip at h
  split at h
  · cases h
  · cases h; exact List.drop_suffix _ _

theorem parse_spec (buf : Bytes) (c : Cache) (h : Cache.parse buf = .ok c) :
    c.strings <:+ buf ∧
    (∀ k ∈ c.classes, ∀ v ∈ k.fields, v < u32Bound) ∧
    (∀ m ∈ c.members, ∀ v ∈ m.fields, v < u32Bound) ∧
    (∀ m ∈ c.byParams, ∀ v ∈ m.fields, v < u32Bound) := by
  unfold Cache.parse at h
  split at h
  · next magic version nc nm nb sb r0 h0 =>
    split at h
    · cases h
    split at h
    · cases h
    split at h
    · cases h
    split at h
    · cases h
    next r1 h1 =>
    split at h
    · cases h
    split at h
    · cases h
    next classes r2 h2 =>
    simp only at h
    split at h
    · cases h
    next r3 h3 =>
    split at h
    · cases h
    split at h
    · cases h
    next members r4 h4 =>
    split at h
    · cases h
    next r5 h5 =>
    split at h
    · cases h
    split at h
    · cases h
    next byParams r6 h6 =>
    split at h
    · cases h
    next strings h7 =>
    split at h
    · cases h
    simp only [Except.ok.injEq] at h
    subst h
    have s0 := (rdFields_spec _ _ _ _ h0).2
    have s1 := alignSkip_suffix _ _ _ h1
    obtain ⟨f2, s2⟩ := rdClasses_spec _ _ _ _ h2
    have s3 := alignSkip_suffix _ _ _ h3
    obtain ⟨f4, s4⟩ := rdMembers_spec _ _ _ _ h4
    have s5 := alignSkip_suffix _ _ _ h5
    obtain ⟨f6, s6⟩ := rdMembers_spec _ _ _ _ h6
    have s7 := alignSkip_suffix _ _ _ h7
    exact ⟨s7.trans (s6.trans (s5.trans (s4.trans (s3.trans (s2.trans (s1.trans s0)))))),
      f2, f4, f6⟩
  · cases h

/-- the same at any address residue (`Cache.parseAt`) -/
theorem parseAt_spec (a : Nat) (buf : Bytes) (c : Cache) (h : Cache.parseAt a buf = .ok c) :
    c.strings <:+ buf ∧
    (∀ k ∈ c.classes, ∀ v ∈ k.fields, v < u32Bound) ∧
    (∀ m ∈ c.members, ∀ v ∈ m.fields, v < u32Bound) ∧
    (∀ m ∈ c.byParams, ∀ v ∈ m.fields, v < u32Bound) := by
  unfold Cache.parseAt at h
  split at h
  · cases h
  split at h
  · next magic version nc nm nb sb r0 h0 =>
    split at h
    · cases h
    split at h
    · cases h
    split at h
    · cases h
    split at h
    · cases h
    next r1 h1 =>
    split at h
    · cases h
    split at h
    · cases h
    next classes r2 h2 =>
    simp only at h
    split at h
    · cases h
    next r3 h3 =>
    split at h
    · cases h
    split at h
    · cases h
    next members r4 h4 =>
    split at h
    · cases h
    next r5 h5 =>
    split at h
    · cases h
    split at h
    · cases h
    next byParams r6 h6 =>
    split at h
    · cases h
    next strings h7 =>
    split at h
    · cases h
    simp only [Except.ok.injEq] at h
    subst h
    have s0 := (rdFields_spec _ _ _ _ h0).2
    have s1 := alignSkip_suffix _ _ _ h1
    obtain ⟨f2, s2⟩ := rdClasses_spec _ _ _ _ h2
    have s3 := alignSkip_suffix _ _ _ h3
    obtain ⟨f4, s4⟩ := rdMembers_spec _ _ _ _ h4
    have s5 := alignSkip_suffix _ _ _ h5
    obtain ⟨f6, s6⟩ := rdMembers_spec _ _ _ _ h6
    have s7 := alignSkip_suffix _ _ _ h7
    exact ⟨s7.trans (s6.trans (s5.trans (s4.trans (s3.trans (s2.trans (s1.trans s0)))))),
      f2, f4, f6⟩
  · cases h

/-! ### queries -/

theorem str_slice (c : Cache) (off : Nat) (s : Bytes) (h : c.str off = some s) :
    s <:+: c.strings := readString_slice _ _ _ h

theorem sliceOf_infix {α : Type} (l : List α) (a b : Nat) (r : List α)
    (h : Cache.sliceOf l a b = some r) : r <:+: l := by
  unfold Cache.sliceOf at h
  split at h
  · cases h
  · cases h; exact slice_infix _ _ _

theorem splitOnce_prefix (c : UInt8) (s a b : Bytes) (h : splitOnce c s = some (a, b)) :
    a <+: s := by
  unfold splitOnce at h
  split at h
  · cases h
  · cases h; exact List.takeWhile_prefix _

theorem rsplitOnce_suffix (c : UInt8) (s a b : Bytes) (h : rsplitOnce c s = some (a, b)) :
    b <:+ s := by
  unfold rsplitOnce at h
  split at h
  · cases h
  · next a' b' h' =>
    cases h
    have := splitOnce_prefix _ _ _ _ h'
    have := List.reverse_suffix.mpr this
    simpa using this

theorem extractClassName_infix (s : Bytes) : extractClassName s <:+: s := by
  unfold extractClassName
  refine (List.takeWhile_prefix _).isInfix.trans ?_
  split
  · next l h => exact (rsplitOnce_suffix _ _ _ _ h).isInfix
  · exact List.infix_refl _

theorem getD_str_slice (c : Cache) (off : Nat) (d : Bytes) :
    (c.str off).getD d <:+: c.strings ∨ (c.str off).getD d = d := by
  cases h : c.str off with
  | none => right; rfl
  | some s => left; exact str_slice c off s h

theorem satAdd_le (a b : Nat) : satAdd a b ≤ usizeMax := by
  unfold satAdd
  split
  · simp only [usizeBound, usizeMax] at *; omega
  · exact Nat.le_refl _

theorem lineFrame_spec (c : Cache) (fr : Frame) (m : RawMember) (f : Frame)
    (h : c.lineFrame fr m = some f) :
    (f.cls <:+: c.strings ∨ f.cls = fr.cls) ∧ f.method <:+: c.strings ∧
    (∀ x, f.file = some x → x <:+: c.strings ∨ x <:+: f.cls ∨ fr.file = some x) ∧
    f.params = fr.params ∧ (m.origStartline < usizeBound → f.line < usizeBound) := by
  unfold Cache.lineFrame at h
  split at h
  · cases h
  simp only at h
  split at h
  · next file method hf hm =>
    simp only [Option.some.injEq] at h
    subst h
    refine ⟨getD_str_slice _ _ _, str_slice _ _ _ hm, ?_, rfl, ?_⟩
    · intro x hx
      simp only at hx
      subst hx
      split at hf
      · split at hf
        · cases hf
        · next fname hfn =>
          split at hf
          · simp only [Option.some.injEq] at hf
            right; left; rw [← hf]; exact extractClassName_infix _
          · simp only [Option.some.injEq] at hf
            left; rw [← hf]; exact str_slice _ _ _ hfn
      · split at hf
        · cases hf
        · simp only [Option.some.injEq] at hf
          right; right; exact hf
    · intro hos
      simp only
      split
      · exact hos
      · have := satAdd_le m.origStartline fr.line
        simp only [usizeBound, usizeMax] at *; omega
  · cases h

theorem paramFrames_spec (c : Cache) (fr : Frame) (ms : List RawMember) :
    ∀ f ∈ c.paramFrames fr ms,
      (f.cls <:+: c.strings ∨ f.cls = fr.cls) ∧ f.method <:+: c.strings ∧
      f.file = none ∧ f.params = fr.params ∧ f.line = 0 := by
  induction ms with
  | nil => simp [Cache.paramFrames]
  | cons m ms ih =>
    intro f hf
    simp only [Cache.paramFrames] at hf
    split at hf
    · cases hf
    · next method hm =>
      rcases List.mem_cons.mp hf with rfl | hf
      · exact ⟨getD_str_slice _ _ _, str_slice _ _ _ hm, rfl, rfl, rfl⟩
      · exact ih f hf

theorem getClass_mem (c : Cache) (name : Bytes) (k : RawClass) (h : c.getClass name = some k) :
    k ∈ c.classes := by
  unfold Cache.getClass at h
  split at h
  · cases h
  · exact List.mem_of_getElem? h

/-- every frame returned by `remapFrame` is produced by `lineFrame` on a member of the cache
    or by `paramFrames`, from the query frame with its class replaced by a table string -/
theorem remapFrame_spec (c : Cache) (q : Frame) :
    ∀ f ∈ c.remapFrame q, ∃ orig, orig <:+: c.strings ∧
      ((∃ m ∈ c.members, c.lineFrame { q with cls := orig } m = some f) ∨
       (∃ ms, f ∈ c.paramFrames { q with cls := orig } ms)) := by
  intro f hf
  unfold Cache.remapFrame at hf
  split at hf
  · cases hf
  next k hk =>
  split at hf
  · cases hf
  next orig ho =>
  refine ⟨orig, str_slice _ _ _ ho, ?_⟩
  simp only at hf
  split at hf
  · next p hp =>
    split at hf
    · cases hf
    split at hf
    · cases hf
    next ms hms r hr =>
    right; exact ⟨r, hf⟩
  · next hp =>
    split at hf
    · cases hf
    next ms hms =>
    split at hf
    · cases hf
    next r hr =>
    left
    obtain ⟨m, hm, hmf⟩ := List.mem_filterMap.mp hf
    refine ⟨m, ?_, hmf⟩
    have h1 := (findRange_slice _ _ _ hr).1
    have h2 := sliceOf_infix _ _ _ _ hms
    exact (h1.trans h2).subset hm

end PG
