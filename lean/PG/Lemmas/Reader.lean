/-
  PG.Lemmas.Reader — helper lemmas about the cache reader model (used by PG.Props.C12).
-/
import PG.Model.CacheRead
import PG.Lemmas.ListBasics
namespace PG

/-! ### slices -/

theorem slice_infix {α : Type} (l : List α) (a b : Nat) : (l.drop a).take b <:+: l :=
  List.IsInfix.trans (List.take_prefix _ _).isInfix (List.drop_suffix _ _).isInfix

/-! ### binary search -/

theorem bsLoop_lt (f : Nat → Ordering) (n fuel size base : Nat)
    (h1 : 1 ≤ size) (h2 : base + size ≤ n) : bsLoop f fuel size base < n := by
  induction fuel generalizing size base with
  | zero => simp only [bsLoop]; omega
  | succ fuel ih =>
    simp only [bsLoop]
    split
    · next hs =>
      apply ih
      · omega
      · split <;> omega
    · omega

theorem binarySearch_ok (n : Nat) (f : Nat → Ordering) (i : Nat)
    (h : binarySearch n f = .ok i) : i < n ∧ f i = .eq := by
  unfold binarySearch at h
  split at h
  · cases h
  · next hn =>
    have hlt := bsLoop_lt f n n n 0 (by omega) (by omega)
    simp only at h
    split at h
    · next heq =>
      cases h
      exact ⟨hlt, heq⟩
    · cases h
    · cases h

theorem searchList_some {α : Type} (l : List α) (cmp : α → Ordering) (i : Nat)
    (h : searchList l cmp = some i) : ∃ x, l[i]? = some x ∧ cmp x = .eq := by
  unfold searchList at h
  split at h
  · next j hj =>
    cases h
    have := (binarySearch_ok _ _ _ hj).2
    simp only at this
    split at this
    · next x hx => exact ⟨x, hx, this⟩
    · cases this
  · cases h

theorem findRange_eq {α : Type} (l : List α) (cmp : α → Ordering) (r : List α)
    (h : findRange l cmp = some r) :
    ∃ mid x, l[mid]? = some x ∧ cmp x = .eq ∧
      r = ((l.take mid).reverse.takeWhile (fun x => cmp x == .eq)).reverse ++
          (l.drop mid).takeWhile (fun x => cmp x == .eq) := by
  unfold findRange at h
  split at h
  · cases h
  · next mid hm =>
    obtain ⟨x, hx, hc⟩ := searchList_some l cmp mid hm
    refine ⟨mid, x, hx, hc, ?_⟩
    simp only [Option.some.injEq] at h
    rw [← h]
    have hmid : mid < l.length := by
      rcases Nat.lt_or_ge mid l.length with h' | h'
      · exact h'
      · rw [List.getElem?_eq_none h'] at hx; cases hx
    generalize hp : (fun x => cmp x == Ordering.eq) = p
    generalize hT1 : (l.take mid).reverse.takeWhile p = T1
    generalize hT2 : (l.drop mid).takeWhile p = T2
    have hA : (l.take mid).length = mid := by simp; omega
    have hk1 : T1.length ≤ mid := by
      have := (List.takeWhile_prefix p (l := (l.take mid).reverse)).length_le
      rw [hT1] at this; simpa [hA] using this
    -- T1 is the first k1 of the reversed prefix
    have hT1' : (l.take mid).reverse.take T1.length = T1 := by
      have hpre := List.takeWhile_prefix p (l := (l.take mid).reverse)
      rw [hT1] at hpre
      obtain ⟨t, ht⟩ := hpre
      rw [← ht]; simp
    have hT2' : (l.drop mid).take T2.length = T2 := by
      have hpre := List.takeWhile_prefix p (l := l.drop mid)
      rw [hT2] at hpre
      obtain ⟨t, ht⟩ := hpre
      rw [← ht]; simp
    have hdrop : l.drop (mid - T1.length) = T1.reverse ++ l.drop mid := by
      conv => lhs; rw [← List.take_append_drop mid l]
      rw [List.drop_append_of_le_length (by omega)]
      congr 1
      rw [← hT1', List.reverse_take, List.reverse_reverse, hA]
    rw [hdrop]
    have : mid + T2.length - (mid - T1.length) = T1.reverse.length + T2.length := by
      simp; omega
    rw [this, List.take_append_eq_append_take]
    simp [hT2']

theorem findRange_slice {α : Type} (l : List α) (cmp : α → Ordering) (r : List α)
    (h : findRange l cmp = some r) : r <:+: l ∧ r ≠ [] ∧ ∀ x ∈ r, cmp x = .eq := by
  refine ⟨?_, ?_, ?_⟩
  · unfold findRange at h
    split at h
    · cases h
    · simp only [Option.some.injEq] at h
      rw [← h]; exact slice_infix _ _ _
  · obtain ⟨mid, x, hx, hc, rfl⟩ := findRange_eq l cmp r h
    have hmid : mid < l.length := by
      rcases Nat.lt_or_ge mid l.length with h' | h'
      · exact h'
      · rw [List.getElem?_eq_none h'] at hx; cases hx
    have : l.drop mid = x :: l.drop (mid + 1) := by
      rw [List.getElem?_eq_getElem hmid] at hx
      cases hx
      exact List.drop_eq_getElem_cons hmid
    rw [this, List.takeWhile_cons]
    simp [hc]
  · obtain ⟨mid, x, hx, hc, rfl⟩ := findRange_eq l cmp r h
    intro y hy
    rw [List.mem_append, List.mem_reverse] at hy
    rcases hy with hy | hy
    · have := List.mem_takeWhile_imp hy
      simpa using this
    · have := List.mem_takeWhile_imp hy
      simpa using this

end PG
