/-
  PG.Lemmas.TraceRT — round-trip lemmas for the stack-trace printer / parser:
  decimal numbers, `trim`, `stripPrefix`, `strLines`, `splitColonSpace`.
-/
import PG.Model.Trace
import PG.Lemmas.ListBasics
namespace PG

/-! ## decimal numbers -/

theorem isDigit_ofNat_digit : ∀ k, k < 10 → isDigit (UInt8.ofNat (48 + k)) = true := by decide

theorem toNat_ofNat_digit : ∀ k, k < 10 → (UInt8.ofNat (48 + k)).toNat - 48 = k := by decide

theorem natDigitsRev_all (fuel n : Nat) : (natDigitsRev fuel n).all isDigit = true := by
  induction fuel generalizing n with
  | zero => simp [natDigitsRev]
  | succ k ih =>
    simp only [natDigitsRev, List.all_cons, isDigit_ofNat_digit _ (Nat.mod_lt n (by decide)),
      Bool.true_and]
    split
    · rfl
    · exact ih _

theorem natDigitsRev_ne_nil (fuel n : Nat) : natDigitsRev (fuel + 1) n ≠ [] := by
  simp [natDigitsRev]

theorem natDigitsRev_value (fuel n : Nat) (h : n < fuel) :
    (natDigitsRev fuel n).foldr (fun d acc => acc * 10 + (d.toNat - 48)) 0 = n := by
  induction fuel generalizing n with
  | zero => omega
  | succ k ih =>
    simp only [natDigitsRev, List.foldr_cons, toNat_ofNat_digit _ (Nat.mod_lt n (by decide))]
    split
    · simp only [List.foldr_nil]; omega
    · rw [ih (n / 10) (by omega)]; omega

theorem natToDec_all (n : Nat) : (natToDec n).all isDigit = true := by
  unfold natToDec
  rw [List.all_reverse]
  exact natDigitsRev_all _ _

theorem natToDec_ne_nil (n : Nat) : natToDec n ≠ [] := by
  unfold natToDec
  simp [natDigitsRev_ne_nil]

theorem digitsToNat_natToDec (n : Nat) : digitsToNat (natToDec n) = n := by
  unfold natToDec digitsToNat
  rw [List.foldl_reverse]
  exact natDigitsRev_value (n + 1) n (by omega)

theorem natToDec_mem_isDigit (n : Nat) (b : UInt8) (h : b ∈ natToDec n) : isDigit b = true :=
  List.all_eq_true.mp (natToDec_all n) b h

theorem natToDec_no_lf (n : Nat) : 10 ∉ natToDec n := by
  intro h
  have := natToDec_mem_isDigit n 10 h
  revert this; decide

theorem parseUnsignedStr_natToDec (bound n : Nat) (h : n < bound) :
    parseUnsignedStr bound (natToDec n) = some n := by
  have hall := natToDec_all n
  have hne := natToDec_ne_nil n
  have hval := digitsToNat_natToDec n
  unfold parseUnsignedStr
  split
  · rename_i r heq
    rw [heq] at hall
    simp [isDigit] at hall
  · simp [hall, hval, h, hne]

/-! ## `stripPrefix` -/

theorem stripPrefix_append (p r : Bytes) : stripPrefix p (p ++ r) = some r := by
  induction p with
  | nil => cases r <;> rfl
  | cons a p ih => simp [stripPrefix, ih]

/-! ## `trim` -/

theorem trimStart_space (r : Bytes) : trimStart (32 :: r) = trimStart r := rfl
theorem trimStart_tab (r : Bytes) : trimStart (9 :: r) = trimStart r := rfl
theorem trimStart_a (r : Bytes) : trimStart (97 :: r) = 97 :: r := rfl
theorem trimStart_C (r : Bytes) : trimStart (67 :: r) = 67 :: r := rfl

theorem stripWsRev_paren (r : Bytes) : stripWsRev (41 :: r) = none := by
  unfold stripWsRev; split <;> simp_all
  · rename_i h; obtain ⟨rfl, _⟩ := h; simp
  · rename_i h; obtain ⟨rfl, _⟩ := h; decide

theorem trimEnd_paren (l : Bytes) : trimEnd (l ++ [41]) = l ++ [41] := by
  unfold trimEnd
  simp only [List.reverse_append, List.reverse_singleton, List.singleton_append,
    List.length_append, List.length_singleton]
  rw [trimEndRevFuel, stripWsRev_paren]
  simp

theorem stripWsRev_suffix (l r : Bytes) (h : stripWsRev l = some r) : r <:+ l := by
  unfold stripWsRev at h
  split at h
  · cases h; exact ⟨[_, _], rfl⟩
  · cases h; exact ⟨[_, _], rfl⟩
  · cases h; exact ⟨[_, _, _], rfl⟩
  · cases h; exact ⟨[_, _, _], rfl⟩
  · cases h; exact ⟨[_, _, _], rfl⟩
  · split at h
    · cases h; exact ⟨[_, _, _], rfl⟩
    · split at h
      · cases h; exact ⟨[_], rfl⟩
      · cases h
  · split at h
    · cases h; exact ⟨[_], rfl⟩
    · cases h
  · cases h

theorem trimEndRevFuel_suffix (n : Nat) (l : Bytes) : trimEndRevFuel n l <:+ l := by
  induction n generalizing l with
  | zero => exact List.suffix_refl _
  | succ k ih =>
    unfold trimEndRevFuel
    cases h : stripWsRev l with
    | none => exact List.suffix_refl _
    | some r => exact (ih r).trans (stripWsRev_suffix l r h)

theorem trimEnd_prefix (l : Bytes) : trimEnd l <+: l := by
  unfold trimEnd
  have := trimEndRevFuel_suffix l.length l.reverse
  have h2 := List.reverse_prefix.mpr this
  simpa using h2

/-- `trim` of an optional indentation followed by `a…)` -/
theorem trim_a_paren (l : Bytes) : trim (97 :: (l ++ [41])) = 97 :: (l ++ [41]) := by
  unfold trim
  rw [trimStart_a]
  exact trimEnd_paren (97 :: l)

theorem trim_indent_a_paren (l : Bytes) :
    trim (litIndent ++ 97 :: (l ++ [41])) = 97 :: (l ++ [41]) := by
  unfold trim
  show trimEnd (trimStart (32 :: 32 :: 32 :: 32 :: 97 :: (l ++ [41]))) = _
  rw [trimStart_space, trimStart_space, trimStart_space, trimStart_space, trimStart_a]
  exact trimEnd_paren (97 :: l)

theorem trim_tab_a_paren (l : Bytes) :
    trim (9 :: 97 :: (l ++ [41])) = 97 :: (l ++ [41]) := by
  unfold trim
  rw [trimStart_tab, trimStart_a]
  exact trimEnd_paren (97 :: l)

/-- a line starting with `C` is not a frame -/
theorem stripPrefix_litAt_trim_C (r : Bytes) : stripPrefix litAt (trim (67 :: r)) = none := by
  unfold trim
  rw [trimStart_C]
  obtain ⟨t, ht⟩ := trimEnd_prefix (67 :: r)
  cases hx : trimEnd (67 :: r) with
  | nil => rfl
  | cons b x =>
    rw [hx] at ht
    simp only [List.cons_append, List.cons.injEq] at ht
    rw [ht.1]
    rfl

/-! ## `splitColonSpace` -/

theorem splitColonSpace_first (c m : Bytes) (h : 32 ∉ c) :
    splitColonSpace (c ++ 58 :: 32 :: m) = some (c, m) := by
  induction c with
  | nil => simp [splitColonSpace]
  | cons b c ih =>
    have hb : b ≠ 32 := fun e => h (by simp [e])
    have hc : 32 ∉ c := fun e => h (by simp [e])
    cases c with
    | nil =>
      have := ih hc
      simp only [List.nil_append] at this
      simp only [List.cons_append, List.nil_append]
      rw [splitColonSpace]
      · rw [this]
      · intro r hb' hr; cases hr
    | cons d c' =>
      have hd : d ≠ 32 := fun e => hc (by simp [e])
      have := ih hc
      simp only [List.cons_append] at this ⊢
      rw [splitColonSpace]
      · rw [this]
      · intro r hb' hr
        simp only [List.cons.injEq] at hr
        exact hd hr.1

theorem splitColonSpace_none (c : Bytes) (h : 32 ∉ c) : splitColonSpace c = none := by
  induction c with
  | nil => rfl
  | cons b c ih =>
    have hc : 32 ∉ c := fun e => h (by simp [e])
    rw [splitColonSpace]
    · rw [ih hc]
    · intro r hb hr
      subst hr
      exact hc (by simp)

theorem splitColonSpace_at (r : Bytes) :
    splitColonSpace (97 :: 116 :: 32 :: r) =
      match splitColonSpace r with
      | none => none
      | some (a, c) => some (97 :: 116 :: 32 :: a, c) := by
  simp [splitColonSpace]
  cases splitColonSpace r with
  | none => rfl
  | some p => rfl

/-- a trimmed line starting with `at ` is not a throwable -/
theorem parseThrowable_at (line r : Bytes) (h : trim line = 97 :: 116 :: 32 :: r) :
    parseThrowable line = none := by
  unfold parseThrowable
  simp only [h, splitColonSpace_at]
  cases splitColonSpace r with
  | none => simp
  | some p => simp

/-! ## `strLines` -/

theorem strLines_cons_line (l rest : Bytes) (h10 : 10 ∉ l) (h13 : l.getLast? ≠ some 13) :
    strLines (l ++ 10 :: rest) = l :: strLines rest := by
  induction l with
  | nil => simp [strLines]
  | cons b l ih =>
    have hb : b ≠ 10 := fun e => h10 (by simp [e])
    have hl : 10 ∉ l := fun e => h10 (by simp [e])
    cases l with
    | nil =>
      have hb13 : b ≠ 13 := fun e => h13 (by simp [e])
      simp only [List.cons_append, List.nil_append]
      rw [strLines]
      · simp [strLines]
      · exact hb
      · intro bs hb' _; exact hb13 hb'
    | cons d l' =>
      have hd : d ≠ 10 := fun e => hl (by simp [e])
      have h13' : (d :: l').getLast? ≠ some 13 := by
        simpa [List.getLast?_cons_cons] using h13
      have := ih hl h13'
      simp only [List.cons_append] at this ⊢
      rw [strLines]
      · rw [this]
      · exact hb
      · intro bs _ hr
        simp only [List.cons.injEq] at hr
        exact hd hr.1

theorem strLines_join (ls : List Bytes)
    (h : ∀ l ∈ ls, 10 ∉ l ∧ l.getLast? ≠ some 13) :
    strLines (ls.map (fun l => l ++ [10])).flatten = ls := by
  induction ls with
  | nil => rfl
  | cons l ls ih =>
    have hl := h l (by simp)
    simp only [List.map_cons, List.flatten_cons, List.append_assoc, List.singleton_append]
    rw [strLines_cons_line l _ hl.1 hl.2, ih (fun x hx => h x (by simp [hx]))]

/-! ## frames -/

/-- the part of a printed frame between `at ` and the closing parenthesis -/
def frameInner (cls method file : Bytes) (n : Nat) : Bytes :=
  (cls ++ 46 :: method) ++ 40 :: (file ++ 58 :: natToDec n)

theorem printFrame_eq (f : Frame) (file : Bytes) (h : f.file = some file) :
    printFrame f = 97 :: ((116 :: 32 :: frameInner f.cls f.method file f.line) ++ [41]) := by
  simp [printFrame, frameInner, h, litAt]

theorem parseFrame_core (line cls method file : Bytes) (n : Nat)
    (hc : 40 ∉ cls) (hm : 40 ∉ method) (hd : 46 ∉ method) (hf : 58 ∉ file) (hn : n < usizeBound)
    (ht : trim line = 97 :: ((116 :: 32 :: frameInner cls method file n) ++ [41])) :
    parseFrame line = some ⟨cls, method, n, some file, none⟩ := by
  unfold parseFrame
  have h1 : stripPrefix litAt (trim line) = some (frameInner cls method file n ++ [41]) := by
    rw [ht]; exact stripPrefix_append litAt _
  have h40 : 40 ∉ cls ++ 46 :: method := by
    simp only [List.mem_append, List.mem_cons]
    rintro (h | h | h)
    · exact hc h
    · exact absurd h (by decide)
    · exact hm h
  simp only [h1, List.reverse_append, List.reverse_singleton, List.singleton_append,
    List.reverse_reverse]
  unfold frameInner
  simp only [splitOnce_first 40 _ _ h40, rsplitOnce_last 46 _ _ hd, splitOnce_first 58 _ _ hf,
    parseUnsignedStr_natToDec _ _ hn]

/-! ## more `trim` facts: a trimmed string does not end with a carriage return -/

theorem stripWsRev_length (l r : Bytes) (h : stripWsRev l = some r) : r.length < l.length := by
  unfold stripWsRev at h
  split at h
  · cases h; simp; omega
  · cases h; simp; omega
  · cases h; simp; omega
  · cases h; simp; omega
  · cases h; simp; omega
  · split at h
    · cases h; simp; omega
    · split at h
      · cases h; simp
      · cases h
  · split at h
    · cases h; simp
    · cases h
  · cases h

theorem trimEndRevFuel_fixed (n : Nat) (l : Bytes) (h : l.length ≤ n) :
    stripWsRev (trimEndRevFuel n l) = none := by
  induction n generalizing l with
  | zero =>
    have : l = [] := List.eq_nil_of_length_eq_zero (by omega)
    subst this; rfl
  | succ k ih =>
    unfold trimEndRevFuel
    cases hs : stripWsRev l with
    | none => exact hs
    | some r =>
      have := stripWsRev_length l r hs
      exact ih r (by omega)

theorem stripWsRev_cr (r : Bytes) : stripWsRev (13 :: r) ≠ none := by
  unfold stripWsRev; split <;> simp_all
  · rename_i h; obtain ⟨rfl, _⟩ := h; simp
  · rename_i h; obtain ⟨rfl, _⟩ := h; decide

theorem trimEnd_getLast (x : Bytes) : (trimEnd x).getLast? ≠ some 13 := by
  intro h
  unfold trimEnd at h
  rw [List.getLast?_reverse] at h
  have hfix := trimEndRevFuel_fixed x.reverse.length x.reverse (Nat.le_refl _)
  rw [List.length_reverse] at hfix
  cases hr : trimEndRevFuel x.length x.reverse with
  | nil => rw [hr] at h; cases h
  | cons b r =>
    rw [hr] at h hfix
    simp only [List.head?_cons, Option.some.injEq] at h
    subst h
    exact stripWsRev_cr r hfix

theorem trimmed_getLast (p : Bytes) (h : trim p = p) : p.getLast? ≠ some 13 := by
  rw [← h]; unfold trim; exact trimEnd_getLast _

/-! ## the lines of a printed trace -/

def joinLines (ls : List Bytes) : Bytes := (ls.map (fun l => l ++ [10])).flatten

theorem joinLines_append (a b : List Bytes) : joinLines (a ++ b) = joinLines a ++ joinLines b := by
  simp [joinLines]

theorem joinLines_cons (l : Bytes) (ls : List Bytes) :
    joinLines (l :: ls) = l ++ 10 :: joinLines ls := by
  simp [joinLines]

theorem joinLines_nil : joinLines [] = [] := rfl

theorem joinLines_flatMap {α : Type} (xs : List α) (g : α → List Bytes) :
    joinLines (xs.flatMap g) = (xs.map (fun x => joinLines (g x))).flatten := by
  induction xs with
  | nil => rfl
  | cons x xs ih => simp [List.flatMap_cons, joinLines_append, ih]

def frameLines (fs : List Frame) : List Bytes := fs.map (fun f => litIndent ++ printFrame f)

def excLines : Option Throwable → List Bytes
  | some e => [printThrowable e]
  | none => []

def segLines (s : Seg) : List Bytes := excLines s.exception ++ frameLines s.frames

def causeLines (c : Seg) : List Bytes :=
  (litCausedBy ++ (match c.exception with | some e => printThrowable e | none => [])) ::
    frameLines c.frames

def traceLines (t : Trace) : List Bytes := segLines t.top ++ t.causes.flatMap causeLines

theorem frames_join (fs : List Frame) :
    (fs.map (fun f => litIndent ++ printFrame f ++ [10])).flatten = joinLines (frameLines fs) := by
  simp [joinLines, frameLines, List.map_map, Function.comp_def]

theorem printSeg_eq_join (s : Seg) : printSeg s = joinLines (segLines s) := by
  unfold printSeg segLines
  rw [joinLines_append, frames_join]
  cases s.exception <;> simp [excLines, joinLines]

theorem causeSeg_eq_join (c : Seg) (h : c.exception.isSome = true) :
    litCausedBy ++ printSeg c = joinLines (causeLines c) := by
  unfold printSeg causeLines
  rw [joinLines_cons, frames_join]
  cases hc : c.exception with
  | none => simp [hc] at h
  | some e => simp

theorem printTrace_eq_join (t : Trace) (h : ∀ c ∈ t.causes, c.exception.isSome = true) :
    printTrace t = joinLines (traceLines t) := by
  unfold printTrace traceLines
  rw [joinLines_append, printSeg_eq_join, joinLines_flatMap]
  congr 2
  apply List.map_congr_left
  intro c hc
  exact causeSeg_eq_join c (h c hc)

end PG
