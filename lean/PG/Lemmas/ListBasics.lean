/-
  PG.Lemmas.ListBasics — small list lemmas used across the proofs.
-/
import PG.Model.Basic
namespace PG

theorem takeWhile_stop {α : Type} (p : α → Bool) (l : List α) (c : α) (r : List α)
    (hl : ∀ a ∈ l, p a = true) (hc : p c = false) : (l ++ c :: r).takeWhile p = l := by
  rw [List.takeWhile_append_of_pos hl]
  simp [List.takeWhile_cons, hc]

theorem dropWhile_stop {α : Type} (p : α → Bool) (l : List α) (c : α) (r : List α)
    (hl : ∀ a ∈ l, p a = true) (hc : p c = false) : (l ++ c :: r).dropWhile p = c :: r := by
  rw [List.dropWhile_append_of_pos hl]
  simp [List.dropWhile_cons, hc]

theorem takeWhile_all {α : Type} (p : α → Bool) (l : List α) (hl : ∀ a ∈ l, p a = true) :
    l.takeWhile p = l := by
  have := List.takeWhile_append_of_pos (p := p) (l₁ := l) (l₂ := []) hl
  simpa using this

theorem dropWhile_all {α : Type} (p : α → Bool) (l : List α) (hl : ∀ a ∈ l, p a = true) :
    l.dropWhile p = [] := by
  have := List.dropWhile_append_of_pos (p := p) (l₁ := l) (l₂ := []) hl
  simpa using this

theorem splitOnce_first (c : UInt8) (a b : Bytes) (h : c ∉ a) :
    splitOnce c (a ++ c :: b) = some (a, b) := by
  unfold splitOnce
  have hl : ∀ x ∈ a, (x != c) = true := by
    intro x hx
    have : x ≠ c := by intro e; subst e; exact h hx
    simpa using this
  rw [dropWhile_stop _ a c b hl (by simp), takeWhile_stop _ a c b hl (by simp)]

theorem splitOnce_none (c : UInt8) (a : Bytes) (h : c ∉ a) : splitOnce c a = none := by
  unfold splitOnce
  have hl : ∀ x ∈ a, (x != c) = true := by
    intro x hx
    have : x ≠ c := by intro e; subst e; exact h hx
    simpa using this
  rw [dropWhile_all _ a hl]

theorem rsplitOnce_last (c : UInt8) (a b : Bytes) (h : c ∉ b) :
    rsplitOnce c (a ++ c :: b) = some (a, b) := by
  unfold rsplitOnce
  have : (a ++ c :: b).reverse = b.reverse ++ c :: a.reverse := by simp
  rw [this, splitOnce_first c b.reverse a.reverse (by simpa using h)]
  simp

theorem rsplitOnce_none (c : UInt8) (a : Bytes) (h : c ∉ a) : rsplitOnce c a = none := by
  unfold rsplitOnce
  rw [splitOnce_none c a.reverse (by simpa using h)]

end PG
