/-
  Helper lemmas about `writeAll` / `writeChunksTo` (used by PG/Props/C15.lean).
-/
import PG.Model.CacheWrite
namespace PG

variable {σ : Type}

/-- `writeAll` delivers `acc` plus a prefix of the buffer, the whole buffer on success -/
theorem writeAll_spec (sink : σ → Nat → Resp × σ) (fuel : Nat) (s : σ) (acc buf : Bytes) :
    ∃ p, (writeAll sink fuel s acc buf).accepted = acc ++ p ∧ p <+: buf ∧
      ((writeAll sink fuel s acc buf).result = .ok → p = buf) := by
  induction fuel generalizing s acc buf with
  | zero =>
    cases buf with
    | nil => exact ⟨[], by simp [writeAll]⟩
    | cons b bs => exact ⟨[], by simp [writeAll]⟩
  | succ fuel ih =>
    cases buf with
    | nil => exact ⟨[], by simp [writeAll]⟩
    | cons b bs =>
      unfold writeAll
      split
      · rename_i k s' _
        split
        · exact ⟨[], by simp⟩
        · obtain ⟨p, h1, h2, h3⟩ := ih s' (acc ++ (b :: bs).take k) ((b :: bs).drop k)
          refine ⟨(b :: bs).take k ++ p, ?_, ?_, ?_⟩
          · rw [h1, List.append_assoc]
          · have : (b :: bs).take k ++ p <+: (b :: bs).take k ++ (b :: bs).drop k :=
              (List.prefix_append_right_inj _).mpr h2
            rwa [List.take_append_drop] at this
          · intro h
            rw [h3 h, List.take_append_drop]
      · rename_i s' _
        exact ih s' acc (b :: bs)
      · exact ⟨[], by simp⟩

/-- lifted to a chunk sequence -/
theorem writeChunksTo_spec (sink : σ → Nat → Resp × σ) (fuel : Nat) (s : σ) (acc : Bytes)
    (chunks : List Bytes) :
    ∃ p, (writeChunksTo sink fuel s acc chunks).accepted = acc ++ p ∧ p <+: chunks.flatten ∧
      ((writeChunksTo sink fuel s acc chunks).result = .ok → p = chunks.flatten) := by
  induction chunks generalizing s acc with
  | nil => exact ⟨[], by simp [writeChunksTo]⟩
  | cons c cs ih =>
    obtain ⟨p, h1, h2, h3⟩ := writeAll_spec sink fuel s acc c
    unfold writeChunksTo
    simp only
    split
    · rename_i hok
      obtain ⟨q, g1, g2, g3⟩ := ih (writeAll sink fuel s acc c).state (writeAll sink fuel s acc c).accepted
      have hp := h3 hok
      subst hp
      refine ⟨p ++ q, ?_, ?_, ?_⟩
      · rw [g1, h1, List.append_assoc]
      · rw [List.flatten_cons]
        exact (List.prefix_append_right_inj _).mpr g2
      · intro h
        rw [g3 h, List.flatten_cons]
    · rename_i hne
      refine ⟨p, h1, ?_, ?_⟩
      · rw [List.flatten_cons]
        exact List.IsPrefix.trans h2 (List.prefix_append _ _)
      · intro h
        exact absurd h (by simpa using hne)

/-! ### sinks that always make progress -/

theorem writeAll_progress (sink : σ → Nat → Resp × σ)
    (hs : ∀ st len, ∃ k st', k ≥ 1 ∧ sink st len = (.accept k, st'))
    (fuel : Nat) (s : σ) (acc buf : Bytes) (hf : buf.length ≤ fuel) :
    (writeAll sink fuel s acc buf).result = .ok := by
  induction fuel generalizing s acc buf with
  | zero =>
    cases buf with
    | nil => simp [writeAll]
    | cons b bs => simp at hf
  | succ fuel ih =>
    cases buf with
    | nil => simp [writeAll]
    | cons b bs =>
      obtain ⟨k, st', hk, he⟩ := hs s (b :: bs).length
      unfold writeAll
      rw [he]
      simp only
      have hk0 : k ≠ 0 := by omega
      rw [if_neg hk0]
      apply ih
      simp only [List.length_drop, List.length_cons] at hf ⊢
      omega

theorem length_le_flatten_of_mem {c : Bytes} {chunks : List Bytes} (h : c ∈ chunks) :
    c.length ≤ chunks.flatten.length := by
  induction chunks with
  | nil => simp at h
  | cons d ds ih =>
    simp only [List.flatten_cons, List.length_append]
    rcases List.mem_cons.mp h with rfl | h'
    · omega
    · have := ih h'
      omega

theorem writeChunksTo_progress (sink : σ → Nat → Resp × σ)
    (hs : ∀ st len, ∃ k st', k ≥ 1 ∧ sink st len = (.accept k, st'))
    (fuel : Nat) (s : σ) (acc : Bytes) (chunks : List Bytes)
    (hf : ∀ c ∈ chunks, c.length ≤ fuel) :
    (writeChunksTo sink fuel s acc chunks).result = .ok := by
  induction chunks generalizing s acc with
  | nil => simp [writeChunksTo]
  | cons c cs ih =>
    have hc := writeAll_progress sink hs fuel s acc c (hf c (by simp))
    unfold writeChunksTo
    simp only [hc]
    exact ih _ _ (fun d hd => hf d (by simp [hd]))

/-! ### the instrumented sink -/

/-- (same definition as `logFail` in C15, stated on the raw lambda so this file is standalone) -/
def logFail' (sink : σ → Nat → Resp × σ) : (σ × Bool) → Nat → Resp × (σ × Bool) :=
  fun st len =>
    let r := sink st.1 len
    (r.1, (r.2, st.2 || r.1 == .fail))

theorem writeAll_logFail (sink : σ → Nat → Resp × σ) (fuel : Nat) (s : σ) (b : Bool)
    (acc buf : Bytes) :
    (writeAll (logFail' sink) fuel (s, b) acc buf).result = (writeAll sink fuel s acc buf).result ∧
    (writeAll (logFail' sink) fuel (s, b) acc buf).accepted = (writeAll sink fuel s acc buf).accepted ∧
    (writeAll (logFail' sink) fuel (s, b) acc buf).state.1 = (writeAll sink fuel s acc buf).state ∧
    ((writeAll (logFail' sink) fuel (s, b) acc buf).state.2 = true →
      b = true ∨ (writeAll sink fuel s acc buf).result = .failed) := by
  induction fuel generalizing s acc buf with
  | zero =>
    cases buf with
    | nil => simp [writeAll]
    | cons x xs => simp [writeAll]
  | succ fuel ih =>
    cases buf with
    | nil => simp [writeAll]
    | cons x xs =>
      cases hr : sink s (x :: xs).length with
      | mk r s' =>
        have hl : logFail' sink (s, b) (x :: xs).length = (r, (s', b || r == .fail)) := by
          simp only [logFail', hr]
        unfold writeAll
        rw [hl, hr]
        cases r with
        | accept k =>
          have e : (b || Resp.accept k == Resp.fail) = b := by
            cases b <;> simp
          rw [e]
          simp only
          split
          · simp
          · exact ih s' _ _
        | interrupted =>
          have e : (b || Resp.interrupted == Resp.fail) = b := by
            cases b <;> simp
          rw [e]
          exact ih s' _ _
        | fail => simp

theorem writeChunksTo_logFail (sink : σ → Nat → Resp × σ) (fuel : Nat) (s : σ) (b : Bool)
    (acc : Bytes) (chunks : List Bytes) :
    (writeChunksTo (logFail' sink) fuel (s, b) acc chunks).result
      = (writeChunksTo sink fuel s acc chunks).result ∧
    (writeChunksTo (logFail' sink) fuel (s, b) acc chunks).accepted
      = (writeChunksTo sink fuel s acc chunks).accepted ∧
    (writeChunksTo (logFail' sink) fuel (s, b) acc chunks).state.1
      = (writeChunksTo sink fuel s acc chunks).state ∧
    ((writeChunksTo (logFail' sink) fuel (s, b) acc chunks).state.2 = true →
      b = true ∨ (writeChunksTo sink fuel s acc chunks).result = .failed) := by
  induction chunks generalizing s b acc with
  | nil => simp [writeChunksTo]
  | cons c cs ih =>
    obtain ⟨h1, h2, h3, h4⟩ := writeAll_logFail sink fuel s b acc c
    unfold writeChunksTo
    simp only
    rw [h1]
    split
    · rename_i hok
      have hst : (writeAll (logFail' sink) fuel (s, b) acc c).state
          = ((writeAll sink fuel s acc c).state, (writeAll (logFail' sink) fuel (s, b) acc c).state.2) := by
        rw [← h3]
      rw [hst, h2]
      obtain ⟨g1, g2, g3, g4⟩ := ih (writeAll sink fuel s acc c).state
        (writeAll (logFail' sink) fuel (s, b) acc c).state.2 (writeAll sink fuel s acc c).accepted
      refine ⟨g1, g2, g3, ?_⟩
      intro h
      rcases g4 h with g | g
      · rcases h4 g with g' | g'
        · exact Or.inl g'
        · rw [hok] at g'; exact absurd g' (by decide)
      · exact Or.inr g
    · exact ⟨h1, h2, h3, h4⟩

end PG
