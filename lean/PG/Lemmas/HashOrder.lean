/-
  Hash-ordered containers (`HashMap`, `HashSet`) are modelled as lists (DESIGN §3).  A hash
  container's internal order depends on the process's hash seed, so the model is faithful only if
  the code never observes that order.  This file makes that precise:

  * `contains_perm`, `lookup_perm`, `insertNew_perm`: membership, lookup (unique keys) and
    insert-if-absent give the same answers / equivalent states for any two internal orders;
  * `hash_ops_order_free`: every operation the *current source* applies to a hash container
    (extracted on every run into `PG/Generated/HashOps.lean`) is one of those order-free
    operations — no iteration, no `drain`, no `for … in`.
-/
import PG.Generated.HashOps
namespace PG

/-- membership does not depend on the internal order -/
theorem contains_perm {α : Type} [BEq α] [LawfulBEq α] {l₁ l₂ : List α} (h : l₁.Perm l₂) (x : α) :
    l₁.contains x = l₂.contains x := by
  have := h.mem_iff (a := x)
  by_cases h1 : x ∈ l₁
  · have h2 := this.mp h1
    simp [h1, h2]
  · have h2 : x ∉ l₂ := fun hh => h1 (this.mpr hh)
    simp [h1, h2]

/-- lookup in a map with unique keys does not depend on the internal order -/
theorem lookup_perm {α β : Type} [BEq α] [LawfulBEq α] {l₁ l₂ : List (α × β)} (h : l₁.Perm l₂)
    (nd : (l₁.map Prod.fst).Nodup) (k : α) : l₁.lookup k = l₂.lookup k := by
  induction h with
  | nil => rfl
  | cons x _ ih =>
    obtain ⟨a, b⟩ := x
    simp only [List.map_cons, List.nodup_cons] at nd
    simp only [List.lookup_cons]
    split
    · rfl
    · exact ih nd.2
  | swap x y l =>
    obtain ⟨a, b⟩ := x
    obtain ⟨c, d⟩ := y
    simp only [List.map_cons, List.nodup_cons, List.mem_cons, not_or] at nd
    simp only [List.lookup_cons]
    by_cases h1 : k == c <;> by_cases h2 : k == a <;> simp [h1, h2]
    have e1 : k = c := by simpa using h1
    have e2 : k = a := by simpa using h2
    exact absurd (e1.symm.trans e2) nd.1.1
  | trans h₁ _ ih₁ ih₂ =>
    rw [ih₁ nd, ih₂ ((h₁.map Prod.fst).nodup_iff.mp nd)]

/-- `HashSet::insert` as the code uses it: returns whether the value was new; the new state is
    *some* list holding the old elements and, if new, the value — at a position the hash chooses -/
def insertNewAt {α : Type} [BEq α] (pos : Nat) (x : α) (l : List α) : Bool × List α :=
  if l.contains x then (false, l) else (true, l.take pos ++ x :: l.drop pos)

/-- whatever positions two hash seeds choose, `insert` answers the same and leaves equivalent
    (permutation-equal) states -/
theorem insertNew_perm {α : Type} [BEq α] [LawfulBEq α] {l₁ l₂ : List α} (h : l₁.Perm l₂)
    (p₁ p₂ : Nat) (x : α) :
    (insertNewAt p₁ x l₁).1 = (insertNewAt p₂ x l₂).1 ∧
    (insertNewAt p₁ x l₁).2.Perm (insertNewAt p₂ x l₂).2 := by
  unfold insertNewAt
  rw [contains_perm h x]
  split
  · exact ⟨rfl, h⟩
  · refine ⟨rfl, ?_⟩
    have a1 : (l₁.take p₁ ++ x :: l₁.drop p₁).Perm (x :: l₁) := by
      have := List.perm_middle (a := x) (l₁ := l₁.take p₁) (l₂ := l₁.drop p₁)
      simpa using this
    have a2 : (l₂.take p₂ ++ x :: l₂.drop p₂).Perm (x :: l₂) := by
      have := List.perm_middle (a := x) (l₁ := l₂.take p₂) (l₂ := l₂.drop p₂)
      simpa using this
    exact a1.trans ((h.cons x).trans a2.symm)

/-- operations on a hash container whose result cannot depend on its internal order -/
def orderFreeOps : List (List Nat) :=
  [[105, 110, 115, 101, 114, 116],                                   -- insert
   [99, 111, 110, 116, 97, 105, 110, 115],                           -- contains
   [99, 111, 110, 116, 97, 105, 110, 115, 95, 107, 101, 121],        -- contains_key
   [103, 101, 116],                                                  -- get
   [103, 101, 116, 95, 109, 117, 116],                               -- get_mut
   [101, 110, 116, 114, 121],                                        -- entry
   [99, 108, 101, 97, 114],                                          -- clear
   [114, 101, 109, 111, 118, 101],                                   -- remove
   [108, 101, 110],                                                  -- len
   [105, 115, 95, 101, 109, 112, 116, 121],                          -- is_empty
   [114, 101, 115, 101, 114, 118, 101]]                              -- reserve

/-- Tie to the source as it is now: the extractor ran, and every operation the non-test code
    applies to a `HashMap` / `HashSet` it declares is order-free (in particular there is no
    `iter`, `keys`, `values`, `drain`, `into_iter`, `retain` or `for … in`). -/
theorem hash_ops_order_free :
    Generated.hashExtractorOk = true ∧ ∀ op ∈ Generated.hashOps, op.2.2 ∈ orderFreeOps := by
  decide

/-- non-vacuity: the extractor found the containers DESIGN §3 talks about -/
example : Generated.hashDecls ≥ 4 ∧ Generated.hashOps.length ≥ 6 := by decide

end PG
