/-
  PG.Lemmas.CacheQueries0 — helper lemmas for PG.Lemmas.CacheQueries: `mapM` on `Option`,
  a pointwise list relation, the view of a class / member, the per-entry equivalence of the
  reader's `lineFrame` with the specification.
-/
import PG.Spec.CacheView
import PG.Lemmas.BSearch
import PG.Lemmas.Sorted
import PG.Lemmas.StrTab
namespace PG

/-! ### `List.mapM` into `Option` -/

theorem mapM_cons_some {α β : Type} (f : α → Option β) (a : α) (l : List α) (r : List β) :
    (a :: l).mapM f = some r ↔ ∃ b bs, f a = some b ∧ l.mapM f = some bs ∧ r = b :: bs := by
  rw [List.mapM_cons]
  cases h1 : f a with
  | none => simp
  | some b =>
    cases h2 : l.mapM f with
    | none => simp
    | some bs => simp [eq_comm]

theorem mapM_nil_some {α β : Type} (f : α → Option β) (r : List β) :
    ([] : List α).mapM f = some r ↔ r = [] := by
  rw [List.mapM_nil]
  constructor
  · intro h; cases h; rfl
  · intro h; subst h; rfl

theorem mapM_getElem? {α β : Type} (f : α → Option β) (l : List α) (r : List β)
    (h : l.mapM f = some r) (i : Nat) (x : α) (hx : l[i]? = some x) :
    ∃ y, r[i]? = some y ∧ f x = some y := by
  induction l generalizing r i with
  | nil => simp at hx
  | cons a l ih =>
    obtain ⟨b, bs, hb, hbs, rfl⟩ := (mapM_cons_some f a l r).mp h
    cases i with
    | zero =>
      simp only [List.getElem?_cons_zero, Option.some.injEq] at hx
      subst hx
      exact ⟨b, by simp, hb⟩
    | succ i =>
      simp only [List.getElem?_cons_succ] at hx ⊢
      exact ih bs hbs i hx

theorem mapM_mem {α β : Type} (f : α → Option β) (l : List α) (r : List β)
    (h : l.mapM f = some r) (x : α) (hx : x ∈ l) : ∃ y ∈ r, f x = some y := by
  obtain ⟨i, hi, rfl⟩ := List.getElem_of_mem hx
  obtain ⟨y, hy, hf⟩ := mapM_getElem? f l r h i l[i] (List.getElem?_eq_getElem hi)
  exact ⟨y, List.mem_of_getElem? hy, hf⟩

theorem mapM_filter {α β : Type} (f : α → Option β) (p : α → Bool) (q : β → Bool) (l : List α)
    (r : List β) (h : l.mapM f = some r) (hpq : ∀ x ∈ l, ∀ y, f x = some y → p x = q y) :
    (l.filter p).mapM f = some (r.filter q) := by
  induction l generalizing r with
  | nil =>
    rw [(mapM_nil_some f r).mp h]
    rfl
  | cons a l ih =>
    obtain ⟨b, bs, hb, hbs, rfl⟩ := (mapM_cons_some f a l r).mp h
    have ih' := ih bs hbs (fun x hx => hpq x (List.mem_cons_of_mem _ hx))
    have hab := hpq a List.mem_cons_self b hb
    by_cases hp : p a = true
    · rw [List.filter_cons_of_pos hp, List.filter_cons_of_pos (by rw [← hab]; exact hp)]
      exact (mapM_cons_some _ _ _ _).mpr ⟨b, _, hb, ih', rfl⟩
    · rw [List.filter_cons_of_neg hp, List.filter_cons_of_neg (by rw [← hab]; exact hp)]
      exact ih'

theorem mapM_monoCmp {α β : Type} (f : α → Option β) (l : List α) (r : List β)
    (h : l.mapM f = some r) (cmp : α → Ordering) (cmp' : β → Ordering)
    (hc : ∀ x ∈ l, ∀ y, f x = some y → cmp x = cmp' y) (hm : MonoCmp r cmp') : MonoCmp l cmp := by
  intro i j x y hij hx hy
  obtain ⟨x', hx', hfx⟩ := mapM_getElem? f l r h i x hx
  obtain ⟨y', hy', hfy⟩ := mapM_getElem? f l r h j y hy
  rw [hc x (List.mem_of_getElem? hx) x' hfx, hc y (List.mem_of_getElem? hy) y' hfy]
  exact hm i j x' y' hij hx' hy'

/-! ### a pointwise relation between two lists -/

inductive F2 {α β : Type} (R : α → β → Prop) : List α → List β → Prop
  | nil : F2 R [] []
  | cons {a b l1 l2} : R a b → F2 R l1 l2 → F2 R (a :: l1) (b :: l2)

theorem F2.imp {α β : Type} {R S : α → β → Prop} {l1 : List α} {l2 : List β}
    (h : F2 R l1 l2) (hi : ∀ a b, R a b → S a b) : F2 S l1 l2 := by
  induction h with
  | nil => exact .nil
  | cons hab _ ih => exact .cons (hi _ _ hab) ih

theorem F2_of_views_aux {α β γ δ : Type} (f : α → Option β) (g : β → δ) (h : γ → δ)
    (W' : List β) (E' : List γ) (r : List α) (W : List β) (E : List γ)
    (hW : ∀ w ∈ W, w ∈ W') (hE : ∀ e ∈ E, e ∈ E')
    (h1 : r.mapM f = some W) (h2 : W.map g = E.map h) :
    F2 (fun m e => ∃ w ∈ W', f m = some w ∧ g w = h e ∧ e ∈ E') r E := by
  induction r generalizing W E with
  | nil =>
    rw [(mapM_nil_some f W).mp h1] at h2
    cases E with
    | nil => exact .nil
    | cons e E => simp at h2
  | cons a r ih =>
    obtain ⟨b, bs, hb, hbs, rfl⟩ := (mapM_cons_some f a r W).mp h1
    cases E with
    | nil => simp at h2
    | cons e E =>
      simp only [List.map_cons, List.cons.injEq] at h2
      refine .cons ⟨b, hW b List.mem_cons_self, hb, h2.1, hE e List.mem_cons_self⟩ ?_
      exact ih bs E (fun w hw => hW w (List.mem_cons_of_mem _ hw))
        (fun x hx => hE x (List.mem_cons_of_mem _ hx)) hbs h2.2

/-- from `r.mapM f = some W` and `W.map g = E.map h`: `r` and `E` correspond pointwise -/
theorem F2_of_views {α β γ δ : Type} (f : α → Option β) (g : β → δ) (h : γ → δ)
    (r : List α) (W : List β) (E : List γ)
    (h1 : r.mapM f = some W) (h2 : W.map g = E.map h) :
    F2 (fun m e => ∃ w ∈ W, f m = some w ∧ g w = h e ∧ e ∈ E) r E :=
  F2_of_views_aux f g h W E r W E (fun _ hw => hw) (fun _ he => he) h1 h2

theorem F2.filterMap_eq {α β γ : Type} {R : α → β → Prop} {l1 : List α} {l2 : List β}
    (hf : F2 R l1 l2) (f : α → Option γ) (p : β → Bool) (g : β → γ)
    (hR : ∀ a b, R a b → f a = if p b then some (g b) else none) :
    l1.filterMap f = (l2.filter p).map g := by
  induction hf with
  | nil => rfl
  | @cons a b l1 l2 hab _ ih =>
    rw [List.filterMap_cons, hR a b hab]
    by_cases hp : p b = true
    · rw [List.filter_cons_of_pos hp, if_pos hp, List.map_cons, ih]
    · rw [List.filter_cons_of_neg hp, if_neg hp, ih]

theorem F2.all_eq {α β : Type} {R : α → β → Prop} {l1 : List α} {l2 : List β}
    (hf : F2 R l1 l2) (p : α → Bool) (q : β → Bool) (hR : ∀ a b, R a b → p a = q b) :
    l1.all p = l2.all q := by
  induction hf with
  | nil => rfl
  | @cons a b l1 l2 hab _ ih =>
    rw [List.all_cons, List.all_cons, hR a b hab, ih]

theorem F2.nil_iff {α β : Type} {R : α → β → Prop} {l1 : List α} {l2 : List β}
    (hf : F2 R l1 l2) : l1 = [] ↔ l2 = [] := by
  cases hf <;> simp

/-! ### uniqueness in a list with distinct keys -/

theorem unique_of_pairwise_ne {α κ : Type} (key : α → κ) (l : List α)
    (h : l.Pairwise (fun a b => key a ≠ key b)) (a b : α) (ha : a ∈ l) (hb : b ∈ l)
    (hk : key a = key b) : a = b := by
  induction l with
  | nil => cases ha
  | cons x l ih =>
    rw [List.pairwise_cons] at h
    rcases List.mem_cons.mp ha with ea | ha' <;> rcases List.mem_cons.mp hb with eb | hb'
    · rw [ea, eb]
    · rw [ea] at hk; exact absurd hk (h.1 b hb')
    · rw [eb] at hk; exact absurd hk.symm (h.1 a ha')
    · exact ih h.2 ha' hb'

end PG
