/-
  PG.Lemmas.CacheQueries0 — helper lemmas for PG.Lemmas.CacheQueries: `mapM` on `Option`,
  a pointwise list relation, the view of a class / member, the per-entry equivalence of the
  reader's `lineFrame` with the specification.
-/
import PG.Spec.CacheView
import PG.Lemmas.BSearch
import PG.Lemmas.Sorted
import PG.Lemmas.StrTab
namespace PG

/-! ### `List.mapM` into `Option` -/

theorem mapM_cons_some {α β : Type} (f : α → Option β) (a : α) (l : List α) (r : List β) :
    (a :: l).mapM f = some r ↔ ∃ b bs, f a = some b ∧ l.mapM f = some bs ∧ r = b :: bs := by
  rw [List.mapM_cons]
  cases h1 : f a with
  | none => simp
  | some b =>
    cases h2 : l.mapM f with
    | none => simp
    | some bs => simp [eq_comm]

theorem mapM_nil_some {α β : Type} (f : α → Option β) (r : List β) :
    ([] : List α).mapM f = some r ↔ r = [] := by
  rw [List.mapM_nil]
  constructor
  · intro h; cases h; rfl
  · intro h; subst h; rfl

theorem mapM_getElem? {α β : Type} (f : α → Option β) (l : List α) (r : List β)
    (h : l.mapM f = some r) (i : Nat) (x : α) (hx : l[i]? = some x) :
    ∃ y, r[i]? = some y ∧ f x = some y := by
  induction l generalizing r i with
  | nil => simp at hx
  | cons a l ih =>
    obtain ⟨b, bs, hb, hbs, rfl⟩ := (mapM_cons_some f a l r).mp h
    cases i with
    | zero =>
      simp only [List.getElem?_cons_zero, Option.some.injEq] at hx
      subst hx
      exact ⟨b, by simp, hb⟩
    | succ i =>
      simp only [List.getElem?_cons_succ] at hx ⊢
      exact ih bs hbs i hx

theorem mapM_mem {α β : Type} (f : α → Option β) (l : List α) (r : List β)
    (h : l.mapM f = some r) (x : α) (hx : x ∈ l) : ∃ y ∈ r, f x = some y := by
  obtain ⟨i, hi, rfl⟩ := List.getElem_of_mem hx
  obtain ⟨y, hy, hf⟩ := mapM_getElem? f l r h i l[i] (List.getElem?_eq_getElem hi)
  exact ⟨y, List.mem_of_getElem? hy, hf⟩

theorem mapM_filter {α β : Type} (f : α → Option β) (p : α → Bool) (q : β → Bool) (l : List α)
    (r : List β) (h : l.mapM f = some r) (hpq : ∀ x ∈ l, ∀ y, f x = some y → p x = q y) :
    (l.filter p).mapM f = some (r.filter q) := by
  induction l generalizing r with
  | nil =>
    rw [(mapM_nil_some f r).mp h]
    rfl
  | cons a l ih =>
    obtain ⟨b, bs, hb, hbs, rfl⟩ := (mapM_cons_some f a l r).mp h
    have ih' := ih bs hbs (fun x hx => hpq x (List.mem_cons_of_mem _ hx))
    have hab := hpq a List.mem_cons_self b hb
    by_cases hp : p a = true
    · rw [List.filter_cons_of_pos hp, List.filter_cons_of_pos (by rw [← hab]; exact hp)]
      exact (mapM_cons_some _ _ _ _).mpr ⟨b, _, hb, ih', rfl⟩
    · rw [List.filter_cons_of_neg hp, List.filter_cons_of_neg (by rw [← hab]; exact hp)]
      exact ih'

theorem mapM_monoCmp {α β : Type} (f : α → Option β) (l : List α) (r : List β)
    (h : l.mapM f = some r) (cmp : α → Ordering) (cmp' : β → Ordering)
    (hc : ∀ x ∈ l, ∀ y, f x = some y → cmp x = cmp' y) (hm : MonoCmp r cmp') : MonoCmp l cmp := by
  intro i j x y hij hx hy
  obtain ⟨x', hx', hfx⟩ := mapM_getElem? f l r h i x hx
  obtain ⟨y', hy', hfy⟩ := mapM_getElem? f l r h j y hy
  rw [hc x (List.mem_of_getElem? hx) x' hfx, hc y (List.mem_of_getElem? hy) y' hfy]
  exact hm i j x' y' hij hx' hy'

/-! ### a pointwise relation between two lists -/

inductive F2 {α β : Type} (R : α → β → Prop) : List α → List β → Prop
  | nil : F2 R [] []
  | cons {a b l1 l2} : R a b → F2 R l1 l2 → F2 R (a :: l1) (b :: l2)

theorem F2.imp {α β : Type} {R S : α → β → Prop} {l1 : List α} {l2 : List β}
    (h : F2 R l1 l2) (hi : ∀ a b, R a b → S a b) : F2 S l1 l2 := by
  induction h with
  | nil => exact .nil
  | cons hab _ ih => exact .cons (hi _ _ hab) ih

theorem F2_of_views_aux {α β γ δ : Type} (f : α → Option β) (g : β → δ) (h : γ → δ)
    (W' : List β) (E' : List γ) (r : List α) (W : List β) (E : List γ)
    (hW : ∀ w ∈ W, w ∈ W') (hE : ∀ e ∈ E, e ∈ E')
    (h1 : r.mapM f = some W) (h2 : W.map g = E.map h) :
    F2 (fun m e => ∃ w ∈ W', f m = some w ∧ g w = h e ∧ e ∈ E') r E := by
  induction r generalizing W E with
  | nil =>
    rw [(mapM_nil_some f W).mp h1] at h2
    cases E with
    | nil => exact .nil
    | cons e E => simp at h2
  | cons a r ih =>
    obtain ⟨b, bs, hb, hbs, rfl⟩ := (mapM_cons_some f a r W).mp h1
    cases E with
    | nil => simp at h2
    | cons e E =>
      simp only [List.map_cons, List.cons.injEq] at h2
      refine .cons ⟨b, hW b List.mem_cons_self, hb, h2.1, hE e List.mem_cons_self⟩ ?_
      exact ih bs E (fun w hw => hW w (List.mem_cons_of_mem _ hw))
        (fun x hx => hE x (List.mem_cons_of_mem _ hx)) hbs h2.2

/-- from `r.mapM f = some W` and `W.map g = E.map h`: `r` and `E` correspond pointwise -/
theorem F2_of_views {α β γ δ : Type} (f : α → Option β) (g : β → δ) (h : γ → δ)
    (r : List α) (W : List β) (E : List γ)
    (h1 : r.mapM f = some W) (h2 : W.map g = E.map h) :
    F2 (fun m e => ∃ w ∈ W, f m = some w ∧ g w = h e ∧ e ∈ E) r E :=
  F2_of_views_aux f g h W E r W E (fun _ hw => hw) (fun _ he => he) h1 h2

theorem F2.filterMap_eq {α β γ : Type} {R : α → β → Prop} {l1 : List α} {l2 : List β}
    (hf : F2 R l1 l2) (f : α → Option γ) (p : β → Bool) (g : β → γ)
    (hR : ∀ a b, R a b → f a = if p b then some (g b) else none) :
    l1.filterMap f = (l2.filter p).map g := by
  induction hf with
  | nil => rfl
  | @cons a b l1 l2 hab _ ih =>
    rw [List.filterMap_cons, hR a b hab]
    by_cases hp : p b = true
    · rw [List.filter_cons_of_pos hp, if_pos hp, List.map_cons, ih]
    · rw [List.filter_cons_of_neg hp, if_neg hp, ih]

theorem F2.all_eq {α β : Type} {R : α → β → Prop} {l1 : List α} {l2 : List β}
    (hf : F2 R l1 l2) (p : α → Bool) (q : β → Bool) (hR : ∀ a b, R a b → p a = q b) :
    l1.all p = l2.all q := by
  induction hf with
  | nil => rfl
  | @cons a b l1 l2 hab _ ih =>
    rw [List.all_cons, List.all_cons, hR a b hab, ih]

theorem F2.nil_iff {α β : Type} {R : α → β → Prop} {l1 : List α} {l2 : List β}
    (hf : F2 R l1 l2) : l1 = [] ↔ l2 = [] := by
  cases hf <;> simp

/-! ### uniqueness in a list with distinct keys -/

theorem unique_of_pairwise_ne {α κ : Type} (key : α → κ) (l : List α)
    (h : l.Pairwise (fun a b => key a ≠ key b)) (a b : α) (ha : a ∈ l) (hb : b ∈ l)
    (hk : key a = key b) : a = b := by
  induction l with
  | nil => cases ha
  | cons x l ih =>
    rw [List.pairwise_cons] at h
    rcases List.mem_cons.mp ha with ea | ha' <;> rcases List.mem_cons.mp hb with eb | hb'
    · rw [ea, eb]
    · rw [ea] at hk; exact absurd hk (h.1 b hb')
    · rw [eb] at hk; exact absurd hk.symm (h.1 a ha')
    · exact ih h.2 ha' hb'

/-! ### views -/

theorem viewClass_some (c : Cache) (k : RawClass) (cv : CView) (h : c.viewClass k = some cv) :
    c.str k.obfOff = some cv.obf ∧ c.str k.origOff = some cv.orig ∧
    ∃ ms bs, c.classMembers k = some ms ∧ c.classByParams k = some bs ∧
      ms.mapM c.viewMember = some cv.members ∧ bs.mapM c.viewMember = some cv.byParams := by
  unfold Cache.viewClass at h
  split at h
  · next obf orig ms bs h1 h2 h3 h4 =>
    split at h
    · next mv bv h5 h6 => cases h; exact ⟨h1, h2, ms, bs, h3, h4, h5, h6⟩
    · cases h
  · cases h

theorem optStr_some (c : Cache) (hs : c.strings.length < u32Max) (off : Nat) (o : Option Bytes)
    (h : c.optStr off = some o) : c.str off = o ∧ ((off != u32Max) = o.isSome) := by
  unfold Cache.optStr at h
  split at h
  · next he =>
    cases h; subst he
    exact ⟨readString_sentinel _ hs, by simp⟩
  · next hne =>
    cases hstr : c.str off with
    | none => rw [hstr] at h; cases h
    | some s => rw [hstr] at h; cases h; simp [hne]

theorem viewMember_some (c : Cache) (hs : c.strings.length < u32Max) (m : RawMember) (w : MView)
    (h : c.viewMember m = some w) :
    c.str m.obfOff = some w.obf ∧ c.str m.origNameOff = some w.name ∧
    c.str m.origClassOff = w.fc ∧ (m.origClassOff != u32Max) = w.fc.isSome ∧
    c.str m.origFileOff = w.file ∧ (m.origFileOff != u32Max) = w.file.isSome ∧
    (c.str m.paramsOff).getD [] = w.args ∧
    m.startline = w.startline ∧ m.endline = w.endline ∧ m.origStartline = w.origStart ∧
    m.origEndline = w.origEnd ∧ m.origNameOff = w.nameOff := by
  unfold Cache.viewMember at h
  split at h
  · next obf name fc file args h1 h2 h3 h4 h5 =>
    cases h
    obtain ⟨a1, a2⟩ := optStr_some c hs _ _ h3
    obtain ⟨b1, b2⟩ := optStr_some c hs _ _ h4
    obtain ⟨c1, c2⟩ := optStr_some c hs _ _ h5
    refine ⟨h1, h2, a1, a2, b1, b2, ?_, rfl, rfl, rfl, rfl, rfl⟩
    rw [c1]
  · cases h

theorem core_eq (w : MView) (e : SpecR.Entry) (h : w.core = MView.ofEntry e 0) :
    w.obf = e.obf ∧ w.name = e.name ∧ w.args = e.args ∧ w.fc = e.fc ∧ w.file = e.file ∧
    w.startline = (rawLines e.lm).1 ∧ w.endline = (rawLines e.lm).2.1 ∧
    w.origStart = (rawLines e.lm).2.2.1 ∧ w.origEnd = (rawLines e.lm).2.2.2 := by
  cases w
  simp only [MView.core, MView.ofEntry, MView.mk.injEq] at h
  simp only
  obtain ⟨h1, h2, h3, h4, h5, h6, h7, h8, h9, _⟩ := h
  exact ⟨h1, h2, h3, h4, h5, h6, h7, h8, h9⟩


/-! ### line numbers -/

def GoodLm (lm : Option LineMapping) : Prop :=
  ∀ l, lm = some l → l.startline < u32Max ∧ l.endline < u32Max ∧
    (∀ x, l.originalStartline = some x → x < u32Max) ∧
    (∀ x, l.originalEndline = some x → x < u32Max)

theorem asU32_small (n : Nat) (h : n < u32Max) : asU32 n = n := by
  unfold asU32
  apply Nat.mod_eq_of_lt
  simp only [u32Max, u32Bound] at *; omega

theorem satAdd_eq (a b : Nat) : satAdd a b = SpecR.satAdd' a b := rfl

theorem rawLines_skip (lm : Option LineMapping) (hg : GoodLm lm) (line : Nat) :
    (decide ((rawLines lm).2.1 > 0) &&
      (decide (line < (rawLines lm).1) || decide (line > (rawLines lm).2.1))) =
      !SpecR.applies lm line := by
  cases lm with
  | none => simp [rawLines, SpecR.applies]
  | some l =>
    obtain ⟨h1, h2, h3, h4⟩ := hg l rfl
    have e1 := asU32_small _ h1
    have e2 := asU32_small _ h2
    rw [Bool.eq_iff_iff]
    cases hos : l.originalStartline <;>
      simp [rawLines, SpecR.applies, hos, e1, e2] <;> omega

theorem rawLines_line (lm : Option LineMapping) (hg : GoodLm lm) (line : Nat) :
    (if ((rawLines lm).2.2.2 == u32Max || (rawLines lm).2.2.2 == (rawLines lm).2.2.1) = true
      then (rawLines lm).2.2.1
      else satAdd (rawLines lm).2.2.1 line - (rawLines lm).1) = SpecR.origLineOf lm line := by
  cases lm with
  | none => simp [rawLines, SpecR.origLineOf]
  | some l =>
    obtain ⟨h1, h2, h3, h4⟩ := hg l rfl
    have e1 := asU32_small _ h1
    have e2 := asU32_small _ h2
    cases hos : l.originalStartline with
    | none =>
      simp only [rawLines, SpecR.origLineOf, hos, e1, e2, satAdd_eq]
      have : l.endline ≠ u32Max := by omega
      simp [this]
    | some os =>
      have e3 := asU32_small _ (h3 os hos)
      cases hoe : l.originalEndline with
      | none => simp [rawLines, SpecR.origLineOf, hos, hoe, e1, e2, e3]
      | some oe =>
        have e4 := asU32_small _ (h4 oe hoe)
        have : oe ≠ u32Max := by have := h4 oe hoe; omega
        simp [rawLines, SpecR.origLineOf, hos, hoe, e1, e2, e3, e4, satAdd_eq, this]


/-! ### one entry through `lineFrame` -/

theorem extractClassName_eq (s : Bytes) : extractClassName s = SpecR.outerSimpleName s := by
  unfold extractClassName SpecR.outerSimpleName rsplitOnce splitOnce
  simp only
  cases h : s.reverse.dropWhile (· != 46) with
  | nil =>
    simp only
    have : s.reverse.takeWhile (· != 46) = s.reverse := by
      have := List.takeWhile_append_dropWhile (p := (· != 46)) (l := s.reverse)
      rw [h, List.append_nil] at this; exact this
    rw [this, List.reverse_reverse]
  | cons a r => simp only

theorem litSynthetic_eq : litSynthetic = SpecR.syntheticMarker := rfl

theorem lineFrame_entry (c : Cache) (hs : c.strings.length < u32Max) (m : RawMember) (w : MView)
    (e : SpecR.Entry) (hv : c.viewMember m = some w) (hc : w.core = MView.ofEntry e 0)
    (hg : GoodLm e.lm) (q : Frame) (orig : Bytes) :
    c.lineFrame { q with cls := orig } m =
      if SpecR.applies e.lm q.line then
        some { cls := e.fc.getD orig, method := e.name, line := SpecR.origLineOf e.lm q.line,
               file := SpecR.fileOf e orig q.file, params := q.params }
      else none := by
  obtain ⟨v1, v2, v3, v4, v5, v6, v7, v8, v9, v10, v11, v12⟩ := viewMember_some c hs m w hv
  obtain ⟨c1, c2, c3, c4, c5, c6, c7, c8, c9⟩ := core_eq w e hc
  unfold Cache.lineFrame
  have hskip := rawLines_skip e.lm hg q.line
  have hline := rawLines_line e.lm hg q.line
  rw [← c6, ← c7, ← v8, ← v9] at hskip
  rw [← c6, ← c8, ← c9, ← v8, ← v10, ← v11] at hline
  simp only [hskip, hline, v2, c2, v3, c4, v5, c5, v6, v4]
  cases ha : SpecR.applies e.lm q.line with
  | false => simp
  | true =>
    simp only [Bool.not_true, Bool.false_eq_true, if_false, if_true]
    unfold SpecR.fileOf
    cases hf : e.file with
    | none =>
      simp only [Option.isSome_none, Bool.false_eq_true, if_false]
      cases hfc : e.fc <;> simp
    | some f =>
      simp only [Option.isSome_some, if_true, extractClassName_eq, litSynthetic_eq, beq_iff_eq]
      by_cases hsyn : f = SpecR.syntheticMarker <;> simp [hsyn]


/-! ### the entries of a block come from records -/
section
open SpecR

theorem blocksOf_body_sub (recs : List Record) (b : Block) (hb : b ∈ blocksOf recs) :
    ∀ r ∈ b.body, r ∈ recs := by
  induction recs with
  | nil => simp [blocksOf] at hb
  | cons x rest ih =>
    cases x with
    | cls o ob =>
      simp only [blocksOf, List.mem_cons] at hb
      rcases hb with rfl | hb
      · intro r hr
        exact List.mem_cons_of_mem _ ((List.takeWhile_sublist _).subset hr)
      · intro r hr; exact List.mem_cons_of_mem _ (ih hb r hr)
    | header k v =>
      simp only [blocksOf] at hb
      intro r hr; exact List.mem_cons_of_mem _ (ih hb r hr)
    | field a1 a2 a3 =>
      simp only [blocksOf] at hb
      intro r hr; exact List.mem_cons_of_mem _ (ih hb r hr)
    | method a1 a2 a3 a4 a5 a6 =>
      simp only [blocksOf] at hb
      intro r hr; exact List.mem_cons_of_mem _ (ih hb r hr)

theorem lastBlock_mem (recs : List Record) (name : Bytes) (b : Block)
    (h : lastBlock recs name = some b) : b ∈ blocksOf recs := by
  unfold lastBlock at h
  exact (List.mem_filter.mp (List.mem_of_getLast? h)).1

theorem entriesFrom_mem (file : Option Bytes) (body : List Record) (e : Entry)
    (he : e ∈ entriesFrom file body) : ∃ ty, Record.method ty e.name e.obf e.args e.fc e.lm ∈ body := by
  induction body generalizing file with
  | nil => simp [entriesFrom] at he
  | cons x rest ih =>
    cases x with
    | cls o ob =>
      simp only [entriesFrom] at he
      obtain ⟨ty, h⟩ := ih _ he; exact ⟨ty, List.mem_cons_of_mem _ h⟩
    | header k v =>
      simp only [entriesFrom] at he
      obtain ⟨ty, h⟩ := ih _ he; exact ⟨ty, List.mem_cons_of_mem _ h⟩
    | field a1 a2 a3 =>
      simp only [entriesFrom] at he
      obtain ⟨ty, h⟩ := ih _ he; exact ⟨ty, List.mem_cons_of_mem _ h⟩
    | method a1 a2 a3 a4 a5 a6 =>
      simp only [entriesFrom, List.mem_cons] at he
      rcases he with rfl | he
      · exact ⟨a1, List.mem_cons_self⟩
      · obtain ⟨ty, h⟩ := ih _ he; exact ⟨ty, List.mem_cons_of_mem _ h⟩

theorem entries_goodLm (recs : List Record) (hr : ReprR recs) (name : Bytes) (b : Block)
    (h : lastBlock recs name = some b) (e : Entry) (he : e ∈ b.entries) : GoodLm e.lm := by
  obtain ⟨ty, hm⟩ := entriesFrom_mem none b.body e he
  have := hr _ (blocksOf_body_sub recs b (lastBlock_mem recs name b h) _ hm)
  simp only [ReprRec] at this
  exact this.2.2.2.2.2.2


end

/-! ### class lookup -/

theorem mapM_mem_rev {α β : Type} (f : α → Option β) (l : List α) (r : List β)
    (h : l.mapM f = some r) (y : β) (hy : y ∈ r) : ∃ x ∈ l, f x = some y := by
  induction l generalizing r with
  | nil => rw [(mapM_nil_some f r).mp h] at hy; cases hy
  | cons a l ih =>
    obtain ⟨b, bs, hb, hbs, rfl⟩ := (mapM_cons_some f a l r).mp h
    rcases List.mem_cons.mp hy with e | hy'
    · exact ⟨a, List.mem_cons_self, by rw [e]; exact hb⟩
    · obtain ⟨x, hx, hfx⟩ := ih bs hbs hy'
      exact ⟨x, List.mem_cons_of_mem _ hx, hfx⟩

theorem cmpBytes_beq (a b : Bytes) : (cmpBytes a b == .eq) = (a == b) := by
  rw [Bool.eq_iff_iff]
  simp [cmpBytes_eq_iff]

theorem monoCmp_views (v : List CView) (name : Bytes)
    (hs : (v.map (·.obf)).Pairwise (fun a b => cmpBytes a b = .lt)) :
    MonoCmp v (fun cv => cmpBytes cv.obf name) := by
  apply monoCmp_of_sorted v (·.obf) cmpBytes name cmpBytes_strictOrd.swap cmpBytes_strictOrd.trans
    cmpBytes_strictOrd.eq_iff
  rw [List.pairwise_map] at hs
  exact hs.imp (fun h => by rw [h]; simp)

theorem getClass_none (c : Cache) (v : List CView) (hv : c.view = some v) (name : Bytes)
    (hn : ∀ cv ∈ v, cv.obf ≠ name) : c.getClass name = none := by
  unfold Cache.getClass
  rw [searchList_none]
  intro k hk
  obtain ⟨cv, hcv, hk'⟩ := mapM_mem _ _ _ hv k hk
  obtain ⟨h1, _⟩ := viewClass_some c k cv hk'
  simp only [Cache.cmpName, h1]
  intro he
  exact hn cv hcv ((cmpBytes_eq_iff _ _).mp he)

theorem getClass_some (c : Cache) (v : List CView) (hv : c.view = some v)
    (hs : (v.map (·.obf)).Pairwise (fun a b => cmpBytes a b = .lt)) (name : Bytes)
    (cv : CView) (hcv : cv ∈ v) (hname : cv.obf = name) :
    ∃ k, c.getClass name = some k ∧ c.viewClass k = some cv := by
  have hcmp : ∀ k ∈ c.classes, ∀ cv, c.viewClass k = some cv →
      c.cmpName k.obfOff name = cmpBytes cv.obf name := by
    intro k _ cv hk
    simp only [Cache.cmpName, (viewClass_some c k cv hk).1]
  have hmono : MonoCmp c.classes (fun k => c.cmpName k.obfOff name) :=
    mapM_monoCmp c.viewClass c.classes v hv _ (fun cv => cmpBytes cv.obf name) hcmp
      (monoCmp_views v name hs)
  obtain ⟨k0, hk0, hk0v⟩ := mapM_mem_rev _ _ _ hv cv hcv
  have hex : ∃ x ∈ c.classes, (fun k => c.cmpName k.obfOff name) x = .eq :=
    ⟨k0, hk0, by simp only [hcmp k0 hk0 cv hk0v, hname]; exact cmpBytes_strictOrd.refl _⟩
  obtain ⟨i, x, hsearch, hx, hcx⟩ := searchList_complete _ _ hmono hex
  obtain ⟨cv', hcv', hxv⟩ := mapM_getElem? _ _ _ hv i x hx
  refine ⟨x, ?_, ?_⟩
  · unfold Cache.getClass
    rw [hsearch]; exact hx
  · rw [hxv]
    congr 1
    simp only [hcmp x (List.mem_of_getElem? hx) cv' hxv] at hcx
    have hobf : cv'.obf = cv.obf := by rw [hname]; exact (cmpBytes_eq_iff _ _).mp hcx
    rw [List.pairwise_map] at hs
    exact unique_of_pairwise_ne (·.obf) v
      (hs.imp (fun h => cmpBytes_strictOrd.ne_of_lt h)) cv' cv (List.mem_of_getElem? hcv') hcv hobf


/-! ### member ranges -/


theorem cmpPair_beq (a b c d : Bytes) : (cmpPair (a, b) (c, d) == .eq) = (a == c && b == d) := by
  rw [Bool.eq_iff_iff]
  simp [cmpPair_strictOrd.eq_iff]

theorem members_range (c : Cache) (ms : List RawMember) (mvs : List MView)
    (hm : ms.mapM c.viewMember = some mvs)
    (hsorted : mvs.Pairwise (fun x y => cmpBytes x.obf y.obf ≠ .gt)) (meth : Bytes) :
    ∃ r, findRange ms (fun m => c.cmpName m.obfOff meth) = (if r = [] then none else some r) ∧
      r.mapM c.viewMember = some (mvs.filter (fun x => x.obf == meth)) := by
  have hcmp : ∀ m ∈ ms, ∀ w, c.viewMember m = some w →
      c.cmpName m.obfOff meth = cmpBytes w.obf meth := by
    intro m _ w hw
    unfold Cache.viewMember at hw
    split at hw
    · next h1 _ _ _ _ => cases hw; simp only [Cache.cmpName, h1]
    · cases hw
  have hmono : MonoCmp ms (fun m => c.cmpName m.obfOff meth) :=
    mapM_monoCmp c.viewMember ms mvs hm _ (fun w => cmpBytes w.obf meth) hcmp
      (monoCmp_of_sorted mvs (·.obf) cmpBytes meth cmpBytes_strictOrd.swap cmpBytes_strictOrd.trans
        cmpBytes_strictOrd.eq_iff hsorted)
  refine ⟨ms.filter (fun m => c.cmpName m.obfOff meth == .eq), findRange_eq_filter _ _ hmono, ?_⟩
  apply mapM_filter _ _ _ _ _ hm
  intro m hmem w hw
  rw [hcmp m hmem w hw, cmpBytes_beq]

theorem byParams_range (c : Cache) (hs : c.strings.length < u32Max) (bs : List RawMember)
    (bvs : List MView) (hm : bs.mapM c.viewMember = some bvs)
    (hsorted : bvs.Pairwise (fun x y => cmpPair (x.obf, x.args) (y.obf, y.args) ≠ .gt))
    (meth p : Bytes) :
    ∃ r, findRange bs (fun m => c.cmpNameParams m meth p) = (if r = [] then none else some r) ∧
      r.mapM c.viewMember = some (bvs.filter (fun x => x.obf == meth && x.args == p)) := by
  have hcmp : ∀ m ∈ bs, ∀ w, c.viewMember m = some w →
      c.cmpNameParams m meth p = cmpPair (w.obf, w.args) (meth, p) := by
    intro m _ w hw
    obtain ⟨v1, _, _, _, _, _, v7, _⟩ := viewMember_some c hs m w hw
    simp only [Cache.cmpNameParams, v1, v7]
  have hmono : MonoCmp bs (fun m => c.cmpNameParams m meth p) :=
    mapM_monoCmp c.viewMember bs bvs hm _ (fun w => cmpPair (w.obf, w.args) (meth, p)) hcmp
      (monoCmp_of_sorted bvs (fun w => (w.obf, w.args)) cmpPair (meth, p) cmpPair_strictOrd.swap
        cmpPair_strictOrd.trans cmpPair_strictOrd.eq_iff hsorted)
  refine ⟨bs.filter (fun m => c.cmpNameParams m meth p == .eq), findRange_eq_filter _ _ hmono, ?_⟩
  apply mapM_filter _ _ _ _ _ hm
  intro m hmem w hw
  rw [hcmp m hmem w hw, cmpPair_beq]


end PG
