/-
  PG.Lemmas.MapperInv — the in-memory mapper fold (`buildGo`) against the record-level
  specification `PG.Spec.Retrace`.

  Level 2 (one class block): what the class under construction contains after folding a
  class-free body, generalised over the start state.
  Level 1 (class table): what `classes.lookup c` returns at the end, in terms of `lastBlock`.
-/
import PG.Spec.Retrace
import PG.Lemmas.ListBasics
namespace PG
open SpecR

/-! ### views of a member table that the queries actually use -/

def allOf (members : List (Bytes × ClassMembers)) (m : Bytes) : List MemberMapping :=
  match members.lookup m with
  | none => []
  | some cm => cm.all

def bpOf (members : List (Bytes × ClassMembers)) (m p : Bytes) : List MemberMapping :=
  match members.lookup m with
  | none => []
  | some cm =>
    match cm.byParams.lookup p with
    | none => []
    | some l => l

def toMM (e : Entry) : MemberMapping := memberOf e.name e.fc e.lm e.file

abbrev ekey (e : Entry) : Bytes × Bytes × Bytes := (e.obf, e.args, e.name)

theorem lookup_cons_ite {β : Type} (a k : Bytes) (b : β) (es : List (Bytes × β)) :
    List.lookup a ((k, b) :: es) = if a = k then some b else List.lookup a es := by
  rw [List.lookup_cons]
  by_cases h : a = k
  · subst h; simp
  · have : (a == k) = false := by simpa using h
    simp [this, h]

theorem allOf_cons (members : List (Bytes × ClassMembers)) (k : Bytes) (cm : ClassMembers) (m : Bytes) :
    allOf ((k, cm) :: members) m = if m = k then cm.all else allOf members m := by
  unfold allOf
  rw [lookup_cons_ite]
  by_cases h : m = k <;> simp [h]

theorem bpOf_cons (members : List (Bytes × ClassMembers)) (k : Bytes) (cm : ClassMembers) (m p : Bytes) :
    bpOf ((k, cm) :: members) m p =
      if m = k then (match cm.byParams.lookup p with | none => [] | some l => l)
      else bpOf members m p := by
  unfold bpOf
  rw [lookup_cons_ite]
  by_cases h : m = k <;> simp [h]

theorem sameRange_eq (lm : Option LineMapping) (next : Option Record) :
    sameRangeAsNext lm next = sameRange lm next := by
  unfold sameRangeAsNext sameRange
  cases lm with
  | none => cases next with
    | none => rfl
    | some r => cases r with
      | method _ _ _ _ _ l => cases l <;> rfl
      | _ => rfl
  | some c => cases next with
    | none => rfl
    | some r => cases r with
      | method _ _ _ _ _ l => cases l <;> rfl
      | _ => rfl

/-! ### one step on a method record -/

theorem buildStep_method_fileName (pm : Bool) (st : BuildState) (ty name obf args : Bytes)
    (fc : Option Bytes) (lm : Option LineMapping) (next : Option Record) :
    (buildStep pm st (.method ty name obf args fc lm) next).cur.fileName = st.cur.fileName := by
  simp only [buildStep]
  split
  · rfl
  · split
    · rfl
    · split <;> rfl

theorem buildStep_method_all (pm : Bool) (st : BuildState) (ty name obf args : Bytes)
    (fc : Option Bytes) (lm : Option LineMapping) (next : Option Record) (m : Bytes) :
    allOf (buildStep pm st (.method ty name obf args fc lm) next).cur.members m =
      allOf st.cur.members m ++
        (if obf = m then [memberOf name fc lm st.cur.fileName] else []) := by
  have key : ∀ (bp : List (Bytes × List MemberMapping)),
      allOf ((obf, ({ all := ((st.cur.members.lookup obf).getD ⟨[], []⟩).all ++
          [memberOf name fc lm st.cur.fileName], byParams := bp } : ClassMembers)) :: st.cur.members) m =
      allOf st.cur.members m ++ (if obf = m then [memberOf name fc lm st.cur.fileName] else []) := by
    intro bp
    rw [allOf_cons]
    by_cases h : m = obf
    · subst h
      simp only [if_true]
      unfold allOf
      cases st.cur.members.lookup m <;> simp
    · have h' : ¬ obf = m := fun e => h e.symm
      simp [h, h']
  simp only [buildStep]
  split
  · exact key _
  · split
    · exact key _
    · split
      · exact key _
      · exact key _


/-! ### folding a class-free body: names and the `all` lists -/

theorem buildStep_noncls_names (pm : Bool) (st : BuildState) (r : Record) (next : Option Record)
    (hr : isCls r = false) :
    (buildStep pm st r next).cur.original = st.cur.original ∧
    (buildStep pm st r next).cur.obfuscated = st.cur.obfuscated ∧
    (buildStep pm st r next).classes = st.classes := by
  cases r with
  | cls o b => simp [isCls] at hr
  | header k v => simp only [buildStep]; split <;> simp
  | field _ _ _ => simp [buildStep]
  | method ty name obf args fc lm =>
    simp only [buildStep]
    split
    · simp
    · split
      · simp
      · split <;> simp

theorem buildGo_noncls_names (pm : Bool) (st : BuildState) (body : List Record)
    (hb : ∀ r ∈ body, isCls r = false) :
    (buildGo pm st body).cur.original = st.cur.original ∧
    (buildGo pm st body).cur.obfuscated = st.cur.obfuscated ∧
    (buildGo pm st body).classes = st.classes := by
  induction body generalizing st with
  | nil => simp [buildGo]
  | cons r rest ih =>
    simp only [buildGo]
    obtain ⟨h1, h2, h3⟩ := ih (buildStep pm st r rest.head?) (fun x hx => hb x (by simp [hx]))
    obtain ⟨g1, g2, g3⟩ := buildStep_noncls_names pm st r rest.head? (hb r (by simp))
    exact ⟨h1.trans g1, h2.trans g2, h3.trans g3⟩

theorem allOf_buildGo (pm : Bool) (st : BuildState) (body : List Record)
    (hb : ∀ r ∈ body, isCls r = false) (m : Bytes) :
    allOf (buildGo pm st body).cur.members m =
      allOf st.cur.members m ++
        ((entriesFrom st.cur.fileName body).filter (fun e => e.obf == m)).map toMM := by
  induction body generalizing st with
  | nil => simp [buildGo, entriesFrom]
  | cons r rest ih =>
    have hrest : ∀ x ∈ rest, isCls x = false := fun x hx => hb x (by simp [hx])
    simp only [buildGo]
    rw [ih _ hrest]
    cases r with
    | cls o b => have := hb (.cls o b) (by simp); simp [isCls] at this
    | header k v =>
      simp only [buildStep, entriesFrom]
      by_cases hk : (k == litSourceFile) = true
      · simp [hk]
      · simp [hk]
    | field _ _ _ => simp [buildStep, entriesFrom]
    | method ty name obf args fc lm =>
      rw [buildStep_method_fileName, buildStep_method_all]
      simp only [entriesFrom, List.filter_cons]
      by_cases h : obf = m
      · subst h; simp [toMM]
      · have : (obf == m) = false := by simpa using h
        simp [h]


/-! ### the parameter index -/

theorem bpOf_same (old : List (Bytes × ClassMembers)) (obf : Bytes) (al : List MemberMapping)
    (m p : Bytes) :
    bpOf ((obf, ({ all := al, byParams := ((old.lookup obf).getD ⟨[], []⟩).byParams } : ClassMembers)) :: old) m p =
      bpOf old m p := by
  rw [bpOf_cons]
  by_cases h : m = obf
  · subst h
    simp only [if_true]
    unfold bpOf
    cases old.lookup m <;> simp
  · simp [h]

theorem bpOf_add (old : List (Bytes × ClassMembers)) (obf args : Bytes) (al : List MemberMapping)
    (mm : MemberMapping) (m p : Bytes) :
    bpOf ((obf, ({ all := al, byParams :=
        (args, ((((old.lookup obf).getD ⟨[], []⟩).byParams.lookup args).getD []) ++ [mm]) ::
          ((old.lookup obf).getD ⟨[], []⟩).byParams } : ClassMembers)) :: old) m p =
      bpOf old m p ++ (if obf = m ∧ args = p then [mm] else []) := by
  rw [bpOf_cons]
  by_cases h : m = obf
  · subst h
    simp only [if_true, true_and]
    rw [lookup_cons_ite]
    unfold bpOf
    by_cases hp : p = args
    · subst hp
      cases old.lookup m with
      | none => simp
      | some cm => cases hl : cm.byParams.lookup p <;> simp [hl]
    · have hp' : ¬ args = p := fun e => hp e.symm
      cases old.lookup m with
      | none => simp [hp, hp']
      | some cm => cases hl : cm.byParams.lookup p <;> simp [hl, hp, hp']
  · have h' : ¬ obf = m := fun e => h e.symm
    simp [h, h']

theorem buildStep_method_bp_false (st : BuildState) (ty name obf args : Bytes)
    (fc : Option Bytes) (lm : Option LineMapping) (next : Option Record) (m p : Bytes) :
    bpOf (buildStep false st (.method ty name obf args fc lm) next).cur.members m p =
      bpOf st.cur.members m p := by
  simp only [buildStep, Bool.not_false, if_true]
  exact bpOf_same _ _ _ _ _

theorem buildStep_method_bp_skip (st : BuildState) (ty name obf args : Bytes)
    (fc : Option Bytes) (lm : Option LineMapping) (next : Option Record) (m p : Bytes)
    (h : sameRange lm next = true ∨ st.unique.contains (obf, args, name) = true) :
    bpOf (buildStep true st (.method ty name obf args fc lm) next).cur.members m p =
      bpOf st.cur.members m p ∧
    (buildStep true st (.method ty name obf args fc lm) next).unique = st.unique := by
  simp only [buildStep, Bool.not_true, Bool.false_eq_true, if_false, sameRange_eq]
  by_cases h1 : sameRange lm next = true
  · simp only [h1, if_true]
    exact ⟨bpOf_same _ _ _ _ _, trivial⟩
  · have h2 : st.unique.contains (obf, args, name) = true := by
      cases h with
      | inl h => exact absurd h h1
      | inr h => exact h
    have h1' : sameRange lm next = false := by simpa using h1
    simp only [h1', Bool.false_eq_true, if_false, h2, if_true]
    exact ⟨bpOf_same _ _ _ _ _, trivial⟩

theorem buildStep_method_bp_add (st : BuildState) (ty name obf args : Bytes)
    (fc : Option Bytes) (lm : Option LineMapping) (next : Option Record) (m p : Bytes)
    (h1 : sameRange lm next = false) (h2 : st.unique.contains (obf, args, name) = false) :
    bpOf (buildStep true st (.method ty name obf args fc lm) next).cur.members m p =
      bpOf st.cur.members m p ++
        (if obf = m ∧ args = p then [memberOf name fc lm st.cur.fileName] else []) ∧
    (buildStep true st (.method ty name obf args fc lm) next).unique =
      (obf, args, name) :: st.unique := by
  simp only [buildStep, Bool.not_true, Bool.false_eq_true, if_false, sameRange_eq, h1, h2]
  exact ⟨bpOf_add _ _ _ _ _ _ _, trivial⟩


theorem bpOf_buildGo_false (st : BuildState) (body : List Record)
    (hb : ∀ r ∈ body, isCls r = false) (m p : Bytes) :
    bpOf (buildGo false st body).cur.members m p = bpOf st.cur.members m p := by
  induction body generalizing st with
  | nil => simp [buildGo]
  | cons r rest ih =>
    have hrest : ∀ x ∈ rest, isCls x = false := fun x hx => hb x (by simp [hx])
    simp only [buildGo]
    rw [ih _ hrest]
    cases r with
    | cls o b => have := hb (.cls o b) (by simp); simp [isCls] at this
    | header k v =>
      simp only [buildStep]
      by_cases hk : (k == litSourceFile) = true <;> simp [hk]
    | field _ _ _ => simp [buildStep]
    | method ty name obf args fc lm => exact buildStep_method_bp_false _ _ _ _ _ _ _ _ _ _

theorem bpOf_buildGo_true (st : BuildState) (body : List Record)
    (hb : ∀ r ∈ body, isCls r = false) (m p : Bytes) :
    bpOf (buildGo true st body).cur.members m p =
      bpOf st.cur.members m p ++
        ((dedupBy (fun e : Entry => (e.obf, e.args, e.name))
            ((entriesFrom st.cur.fileName body).filter (fun e => !e.inlined)) st.unique).filter
          (fun e => e.obf == m && e.args == p)).map toMM := by
  induction body generalizing st with
  | nil => simp [buildGo, entriesFrom, dedupBy]
  | cons r rest ih =>
    have hrest : ∀ x ∈ rest, isCls x = false := fun x hx => hb x (by simp [hx])
    simp only [buildGo]
    rw [ih _ hrest]
    cases r with
    | cls o b => have := hb (.cls o b) (by simp); simp [isCls] at this
    | header k v =>
      simp only [buildStep, entriesFrom]
      by_cases hk : (k == litSourceFile) = true <;> simp [hk]
    | field _ _ _ => simp [buildStep, entriesFrom]
    | method ty name obf args fc lm =>
      rw [buildStep_method_fileName]
      simp only [entriesFrom, List.filter_cons]
      by_cases h1 : sameRange lm rest.head? = true
      · obtain ⟨e1, e2⟩ := buildStep_method_bp_skip st ty name obf args fc lm rest.head? m p (Or.inl h1)
        rw [e1, e2]
        simp [h1]
      · have h1' : sameRange lm rest.head? = false := by simpa using h1
        simp only [h1', Bool.not_false, if_true]
        by_cases h2 : st.unique.contains (obf, args, name) = true
        · obtain ⟨e1, e2⟩ := buildStep_method_bp_skip st ty name obf args fc lm rest.head? m p (Or.inr h2)
          rw [e1, e2]
          simp only [dedupBy, h2, if_true]
        · have h2' : st.unique.contains (obf, args, name) = false := by simpa using h2
          obtain ⟨e1, e2⟩ := buildStep_method_bp_add st ty name obf args fc lm rest.head? m p h1' h2'
          rw [e1, e2]
          simp only [dedupBy, h2', Bool.false_eq_true, if_false, List.filter_cons]
          by_cases hk : obf = m ∧ args = p
          · obtain ⟨rfl, rfl⟩ := hk
            simp [toMM]
          · have : (obf == m && args == p) = false := by
              simp only [Bool.and_eq_false_iff, beq_eq_false_iff_ne]
              by_cases ho : obf = m
              · right; intro ha; exact hk ⟨ho, ha⟩
              · left; exact ho
            simp [this, hk]


/-! ### the class table -/

theorem buildStep_indep (pm : Bool) (st1 st2 : BuildState) (r : Record) (next : Option Record)
    (hc : st1.cur = st2.cur) (hu : st1.unique = st2.unique) :
    (buildStep pm st1 r next).cur = (buildStep pm st2 r next).cur ∧
    (buildStep pm st1 r next).unique = (buildStep pm st2 r next).unique := by
  obtain ⟨c1, cur1, u1⟩ := st1
  obtain ⟨c2, cur2, u2⟩ := st2
  simp only at hc hu
  subst hc; subst hu
  cases r with
  | cls o b => simp [buildStep]
  | header k v => simp only [buildStep]; split <;> simp
  | field _ _ _ => simp [buildStep]
  | method ty name obf args fc lm =>
    simp only [buildStep]
    split
    · simp
    · split
      · simp
      · split <;> simp

theorem buildGo_indep (pm : Bool) (st1 st2 : BuildState) (recs : List Record)
    (hc : st1.cur = st2.cur) (hu : st1.unique = st2.unique) :
    (buildGo pm st1 recs).cur = (buildGo pm st2 recs).cur := by
  induction recs generalizing st1 st2 with
  | nil => simpa [buildGo] using hc
  | cons r rest ih =>
    simp only [buildGo]
    obtain ⟨h1, h2⟩ := buildStep_indep pm st1 st2 r rest.head? hc hu
    exact ih _ _ h1 h2

/-- the class mapping the mapper builds for one block -/
def blockCM (pm : Bool) (b : Block) : ClassMapping :=
  (buildGo pm ⟨[], ⟨b.orig, b.obf, none, []⟩, []⟩ b.body).cur

theorem bodyOf_noncls (recs : List Record) : ∀ r ∈ bodyOf recs, isCls r = false := by
  intro r hr
  have h : ((recs.takeWhile (fun r => !isCls r)).all (fun r => !isCls r)) = true := List.all_takeWhile
  rw [List.all_eq_true] at h
  have := h r hr
  simpa using this

theorem bodyOf_cons_cls (o b : Bytes) (rest : List Record) : bodyOf (.cls o b :: rest) = [] := by
  simp [bodyOf, isCls]

theorem bodyOf_cons_noncls (r : Record) (rest : List Record) (h : isCls r = false) :
    bodyOf (r :: rest) = r :: bodyOf rest := by
  simp [bodyOf, h]

theorem sameRangeAsNext_bodyOf (lm : Option LineMapping) (rest : List Record) :
    sameRangeAsNext lm (bodyOf rest).head? = sameRangeAsNext lm rest.head? := by
  cases rest with
  | nil => rfl
  | cons x xs =>
    by_cases hx : isCls x = true
    · cases x with
      | cls o b => rw [bodyOf_cons_cls]; cases lm <;> rfl
      | _ => simp [isCls] at hx
    · have hx' : isCls x = false := by simpa using hx
      rw [bodyOf_cons_noncls x xs hx']
      rfl

theorem buildStep_bodyOf (pm : Bool) (st : BuildState) (r : Record) (rest : List Record) :
    buildStep pm st r (bodyOf rest).head? = buildStep pm st r rest.head? := by
  cases r with
  | method ty name obf args fc lm =>
    simp only [buildStep, sameRangeAsNext_bodyOf]
  | _ => rfl

theorem blocksOf_cons_noncls (r : Record) (rest : List Record) (h : isCls r = false) :
    blocksOf (r :: rest) = blocksOf rest := by
  cases r with
  | cls o b => simp [isCls] at h
  | _ => rfl

theorem lastBlock_nil (c : Bytes) : lastBlock [] c = none := by
  simp [lastBlock, blocksOf]

theorem lastBlock_cons_noncls (r : Record) (rest : List Record) (c : Bytes) (h : isCls r = false) :
    lastBlock (r :: rest) c = lastBlock rest c := by
  unfold lastBlock
  rw [blocksOf_cons_noncls r rest h]

theorem lastBlock_cons_cls (o b : Bytes) (rest : List Record) (c : Bytes) :
    lastBlock (.cls o b :: rest) c =
      match lastBlock rest c with
      | some x => some x
      | none => if (b == c && !o.isEmpty) = true then some ⟨o, b, bodyOf rest⟩ else none := by
  unfold lastBlock
  simp only [blocksOf, List.filter_cons]
  generalize (List.filter (fun b => b.obf == c && !b.orig.isEmpty) (blocksOf rest)) = l
  by_cases hp : (b == c && !o.isEmpty) = true
  · simp only [hp, if_true]
    rw [List.getLast?_cons]
    cases l.getLast? <;> rfl
  · have hp' : (b == c && !o.isEmpty) = false := by simpa using hp
    simp only [hp', Bool.false_eq_true, if_false]
    cases l.getLast? <;> rfl

theorem lookup_flushClass (classes : List (Bytes × ClassMapping)) (cm : ClassMapping) (c : Bytes) :
    (flushClass classes cm).lookup c =
      if (cm.obfuscated == c && !cm.original.isEmpty) = true then some cm else classes.lookup c := by
  unfold flushClass
  by_cases he : cm.original.isEmpty = true
  · simp [he]
  · have he' : cm.original.isEmpty = false := by simpa using he
    simp only [he', Bool.false_eq_true, if_false, Bool.not_false, Bool.and_true]
    rw [lookup_cons_ite]
    by_cases h : c = cm.obfuscated
    · subst h; simp
    · have h' : ¬ cm.obfuscated = c := fun e => h e.symm
      simp [h, h']

/-- the final class table -/
def finClasses (pm : Bool) (st : BuildState) (recs : List Record) : List (Bytes × ClassMapping) :=
  flushClass (buildGo pm st recs).classes (buildGo pm st recs).cur

theorem finClasses_lookup (pm : Bool) (st : BuildState) (recs : List Record) (c : Bytes) :
    (finClasses pm st recs).lookup c =
      match lastBlock recs c with
      | some b => some (blockCM pm b)
      | none => (flushClass st.classes (buildGo pm st (bodyOf recs)).cur).lookup c := by
  induction recs generalizing st with
  | nil => simp [finClasses, lastBlock_nil, bodyOf, buildGo]
  | cons r rest ih =>
    by_cases hr : isCls r = true
    · cases r with
      | cls o b =>
        have e : finClasses pm st (.cls o b :: rest) =
            finClasses pm ⟨flushClass st.classes st.cur, ⟨o, b, none, []⟩, []⟩ rest := by
          simp [finClasses, buildGo, buildStep]
        rw [e, ih, lastBlock_cons_cls, bodyOf_cons_cls]
        cases lastBlock rest c with
        | some x => rfl
        | none =>
          simp only [buildGo]
          obtain ⟨g1, g2, _⟩ := buildGo_noncls_names pm
            ⟨flushClass st.classes st.cur, ⟨o, b, none, []⟩, []⟩ (bodyOf rest) (bodyOf_noncls rest)
          simp only at g1 g2
          rw [lookup_flushClass, g1, g2]
          by_cases hp : (b == c && !o.isEmpty) = true
          · simp only [hp, if_true]
            congr 1
            exact buildGo_indep pm _ _ _ rfl rfl
          · have hp' : (b == c && !o.isEmpty) = false := by simpa using hp
            simp only [hp', Bool.false_eq_true, if_false]
      | _ => simp [isCls] at hr
    · have hr' : isCls r = false := by simpa using hr
      have e : finClasses pm st (r :: rest) = finClasses pm (buildStep pm st r rest.head?) rest := by
        simp [finClasses, buildGo]
      rw [e, ih, lastBlock_cons_noncls r rest c hr', bodyOf_cons_noncls r rest hr']
      cases lastBlock rest c with
      | some x => rfl
      | none =>
        simp only [buildGo, buildStep_bodyOf]
        rw [(buildStep_noncls_names pm st r rest.head? hr').2.2]

theorem build_lookup (recs : List Record) (pm : Bool) (c : Bytes) :
    (Mapper.build recs pm).classes.lookup c = (lastBlock recs c).map (blockCM pm) := by
  have h := finClasses_lookup pm ⟨[], emptyClass, []⟩ recs c
  unfold finClasses at h
  simp only [Mapper.build]
  rw [h]
  cases lastBlock recs c with
  | some b => rfl
  | none =>
    obtain ⟨g1, _, _⟩ := buildGo_noncls_names pm ⟨[], emptyClass, []⟩ (bodyOf recs) (bodyOf_noncls recs)
    simp only [Option.map_none]
    rw [lookup_flushClass, g1]
    simp [emptyClass]


/-! ### facts about `lastBlock` -/

theorem blocksOf_mem (recs : List Record) (b : Block) (hb : b ∈ blocksOf recs) :
    (.cls b.orig b.obf) ∈ recs ∧ ∃ rest, b.body = bodyOf rest := by
  induction recs with
  | nil => simp [blocksOf] at hb
  | cons r rest ih =>
    by_cases hr : isCls r = true
    · cases r with
      | cls o ob =>
        simp only [blocksOf, List.mem_cons] at hb
        cases hb with
        | inl h => subst h; exact ⟨by simp, rest, rfl⟩
        | inr h => obtain ⟨h1, h2⟩ := ih h; exact ⟨by simp [h1], h2⟩
      | _ => simp [isCls] at hr
    · have hr' : isCls r = false := by simpa using hr
      rw [blocksOf_cons_noncls r rest hr'] at hb
      obtain ⟨h1, h2⟩ := ih hb
      exact ⟨by simp [h1], h2⟩

theorem lastBlock_some (recs : List Record) (c : Bytes) (b : Block) (h : lastBlock recs c = some b) :
    b ∈ blocksOf recs ∧ b.obf = c ∧ b.orig.isEmpty = false := by
  unfold lastBlock at h
  have hm := List.mem_of_getLast? h
  rw [List.mem_filter] at hm
  obtain ⟨h1, h2⟩ := hm
  simp only [Bool.and_eq_true, beq_iff_eq, Bool.not_eq_true'] at h2
  exact ⟨h1, h2.1, h2.2⟩

theorem lastBlock_body_noncls (recs : List Record) (c : Bytes) (b : Block)
    (h : lastBlock recs c = some b) : ∀ r ∈ b.body, isCls r = false := by
  obtain ⟨h1, _, _⟩ := lastBlock_some recs c b h
  obtain ⟨_, rest, h3⟩ := blocksOf_mem recs b h1
  rw [h3]
  exact bodyOf_noncls rest

/-! ### the class mapping of one block -/

theorem blockCM_original (pm : Bool) (b : Block) (hb : ∀ r ∈ b.body, isCls r = false) :
    (blockCM pm b).original = b.orig :=
  (buildGo_noncls_names pm _ b.body hb).1

theorem blockCM_all (pm : Bool) (b : Block) (hb : ∀ r ∈ b.body, isCls r = false) (m : Bytes) :
    allOf (blockCM pm b).members m = (b.entries.filter (fun e => e.obf == m)).map toMM := by
  unfold blockCM
  rw [allOf_buildGo pm _ b.body hb m]
  simp [allOf, Block.entries]

theorem blockCM_bp_false (b : Block) (hb : ∀ r ∈ b.body, isCls r = false) (m p : Bytes) :
    bpOf (blockCM false b).members m p = [] := by
  unfold blockCM
  rw [bpOf_buildGo_false _ b.body hb m p]
  simp [bpOf]

theorem blockCM_bp_true (b : Block) (hb : ∀ r ∈ b.body, isCls r = false) (m p : Bytes) :
    bpOf (blockCM true b).members m p =
      ((dedupBy (fun e : Entry => (e.obf, e.args, e.name))
          (b.entries.filter (fun e => !e.inlined)) []).filter
        (fun e => e.obf == m && e.args == p)).map toMM := by
  unfold blockCM
  rw [bpOf_buildGo_true _ b.body hb m p]
  simp [bpOf, Block.entries]

/-! ### the queries in terms of `lastBlock`, `allOf`, `bpOf` -/

theorem remapClass_eq (recs : List Record) (pm : Bool) (c : Bytes) :
    (Mapper.build recs pm).remapClass c = (lastBlock recs c).map (fun b => (blockCM pm b).original) := by
  unfold Mapper.remapClass
  rw [build_lookup]
  cases lastBlock recs c <;> rfl

theorem remapMethod_eq (recs : List Record) (pm : Bool) (c m : Bytes) :
    (Mapper.build recs pm).remapMethod c m =
      match lastBlock recs c with
      | none => none
      | some b =>
        match allOf (blockCM pm b).members m with
        | [] => none
        | first :: rest =>
          if rest.all (fun x => x.original == first.original) then
            some ((blockCM pm b).original, first.original)
          else none := by
  unfold Mapper.remapMethod
  rw [build_lookup]
  cases lastBlock recs c with
  | none => rfl
  | some b =>
    simp only [Option.map_some, allOf]
    cases (blockCM pm b).members.lookup m <;> rfl

theorem remapFrame_eq (recs : List Record) (pm : Bool) (q : Frame) :
    (Mapper.build recs pm).remapFrame q =
      match lastBlock recs q.cls with
      | none => []
      | some b =>
        match q.params with
        | some p => (bpOf (blockCM pm b).members q.method p).map
            (paramFrame { q with cls := (blockCM pm b).original })
        | none => (allOf (blockCM pm b).members q.method).filterMap
            (lineFrame { q with cls := (blockCM pm b).original }) := by
  unfold Mapper.remapFrame
  rw [build_lookup]
  cases lastBlock recs q.cls with
  | none => rfl
  | some b =>
    simp only [Option.map_some, allOf, bpOf]
    cases (blockCM pm b).members.lookup q.method with
    | none => cases q.params <;> rfl
    | some ms =>
      cases q.params with
      | none => rfl
      | some p => simp only; cases ms.byParams.lookup p <;> rfl

/-! ### model arithmetic / file rule = spec arithmetic / file rule -/

theorem toMM_originalClass (e : Entry) : (toMM e).originalClass = e.fc := by
  unfold toMM memberOf
  split
  · rfl
  · split <;> rfl

theorem toMM_original (e : Entry) : (toMM e).original = e.name := by
  unfold toMM memberOf
  split
  · rfl
  · split <;> rfl

theorem toMM_originalFile (e : Entry) : (toMM e).originalFile = e.file := by
  unfold toMM memberOf
  split
  · rfl
  · split <;> rfl

theorem satAdd_eq (a b : Nat) : satAdd a b = satAdd' a b := rfl

theorem extractClassName_eq (full : Bytes) : extractClassName full = outerSimpleName full := by
  unfold extractClassName outerSimpleName rsplitOnce splitOnce
  have htd := List.takeWhile_append_dropWhile (p := fun x : UInt8 => x != 46) (l := full.reverse)
  cases hd : full.reverse.dropWhile (fun x => x != 46) with
  | nil =>
    rw [hd, List.append_nil] at htd
    simp only [htd, List.reverse_reverse]
  | cons x r => simp only

theorem fileRule_eq (e : Entry) (cls : Bytes) (qfile : Option Bytes) :
    fileRule e.file e.fc cls qfile = fileOf e cls qfile := by
  unfold fileRule fileOf
  cases e.file with
  | none => rfl
  | some f =>
    simp only [extractClassName_eq]
    have : litSynthetic = syntheticMarker := rfl
    rw [this]
    by_cases h : f = syntheticMarker
    · simp [h]
    · have : (f == syntheticMarker) = false := by simpa using h
      simp [h, this]


theorem range_eq (e : Entry) (line : Nat) :
    (decide ((toMM e).endline > 0) &&
      (decide (line < (toMM e).startline) || decide (line > (toMM e).endline))) =
      !applies e.lm line := by
  obtain ⟨obf, name, args, fc, lm, file, inl⟩ := e
  cases lm with
  | none => simp [toMM, memberOf, applies]
  | some l =>
    obtain ⟨s, en, os, oe⟩ := l
    have : ∀ x y z w : Nat, (decide (x > 0) && (decide (line < y) || decide (line > x))) =
        !(x == 0 || (decide (y ≤ line) && decide (line ≤ x))) := by
      intro x y z w
      by_cases h1 : x = 0
      · subst h1; simp
      · by_cases h2 : line < y
        · have : ¬ y ≤ line := by omega
          simp [h1, h2, this, Nat.pos_of_ne_zero h1]
        · by_cases h3 : line > x
          · have : ¬ line ≤ x := by omega
            simp [h1, h3, this, Nat.pos_of_ne_zero h1]
          · have h4 : y ≤ line := by omega
            have h5 : line ≤ x := by omega
            simp [h2, h3, h4, h5]
    cases os with
    | none => simp only [toMM, memberOf, applies]; exact this en s 0 0
    | some o => simp only [toMM, memberOf, applies]; exact this en s 0 0

theorem origLine_eq (e : Entry) (line : Nat) :
    origLine (toMM e).originalStartline (toMM e).originalEndline (toMM e).startline line =
      origLineOf e.lm line := by
  obtain ⟨obf, name, args, fc, lm, file, inl⟩ := e
  cases lm with
  | none => simp [toMM, memberOf, origLine, origLineOf]
  | some l =>
    obtain ⟨s, en, os, oe⟩ := l
    cases os with
    | none =>
      simp only [toMM, memberOf, origLine, origLineOf, satAdd_eq]
      by_cases h : en = s
      · simp [h]
      · simp [h]
    | some o =>
      cases oe with
      | none => simp [toMM, memberOf, origLine, origLineOf]
      | some oe =>
        simp only [toMM, memberOf, origLine, origLineOf, satAdd_eq]
        by_cases h : oe = o
        · simp [h]
        · simp [h]

theorem lineFrame_toMM (fr : Frame) (e : Entry) :
    lineFrame fr (toMM e) =
      if applies e.lm fr.line then
        some { cls := e.fc.getD fr.cls, method := e.name, line := origLineOf e.lm fr.line,
               file := fileOf e fr.cls fr.file, params := fr.params }
      else none := by
  unfold lineFrame
  rw [range_eq, origLine_eq, toMM_originalClass, toMM_original, toMM_originalFile, fileRule_eq]
  cases applies e.lm fr.line <;> simp

theorem paramFrame_toMM (fr : Frame) (e : Entry) :
    paramFrame fr (toMM e) =
      { cls := e.fc.getD fr.cls, method := e.name, line := 0, file := none, params := fr.params } := by
  unfold paramFrame
  rw [toMM_originalClass, toMM_original]

theorem filterMap_ite {α β : Type} (p : α → Bool) (f : α → β) (l : List α) :
    l.filterMap (fun x => if p x then some (f x) else none) = (l.filter p).map f := by
  induction l with
  | nil => rfl
  | cons a l ih =>
    by_cases h : p a = true
    · simp [h, ih]
    · have : p a = false := by simpa using h
      simp [this, ih]


/-! ### the main equalities -/

theorem remapClass_spec (recs : List Record) (pm : Bool) (c : Bytes) :
    (Mapper.build recs pm).remapClass c = classOf recs c := by
  rw [remapClass_eq]
  unfold classOf
  cases h : lastBlock recs c with
  | none => rfl
  | some b =>
    simp only [Option.map_some]
    rw [blockCM_original pm b (lastBlock_body_noncls recs c b h)]

theorem remapMethod_spec (recs : List Record) (pm : Bool) (c m : Bytes) :
    (Mapper.build recs pm).remapMethod c m = methodOf recs c m := by
  rw [remapMethod_eq]
  unfold methodOf
  cases h : lastBlock recs c with
  | none => rfl
  | some b =>
    have hb := lastBlock_body_noncls recs c b h
    simp only
    rw [blockCM_all pm b hb, blockCM_original pm b hb]
    cases b.entries.filter (fun e => e.obf == m) with
    | nil => rfl
    | cons e rest =>
      simp only [List.map_cons, toMM_original, List.all_map]
      have hf : ((fun x : MemberMapping => x.original == e.name) ∘ toMM) =
          fun x : Entry => x.name == e.name := by
        funext x
        simp [toMM_original]
      rw [hf]

theorem remapFrame_line (recs : List Record) (pm : Bool) (q : Frame) (hq : q.params = none) :
    (Mapper.build recs pm).remapFrame q = framesByLine recs q := by
  obtain ⟨qc, qm, ql, qf, qp⟩ := q
  simp only at hq
  subst hq
  rw [remapFrame_eq]
  unfold framesByLine
  cases h : lastBlock recs qc with
  | none => rfl
  | some b =>
    have hb := lastBlock_body_noncls recs qc b h
    simp only
    rw [blockCM_all pm b hb, blockCM_original pm b hb, List.filterMap_map]
    have hf : (lineFrame ⟨b.orig, qm, ql, qf, none⟩ ∘ toMM) = fun e =>
        if applies e.lm ql then
          some ({ cls := e.fc.getD b.orig, method := e.name, line := origLineOf e.lm ql,
                  file := fileOf e b.orig qf, params := none } : Frame)
        else none := by
      funext e
      exact lineFrame_toMM _ e
    rw [hf, filterMap_ite]

theorem remapFrame_params (recs : List Record) (q : Frame) (p : Bytes) (hq : q.params = some p) :
    (Mapper.build recs true).remapFrame q = framesByParams recs q p := by
  obtain ⟨qc, qm, ql, qf, qp⟩ := q
  simp only at hq
  subst hq
  rw [remapFrame_eq]
  unfold framesByParams
  cases h : lastBlock recs qc with
  | none => rfl
  | some b =>
    have hb := lastBlock_body_noncls recs qc b h
    simp only
    rw [blockCM_bp_true b hb, blockCM_original true b hb, List.map_map]
    have hf : (paramFrame ⟨b.orig, qm, ql, qf, some p⟩ ∘ toMM) = fun e =>
        ({ cls := e.fc.getD b.orig, method := e.name, line := 0, file := none,
           params := some p } : Frame) := by
      funext e
      exact paramFrame_toMM _ e
    rw [hf]

theorem remapFrame_params_false (recs : List Record) (q : Frame) (p : Bytes) (hq : q.params = some p) :
    (Mapper.build recs false).remapFrame q = [] := by
  rw [remapFrame_eq]
  cases h : lastBlock recs q.cls with
  | none => rfl
  | some b =>
    have hb := lastBlock_body_noncls recs q.cls b h
    simp only [hq]
    rw [blockCM_bp_false b hb]
    rfl


/-! ### facts about the specification used by the corollaries -/

theorem mem_dedupBy {α κ : Type} [BEq κ] (key : α → κ) (l : List α) (seen : List κ) (a : α)
    (h : a ∈ dedupBy key l seen) : a ∈ l ∧ seen.contains (key a) = false := by
  induction l generalizing seen with
  | nil => simp [dedupBy] at h
  | cons x xs ih =>
    simp only [dedupBy] at h
    by_cases hc : seen.contains (key x) = true
    · simp only [hc, if_true] at h
      obtain ⟨h1, h2⟩ := ih seen h
      exact ⟨by simp [h1], h2⟩
    · have hc' : seen.contains (key x) = false := by simpa using hc
      simp only [hc', Bool.false_eq_true, if_false, List.mem_cons] at h
      cases h with
      | inl h => subst h; exact ⟨by simp, hc'⟩
      | inr h =>
        obtain ⟨h1, h2⟩ := ih _ h
        refine ⟨by simp [h1], ?_⟩
        rw [List.contains_cons] at h2
        simp only [Bool.or_eq_false_iff] at h2
        exact h2.2

theorem dedupBy_pairwise {α κ : Type} [BEq κ] [LawfulBEq κ] (key : α → κ) (l : List α) (seen : List κ) :
    (dedupBy key l seen).Pairwise (fun a b => key a ≠ key b) := by
  induction l generalizing seen with
  | nil => simp [dedupBy]
  | cons x xs ih =>
    simp only [dedupBy]
    by_cases hc : seen.contains (key x) = true
    · simp only [hc, if_true]
      exact ih seen
    · have hc' : seen.contains (key x) = false := by simpa using hc
      simp only [hc', Bool.false_eq_true, if_false, List.pairwise_cons]
      refine ⟨?_, ih _⟩
      intro b hb
      have := (mem_dedupBy key xs (key x :: seen) b hb).2
      rw [List.contains_cons] at this
      simp only [Bool.or_eq_false_iff, beq_eq_false_iff_ne] at this
      exact fun e => this.1 e.symm

theorem lastBlock_none_of_no_cls (recs : List Record) (c : Bytes)
    (h : ∀ r ∈ recs, ∀ o, r ≠ .cls o c) : lastBlock recs c = none := by
  cases hl : lastBlock recs c with
  | none => rfl
  | some b =>
    obtain ⟨h1, h2, _⟩ := lastBlock_some recs c b hl
    obtain ⟨h3, _⟩ := blocksOf_mem recs b h1
    rw [h2] at h3
    exact absurd rfl (h _ h3 b.orig)

theorem bodyOf_subset (recs : List Record) : ∀ r ∈ bodyOf recs, r ∈ recs := by
  intro r hr
  exact (List.takeWhile_sublist _).subset hr

theorem blocksOf_body_subset (recs : List Record) (b : Block) (hb : b ∈ blocksOf recs) :
    ∀ r ∈ b.body, r ∈ recs := by
  induction recs with
  | nil => simp [blocksOf] at hb
  | cons r rest ih =>
    by_cases hr : isCls r = true
    · cases r with
      | cls o ob =>
        simp only [blocksOf, List.mem_cons] at hb
        cases hb with
        | inl h => subst h; intro x hx; exact List.mem_cons_of_mem _ (bodyOf_subset rest x hx)
        | inr h => intro x hx; exact List.mem_cons_of_mem _ (ih h x hx)
      | _ => simp [isCls] at hr
    · have hr' : isCls r = false := by simpa using hr
      rw [blocksOf_cons_noncls r rest hr'] at hb
      intro x hx; exact List.mem_cons_of_mem _ (ih hb x hx)

theorem entriesFrom_mem (file : Option Bytes) (body : List Record) (e : Entry)
    (h : e ∈ entriesFrom file body) : ∃ ty, (.method ty e.name e.obf e.args e.fc e.lm) ∈ body := by
  induction body generalizing file with
  | nil => simp [entriesFrom] at h
  | cons r rest ih =>
    cases r with
    | header k v =>
      simp only [entriesFrom] at h
      obtain ⟨ty, ht⟩ := ih _ h
      exact ⟨ty, List.mem_cons_of_mem _ ht⟩
    | cls o b =>
      simp only [entriesFrom] at h
      obtain ⟨ty, ht⟩ := ih _ h
      exact ⟨ty, List.mem_cons_of_mem _ ht⟩
    | field _ _ _ =>
      simp only [entriesFrom] at h
      obtain ⟨ty, ht⟩ := ih _ h
      exact ⟨ty, List.mem_cons_of_mem _ ht⟩
    | method ty name obf args fc lm =>
      simp only [entriesFrom, List.mem_cons] at h
      cases h with
      | inl h => subst h; exact ⟨ty, by simp⟩
      | inr h =>
        obtain ⟨ty', ht⟩ := ih _ h
        exact ⟨ty', List.mem_cons_of_mem _ ht⟩

/-- no method record with that obfuscated name: no entry with it in any block -/
theorem entries_filter_nil (recs : List Record) (c m : Bytes) (b : Block)
    (hl : lastBlock recs c = some b)
    (h : ∀ r ∈ recs, ∀ ty o a fc lm, r ≠ .method ty o m a fc lm) :
    ∀ e ∈ b.entries, e.obf ≠ m := by
  intro e he hm
  obtain ⟨ty, ht⟩ := entriesFrom_mem none b.body e he
  have := blocksOf_body_subset recs b (lastBlock_some recs c b hl).1 _ ht
  rw [hm] at this
  exact h _ this _ _ _ _ _ rfl

end PG
