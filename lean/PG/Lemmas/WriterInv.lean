/-
  PG.Lemmas.WriterInv — the cache *writer* produces tables that represent the record stream
  (`WriterSpec`), and everything stored in a `u32` fits (`Tables.Fits`), for every record list
  in the representable domain whose tables are small enough for the `u32` counters.
-/
import PG.Spec.CacheView
import PG.Lemmas.Serial
import PG.Lemmas.Sorted
import PG.Lemmas.StrTab
namespace PG

/-- the size hypothesis forced by the format's `u32` counters and string offsets -/
structure Tables.Small (t : Tables) : Prop where
  nc : t.classes.length < u32Bound
  nm : t.members.length < u32Bound
  nb : t.byParams.length < u32Bound
  sb : t.strings.length < u32Max

/-- for *every* record list (no domain restriction): if the tables are small, everything fits;
    this is what makes the writer's own output always parse (C13) -/
theorem build_fits (recs : List Record) (hs : (Tables.build recs).Small) : (Tables.build recs).Fits := by
  sorry

/-- in the representable domain the written tables represent the record stream (C02, C09) -/
theorem build_writerSpec (recs : List Record) (hr : ReprR recs) (hs : (Tables.build recs).Small) :
    WriterSpec recs (Cache.ofTables (Tables.build recs)) := by
  sorry

end PG
