/-
  PG.Lemmas.WriterInv — the cache *writer* produces tables that represent the record stream
  (`WriterSpec`), and everything stored in a `u32` fits (`Tables.Fits`), for every record list
  in the representable domain whose tables are small enough for the `u32` counters.
-/
import PG.Spec.CacheView
import PG.Lemmas.Serial
import PG.Lemmas.Sorted
import PG.Lemmas.StrTab
import PG.Lemmas.WriterInv0
import PG.Lemmas.WriterInv1
namespace PG

namespace WI
open SpecR

/-! ### resolving offsets in the final table -/

theorem res_str (T : StrTab) (hi : T.Inv) (hsb : T.bytes.length < u32Max) (C : Cache)
    (hC : C.strings = T.bytes) (s : Bytes) (h : InTab T s) :
    C.str (off T s) = some s ∧ off T s ≠ u32Max ∧ (s, off T s) ∈ T.index := by
  obtain ⟨o, ho⟩ := h
  obtain ⟨_, hlt, hread⟩ := hi.reads s o ho
  have ho32 : o < u32Bound := by simp only [u32Max, u32Bound] at *; omega
  have e : off T s = o := by rw [off_of_mem T hi s o ho]; exact asU32_of_lt o ho32
  rw [e]
  refine ⟨?_, ?_, ho⟩
  · have := hread []
    rw [List.append_nil] at this
    simp only [Cache.str, hC, this]
  · omega

theorem res_opt (T : StrTab) (hi : T.Inv) (hsb : T.bytes.length < u32Max) (C : Cache)
    (hC : C.strings = T.bytes) (s : Option Bytes) (h : OptInTab T s) :
    C.optStr (optOffAt T s) = some s := by
  cases s with
  | none => simp [Cache.optStr, optOffAt]
  | some x =>
    obtain ⟨h1, h2, _⟩ := res_str T hi hsb C hC x h
    simp [Cache.optStr, optOffAt, h1, h2]

theorem res_args (T : StrTab) (hi : T.Inv) (hsb : T.bytes.length < u32Max) (C : Cache)
    (hC : C.strings = T.bytes) (a : Bytes) (h : a ≠ [] → InTab T a) :
    ∃ x : Option Bytes, C.optStr (off T a) = some x ∧ x.getD [] = a := by
  by_cases ha : a = []
  · subst ha
    exact ⟨none, by simp [Cache.optStr, off_nil], rfl⟩
  · obtain ⟨h1, h2, _⟩ := res_str T hi hsb C hC a (h ha)
    exact ⟨some a, by simp [Cache.optStr, h1, h2], rfl⟩

def vm (T : StrTab) (e : Entry) : MView := MView.ofEntry e (off T e.name)

theorem view_rawOf (T : StrTab) (hi : T.Inv) (hsb : T.bytes.length < u32Max) (C : Cache)
    (hC : C.strings = T.bytes) (e : Entry) (he : EntryIn T e) :
    C.viewMember (rawOf T e) = some (vm T e) := by
  obtain ⟨a1, _, _⟩ := res_str T hi hsb C hC e.obf he.obf
  obtain ⟨a2, _, _⟩ := res_str T hi hsb C hC e.name he.name
  have a3 := res_opt T hi hsb C hC e.fc he.fc
  have a4 := res_opt T hi hsb C hC e.file he.file
  obtain ⟨x, a5, a6⟩ := res_args T hi hsb C hC e.args he.args
  simp only [Cache.viewMember, rawOf, rawMem, a1, a2, a3, a4, a5, a6, vm, MView.ofEntry]


/-! ### `mapM` in `Option` -/

theorem mapM_cons_opt {α β : Type} (f : α → Option β) (a : α) (l : List α) :
    (a :: l).mapM f = match f a, l.mapM f with
      | some b, some bs => some (b :: bs)
      | _, _ => none := by
  rw [List.mapM_cons]
  cases f a with
  | none => rfl
  | some b => cases l.mapM f <;> rfl

theorem mapM_eq_some_map {α β : Type} (f : α → Option β) (g : α → β) (l : List α)
    (h : ∀ x ∈ l, f x = some (g x)) : l.mapM f = some (l.map g) := by
  induction l with
  | nil => rfl
  | cons a l ih =>
    rw [mapM_cons_opt, h a (List.mem_cons_self ..), ih (fun x hx => h x (List.mem_cons_of_mem _ hx))]
    rfl

def dfltMV : MView := ⟨[], [], [], none, none, 0, 0, 0, 0, 0⟩

/-- the view of a key-sorted list of groups whose content is known group by group -/
theorem groups_view {κ : Type} [DecidableEq κ] (ord : κ → κ → Ordering) (ho : StrictOrd ord)
    (G : List (κ × List RawMember)) (hs : KeysSorted ord G) (E : List Entry) (keyE : Entry → κ)
    (raw : Entry → RawMember) (view : RawMember → Option MView) (vmf : Entry → MView)
    (keyV : MView → κ)
    (hgrp : ∀ k, (sfind ord k G).getD [] = (E.filter (fun e => decide (keyE e = k))).map raw)
    (hview : ∀ e ∈ E, view (raw e) = some (vmf e))
    (hkey : ∀ e, keyV (vmf e) = keyE e) :
    ∃ mv, ((G.map (·.2)).flatten).mapM view = some mv ∧
      mv.Pairwise (fun x y => ord (keyV x) (keyV y) ≠ .gt) ∧
      (∀ k, mv.filter (fun x => decide (keyV x = k)) =
        (E.filter (fun e => decide (keyE e = k))).map vmf) ∧
      (∀ x ∈ mv, ∃ e ∈ E, x = vmf e) := by
  have hmem : ∀ p ∈ G, ∀ x ∈ p.2, ∃ e ∈ E, keyE e = p.1 ∧ x = raw e := by
    intro p hp x hx
    have h1 : sfind ord p.1 G = some p.2 := (sfind_eq_some_iff ord ho p.1 p.2 G hs).2 hp
    have h2 := hgrp p.1
    rw [h1, Option.getD_some] at h2
    rw [h2] at hx
    obtain ⟨e, he, rfl⟩ := List.mem_map.1 hx
    obtain ⟨he1, he2⟩ := List.mem_filter.1 he
    exact ⟨e, he1, by simpa using he2, rfl⟩
  let g : RawMember → MView := fun x => (view x).getD dfltMV
  have hg : ∀ e ∈ E, g (raw e) = vmf e := fun e he => by simp only [g, hview e he, Option.getD_some]
  have hflat : ∀ x ∈ (G.map (·.2)).flatten, ∃ e ∈ E, x = raw e := by
    intro x hx
    obtain ⟨l, hl, hxl⟩ := List.mem_flatten.1 hx
    obtain ⟨p, hp, rfl⟩ := List.mem_map.1 hl
    obtain ⟨e, he, _, rfl⟩ := hmem p hp x hxl
    exact ⟨e, he, rfl⟩
  have hk : ∀ p ∈ G, ∀ a ∈ p.2, keyV (g a) = p.1 := by
    intro p hp a ha
    obtain ⟨e, he, hke, rfl⟩ := hmem p hp a ha
    rw [hg e he, hkey, hke]
  refine ⟨((G.map (·.2)).flatten).map g, ?_, ?_, ?_, ?_⟩
  · apply mapM_eq_some_map
    intro x hx
    obtain ⟨e, he, rfl⟩ := hflat x hx
    rw [hview e he, hg e he]
  · rw [List.pairwise_map]
    exact flatten_groups_sorted ord ho G hs (fun a => keyV (g a)) hk
  · intro k
    rw [List.filter_map]
    have hf := flatten_groups_filter ord ho G hs (fun a => keyV (g a)) hk k
    have hp : ((fun x => decide (keyV x = k)) ∘ g) = fun a => ord (keyV (g a)) k == .eq := by
      funext a
      simp only [Function.comp]
      by_cases e : keyV (g a) = k
      · simp [e, ho.refl]
      · have : ord (keyV (g a)) k ≠ .eq := fun h => e ((ho.eq_iff _ _).1 h)
        simp [e, this]
    rw [hp, hf, hgrp k, List.map_map]
    apply List.map_congr_left
    intro e he
    exact hg e (List.mem_filter.1 he).1
  · intro x hx
    obtain ⟨a, ha, rfl⟩ := List.mem_map.1 hx
    obtain ⟨e, he, rfl⟩ := hflat a ha
    exact ⟨e, he, hg e he⟩


/-! ### the view of the assembled classes -/

def cipView (C : Cache) (cip : ClassInProgress) : Option CView :=
  match C.str cip.cls.obfOff, C.str cip.cls.origOff, (cipMembers cip).mapM C.viewMember,
        (cipBps cip).mapM C.viewMember with
  | some obf, some orig, some mv, some bv => some ⟨obf, orig, mv, bv⟩
  | _, _, _, _ => none

theorem sliceOf_mid {α : Type} (pre mid post : List α) :
    Cache.sliceOf (pre ++ (mid ++ post)) pre.length mid.length = some mid := by
  unfold Cache.sliceOf
  rw [if_neg (by simp only [List.length_append]; omega), List.drop_left, List.take_left]

theorem viewClass_asm (C : Cache) (c : ClassInProgress) (hc : CipOK c) (preM postM preB postB : List RawMember)
    (hM : C.members = preM ++ (cipMembers c ++ postM)) (hMl : C.members.length < u32Bound)
    (hB : C.byParams = preB ++ (cipBps c ++ postB)) (hBl : C.byParams.length < u32Bound) :
    C.viewClass { c.cls with membersOff := asU32 preM.length, bpOff := asU32 preB.length } =
      cipView C c := by
  have e1 : asU32 preM.length = preM.length := by
    apply asU32_of_lt
    rw [hM, List.length_append] at hMl; omega
  have e2 : asU32 preB.length = preB.length := by
    apply asU32_of_lt
    rw [hB, List.length_append] at hBl; omega
  have s1 : C.classMembers { c.cls with membersOff := asU32 preM.length, bpOff := asU32 preB.length }
      = some (cipMembers c) := by
    simp only [Cache.classMembers, e1, hM, hc.ml]
    exact sliceOf_mid _ _ _
  have s2 : C.classByParams { c.cls with membersOff := asU32 preM.length, bpOff := asU32 preB.length }
      = some (cipBps c) := by
    simp only [Cache.classByParams, e2, hB, hc.bl]
    exact sliceOf_mid _ _ _
  simp only [Cache.viewClass, s1, s2, cipView]
  cases C.str c.cls.obfOff with
  | none => rfl
  | some a =>
    cases C.str c.cls.origOff with
    | none => rfl
    | some b =>
      simp only
      cases (cipMembers c).mapM C.viewMember with
      | none => simp only
      | some mv => cases (cipBps c).mapM C.viewMember <;> simp only

theorem asm_view (C : Cache) (L : List ClassInProgress) (hok : ∀ c ∈ L, CipOK c)
    (preM preB : List RawMember)
    (hM : C.members = preM ++ (L.map cipMembers).flatten) (hMl : C.members.length < u32Bound)
    (hB : C.byParams = preB ++ (L.map cipBps).flatten) (hBl : C.byParams.length < u32Bound) :
    (asmCls L preM.length preB.length).mapM C.viewClass = L.mapM (cipView C) := by
  induction L generalizing preM preB with
  | nil => rfl
  | cons c rest ih =>
    simp only [List.map_cons, List.flatten_cons] at hM hB
    have hc := hok c (List.mem_cons_self ..)
    have i := ih (fun x hx => hok x (List.mem_cons_of_mem _ hx)) (preM ++ cipMembers c)
      (preB ++ cipBps c) (by rw [hM, List.append_assoc]) (by rw [hB, List.append_assoc])
    simp only [List.length_append] at i
    simp only [asmCls]
    rw [mapM_cons_opt, mapM_cons_opt, i, viewClass_asm C c hc preM _ preB _ hM hMl hB hBl]


/-! ### the view of one finished class -/

/-- what `WriterSpec` says about the class entry for block `b` -/
structure GoodCV (b : Block) (cv : CView) : Prop where
  obf : cv.obf = b.obf
  orig : cv.orig = b.orig
  msorted : cv.members.Pairwise (fun x y => cmpBytes x.obf y.obf ≠ .gt)
  mfilter : ∀ m, (cv.members.filter (fun x => x.obf == m)).map MView.core =
              (b.entries.filter (fun e => e.obf == m)).map (fun e => MView.ofEntry e 0)
  bsorted : cv.byParams.Pairwise (fun x y => cmpPair (x.obf, x.args) (y.obf, y.args) ≠ .gt)
  bfilter : ∀ m p, (cv.byParams.filter (fun x => x.obf == m && x.args == p)).map MView.core =
              (b.realEntries.filter (fun e => e.obf == m && e.args == p)).map (fun e => MView.ofEntry e 0)
  inj : ∀ x ∈ cv.members, ∀ y ∈ cv.members, (x.nameOff = y.nameOff ↔ x.name = y.name)

theorem newCip_sorted (T : StrTab) (o b : Bytes) : CipSorted (newCip T o b) :=
  ⟨List.Pairwise.nil, List.Pairwise.nil⟩

theorem beq_dec (a m : Bytes) : (a == m) = decide (a = m) := by
  by_cases h1 : a = m <;> simp [h1]

theorem pair_beq (a b m p : Bytes) : (a == m && b == p) = decide ((a, b) = (m, p)) := by
  by_cases h1 : a = m <;> by_cases h2 : b = p <;> simp [h1, h2]

theorem block_view (T : StrTab) (hi : T.Inv) (hsb : T.bytes.length < u32Max) (C : Cache)
    (hC : C.strings = T.bytes) (b : Block) (hbo : InTab T b.orig) (hbb : InTab T b.obf)
    (hE : ∀ e ∈ b.entries, EntryIn T e) :
    ∃ cv, cipView C (blockCip T b) = some cv ∧ GoodCV b cv := by
  have hsort : CipSorted (blockCip T b) := cipGo_sorted T _ (newCip_sorted T _ _) _
  obtain ⟨n1, n2, n3⟩ := cipGo_names T (newCip T b.orig b.obf) b.body
  obtain ⟨r1, _, _⟩ := res_str T hi hsb C hC b.obf hbb
  obtain ⟨r2, _, _⟩ := res_str T hi hsb C hC b.orig hbo
  have hE' : ∀ e ∈ b.realEntries, EntryIn T e := fun e he => hE e (realEntries_subset b e he)
  -- members
  have hg1 : ∀ k, (sfind cmpBytes k (blockCip T b).members).getD [] =
      (b.entries.filter (fun e => decide (e.obf = k))).map (rawOf T) := by
    intro k
    have := cipGo_memGrp T (newCip T b.orig b.obf) (newCip_sorted T _ _) none rfl b.body k
    have e0 : memGrp (newCip T b.orig b.obf) k = [] := rfl
    rw [e0, List.nil_append] at this
    have ep : (fun e : Entry => e.obf == k) = fun e => decide (e.obf = k) := by
      funext e; exact beq_dec _ _
    rw [ep] at this
    exact this
  obtain ⟨mv, hmv, m1, m2, m3⟩ := groups_view cmpBytes cmpBytes_strictOrd (blockCip T b).members
    hsort.ms b.entries (fun e => e.obf) (rawOf T) C.viewMember (vm T) (fun v => v.obf) hg1
    (fun e he => view_rawOf T hi hsb C hC e (hE e he)) (fun e => rfl)
  -- by-params
  have hg2 : ∀ k : Bytes × Bytes, (sfind cmpPair k (blockCip T b).byParams).getD [] =
      (b.realEntries.filter (fun e => decide ((e.obf, e.args) = k))).map (rawOf T) := by
    intro k
    obtain ⟨m, p⟩ := k
    have := cipGo_bpGrp T (newCip T b.orig b.obf) (newCip_sorted T _ _) none rfl b.body m p
    have e0 : bpGrp (newCip T b.orig b.obf) m p = [] := rfl
    rw [e0, List.nil_append] at this
    have ep : (fun e : Entry => e.obf == m && e.args == p) = fun e => decide ((e.obf, e.args) = (m, p)) := by
      funext e; exact pair_beq _ _ _ _
    rw [ep] at this
    exact this
  obtain ⟨bv, hbv, b1, b2, _⟩ := groups_view cmpPair cmpPair_strictOrd (blockCip T b).byParams
    hsort.bs b.realEntries (fun e => (e.obf, e.args)) (rawOf T) C.viewMember (vm T)
    (fun v => (v.obf, v.args)) hg2
    (fun e he => view_rawOf T hi hsb C hC e (hE' e he)) (fun e => rfl)
  refine ⟨⟨b.obf, b.orig, mv, bv⟩, ?_, rfl, rfl, m1, ?_, b1, ?_, ?_⟩
  · have q1 : (blockCip T b).cls.obfOff = off T b.obf := n2
    have q2 : (blockCip T b).cls.origOff = off T b.orig := n3
    simp only [cipView, q1, q2, r1, r2]
    simp only [cipMembers, cipBps] at hmv hbv ⊢
    rw [hmv, hbv]
  · intro m
    have ep : (fun x : MView => x.obf == m) = fun x => decide (x.obf = m) := by
      funext e; exact beq_dec _ _
    have ep' : (fun e : Entry => e.obf == m) = fun e => decide (e.obf = m) := by
      funext e; exact beq_dec _ _
    simp only
    rw [ep, ep', m2 m, List.map_map]
    rfl
  · intro m p
    have ep : (fun x : MView => x.obf == m && x.args == p) = fun x => decide ((x.obf, x.args) = (m, p)) := by
      funext e; exact pair_beq _ _ _ _
    have ep' : (fun e : Entry => e.obf == m && e.args == p) = fun e => decide ((e.obf, e.args) = (m, p)) := by
      funext e; exact pair_beq _ _ _ _
    simp only
    rw [ep, ep', b2 (m, p), List.map_map]
    rfl
  · intro x hx y hy
    obtain ⟨e1, he1, rfl⟩ := m3 x hx
    obtain ⟨e2, he2, rfl⟩ := m3 y hy
    obtain ⟨_, _, i1⟩ := res_str T hi hsb C hC e1.name (hE e1 he1).name
    obtain ⟨_, _, i2⟩ := res_str T hi hsb C hC e2.name (hE e2 he2).name
    exact (hi.inj _ _ _ _ i1 i2).symm


/-! ### assembling `WriterSpec` -/

def dfltCV : CView := ⟨[], [], [], []⟩

theorem spec_of_classes (recs : List Record) (C : Cache) (hsb : C.strings.length < u32Max)
    (classes : List (Bytes × ClassInProgress)) (hs : KeysSorted cmpBytes classes)
    (blk : Block → ClassInProgress)
    (hfind : ∀ c, sfind cmpBytes c classes = (lastBlock recs c).map blk)
    (hview : ∀ c b, lastBlock recs c = some b →
      b.obf = c ∧ ∃ cv, cipView C (blk b) = some cv ∧ GoodCV b cv)
    (hv : C.view = (classes.map (·.2)).mapM (cipView C)) : WriterSpec recs C := by
  have H := cmpBytes_strictOrd
  let h : ClassInProgress → CView := fun cip => (cipView C cip).getD dfltCV
  -- every class of the table comes from its last block
  have hcls : ∀ p ∈ classes, ∃ b, lastBlock recs p.1 = some b ∧ p.2 = blk b := by
    intro p hp
    have h1 : sfind cmpBytes p.1 classes = some p.2 := (sfind_eq_some_iff _ H p.1 p.2 classes hs).2 hp
    rw [hfind] at h1
    cases hl : lastBlock recs p.1 with
    | none => rw [hl] at h1; cases h1
    | some b =>
      rw [hl] at h1
      simp only [Option.map_some, Option.some.injEq] at h1
      exact ⟨b, rfl, h1.symm⟩
  have hgood : ∀ p ∈ classes, ∃ b, lastBlock recs p.1 = some b ∧ cipView C p.2 = some (h p.2) ∧
      GoodCV b (h p.2) ∧ (h p.2).obf = p.1 := by
    intro p hp
    obtain ⟨b, hb1, hb2⟩ := hcls p hp
    obtain ⟨e1, cv, e2, e3⟩ := hview p.1 b hb1
    have : h p.2 = cv := by simp only [h, hb2, e2, Option.getD_some]
    rw [this, hb2]
    exact ⟨b, hb1, e2, e3, e3.obf.trans e1⟩
  have hview' : C.view = some ((classes.map (·.2)).map h) := by
    rw [hv]
    apply mapM_eq_some_map
    intro x hx
    obtain ⟨p, hp, rfl⟩ := List.mem_map.1 hx
    obtain ⟨_, _, e, _⟩ := hgood p hp
    exact e
  have hmemv : ∀ cv ∈ (classes.map (·.2)).map h, ∃ p ∈ classes, cv = h p.2 := by
    intro cv hcv
    obtain ⟨x, hx, rfl⟩ := List.mem_map.1 hcv
    obtain ⟨p, hp, rfl⟩ := List.mem_map.1 hx
    exact ⟨p, hp, rfl⟩
  refine ⟨hsb, ⟨_, hview'⟩, ?_, ?_, ?_⟩
  · intro v hvv
    rw [hview'] at hvv
    cases hvv
    rw [List.map_map, List.map_map, List.pairwise_map]
    refine List.Pairwise.imp_of_mem ?_ hs
    intro p q hp hq hlt
    obtain ⟨_, _, _, _, e1⟩ := hgood p hp
    obtain ⟨_, _, _, _, e2⟩ := hgood q hq
    simp only [Function.comp]
    rw [e1, e2]
    exact hlt
  · intro v hvv name
    rw [hview'] at hvv
    cases hvv
    refine ⟨?_, ?_⟩
    · intro hnone cv hcv hobf
      obtain ⟨p, hp, rfl⟩ := hmemv cv hcv
      obtain ⟨b, hb, _, _, e1⟩ := hgood p hp
      rw [e1] at hobf
      rw [hobf, hnone] at hb
      cases hb
    · intro b hb
      have h1 := hfind name
      rw [hb] at h1
      simp only [Option.map_some] at h1
      have hp : (name, blk b) ∈ classes := (sfind_eq_some_iff _ H _ _ classes hs).1 h1
      obtain ⟨b', hb', _, g, e1⟩ := hgood (name, blk b) hp
      simp only at hb' g e1
      rw [hb] at hb'
      cases hb'
      refine ⟨h (blk b), ?_, e1, g.orig, g.msorted, g.mfilter, g.bsorted, g.bfilter⟩
      exact List.mem_map.2 ⟨blk b, List.mem_map.2 ⟨(name, blk b), hp, rfl⟩, rfl⟩
  · intro v hvv cv hcv
    rw [hview'] at hvv
    cases hvv
    obtain ⟨p, hp, rfl⟩ := hmemv cv hcv
    obtain ⟨b, _, _, g, _⟩ := hgood p hp
    exact g.inj

end WI

/-- the size hypothesis forced by the format's `u32` counters and string offsets -/
structure Tables.Small (t : Tables) : Prop where
  nc : t.classes.length < u32Bound
  nm : t.members.length < u32Bound
  nb : t.byParams.length < u32Bound
  sb : t.strings.length < u32Max

open WI in
/-- for *every* record list (no domain restriction): if the tables are small, everything fits;
    this is what makes the writer's own output always parse (C13) -/
theorem build_fits (recs : List Record) (hs : (Tables.build recs).Small) : (Tables.build recs).Fits := by
  obtain ⟨h1, h2, h3, h4⟩ := hs
  rw [build_eq] at h1 h2 h3 h4 ⊢
  simp only at h1 h2 h3 h4
  have hok : ∀ c ∈ (finClasses recs).map (·.2), CipOK c := by
    intro c hc
    obtain ⟨p, hp, rfl⟩ := List.mem_map.1 hc
    exact finClasses_ok recs p hp
  obtain ⟨s1, s2⟩ := asmCls_msum _ 0 0 hok
  refine ⟨h1, h2, h3, h4, asmCls_fields _ 0 0 hok h2 h3, ?_, ?_, s1, s2⟩
  · intro m hm
    simp only at hm
    obtain ⟨g, hg, hmg⟩ := List.mem_flatten.1 hm
    obtain ⟨c, hc, rfl⟩ := List.mem_map.1 hg
    exact (hok c hc).mf m hmg
  · intro m hm
    simp only at hm
    obtain ⟨g, hg, hmg⟩ := List.mem_flatten.1 hm
    obtain ⟨c, hc, rfl⟩ := List.mem_map.1 hg
    exact (hok c hc).bf m hmg

open WI SpecR in
/-- in the representable domain the written tables represent the record stream (C02, C09) -/
theorem build_writerSpec (recs : List Record) (hr : ReprR recs) (hs : (Tables.build recs).Small) :
    WriterSpec recs (Cache.ofTables (Tables.build recs)) := by
  obtain ⟨h1, h2, h3, h4⟩ := hs
  rw [build_eq] at h1 h2 h3 h4 ⊢
  simp only at h1 h2 h3 h4
  have hb : (writeGo WState.init recs).tab.bytes.length < usizeBound := by
    simp only [u32Max, usizeBound] at *; omega
  have hT : TabOK (writeGo WState.init recs).tab := writeGo_ok WState.init recs tabOK_empty hr hb
  have hi := hT.inv
  have hle : Le (writeGo WState.init recs).tab (writeGo WState.init recs).tab := Le.refl _
  have hnil : KeysSorted cmpBytes WState.init.classes := List.Pairwise.nil
  have hsorted : KeysSorted cmpBytes (finClasses recs) := fin_sorted WState.init recs hnil
  have hin := writeGo_recIn _ hi hb WState.init recs tabOK_empty hr hle
  have hfind : ∀ c, sfind cmpBytes c (finClasses recs) =
      (lastBlock recs c).map (blockCip (writeGo WState.init recs).tab) := by
    intro c
    have := fin_sfind _ hi hb WState.init recs tabOK_empty hr hle hnil c
    rw [show finClasses recs = fin WState.init recs from rfl, this]
    cases lastBlock recs c with
    | some b => rfl
    | none =>
      simp only [Option.map_none]
      rw [flushCip_sfind _ _ hnil, (cipGo_names _ _ _).1]
      simp [WState.init, ClassInProgress.empty, sfind_nil]
  have hok : ∀ c ∈ (finClasses recs).map (·.2), CipOK c := by
    intro c hc
    obtain ⟨p, hp, rfl⟩ := List.mem_map.1 hc
    exact finClasses_ok recs p hp
  refine spec_of_classes recs _ h4 (finClasses recs) hsorted _ hfind ?_ ?_
  · intro c b hl
    obtain ⟨e, i1, i2, i3⟩ := lastBlock_in _ recs hin c b hl
    exact ⟨e, block_view _ hi h4 _ rfl b i1 i2 i3⟩
  · exact asm_view _ _ hok [] [] rfl h2 rfl h3

end PG
