/-
  The byte-level mirrors of `core::str::from_utf8` (validity) and `str::trim` in PG.Model.Basic
  agree with the Unicode-level definitions of PG.Spec.Utf8, for every input.
-/
import PG.Spec.Utf8
import PG.Lemmas.Utf8L
import PG.Lemmas.Utf8SpecAux
namespace PG
open Utf8Spec

/-- the encoding of a scalar value is accepted -/
theorem validUtf8_encode (c : Nat) (h : isScalar c = true) (rest : Bytes) :
    validUtf8 (encode c ++ rest) = validUtf8 rest :=
  validUtf8_encode_aux c h rest

/-- soundness + completeness of the validity check: the accepted byte strings are exactly the
    concatenated encodings of scalar values -/
theorem validUtf8_iff_encoding (bs : Bytes) :
    validUtf8 bs = true ↔ ∃ cs : List Nat, (∀ c ∈ cs, isScalar c = true) ∧ encodeAll cs = bs := by
  constructor
  · exact validUtf8_complete bs
  · rintro ⟨cs, hcs, rfl⟩
    exact validUtf8_encodeAll cs hcs

/-- the encoding is injective on scalar values (so the decomposition above is unique) -/
theorem encodeAll_injective (cs ds : List Nat) (hc : ∀ c ∈ cs, isScalar c = true)
    (hd : ∀ d ∈ ds, isScalar d = true) (h : encodeAll cs = encodeAll ds) : cs = ds :=
  encodeAll_injective_aux cs ds hc hd h

/-- `stripWs` recognises exactly the encodings of `White_Space` code points at the front of a
    well-formed string -/
theorem stripWs_encode (c : Nat) (h : isScalar c = true) (cs : List Nat)
    (hcs : ∀ d ∈ cs, isScalar d = true) :
    stripWs (encodeAll (c :: cs)) = if isWhiteSpace c then some (encodeAll cs) else none := by
  rw [encodeAll_cons]
  exact stripWs_encode_aux c h (encodeAll cs)

/-- the byte-level `trim` is `str::trim`: on the encoding of any scalar-value string it yields the
    encoding of the string with leading and trailing `White_Space` removed -/
theorem trim_encodeAll (cs : List Nat) (h : ∀ c ∈ cs, isScalar c = true) :
    trim (encodeAll cs) = encodeAll (trimChars cs) :=
  trim_encodeAll_aux cs h

/-- non-vacuity / sanity: "é", U+2003, U+1F600 -/
example : encode 0xE9 = [0xC3, 0xA9] ∧ encode 0x2003 = [0xE2, 0x80, 0x83] ∧
    encode 0x1F600 = [0xF0, 0x9F, 0x98, 0x80] ∧ isScalar 0xD800 = false := by decide

end PG
