/-
  PG.Lemmas.Sorted — `cmpBytes` / `cmpPair` are strict total orders (byte-lexicographic =
  `str::cmp`), and `sortedUpsert` (the BTreeMap model) keeps keys strictly sorted and behaves
  like a finite map.
-/
import PG.Model.CacheWrite
import PG.Lemmas.ListBasics
namespace PG

/-- the properties of a comparator used below -/
structure StrictOrd {κ : Type} (ord : κ → κ → Ordering) : Prop where
  eq_iff : ∀ a b, ord a b = .eq ↔ a = b
  swap : ∀ a b, ord a b = .lt ↔ ord b a = .gt
  trans : ∀ a b c, ord a b = .lt → ord b c = .lt → ord a c = .lt


theorem cmpBytes_cons_lt (a b : UInt8) (as bs : Bytes) :
    cmpBytes (a :: as) (b :: bs) = .lt ↔ a < b ∨ (a = b ∧ cmpBytes as bs = .lt) := by
  simp only [cmpBytes]
  by_cases h1 : a < b
  · simp [h1]
  · by_cases h2 : b < a
    · have : a ≠ b := by rintro rfl; exact UInt8.lt_irrefl _ h2
      simp [h1, h2, this]
    · have : a = b := UInt8.le_antisymm (UInt8.not_lt.mp h2) (UInt8.not_lt.mp h1)
      subst this; simp

theorem cmpBytes_cons_gt (a b : UInt8) (as bs : Bytes) :
    cmpBytes (a :: as) (b :: bs) = .gt ↔ b < a ∨ (a = b ∧ cmpBytes as bs = .gt) := by
  simp only [cmpBytes]
  by_cases h1 : a < b
  · have : a ≠ b := by rintro rfl; exact UInt8.lt_irrefl _ h1
    have h2 : ¬ b < a := UInt8.lt_asymm h1
    simp [h1, h2, this]
  · by_cases h2 : b < a
    · simp [h1, h2]
    · have : a = b := UInt8.le_antisymm (UInt8.not_lt.mp h2) (UInt8.not_lt.mp h1)
      subst this; simp

theorem cmpBytes_cons_eq (a b : UInt8) (as bs : Bytes) :
    cmpBytes (a :: as) (b :: bs) = .eq ↔ (a = b ∧ cmpBytes as bs = .eq) := by
  simp only [cmpBytes]
  by_cases h1 : a < b
  · have : a ≠ b := by rintro rfl; exact UInt8.lt_irrefl _ h1
    simp [h1, this]
  · by_cases h2 : b < a
    · have : a ≠ b := by rintro rfl; exact UInt8.lt_irrefl _ h2
      simp [h1, h2, this]
    · have : a = b := UInt8.le_antisymm (UInt8.not_lt.mp h2) (UInt8.not_lt.mp h1)
      subst this; simp

theorem cmpBytes_eq_iff (a b : Bytes) : cmpBytes a b = .eq ↔ a = b := by
  induction a generalizing b with
  | nil => cases b <;> simp [cmpBytes]
  | cons x xs ih =>
    cases b with
    | nil => simp [cmpBytes]
    | cons y ys => rw [cmpBytes_cons_eq, ih]; simp

theorem cmpBytes_swap (a b : Bytes) : cmpBytes a b = .lt ↔ cmpBytes b a = .gt := by
  induction a generalizing b with
  | nil => cases b <;> simp [cmpBytes]
  | cons x xs ih =>
    cases b with
    | nil => simp [cmpBytes]
    | cons y ys =>
      rw [cmpBytes_cons_lt, cmpBytes_cons_gt, ih]
      constructor <;> (rintro (h | ⟨h1, h2⟩); exact Or.inl h; exact Or.inr ⟨h1.symm, h2⟩)

theorem cmpBytes_trans (a b c : Bytes) : cmpBytes a b = .lt → cmpBytes b c = .lt → cmpBytes a c = .lt := by
  induction a generalizing b c with
  | nil => cases b <;> cases c <;> simp [cmpBytes]
  | cons x xs ih =>
    cases b with
    | nil => simp [cmpBytes]
    | cons y ys =>
      cases c with
      | nil => simp [cmpBytes]
      | cons z zs =>
        simp only [cmpBytes_cons_lt]
        rintro (h | ⟨rfl, h2⟩) (h' | ⟨rfl, h2'⟩)
        · exact Or.inl (UInt8.lt_trans h h')
        · exact Or.inl h
        · exact Or.inl h'
        · exact Or.inr ⟨rfl, ih _ _ h2 h2'⟩

theorem cmpBytes_strictOrd : StrictOrd cmpBytes :=
  ⟨cmpBytes_eq_iff, cmpBytes_swap, cmpBytes_trans⟩

theorem cmpPair_strictOrd : StrictOrd cmpPair := by
  have H := cmpBytes_strictOrd
  have hlt : ∀ a b : Bytes × Bytes, cmpPair a b = .lt ↔
      cmpBytes a.1 b.1 = .lt ∨ (a.1 = b.1 ∧ cmpBytes a.2 b.2 = .lt) := by
    intro a b
    unfold cmpPair
    cases h : cmpBytes a.1 b.1
    · simp
    · have := (H.eq_iff _ _).mp h; simp [this]
    · have : a.1 ≠ b.1 := by intro e; rw [(H.eq_iff _ _).mpr e] at h; cases h
      simp [this]
  have hgt : ∀ a b : Bytes × Bytes, cmpPair a b = .gt ↔
      cmpBytes a.1 b.1 = .gt ∨ (a.1 = b.1 ∧ cmpBytes a.2 b.2 = .gt) := by
    intro a b
    unfold cmpPair
    cases h : cmpBytes a.1 b.1
    · have : a.1 ≠ b.1 := by intro e; rw [(H.eq_iff _ _).mpr e] at h; cases h
      simp [this]
    · have := (H.eq_iff _ _).mp h; simp [this]
    · simp
  refine ⟨?_, ?_, ?_⟩
  · intro a b
    unfold cmpPair
    cases h : cmpBytes a.1 b.1
    · simp; intro e; rw [(H.eq_iff _ _).mpr (congrArg Prod.fst e)] at h; cases h
    · have h1 := (H.eq_iff _ _).mp h
      simp only [H.eq_iff]
      constructor
      · intro h2; exact Prod.ext h1 h2
      · intro e; exact congrArg Prod.snd e
    · simp; intro e; rw [(H.eq_iff _ _).mpr (congrArg Prod.fst e)] at h; cases h
  · intro a b
    rw [hlt, hgt, H.swap a.1 b.1, H.swap a.2 b.2]
    constructor <;> (rintro (h | ⟨h1, h2⟩); exact Or.inl h; exact Or.inr ⟨h1.symm, h2⟩)
  · intro a b c
    simp only [hlt]
    rintro (h | ⟨h1, h2⟩) (h' | ⟨h1', h2'⟩)
    · exact Or.inl (H.trans _ _ _ h h')
    · rw [← h1']; exact Or.inl h
    · rw [h1]; exact Or.inl h'
    · exact Or.inr ⟨h1.trans h1', H.trans _ _ _ h2 h2'⟩
theorem StrictOrd.refl {κ : Type} {ord : κ → κ → Ordering} (ho : StrictOrd ord) (a : κ) :
    ord a a = .eq := (ho.eq_iff a a).mpr rfl

theorem StrictOrd.ne_of_lt {κ : Type} {ord : κ → κ → Ordering} (ho : StrictOrd ord) {a b : κ}
    (h : ord a b = .lt) : a ≠ b := by
  intro e; subst e; rw [ho.refl] at h; cases h

theorem StrictOrd.ne_of_gt {κ : Type} {ord : κ → κ → Ordering} (ho : StrictOrd ord) {a b : κ}
    (h : ord a b = .gt) : a ≠ b := by
  intro e; subst e; rw [ho.refl] at h; cases h

def KeysSorted {κ β : Type} (ord : κ → κ → Ordering) (l : List (κ × β)) : Prop :=
  l.Pairwise (fun a b => ord a.1 b.1 = .lt)

/-- map lookup in a key-sorted association list -/
def sfind {κ β : Type} (ord : κ → κ → Ordering) (k : κ) (l : List (κ × β)) : Option β :=
  (l.find? (fun p => ord k p.1 == .eq)).map (·.2)

theorem sfind_nil {κ β : Type} (ord : κ → κ → Ordering) (k : κ) :
    sfind ord k ([] : List (κ × β)) = none := rfl

theorem sfind_cons_eq {κ β : Type} {ord : κ → κ → Ordering} (ho : StrictOrd ord) (k : κ) (b : β)
    (l : List (κ × β)) : sfind ord k ((k, b) :: l) = some b := by
  simp [sfind, ho.refl]

theorem sfind_cons_ne {κ β : Type} {ord : κ → κ → Ordering} (ho : StrictOrd ord) (k a : κ) (b : β)
    (l : List (κ × β)) (h : k ≠ a) : sfind ord k ((a, b) :: l) = sfind ord k l := by
  have : ord k a ≠ .eq := fun e => h ((ho.eq_iff _ _).mp e)
  simp [sfind, this]

theorem sfind_none_of_forall_ne {κ β : Type} {ord : κ → κ → Ordering} (ho : StrictOrd ord) (k : κ)
    (l : List (κ × β)) (h : ∀ p ∈ l, k ≠ p.1) : sfind ord k l = none := by
  induction l with
  | nil => rfl
  | cons p l ih =>
    obtain ⟨a, b⟩ := p
    rw [sfind_cons_ne ho _ _ _ _ (h (a, b) (by simp))]
    exact ih (fun p hp => h p (by simp [hp]))

theorem sortedUpsert_keys_aux {κ β : Type} (ord : κ → κ → Ordering) (ho : StrictOrd ord) (k k' : κ)
    (f : Option β → β) (l : List (κ × β)) :
    k' ∈ (sortedUpsert ord k f l).map (·.1) ↔ k' = k ∨ k' ∈ l.map (·.1) := by
  induction l with
  | nil => simp [sortedUpsert]
  | cons p l ih =>
    obtain ⟨a, b⟩ := p
    simp only [sortedUpsert]
    cases h : ord k a
    · simp
    · have := (ho.eq_iff _ _).mp h; subst this
      simp
    · simp only [List.map_cons, List.mem_cons, ih]
      constructor
      · rintro (h | h | h) <;> simp [h]
      · rintro (h | h | h) <;> simp [h]

theorem sortedUpsert_sorted {κ β : Type} (ord : κ → κ → Ordering) (ho : StrictOrd ord) (k : κ)
    (f : Option β → β) (l : List (κ × β)) (hs : KeysSorted ord l) :
    KeysSorted ord (sortedUpsert ord k f l) := by
  induction l with
  | nil => simp [sortedUpsert, KeysSorted]
  | cons p l ih =>
    obtain ⟨a, b⟩ := p
    unfold KeysSorted at hs ih ⊢
    rw [List.pairwise_cons] at hs
    obtain ⟨hs1, hs2⟩ := hs
    simp only [sortedUpsert]
    cases h : ord k a
    · simp only
      refine List.pairwise_cons.mpr ⟨?_, List.pairwise_cons.mpr ⟨hs1, hs2⟩⟩
      intro p hp
      rcases List.mem_cons.mp hp with rfl | hp
      · exact h
      · exact ho.trans _ _ _ h (hs1 p hp)
    · simp only
      have := (ho.eq_iff _ _).mp h; subst this
      exact List.pairwise_cons.mpr ⟨hs1, hs2⟩
    · simp only
      refine List.pairwise_cons.mpr ⟨?_, ih hs2⟩
      intro p hp
      have hm : p.1 ∈ (sortedUpsert ord k f l).map (·.1) := List.mem_map.mpr ⟨p, hp, rfl⟩
      rw [sortedUpsert_keys_aux ord ho k p.1 f l] at hm
      rcases hm with e | hm
      · rw [e]; exact (ho.swap _ _).mpr h
      · obtain ⟨q, hq, e⟩ := List.mem_map.mp hm
        rw [← e]; exact hs1 q hq

theorem sortedUpsert_find {κ β : Type} [DecidableEq κ] (ord : κ → κ → Ordering) (ho : StrictOrd ord) (k k' : κ)
    (f : Option β → β) (l : List (κ × β)) (hs : KeysSorted ord l) :
    sfind ord k' (sortedUpsert ord k f l) = if k' = k then some (f (sfind ord k l)) else sfind ord k' l := by
  induction l with
  | nil =>
    simp only [sortedUpsert, sfind_nil]
    by_cases e : k' = k
    · subst e; simp [sfind_cons_eq ho]
    · simp [sfind_cons_ne ho _ _ _ _ e, sfind_nil, e]
  | cons p l ih =>
    obtain ⟨a, b⟩ := p
    unfold KeysSorted at hs
    rw [List.pairwise_cons] at hs
    obtain ⟨hs1, hs2⟩ := hs
    simp only [sortedUpsert]
    cases h : ord k a
    · simp only
      have hnone : sfind ord k ((a, b) :: l) = none := by
        apply sfind_none_of_forall_ne ho
        intro p hp
        rcases List.mem_cons.mp hp with rfl | hp
        · exact ho.ne_of_lt h
        · exact ho.ne_of_lt (ho.trans _ _ _ h (hs1 p hp))
      by_cases e : k' = k
      · subst e; simp [sfind_cons_eq ho, hnone]
      · simp [sfind_cons_ne ho _ _ _ _ e, e]
    · simp only
      have := (ho.eq_iff _ _).mp h; subst this
      by_cases e : k' = k
      · subst e; simp [sfind_cons_eq ho]
      · simp [sfind_cons_ne ho _ _ _ _ e, e]
    · simp only
      have hka : k ≠ a := ho.ne_of_gt h
      by_cases e : k' = a
      · subst e
        have : k' ≠ k := fun e => hka e.symm
        simp [sfind_cons_eq ho, this]
      · rw [sfind_cons_ne ho _ _ _ _ e, sfind_cons_ne ho _ _ _ _ e, sfind_cons_ne ho _ _ _ _ hka]
        exact ih hs2

/-- the keys after an upsert: the old keys plus `k` -/
theorem sortedUpsert_keys {κ β : Type} (ord : κ → κ → Ordering) (ho : StrictOrd ord) (k k' : κ)
    (f : Option β → β) (l : List (κ × β)) (hs : KeysSorted ord l) :
    k' ∈ (sortedUpsert ord k f l).map (·.1) ↔ k' = k ∨ k' ∈ l.map (·.1) := by
  have _ := hs
  exact sortedUpsert_keys_aux ord ho k k' f l

/-- membership in a key-sorted list is `sfind` -/
theorem sfind_eq_some_iff {κ β : Type} (ord : κ → κ → Ordering) (ho : StrictOrd ord) (k : κ) (v : β)
    (l : List (κ × β)) (hs : KeysSorted ord l) : sfind ord k l = some v ↔ (k, v) ∈ l := by
  induction l with
  | nil => simp [sfind_nil]
  | cons p l ih =>
    obtain ⟨a, b⟩ := p
    unfold KeysSorted at hs
    rw [List.pairwise_cons] at hs
    obtain ⟨hs1, hs2⟩ := hs
    by_cases e : k = a
    · subst e
      rw [sfind_cons_eq ho]
      have : (k, v) ∉ l := fun hm => ho.ne_of_lt (hs1 _ hm) rfl
      simp [this, eq_comm]
    · rw [sfind_cons_ne ho _ _ _ _ e, ih hs2]
      simp [e]

/-- values in key order with a key-indexed description: flattening a key-sorted list of
    groups is the stable sort of the union — stated as: for every key, the elements of the
    flattened values whose group key is `k` are exactly `sfind k`, in order -/
theorem flatten_groups_filter {κ α : Type} (ord : κ → κ → Ordering) (ho : StrictOrd ord)
    (l : List (κ × List α)) (hs : KeysSorted ord l) (keyOf : α → κ)
    (hk : ∀ p ∈ l, ∀ a ∈ p.2, keyOf a = p.1) (k : κ) :
    ((l.map (·.2)).flatten).filter (fun a => ord (keyOf a) k == .eq) = (sfind ord k l).getD [] := by
  induction l with
  | nil => simp [sfind_nil]
  | cons p l ih =>
    obtain ⟨a, g⟩ := p
    unfold KeysSorted at hs
    rw [List.pairwise_cons] at hs
    obtain ⟨hs1, hs2⟩ := hs
    have hg : ∀ x ∈ g, keyOf x = a := fun x hx => hk (a, g) (by simp) x hx
    have ih' := ih hs2 (fun p hp => hk p (by simp [hp]))
    simp only [List.map_cons, List.flatten_cons, List.filter_append, ih']
    by_cases e : k = a
    · subst e
      have hnone : sfind ord k l = none :=
        sfind_none_of_forall_ne ho _ _ (fun p hp => ho.ne_of_lt (hs1 p hp))
      rw [sfind_cons_eq ho, hnone]
      have : g.filter (fun a => ord (keyOf a) k == .eq) = g := by
        apply List.filter_eq_self.mpr
        intro x hx; simp [hg x hx, ho.refl]
      simp [this]
    · rw [sfind_cons_ne ho _ _ _ _ e]
      have : g.filter (fun x => ord (keyOf x) k == .eq) = [] := by
        apply List.filter_eq_nil_iff.mpr
        intro x hx
        have : ord a k ≠ .eq := fun h => e ((ho.eq_iff _ _).mp h).symm
        simp [hg x hx, this]
      simp [this]

/-- …and the flattened list is sorted (non-strictly) by group key -/
theorem flatten_groups_sorted {κ α : Type} (ord : κ → κ → Ordering) (ho : StrictOrd ord)
    (l : List (κ × List α)) (hs : KeysSorted ord l) (keyOf : α → κ)
    (hk : ∀ p ∈ l, ∀ a ∈ p.2, keyOf a = p.1) :
    ((l.map (·.2)).flatten).Pairwise (fun a b => ord (keyOf a) (keyOf b) ≠ .gt) := by
  induction l with
  | nil => simp
  | cons p l ih =>
    obtain ⟨a, g⟩ := p
    unfold KeysSorted at hs
    rw [List.pairwise_cons] at hs
    obtain ⟨hs1, hs2⟩ := hs
    have hg : ∀ x ∈ g, keyOf x = a := fun x hx => hk (a, g) (by simp) x hx
    have ih' := ih hs2 (fun p hp => hk p (by simp [hp]))
    simp only [List.map_cons, List.flatten_cons]
    refine List.pairwise_append.mpr ⟨?_, ih', ?_⟩
    · apply List.pairwise_of_forall_mem_list
      intro x hx y hy
      rw [hg x hx, hg y hy, ho.refl]; simp
    · intro x hx y hy
      obtain ⟨g', hg', hy'⟩ := List.mem_flatten.mp hy
      obtain ⟨q, hq, rfl⟩ := List.mem_map.mp hg'
      rw [hg x hx, hk q (by simp [hq]) y hy', hs1 q hq]; simp
end PG
