/-
  PG.Lemmas.MetaL — list-level facts behind C19 (metadata = folds over the record stream).
-/
import PG.Model.Meta
namespace PG

theorem isLineMethod_iff (it : Item) :
    it.isLineMethod = true ↔ ∃ ty o b a c lm, it = Item.ok (.method ty o b a c (some lm)) := by
  constructor
  · intro h
    match it, h with
    | .ok (.method ty o b a c (some lm)), _ => exact ⟨ty, o, b, a, c, lm, rfl⟩
  · rintro ⟨ty, o, b, a, c, lm, rfl⟩
    rfl

theorem any_lineMethod_iff (items : List Item) :
    items.any Item.isLineMethod = true ↔
      ∃ ty o b a c lm, Item.ok (.method ty o b a c (some lm)) ∈ items := by
  rw [List.any_eq_true]
  constructor
  · rintro ⟨it, hmem, h⟩
    obtain ⟨ty, o, b, a, c, lm, rfl⟩ := (isLineMethod_iff it).mp h
    exact ⟨ty, o, b, a, c, lm, hmem⟩
  · rintro ⟨ty, o, b, a, c, lm, hmem⟩
    exact ⟨_, hmem, rfl⟩

/-! ### counts -/

theorem summaryStep_classCount (s : Summary) (it : Item) :
    (summaryStep s it).classCount = s.classCount + (if it.isClass then 1 else 0) := by
  cases it with
  | err l => simp [summaryStep, Item.isClass]
  | ok r =>
    cases r with
    | header k v =>
      simp only [summaryStep, Item.isClass]; split <;> (try split) <;> (try split) <;> simp
    | cls => simp [summaryStep, Item.isClass]
    | field => simp [summaryStep, Item.isClass]
    | method => simp [summaryStep, Item.isClass]

theorem summaryStep_methodCount (s : Summary) (it : Item) :
    (summaryStep s it).methodCount = s.methodCount + (if it.isMethod then 1 else 0) := by
  cases it with
  | err l => simp [summaryStep, Item.isMethod]
  | ok r =>
    cases r with
    | header k v =>
      simp only [summaryStep, Item.isMethod]; split <;> (try split) <;> (try split) <;> simp
    | cls => simp [summaryStep, Item.isMethod]
    | field => simp [summaryStep, Item.isMethod]
    | method => simp [summaryStep, Item.isMethod]

theorem foldl_classCount (items : List Item) (s : Summary) :
    (items.foldl summaryStep s).classCount = s.classCount + items.countP Item.isClass := by
  induction items generalizing s with
  | nil => simp
  | cons it rest ih =>
    rw [List.foldl_cons, ih, summaryStep_classCount, List.countP_cons]
    omega

theorem foldl_methodCount (items : List Item) (s : Summary) :
    (items.foldl summaryStep s).methodCount = s.methodCount + items.countP Item.isMethod := by
  induction items generalizing s with
  | nil => simp
  | cons it rest ih =>
    rw [List.foldl_cons, ih, summaryStep_methodCount, List.countP_cons]
    omega

/-! ### last header -/

/-- the selector used by `lastHeader` (stated here so the lemmas do not depend on the Props file) -/
def hdrSel (k : Bytes) : Item → Option (Option Bytes)
  | .ok (.header key v) => if key == k then some v else none
  | _ => none

def lastHdr (k : Bytes) (items : List Item) : Option (Option Bytes) :=
  (items.filterMap (hdrSel k)).getLast?

theorem lastHdr_nil (k : Bytes) : lastHdr k [] = none := rfl

theorem lastHdr_cons (k : Bytes) (it : Item) (rest : List Item) :
    lastHdr k (it :: rest) =
      match hdrSel k it with
      | none => lastHdr k rest
      | some v => some ((lastHdr k rest).getD v) := by
  unfold lastHdr
  rw [List.filterMap_cons]
  cases h : hdrSel k it with
  | none => rfl
  | some v => simp [List.getLast?_cons]

theorem compiler_ne_version : (litCompiler == litCompilerVersion) = false := by decide
theorem compiler_ne_minapi : (litCompiler == litMinApi) = false := by decide
theorem version_ne_minapi : (litCompilerVersion == litMinApi) = false := by decide

theorem summaryStep_compiler (s : Summary) (it : Item) :
    (summaryStep s it).compiler = (hdrSel litCompiler it).getD s.compiler := by
  cases it with
  | err l => rfl
  | ok r =>
    cases r with
    | header k v =>
      simp only [summaryStep, hdrSel]
      split
      · simp
      · split <;> (try split) <;> simp
    | cls => rfl
    | field => rfl
    | method => rfl

theorem summaryStep_compilerVersion (s : Summary) (it : Item) :
    (summaryStep s it).compilerVersion = (hdrSel litCompilerVersion it).getD s.compilerVersion := by
  cases it with
  | err l => rfl
  | ok r =>
    cases r with
    | header k v =>
      simp only [summaryStep, hdrSel]
      by_cases h1 : (k == litCompiler) = true
      · have : k = litCompiler := by simpa using h1
        subst this
        simp [compiler_ne_version]
      · have h1' : (k == litCompiler) = false := by simpa using h1
        simp only [h1', Bool.false_eq_true, if_false]
        by_cases h2 : k = litCompilerVersion
        · simp [h2]
        · by_cases h3 : k = litMinApi
          · subst h3; simp [h2]
          · simp [h2, h3]
    | cls => rfl
    | field => rfl
    | method => rfl

theorem summaryStep_minApi (s : Summary) (it : Item) :
    (summaryStep s it).minApi =
      match hdrSel litMinApi it with
      | none => s.minApi
      | some v => v.bind (parseUnsignedStr u32Bound) := by
  cases it with
  | err l => rfl
  | ok r =>
    cases r with
    | header k v =>
      simp only [summaryStep, hdrSel]
      by_cases h1 : (k == litCompiler) = true
      · have : k = litCompiler := by simpa using h1
        subst this
        simp [compiler_ne_minapi]
      · have h1' : (k == litCompiler) = false := by simpa using h1
        simp only [h1', Bool.false_eq_true, if_false]
        by_cases h2 : (k == litCompilerVersion) = true
        · have : k = litCompilerVersion := by simpa using h2
          subst this
          simp [version_ne_minapi]
        · have h2' : (k == litCompilerVersion) = false := by simpa using h2
          simp only [h2', Bool.false_eq_true, if_false]
          by_cases h3 : k = litMinApi <;> simp [h3]
    | cls => rfl
    | field => rfl
    | method => rfl

theorem foldl_compiler (items : List Item) (s : Summary) :
    (items.foldl summaryStep s).compiler = (lastHdr litCompiler items).getD s.compiler := by
  induction items generalizing s with
  | nil => rfl
  | cons it rest ih =>
    rw [List.foldl_cons, ih, summaryStep_compiler, lastHdr_cons]
    cases h : hdrSel litCompiler it with
    | none => rfl
    | some v => cases lastHdr litCompiler rest <;> rfl

theorem foldl_compilerVersion (items : List Item) (s : Summary) :
    (items.foldl summaryStep s).compilerVersion =
      (lastHdr litCompilerVersion items).getD s.compilerVersion := by
  induction items generalizing s with
  | nil => rfl
  | cons it rest ih =>
    rw [List.foldl_cons, ih, summaryStep_compilerVersion, lastHdr_cons]
    cases h : hdrSel litCompilerVersion it with
    | none => rfl
    | some v => cases lastHdr litCompilerVersion rest <;> rfl

theorem foldl_minApi (items : List Item) (s : Summary) :
    (items.foldl summaryStep s).minApi =
      match lastHdr litMinApi items with
      | none => s.minApi
      | some v => v.bind (parseUnsignedStr u32Bound) := by
  induction items generalizing s with
  | nil => rfl
  | cons it rest ih =>
    rw [List.foldl_cons, ih, summaryStep_minApi, lastHdr_cons]
    cases h : hdrSel litMinApi it with
    | none => rfl
    | some v => cases lastHdr litMinApi rest <;> rfl

/-! ### validity -/

theorem isClass_not_member (it : Item) (h : it.isClass = true) : it.isMember = false := by
  cases it with
  | err l => rfl
  | ok r => cases r <;> simp_all [Item.isClass, Item.isMember]

theorem isValidGo_iff (items : List Item) (hc : Bool) :
    isValidGo hc items = true ↔
      ∃ (j : Nat) (mj : Item), items[j]? = some mj ∧ mj.isMember = true ∧
        (hc = true ∨ ∃ (i : Nat) (ci : Item), i < j ∧ items[i]? = some ci ∧ ci.isClass = true) := by
  induction items generalizing hc with
  | nil => simp [isValidGo]
  | cons it rest ih =>
    unfold isValidGo
    by_cases h1 : it.isClass = true
    · have h1' := isClass_not_member it h1
      simp only [h1, if_true]
      rw [ih]
      constructor
      · rintro ⟨j, mj, hj, hm, _⟩
        exact ⟨j + 1, mj, by simpa using hj, hm, Or.inr ⟨0, it, by omega, by simp, h1⟩⟩
      · rintro ⟨j, mj, hj, hm, _⟩
        cases j with
        | zero =>
          simp at hj; subst hj
          rw [h1'] at hm; cases hm
        | succ j => exact ⟨j, mj, by simpa using hj, hm, Or.inl rfl⟩
    · simp only [h1, Bool.false_eq_true, if_false]
      by_cases h2 : (it.isMember && hc) = true
      · simp only [h2, if_true, true_iff]
        simp only [Bool.and_eq_true] at h2
        exact ⟨0, it, by simp, h2.1, Or.inl h2.2⟩
      · simp only [h2, Bool.false_eq_true, if_false]
        rw [ih]
        constructor
        · rintro ⟨j, mj, hj, hm, hor⟩
          refine ⟨j + 1, mj, by simpa using hj, hm, ?_⟩
          rcases hor with h | ⟨i, ci, hij, hi, hci⟩
          · exact Or.inl h
          · exact Or.inr ⟨i + 1, ci, by omega, by simpa using hi, hci⟩
        · rintro ⟨j, mj, hj, hm, hor⟩
          cases j with
          | zero =>
            simp at hj; subst hj
            rcases hor with h | ⟨i, ci, hij, _⟩
            · simp [hm, h] at h2
            · omega
          | succ j =>
            refine ⟨j, mj, by simpa using hj, hm, ?_⟩
            rcases hor with h | ⟨i, ci, hij, hi, hci⟩
            · exact Or.inl h
            · cases i with
              | zero =>
                simp at hi; subst hi
                exact absurd hci h1
              | succ i => exact Or.inr ⟨i, ci, by omega, by simpa using hi, hci⟩

theorem isValidGo_take_iff (items : List Item) (n : Nat) :
    isValidGo false (items.take n) = true ↔
      ∃ (i j : Nat) (ci mj : Item), i < j ∧ j < n ∧ items[i]? = some ci ∧ ci.isClass = true ∧
        items[j]? = some mj ∧ mj.isMember = true := by
  rw [isValidGo_iff]
  constructor
  · rintro ⟨j, mj, hj, hm, hor⟩
    rcases hor with h | ⟨i, ci, hij, hi, hci⟩
    · cases h
    · rw [List.getElem?_take] at hj hi
      split at hj
      · split at hi
        · exact ⟨i, j, ci, mj, hij, by assumption, hi, hci, hj, hm⟩
        · cases hi
      · cases hj
  · rintro ⟨i, j, ci, mj, hij, hjn, hi, hci, hj, hm⟩
    refine ⟨j, mj, ?_, hm, Or.inr ⟨i, ci, hij, ?_, hci⟩⟩
    · rw [List.getElem?_take, if_pos hjn]; exact hj
    · rw [List.getElem?_take, if_pos (by omega)]; exact hi

end PG
