/-
  The `Display` view of a cache (`src/cache/debug.rs`) never hits one of its `unwrap()`s on a
  cache that passes the library's self-test — in particular on every cache the writer produces
  (`C09_selftest`).
-/
import PG.Model.Debug
namespace PG
namespace Cache

theorem displayMembers_isSome (c : Cache) (ms : List RawMember)
    (h : ms.all (fun m => (c.str m.obfOff).isSome && (c.str m.origNameOff).isSome) = true) :
    (c.displayMembers ms).isSome = true := by
  induction ms with
  | nil => rfl
  | cons m ms ih =>
    simp only [List.all_cons, Bool.and_eq_true] at h
    obtain ⟨⟨h1, h2⟩, h3⟩ := h
    have ih' := ih h3
    unfold displayMembers displayMember
    cases e1 : c.str m.origNameOff with
    | none => simp [e1] at h2
    | some n =>
      cases e2 : c.str m.obfOff with
      | none => simp [e2] at h1
      | some o =>
        cases e3 : c.displayMembers ms with
        | none => simp [e3] at ih'
        | some r => simp

theorem all_weaken {α : Type} (l : List α) (p q : α → Bool) (hpq : ∀ x, p x = true → q x = true)
    (h : l.all p = true) : l.all q = true := by
  induction l with
  | nil => rfl
  | cons x xs ih =>
    simp only [List.all_cons, Bool.and_eq_true] at h ⊢
    exact ⟨hpq x h.1, ih h.2⟩

theorem displayClass_isSome (c : Cache) (k : RawClass) (h1 : (c.str k.origOff).isSome = true)
    (h2 : (c.str k.obfOff).isSome = true) : (c.displayClass k).isSome = true := by
  unfold displayClass
  cases e1 : c.str k.origOff with
  | none => simp [e1] at h1
  | some o =>
    cases e2 : c.str k.obfOff with
    | none => simp [e2] at h2
    | some b => cases c.str k.fileOff <;> rfl

theorem displayClasses_isSome (c : Cache) (ks : List RawClass) (prevEnd : Nat)
    (h : c.selfTestGo prevEnd ks = true) : (c.displayClasses ks).isSome = true := by
  induction ks generalizing prevEnd with
  | nil => rfl
  | cons k ks ih =>
    unfold selfTestGo at h
    simp only [Bool.and_eq_true] at h
    obtain ⟨⟨⟨⟨⟨⟨hobf, horig⟩, _⟩, _⟩, _⟩, hmem⟩, hrest⟩ := h
    have ih' := ih _ hrest
    have hc := displayClass_isSome c k horig hobf
    have hm : (c.displayClassMembers k).isSome = true := by
      unfold displayClassMembers
      cases e3 : c.classMembers k with
      | none => rfl
      | some ms =>
        simp only [e3] at hmem
        apply displayMembers_isSome
        apply all_weaken _ _ _ _ hmem
        intro m hm
        simp only [Bool.and_eq_true] at hm ⊢
        exact ⟨hm.1.1.1.1, hm.1.1.1.2⟩
    unfold displayClasses
    cases e1 : c.displayClass k with
    | none => simp [e1] at hc
    | some a =>
      cases e2 : c.displayClassMembers k with
      | none => simp [e2] at hm
      | some b =>
        cases e3 : c.displayClasses ks with
        | none => simp [e3] at ih'
        | some r => rfl

/-- a cache that passes `test()` can be displayed -/
theorem display_total_of_selfTest (c : Cache) (h : c.selfTest = true) : c.display.isSome = true :=
  displayClasses_isSome c c.classes 0 h

end Cache
end PG
