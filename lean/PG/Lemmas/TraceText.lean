/-
  PG.Lemmas.TraceText — helper facts about the text trace remapper (C07).
-/
import PG.Model.Trace
namespace PG

theorem formatFrames_nil (line : Bytes) : formatFrames line [] = line ++ [10] := rfl

theorem renderFirst_unknown (rc : Bytes → Option Bytes) (rf : Frame → List Frame)
    (hrc : ∀ c, rc c = none) (hrf : ∀ f, rf f = []) (l : Bytes) :
    renderFirst rc rf l = l ++ [10] := by
  unfold renderFirst
  cases parseThrowable l with
  | none =>
    cases parseFrame l with
    | none => rfl
    | some f => simp only [hrf, formatFrames_nil]
  | some t => simp only [remapThrowableWith, hrc, Option.map_none]

theorem renderRest_unknown (rc : Bytes → Option Bytes) (rf : Frame → List Frame)
    (hrc : ∀ c, rc c = none) (hrf : ∀ f, rf f = []) (l : Bytes) :
    renderRest rc rf l = l ++ [10] := by
  unfold renderRest
  cases parseFrame l with
  | some f => simp only [hrf, formatFrames_nil]
  | none =>
    cases (stripPrefix litCausedBy l).bind parseThrowable with
    | none => rfl
    | some t => simp only [remapThrowableWith, hrc, Option.map_none]

theorem strLines_no_newline (input : Bytes) : ∀ l ∈ strLines input, 10 ∉ l := by
  fun_induction strLines input with
  | case1 => simp
  | case2 bs ih =>
    intro l hl
    rcases List.mem_cons.mp hl with rfl | h
    · simp
    · exact ih l h
  | case3 bs ih =>
    intro l hl
    rcases List.mem_cons.mp hl with rfl | h
    · simp
    · exact ih l h
  | case4 b bs h1 h2 h3 =>
    intro l hl
    have hb : b ≠ 10 := by
      intro e; exact h1 e
    simp only [List.mem_singleton] at hl
    subst hl
    simp
    exact fun e => hb e.symm
  | case5 b bs h1 h2 l0 ls h3 ih =>
    intro l hl
    have hb : b ≠ 10 := by
      intro e; exact h1 e
    rcases List.mem_cons.mp hl with rfl | h
    · have := ih l0 (by simp [h3])
      simp only [List.mem_cons, not_or]
      exact ⟨fun e => hb e.symm, this⟩
    · exact ih l (by simp [h3, h])

end PG
