import PG.Lemmas.FormatL
namespace PG
namespace FL
open WI SpecR

/-! ### what the finished classes contain -/

abbrev finTab (recs : List Record) : StrTab := (writeGo WState.init recs).tab

theorem final_facts (recs : List Record) (hr : ReprR recs) (hsb : (finTab recs).bytes.length < u32Max) :
    TabOK (finTab recs) ∧ KeysSorted cmpBytes (finClasses recs) ∧
    (∀ c, sfind cmpBytes c (finClasses recs) = (lastBlock recs c).map (blockCip (finTab recs))) ∧
    (∀ r ∈ recs, RecIn (finTab recs) r) := by
  have hb : (writeGo WState.init recs).tab.bytes.length < usizeBound := by
    simp only [finTab, u32Max, usizeBound] at *; omega
  have hT : TabOK (writeGo WState.init recs).tab := writeGo_ok WState.init recs tabOK_empty hr hb
  have hi := hT.inv
  have hle : Le (writeGo WState.init recs).tab (writeGo WState.init recs).tab := Le.refl _
  have hnil : KeysSorted cmpBytes WState.init.classes := List.Pairwise.nil
  refine ⟨hT, fin_sorted WState.init recs hnil, ?_, writeGo_recIn _ hi hb WState.init recs tabOK_empty hr hle⟩
  intro c
  have := fin_sfind _ hi hb WState.init recs tabOK_empty hr hle hnil c
  rw [show finClasses recs = fin WState.init recs from rfl, this]
  cases lastBlock recs c with
  | some b => rfl
  | none =>
    simp only [Option.map_none]
    rw [flushCip_sfind _ _ hnil, (cipGo_names _ _ _).1]
    simp [WState.init, ClassInProgress.empty, sfind_nil]

def FileOK (T : StrTab) (n : Nat) : Prop := ∃ f, OptInTab T f ∧ n = optOffAt T f

theorem cipStep_file (T : StrTab) (c : ClassInProgress) (r : Record) (next : Option Record)
    (hr : RecIn T r) (h : FileOK T c.cls.fileOff) : FileOK T (cipStep T c r next).cls.fileOff := by
  cases r with
  | header k v =>
    simp only [cipStep]
    by_cases hk : (k == litSourceFile) = true
    · simp only [hk, if_true]; exact ⟨v, hr hk, rfl⟩
    · simp only [hk, if_false, Bool.false_eq_true]; exact h
  | cls o b => exact h
  | field _ _ _ => exact h
  | method ty o b a fc lm => simp only [cipStep]; split <;> exact h

theorem cipGo_file (T : StrTab) (c : ClassInProgress) (body : List Record)
    (hb : ∀ r ∈ body, RecIn T r) (h : FileOK T c.cls.fileOff) :
    FileOK T (cipGo T c body).cls.fileOff := by
  induction body generalizing c with
  | nil => exact h
  | cons r rest ih =>
    exact ih _ (fun x hx => hb x (List.mem_cons_of_mem _ hx))
      (cipStep_file T c r _ (hb r (List.mem_cons_self ..)) h)

theorem groups_mem {κ : Type} (ord : κ → κ → Ordering) (ho : StrictOrd ord)
    (G : List (κ × List RawMember)) (hs : KeysSorted ord G) (E : List Entry) (p : Entry → Bool)
    (raw : Entry → RawMember) (k : κ) (g : List RawMember) (hp : (k, g) ∈ G)
    (hgrp : (sfind ord k G).getD [] = (E.filter p).map raw) :
    ∀ x ∈ g, ∃ e ∈ E, p e = true ∧ x = raw e := by
  intro x hx
  have h1 : sfind ord k G = some g := (sfind_eq_some_iff ord ho k g G hs).2 hp
  rw [h1, Option.getD_some] at hgrp
  rw [hgrp] at hx
  obtain ⟨e, he, rfl⟩ := List.mem_map.1 hx
  obtain ⟨he1, he2⟩ := List.mem_filter.1 he
  exact ⟨e, he1, he2, rfl⟩

structure CipSem (T : StrTab) (k : Bytes) (cip : ClassInProgress) : Prop where
  obf : InTab T k ∧ cip.cls.obfOff = off T k
  orig : ∃ s, InTab T s ∧ cip.cls.origOff = off T s
  file : FileOK T cip.cls.fileOff
  ms : KeysSorted cmpBytes cip.members
  bs : KeysSorted cmpPair cip.byParams
  mem : ∀ p ∈ cip.members, ∀ x ∈ p.2, ∃ e, EntryIn T e ∧ e.obf = p.1 ∧ x = rawOf T e
  bp : ∀ p ∈ cip.byParams, ∀ x ∈ p.2, ∃ e, EntryIn T e ∧ (e.obf, e.args) = p.1 ∧ x = rawOf T e

theorem finClasses_sem (recs : List Record) (hr : ReprR recs)
    (hsb : (finTab recs).bytes.length < u32Max) :
    ∀ p ∈ finClasses recs, CipSem (finTab recs) p.1 p.2 := by
  obtain ⟨hT, hsorted, hfind, hin⟩ := final_facts recs hr hsb
  have H := cmpBytes_strictOrd
  intro p hp
  have h1 : sfind cmpBytes p.1 (finClasses recs) = some p.2 :=
    (sfind_eq_some_iff _ H p.1 p.2 _ hsorted).2 hp
  rw [hfind] at h1
  cases hl : lastBlock recs p.1 with
  | none => rw [hl] at h1; cases h1
  | some b =>
    rw [hl] at h1
    simp only [Option.map_some, Option.some.injEq] at h1
    obtain ⟨e, i1, i2, i3⟩ := lastBlock_in _ recs hin p.1 b hl
    obtain ⟨hb1, _⟩ := lastBlock_some recs p.1 b hl
    obtain ⟨_, hbody⟩ := blocksOf_mem recs b hb1
    obtain ⟨n1, n2, n3⟩ := cipGo_names (finTab recs) (newCip (finTab recs) b.orig b.obf) b.body
    have hsort : CipSorted (blockCip (finTab recs) b) := cipGo_sorted _ _ (newCip_sorted _ _ _) _
    rw [← h1]
    refine ⟨⟨e ▸ i2, ?_⟩, ⟨b.orig, i1, n3⟩, ?_, hsort.ms, hsort.bs, ?_, ?_⟩
    · rw [← e]; exact n2
    · exact cipGo_file _ _ _ (fun r hr => hin r (hbody r hr)) ⟨none, trivial, rfl⟩
    · intro q hq x hx
      have hg := cipGo_memGrp (finTab recs) (newCip (finTab recs) b.orig b.obf) (newCip_sorted _ _ _)
        none rfl b.body q.1
      have e0 : memGrp (newCip (finTab recs) b.orig b.obf) q.1 = [] := rfl
      rw [e0, List.nil_append] at hg
      obtain ⟨en, hen, hpe, rfl⟩ := groups_mem cmpBytes H _ hsort.ms _ _ _ q.1 q.2 hq hg x hx
      exact ⟨en, i3 en hen, by simpa using hpe, rfl⟩
    · intro q hq x hx
      obtain ⟨⟨m, pa⟩, g⟩ := q
      have hg := cipGo_bpGrp (finTab recs) (newCip (finTab recs) b.orig b.obf) (newCip_sorted _ _ _)
        none rfl b.body m pa
      have e0 : bpGrp (newCip (finTab recs) b.orig b.obf) m pa = [] := rfl
      rw [e0, List.nil_append] at hg
      obtain ⟨en, hen, hpe, rfl⟩ := groups_mem cmpPair cmpPair_strictOrd _ hsort.bs _ _ _ (m, pa) g hq hg x hx
      have hen' : en ∈ b.entries := realEntries_subset b en hen
      simp only [Bool.and_eq_true, beq_iff_eq] at hpe
      exact ⟨en, i3 en hen', by rw [hpe.1, hpe.2], rfl⟩


/-! ### member and class entries are well-formed -/

section entries
variable (T : StrTab) (hT : TabOK T) (hsb : T.bytes.length < u32Max)
include hT hsb

theorem present_off (s : Bytes) (h : InTab T s) :
    Format.present T.bytes (off T s) = true ∧ Format.name T.bytes (off T s) = s ∧
    off T s ≠ Format.absent := by
  obtain ⟨h1, h2⟩ := strAt_inTab T hT hsb s h
  simp [Format.present, Format.name, h1, h2]

theorem poa_opt (f : Option Bytes) (h : OptInTab T f) :
    Format.presentOrAbsent T.bytes (optOffAt T f) = true := by
  cases f with
  | none => simp [Format.presentOrAbsent, optOffAt, Format.absent, u32Max]
  | some x => simp [Format.presentOrAbsent, optOffAt, (present_off T hT hsb x h).1]

theorem poa_file (n : Nat) (h : FileOK T n) : Format.presentOrAbsent T.bytes n = true := by
  obtain ⟨f, hf, rfl⟩ := h
  exact poa_opt T hT hsb f hf

theorem poa_args (a : Bytes) (h : a ≠ [] → InTab T a) :
    Format.presentOrAbsent T.bytes (off T a) = true := by
  by_cases ha : a = []
  · subst ha; simp [Format.presentOrAbsent, off_nil, Format.absent, u32Max]
  · simp [Format.presentOrAbsent, (present_off T hT hsb a (h ha)).1]

theorem memberOk_rawOf (e : Entry) (he : EntryIn T e) :
    Format.memberOk T.bytes (rawOf T e).fields = true := by
  simp only [rawOf, rawMem, RawMember.fields, Format.memberOk, Bool.and_eq_true]
  exact ⟨⟨⟨⟨(present_off T hT hsb _ he.obf).1, (present_off T hT hsb _ he.name).1⟩,
    poa_opt T hT hsb _ he.fc⟩, poa_opt T hT hsb _ he.file⟩, poa_args T hT hsb _ he.args⟩

theorem mn_rawOf (e : Entry) (he : EntryIn T e) :
    Format.memberName T.bytes (rawOf T e).fields = e.obf := by
  simp only [rawOf, rawMem, RawMember.fields, Format.memberName, List.getD_cons_zero]
  exact (present_off T hT hsb _ he.obf).2.1

theorem mp_rawOf (e : Entry) (he : EntryIn T e) :
    Format.memberParams T.bytes (rawOf T e).fields = e.args := by
  have e8 : (rawOf T e).fields.getD 8 0 = off T e.args := rfl
  simp only [Format.memberParams, e8]
  by_cases ha : e.args = []
  · rw [ha, off_nil]; simp [Format.absent, u32Max]
  · obtain ⟨_, h2, h3⟩ := present_off T hT hsb _ (he.args ha)
    have : (off T e.args == Format.absent) = false := by simpa using h3
    rw [this]; exact h2

theorem cip_members_ok (k : Bytes) (cip : ClassInProgress) (sem : CipSem T k cip) :
    (∀ x ∈ cipMembers cip, Format.memberOk T.bytes x.fields = true) ∧
    (∀ x ∈ cipBps cip, Format.memberOk T.bytes x.fields = true) := by
  refine ⟨?_, ?_⟩
  · intro x hx
    obtain ⟨g, hg, hxg⟩ := List.mem_flatten.1 hx
    obtain ⟨p, hp, rfl⟩ := List.mem_map.1 hg
    obtain ⟨e, he, _, rfl⟩ := sem.mem p hp x hxg
    exact memberOk_rawOf T hT hsb e he
  · intro x hx
    obtain ⟨g, hg, hxg⟩ := List.mem_flatten.1 hx
    obtain ⟨p, hp, rfl⟩ := List.mem_map.1 hg
    obtain ⟨e, he, _, rfl⟩ := sem.bp p hp x hxg
    exact memberOk_rawOf T hT hsb e he

theorem cip_members_chain (k : Bytes) (cip : ClassInProgress) (sem : CipSem T k cip) :
    Format.chain (fun a b => Format.lexLe (Format.memberName T.bytes a) (Format.memberName T.bytes b))
      ((cipMembers cip).map (·.fields)) = true := by
  apply chain_of_pairwise
  rw [List.pairwise_map]
  have := flatten_groups_sorted cmpBytes cmpBytes_strictOrd cip.members sem.ms
    (fun x => Format.memberName T.bytes x.fields) (by
      intro p hp a ha
      obtain ⟨e, he, hk, rfl⟩ := sem.mem p hp a ha
      rw [mn_rawOf T hT hsb e he, hk])
  refine List.Pairwise.imp ?_ this
  intro a b hab
  exact (lexLe_iff _ _).2 hab

omit hT hsb in
theorem cmpPair_ne_gt (a1 a2 b1 b2 : Bytes) (h : cmpPair (a1, a2) (b1, b2) ≠ .gt) :
    (Format.lexLt a1 b1 || (a1 == b1 && Format.lexLe a2 b2)) = true := by
  unfold cmpPair at h
  simp only at h
  cases hc : cmpBytes a1 b1 with
  | lt => simp [(lexLt_iff a1 b1).2 hc]
  | eq =>
    rw [hc] at h
    have e := (cmpBytes_eq_iff a1 b1).1 hc
    simp only at h
    simp [e, (lexLe_iff a2 b2).2 h]
  | gt => rw [hc] at h; simp at h

theorem cip_bps_chain (k : Bytes) (cip : ClassInProgress) (sem : CipSem T k cip) :
    Format.chain (fun a b =>
        Format.lexLt (Format.memberName T.bytes a) (Format.memberName T.bytes b) ||
        (Format.memberName T.bytes a == Format.memberName T.bytes b &&
         Format.lexLe (Format.memberParams T.bytes a) (Format.memberParams T.bytes b)))
      ((cipBps cip).map (·.fields)) = true := by
  apply chain_of_pairwise
  rw [List.pairwise_map]
  have := flatten_groups_sorted cmpPair cmpPair_strictOrd cip.byParams sem.bs
    (fun x => (Format.memberName T.bytes x.fields, Format.memberParams T.bytes x.fields)) (by
      intro p hp a ha
      obtain ⟨e, he, hk, rfl⟩ := sem.bp p hp a ha
      rw [mn_rawOf T hT hsb e he, mp_rawOf T hT hsb e he, hk])
  refine List.Pairwise.imp ?_ this
  intro a b hab
  exact cmpPair_ne_gt _ _ _ _ hab

theorem cip_classOk (k : Bytes) (cip : ClassInProgress) (sem : CipSem T k cip) (a b c d : Nat) :
    Format.classOk T.bytes [cip.cls.obfOff, cip.cls.origOff, cip.cls.fileOff, a, b, c, d] = true ∧
    Format.name T.bytes cip.cls.obfOff = k := by
  obtain ⟨i1, e1⟩ := sem.obf
  obtain ⟨s, i2, e2⟩ := sem.orig
  simp only [Format.classOk, Bool.and_eq_true, e1, e2]
  exact ⟨⟨⟨(present_off T hT hsb _ i1).1, (present_off T hT hsb _ i2).1⟩, poa_file T hT hsb _ sem.file⟩,
    (present_off T hT hsb _ i1).2.1⟩

end entries


/-! ### the assembled class list -/

theorem asmCls_mem (L : List ClassInProgress) (mo bo : Nat) (k : RawClass) (h : k ∈ asmCls L mo bo) :
    ∃ cip ∈ L, ∃ a b, k = { cip.cls with membersOff := a, bpOff := b } := by
  induction L generalizing mo bo with
  | nil => simp [asmCls] at h
  | cons c rest ih =>
    simp only [asmCls, List.mem_cons] at h
    rcases h with rfl | h
    · exact ⟨c, List.mem_cons_self .., _, _, rfl⟩
    · obtain ⟨cip, hc, a, b, e⟩ := ih _ _ h
      exact ⟨cip, List.mem_cons_of_mem _ hc, a, b, e⟩

theorem asmCls_obf (L : List ClassInProgress) (mo bo : Nat) :
    (asmCls L mo bo).map (·.obfOff) = L.map (·.cls.obfOff) := by
  induction L generalizing mo bo with
  | nil => rfl
  | cons c rest ih => simp only [asmCls, List.map_cons, ih]

theorem chain_comp {α β : Type} (r : β → β → Bool) (g : α → β) (l : List α) :
    Format.chain (fun a b => r (g a) (g b)) l = Format.chain r (l.map g) := by
  induction l with
  | nil => rfl
  | cons a l ih =>
    cases l with
    | nil => rfl
    | cons b rest =>
      simp only [List.map_cons, Format.chain] at ih ⊢
      rw [ih]

def tileF : Option Nat → Nat × Nat → Option Nat := fun acc ol =>
  match acc with
  | some pos => if ol.1 == pos then some (pos + ol.2) else none
  | none => none

theorem tiles_members (L : List ClassInProgress) (hok : ∀ c ∈ L, CipOK c) (mo bo : Nat)
    (hm : mo + ((L.map cipMembers).flatten).length < u32Bound) :
    ((asmCls L mo bo).map (fun k => (k.membersOff, k.membersLen))).foldl tileF (some mo) =
      some (mo + ((L.map cipMembers).flatten).length) := by
  induction L generalizing mo bo with
  | nil => simp [asmCls]
  | cons c rest ih =>
    have hc := hok c (List.mem_cons_self ..)
    simp only [List.map_cons, List.flatten_cons, List.length_append] at hm ⊢
    have e1 : asU32 mo = mo := asU32_of_lt _ (by omega)
    simp only [asmCls, List.map_cons, List.foldl_cons, tileF, e1, beq_self_eq_true, if_true, hc.ml]
    rw [ih (fun x hx => hok x (List.mem_cons_of_mem _ hx)) _ _ (by omega)]
    congr 1; omega

theorem tiles_bps (L : List ClassInProgress) (hok : ∀ c ∈ L, CipOK c) (mo bo : Nat)
    (hm : bo + ((L.map cipBps).flatten).length < u32Bound) :
    ((asmCls L mo bo).map (fun k => (k.bpOff, k.bpLen))).foldl tileF (some bo) =
      some (bo + ((L.map cipBps).flatten).length) := by
  induction L generalizing mo bo with
  | nil => simp [asmCls]
  | cons c rest ih =>
    have hc := hok c (List.mem_cons_self ..)
    simp only [List.map_cons, List.flatten_cons, List.length_append] at hm ⊢
    have e1 : asU32 bo = bo := asU32_of_lt _ (by omega)
    simp only [asmCls, List.map_cons, List.foldl_cons, tileF, e1, beq_self_eq_true, if_true, hc.bl]
    rw [ih (fun x hx => hok x (List.mem_cons_of_mem _ hx)) _ _ (by omega)]
    congr 1; omega

theorem slices_asm (T : StrTab) (hT : TabOK T) (hsb : T.bytes.length < u32Max)
    (Lk : List (Bytes × ClassInProgress)) (hsem : ∀ p ∈ Lk, CipSem T p.1 p.2)
    (hok : ∀ p ∈ Lk, CipOK p.2) (M B preM preB : List RawMember)
    (hM : M = preM ++ ((Lk.map (·.2)).map cipMembers).flatten) (hMl : M.length < u32Bound)
    (hB : B = preB ++ ((Lk.map (·.2)).map cipBps).flatten) (hBl : B.length < u32Bound) :
    ((asmCls (Lk.map (·.2)) preM.length preB.length).map (·.fields)).all (fun c =>
      Format.chain (fun a b => Format.lexLe (Format.memberName T.bytes a) (Format.memberName T.bytes b))
        (((M.map (·.fields)).drop (c.getD 3 0)).take (c.getD 4 0)) &&
      Format.chain (fun a b =>
          Format.lexLt (Format.memberName T.bytes a) (Format.memberName T.bytes b) ||
          (Format.memberName T.bytes a == Format.memberName T.bytes b &&
           Format.lexLe (Format.memberParams T.bytes a) (Format.memberParams T.bytes b)))
        (((B.map (·.fields)).drop (c.getD 5 0)).take (c.getD 6 0))) = true := by
  induction Lk generalizing preM preB with
  | nil => rfl
  | cons p rest ih =>
    have hc := hok p (List.mem_cons_self ..)
    have hs := hsem p (List.mem_cons_self ..)
    simp only [List.map_cons, List.flatten_cons] at hM hB
    have i := ih (fun x hx => hsem x (List.mem_cons_of_mem _ hx))
      (fun x hx => hok x (List.mem_cons_of_mem _ hx)) (preM ++ cipMembers p.2) (preB ++ cipBps p.2)
      (by rw [hM, List.append_assoc]) (by rw [hB, List.append_assoc])
    simp only [List.length_append] at i
    have e1 : asU32 preM.length = preM.length := by
      apply asU32_of_lt; rw [hM, List.length_append] at hMl; omega
    have e2 : asU32 preB.length = preB.length := by
      apply asU32_of_lt; rw [hB, List.length_append] at hBl; omega
    have s1 : ((M.map (·.fields)).drop preM.length).take p.2.cls.membersLen =
        (cipMembers p.2).map (·.fields) := by
      rw [hM, List.map_append, List.map_append]
      exact drop_take_pre _ _ _ _ _ (List.length_map ..) (by rw [List.length_map, hc.ml])
    have s2 : ((B.map (·.fields)).drop preB.length).take p.2.cls.bpLen =
        (cipBps p.2).map (·.fields) := by
      rw [hB, List.map_append, List.map_append]
      exact drop_take_pre _ _ _ _ _ (List.length_map ..) (by rw [List.length_map, hc.bl])
    simp only [List.map_cons, asmCls, List.all_cons, Bool.and_eq_true]
    refine ⟨?_, i⟩
    simp only [RawClass.fields, List.getD_cons_zero, List.getD_cons_succ, e1, e2, s1, s2]
    exact ⟨cip_members_chain T hT hsb p.1 p.2 hs, cip_bps_chain T hT hsb p.1 p.2 hs⟩


theorem zeros_all (n : Nat) : (zeros n).all (· == 0) = true := by
  simp [zeros]

theorem wf_build (recs : List Record) (hr : ReprR recs) (hs : (Tables.build recs).Small) :
    Format.WF (decOf (Tables.build recs)) = true := by
  obtain ⟨h1, h2, h3, h4⟩ := hs
  rw [build_eq] at h1 h2 h3 h4 ⊢
  simp only at h1 h2 h3 h4
  obtain ⟨hT, hsorted, _, _⟩ := final_facts recs hr h4
  have hsem := finClasses_sem recs hr h4
  have hokp := finClasses_ok recs
  have hok : ∀ c ∈ (finClasses recs).map (·.2), CipOK c := by
    intro c hc
    obtain ⟨p, hp, rfl⟩ := List.mem_map.1 hc
    exact hokp p hp
  have hT4 : (finTab recs).bytes.length < u32Max := h4
  generalize hLk : finClasses recs = Lk at *
  have e11 : ((asmCls (Lk.map (·.2)) 0 0).map (·.fields)).map
      (fun c => Format.name (finTab recs).bytes (c.getD 0 0)) = Lk.map (·.1) := by
    rw [List.map_map]
    show (asmCls (Lk.map (·.2)) 0 0).map ((Format.name (finTab recs).bytes) ∘ (·.obfOff)) = _
    rw [← List.map_map, asmCls_obf, List.map_map, List.map_map]
    apply List.map_congr_left
    intro p hp
    exact (cip_classOk _ hT hT4 p.1 p.2 (hsem p hp) 0 0 0 0).2
  have e12 : ((asmCls (Lk.map (·.2)) 0 0).map (·.fields)).map (fun c => (c.getD 3 0, c.getD 4 0)) =
      (asmCls (Lk.map (·.2)) 0 0).map (fun k => (k.membersOff, k.membersLen)) := by
    rw [List.map_map]; rfl
  have e13 : ((asmCls (Lk.map (·.2)) 0 0).map (·.fields)).map (fun c => (c.getD 5 0, c.getD 6 0)) =
      (asmCls (Lk.map (·.2)) 0 0).map (fun k => (k.bpOff, k.bpLen)) := by
    rw [List.map_map]; rfl
  have t12 := tiles_members (Lk.map (·.2)) hok 0 0 (by omega)
  have t13 := tiles_bps (Lk.map (·.2)) hok 0 0 (by omega)
  simp only [Format.WF, decOf, Bool.and_eq_true]
  and_intros
  · rfl
  · rfl
  · simp only [List.length_map, beq_self_eq_true]
  · simp only [List.length_map, beq_self_eq_true]
  · simp only [List.length_map, beq_self_eq_true]
  · simp only [beq_self_eq_true]
  · simp only [List.all_append, zeros_all, Bool.and_self]
  · rw [List.all_eq_true]
    intro x hx
    obtain ⟨k, hk, rfl⟩ := List.mem_map.1 hx
    obtain ⟨cip, hc, a, b, rfl⟩ := asmCls_mem _ _ _ _ hk
    obtain ⟨p, hp, rfl⟩ := List.mem_map.1 hc
    exact (cip_classOk _ hT hT4 p.1 p.2 (hsem p hp) _ _ _ _).1
  · rw [List.all_eq_true]
    intro x hx
    obtain ⟨m, hm, rfl⟩ := List.mem_map.1 hx
    obtain ⟨g, hg, hmg⟩ := List.mem_flatten.1 hm
    obtain ⟨cip, hc, rfl⟩ := List.mem_map.1 hg
    obtain ⟨p, hp, rfl⟩ := List.mem_map.1 hc
    exact (cip_members_ok _ hT hT4 p.1 p.2 (hsem p hp)).1 m hmg
  · rw [List.all_eq_true]
    intro x hx
    obtain ⟨m, hm, rfl⟩ := List.mem_map.1 hx
    obtain ⟨g, hg, hmg⟩ := List.mem_flatten.1 hm
    obtain ⟨cip, hc, rfl⟩ := List.mem_map.1 hg
    obtain ⟨p, hp, rfl⟩ := List.mem_map.1 hc
    exact (cip_members_ok _ hT hT4 p.1 p.2 (hsem p hp)).2 m hmg
  · have := chain_comp Format.lexLt
      (fun c : List Nat => Format.name (finTab recs).bytes (c.getD 0 0))
      ((asmCls (Lk.map (·.2)) 0 0).map (·.fields))
    rw [e11] at this
    refine Eq.trans this ?_
    apply chain_of_pairwise
    rw [List.pairwise_map]
    exact List.Pairwise.imp (fun h => (lexLt_iff _ _).2 h) hsorted
  · unfold Format.tiles
    rw [e12]
    show (List.foldl tileF (some 0) _ == _) = true
    rw [t12]
    simp only [Nat.zero_add, List.length_map, beq_self_eq_true]
  · unfold Format.tiles
    rw [e13]
    show (List.foldl tileF (some 0) _ == _) = true
    rw [t13]
    simp only [Nat.zero_add, List.length_map, beq_self_eq_true]
  · exact slices_asm _ hT hT4 Lk hsem hokp _ _ [] [] rfl h2 rfl h3


/-! ### the library's self test -/

section selftest
variable (T : StrTab) (hT : TabOK T) (hsb : T.bytes.length < u32Max) (C : Cache)
  (hC : C.strings = T.bytes)
include hT hsb hC

theorem st_str (s : Bytes) (h : InTab T s) : (C.str (off T s)).isSome = true := by
  rw [(res_str T hT.inv hsb C hC s h).1]; rfl

theorem st_opt (f : Option Bytes) (h : OptInTab T f) :
    (optOffAt T f == u32Max || (C.str (optOffAt T f)).isSome) = true := by
  cases f with
  | none => simp [optOffAt]
  | some x => simp [optOffAt, st_str T hT hsb C hC x h]

theorem st_args (a : Bytes) (h : a ≠ [] → InTab T a) :
    (off T a == u32Max || (C.str (off T a)).isSome) = true := by
  by_cases ha : a = []
  · subst ha; simp [off_nil]
  · simp [st_str T hT hsb C hC a (h ha)]

theorem st_member (e : Entry) (he : EntryIn T e) :
    ((C.str (rawOf T e).obfOff).isSome && (C.str (rawOf T e).origNameOff).isSome &&
      ((rawOf T e).paramsOff == u32Max || (C.str (rawOf T e).paramsOff).isSome) &&
      ((rawOf T e).origClassOff == u32Max || (C.str (rawOf T e).origClassOff).isSome) &&
      ((rawOf T e).origFileOff == u32Max || (C.str (rawOf T e).origFileOff).isSome)) = true := by
  simp only [rawOf, rawMem, Bool.and_eq_true]
  exact ⟨⟨⟨⟨st_str T hT hsb C hC _ he.obf, st_str T hT hsb C hC _ he.name⟩,
    st_args T hT hsb C hC _ he.args⟩, st_opt T hT hsb C hC _ he.fc⟩, st_opt T hT hsb C hC _ he.file⟩

theorem selfTest_asm (Lk : List (Bytes × ClassInProgress)) (hsem : ∀ p ∈ Lk, CipSem T p.1 p.2)
    (hok : ∀ p ∈ Lk, CipOK p.2) (preM : List RawMember) (bo : Nat)
    (hM : C.members = preM ++ ((Lk.map (·.2)).map cipMembers).flatten)
    (hMl : C.members.length < u32Bound) :
    C.selfTestGo preM.length (asmCls (Lk.map (·.2)) preM.length bo) = true := by
  induction Lk generalizing preM bo with
  | nil => rfl
  | cons p rest ih =>
    have hc := hok p (List.mem_cons_self ..)
    have hs := hsem p (List.mem_cons_self ..)
    simp only [List.map_cons, List.flatten_cons] at hM
    have hlen : preM.length + (cipMembers p.2).length ≤ C.members.length := by
      rw [hM]; simp only [List.length_append]; omega
    have e1 : asU32 preM.length = preM.length := asU32_of_lt _ (by omega)
    have e2 : (preM.length + p.2.cls.membersLen) % u32Bound = (preM ++ cipMembers p.2).length := by
      rw [hc.ml, List.length_append]; exact Nat.mod_eq_of_lt (by omega)
    have i := ih (fun x hx => hsem x (List.mem_cons_of_mem _ hx))
      (fun x hx => hok x (List.mem_cons_of_mem _ hx)) (preM ++ cipMembers p.2)
      (bo + (cipBps p.2).length) (by rw [hM, List.append_assoc])
    obtain ⟨i1, o1⟩ := hs.obf
    obtain ⟨s, i2, o2⟩ := hs.orig
    obtain ⟨f, i3, o3⟩ := hs.file
    have s1 : C.classMembers { p.2.cls with membersOff := asU32 preM.length, bpOff := asU32 bo }
        = some (cipMembers p.2) := by
      simp only [Cache.classMembers, e1, hM, hc.ml]
      exact sliceOf_mid _ _ _
    simp only [List.map_cons, asmCls, Cache.selfTestGo, s1, e2, Bool.and_eq_true]
    simp only [List.length_append] at i
    refine ⟨⟨⟨⟨⟨⟨?_, ?_⟩, ?_⟩, ?_⟩, ?_⟩, ?_⟩, ?_⟩
    · rw [o1]; exact st_str T hT hsb C hC _ i1
    · rw [o2]; exact st_str T hT hsb C hC _ i2
    · rw [o3]; exact st_opt T hT hsb C hC _ i3
    · simp only [e1, beq_self_eq_true]
    · simp only [List.length_append, decide_eq_true_eq]; exact hlen
    · rw [List.all_eq_true]
      intro x hx
      obtain ⟨g, hg, hxg⟩ := List.mem_flatten.1 hx
      obtain ⟨q, hq, rfl⟩ := List.mem_map.1 hg
      obtain ⟨e, he, _, rfl⟩ := hs.mem q hq x hxg
      exact st_member T hT hsb C hC e he
    · simp only [List.length_append]; exact i

end selftest

theorem selfTest_build (recs : List Record) (hr : ReprR recs) (hs : (Tables.build recs).Small) :
    (Cache.ofTables (Tables.build recs)).selfTest = true := by
  obtain ⟨h1, h2, h3, h4⟩ := hs
  rw [build_eq] at h1 h2 h3 h4 ⊢
  simp only at h1 h2 h3 h4
  obtain ⟨hT, _, _, _⟩ := final_facts recs hr h4
  exact selfTest_asm (finTab recs) hT h4 _ rfl (finClasses recs) (finClasses_sem recs hr h4)
    (finClasses_ok recs) [] 0 rfl h2

end FL
end PG
