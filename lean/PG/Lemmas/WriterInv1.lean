import PG.Lemmas.WriterInv0
namespace PG
namespace WI
open SpecR

/-! ### the class in progress as a pure function of the final table -/

def cipStep (T : StrTab) (c : ClassInProgress) (r : Record) (next : Option Record) : ClassInProgress :=
  match r with
  | .header k v =>
    if k == litSourceFile then { c with cls := { c.cls with fileOff := optOffAt T v } } else c
  | .method _ o b a fc lm =>
    if sameRangeAsNext lm next = true ∨ c.unique.contains (b, a, o) = true then
      addMember c b (rawMem T c.cls.fileOff o b a fc lm)
    else addBp (addMember c b (rawMem T c.cls.fileOff o b a fc lm)) o b a
            (rawMem T c.cls.fileOff o b a fc lm)
  | _ => c

def cipGo (T : StrTab) (c : ClassInProgress) : List Record → ClassInProgress
  | [] => c
  | r :: rest => cipGo T (cipStep T c r rest.head?) rest

def newCip (T : StrTab) (o b : Bytes) : ClassInProgress :=
  { ClassInProgress.empty with
    name := b, cls := { RawClass.default with origOff := off T o, obfOff := off T b } }

def blockCip (T : StrTab) (b : Block) : ClassInProgress := cipGo T (newCip T b.orig b.obf) b.body

/-- one non-class step of the writer, seen from any later table -/
theorem writeStep_noncls (T' : StrTab) (hi' : T'.Inv) (hb : T'.bytes.length < usizeBound)
    (st : WState) (h : TabOK st.tab) (r : Record) (next : Option Record) (hc : isCls r = false)
    (hr : ReprRec r) (hle : Le (stepTab st.tab r) T') :
    (writeStep st r next).cur = cipStep T' st.cur r next ∧
    (writeStep st r next).classes = st.classes := by
  cases r with
  | cls o b => simp [isCls] at hc
  | field _ _ _ => exact ⟨rfl, rfl⟩
  | header k v =>
    rw [writeStep_header]
    by_cases hk : (k == litSourceFile) = true
    · obtain ⟨_, e, _⟩ := step_header_pack st.tab T' h k v hr hk hle hb hi'
      simp only [hk, if_true, cipStep, e, and_self]
    · simp only [hk, cipStep, if_false, Bool.false_eq_true, and_self]
  | method ty o b a fc lm =>
    rw [writeStep_method]
    obtain ⟨_, e, _⟩ := step_method_pack st.tab T' h ty o b a fc lm hr hle hb hi' st.cur.cls.fileOff
    simp only [e, cipStep, and_self]

theorem writeStep_cls_cur (T' : StrTab) (hi' : T'.Inv) (hb : T'.bytes.length < usizeBound)
    (st : WState) (h : TabOK st.tab) (o b : Bytes) (next : Option Record)
    (hr : ReprRec (.cls o b)) (hle : Le (stepTab st.tab (.cls o b)) T') :
    (writeStep st (.cls o b) next).cur = newCip T' o b ∧
    (writeStep st (.cls o b) next).classes = flushCip st.classes st.cur := by
  obtain ⟨_, e1, e2, _⟩ := step_cls_pack st.tab T' h o b hr hle hb hi'
  rw [writeStep_cls]
  simp only [e1, e2, newCip, and_self]


/-! ### groups -/

def memGrp (c : ClassInProgress) (m : Bytes) : List RawMember := (sfind cmpBytes m c.members).getD []
def bpGrp (c : ClassInProgress) (m p : Bytes) : List RawMember :=
  (sfind cmpPair (m, p) c.byParams).getD []

structure CipSorted (c : ClassInProgress) : Prop where
  ms : KeysSorted cmpBytes c.members
  bs : KeysSorted cmpPair c.byParams

theorem addMember_sorted (c : ClassInProgress) (h : CipSorted c) (b : Bytes) (x : RawMember) :
    CipSorted (addMember c b x) :=
  ⟨sortedUpsert_sorted _ cmpBytes_strictOrd _ _ _ h.ms, h.bs⟩

theorem addBp_sorted (c : ClassInProgress) (h : CipSorted c) (o b a : Bytes) (x : RawMember) :
    CipSorted (addBp c o b a x) :=
  ⟨h.ms, sortedUpsert_sorted _ cmpPair_strictOrd _ _ _ h.bs⟩

theorem addMember_memGrp (c : ClassInProgress) (h : CipSorted c) (b : Bytes) (x : RawMember) (m : Bytes) :
    memGrp (addMember c b x) m = memGrp c m ++ (if b = m then [x] else []) := by
  simp only [memGrp, addMember]
  rw [sortedUpsert_find _ cmpBytes_strictOrd _ _ _ _ h.ms]
  by_cases e : m = b
  · subst e; simp
  · have e' : ¬ b = m := fun h => e h.symm
    simp [e, e']

theorem addBp_bpGrp (c : ClassInProgress) (h : CipSorted c) (o b a : Bytes) (x : RawMember) (m p : Bytes) :
    bpGrp (addBp c o b a x) m p = bpGrp c m p ++ (if b = m ∧ a = p then [x] else []) := by
  simp only [bpGrp, addBp]
  rw [sortedUpsert_find _ cmpPair_strictOrd _ _ _ _ h.bs]
  by_cases e : (m, p) = (b, a)
  · cases e; simp
  · have e' : ¬ (b = m ∧ a = p) := fun h => e (by rw [h.1, h.2])
    simp [e, e']

theorem cipStep_sorted (T : StrTab) (c : ClassInProgress) (h : CipSorted c) (r : Record)
    (next : Option Record) : CipSorted (cipStep T c r next) := by
  cases r with
  | header k v => simp only [cipStep]; split <;> exact ⟨h.ms, h.bs⟩
  | cls o b => exact h
  | field _ _ _ => exact h
  | method ty o b a fc lm =>
    simp only [cipStep]
    split
    · exact addMember_sorted _ h _ _
    · exact addBp_sorted _ (addMember_sorted _ h _ _) _ _ _ _

theorem cipGo_sorted (T : StrTab) (c : ClassInProgress) (h : CipSorted c) (body : List Record) :
    CipSorted (cipGo T c body) := by
  induction body generalizing c with
  | nil => exact h
  | cons r rest ih => exact ih _ (cipStep_sorted T c h r _)

theorem cipStep_names (T : StrTab) (c : ClassInProgress) (r : Record) (next : Option Record) :
    (cipStep T c r next).name = c.name ∧ (cipStep T c r next).cls.obfOff = c.cls.obfOff ∧
    (cipStep T c r next).cls.origOff = c.cls.origOff := by
  cases r with
  | header k v => simp only [cipStep]; split <;> exact ⟨rfl, rfl, rfl⟩
  | cls o b => exact ⟨rfl, rfl, rfl⟩
  | field _ _ _ => exact ⟨rfl, rfl, rfl⟩
  | method ty o b a fc lm => simp only [cipStep]; split <;> exact ⟨rfl, rfl, rfl⟩

theorem cipGo_names (T : StrTab) (c : ClassInProgress) (body : List Record) :
    (cipGo T c body).name = c.name ∧ (cipGo T c body).cls.obfOff = c.cls.obfOff ∧
    (cipGo T c body).cls.origOff = c.cls.origOff := by
  induction body generalizing c with
  | nil => exact ⟨rfl, rfl, rfl⟩
  | cons r rest ih =>
    obtain ⟨a1, a2, a3⟩ := ih (cipStep T c r rest.head?)
    obtain ⟨b1, b2, b3⟩ := cipStep_names T c r rest.head?
    exact ⟨a1.trans b1, a2.trans b2, a3.trans b3⟩

/-! ### against the specification -/

theorem sameRange_eq (lm : Option LineMapping) (next : Option Record) :
    sameRangeAsNext lm next = sameRange lm next := by
  unfold sameRangeAsNext sameRange
  cases lm with
  | none => cases next with
    | none => rfl
    | some r => cases r with
      | method _ _ _ _ _ l => cases l <;> rfl
      | _ => rfl
  | some c => cases next with
    | none => rfl
    | some r => cases r with
      | method _ _ _ _ _ l => cases l <;> rfl
      | _ => rfl

/-- the raw member an entry is stored as -/
def rawOf (T : StrTab) (e : Entry) : RawMember :=
  rawMem T (optOffAt T e.file) e.name e.obf e.args e.fc e.lm

theorem cipGo_memGrp (T : StrTab) (c : ClassInProgress) (h : CipSorted c) (file : Option Bytes)
    (hf : c.cls.fileOff = optOffAt T file) (body : List Record) (m : Bytes) :
    memGrp (cipGo T c body) m =
      memGrp c m ++ ((entriesFrom file body).filter (fun e => e.obf == m)).map (rawOf T) := by
  induction body generalizing c file with
  | nil => simp [cipGo, entriesFrom]
  | cons r rest ih =>
    simp only [cipGo]
    cases r with
    | cls o b => simp only [cipStep, entriesFrom]; exact ih c h file hf
    | field _ _ _ => simp only [cipStep, entriesFrom]; exact ih c h file hf
    | header k v =>
      simp only [cipStep, entriesFrom]
      by_cases hk : (k == litSourceFile) = true
      · simp only [hk, if_true]
        exact ih { c with cls := { c.cls with fileOff := optOffAt T v } } ⟨h.ms, h.bs⟩ v rfl
      · simp only [hk, if_false, Bool.false_eq_true]
        exact ih c h file hf
    | method ty o b a fc lm =>
      have hs := cipStep_sorted T c h (.method ty o b a fc lm) rest.head?
      have hfile : (cipStep T c (.method ty o b a fc lm) rest.head?).cls.fileOff = c.cls.fileOff := by
        simp only [cipStep]; split <;> rfl
      rw [ih _ hs file (hfile.trans hf)]
      have hg : memGrp (cipStep T c (.method ty o b a fc lm) rest.head?) m =
          memGrp c m ++ (if b = m then [rawMem T c.cls.fileOff o b a fc lm] else []) := by
        simp only [cipStep]
        split
        · exact addMember_memGrp c h _ _ _
        · exact addMember_memGrp c h _ _ _
      rw [hg]
      simp only [entriesFrom, List.filter_cons]
      by_cases e : b = m
      · subst e; simp [rawOf, hf]
      · have : (b == m) = false := by simpa using e
        simp [e, this]


theorem cipGo_bpGrp (T : StrTab) (c : ClassInProgress) (h : CipSorted c) (file : Option Bytes)
    (hf : c.cls.fileOff = optOffAt T file) (body : List Record) (m p : Bytes) :
    bpGrp (cipGo T c body) m p =
      bpGrp c m p ++
        ((dedupBy (fun e : Entry => (e.obf, e.args, e.name))
            ((entriesFrom file body).filter (fun e => !e.inlined)) c.unique).filter
          (fun e => e.obf == m && e.args == p)).map (rawOf T) := by
  induction body generalizing c file with
  | nil => simp [cipGo, entriesFrom, dedupBy]
  | cons r rest ih =>
    simp only [cipGo]
    cases r with
    | cls o b => simp only [cipStep, entriesFrom]; exact ih c h file hf
    | field _ _ _ => simp only [cipStep, entriesFrom]; exact ih c h file hf
    | header k v =>
      simp only [cipStep, entriesFrom]
      by_cases hk : (k == litSourceFile) = true
      · simp only [hk, if_true]
        exact ih { c with cls := { c.cls with fileOff := optOffAt T v } } ⟨h.ms, h.bs⟩ v rfl
      · simp only [hk, if_false, Bool.false_eq_true]
        exact ih c h file hf
    | method ty o b a fc lm =>
      have hs := cipStep_sorted T c h (.method ty o b a fc lm) rest.head?
      have hfile : (cipStep T c (.method ty o b a fc lm) rest.head?).cls.fileOff = c.cls.fileOff := by
        simp only [cipStep]; split <;> rfl
      rw [ih _ hs file (hfile.trans hf)]
      simp only [entriesFrom, List.filter_cons]
      by_cases h1 : sameRange lm rest.head? = true
      · have e : cipStep T c (.method ty o b a fc lm) rest.head? =
            addMember c b (rawMem T c.cls.fileOff o b a fc lm) := by
          simp only [cipStep, sameRange_eq, h1, true_or, if_true]
        rw [e]
        simp only [h1, Bool.not_true, Bool.false_eq_true, if_false]
        rfl
      · have h1' : sameRange lm rest.head? = false := by simpa using h1
        simp only [h1', Bool.not_false, if_true]
        by_cases h2 : c.unique.contains (b, a, o) = true
        · have e : cipStep T c (.method ty o b a fc lm) rest.head? =
              addMember c b (rawMem T c.cls.fileOff o b a fc lm) := by
            simp only [cipStep, sameRange_eq, h1', h2, or_true, if_true]
          rw [e]
          simp only [dedupBy, h2, if_true]
          rfl
        · have h2' : c.unique.contains (b, a, o) = false := by simpa using h2
          have e : cipStep T c (.method ty o b a fc lm) rest.head? =
              addBp (addMember c b (rawMem T c.cls.fileOff o b a fc lm)) o b a
                (rawMem T c.cls.fileOff o b a fc lm) := by
            simp only [cipStep, sameRange_eq, h1', h2', or_self, if_false, Bool.false_eq_true]
          rw [e, addBp_bpGrp _ (addMember_sorted c h _ _)]
          simp only [dedupBy, h2', Bool.false_eq_true, if_false, List.filter_cons]
          have hu : (addBp (addMember c b (rawMem T c.cls.fileOff o b a fc lm)) o b a
                (rawMem T c.cls.fileOff o b a fc lm)).unique = (b, a, o) :: c.unique := rfl
          have hg : bpGrp (addMember c b (rawMem T c.cls.fileOff o b a fc lm)) m p = bpGrp c m p := rfl
          rw [hu, hg]
          by_cases hk : b = m ∧ a = p
          · obtain ⟨rfl, rfl⟩ := hk
            simp [rawOf, hf]
          · have : (b == m && a == p) = false := by
              simp only [Bool.and_eq_false_iff, beq_eq_false_iff_ne]
              by_cases ho : b = m
              · right; intro ha; exact hk ⟨ho, ha⟩
              · left; exact ho
            simp [this, hk]


/-! ### blocks -/

theorem bodyOf_noncls (recs : List Record) : ∀ r ∈ bodyOf recs, isCls r = false := by
  intro r hr
  have h : ((recs.takeWhile (fun r => !isCls r)).all (fun r => !isCls r)) = true := List.all_takeWhile
  rw [List.all_eq_true] at h
  have := h r hr
  simpa using this

theorem bodyOf_cons_cls (o b : Bytes) (rest : List Record) : bodyOf (.cls o b :: rest) = [] := by
  simp [bodyOf, isCls]

theorem bodyOf_cons_noncls (r : Record) (rest : List Record) (h : isCls r = false) :
    bodyOf (r :: rest) = r :: bodyOf rest := by
  simp [bodyOf, h]

theorem sameRangeAsNext_bodyOf (lm : Option LineMapping) (rest : List Record) :
    sameRangeAsNext lm (bodyOf rest).head? = sameRangeAsNext lm rest.head? := by
  cases rest with
  | nil => rfl
  | cons x xs =>
    by_cases hx : isCls x = true
    · cases x with
      | cls o b => rw [bodyOf_cons_cls]; cases lm <;> rfl
      | _ => simp [isCls] at hx
    · have hx' : isCls x = false := by simpa using hx
      rw [bodyOf_cons_noncls x xs hx']
      rfl

theorem cipStep_bodyOf (T : StrTab) (c : ClassInProgress) (r : Record) (rest : List Record) :
    cipStep T c r (bodyOf rest).head? = cipStep T c r rest.head? := by
  cases r with
  | method ty name obf args fc lm => simp only [cipStep, sameRangeAsNext_bodyOf]
  | _ => rfl

theorem blocksOf_cons_noncls (r : Record) (rest : List Record) (h : isCls r = false) :
    blocksOf (r :: rest) = blocksOf rest := by
  cases r with
  | cls o b => simp [isCls] at h
  | _ => rfl

theorem lastBlock_nil (c : Bytes) : lastBlock [] c = none := by
  simp [lastBlock, blocksOf]

theorem lastBlock_cons_noncls (r : Record) (rest : List Record) (c : Bytes) (h : isCls r = false) :
    lastBlock (r :: rest) c = lastBlock rest c := by
  unfold lastBlock
  rw [blocksOf_cons_noncls r rest h]

theorem lastBlock_cons_cls (o b : Bytes) (rest : List Record) (c : Bytes) :
    lastBlock (.cls o b :: rest) c =
      match lastBlock rest c with
      | some x => some x
      | none => if (b == c && !o.isEmpty) = true then some ⟨o, b, bodyOf rest⟩ else none := by
  unfold lastBlock
  simp only [blocksOf, List.filter_cons]
  generalize (List.filter (fun b => b.obf == c && !b.orig.isEmpty) (blocksOf rest)) = l
  by_cases hp : (b == c && !o.isEmpty) = true
  · simp only [hp, if_true]
    rw [List.getLast?_cons]
    cases l.getLast? <;> rfl
  · have hp' : (b == c && !o.isEmpty) = false := by simpa using hp
    simp only [hp', Bool.false_eq_true, if_false]
    cases l.getLast? <;> rfl

/-! ### the class table -/

theorem flushCip_sorted (classes : List (Bytes × ClassInProgress)) (c : ClassInProgress)
    (h : KeysSorted cmpBytes classes) : KeysSorted cmpBytes (flushCip classes c) := by
  unfold flushCip
  split
  · exact h
  · exact sortedUpsert_sorted _ cmpBytes_strictOrd _ _ _ h

theorem flushCip_sfind (classes : List (Bytes × ClassInProgress)) (cip : ClassInProgress)
    (h : KeysSorted cmpBytes classes) (c : Bytes) :
    sfind cmpBytes c (flushCip classes cip) =
      if cip.name ≠ [] ∧ c = cip.name then some cip else sfind cmpBytes c classes := by
  unfold flushCip
  by_cases he : cip.name = []
  · simp [he]
  · have he' : cip.name.isEmpty = false := by simpa using he
    simp only [he', Bool.false_eq_true, if_false]
    rw [sortedUpsert_find _ cmpBytes_strictOrd _ _ _ _ h]
    simp [he]

def fin (st : WState) (recs : List Record) : List (Bytes × ClassInProgress) :=
  flushCip (writeGo st recs).classes (writeGo st recs).cur

theorem writeStep_classes_sorted (st : WState) (r : Record) (next : Option Record)
    (h : KeysSorted cmpBytes st.classes) : KeysSorted cmpBytes (writeStep st r next).classes := by
  cases r with
  | cls o b => rw [writeStep_cls]; exact flushCip_sorted _ _ h
  | field _ _ _ => exact h
  | header k v => rw [writeStep_header]; split <;> exact h
  | method ty o b a fc lm => rw [writeStep_method]; exact h

theorem writeGo_classes_sorted (st : WState) (recs : List Record)
    (h : KeysSorted cmpBytes st.classes) : KeysSorted cmpBytes (writeGo st recs).classes := by
  induction recs generalizing st with
  | nil => exact h
  | cons r rest ih => exact ih _ (writeStep_classes_sorted st r _ h)

theorem fin_sorted (st : WState) (recs : List Record) (h : KeysSorted cmpBytes st.classes) :
    KeysSorted cmpBytes (fin st recs) := flushCip_sorted _ _ (writeGo_classes_sorted st recs h)

theorem fin_sfind (T' : StrTab) (hi' : T'.Inv) (hb : T'.bytes.length < usizeBound)
    (st : WState) (recs : List Record) (h : TabOK st.tab) (hr : ReprR recs)
    (hle : Le (writeGo st recs).tab T') (hs : KeysSorted cmpBytes st.classes) (c : Bytes) :
    sfind cmpBytes c (fin st recs) =
      match lastBlock recs c with
      | some b => some (blockCip T' b)
      | none => sfind cmpBytes c (flushCip st.classes (cipGo T' st.cur (bodyOf recs))) := by
  induction recs generalizing st with
  | nil => simp [fin, writeGo, lastBlock_nil, bodyOf, cipGo]
  | cons r rest ih =>
    have hrr := hr r (List.mem_cons_self ..)
    have hrest : ReprR rest := fun x hx => hr x (List.mem_cons_of_mem _ hx)
    have e : fin st (r :: rest) = fin (writeStep st r rest.head?) rest := rfl
    have hle' : Le (writeGo (writeStep st r rest.head?) rest).tab T' := hle
    have hle1 : Le (stepTab st.tab r) T' := by
      have := writeGo_le (writeStep st r rest.head?) rest
      rw [writeStep_tab] at this
      exact this.trans hle'
    have hok : TabOK (writeStep st r rest.head?).tab := by
      rw [writeStep_tab]
      exact stepTab_ok _ h _ hrr (Nat.lt_of_le_of_lt hle1.len hb)
    rw [e, ih _ hok hrest hle' (writeStep_classes_sorted st r _ hs)]
    by_cases hc : isCls r = true
    · cases r with
      | cls o b =>
        obtain ⟨e1, e2⟩ := writeStep_cls_cur T' hi' hb st h o b rest.head? hrr hle1
        rw [lastBlock_cons_cls, bodyOf_cons_cls, e1, e2]
        cases lastBlock rest c with
        | some x => rfl
        | none =>
          simp only [cipGo]
          rw [flushCip_sfind _ _ (flushCip_sorted _ _ hs), (cipGo_names T' _ _).1]
          obtain ⟨ho, hbn, _, _⟩ := hrr
          have hoe : o.isEmpty = false := by simpa using ho
          simp only [newCip, hoe, Bool.not_false, Bool.and_true, beq_iff_eq]
          by_cases hbc : b = c
          · subst hbc
            simp only [ne_eq, hbn, not_false_eq_true, and_self, if_true]
            rfl
          · have : ¬ c = b := fun e => hbc e.symm
            simp only [this, hbc, and_false, if_false]
      | _ => simp [isCls] at hc
    · have hc' : isCls r = false := by simpa using hc
      obtain ⟨e1, e2⟩ := writeStep_noncls T' hi' hb st h r rest.head? hc' hrr hle1
      rw [lastBlock_cons_noncls r rest c hc', bodyOf_cons_noncls r rest hc', e1, e2]
      cases lastBlock rest c with
      | some x => rfl
      | none => simp only [cipGo, cipStep_bodyOf]


/-! ### every string of the records is in the final table -/

def RecIn (T : StrTab) : Record → Prop
  | .header k v => (k == litSourceFile) = true → OptInTab T v
  | .cls o b => InTab T o ∧ InTab T b
  | .field .. => True
  | .method _ o b a fc _ => InTab T b ∧ InTab T o ∧ OptInTab T fc ∧ (a ≠ [] → InTab T a)

theorem writeGo_recIn (T' : StrTab) (hi' : T'.Inv) (hb : T'.bytes.length < usizeBound)
    (st : WState) (recs : List Record) (h : TabOK st.tab) (hr : ReprR recs)
    (hle : Le (writeGo st recs).tab T') : ∀ r ∈ recs, RecIn T' r := by
  induction recs generalizing st with
  | nil => intro r hr; cases hr
  | cons r rest ih =>
    have hrr := hr r (List.mem_cons_self ..)
    have hrest : ReprR rest := fun x hx => hr x (List.mem_cons_of_mem _ hx)
    have hle' : Le (writeGo (writeStep st r rest.head?) rest).tab T' := hle
    have hle1 : Le (stepTab st.tab r) T' := by
      have := writeGo_le (writeStep st r rest.head?) rest
      rw [writeStep_tab] at this
      exact this.trans hle'
    have hok : TabOK (writeStep st r rest.head?).tab := by
      rw [writeStep_tab]
      exact stepTab_ok _ h _ hrr (Nat.lt_of_le_of_lt hle1.len hb)
    intro x hx
    rcases List.mem_cons.1 hx with rfl | hx
    · cases x with
      | header k v =>
        intro hk
        exact (step_header_pack st.tab T' h k v hrr hk hle1 hb hi').2.2
      | cls o b =>
        obtain ⟨_, _, _, i1, i2⟩ := step_cls_pack st.tab T' h o b hrr hle1 hb hi'
        exact ⟨i2, i1⟩
      | field _ _ _ => trivial
      | method ty o b a fc lm =>
        exact (step_method_pack st.tab T' h ty o b a fc lm hrr hle1 hb hi' 0).2.2
    · exact ih _ hok hrest hle' x hx

structure EntryIn (T : StrTab) (e : Entry) : Prop where
  obf : InTab T e.obf
  name : InTab T e.name
  fc : OptInTab T e.fc
  file : OptInTab T e.file
  args : e.args ≠ [] → InTab T e.args

theorem entriesFrom_in (T : StrTab) (file : Option Bytes) (hf : OptInTab T file) (body : List Record)
    (hb : ∀ r ∈ body, RecIn T r) : ∀ e ∈ entriesFrom file body, EntryIn T e := by
  induction body generalizing file with
  | nil => intro e he; simp [entriesFrom] at he
  | cons r rest ih =>
    have hrest : ∀ x ∈ rest, RecIn T x := fun x hx => hb x (List.mem_cons_of_mem _ hx)
    have hr := hb r (List.mem_cons_self ..)
    cases r with
    | cls o b => simp only [entriesFrom]; exact ih file hf hrest
    | field _ _ _ => simp only [entriesFrom]; exact ih file hf hrest
    | header k v =>
      simp only [entriesFrom]
      by_cases hk : (k == litSourceFile) = true
      · simp only [hk, if_true]; exact ih v (hr hk) hrest
      · simp only [hk, if_false, Bool.false_eq_true]; exact ih file hf hrest
    | method ty o b a fc lm =>
      intro e he
      simp only [entriesFrom, List.mem_cons] at he
      rcases he with rfl | he
      · obtain ⟨i1, i2, i3, i4⟩ := hr
        exact ⟨i1, i2, i3, hf, i4⟩
      · exact ih file hf hrest e he

theorem bodyOf_subset (recs : List Record) : ∀ r ∈ bodyOf recs, r ∈ recs := by
  intro r hr
  exact (List.takeWhile_sublist _).subset hr

theorem blocksOf_mem (recs : List Record) (b : Block) (hb : b ∈ blocksOf recs) :
    (.cls b.orig b.obf) ∈ recs ∧ ∀ r ∈ b.body, r ∈ recs := by
  induction recs with
  | nil => simp [blocksOf] at hb
  | cons r rest ih =>
    by_cases hr : isCls r = true
    · cases r with
      | cls o ob =>
        simp only [blocksOf, List.mem_cons] at hb
        cases hb with
        | inl h => subst h; exact ⟨by simp, fun x hx => List.mem_cons_of_mem _ (bodyOf_subset rest x hx)⟩
        | inr h =>
          obtain ⟨h1, h2⟩ := ih h
          exact ⟨List.mem_cons_of_mem _ h1, fun x hx => List.mem_cons_of_mem _ (h2 x hx)⟩
      | _ => simp [isCls] at hr
    · have hr' : isCls r = false := by simpa using hr
      rw [blocksOf_cons_noncls r rest hr'] at hb
      obtain ⟨h1, h2⟩ := ih hb
      exact ⟨List.mem_cons_of_mem _ h1, fun x hx => List.mem_cons_of_mem _ (h2 x hx)⟩

theorem lastBlock_some (recs : List Record) (c : Bytes) (b : Block) (h : lastBlock recs c = some b) :
    b ∈ blocksOf recs ∧ b.obf = c := by
  unfold lastBlock at h
  have hm := List.mem_of_getLast? h
  rw [List.mem_filter] at hm
  obtain ⟨h1, h2⟩ := hm
  simp only [Bool.and_eq_true, beq_iff_eq, Bool.not_eq_true'] at h2
  exact ⟨h1, h2.1⟩

theorem lastBlock_in (T : StrTab) (recs : List Record) (hin : ∀ r ∈ recs, RecIn T r) (c : Bytes)
    (b : Block) (h : lastBlock recs c = some b) :
    b.obf = c ∧ InTab T b.orig ∧ InTab T b.obf ∧ ∀ e ∈ b.entries, EntryIn T e := by
  obtain ⟨h1, h2⟩ := lastBlock_some recs c b h
  obtain ⟨h3, h4⟩ := blocksOf_mem recs b h1
  obtain ⟨i1, i2⟩ := hin _ h3
  exact ⟨h2, i1, i2, entriesFrom_in T none trivial b.body (fun r hr => hin r (h4 r hr))⟩

theorem mem_dedupBy {α κ : Type} [BEq κ] (key : α → κ) (l : List α) (seen : List κ) (a : α)
    (h : a ∈ dedupBy key l seen) : a ∈ l := by
  induction l generalizing seen with
  | nil => simp [dedupBy] at h
  | cons x xs ih =>
    simp only [dedupBy] at h
    split at h
    · exact List.mem_cons_of_mem _ (ih seen h)
    · rcases List.mem_cons.1 h with rfl | h
      · exact List.mem_cons_self ..
      · exact List.mem_cons_of_mem _ (ih _ h)

theorem realEntries_subset (b : Block) : ∀ e ∈ b.realEntries, e ∈ b.entries := by
  intro e he
  have := mem_dedupBy _ _ _ _ he
  exact (List.mem_filter.1 this).1

end WI
end PG
