/-
  PG.Lemmas.StrTab — LEB128 round trip and the string-table invariant: every offset handed
  out for a string reads back that string from the final bytes, however much is appended later.
-/
import PG.Model.CacheRead
import PG.Lemmas.ListBasics
namespace PG

/-! ### helpers for the LEB128 round trip -/

theorem or_shift_eq_add (acc d s : Nat) (h : acc < 2 ^ s) : acc ||| (d <<< s) = acc + d * 2 ^ s := by
  rw [Nat.or_comm, ← Nat.shiftLeft_add_eq_or_of_lt h, Nat.shiftLeft_eq, Nat.add_comm]

theorem lebRead_cons_last (s acc d : Nat) (rest : Bytes) (hd : d < 128) (hacc : acc < 2 ^ s)
    (hb : acc + d * 2 ^ s < usizeBound) (hs : s ≠ 63 ∨ d ≤ 1) :
    lebRead s acc (UInt8.ofNat d :: rest) = some (acc + d * 2 ^ s, rest) := by
  have htn : (UInt8.ofNat d).toNat = d := by rw [UInt8.toNat_ofNat']; omega
  have hc : (s == 63 && UInt8.ofNat d != 0 && UInt8.ofNat d != 1) = false := by
    rcases hs with hs | hs
    · have : (s == 63) = false := by simpa using hs
      simp [this]
    · have : d = 0 ∨ d = 1 := by omega
      rcases this with rfl | rfl <;> simp
  unfold lebRead
  rw [hc]
  simp only [htn, Bool.false_eq_true, if_false]
  rw [Nat.mod_eq_of_lt hd, or_shift_eq_add _ _ _ hacc, Nat.mod_eq_of_lt hb]
  have : d / 128 = 0 := by omega
  simp [this]

theorem lebRead_cons_more (s acc d : Nat) (rest : Bytes) (hd : d < 128) (hacc : acc < 2 ^ s)
    (hb : acc + d * 2 ^ s < usizeBound) (hs : s ≠ 63) :
    lebRead s acc (UInt8.ofNat (d + 128) :: rest) = lebRead (s + 7) (acc + d * 2 ^ s) rest := by
  have htn : (UInt8.ofNat (d + 128)).toNat = d + 128 := by rw [UInt8.toNat_ofNat']; omega
  have hc : (s == 63 && UInt8.ofNat (d + 128) != 0 && UInt8.ofNat (d + 128) != 1) = false := by
    have : (s == 63) = false := by simpa using hs
    simp [this]
  rw [lebRead]
  rw [hc]
  simp only [htn, Bool.false_eq_true, if_false]
  have h1 : (d + 128) % 128 = d := by omega
  rw [h1, or_shift_eq_add _ _ _ hacc, Nat.mod_eq_of_lt hb]
  have : (d + 128) / 128 = 1 := by omega
  simp [this]

theorem lebRead_lebWriteFuel (fuel : Nat) : ∀ (k n acc : Nat) (rest : Bytes), k ≤ 9 → 10 ≤ fuel + k →
    acc < 2 ^ (7 * k) → n < 2 ^ (64 - 7 * k) →
    lebRead (7 * k) acc (lebWriteFuel fuel n ++ rest) = some (acc + n * 2 ^ (7 * k), rest) := by
  induction fuel with
  | zero => intro k n acc rest hk hf; omega
  | succ fuel ih =>
    intro k n acc rest hk hf hacc hn
    have hk' : k = 0 ∨ k = 1 ∨ k = 2 ∨ k = 3 ∨ k = 4 ∨ k = 5 ∨ k = 6 ∨ k = 7 ∨ k = 8 ∨ k = 9 := by omega
    unfold lebWriteFuel
    split
    · rename_i h0
      have hn128 : n < 128 := by omega
      rw [Nat.mod_eq_of_lt hn128]
      apply lebRead_cons_last _ _ _ _ hn128 hacc
      · rcases hk' with rfl | rfl | rfl | rfl | rfl | rfl | rfl | rfl | rfl | rfl <;>
          simp only [usizeBound, Nat.reduceMul, Nat.reduceSub, Nat.reducePow] at * <;> omega
      · rcases hk' with rfl | rfl | rfl | rfl | rfl | rfl | rfl | rfl | rfl | rfl <;>
          simp only [Nat.reduceMul, Nat.reduceSub, Nat.reducePow] at * <;> omega
    · rename_i h0
      have hk8 : k ≤ 8 := by
        rcases hk' with rfl | rfl | rfl | rfl | rfl | rfl | rfl | rfl | rfl | rfl <;>
          simp only [Nat.reduceMul, Nat.reduceSub, Nat.reducePow] at * <;> omega
      have hd : n % 128 < 128 := Nat.mod_lt _ (by decide)
      rw [List.cons_append, lebRead_cons_more _ _ _ _ hd hacc ?_ (by omega)]
      · have := ih (k + 1) (n / 128) (acc + n % 128 * 2 ^ (7 * k)) rest (by omega) (by omega) ?_ ?_
        · rw [show 7 * (k + 1) = 7 * k + 7 from by omega] at this
          rw [this]
          congr 2
          rw [Nat.pow_add]
          have hnm := Nat.div_add_mod n 128
          generalize 2 ^ (7 * k) = P at *
          generalize n / 128 = q at *
          generalize n % 128 = r at *
          rw [← hnm]
          simp only [Nat.reducePow]
          grind
        · rcases hk' with rfl | rfl | rfl | rfl | rfl | rfl | rfl | rfl | rfl | rfl <;>
            simp only [Nat.reduceMul, Nat.reduceSub, Nat.reducePow, Nat.reduceAdd] at * <;> omega
        · rcases hk' with rfl | rfl | rfl | rfl | rfl | rfl | rfl | rfl | rfl | rfl <;>
            simp only [Nat.reduceMul, Nat.reduceSub, Nat.reducePow, Nat.reduceAdd] at * <;> omega
      · rcases hk' with rfl | rfl | rfl | rfl | rfl | rfl | rfl | rfl | rfl | rfl <;>
          simp only [usizeBound, Nat.reduceMul, Nat.reduceSub, Nat.reducePow] at * <;> omega

theorem lebRead_lebWrite (n : Nat) (h : n < usizeBound) (rest : Bytes) :
    lebRead 0 0 (lebWrite n ++ rest) = some (n, rest) := by
  have := lebRead_lebWriteFuel 10 0 n 0 rest (by omega) (by omega) (by simp) (by simpa [usizeBound] using h)
  simpa [lebWrite] using this

theorem lebWrite_ne_nil (n : Nat) : lebWrite n ≠ [] := by
  unfold lebWrite lebWriteFuel
  split <;> simp

/-- reading a string at the position where `lebWrite len ++ s` was appended -/
theorem readString_at (pre s post : Bytes) (hs : validUtf8 s = true) (hl : s.length < usizeBound) :
    readString (pre ++ (lebWrite s.length ++ s) ++ post) pre.length = some s := by
  unfold readString
  have h1 : ¬ pre.length > (pre ++ (lebWrite s.length ++ s) ++ post).length := by
    simp only [List.length_append]; omega
  rw [if_neg h1]
  have h2 : (pre ++ (lebWrite s.length ++ s) ++ post).drop pre.length
      = lebWrite s.length ++ (s ++ post) := by
    rw [List.append_assoc, List.drop_left, List.append_assoc]
  rw [h2, lebRead_lebWrite _ hl]
  simp only
  have h3 : ¬ s.length > (s ++ post).length := by simp only [List.length_append]; omega
  rw [if_neg h3, List.take_left, hs]
  simp

/-- the invariant of a string table under construction -/
structure StrTab.Inv (t : StrTab) : Prop where
  /-- every indexed string is non-empty, valid UTF-8 (all inserted strings come from the
      parser, which validated them) and reads back at its offset, also after any extension -/
  reads : ∀ s off, (s, off) ∈ t.index → s ≠ [] ∧ off < t.bytes.length ∧
            ∀ ext, readString (t.bytes ++ ext) off = some s
  /-- one offset per string and one string per offset -/
  inj : ∀ s₁ o₁ s₂ o₂, (s₁, o₁) ∈ t.index → (s₂, o₂) ∈ t.index → (s₁ = s₂ ↔ o₁ = o₂)
  /-- `lookup` finds exactly the indexed pairs -/
  lookup_iff : ∀ s off, t.index.lookup s = some off ↔ (s, off) ∈ t.index

theorem StrTab.empty_inv : StrTab.empty.Inv := by
  constructor <;> simp [StrTab.empty]

/-- inserting a valid UTF-8 string keeps the invariant, only appends bytes, only grows the
    index, and returns an offset at which the string reads back (or `usize::MAX` for "") -/
theorem StrTab.insert_spec (t : StrTab) (hi : t.Inv) (s : Bytes) (hs : validUtf8 s = true)
    (hl : s.length < usizeBound) :
    (t.insert s).1.Inv ∧
    (∃ ext, (t.insert s).1.bytes = t.bytes ++ ext) ∧
    (∀ p ∈ t.index, p ∈ (t.insert s).1.index) ∧
    (s = [] → (t.insert s).2 = usizeMax ∧ (t.insert s).1 = t) ∧
    (s ≠ [] → (s, (t.insert s).2) ∈ (t.insert s).1.index) := by
  unfold StrTab.insert
  by_cases hse : s = []
  · subst hse
    simp only [List.isEmpty_nil, if_true]
    exact ⟨hi, ⟨[], by simp⟩, fun p hp => hp, by simp, by simp⟩
  · have hne : s.isEmpty = false := by simpa using hse
    simp only [hne, Bool.false_eq_true, if_false]
    cases hlk : t.index.lookup s with
    | some off =>
      simp only
      exact ⟨hi, ⟨[], by simp⟩, fun p hp => hp, fun h => absurd h hse,
        fun _ => (hi.lookup_iff s off).1 hlk⟩
    | none =>
      simp only
      have hfresh : ∀ o, (s, o) ∉ t.index := by
        intro o hm
        have := (hi.lookup_iff s o).2 hm
        rw [hlk] at this; cases this
      have hLne := lebWrite_ne_nil s.length
      have hLpos : 0 < (lebWrite s.length).length := List.length_pos_iff.2 hLne
      refine ⟨⟨?_, ?_, ?_⟩, ⟨_, rfl⟩, fun p hp => List.mem_cons_of_mem _ hp,
        fun h => absurd h hse, fun _ => List.mem_cons_self⟩
      · intro s' off' hm
        rcases List.mem_cons.1 hm with heq | hm
        · cases heq
          refine ⟨hse, ?_, fun ext => readString_at _ _ _ hs hl⟩
          simp only [List.length_append]; omega
        · obtain ⟨h1, h2, h3⟩ := hi.reads s' off' hm
          refine ⟨h1, ?_, fun ext => ?_⟩
          · simp only [List.length_append]; omega
          · rw [List.append_assoc]; exact h3 _
      · intro s₁ o₁ s₂ o₂ hm₁ hm₂
        rcases List.mem_cons.1 hm₁ with heq₁ | hn₁ <;> rcases List.mem_cons.1 hm₂ with heq₂ | hn₂
        · cases heq₁; cases heq₂; simp
        · cases heq₁
          have hlt := (hi.reads s₂ o₂ hn₂).2.1
          constructor
          · intro h; subst h; exact absurd hn₂ (hfresh _)
          · intro h; omega
        · cases heq₂
          have hlt := (hi.reads s₁ o₁ hn₁).2.1
          constructor
          · intro h; subst h; exact absurd hn₁ (hfresh _)
          · intro h; omega
        · exact hi.inj _ _ _ _ hn₁ hn₂
      · intro s' off'
        rw [List.lookup_cons]
        by_cases he : s' = s
        · subst he
          simp only [beq_self_eq_true, List.mem_cons, Prod.mk.injEq, true_and]
          constructor
          · intro h; cases h; exact Or.inl rfl
          · intro h
            rcases h with h | h
            · rw [h]
            · exact absurd h (hfresh _)
        · have hb : (s' == s) = false := by simpa using he
          simp only [hb, List.mem_cons, Prod.mk.injEq, he, false_and, false_or]
          exact hi.lookup_iff s' off'

/-- with the table below 2^32-1 bytes the `as u32` truncation is the identity on real offsets,
    and the sentinel u32::MAX (which "" maps to) is not a readable offset -/
theorem readString_sentinel (sb : Bytes) (h : sb.length < u32Max) : readString sb u32Max = none := by
  unfold readString
  rw [if_pos h]

end PG
