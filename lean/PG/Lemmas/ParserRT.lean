/-
  PG.Lemmas.ParserRT — "printed-prefix" lemmas for the sub-parsers of PG.Model.Parser,
  used by Props/C05.
-/
import PG.Model.Parser
import PG.Lemmas.ListBasics
namespace PG

/-- `r` is empty or starts with a byte satisfying `p` -/
def HeadSat (p : UInt8 → Bool) (r : Bytes) : Prop := ∀ b, r.head? = some b → p b = true

theorem HeadSat.nil (p : UInt8 → Bool) : HeadSat p [] := by intro b h; simp at h

theorem HeadSat.cons (p : UInt8 → Bool) (d : UInt8) (r : Bytes) (h : p d = true) :
    HeadSat p (d :: r) := by
  intro b hb; simp at hb; subst hb; exact h

/-! ### stripPrefix / startsWith -/

theorem stripPrefix_append_rt (p r : Bytes) : stripPrefix p (p ++ r) = some r := by
  induction p with
  | nil => simp [stripPrefix]
  | cons a p ih => simp [stripPrefix, ih]

theorem stripPrefix_nil_none (a : UInt8) (p : Bytes) : stripPrefix (a :: p) [] = none := by
  simp [stripPrefix]

theorem stripPrefix_cons_ne (a b : UInt8) (p bs : Bytes) (h : a ≠ b) :
    stripPrefix (a :: p) (b :: bs) = none := by
  simp [stripPrefix, h]

theorem stripPrefix_cons_eq (a : UInt8) (p bs : Bytes) :
    stripPrefix (a :: p) (a :: bs) = stripPrefix p bs := by
  simp [stripPrefix]

/-- single-byte prefix against a list whose head (if any) differs -/
theorem stripPrefix_single_none (a : UInt8) (bs : Bytes) (h : bs.head? ≠ some a) :
    stripPrefix [a] bs = none := by
  cases bs with
  | nil => rfl
  | cons b bs =>
    have : a ≠ b := by intro e; subst e; simp at h
    simp [stripPrefix, this]

/-! ### takeWhile / dropWhile / spanUntil with a stop at the head of the remainder -/

theorem takeWhile_headStop {α : Type} (p : α → Bool) (l r : List α)
    (hl : ∀ a ∈ l, p a = true) (hr : ∀ b, r.head? = some b → p b = false) :
    (l ++ r).takeWhile p = l := by
  cases r with
  | nil => simpa using takeWhile_all p l hl
  | cons c r => exact takeWhile_stop p l c r hl (hr c rfl)

theorem dropWhile_headStop {α : Type} (p : α → Bool) (l r : List α)
    (hl : ∀ a ∈ l, p a = true) (hr : ∀ b, r.head? = some b → p b = false) :
    (l ++ r).dropWhile p = r := by
  cases r with
  | nil => simpa using dropWhile_all p l hl
  | cons c r => exact dropWhile_stop p l c r hl (hr c rfl)

theorem spanUntil_append (p : UInt8 → Bool) (a r : Bytes)
    (ha : ∀ b ∈ a, p b = false) (hr : HeadSat p r) : spanUntil p (a ++ r) = (a, r) := by
  unfold spanUntil
  have hl : ∀ b ∈ a, (!p b) = true := by intro b hb; simp [ha b hb]
  have hr' : ∀ b, r.head? = some b → (!p b) = false := by intro b hb; simp [hr b hb]
  rw [takeWhile_headStop _ a r hl hr', dropWhile_headStop _ a r hl hr']

/-! ### UTF-8 -/

theorem validUtf8_cons_ascii (c : UInt8) (a : Bytes) (hc : c < 0x80) :
    validUtf8 (c :: a) = validUtf8 a := by
  rw [validUtf8.eq_def]; simp only [hc, if_true]

theorem validUtf8_append (a b : Bytes) (ha : validUtf8 a = true) (hb : validUtf8 b = true) :
    validUtf8 (a ++ b) = true := by
  induction a using validUtf8.induct with
  | case1 => simpa using hb
  | case2 b0 rest h0 ih =>
    rw [validUtf8.eq_def] at ha
    simp only [h0, if_true] at ha
    rw [List.cons_append, validUtf8.eq_def]
    simp only [h0, if_true]
    exact ih ha
  | case3 b0 h0 h1 b1 r ih =>
    rw [validUtf8.eq_def] at ha
    simp only [h0, h1, if_true, if_false, Bool.and_eq_true] at ha
    rw [List.cons_append, List.cons_append, validUtf8.eq_def]
    simp only [h0, h1, if_true, if_false, Bool.and_eq_true]
    exact ⟨ha.1, ih ha.2⟩
  | case4 b0 rest h0 h1 hne =>
    rw [validUtf8.eq_def] at ha
    simp only [h0, h1, if_true, if_false] at ha
    exact absurd ha (by simp)
  | case5 b0 h0 h1 h2 b1 b2 r ih =>
    rw [validUtf8.eq_def] at ha
    simp only [h0, h1, h2, if_true, if_false, Bool.false_eq_true, Bool.and_eq_true] at ha
    rw [List.cons_append, List.cons_append, List.cons_append, validUtf8.eq_def]
    simp only [h0, h1, h2, if_true, if_false, Bool.false_eq_true, Bool.and_eq_true]
    exact ⟨ha.1, ih ha.2⟩
  | case6 b0 rest h0 h1 h2 hne =>
    rw [validUtf8.eq_def] at ha
    simp only [h0, h1, h2, if_true, if_false] at ha
    exact absurd ha (by simp)
  | case7 b0 h0 h1 h2 h3 b1 b2 b3 r ih =>
    rw [validUtf8.eq_def] at ha
    simp only [h0, h1, h2, h3, if_true, if_false, Bool.false_eq_true, Bool.and_eq_true] at ha
    rw [List.cons_append, List.cons_append, List.cons_append, List.cons_append, validUtf8.eq_def]
    simp only [h0, h1, h2, h3, if_true, if_false, Bool.false_eq_true, Bool.and_eq_true]
    exact ⟨ha.1, ih ha.2⟩
  | case8 b0 rest h0 h1 h2 h3 hne =>
    rw [validUtf8.eq_def] at ha
    simp only [h0, h1, h2, h3, if_true, if_false] at ha
    exact absurd ha (by simp)
  | case9 b0 rest h0 h1 h2 h3 =>
    rw [validUtf8.eq_def] at ha
    simp [h0, h1, h2, h3] at ha

/-! ### parseUntil / parseUntilNoNewline -/

theorem parseUntil_ok (p : UInt8 → Bool) (a r : Bytes) (hu : validUtf8 a = true)
    (ha : ∀ b ∈ a, p b = false) (hr : HeadSat p r) : parseUntil p (a ++ r) = some (a, r) := by
  unfold parseUntil
  simp only [spanUntil_append p a r ha hr, hu, if_true]

theorem parseUntil_some (p : UInt8 → Bool) (a r : Bytes)
    (ha : ∀ b ∈ a, p b = false) (hr : HeadSat p r) (x : Bytes × Bytes)
    (h : parseUntil p (a ++ r) = some x) : x = (a, r) := by
  unfold parseUntil at h
  simp only [spanUntil_append p a r ha hr] at h
  split at h <;> simp_all

/-- component followed by its (non-newline) delimiter -/
theorem pUNN_ok (p : UInt8 → Bool) (a : Bytes) (d : UInt8) (r : Bytes) (hu : validUtf8 a = true)
    (hn : ∀ b ∈ a, isNewline b = false) (ha : ∀ b ∈ a, p b = false)
    (hd : p d = true) (hdn : isNewline d = false) :
    parseUntilNoNewline p (a ++ d :: r) = some (a, d :: r) := by
  unfold parseUntilNoNewline
  rw [parseUntil_ok _ a (d :: r) hu (by intro b hb; simp [hn b hb, ha b hb])
    (HeadSat.cons _ d r (by simp [hd]))]
  simp [hdn]

/-- a component running into the end of the line: either an error, or (only at the end of
    the input) the component with nothing left -/
theorem pUNN_tail (p : UInt8 → Bool) (a tail : Bytes)
    (hn : ∀ b ∈ a, isNewline b = false) (ha : ∀ b ∈ a, p b = false)
    (ht : HeadSat isNewline tail) (x : Bytes × Bytes)
    (h : parseUntilNoNewline p (a ++ tail) = some x) : x = (a, []) := by
  unfold parseUntilNoNewline at h
  have hs : HeadSat (fun b => isNewline b || p b) tail := by
    intro b hb; simp [ht b hb]
  cases hp : parseUntil (fun b => isNewline b || p b) (a ++ tail) with
  | none => simp [hp] at h
  | some y =>
    have := parseUntil_some _ a tail (by intro b hb; simp [hn b hb, ha b hb]) hs y hp
    subst this
    rw [hp] at h
    cases tail with
    | nil => simpa using h.symm
    | cons c t =>
      have : isNewline c = true := ht c rfl
      simp [this] at h

/-! ### consumeNewlines / splitLine -/

theorem consumeNewlines_of_head_rt (bs : Bytes) (h : HeadSat (fun b => !isNewline b) bs) :
    consumeNewlines bs = bs := by
  unfold consumeNewlines
  cases bs with
  | nil => rfl
  | cons b bs =>
    have : isNewline b = false := by simpa using h b rfl
    simp [this]

theorem consumeNewlines_cons (b : UInt8) (bs : Bytes) (h : isNewline b = false) :
    consumeNewlines (b :: bs) = b :: bs := by
  simp [consumeNewlines, h]

theorem consumeNewlines_all (nls : Bytes) (h : ∀ b ∈ nls, isNewline b = true) :
    consumeNewlines nls = [] := dropWhile_all _ nls h

theorem consumeNewlines_append (nls r : Bytes) (h : ∀ b ∈ nls, isNewline b = true) :
    consumeNewlines (nls ++ r) = consumeNewlines r := by
  unfold consumeNewlines
  exact List.dropWhile_append_of_pos h

theorem splitLine_bad (bad tail : Bytes) (hb : ∀ b ∈ bad, isNewline b = false)
    (ht : HeadSat isNewline tail) :
    splitLine (bad ++ tail) = (bad ++ tail.take 1, tail.drop 1) := by
  unfold splitLine
  have hl : ∀ b ∈ bad, (!isNewline b) = true := by intro b h; simp [hb b h]
  have hr : ∀ b, tail.head? = some b → (!isNewline b) = false := by intro b h; simp [ht b h]
  rw [takeWhile_headStop _ bad tail hl hr, dropWhile_headStop _ bad tail hl hr]
  cases tail <;> simp

/-! ### numbers -/

theorem natDigitsRev_digits (f n : Nat) : ∀ b ∈ natDigitsRev f n, isDigit b = true := by
  induction f generalizing n with
  | zero => simp [natDigitsRev]
  | succ f ih =>
    intro b hb
    simp only [natDigitsRev, List.mem_cons] at hb
    rcases hb with hb | hb
    · subst hb
      have h1 : (48 + n % 10) < 256 := by omega
      simp only [isDigit, UInt8.le_iff_toNat_le, UInt8.toNat_ofNat', Bool.and_eq_true,
        decide_eq_true_eq]
      have : (48 + n % 10) % 256 = 48 + n % 10 := Nat.mod_eq_of_lt h1
      constructor
      · show 48 ≤ _
        simp only [Nat.reducePow]; omega
      · show _ ≤ 57
        simp only [Nat.reducePow]; omega
    · split at hb
      · simp at hb
      · exact ih _ b hb

theorem natDigitsRev_ne_nil_rt (f n : Nat) : natDigitsRev (f + 1) n ≠ [] := by
  simp [natDigitsRev]

theorem digitsToNat_snoc (ds : Bytes) (d : UInt8) :
    digitsToNat (ds ++ [d]) = digitsToNat ds * 10 + (d.toNat - 48) := by
  simp [digitsToNat, List.foldl_append]

theorem digitsToNat_natDigitsRev (f n : Nat) (h : n < f) :
    digitsToNat (natDigitsRev f n).reverse = n := by
  induction f generalizing n with
  | zero => omega
  | succ f ih =>
    simp only [natDigitsRev, List.reverse_cons]
    rw [digitsToNat_snoc]
    have h1 : (48 + n % 10) < 256 := by omega
    have h2 : (UInt8.ofNat (48 + n % 10)).toNat - 48 = n % 10 := by
      simp only [UInt8.toNat_ofNat', Nat.reducePow]
      omega
    rw [h2]
    split
    · rename_i h0
      simp [digitsToNat]
      omega
    · rename_i h0
      rw [ih (n / 10) (by omega)]
      omega

theorem natToDec_digits (n : Nat) : ∀ b ∈ natToDec n, isDigit b = true := by
  intro b hb
  unfold natToDec at hb
  exact natDigitsRev_digits _ _ b (by simpa using hb)

theorem natToDec_ne_nil_rt (n : Nat) : natToDec n ≠ [] := by
  unfold natToDec
  simp [natDigitsRev]

theorem digitsToNat_natToDec_rt (n : Nat) : digitsToNat (natToDec n) = n :=
  digitsToNat_natDigitsRev (n + 1) n (by omega)

theorem isDigit_numeric (b : UInt8) (h : isDigit b = true) : isNumericByte b = true := by
  simp [isNumericByte, h]

theorem isDigit_not_newline (b : UInt8) (h : isDigit b = true) : isNewline b = false := by
  simp only [isDigit, Bool.and_eq_true, decide_eq_true_eq] at h
  simp only [isNewline, Bool.or_eq_false_iff, beq_eq_false_iff_ne, ne_eq]
  constructor <;> intro e <;> subst e <;> revert h <;> decide

theorem natToDec_noNl (n : Nat) : ∀ b ∈ natToDec n, isNewline b = false :=
  fun b hb => isDigit_not_newline b (natToDec_digits n b hb)

/-- a printed number followed by something that does not start with a numeric byte -/
theorem parseUsize_natToDec (n : Nat) (r : Bytes) (hn : n < usizeBound)
    (hr : ∀ b, r.head? = some b → isNumericByte b = false) :
    parseUsize (natToDec n ++ r) = some (n, r) := by
  unfold parseUsize
  have hl : ∀ b ∈ natToDec n, isNumericByte b = true :=
    fun b hb => isDigit_numeric b (natToDec_digits n b hb)
  simp only [takeWhile_headStop _ _ r hl hr, dropWhile_headStop _ _ r hl hr]
  have h1 : (natToDec n).isEmpty = false := by
    cases h : natToDec n with
    | nil => exact absurd h (natToDec_ne_nil_rt n)
    | cons _ _ => rfl
  have h2 : (natToDec n).all isDigit = true := by
    simpa [List.all_eq_true] using natToDec_digits n
  simp [h1, h2, digitsToNat_natToDec_rt, hn]

/-- no number at the front -/
theorem parseUsize_none (r : Bytes) (hr : ∀ b, r.head? = some b → isNumericByte b = false) :
    parseUsize r = none := by
  unfold parseUsize
  have : r.takeWhile isNumericByte = [] := by
    cases r with
    | nil => rfl
    | cons b r => simp [hr b rfl]
  simp [this]

end PG
