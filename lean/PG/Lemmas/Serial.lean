/-
  PG.Lemmas.Serial — the byte layout of a written cache and its decoding:
  `Cache.parse (chunks.flatten) = ok (the same tables)`, the length law, rejection of every
  strict prefix, and the characterisation of `Cache.parse`'s decision sequence.
-/
import PG.Model.CacheRead
import PG.Lemmas.ListBasics
namespace PG

/-- everything that is stored in a `u32` fits, and the header's sums are the section lengths -/
structure Tables.Fits (t : Tables) : Prop where
  nc : t.classes.length < u32Bound
  nm : t.members.length < u32Bound
  nb : t.byParams.length < u32Bound
  sb : t.strings.length < u32Max
  cf : ∀ k ∈ t.classes, ∀ v ∈ k.fields, v < u32Bound
  mf : ∀ m ∈ t.members, ∀ v ∈ m.fields, v < u32Bound
  bf : ∀ m ∈ t.byParams, ∀ v ∈ m.fields, v < u32Bound
  msum : (t.classes.map (·.membersLen)).sum = t.members.length
  bsum : (t.classes.map (·.bpLen)).sum = t.byParams.length

def Cache.ofTables (t : Tables) : Cache :=
  ⟨t.classes.length, t.members.length, t.byParams.length, t.strings.length,
   t.classes, t.members, t.byParams, t.strings⟩

def Tables.bytes (t : Tables) : Bytes := t.chunks.flatten

/-- section boundaries implied by the four header counts -/
def endClasses (nc : Nat) : Nat := 24 + 28 * nc
def startMembers (nc : Nat) : Nat := endClasses nc + pad8 (endClasses nc)
def endMembers (nc nm : Nat) : Nat := startMembers nc + 36 * nm
def startBp (nc nm : Nat) : Nat := endMembers nc nm + pad8 (endMembers nc nm)
def endBp (nc nm nb : Nat) : Nat := startBp nc nm + 36 * nb
def startStrings (nc nm nb : Nat) : Nat := endBp nc nm nb + pad8 (endBp nc nm nb)
def impliedLength (nc nm nb sb : Nat) : Nat := startStrings nc nm nb + sb

theorem rd32_le32 (n : Nat) (h : n < u32Bound) (rest : Bytes) : rd32 (le32 n ++ rest) = some (n, rest) := by
  sorry

theorem rdFields_encFields (fs : List Nat) (h : ∀ v ∈ fs, v < u32Bound) (rest : Bytes) :
    rdFields fs.length (encFields fs ++ rest) = some (fs, rest) := by
  sorry

/-- the length of a written file is the length implied by its own header (C14) -/
theorem bytes_length (t : Tables) :
    t.bytes.length = impliedLength t.classes.length t.members.length t.byParams.length t.strings.length := by
  sorry

/-- decoding inverts encoding (C02 step 1, C09, C13) -/
theorem parse_bytes (t : Tables) (h : t.Fits) : Cache.parse t.bytes = .ok (Cache.ofTables t) := by
  sorry

/-- the decision sequence of `ProguardCache::parse`, in check order (C11): which error for
    which shortfall, with the exact numbers -/
theorem parse_characterised (buf : Bytes) :
    (buf.length < 24 → Cache.parse buf = .error .invalidHeader) ∧
    (∀ magic version nc nm nb sb rest, rdFields 6 buf = some ([magic, version, nc, nm, nb, sb], rest) →
      (magic = magicFlipped → Cache.parse buf = .error .wrongEndianness) ∧
      (magic ≠ magicFlipped → magic ≠ magicPRGC → Cache.parse buf = .error .wrongFormat) ∧
      (magic = magicPRGC → version ≠ cacheVersion → Cache.parse buf = .error .wrongVersion) ∧
      (magic = magicPRGC → version = cacheVersion →
        (buf.length < endClasses nc → Cache.parse buf = .error .invalidClasses) ∧
        (endClasses nc ≤ buf.length → buf.length < endMembers nc nm → Cache.parse buf = .error .invalidMembers) ∧
        (endMembers nc nm ≤ buf.length → buf.length < endBp nc nm nb → Cache.parse buf = .error .invalidMembers) ∧
        (endBp nc nm nb ≤ buf.length → buf.length < startStrings nc nm nb →
            Cache.parse buf = .error (.unexpectedStringBytes sb 0)) ∧
        (startStrings nc nm nb ≤ buf.length → buf.length < impliedLength nc nm nb sb →
            Cache.parse buf = .error (.unexpectedStringBytes sb (buf.length - startStrings nc nm nb))) ∧
        (impliedLength nc nm nb sb ≤ buf.length → ∃ c, Cache.parse buf = .ok c))) := by
  sorry

/-- every strict prefix of a written file (what a crash during writing can leave behind) is
    rejected (C11) -/
theorem parse_prefix_rejected (t : Tables) (h : t.Fits) (k : Nat) (hk : k < t.bytes.length) :
    ∃ e, Cache.parse (t.bytes.take k) = .error e := by
  sorry

end PG
