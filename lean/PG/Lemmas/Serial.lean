/-
  PG.Lemmas.Serial — the byte layout of a written cache and its decoding:
  `Cache.parse (chunks.flatten) = ok (the same tables)`, the length law, rejection of every
  strict prefix, and the characterisation of `Cache.parse`'s decision sequence.
-/
import PG.Model.CacheRead
import PG.Lemmas.ListBasics
namespace PG

/-- everything that is stored in a `u32` fits, and the header's sums are the section lengths -/
structure Tables.Fits (t : Tables) : Prop where
  nc : t.classes.length < u32Bound
  nm : t.members.length < u32Bound
  nb : t.byParams.length < u32Bound
  sb : t.strings.length < u32Max
  cf : ∀ k ∈ t.classes, ∀ v ∈ k.fields, v < u32Bound
  mf : ∀ m ∈ t.members, ∀ v ∈ m.fields, v < u32Bound
  bf : ∀ m ∈ t.byParams, ∀ v ∈ m.fields, v < u32Bound
  msum : (t.classes.map (·.membersLen)).sum = t.members.length
  bsum : (t.classes.map (·.bpLen)).sum = t.byParams.length

def Cache.ofTables (t : Tables) : Cache :=
  ⟨t.classes.length, t.members.length, t.byParams.length, t.strings.length,
   t.classes, t.members, t.byParams, t.strings⟩

def Tables.bytes (t : Tables) : Bytes := t.chunks.flatten

/-- section boundaries implied by the four header counts -/
def endClasses (nc : Nat) : Nat := 24 + 28 * nc
def startMembers (nc : Nat) : Nat := endClasses nc + pad8 (endClasses nc)
def endMembers (nc nm : Nat) : Nat := startMembers nc + 36 * nm
def startBp (nc nm : Nat) : Nat := endMembers nc nm + pad8 (endMembers nc nm)
def endBp (nc nm nb : Nat) : Nat := startBp nc nm + 36 * nb
def startStrings (nc nm nb : Nat) : Nat := endBp nc nm nb + pad8 (endBp nc nm nb)
def impliedLength (nc nm nb sb : Nat) : Nat := startStrings nc nm nb + sb

theorem rd32_le32 (n : Nat) (h : n < u32Bound) (rest : Bytes) : rd32 (le32 n ++ rest) = some (n, rest) := by
  simp only [le32, List.cons_append, List.nil_append, rd32, UInt8.toNat_ofNat']
  simp only [u32Bound] at h
  congr 2
  omega

theorem le32_length (n : Nat) : (le32 n).length = 4 := rfl

theorem encFields_cons (v : Nat) (fs : List Nat) : encFields (v :: fs) = le32 v ++ encFields fs := by
  simp [encFields]

theorem encFields_length (fs : List Nat) : (encFields fs).length = 4 * fs.length := by
  induction fs with
  | nil => rfl
  | cons v fs ih => rw [encFields_cons, List.length_append, ih, le32_length, List.length_cons]; omega

theorem rdFields_encFields (fs : List Nat) (h : ∀ v ∈ fs, v < u32Bound) (rest : Bytes) :
    rdFields fs.length (encFields fs ++ rest) = some (fs, rest) := by
  induction fs with
  | nil => rfl
  | cons v fs ih =>
    rw [encFields_cons, List.append_assoc, List.length_cons, rdFields,
      rd32_le32 _ (h v (List.mem_cons_self ..))]
    simp only
    rw [ih (fun x hx => h x (List.mem_cons_of_mem _ hx))]

theorem RawClass.enc_length (c : RawClass) : c.enc.length = 28 := by
  simp [RawClass.enc, encFields_length, RawClass.fields]

theorem RawMember.enc_length (c : RawMember) : c.enc.length = 36 := by
  simp [RawMember.enc, encFields_length, RawMember.fields]

theorem zeros_length (k : Nat) : (zeros k).length = k := by simp [zeros]

theorem classesEnc_length (cs : List RawClass) : (cs.map RawClass.enc).flatten.length = 28 * cs.length := by
  induction cs with
  | nil => rfl
  | cons c cs ih => simp only [List.map_cons, List.flatten_cons, List.length_append, ih,
      RawClass.enc_length, List.length_cons]; omega

theorem membersEnc_length (cs : List RawMember) : (cs.map RawMember.enc).flatten.length = 36 * cs.length := by
  induction cs with
  | nil => rfl
  | cons c cs ih => simp only [List.map_cons, List.flatten_cons, List.length_append, ih,
      RawMember.enc_length, List.length_cons]; omega

theorem RawClass.ofFields_fields' (c : RawClass) : RawClass.ofFields c.fields = some c := rfl
theorem RawMember.ofFields_fields' (c : RawMember) : RawMember.ofFields c.fields = some c := rfl

theorem rdClasses_enc (cs : List RawClass) (h : ∀ k ∈ cs, ∀ v ∈ k.fields, v < u32Bound) (rest : Bytes) :
    rdClasses cs.length ((cs.map RawClass.enc).flatten ++ rest) = some (cs, rest) := by
  induction cs with
  | nil => rfl
  | cons c cs ih =>
    have h7 : c.fields.length = 7 := rfl
    rw [List.map_cons, List.flatten_cons, List.append_assoc, List.length_cons, rdClasses,
      RawClass.enc, ← h7, rdFields_encFields _ (h c (List.mem_cons_self ..))]
    simp only
    rw [ih (fun x hx => h x (List.mem_cons_of_mem _ hx)), RawClass.ofFields_fields']

theorem rdMembers_enc (cs : List RawMember) (h : ∀ k ∈ cs, ∀ v ∈ k.fields, v < u32Bound) (rest : Bytes) :
    rdMembers cs.length ((cs.map RawMember.enc).flatten ++ rest) = some (cs, rest) := by
  induction cs with
  | nil => rfl
  | cons c cs ih =>
    have h9 : c.fields.length = 9 := rfl
    rw [List.map_cons, List.flatten_cons, List.append_assoc, List.length_cons, rdMembers,
      RawMember.enc, ← h9, rdFields_encFields _ (h c (List.mem_cons_self ..))]
    simp only
    rw [ih (fun x hx => h x (List.mem_cons_of_mem _ hx)), RawMember.ofFields_fields']

theorem bytes_eq (t : Tables) : t.bytes =
    encHeader t.classes.length (t.classes.map (·.membersLen)).sum (t.classes.map (·.bpLen)).sum
       t.strings.length ++ ((t.classes.map RawClass.enc).flatten ++
    (zeros (pad8 (28 * t.classes.length)) ++ ((t.members.map RawMember.enc).flatten ++
    (zeros (pad8 (36 * t.members.length)) ++ ((t.byParams.map RawMember.enc).flatten ++
    (zeros (pad8 (36 * t.byParams.length)) ++ t.strings)))))) := by
  have h24 : zeros (pad8 24) = [] := rfl
  simp only [Tables.bytes, Tables.chunks, membersEnc_length, h24, List.flatten_append,
    List.flatten_cons, List.flatten_nil, List.append_nil, List.nil_append,
    List.cons_append]

theorem encHeader_length (a b c d : Nat) : (encHeader a b c d).length = 24 := by
  simp [encHeader, encFields_length]

theorem pad8_24_add (x : Nat) : pad8 (24 + x) = pad8 x := by unfold pad8; omega

theorem pad8_aligned_add (a x : Nat) (h : a % 8 = 0) : pad8 (a + x) = pad8 x := by
  unfold pad8; omega

theorem add_pad8_mod (x : Nat) : (x + pad8 x) % 8 = 0 := by unfold pad8; omega

theorem startMembers_mod (nc : Nat) : startMembers nc % 8 = 0 := add_pad8_mod _
theorem startBp_mod (nc nm : Nat) : startBp nc nm % 8 = 0 := add_pad8_mod _
theorem startStrings_mod (nc nm nb : Nat) : startStrings nc nm nb % 8 = 0 := add_pad8_mod _

theorem startMembers_eq (nc : Nat) : startMembers nc = 24 + 28 * nc + pad8 (28 * nc) := by
  simp only [startMembers, endClasses, pad8_24_add]

theorem startBp_eq (nc nm : Nat) : startBp nc nm = startMembers nc + 36 * nm + pad8 (36 * nm) := by
  simp only [startBp, endMembers, pad8_aligned_add _ _ (startMembers_mod nc)]

theorem startStrings_eq (nc nm nb : Nat) :
    startStrings nc nm nb = startBp nc nm + 36 * nb + pad8 (36 * nb) := by
  simp only [startStrings, endBp, pad8_aligned_add _ _ (startBp_mod nc nm)]

/-- the length of a written file is the length implied by its own header (C14) -/
theorem bytes_length (t : Tables) :
    t.bytes.length = impliedLength t.classes.length t.members.length t.byParams.length t.strings.length := by
  rw [bytes_eq, impliedLength, startStrings_eq, startBp_eq, startMembers_eq]
  simp only [List.length_append, encHeader_length, classesEnc_length, membersEnc_length,
    zeros_length]
  omega

theorem asU32_of_lt (n : Nat) (h : n < u32Bound) : asU32 n = n := Nat.mod_eq_of_lt h

theorem rdFields_encHeader (a b c d : Nat) (rest : Bytes) :
    rdFields 6 (encHeader a b c d ++ rest) =
      some ([magicPRGC, cacheVersion, asU32 a, asU32 b, asU32 c, asU32 d], rest) := by
  have := rdFields_encFields [magicPRGC, cacheVersion, asU32 a, asU32 b, asU32 c, asU32 d]
    (by
      have hm : ∀ x, asU32 x < u32Bound := fun x => Nat.mod_lt _ (by decide)
      intro v hv
      simp only [List.mem_cons, List.not_mem_nil, or_false] at hv
      rcases hv with rfl | rfl | rfl | rfl | rfl | rfl
      · decide
      · decide
      all_goals exact hm _) rest
  exact this

theorem alignSkip_zeros (off k : Nat) (h : pad8 off = k) (rest : Bytes) :
    alignSkip off (zeros k ++ rest) = some rest := by
  subst h; simp [alignSkip, zeros]

/-- decoding inverts encoding (C02 step 1, C09, C13) -/
theorem parse_bytes (t : Tables) (h : t.Fits) : Cache.parse t.bytes = .ok (Cache.ofTables t) := by
  rw [bytes_eq, h.msum, h.bsum]
  unfold Cache.parse
  rw [rdFields_encHeader]
  have hsb : t.strings.length < u32Bound := by have := h.sb; simp only [u32Max, u32Bound] at *; omega
  rw [asU32_of_lt _ h.nc, asU32_of_lt _ h.nm, asU32_of_lt _ h.nb, asU32_of_lt _ hsb]
  have hA : alignSkip 24 = fun r => some r := by funext r; simp [alignSkip, pad8]
  have m1 : (magicPRGC == magicFlipped) = false := by decide
  have m2 : (magicPRGC != magicPRGC) = false := by decide
  have m3 : (cacheVersion != cacheVersion) = false := by decide
  have a1 := alignSkip_zeros (24 + 28 * t.classes.length) (pad8 (28 * t.classes.length))
    (pad8_24_add _)
  have a2 := alignSkip_zeros (24 + 28 * t.classes.length + pad8 (24 + 28 * t.classes.length)
    + 36 * t.members.length) (pad8 (36 * t.members.length))
    (pad8_aligned_add _ _ (startMembers_mod _))
  have a3 := alignSkip_zeros (24 + 28 * t.classes.length + pad8 (24 + 28 * t.classes.length)
    + 36 * t.members.length + pad8 (24 + 28 * t.classes.length + pad8 (24 + 28 * t.classes.length)
    + 36 * t.members.length) + 36 * t.byParams.length) (pad8 (36 * t.byParams.length))
    (pad8_aligned_add _ _ (startBp_mod _ _))
  simp only [hA, m1, m2, m3, Bool.false_eq_true, if_false, rdClasses_enc _ h.cf,
    rdMembers_enc _ h.mf, rdMembers_enc _ h.bf, a1, a2, a3]
  simp only [List.length_append, classesEnc_length, membersEnc_length]
  rw [if_neg (by omega), if_neg (by omega), if_neg (by omega), if_neg (by omega)]
  rfl

theorem rd32_none (bs : Bytes) (h : bs.length < 4) : rd32 bs = none := by
  match bs, h with
  | [], _ => rfl
  | [_], _ => rfl
  | [_, _], _ => rfl
  | [_, _, _], _ => rfl
  | _ :: _ :: _ :: _ :: _, h => simp at h; omega

theorem rd32_ok (bs : Bytes) (h : 4 ≤ bs.length) :
    ∃ v r, rd32 bs = some (v, r) ∧ r.length + 4 = bs.length := by
  match bs, h with
  | a :: b :: c :: d :: r, _ => exact ⟨_, r, rfl, by simp⟩
  | [], h => simp at h
  | [_], h => simp at h
  | [_, _], h => simp at h
  | [_, _, _], h => simp at h

theorem rdFields_none (n : Nat) (bs : Bytes) (h : bs.length < 4 * n) : rdFields n bs = none := by
  induction n generalizing bs with
  | zero => omega
  | succ n ih =>
    rw [rdFields]
    rcases Nat.lt_or_ge bs.length 4 with h4 | h4
    · rw [rd32_none _ h4]
    · obtain ⟨v, r, hr, hl⟩ := rd32_ok bs h4
      rw [hr]; simp only
      rw [ih r (by omega)]

theorem rdFields_len (n : Nat) (bs r : Bytes) (vs : List Nat) (h : rdFields n bs = some (vs, r)) :
    vs.length = n ∧ r.length + 4 * n = bs.length := by
  induction n generalizing bs vs with
  | zero =>
    simp only [rdFields, Option.some.injEq, Prod.mk.injEq] at h
    obtain ⟨rfl, rfl⟩ := h
    simp
  | succ n ih =>
    rw [rdFields] at h
    rcases Nat.lt_or_ge bs.length 4 with h4 | h4
    · rw [rd32_none _ h4] at h; cases h
    · obtain ⟨v, r1, hr, hl⟩ := rd32_ok bs h4
      rw [hr] at h; simp only at h
      split at h
      · cases h
      · next vs' r2 h2 =>
        simp only [Option.some.injEq, Prod.mk.injEq] at h
        obtain ⟨rfl, rfl⟩ := h
        obtain ⟨a, b⟩ := ih _ _ h2
        simp only [List.length_cons]; omega

theorem rdFields_ok (n : Nat) (bs : Bytes) (h : 4 * n ≤ bs.length) :
    ∃ vs r, rdFields n bs = some (vs, r) ∧ vs.length = n ∧ r.length + 4 * n = bs.length := by
  induction n generalizing bs with
  | zero => exact ⟨[], bs, rfl, rfl, by simp⟩
  | succ n ih =>
    obtain ⟨v, r1, hr, hl⟩ := rd32_ok bs (by omega)
    obtain ⟨vs, r2, h2, hv, hl2⟩ := ih r1 (by omega)
    refine ⟨v :: vs, r2, ?_, by simp [hv], by omega⟩
    rw [rdFields, hr]; simp only
    rw [h2]

theorem RawClass.ofFields_ok (fs : List Nat) (h : fs.length = 7) : ∃ c, RawClass.ofFields fs = some c := by
  match fs, h with
  | [a, b, c, d, e, f, g], _ => exact ⟨_, rfl⟩

theorem RawMember.ofFields_ok (fs : List Nat) (h : fs.length = 9) : ∃ c, RawMember.ofFields fs = some c := by
  match fs, h with
  | [a, b, c, d, e, f, g, h, i], _ => exact ⟨_, rfl⟩

theorem rdClasses_ok (n : Nat) (bs : Bytes) (h : 28 * n ≤ bs.length) :
    ∃ cs r, rdClasses n bs = some (cs, r) ∧ r.length + 28 * n = bs.length := by
  induction n generalizing bs with
  | zero => exact ⟨[], bs, rfl, by simp⟩
  | succ n ih =>
    obtain ⟨fs, r1, hr, hf, hl⟩ := rdFields_ok 7 bs (by omega)
    obtain ⟨c, hc⟩ := RawClass.ofFields_ok fs hf
    obtain ⟨cs, r2, h2, hl2⟩ := ih r1 (by omega)
    refine ⟨c :: cs, r2, ?_, by omega⟩
    rw [rdClasses, hr]; simp only
    rw [hc, h2]

theorem rdMembers_ok (n : Nat) (bs : Bytes) (h : 36 * n ≤ bs.length) :
    ∃ cs r, rdMembers n bs = some (cs, r) ∧ r.length + 36 * n = bs.length := by
  induction n generalizing bs with
  | zero => exact ⟨[], bs, rfl, by simp⟩
  | succ n ih =>
    obtain ⟨fs, r1, hr, hf, hl⟩ := rdFields_ok 9 bs (by omega)
    obtain ⟨c, hc⟩ := RawMember.ofFields_ok fs hf
    obtain ⟨cs, r2, h2, hl2⟩ := ih r1 (by omega)
    refine ⟨c :: cs, r2, ?_, by omega⟩
    rw [rdMembers, hr]; simp only
    rw [hc, h2]

theorem alignSkip_none (off : Nat) (rest : Bytes) (h : rest.length < pad8 off) :
    alignSkip off rest = none := by simp [alignSkip, h]

theorem alignSkip_ok (off : Nat) (rest : Bytes) (h : pad8 off ≤ rest.length) :
    ∃ r, alignSkip off rest = some r ∧ r.length + pad8 off = rest.length := by
  refine ⟨rest.drop (pad8 off), ?_, ?_⟩
  · simp only [alignSkip]; rw [if_neg (by omega)]
  · simp only [List.length_drop]; omega

/-- the decision sequence of `ProguardCache::parse`, in check order (C11): which error for
    which shortfall, with the exact numbers -/
theorem parse_characterised (buf : Bytes) :
    (buf.length < 24 → Cache.parse buf = .error .invalidHeader) ∧
    (∀ magic version nc nm nb sb rest, rdFields 6 buf = some ([magic, version, nc, nm, nb, sb], rest) →
      (magic = magicFlipped → Cache.parse buf = .error .wrongEndianness) ∧
      (magic ≠ magicFlipped → magic ≠ magicPRGC → Cache.parse buf = .error .wrongFormat) ∧
      (magic = magicPRGC → version ≠ cacheVersion → Cache.parse buf = .error .wrongVersion) ∧
      (magic = magicPRGC → version = cacheVersion →
        (buf.length < endClasses nc → Cache.parse buf = .error .invalidClasses) ∧
        (endClasses nc ≤ buf.length → buf.length < endMembers nc nm → Cache.parse buf = .error .invalidMembers) ∧
        (endMembers nc nm ≤ buf.length → buf.length < endBp nc nm nb → Cache.parse buf = .error .invalidMembers) ∧
        (endBp nc nm nb ≤ buf.length → buf.length < startStrings nc nm nb →
            Cache.parse buf = .error (.unexpectedStringBytes sb 0)) ∧
        (startStrings nc nm nb ≤ buf.length → buf.length < impliedLength nc nm nb sb →
            Cache.parse buf = .error (.unexpectedStringBytes sb (buf.length - startStrings nc nm nb))) ∧
        (impliedLength nc nm nb sb ≤ buf.length → ∃ c, Cache.parse buf = .ok c))) := by
  refine ⟨?_, ?_⟩
  · intro h
    unfold Cache.parse
    rw [rdFields_none 6 buf (by omega)]
  intro magic version nc nm nb sb rest h
  have hlen := (rdFields_len _ _ _ _ h).2
  generalize hP : Cache.parse buf = P
  unfold Cache.parse at hP
  rw [h] at hP
  simp only at hP
  refine ⟨?_, ?_, ?_, ?_⟩
  · intro hm
    rw [if_pos (by simp [hm])] at hP
    exact hP.symm
  · intro hm1 hm2
    rw [if_neg (by simp [hm1]), if_pos (by simp [hm2])] at hP
    exact hP.symm
  · intro hm hv
    subst hm
    rw [if_neg (by decide), if_neg (by decide), if_pos (by simp [hv])] at hP
    exact hP.symm
  intro hm hv
  subst hm; subst hv
  rw [if_neg (by decide), if_neg (by decide), if_neg (by decide)] at hP
  have hA : alignSkip 24 rest = some rest := by simp [alignSkip, pad8]
  rw [hA] at hP
  simp only at hP
  simp only [impliedLength, startStrings, endBp, startBp, endMembers, startMembers, endClasses]
  -- classes
  rcases Nat.lt_or_ge rest.length (28 * nc) with c1 | c1
  · rw [if_pos c1] at hP
    refine ⟨?_, ?_, ?_, ?_, ?_, ?_⟩ <;> intros <;> first | exact hP.symm | omega
  rw [if_neg (by omega)] at hP
  obtain ⟨cs, r2, h2, l2⟩ := rdClasses_ok nc rest c1
  rw [h2] at hP; simp only at hP
  rcases Nat.lt_or_ge r2.length (pad8 (24 + 28 * nc)) with c2 | c2
  · rw [alignSkip_none _ _ c2] at hP; simp only at hP
    refine ⟨?_, ?_, ?_, ?_, ?_, ?_⟩ <;> intros <;> first | exact hP.symm | omega
  obtain ⟨r3, h3, l3⟩ := alignSkip_ok _ _ c2
  rw [h3] at hP; simp only at hP
  -- members
  rcases Nat.lt_or_ge r3.length (36 * nm) with c3 | c3
  · rw [if_pos c3] at hP
    refine ⟨?_, ?_, ?_, ?_, ?_, ?_⟩ <;> intros <;> first | exact hP.symm | omega
  rw [if_neg (by omega)] at hP
  obtain ⟨ms, r4, h4, l4⟩ := rdMembers_ok nm r3 c3
  rw [h4] at hP; simp only at hP
  rcases Nat.lt_or_ge r4.length (pad8 (24 + 28 * nc + pad8 (24 + 28 * nc) + 36 * nm)) with c4 | c4
  · rw [alignSkip_none _ _ c4] at hP; simp only at hP
    refine ⟨?_, ?_, ?_, ?_, ?_, ?_⟩ <;> intros <;> first | exact hP.symm | omega
  obtain ⟨r5, h5, l5⟩ := alignSkip_ok _ _ c4
  rw [h5] at hP; simp only at hP
  -- by-params
  rcases Nat.lt_or_ge r5.length (36 * nb) with c5 | c5
  · rw [if_pos c5] at hP
    refine ⟨?_, ?_, ?_, ?_, ?_, ?_⟩ <;> intros <;> first | exact hP.symm | omega
  rw [if_neg (by omega)] at hP
  obtain ⟨bps, r6, h6, l6⟩ := rdMembers_ok nb r5 c5
  rw [h6] at hP; simp only at hP
  rcases Nat.lt_or_ge r6.length (pad8 (24 + 28 * nc + pad8 (24 + 28 * nc) + 36 * nm +
      pad8 (24 + 28 * nc + pad8 (24 + 28 * nc) + 36 * nm) + 36 * nb)) with c6 | c6
  · rw [alignSkip_none _ _ c6] at hP; simp only at hP
    refine ⟨?_, ?_, ?_, ?_, ?_, ?_⟩ <;> intros <;> first | exact hP.symm | omega
  obtain ⟨r7, h7, l7⟩ := alignSkip_ok _ _ c6
  rw [h7] at hP; simp only at hP
  -- strings
  rcases Nat.lt_or_ge r7.length sb with c7 | c7
  · rw [if_pos c7] at hP
    refine ⟨?_, ?_, ?_, ?_, ?_, ?_⟩ <;> intros <;> first | omega | skip
    rw [← hP]
    congr 2
    omega
  · rw [if_neg (by omega)] at hP
    refine ⟨?_, ?_, ?_, ?_, ?_, ?_⟩ <;> intros <;> first | omega | exact ⟨_, hP.symm⟩

/-- every strict prefix of a written file (what a crash during writing can leave behind) is
    rejected (C11) -/
theorem parse_prefix_rejected (t : Tables) (h : t.Fits) (k : Nat) (hk : k < t.bytes.length) :
    ∃ e, Cache.parse (t.bytes.take k) = .error e := by
  have hpl : (t.bytes.take k).length = k := by rw [List.length_take]; omega
  obtain ⟨c0, c1⟩ := parse_characterised (t.bytes.take k)
  rcases Nat.lt_or_ge k 24 with h24 | h24
  · exact ⟨_, c0 (by omega)⟩
  have hsb : t.strings.length < u32Bound := by have := h.sb; simp only [u32Max, u32Bound] at *; omega
  rw [bytes_length] at hk
  have hhdr : ∃ rest, rdFields 6 (t.bytes.take k) = some ([magicPRGC, cacheVersion,
      t.classes.length, t.members.length, t.byParams.length, t.strings.length], rest) := by
    rw [bytes_eq, h.msum, h.bsum, List.take_append, encHeader_length,
      List.take_of_length_le (by rw [encHeader_length]; exact h24), rdFields_encHeader,
      asU32_of_lt _ h.nc, asU32_of_lt _ h.nm, asU32_of_lt _ h.nb, asU32_of_lt _ hsb]
    exact ⟨_, rfl⟩
  obtain ⟨rest, hrest⟩ := hhdr
  obtain ⟨-, -, -, c2⟩ := c1 _ _ _ _ _ _ _ hrest
  obtain ⟨d1, d2, d3, d4, d5, -⟩ := c2 rfl rfl
  rw [hpl] at d1 d2 d3 d4 d5
  rcases Nat.lt_or_ge k (endClasses t.classes.length) with e1 | e1
  · exact ⟨_, d1 e1⟩
  rcases Nat.lt_or_ge k (endMembers t.classes.length t.members.length) with e2 | e2
  · exact ⟨_, d2 e1 e2⟩
  rcases Nat.lt_or_ge k (endBp t.classes.length t.members.length t.byParams.length) with e3 | e3
  · exact ⟨_, d3 e2 e3⟩
  rcases Nat.lt_or_ge k (startStrings t.classes.length t.members.length t.byParams.length) with e4 | e4
  · exact ⟨_, d4 e3 e4⟩
  exact ⟨_, d5 e4 hk⟩

end PG
