/-
  PG.Lemmas.PinnedL — the pinned (5.5.0) reader model against the current one (for C10).
-/
import PG.Model.Pinned
import PG.Lemmas.Reader
namespace PG

theorem uncheckedLine_some (os line start v : Nat)
    (h : Pinned.uncheckedLine os line start = some v) : satAdd os line - start = v := by
  unfold Pinned.uncheckedLine at h
  unfold satAdd
  split at h
  · cases h
  · split at h
    · cases h
    · cases h
      rw [if_pos (by omega)]

theorem pinned_lineFrame_some (c : Cache) (f : Frame) (m : RawMember) (x : Option Frame)
    (h : Pinned.lineFrame c f m = some x) : c.lineFrame f m = x := by
  unfold Pinned.lineFrame at h
  unfold Cache.lineFrame
  split at h
  · rename_i hcond
    rw [if_pos hcond]
    cases h; rfl
  · rename_i hcond
    rw [if_neg hcond]
    revert h
    cases hFo : c.str m.origFileOff <;> intro h <;> dsimp only at h ⊢
    all_goals
      by_cases hb : (m.origEndline == u32Max || m.origEndline == m.origStartline) = true
      · simp only [hb, if_true] at h ⊢
        split at h
        · rename_i hF hN
          rw [hF, hN]; simpa using h
        · rename_i hno
          split
          · rename_i hF hN
            exact absurd hN (hno _ _ hF)
          · simpa using h
      · simp only [hb] at h ⊢
        cases hu : Pinned.uncheckedLine m.origStartline f.line m.startline with
        | none => simp [hu] at h
        | some v =>
          have hv := uncheckedLine_some _ _ _ _ hu
          simp only [hu, Bool.false_eq_true, if_false] at h
          simp only [hv, Bool.false_eq_true, if_false]
          split at h
          · rename_i hF hN
            rw [hF, hN]; simpa using h
          · rename_i hno
            split
            · rename_i hF hN
              exact absurd hN (hno _ _ hF)
            · simpa using h

theorem pinned_lineFrames_some (c : Cache) (f : Frame) (ms : List RawMember) (a : List Frame)
    (h : Pinned.lineFrames c f ms = some a) : ms.filterMap (c.lineFrame f) = a := by
  induction ms generalizing a with
  | nil => simp [Pinned.lineFrames] at h; simp [h]
  | cons m ms ih =>
    unfold Pinned.lineFrames at h
    cases h1 : Pinned.lineFrame c f m with
    | none => simp [h1] at h
    | some r =>
      cases h2 : Pinned.lineFrames c f ms with
      | none => simp [h1, h2] at h
      | some rest =>
        simp only [h1, h2, Option.some.injEq] at h
        have e1 := pinned_lineFrame_some c f m r h1
        have e2 := ih rest h2
        rw [List.filterMap_cons, e1, e2]
        cases r <;> simp_all

theorem pinned_remapFrame_some (c : Cache) (q : Frame) (a : List Frame)
    (h : Pinned.remapFrame c q = some a) : c.remapFrame q = a := by
  unfold Pinned.remapFrame at h
  unfold Cache.remapFrame
  revert h
  cases c.getClass q.cls with
  | none => intro h; simpa using h
  | some k =>
    dsimp only
    cases c.str k.origOff with
    | none => intro h; simpa using h
    | some orig =>
      dsimp only
      cases q.params with
      | some p =>
        dsimp only
        cases c.classByParams k with
        | none => intro h; simpa using h
        | some ms =>
          dsimp only
          cases findRange ms (fun m => c.cmpNameParams m q.method p) with
          | none => intro h; simpa using h
          | some r => intro h; simpa using h
      | none =>
        dsimp only
        cases c.classMembers k with
        | none => intro h; simpa using h
        | some ms =>
          dsimp only
          cases findRange ms (fun m => c.cmpName m.obfOff q.method) with
          | none => intro h; simpa using h
          | some r =>
            intro h
            exact pinned_lineFrames_some c _ r a h

/-! ### absence of faults -/

theorem pinned_lineFrame_ok (c : Cache) (f : Frame) (m : RawMember)
    (h1 : m.origStartline < u32Bound) (h2 : m.endline < u32Bound)
    (h3 : m.endline = 0 → m.origEndline = u32Max ∨ m.origEndline = m.origStartline) :
    ∃ r, Pinned.lineFrame c f m = some r := by
  unfold Pinned.lineFrame
  split
  · exact ⟨_, rfl⟩
  · rename_i hcond
    have hline : ∃ v, (if (m.origEndline == u32Max || m.origEndline == m.origStartline) = true
        then some m.origStartline
        else Pinned.uncheckedLine m.origStartline f.line m.startline) = some v := by
      split
      · exact ⟨_, rfl⟩
      · rename_i hb
        have he : m.endline > 0 := by
          rcases Nat.eq_zero_or_pos m.endline with h0 | h0
          · exfalso; apply hb
            rcases h3 h0 with h | h <;> simp [h]
          · exact h0
        simp only [he, decide_true, Bool.true_and, Bool.or_eq_true, decide_eq_true_eq, not_or,
          Nat.not_lt] at hcond
        unfold Pinned.uncheckedLine
        have : m.origStartline + f.line < usizeBound := by
          simp only [usizeBound, u32Bound] at *; omega
        rw [if_neg (by omega), if_neg (by omega)]
        exact ⟨_, rfl⟩
    obtain ⟨v, hv⟩ := hline
    rw [hv]
    dsimp only
    split <;> exact ⟨_, rfl⟩

theorem pinned_lineFrames_ok (c : Cache) (f : Frame) (ms : List RawMember)
    (h : ∀ m ∈ ms, ∃ r, Pinned.lineFrame c f m = some r) :
    ∃ a, Pinned.lineFrames c f ms = some a := by
  induction ms with
  | nil => exact ⟨_, rfl⟩
  | cons m ms ih =>
    obtain ⟨r, hr⟩ := h m (List.mem_cons_self)
    obtain ⟨a, ha⟩ := ih (fun x hx => h x (List.mem_cons_of_mem _ hx))
    unfold Pinned.lineFrames
    rw [hr, ha]
    exact ⟨_, rfl⟩

theorem pinned_remapFrame_ok (c : Cache) (q : Frame)
    (hc : ∀ m ∈ c.members, m.origStartline < u32Bound ∧ m.endline < u32Bound ∧
      (m.endline = 0 → m.origEndline = u32Max ∨ m.origEndline = m.origStartline)) :
    ∃ a, Pinned.remapFrame c q = some a := by
  unfold Pinned.remapFrame
  cases c.getClass q.cls with
  | none => exact ⟨_, rfl⟩
  | some k =>
    dsimp only
    cases c.str k.origOff with
    | none => exact ⟨_, rfl⟩
    | some orig =>
      dsimp only
      cases q.params with
      | some p =>
        dsimp only
        cases c.classByParams k with
        | none => exact ⟨_, rfl⟩
        | some ms =>
          dsimp only
          cases findRange ms (fun m => c.cmpNameParams m q.method p) with
          | none => exact ⟨_, rfl⟩
          | some r => exact ⟨_, rfl⟩
      | none =>
        dsimp only
        cases hms : c.classMembers k with
        | none => exact ⟨_, rfl⟩
        | some ms =>
          dsimp only
          cases hr : findRange ms (fun m => c.cmpName m.obfOff q.method) with
          | none => exact ⟨_, rfl⟩
          | some r =>
            dsimp only
            apply pinned_lineFrames_ok
            intro m hm
            have hsub : m ∈ c.members :=
              (sliceOf_infix _ _ _ _ hms).subset ((findRange_slice _ _ _ hr).1.subset hm)
            obtain ⟨a1, a2, a3⟩ := hc m hsub
            exact pinned_lineFrame_ok c _ m a1 a2 a3

end PG
