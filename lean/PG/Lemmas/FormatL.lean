import PG.Spec.Format
import PG.Lemmas.WriterInv
namespace PG
namespace FL
open WI SpecR

/-! ### words and records -/

theorem u32_le32 (n : Nat) (h : n < u32Bound) (rest : Bytes) : Format.u32 (le32 n ++ rest) = some n := by
  simp only [le32, List.cons_append, List.nil_append, Format.u32, List.take_succ_cons, List.take_zero,
    UInt8.toNat_ofNat']
  simp only [u32Bound] at h
  congr 1
  omega

theorem words_enc (fs : List Nat) (h : ∀ v ∈ fs, v < u32Bound) (rest : Bytes) :
    Format.words fs.length (encFields fs ++ rest) = some fs := by
  induction fs with
  | nil => rfl
  | cons v fs ih =>
    rw [encFields_cons, List.append_assoc, List.length_cons, Format.words,
      u32_le32 _ (h v (List.mem_cons_self ..))]
    have : (le32 v ++ (encFields fs ++ rest)).drop 4 = encFields fs ++ rest := by
      rw [List.drop_left' (le32_length v)]
    rw [this, ih (fun x hx => h x (List.mem_cons_of_mem _ hx))]

theorem recordsOf_enc (k : Nat) (l : List (List Nat)) (hk : ∀ fs ∈ l, fs.length = k)
    (h : ∀ fs ∈ l, ∀ v ∈ fs, v < u32Bound) (rest : Bytes) :
    Format.recordsOf k l.length ((l.map encFields).flatten ++ rest) = some l := by
  induction l with
  | nil => rfl
  | cons fs l ih =>
    have hfs := hk fs (List.mem_cons_self ..)
    rw [List.map_cons, List.flatten_cons, List.append_assoc, List.length_cons, Format.recordsOf]
    have h1 : Format.words k (encFields fs ++ ((l.map encFields).flatten ++ rest)) = some fs := by
      rw [← hfs]; exact words_enc fs (h fs (List.mem_cons_self ..)) _
    have h2 : (encFields fs ++ ((l.map encFields).flatten ++ rest)).drop (4 * k) =
        (l.map encFields).flatten ++ rest := by
      rw [List.drop_left' (by rw [encFields_length, hfs])]
    rw [h1, h2, ih (fun x hx => hk x (List.mem_cons_of_mem _ hx))
      (fun x hx => h x (List.mem_cons_of_mem _ hx))]

theorem recordsOf_classes (cs : List RawClass) (h : ∀ k ∈ cs, ∀ v ∈ k.fields, v < u32Bound)
    (rest : Bytes) :
    Format.recordsOf 7 cs.length ((cs.map RawClass.enc).flatten ++ rest) = some (cs.map (·.fields)) := by
  have := recordsOf_enc 7 (cs.map (·.fields))
    (by intro fs hfs; obtain ⟨c, _, rfl⟩ := List.mem_map.1 hfs; rfl)
    (by intro fs hfs; obtain ⟨c, hc, rfl⟩ := List.mem_map.1 hfs; exact h c hc) rest
  rw [List.length_map, List.map_map] at this
  exact this

theorem recordsOf_members (cs : List RawMember) (h : ∀ k ∈ cs, ∀ v ∈ k.fields, v < u32Bound)
    (rest : Bytes) :
    Format.recordsOf 9 cs.length ((cs.map RawMember.enc).flatten ++ rest) = some (cs.map (·.fields)) := by
  have := recordsOf_enc 9 (cs.map (·.fields))
    (by intro fs hfs; obtain ⟨c, _, rfl⟩ := List.mem_map.1 hfs; rfl)
    (by intro fs hfs; obtain ⟨c, hc, rfl⟩ := List.mem_map.1 hfs; exact h c hc) rest
  rw [List.length_map, List.map_map] at this
  exact this

/-! ### LEB128 and strings -/

theorem leb_lebWriteFuel (fuel n : Nat) (h : n < 128 ^ fuel) (hf : 0 < fuel) (r : Bytes) :
    Format.leb fuel (lebWriteFuel fuel n ++ r) = some (n, r) := by
  induction fuel generalizing n with
  | zero => omega
  | succ fuel ih =>
    unfold lebWriteFuel
    split
    · rename_i h0
      have hn : n < 128 := by omega
      have : (UInt8.ofNat (n % 128)).toNat = n := by rw [UInt8.toNat_ofNat']; omega
      simp only [List.cons_append, List.nil_append, Format.leb, this, hn, if_true]
    · rename_i h0
      have htn : (UInt8.ofNat (n % 128 + 128)).toNat = n % 128 + 128 := by
        rw [UInt8.toNat_ofNat']; omega
      have hlt : ¬ (n % 128 + 128 < 128) := by omega
      have hq : n / 128 < 128 ^ fuel := by
        rw [Nat.pow_succ] at h
        exact Nat.div_lt_of_lt_mul (by rw [Nat.mul_comm]; exact h)
      have hf' : 0 < fuel := by
        rcases Nat.eq_zero_or_pos fuel with rfl | h'
        · simp at hq; omega
        · exact h'
      simp only [List.cons_append, Format.leb, htn, hlt, if_false, ih _ hq hf']
      congr 2
      omega

theorem leb_lebWrite (n : Nat) (h : n < usizeBound) (r : Bytes) :
    Format.leb 10 (lebWrite n ++ r) = some (n, r) := by
  apply leb_lebWriteFuel _ _ _ (by decide)
  simp only [usizeBound] at h
  have : (128 : Nat) ^ 10 = 1180591620717411303424 := by decide
  omega

theorem strAt_at (pre s post : Bytes) (hs : validUtf8 s = true) (hl : s.length < usizeBound) :
    Format.strAt (pre ++ (lebWrite s.length ++ s) ++ post) pre.length = some s := by
  have hne : 0 < (lebWrite s.length).length := List.length_pos_iff.2 (lebWrite_ne_nil _)
  unfold Format.strAt
  rw [if_neg (by simp only [List.length_append]; omega)]
  have h2 : (pre ++ (lebWrite s.length ++ s) ++ post).drop pre.length
      = lebWrite s.length ++ (s ++ post) := by
    rw [List.append_assoc, List.drop_left, List.append_assoc]
  rw [h2, leb_lebWrite _ hl]
  simp only [List.take_left, hs, List.length_append, and_true]
  rw [if_pos (by omega)]

theorem strAt_inTab (T : StrTab) (h : TabOK T) (hsb : T.bytes.length < u32Max) (s : Bytes)
    (hin : InTab T s) : Format.strAt T.bytes (off T s) = some s ∧ off T s ≠ Format.absent := by
  obtain ⟨o, ho⟩ := hin
  obtain ⟨pre, post, e1, e2, e3, e4⟩ := h.shape s o ho
  obtain ⟨_, hlt, _⟩ := h.inv.reads s o ho
  have ho32 : o < u32Bound := by simp only [u32Max, u32Bound] at *; omega
  have e : off T s = o := by rw [off_of_mem T h.inv s o ho]; exact asU32_of_lt o ho32
  rw [e]
  refine ⟨?_, ?_⟩
  · rw [e1, ← e2]; exact strAt_at pre s post e3 e4
  · simp only [Format.absent, u32Max] at *; omega


/-! ### orders, chains -/

theorem lexLt_iff (a b : Bytes) : Format.lexLt a b = true ↔ cmpBytes a b = .lt := by
  induction a generalizing b with
  | nil => cases b <;> simp [Format.lexLt, cmpBytes]
  | cons x xs ih =>
    cases b with
    | nil => simp [Format.lexLt, cmpBytes]
    | cons y ys =>
      rw [cmpBytes_cons_lt, ← ih]
      simp [Format.lexLt]

theorem lexLe_iff (a b : Bytes) : Format.lexLe a b = true ↔ cmpBytes a b ≠ .gt := by
  have H := cmpBytes_strictOrd
  unfold Format.lexLe
  rw [Bool.or_eq_true, lexLt_iff, beq_iff_eq, ← H.eq_iff]
  cases cmpBytes a b <;> simp

theorem chain_of_pairwise {α : Type} (r : α → α → Bool) (l : List α)
    (h : l.Pairwise (fun a b => r a b = true)) : Format.chain r l = true := by
  induction l with
  | nil => rfl
  | cons a l ih =>
    cases l with
    | nil => rfl
    | cons b rest =>
      rw [List.pairwise_cons] at h
      simp only [Format.chain, Bool.and_eq_true]
      exact ⟨h.1 b (List.mem_cons_self ..), ih h.2⟩

/-! ### decoding a written file -/

def decOf (t : Tables) : Format.Decoded :=
  { magic := [80, 82, 71, 67], version := 1, numClasses := t.classes.length,
    numMembers := t.members.length, numByParams := t.byParams.length,
    stringBytes := t.strings.length, classes := t.classes.map (·.fields),
    members := t.members.map (·.fields), byParams := t.byParams.map (·.fields),
    padding := zeros (pad8 (28 * t.classes.length)) ++ zeros (pad8 (36 * t.members.length)) ++
      zeros (pad8 (36 * t.byParams.length)),
    strings := t.strings }

theorem drop_pre {α : Type} (pre X : List α) (n : Nat) (h : pre.length = n) : (pre ++ X).drop n = X := by
  subst h; exact List.drop_left

theorem drop_take_pre {α : Type} (pre mid X : List α) (n k : Nat) (h : pre.length = n)
    (hk : mid.length = k) : ((pre ++ (mid ++ X)).drop n).take k = mid := by
  subst h; subst hk; rw [List.drop_left, List.take_left]

theorem drop2 {α : Type} (A B X : List α) (n : Nat) (h : A.length + B.length = n) :
    (A ++ (B ++ X)).drop n = X := by
  rw [← List.append_assoc]; exact drop_pre _ _ _ (by simp only [List.length_append]; omega)

theorem drop3 {α : Type} (A B C X : List α) (n : Nat) (h : A.length + B.length + C.length = n) :
    (A ++ (B ++ (C ++ X))).drop n = X := by
  rw [← List.append_assoc]; exact drop2 _ _ _ _ (by simp only [List.length_append]; omega)

theorem drop4 {α : Type} (A B C D X : List α) (n : Nat)
    (h : A.length + B.length + C.length + D.length = n) :
    (A ++ (B ++ (C ++ (D ++ X)))).drop n = X := by
  rw [← List.append_assoc]; exact drop3 _ _ _ _ _ (by simp only [List.length_append]; omega)

theorem drop5 {α : Type} (A B C D E X : List α) (n : Nat)
    (h : A.length + B.length + C.length + D.length + E.length = n) :
    (A ++ (B ++ (C ++ (D ++ (E ++ X))))).drop n = X := by
  rw [← List.append_assoc]; exact drop4 _ _ _ _ _ _ (by simp only [List.length_append]; omega)

theorem drop6 {α : Type} (A B C D E F X : List α) (n : Nat)
    (h : A.length + B.length + C.length + D.length + E.length + F.length = n) :
    (A ++ (B ++ (C ++ (D ++ (E ++ (F ++ X)))))).drop n = X := by
  rw [← List.append_assoc]; exact drop5 _ _ _ _ _ _ _ (by simp only [List.length_append]; omega)

theorem drop7 {α : Type} (A B C D E F G X : List α) (n : Nat)
    (h : A.length + B.length + C.length + D.length + E.length + F.length + G.length = n) :
    (A ++ (B ++ (C ++ (D ++ (E ++ (F ++ (G ++ X))))))).drop n = X := by
  rw [← List.append_assoc]; exact drop6 _ _ _ _ _ _ _ _ (by simp only [List.length_append]; omega)

theorem decode_bytes (t : Tables) (h : t.Fits) : Format.decode t.bytes = some (decOf t) := by
  have hlen := bytes_length t
  rw [bytes_eq, h.msum, h.bsum] at hlen ⊢
  have hsb : t.strings.length < u32Bound := by have := h.sb; simp only [u32Max, u32Bound] at *; omega
  have hmag : ∀ rest : Bytes, (encHeader t.classes.length t.members.length t.byParams.length
      t.strings.length ++ rest).take 4 = [80, 82, 71, 67] := by
    intro rest
    simp [encHeader, encFields, le32, magicPRGC]
  have hrc := recordsOf_classes t.classes h.cf
  have hrm := recordsOf_members t.members h.mf
  have hrb := recordsOf_members t.byParams h.bf
  generalize hH : encHeader t.classes.length t.members.length t.byParams.length t.strings.length = H at *
  generalize hCs : (t.classes.map RawClass.enc).flatten = Cs at *
  generalize hMs : (t.members.map RawMember.enc).flatten = Ms at *
  generalize hBs : (t.byParams.map RawMember.enc).flatten = Bs at *
  have lH : H.length = 24 := by rw [← hH]; exact encHeader_length _ _ _ _
  have lC : Cs.length = 28 * t.classes.length := by rw [← hCs]; exact classesEnc_length _
  have lM : Ms.length = 36 * t.members.length := by rw [← hMs]; exact membersEnc_length _
  have lB : Bs.length = 36 * t.byParams.length := by rw [← hBs]; exact membersEnc_length _
  have hw : ∀ rest, Format.words 6 (H ++ rest) = some [magicPRGC, cacheVersion, t.classes.length,
      t.members.length, t.byParams.length, t.strings.length] := by
    intro rest
    rw [← hH]
    have := words_enc [magicPRGC, cacheVersion, asU32 t.classes.length, asU32 t.members.length,
      asU32 t.byParams.length, asU32 t.strings.length] (by
        have hm : ∀ x, asU32 x < u32Bound := fun x => Nat.mod_lt _ (by decide)
        intro v hv
        simp only [List.mem_cons, List.not_mem_nil, or_false] at hv
        rcases hv with rfl | rfl | rfl | rfl | rfl | rfl
        · decide
        · decide
        all_goals exact hm _) rest
    rw [asU32_of_lt _ h.nc, asU32_of_lt _ h.nm, asU32_of_lt _ h.nb, asU32_of_lt _ hsb] at this
    unfold encHeader
    rw [asU32_of_lt _ h.nc, asU32_of_lt _ h.nm, asU32_of_lt _ h.nb, asU32_of_lt _ hsb]
    exact this
  have p1 : Format.padLen (24 + 28 * t.classes.length) = pad8 (28 * t.classes.length) := pad8_24_add _
  have hmS : (24 + 28 * t.classes.length + pad8 (28 * t.classes.length)) % 8 = 0 := by
    unfold pad8; omega
  have p2 : Format.padLen (24 + 28 * t.classes.length + pad8 (28 * t.classes.length) +
      36 * t.members.length) = pad8 (36 * t.members.length) := pad8_aligned_add _ _ hmS
  have hbS : (24 + 28 * t.classes.length + pad8 (28 * t.classes.length) +
      36 * t.members.length + pad8 (36 * t.members.length)) % 8 = 0 := by
    unfold pad8 at *; omega
  have p3 : Format.padLen (24 + 28 * t.classes.length + pad8 (28 * t.classes.length) +
      36 * t.members.length + pad8 (36 * t.members.length) + 36 * t.byParams.length) =
      pad8 (36 * t.byParams.length) := pad8_aligned_add _ _ hbS
  unfold Format.decode
  rw [hw]
  simp only [p1, p2, p3]
  rw [if_neg (not_not_intro (by
    rw [hlen]
    simp only [impliedLength, startStrings_eq, startBp_eq, startMembers_eq]))]
  have lZ := zeros_length
  rw [drop_pre _ _ _ lH, hrc,
    drop3 _ _ _ _ _ (by rw [lH, lC, lZ]), hrm,
    drop5 _ _ _ _ _ _ _ (by rw [lH, lC, lZ, lM, lZ]), hrb]
  simp only [hmag]
  rw [drop2 _ _ _ _ (by rw [lH, lC]), List.take_left' (lZ _),
    drop4 _ _ _ _ _ _ (by rw [lH, lC, lZ, lM]), List.take_left' (lZ _),
    drop6 _ _ _ _ _ _ _ _ (by rw [lH, lC, lZ, lM, lZ, lB]), List.take_left' (lZ _),
    drop7 _ _ _ _ _ _ _ _ _ (by rw [lH, lC, lZ, lM, lZ, lB, lZ])]
  rfl


theorem check_ok (file : Bytes) (d : Format.Decoded) (h1 : Format.decode file = some d)
    (h2 : Format.WF d = true) : Format.check file = "ok" := by
  unfold Format.check
  rw [h1]
  show (if Format.WF d = true then "ok" else "ill-formed") = "ok"
  rw [if_pos h2]

end FL
end PG
