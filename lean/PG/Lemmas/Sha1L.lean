/-
  PG.Lemmas.Sha1L — structural facts about the SHA-1 / UUIDv5 model used by C18.
-/
import PG.Model.Sha1
namespace PG

theorem be32Bytes_length (x : UInt32) : (be32Bytes x).length = 4 := rfl

theorem be64Bytes_length (n : Nat) : (be64Bytes n).length = 8 := rfl

theorem sha1Pad_length (msg : Bytes) :
    (sha1Pad msg).length = msg.length + 1 + (119 - msg.length % 64) % 64 + 8 := by
  simp only [sha1Pad, List.length_append, List.length_cons, List.length_nil, List.length_replicate,
    be64Bytes_length]

theorem sha1_length (msg : Bytes) : (sha1 msg).length = 20 := by
  simp [sha1, be32Bytes_length]

theorem list_length16 {α : Type} (l : List α) (h : l.length = 16) :
    ∃ b0 b1 b2 b3 b4 b5 b6 b7 b8 b9 b10 b11 b12 b13 b14 b15 : α,
      l = [b0, b1, b2, b3, b4, b5, b6, b7, b8, b9, b10, b11, b12, b13, b14, b15] := by
  match l, h with
  | [b0, b1, b2, b3, b4, b5, b6, b7, b8, b9, b10, b11, b12, b13, b14, b15], _ =>
    exact ⟨b0, b1, b2, b3, b4, b5, b6, b7, b8, b9, b10, b11, b12, b13, b14, b15, rfl⟩

theorem bv_ver : ∀ v : BitVec 8, ((v &&& 0x0F#8) ||| 0x50#8) >>> 4 = 5#8 := by decide
theorem bv_var : ∀ v : BitVec 8, ((v &&& 0x3F#8) ||| 0x80#8) >>> 6 = 2#8 := by decide

theorem u8_ver (b : UInt8) : ((b &&& 0x0F) ||| 0x50) >>> 4 = 5 := by
  apply UInt8.toBitVec_inj.mp
  have := bv_ver b.toBitVec
  simpa using this

theorem u8_var (b : UInt8) : ((b &&& 0x3F) ||| 0x80) >>> 6 = 2 := by
  apply UInt8.toBitVec_inj.mp
  have := bv_var b.toBitVec
  simpa using this

end PG
