/-
  PG.Lemmas.SizeL — size bounds: the strings of the records of a mapping are disjoint slices of
  the input (so their total length is at most the input's), and the cache writer's tables grow
  by at most one entry / `length + 10` string bytes per inserted item.
-/
import PG.Lemmas.Utf8L
import PG.Lemmas.ParserProgress
import PG.Lemmas.WriterInv0
namespace PG

/-! ### what the parser guarantees about one record -/

def optLen (o : Option Bytes) : Nat := (o.map List.length).getD 0

/-- total length of the strings of a record that the cache writer may insert -/
def recSize : Record → Nat
  | .header k v => k.length + optLen v
  | .cls o b => o.length + b.length
  | .field .. => 0
  | .method _ o b a c _ => o.length + b.length + a.length + optLen c

def RecValid : Record → Prop
  | .header k v => validUtf8 k = true ∧ ∀ x, v = some x → validUtf8 x = true
  | .cls o b => validUtf8 o = true ∧ validUtf8 b = true
  | .field ty o b => validUtf8 ty = true ∧ validUtf8 o = true ∧ validUtf8 b = true
  | .method ty o b a c _ => validUtf8 ty = true ∧ validUtf8 o = true ∧ validUtf8 b = true ∧
      validUtf8 a = true ∧ ∀ x, c = some x → validUtf8 x = true

theorem parseUntil_len {p : UInt8 → Bool} {bs s r : Bytes} (h : parseUntil p bs = some (s, r)) :
    s.length + r.length = bs.length ∧ validUtf8 s = true := by
  obtain ⟨_, _, e, hv⟩ := parseUntil_eq h
  refine ⟨?_, hv⟩
  have := congrArg List.length e
  simp only [List.length_append] at this
  omega

theorem parseUntilNoNewline_len {p : UInt8 → Bool} {bs s r : Bytes}
    (h : parseUntilNoNewline p bs = some (s, r)) :
    s.length + r.length = bs.length ∧ validUtf8 s = true :=
  parseUntil_len (parseUntilNoNewline_eq h)

theorem parseClass_good {bs rest : Bytes} {rec : Record} (h : parseClass bs = some (rec, rest)) :
    RecValid rec ∧ rest.length + recSize rec ≤ bs.length := by
  unfold parseClass at h
  split at h
  · cases h
  · rename_i o b1 h1
    split at h
    · cases h
    · rename_i b2 h2
      split at h
      · cases h
      · rename_i ob b3 h3
        split at h
        · cases h
        · rename_i b4 h4
          simp only [Option.some.injEq, Prod.mk.injEq] at h
          obtain ⟨rfl, rfl⟩ := h
          obtain ⟨l1, v1⟩ := parseUntilNoNewline_len h1
          have s2 := (stripPrefix_suffix h2).2
          obtain ⟨l3, v3⟩ := parseUntilNoNewline_len h3
          have s4 := (stripPrefix_suffix h4).2
          have s5 := (consumeNewlines_suffix b4).length_le
          refine ⟨⟨v1, v3⟩, ?_⟩
          simp only [recSize]
          omega

theorem parseHeader_good {bs rest : Bytes} {rec : Record} (h : parseHeader bs = some (rec, rest)) :
    RecValid rec ∧ rest.length + recSize rec ≤ bs.length := by
  unfold parseHeader at h
  split at h
  · cases h
  · rename_i b1 h1
    have s1 := (stripPrefix_suffix h1).2
    simp only [List.length_cons, List.length_nil] at s1
    split at h
    · rename_i b2 h2
      have s2 := (stripPrefix_suffix h2).2
      split at h
      · cases h
      · rename_i v b3 h3
        obtain ⟨l3, v3⟩ := parseUntilNoNewline_len h3
        split at h
        · cases h
        · rename_i b4 h4
          have s4 := (stripPrefix_suffix h4).2
          simp only [Option.some.injEq, Prod.mk.injEq] at h
          obtain ⟨rfl, rfl⟩ := h
          have s5 := (consumeNewlines_suffix b4).length_le
          refine ⟨⟨litSourceFile_valid, ?_⟩, ?_⟩
          · intro x hx
            simp only [Option.some.injEq] at hx
            subst hx; exact v3
          · simp only [recSize, optLen, Option.map_some, Option.getD_some, litSourceFile,
              litSourceFilePrefix, List.length_cons, List.length_nil] at s2 ⊢
            omega
    · split at h
      · cases h
      · rename_i k b2 h2
        obtain ⟨l2, v2⟩ := parseUntil_len h2
        have tk := trim_length_le k
        split at h
        · rename_i b3 h3
          have s3 := (stripPrefix_suffix h3).2
          split at h
          · cases h
          · rename_i v b4 h4
            obtain ⟨l4, v4⟩ := parseUntil_len h4
            have tv := trim_length_le v
            simp only [Option.some.injEq, Prod.mk.injEq] at h
            obtain ⟨rfl, rfl⟩ := h
            have s5 := (consumeNewlines_suffix b4).length_le
            refine ⟨⟨trim_valid _ v2, ?_⟩, ?_⟩
            · intro x hx
              simp only [Option.some.injEq] at hx
              subst hx; exact trim_valid _ v4
            · simp only [recSize, optLen, Option.map_some, Option.getD_some]
              omega
        · simp only [Option.some.injEq, Prod.mk.injEq] at h
          obtain ⟨rfl, rfl⟩ := h
          have s5 := (consumeNewlines_suffix b2).length_le
          refine ⟨⟨trim_valid _ v2, by intro x hx; cases hx⟩, ?_⟩
          simp only [recSize, optLen, Option.map_none, Option.getD_none]
          omega

theorem parseMember_good {bs rest : Bytes} {rec : Record} (h : parseMember bs = some (rec, rest)) :
    RecValid rec ∧ rest.length + recSize rec ≤ bs.length := by
  unfold parseMember at h
  split at h
  · cases h
  rename_i b1 h1
  have s1 := (stripPrefix_suffix h1).1.length_le
  split at h
  · cases h
  rename_i se b2 h2
  have s2 := (parseLinePrefix_suffix h2).length_le
  split at h
  · cases h
  rename_i ty b3 h3
  obtain ⟨l3, v3⟩ := parseUntilNoNewline_len h3
  split at h
  · cases h
  rename_i b4 h4
  have s4 := (stripPrefix_suffix h4).1.length_le
  split at h
  · cases h
  rename_i orig b5 h5
  obtain ⟨l5, v5⟩ := parseUntilNoNewline_len h5
  split at h
  · -- field
    split at h
    · cases h
    rename_i b6 h6
    have s6 := (stripPrefix_suffix h6).1.length_le
    split at h
    · cases h
    rename_i ob b7 h7
    obtain ⟨l7, v7⟩ := parseUntil_len h7
    simp only [Option.some.injEq, Prod.mk.injEq] at h
    obtain ⟨rfl, rfl⟩ := h
    have s8 := (consumeNewlines_suffix b7).length_le
    refine ⟨⟨v3, v5, v7⟩, ?_⟩
    simp only [recSize]
    omega
  · -- method
    rename_i b6 h6
    have s6 := (stripPrefix_suffix h6).1.length_le
    split at h
    · cases h
    rename_i args b7 h7
    obtain ⟨l7, v7⟩ := parseUntilNoNewline_len h7
    split at h
    · cases h
    rename_i b8 h8
    have s8 := (stripPrefix_suffix h8).1.length_le
    split at h
    · cases h
    rename_i os b9 h9
    have s9 := (parseColonNum_suffix h9).length_le
    split at h
    · cases h
    rename_i oe b10 h10
    have s10 : b10.length ≤ b9.length := by
      split at h10
      · exact (parseColonNum_suffix h10).length_le
      · simp only [Option.some.injEq, Prod.mk.injEq] at h10
        rw [← h10.2]; exact Nat.le_refl _
    split at h
    · cases h
    rename_i b11 h11
    have s11 := (stripPrefix_suffix h11).1.length_le
    split at h
    · cases h
    rename_i ob b12 h12
    obtain ⟨l12, v12⟩ := parseUntil_len h12
    simp only [Option.some.injEq, Prod.mk.injEq] at h
    obtain ⟨rfl, rfl⟩ := h
    have s13 := (consumeNewlines_suffix b12).length_le
    obtain ⟨hn, hc⟩ := splitForeign_valid v5
    have hl := splitForeign_length orig
    refine ⟨⟨v3, hn, v12, v7, hc⟩, ?_⟩
    simp only [recSize, optLen]
    omega

theorem parseRecord_ok_good {bs rest : Bytes} {r : Record} (h : parseRecord bs = (.ok r, rest)) :
    RecValid r ∧ rest.length + recSize r ≤ bs.length := by
  have hc := (consumeNewlines_suffix bs).length_le
  rcases parseRecord_cases bs with ⟨r', rest', h', e⟩ | e
  · rw [e] at h
    simp only [Prod.mk.injEq, Item.ok.injEq] at h
    obtain ⟨rfl, rfl⟩ := h
    have : RecValid r' ∧ rest'.length + recSize r' ≤ (consumeNewlines bs).length := by
      rcases h' with h | h | h
      · exact parseHeader_good h
      · exact parseMember_good h
      · exact parseClass_good h
    exact ⟨this.1, by omega⟩
  · rw [e] at h; simp at h

theorem records_ok_valid (bs : Bytes) : ∀ r, Item.ok r ∈ records bs → RecValid r := by
  generalize hn : bs.length = n
  induction n using Nat.strongRecOn generalizing bs with
  | _ n ih =>
    intro r hr
    by_cases hb : bs = []
    · subst hb; simp [records_nil] at hr
    · rw [records_unfold bs hb] at hr
      have hp := parseRecord_progress bs hb
      rcases List.mem_cons.mp hr with h | h
      · exact (parseRecord_ok_good (bs := bs) (rest := (parseRecord bs).2) (by rw [h])).1
      · exact ih _ (by omega) (parseRecord bs).2 rfl r h

/-- the strings of all records are disjoint pieces of the input -/
theorem records_size (bs : Bytes) : ((okRecs (records bs)).map recSize).sum ≤ bs.length := by
  generalize hn : bs.length = n
  induction n using Nat.strongRecOn generalizing bs with
  | _ n ih =>
    by_cases hb : bs = []
    · subst hb; simp [records_nil, okRecs]
    · rw [records_unfold bs hb]
      have hp := parseRecord_progress bs hb
      have i := ih _ (by omega) (parseRecord bs).2 rfl
      cases hi : (parseRecord bs).1 with
      | err l =>
        simp only [okRecs, List.filterMap_cons, Item.ok?] at i ⊢
        omega
      | ok r =>
        have := (parseRecord_ok_good (bs := bs) (rest := (parseRecord bs).2) (by rw [← hi])).2
        simp only [okRecs, List.filterMap_cons, Item.ok?, List.map_cons, List.sum_cons] at i ⊢
        omega

theorem okRecs_count (bs : Bytes) : (okRecs (records bs)).length ≤ bs.length :=
  Nat.le_trans (List.length_filterMap_le _ _) (records_count bs)

/-! ### the string section grows by at most `length + 10` per insert -/

namespace WI

theorem lebWriteFuel_length (f n : Nat) : (lebWriteFuel f n).length ≤ f := by
  induction f generalizing n with
  | zero => simp [lebWriteFuel]
  | succ f ih =>
    simp only [lebWriteFuel]
    split
    · simp
    · have := ih (n / 128)
      simp only [List.length_cons]; omega

theorem insert_bytes_le (T : StrTab) (s : Bytes) :
    (T.insert s).1.bytes.length ≤ T.bytes.length + s.length + 10 := by
  unfold StrTab.insert
  split
  · simp only; omega
  · split
    · simp only; omega
    · have := lebWriteFuel_length 10 s.length
      simp only [List.length_append, lebWrite]
      omega

theorem fcTab_bytes_le (T : StrTab) (c : Option Bytes) :
    (fcTab T c).bytes.length ≤ T.bytes.length + optLen c + 10 := by
  cases c with
  | none => simp only [fcTab]; omega
  | some x =>
    have := insert_bytes_le T x
    simp only [fcTab, optLen, Option.map_some, Option.getD_some]
    omega

theorem stepTab_bytes_le (T : StrTab) (r : Record) :
    (stepTab T r).bytes.length ≤ T.bytes.length + recSize r + 40 := by
  cases r with
  | header k v =>
    simp only [stepTab, recSize]
    split
    · have := fcTab_bytes_le T v; omega
    · omega
  | cls o b =>
    have h1 := insert_bytes_le T b
    have h2 := insert_bytes_le (T.insert b).1 o
    simp only [stepTab, recSize]
    omega
  | field _ _ _ => simp only [stepTab]; omega
  | method ty o b a fc lm =>
    have h1 := insert_bytes_le T b
    have h2 := insert_bytes_le (T.insert b).1 o
    have h3 := fcTab_bytes_le ((T.insert b).1.insert o).1 fc
    have h4 := insert_bytes_le (fcTab ((T.insert b).1.insert o).1 fc) a
    simp only [stepTab, recSize]
    omega

theorem writeGo_bytes_le (st : WState) (recs : List Record) :
    (writeGo st recs).tab.bytes.length ≤
      st.tab.bytes.length + (recs.map recSize).sum + 40 * recs.length := by
  induction recs generalizing st with
  | nil => simp [writeGo]
  | cons r rest ih =>
    have h1 := ih (writeStep st r rest.head?)
    have h2 := stepTab_bytes_le st.tab r
    rw [writeStep_tab] at h1
    simp only [writeGo, List.map_cons, List.sum_cons, List.length_cons]
    omega

/-! ### the tables grow by at most one class / member / by-params entry per record -/

def clsM (l : List (Bytes × ClassInProgress)) : Nat :=
  (((l.map (·.2)).map cipMembers).flatten).length
def clsB (l : List (Bytes × ClassInProgress)) : Nat :=
  (((l.map (·.2)).map cipBps).flatten).length

theorem upsert_const_bound {α : Type} (f : ClassInProgress → List α) (k : Bytes)
    (c : ClassInProgress) (l : List (Bytes × ClassInProgress)) :
    (sortedUpsert cmpBytes k (fun _ => c) l).length ≤ l.length + 1 ∧
    ((((sortedUpsert cmpBytes k (fun _ => c) l).map (·.2)).map f).flatten).length ≤
      (((l.map (·.2)).map f).flatten).length + (f c).length := by
  induction l with
  | nil => simp [sortedUpsert]
  | cons q l ih =>
    obtain ⟨a, b⟩ := q
    simp only [sortedUpsert]
    split
    · simp; omega
    · simp; omega
    · simp only [List.length_cons, List.map_cons, List.flatten_cons, List.length_append]
      omega

theorem flushCip_bound (classes : List (Bytes × ClassInProgress)) (c : ClassInProgress) :
    (flushCip classes c).length ≤ classes.length + 1 ∧
    clsM (flushCip classes c) ≤ clsM classes + (cipMembers c).length ∧
    clsB (flushCip classes c) ≤ clsB classes + (cipBps c).length := by
  unfold flushCip clsM clsB
  split
  · exact ⟨by omega, by omega, by omega⟩
  · exact ⟨(upsert_const_bound cipMembers _ _ _).1, (upsert_const_bound cipMembers _ _ _).2,
      (upsert_const_bound cipBps _ _ _).2⟩

/-- after `n` records: at most `n` classes, members and by-params entries -/
structure Cnt (st : WState) (n : Nat) : Prop where
  nc : st.classes.length ≤ n
  nm : clsM st.classes + (cipMembers st.cur).length ≤ n
  nb : clsB st.classes + (cipBps st.cur).length ≤ n

theorem writeStep_cnt (st : WState) (n : Nat) (h : Cnt st n) (r : Record) (next : Option Record) :
    Cnt (writeStep st r next) (n + 1) := by
  obtain ⟨h1, h2, h3⟩ := h
  cases r with
  | header k v =>
    rw [writeStep_header]
    split
    · exact ⟨by simp only; omega, by simp only [cipMembers] at h2 ⊢; omega,
        by simp only [cipBps] at h3 ⊢; omega⟩
    · exact ⟨by omega, by omega, by omega⟩
  | cls o b =>
    rw [writeStep_cls]
    obtain ⟨f1, f2, f3⟩ := flushCip_bound st.classes st.cur
    refine ⟨by simp only; omega, ?_, ?_⟩
    · simp only [cipMembers, ClassInProgress.empty, List.map_nil, List.flatten_nil, List.length_nil]
      simp only [cipMembers] at f2 h2
      omega
    · simp only [cipBps, ClassInProgress.empty, List.map_nil, List.flatten_nil, List.length_nil]
      simp only [cipBps] at f3 h3
      omega
  | field _ _ _ => exact ⟨by simp only [writeStep]; omega, by simp only [writeStep]; omega,
      by simp only [writeStep]; omega⟩
  | method ty o b a fc lm =>
    rw [writeStep_method]
    have am : ∀ (c : ClassInProgress) (m : RawMember),
        (cipMembers (addMember c b m)).length = (cipMembers c).length + 1 ∧
        cipBps (addMember c b m) = cipBps c := by
      intro c m
      exact ⟨by simp only [addMember, cipMembers, upsert_flat_len], rfl⟩
    have ab : ∀ (c : ClassInProgress) (m : RawMember),
        (cipBps (addBp c o b a m)).length = (cipBps c).length + 1 ∧
        cipMembers (addBp c o b a m) = cipMembers c := by
      intro c m
      exact ⟨by simp only [addBp, cipBps, upsert_flat_len], rfl⟩
    refine ⟨by simp only; omega, ?_, ?_⟩
    · simp only
      split
      · rw [(am _ _).1]; omega
      · rw [(ab _ _).2, (am _ _).1]; omega
    · simp only
      split
      · rw [(am _ _).2]; omega
      · rw [(ab _ _).1, (am _ _).2]; omega

theorem writeGo_cnt (st : WState) (n : Nat) (h : Cnt st n) (recs : List Record) :
    Cnt (writeGo st recs) (n + recs.length) := by
  induction recs generalizing st n with
  | nil => exact h
  | cons r rest ih =>
    have := ih _ (n + 1) (writeStep_cnt st n h r rest.head?)
    simp only [writeGo, List.length_cons]
    rw [show n + (rest.length + 1) = n + 1 + rest.length by omega]
    exact this

theorem init_cnt : Cnt WState.init 0 := by
  constructor <;> simp [WState.init, clsM, clsB, cipMembers, cipBps, ClassInProgress.empty]

/-- sizes of the built tables in terms of the record list -/
theorem build_sizes (recs : List Record) :
    (Tables.build recs).classes.length ≤ recs.length + 1 ∧
    (Tables.build recs).members.length ≤ recs.length ∧
    (Tables.build recs).byParams.length ≤ recs.length ∧
    (Tables.build recs).strings.length ≤ (recs.map recSize).sum + 40 * recs.length := by
  rw [build_eq]
  simp only [asmCls_length, List.length_map]
  obtain ⟨c1, c2, c3⟩ := writeGo_cnt WState.init 0 init_cnt recs
  obtain ⟨f1, f2, f3⟩ := flushCip_bound (writeGo WState.init recs).classes (writeGo WState.init recs).cur
  have hb := writeGo_bytes_le WState.init recs
  simp only [Nat.zero_add] at c1 c2 c3
  refine ⟨?_, ?_, ?_, ?_⟩
  · unfold finClasses; omega
  · unfold finClasses; simp only [clsM] at f2 c2; omega
  · unfold finClasses; simp only [clsB] at f3 c3; omega
  · simp only [WState.init, StrTab.empty, List.length_nil, Nat.zero_add] at hb
    exact hb

end WI

end PG
