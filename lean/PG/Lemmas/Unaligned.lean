/-
  PG.Lemmas.Unaligned — the reader at an address that is not a multiple of 8.
-/
import PG.Lemmas.Serial
namespace PG

theorem parseAt_zero (buf : Bytes) : Cache.parseAt 0 buf = Cache.parse buf := by
  unfold Cache.parseAt Cache.parse
  have h24 : pad8 (0 + 24) = 0 := by decide
  simp only [Nat.zero_mod, bne_self_eq_false, Bool.false_eq_true, if_false, h24, Nat.zero_add, Nat.add_zero]

theorem parseAt_misaligned (a : Nat) (h : a % 4 ≠ 0) (buf : Bytes) :
    Cache.parseAt a buf = .error .invalidHeader := by
  unfold Cache.parseAt
  rw [if_pos (by simp [h])]

theorem pad8_congr (x y : Nat) (h : x % 8 = y % 8) : pad8 x = pad8 y := by
  unfold pad8; omega

theorem alignSkip_len (off : Nat) (rest r : Bytes) (h : alignSkip off rest = some r) :
    r.length + pad8 off = rest.length := by
  unfold alignSkip at h
  split at h
  · cases h
  · simp only [Option.some.injEq] at h
    subst h
    simp only [List.length_drop]; omega

theorem rdClasses_len (n : Nat) (bs r : Bytes) (cs : List RawClass) (h : rdClasses n bs = some (cs, r)) :
    r.length + 28 * n = bs.length := by
  induction n generalizing bs cs with
  | zero =>
    simp only [rdClasses, Option.some.injEq, Prod.mk.injEq] at h
    obtain ⟨-, rfl⟩ := h
    simp
  | succ n ih =>
    rw [rdClasses] at h
    split at h
    · cases h
    · next fs r1 h1 =>
      have l1 := (rdFields_len _ _ _ _ h1).2
      split at h
      · next c cs' r' hc h2 =>
        simp only [Option.some.injEq, Prod.mk.injEq] at h
        obtain ⟨-, rfl⟩ := h
        have := ih _ _ h2
        omega
      · cases h

theorem rdMembers_len (n : Nat) (bs r : Bytes) (cs : List RawMember) (h : rdMembers n bs = some (cs, r)) :
    r.length + 36 * n = bs.length := by
  induction n generalizing bs cs with
  | zero =>
    simp only [rdMembers, Option.some.injEq, Prod.mk.injEq] at h
    obtain ⟨-, rfl⟩ := h
    simp
  | succ n ih =>
    rw [rdMembers] at h
    split at h
    · cases h
    · next fs r1 h1 =>
      have l1 := (rdFields_len _ _ _ _ h1).2
      split at h
      · next c cs' r' hc h2 =>
        simp only [Option.some.injEq, Prod.mk.injEq] at h
        obtain ⟨-, rfl⟩ := h
        have := ih _ _ h2
        omega
      · cases h

/-- Whatever the reader accepts at an address ≡ `a` (mod 8) is at least as long as the header
    implies *plus* the bytes skipped to reach the next multiple of 8 after the header. -/
theorem parseAt_ok_length (a : Nat) (buf : Bytes) (c : Cache) (h : Cache.parseAt a buf = .ok c) :
    a % 4 = 0 ∧ ∃ magic version nc nm nb sb rest,
      rdFields 6 buf = some ([magic, version, nc, nm, nb, sb], rest) ∧
      impliedLength nc nm nb sb + pad8 (a + 24) ≤ buf.length := by
  unfold Cache.parseAt at h
  split at h
  · cases h
  next ha =>
  have ha4 : a % 4 = 0 := by
    simp only [bne_iff_ne, ne_eq, Decidable.not_not] at ha
    exact ha
  refine ⟨ha4, ?_⟩
  split at h
  case h_2 => cases h
  next magic version nc nm nb sb rest hf =>
  refine ⟨magic, version, nc, nm, nb, sb, rest, hf, ?_⟩
  have l0 := (rdFields_len _ _ _ _ hf).2
  split at h; · cases h
  split at h; · cases h
  split at h; · cases h
  split at h; · cases h
  next r1 h1 =>
  have l1 := alignSkip_len _ _ _ h1
  split at h; · cases h
  split at h; · cases h
  next cs r2 h2 =>
  have l2 := rdClasses_len _ _ _ _ h2
  simp only at h
  split at h; · cases h
  next r3 h3 =>
  have l3 := alignSkip_len _ _ _ h3
  split at h; · cases h
  split at h; · cases h
  next ms r4 h4 =>
  have l4 := rdMembers_len _ _ _ _ h4
  split at h; · cases h
  next r5 h5 =>
  have l5 := alignSkip_len _ _ _ h5
  split at h; · cases h
  split at h; · cases h
  next bps r6 h6 =>
  have l6 := rdMembers_len _ _ _ _ h6
  split at h; · cases h
  next r7 h7 =>
  have l7 := alignSkip_len _ _ _ h7
  split at h; · cases h
  next hsb =>
  simp only [impliedLength, startStrings, endBp, startBp, endMembers, startMembers, endClasses]
  have hA : (a + 24 + pad8 (a + 24)) % 8 = 0 := by unfold pad8; omega
  generalize pad8 (a + 24) = p0 at *
  have e1 : pad8 (a + 24 + p0 + 28 * nc) = pad8 (24 + 28 * nc) := pad8_congr _ _ (by omega)
  rw [e1] at l3 l5 l7
  generalize pad8 (24 + 28 * nc) = p1 at *
  have e2 : pad8 (a + 24 + p0 + 28 * nc + p1 + 36 * nm) = pad8 (24 + 28 * nc + p1 + 36 * nm) :=
    pad8_congr _ _ (by omega)
  rw [e2] at l5 l7
  generalize pad8 (24 + 28 * nc + p1 + 36 * nm) = p2 at *
  have e3 : pad8 (a + 24 + p0 + 28 * nc + p1 + 36 * nm + p2 + 36 * nb) =
      pad8 (24 + 28 * nc + p1 + 36 * nm + p2 + 36 * nb) := pad8_congr _ _ (by omega)
  rw [e3] at l7
  generalize pad8 (24 + 28 * nc + p1 + 36 * nm + p2 + 36 * nb) = p3 at *
  omega

/-- A written file — whole or torn — is never accepted at an address that is not a multiple of 8:
    at `a ≡ 4` the reader needs four bytes more than the file has, elsewhere the header cast fails. -/
theorem parseAt_written_rejected (t : Tables) (h : t.Fits) (a : Nat) (ha : a % 8 ≠ 0) (k : Nat) :
    ∃ e, Cache.parseAt a (t.bytes.take k) = .error e := by
  cases hp : Cache.parseAt a (t.bytes.take k) with
  | error e => exact ⟨e, rfl⟩
  | ok c =>
    exfalso
    obtain ⟨ha4, magic, version, nc, nm, nb, sb, rest, hf, hl⟩ := parseAt_ok_length a _ c hp
    have hpad : pad8 (a + 24) = 4 := by unfold pad8; omega
    have hlen : (t.bytes.take k).length ≤ t.bytes.length := by rw [List.length_take]; omega
    rcases Nat.lt_or_ge k 24 with h24 | h24
    · have : (t.bytes.take k).length < 4 * 6 := by rw [List.length_take]; omega
      rw [rdFields_none 6 _ this] at hf
      cases hf
    have hsb : t.strings.length < u32Bound := by have := h.sb; simp only [u32Max, u32Bound] at *; omega
    have hhdr : ∃ rest, rdFields 6 (t.bytes.take k) = some ([magicPRGC, cacheVersion,
        t.classes.length, t.members.length, t.byParams.length, t.strings.length], rest) := by
      rw [bytes_eq, h.msum, h.bsum, List.take_append, encHeader_length,
        List.take_of_length_le (by rw [encHeader_length]; exact h24), rdFields_encHeader,
        asU32_of_lt _ h.nc, asU32_of_lt _ h.nm, asU32_of_lt _ h.nb, asU32_of_lt _ hsb]
      exact ⟨_, rfl⟩
    obtain ⟨rest', hr'⟩ := hhdr
    rw [hr'] at hf
    simp only [Option.some.injEq, Prod.mk.injEq, List.cons.injEq] at hf
    obtain ⟨⟨-, -, rfl, rfl, rfl, rfl, -⟩, -⟩ := hf
    rw [bytes_length] at hlen
    omega

end PG
