/-
  PG.Spec.Utf8 — the Unicode-level definitions that the byte-level model mirrors:
  * UTF-8 (Unicode Standard §3.9, Table 3-6/3-7): the encoding of a scalar value;
  * `White_Space` (PropList.txt): the 25 code points `char::is_whitespace` / `str::trim` strip.
  Written from the standard, sharing no code with `validUtf8` / `trim` in PG.Model.Basic.
-/
import PG.Model.Basic
namespace PG.Utf8Spec

/-- Unicode scalar values: code points except the surrogates D800–DFFF -/
def isScalar (c : Nat) : Bool := c < 0xD800 || (0xE000 ≤ c && c < 0x110000)

/-- UTF-8 encoding of a scalar value (Table 3-6) -/
def encode (c : Nat) : Bytes :=
  if c < 0x80 then [UInt8.ofNat c]
  else if c < 0x800 then [UInt8.ofNat (0xC0 + c / 64), UInt8.ofNat (0x80 + c % 64)]
  else if c < 0x10000 then
    [UInt8.ofNat (0xE0 + c / 4096), UInt8.ofNat (0x80 + c / 64 % 64), UInt8.ofNat (0x80 + c % 64)]
  else
    [UInt8.ofNat (0xF0 + c / 262144), UInt8.ofNat (0x80 + c / 4096 % 64),
     UInt8.ofNat (0x80 + c / 64 % 64), UInt8.ofNat (0x80 + c % 64)]

def encodeAll (cs : List Nat) : Bytes := cs.flatMap encode

/-- `White_Space=Yes` code points -/
def isWhiteSpace (c : Nat) : Bool :=
  (9 ≤ c && c ≤ 13) || c == 0x20 || c == 0x85 || c == 0xA0 || c == 0x1680 ||
  (0x2000 ≤ c && c ≤ 0x200A) || c == 0x2028 || c == 0x2029 || c == 0x202F || c == 0x205F ||
  c == 0x3000

/-- `str::trim` on code points: drop leading and trailing white space -/
def trimChars (cs : List Nat) : List Nat :=
  ((cs.dropWhile isWhiteSpace).reverse.dropWhile isWhiteSpace).reverse

end PG.Utf8Spec
