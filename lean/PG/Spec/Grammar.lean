/-
  PG.Spec.Grammar — the documented ProGuard/R8 mapping line grammar as an AST with its
  printer and the record each line denotes.  Written from the format description
  (`mapping.rs` doc comments: `originalclassname -> obfuscatedclassname:`,
  `[startline:endline:]originalreturntype [originalclassname.]originalmethodname(args)[:originalstartline[:originalendline]] -> obfuscatedmethodname`,
  `originalfieldtype originalfieldname -> obfuscatedfieldname`, `# key: value` headers and the
  R8 JSON `sourceFile` header); it shares no code with the parser model.
-/
import PG.Model.Parser
namespace PG

inductive Line where
  | cls (orig obf : Bytes)
  | field (ty name obf : Bytes)
  | method (range : Option (Nat × Nat)) (ty : Bytes) (fc : Option Bytes) (name args : Bytes)
      (orig : Option (Nat × Option Nat)) (obf : Bytes)
  | headerKV (key value : Bytes)
  | headerKey (key : Bytes)
  | sourceFile (value : Bytes)
deriving Repr, DecidableEq

namespace Line

def printRange : Option (Nat × Nat) → Bytes
  | none => []
  | some (s, e) => natToDec s ++ [58] ++ natToDec e ++ [58]

def printOrig : Option (Nat × Option Nat) → Bytes
  | none => []
  | some (os, none) => 58 :: natToDec os
  | some (os, some oe) => 58 :: natToDec os ++ 58 :: natToDec oe

def printFc : Option Bytes → Bytes
  | none => []
  | some c => c ++ [46]

def print : Line → Bytes
  | cls orig obf => orig ++ litArrow ++ obf ++ [58]
  | field ty name obf => litIndent ++ ty ++ [32] ++ name ++ litArrow ++ obf
  | method range ty fc name args orig obf =>
    litIndent ++ printRange range ++ ty ++ [32] ++ printFc fc ++ name ++ [40] ++ args ++ [41] ++
      printOrig orig ++ litArrow ++ obf
  | headerKV key value => [35, 32] ++ key ++ [58, 32] ++ value
  | headerKey key => [35, 32] ++ key
  | sourceFile value => 35 :: litSourceFilePrefix ++ value ++ litQuoteBrace

/-- the line mapping a method line denotes: present iff both obfuscated line numbers are
    positive; original start / end present iff printed -/
def lineMapping (range : Option (Nat × Nat)) (orig : Option (Nat × Option Nat)) : Option LineMapping :=
  match range with
  | some (s, e) =>
    if 0 < s ∧ 0 < e then some ⟨s, e, orig.map (·.1), orig.bind (·.2)⟩ else none
  | none => none

def toRecord : Line → Record
  | cls orig obf => .cls orig obf
  | field ty name obf => .field ty name obf
  | method range ty fc name args orig obf => .method ty name obf args fc (lineMapping range orig)
  | headerKV key value => .header key (some value)
  | headerKey key => .header key none
  | sourceFile value => .header litSourceFile (some value)

def noNl (s : Bytes) : Prop := ∀ b ∈ s, isNewline b = false

/-- a string component: valid UTF-8, free of line terminators -/
def Str (s : Bytes) : Prop := validUtf8 s = true ∧ noNl s

/-- the first byte (if any) is not "numeric" (so it cannot be read as a start line) -/
def noLeadNum (s : Bytes) : Prop := ∀ b, s.head? = some b → isNumericByte b = false

/-- grammar well-formedness per line kind (components free of their own delimiters) -/
def WF : Line → Prop
  | cls orig obf =>
    Str orig ∧ Str obf ∧ 32 ∉ orig ∧ orig.head? ≠ some 35 ∧ 58 ∉ obf
  | field ty name obf =>
    Str ty ∧ Str name ∧ Str obf ∧ 32 ∉ ty ∧ noLeadNum ty ∧ 32 ∉ name ∧ 40 ∉ name
  | method range ty fc name args orig obf =>
    Str ty ∧ Str name ∧ Str args ∧ Str obf ∧ (∀ c, fc = some c → Str c ∧ 32 ∉ c ∧ 40 ∉ c) ∧
    32 ∉ ty ∧ (range = none → noLeadNum ty) ∧
    32 ∉ name ∧ 40 ∉ name ∧ 46 ∉ name ∧ 41 ∉ args ∧
    (∀ s e, range = some (s, e) → s < usizeBound ∧ e < usizeBound) ∧
    (∀ os oe, orig = some (os, oe) → os < usizeBound ∧ ∀ x, oe = some x → x < usizeBound)
  | headerKV key value =>
    Str key ∧ Str value ∧ 58 ∉ key ∧ trim (32 :: key) = key ∧ trim (32 :: value) = value
  | headerKey key => Str key ∧ 58 ∉ key ∧ trim (32 :: key) = key
  | sourceFile value => Str value ∧ 34 ∉ value

end Line

/-- what may follow a line: nothing, or a line terminator and anything -/
def TailOK (tail : Bytes) : Prop := tail = [] ∨ ∃ nl r, tail = nl :: r ∧ isNewline nl = true

end PG
