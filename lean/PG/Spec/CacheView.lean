/-
  PG.Spec.CacheView — the *meaning* of a parsed cache: every class entry with its strings
  resolved and its member / by-params slices decoded, and the statement `WriterSpec recs c`
  that a cache `c` represents the record stream `recs` (the interface between the proof about
  the cache *writer* and the proof about the cache *reader*).
-/
import PG.Model.CacheRead
import PG.Spec.Retrace
namespace PG

/-- a member entry with its strings resolved; line fields are the raw `u32`s -/
structure MView where
  obf : Bytes
  name : Bytes
  args : Bytes
  fc : Option Bytes
  file : Option Bytes
  startline : Nat
  endline : Nat
  origStart : Nat
  origEnd : Nat
  /-- the raw offset of the original method name (the reader compares these offsets) -/
  nameOff : Nat
deriving Repr, DecidableEq

structure CView where
  obf : Bytes
  orig : Bytes
  members : List MView
  byParams : List MView
deriving Repr

namespace Cache

/-- an optional string field: the sentinel means absent, anything else must be readable -/
def optStr (c : Cache) (off : Nat) : Option (Option Bytes) :=
  if off = u32Max then some none else (c.str off).map some

def viewMember (c : Cache) (m : RawMember) : Option MView :=
  match c.str m.obfOff, c.str m.origNameOff, c.optStr m.origClassOff, c.optStr m.origFileOff,
        c.optStr m.paramsOff with
  | some obf, some name, some fc, some file, some args =>
    some ⟨obf, name, args.getD [], fc, file, m.startline, m.endline, m.origStartline, m.origEndline,
          m.origNameOff⟩
  | _, _, _, _, _ => none

def viewClass (c : Cache) (k : RawClass) : Option CView :=
  match c.str k.obfOff, c.str k.origOff, c.classMembers k, c.classByParams k with
  | some obf, some orig, some ms, some bs =>
    match ms.mapM c.viewMember, bs.mapM c.viewMember with
    | some mv, some bv => some ⟨obf, orig, mv, bv⟩
    | _, _ => none
  | _, _, _, _ => none

def view (c : Cache) : Option (List CView) := c.classes.mapM c.viewClass

end Cache

/-- what the writer stores for an entry -/
def MView.ofEntry (e : SpecR.Entry) (nameOff : Nat) : MView :=
  let r := rawLines e.lm
  ⟨e.obf, e.name, e.args, e.fc, e.file, r.1, r.2.1, r.2.2.1, r.2.2.2, nameOff⟩

/-- a view with the raw name offset erased (for comparison with the specification) -/
def MView.core (v : MView) : MView := { v with nameOff := 0 }

/-- the non-inlined entries of a block, first occurrence per (obf, args, name) -/
def SpecR.Block.realEntries (b : SpecR.Block) : List SpecR.Entry :=
  SpecR.dedupBy (fun e => (e.obf, e.args, e.name)) (b.entries.filter (fun e => !e.inlined)) []

/-- `c` represents `recs`: classes strictly sorted by name, exactly one per obfuscated class
    name of `recs` with the data of its last block; member entries sorted by obfuscated name
    and, per name, in file order; by-params entries sorted by (name, args) and, per pair, the
    distinct real methods in file order; original-name offsets identify names; the sentinel is
    not a readable offset. -/
structure WriterSpec (recs : List Record) (c : Cache) : Prop where
  strings_small : c.strings.length < u32Max
  view_some : ∃ v, c.view = some v
  classes_sorted : ∀ v, c.view = some v → (v.map (·.obf)).Pairwise (fun a b => cmpBytes a b = .lt)
  class_iff : ∀ v, c.view = some v → ∀ name,
    (SpecR.lastBlock recs name = none → ∀ cv ∈ v, cv.obf ≠ name) ∧
    (∀ b, SpecR.lastBlock recs name = some b → ∃ cv ∈ v, cv.obf = name ∧ cv.orig = b.orig ∧
      cv.members.Pairwise (fun x y => cmpBytes x.obf y.obf ≠ .gt) ∧
      (∀ m, (cv.members.filter (fun x => x.obf == m)).map MView.core =
              (b.entries.filter (fun e => e.obf == m)).map (fun e => MView.ofEntry e 0)) ∧
      cv.byParams.Pairwise (fun x y => cmpPair (x.obf, x.args) (y.obf, y.args) ≠ .gt) ∧
      (∀ m p, (cv.byParams.filter (fun x => x.obf == m && x.args == p)).map MView.core =
              (b.realEntries.filter (fun e => e.obf == m && e.args == p)).map (fun e => MView.ofEntry e 0)))
  name_inj : ∀ v, c.view = some v → ∀ cv ∈ v, ∀ x ∈ cv.members, ∀ y ∈ cv.members,
    (x.nameOff = y.nameOff ↔ x.name = y.name)

/-- C02's representable domain on the record stream: every name that is present is non-empty,
    every string is valid UTF-8 (guaranteed by Rust's `&str`), every line number is below
    2^32-1 -/
def ReprRec : Record → Prop
  | .header k v => k = litSourceFile → ∀ x, v = some x → x ≠ [] ∧ validUtf8 x = true
  | .cls o b => o ≠ [] ∧ b ≠ [] ∧ validUtf8 o = true ∧ validUtf8 b = true
  | .field .. => True
  | .method _ o b a fc lm =>
    o ≠ [] ∧ b ≠ [] ∧ validUtf8 o = true ∧ validUtf8 b = true ∧ validUtf8 a = true ∧
    (∀ x, fc = some x → x ≠ [] ∧ validUtf8 x = true) ∧
    (∀ l, lm = some l → l.startline < u32Max ∧ l.endline < u32Max ∧
      (∀ x, l.originalStartline = some x → x < u32Max) ∧
      (∀ x, l.originalEndline = some x → x < u32Max))

def ReprR (recs : List Record) : Prop := ∀ r ∈ recs, ReprRec r

end PG
