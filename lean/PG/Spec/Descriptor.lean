/-
  PG.Spec.Descriptor — the JVM method-descriptor grammar (JVMS §4.3.3) as an AST with its
  printer, and the Java rendering the property C16 demands.  Independent of the model's
  scanner.
-/
import PG.Model.Java
namespace PG

inductive JType where
  | prim (c : UInt8)          -- one of Z B C S I J F D, or V (return position)
  | obj (name : Bytes)        -- internal name, `/`-separated
  | arr (t : JType)
deriving Repr, DecidableEq

namespace JType

/-- descriptor text of a type -/
def enc : JType → Bytes
  | prim c => [c]
  | obj n => 76 :: (n ++ [59])
  | arr t => 91 :: enc t

/-- well-formed: a known primitive code; object names free of `;` and `)` -/
def Valid : JType → Prop
  | prim c => (javaBaseType c).isSome = true
  | obj n => 59 ∉ n ∧ 41 ∉ n
  | arr t => Valid t

def depth : JType → Nat
  | arr t => depth t + 1
  | _ => 0

def dots (n : Bytes) : Bytes := n.map (fun c => if c == 47 then 46 else c)

/-- element type rendered: keyword, or dotted name replaced by the original class name when
    the mapping knows it -/
def base (rc : Bytes → Option Bytes) : JType → Bytes
  | prim c => (javaBaseType c).getD []
  | obj n => (rc (dots n)).getD (dots n)
  | arr t => base rc t

def brackets (k : Nat) : Bytes := (List.replicate k litBrackets).flatten

/-- the Java type: element type followed by one `[]` per array dimension -/
def render (rc : Bytes → Option Bytes) (t : JType) : Bytes := base rc t ++ brackets t.depth

end JType

/-- `(` params `)` return -/
def descriptor (ps : List JType) (r : JType) : Bytes :=
  40 :: ((ps.map JType.enc).flatten ++ 41 :: r.enc)

end PG
