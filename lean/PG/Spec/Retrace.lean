/-
  PG.Spec.Retrace — what the ProGuard/R8 retrace rule says a mapping file means, stated on the
  record stream (`List Record`) without any of the mapper's or the cache's data structures.

  A *block* is a class line together with the records that follow it up to the next class
  line.  Queries for an obfuscated class name are answered from the **last** block with that
  name (blocks whose original class name is empty do not count).  Inside a block the
  `sourceFile` headers are positional: every method entry carries the file named by the last
  `sourceFile` header seen before it in the block (a header without value resets it).
-/
import PG.Model.Mapper
namespace PG
namespace SpecR

structure Block where
  orig : Bytes
  obf : Bytes
  body : List Record
deriving Repr

def isCls : Record → Bool
  | .cls .. => true
  | _ => false

/-- the records of a block: everything up to the next class line -/
def bodyOf (recs : List Record) : List Record := recs.takeWhile (fun r => !isCls r)

/-- the blocks of a file in file order (records before the first class line belong to none) -/
def blocksOf : List Record → List Block
  | [] => []
  | .cls o b :: rest => ⟨o, b, bodyOf rest⟩ :: blocksOf rest
  | _ :: rest => blocksOf rest

/-- the block that answers for obfuscated class `c`: the last one with that name -/
def lastBlock (recs : List Record) (c : Bytes) : Option Block :=
  ((blocksOf recs).filter (fun b => b.obf == c && !b.orig.isEmpty)).getLast?

/-- a method entry of a block, with the source file current at its position and whether the
    *next* record of the block is a method entry with the identical obfuscated range
    (i.e. this entry is an inlined callee) -/
structure Entry where
  obf : Bytes
  name : Bytes
  args : Bytes
  fc : Option Bytes
  lm : Option LineMapping
  file : Option Bytes
  inlined : Bool
deriving Repr

def sameRange (cur : Option LineMapping) (next : Option Record) : Bool :=
  match cur, next with
  | some c, some (.method _ _ _ _ _ (some n)) => c.startline == n.startline && c.endline == n.endline
  | _, _ => false

def entriesFrom (file : Option Bytes) : List Record → List Entry
  | [] => []
  | .header k v :: rest => entriesFrom (if k == litSourceFile then v else file) rest
  | .method _ name obf args fc lm :: rest =>
    ⟨obf, name, args, fc, lm, file, sameRange lm rest.head?⟩ :: entriesFrom file rest
  | _ :: rest => entriesFrom file rest

def Block.entries (b : Block) : List Entry := entriesFrom none b.body

/-- the entry applies to `line`: it has no usable obfuscated range, or the range contains it -/
def applies (lm : Option LineMapping) (line : Nat) : Bool :=
  match lm with
  | none => true
  | some l => l.endline == 0 || (l.startline ≤ line && line ≤ l.endline)

def satAdd' (a b : Nat) : Nat := if a + b < 18446744073709551616 then a + b else 18446744073709551615

/-- the ProGuard line rule: 0 without a range; the recorded original line when only a start
    (or a one-line original range) is given — the call-site line of an inlining parent or a
    collapsed range; otherwise the offset into the original range (saturating in `usize`);
    without an original part the obfuscated range maps to itself -/
def origLineOf (lm : Option LineMapping) (line : Nat) : Nat :=
  match lm with
  | none => 0
  | some l =>
    match l.originalStartline with
    | some os =>
      (match l.originalEndline with
       | none => os
       | some oe => if oe = os then os else satAdd' os line - l.startline)
    | none => if l.endline = l.startline then l.startline else satAdd' l.startline line - l.startline

/-- outer class simple name: last `.`-segment of the class, cut at its first `$` -/
def outerSimpleName (cls : Bytes) : Bytes :=
  let seg := (cls.reverse.takeWhile (· != 46)).reverse
  seg.takeWhile (· != 36)

def syntheticMarker : Bytes :=
  [82, 56, 36, 36, 83, 121, 110, 116, 104, 101, 116, 105, 99, 67, 108, 97, 115, 115]

/-- the source-file rule: the block's current `sourceFile` (the outer class's simple name when
    it is the R8 synthetic marker); else nothing for an entry inlined from a foreign class;
    else the file of the queried frame -/
def fileOf (e : Entry) (blockOrig : Bytes) (qfile : Option Bytes) : Option Bytes :=
  match e.file with
  | some f => if f = syntheticMarker then some (outerSimpleName (e.fc.getD blockOrig)) else some f
  | none => if e.fc.isSome then none else qfile

/-- line-based retrace -/
def framesByLine (recs : List Record) (q : Frame) : List Frame :=
  match lastBlock recs q.cls with
  | none => []
  | some b =>
    ((b.entries.filter (fun e => e.obf == q.method)).filter (fun e => applies e.lm q.line)).map
      (fun e => { cls := e.fc.getD b.orig, method := e.name, line := origLineOf e.lm q.line,
                  file := fileOf e b.orig q.file, params := q.params })

/-- keep the first occurrence of every key -/
def dedupBy {α κ : Type} [BEq κ] (key : α → κ) : List α → List κ → List α
  | [], _ => []
  | a :: as, seen => if seen.contains (key a) then dedupBy key as seen else a :: dedupBy key as (key a :: seen)

/-- parameter-based retrace: the non-inlined entries of the block, one per distinct
    (obfuscated name, arguments, original name) in file order, that match name and arguments -/
def framesByParams (recs : List Record) (q : Frame) (p : Bytes) : List Frame :=
  match lastBlock recs q.cls with
  | none => []
  | some b =>
    let real := b.entries.filter (fun e => !e.inlined)
    let distinct := dedupBy (fun e => (e.obf, e.args, e.name)) real []
    (distinct.filter (fun e => e.obf == q.method && e.args == p)).map
      (fun e => { cls := e.fc.getD b.orig, method := e.name, line := 0, file := none, params := q.params })

def classOf (recs : List Record) (c : Bytes) : Option Bytes := (lastBlock recs c).map (·.orig)

/-- (original class, original method) iff the class is known, at least one entry has that
    obfuscated method name, and all such entries carry the same original method name -/
def methodOf (recs : List Record) (c m : Bytes) : Option (Bytes × Bytes) :=
  match lastBlock recs c with
  | none => none
  | some b =>
    match b.entries.filter (fun e => e.obf == m) with
    | [] => none
    | e :: rest => if rest.all (fun x => x.name == e.name) then some (b.orig, e.name) else none

end SpecR
end PG
